import IV.Lemmas.CleanPipeline
import IV.Lemmas.CleanIPv4
import IV.Lemmas.CleanMacHost
import IV.Model.CleanSpecDecl
/-!
C08 — nothing configured or recognised as sensitive survives cleaning.

Every theorem is about the executable model `IV.CleanLine` of the per-line pipeline of
`insights.cleaner` (tied to the code by harness/c08.py), for ALL lines, configurations, tables of
issued substitutes and allow lists.  "Survives" is read with provenance: a line is a list of
(character, is-original) pairs, `NoOrigOcc k out` says that no window of the output made of ORIGINAL
characters only spells `k` — text that "coincides with a substitute issued by the obfuscator itself"
(the property's exception) is exactly text that contains an inserted character, and is excluded by
this formulation, not by a hypothesis.

The theorems are for the plain substitution mode (`width = False`); the width-preserving mode of
`netstat -neopa` deletes characters and is tied by correspondence only.
-/
namespace IV.CleanLine

/-! ### provenance core (DESIGN Appendix A.6) -/

/-- after `s.replace(k, v)` no all-original window of the result spells `k` -/
theorem replaceAll_clears (k v : Str) (hk : k ≠ []) (hv : v ≠ []) (s : PStr) :
    NoOrigOcc k (replaceAll k v s) :=
  replaceAll_noOrigOcc k v hk hv s

example : NoOrigOcc "ab".toList (replaceAll "ab".toList "X".toList (orig "aabab".toList)) :=
  replaceAll_clears _ _ (by decide) (by decide) _

/-- `origWindow_infix`: every all-original window of `s.replace(k, v)`, `v ≠ ""`, is a window of `s`:
original runs only shrink or split, they never join -/
theorem origWindow_infix (k v : Str) (hv : v ≠ []) (s : PStr) : Shrinks s (replaceAll k v s) :=
  (replaceAll_edit k v hv s).shrinks

/-- a later replacement with a non-empty substitute cannot create an all-original occurrence -/
theorem clears_preserved (k k' v' : Str) (hv' : v' ≠ []) (s : PStr) (h : NoOrigOcc k s) :
    NoOrigOcc k (replaceAll k' v' s) :=
  h.of_shrinks (origWindow_infix k' v' hv' s)

example : NoOrigOcc "ab".toList (replaceAll "X".toList "a".toList (replaceAll "ab".toList "X".toList (orig "aXb ab".toList))) :=
  clears_preserved _ _ _ (by decide) _ (replaceAll_clears _ _ (by decide) (by decide) _)

/-- the same for the substitution of the password expressions (`re.sub`), for ANY matcher -/
theorem password_sub_preserves (m : Str → Option (Nat × Nat)) (k : Str) (s : PStr) (h : NoOrigOcc k s) :
    NoOrigOcc k (subPw m 0 s) :=
  h.of_shrinks (by simpa using (subPw_edit m s 0).shrinks)

/-- every obfuscator stage, and hence the whole obfuscation pipeline, only shrinks original runs -/
theorem pipeline_shrinks (cfg : Cfg) (tb : Tables) (htb : TablesOk tb) (v6 : List Str) (sts : List Stage)
    (l out : PStr) (h : runStages cfg tb false v6 sts l = .ok out) : Shrinks l out :=
  runStages_shrinks htb v6 sts h

/-! ### exclusion patterns -/

/-- a kept line is one on which NO exclusion pattern matches — for any matcher `hit` (substring test,
`re.search`, …), unless the call says `no_redact` (the empty line is returned as it is) -/
theorem pattern_redacts (hit : Pat → Str → Bool) (cfg : Cfg) (tb : Tables) (call : Call)
    (allow a' : Option Allow) (line : Str) (v6 : List Str) (out : PStr)
    (hnr : call.noRedact = false) (hne : line.take cfg.maxLen ≠ [])
    (h : cleanLine hit cfg tb call allow line v6 = .ok (a', some out)) :
    ∀ p ∈ cfg.pats, hit p (line.take cfg.maxLen) = false := by
  have hp := (cleanLine_kept h).2 hnr
  unfold patternStage at hp
  simp only at hp
  split at hp
  · rename_i he
    cases hl : line.take cfg.maxLen with
    | nil => exact absurd hl hne
    | cons c cs => rw [hl] at he; simp [orig] at he
  · split at hp
    · simp at hp
    · rename_i hany
      intro p hpm
      rw [chars_orig] at hany
      simp only [List.any_eq_true, not_exists, not_and, Bool.not_eq_true] at hany
      exact hany p hpm

example : (cleanLine Pat.hit ⟨[.plain "DROP".toList], [], false, false, false, false, "h".toList, 100⟩ ⟨[], [], [], []⟩
    ⟨[], false, false⟩ none "x DROPME".toList []).toOption = some (none, none) := by decide

/-- content level: every line of the cleaned content is the cleaned image of an input line, and (unless
`no_redact`) of one on which no exclusion pattern matches -/
theorem pattern_redacts_content (hit : Pat → Str → Bool) (cfg : Cfg) (tb : Tables) (call : Call)
    (allow : Option Allow) (lines : List (Str × List Str)) (outs : List PStr)
    (h : cleanContent hit cfg tb call allow lines = .ok outs) :
    ∀ o ∈ outs, ∃ lv ∈ lines, (∃ a a', cleanLine hit cfg tb call a lv.1 lv.2 = .ok (a', some o)) ∧
      (call.noRedact = false → lv.1.take cfg.maxLen ≠ [] → ∀ p ∈ cfg.pats, hit p (lv.1.take cfg.maxLen) = false) := by
  have hseq : ∀ (ls : List (Str × List Str)) (a : Option Allow) (res : List PStr),
      cleanSeq hit cfg tb call a ls = .ok res →
      ∀ o ∈ res, ∃ lv ∈ ls, ∃ a a', cleanLine hit cfg tb call a lv.1 lv.2 = .ok (a', some o) := by
    intro ls
    induction ls with
    | nil => intro a res hr; simp [cleanSeq, pure, Except.pure] at hr; subst hr; simp
    | cons lv rest ih =>
      intro a res hr o ho
      obtain ⟨line, v6⟩ := lv
      simp only [cleanSeq] at hr
      split at hr
      · simp at hr
      · rename_i a1 o1 h1
        split at hr
        · simp at hr
        · rename_i outs1 h2
          simp [pure, Except.pure] at hr
          subst hr
          cases o1 with
          | none =>
            obtain ⟨lv', hm, hx⟩ := ih a1 outs1 h2 o ho
            exact ⟨lv', by simp [hm], hx⟩
          | some l =>
            simp only [List.mem_cons] at ho
            rcases ho with rfl | ho
            · exact ⟨(line, v6), by simp, a, a1, h1⟩
            · obtain ⟨lv', hm, hx⟩ := ih a1 outs1 h2 o ho
              exact ⟨lv', by simp [hm], hx⟩
  intro o ho
  unfold cleanContent at h
  split at h
  · simp at h
  · rename_i res hres
    have hmem : o ∈ res := by
      split at h
      · simp [pure, Except.pure] at h; subst h; simpa using ho
      · simp [pure, Except.pure] at h; subst h; simp at ho
    obtain ⟨lv, hm, a, a1, hx⟩ := hseq _ _ _ hres o hmem
    refine ⟨lv, by simpa using hm, ⟨a, a1, hx⟩, ?_⟩
    intro hnr hne
    exact pattern_redacts hit cfg tb call a a1 lv.1 lv.2 o hnr hne hx

/-! ### keywords -/

/-- no configured keyword has an all-original occurrence in a cleaned line (whatever the other
obfuscators did before and do after), unless the call exempts the spec from keyword replacement -/
theorem keyword_cleared (hit : Pat → Str → Bool) (cfg : Cfg) (tb : Tables) (htb : TablesOk tb) (call : Call)
    (hw : call.width = false) (hkw : Stage.keyword ∈ stagesOf cfg call)
    (k v : Str) (hk : (k, v) ∈ kwDb cfg.keywords) (hne : k ≠ [])
    (allow a' : Option Allow) (line : Str) (v6 : List Str) (out : PStr)
    (h : cleanLine hit cfg tb call allow line v6 = .ok (a', some out)) : NoOrigOcc k out := by
  have hrun := (cleanLine_kept h).1
  rw [hw] at hrun
  obtain ⟨before, after, hst⟩ := List.append_of_mem hkw
  rw [hst] at hrun
  obtain ⟨l1, h1, _⟩ := runStages_append_ok hrun
  refine stage_clears_to_end htb v6 k before after Stage.keyword h1 ?_ hrun
  intro l2 h2
  unfold runStage at h2
  split at h2
  · rename_i he
    simp [pure, Except.pure] at h2; subst h2
    have : l1 = [] := by simpa using he
    subst this
    exact noOrigOcc_nil hne
  · simp [pure, Except.pure] at h2; subst h2
    exact applyAll_clears _ _ k v (kwDb_stepsOk _) hk hne

example : (Stage.keyword ∈ stagesOf ⟨[], ["secret".toList], true, true, true, false, "web1.abc.com".toList, 100⟩ ⟨[], false, false⟩) ∧
    ("secret".toList, "keyword0".toList) ∈ kwDb ["secret".toList] := by decide

/-! ### IPv4 addresses -/

/-- a canonical dotted quad (first octet 1–255, others 0–255, no leading zeros) that is not preceded by a
word character or '.', and not followed by a digit, is returned by the recogniser as exactly that string -/
theorem ipv4_found (pre t post : Str) (ht : Quad t)
    (hpre : EndsOk (fun c => !isWord c && c != '.') pre)
    (hpost : StartsOk (fun c => !isDigit c) post) :
    t ∈ findIPv4 (pre ++ t ++ post) :=
  ipv4_found_core pre t post ht hpre hpost

example : Quad "10.1.2.3".toList ∧ EndsOk (fun c => !isWord c && c != '.') "src=".toList ∧
    StartsOk (fun c => !isDigit c) ":80".toList :=
  ⟨⟨"10".toList, "1".toList, "2".toList, "3".toList, by decide, by decide, by decide, by decide, by decide⟩,
   by intro c h; simp at h; subst h; decide, by intro c h; simp at h; subst h; decide⟩

/-- hence: on the line as the IPv4 stage receives it (`l1`: the input line, after host-name obfuscation when
that is enabled), every such address other than loopback has no all-original occurrence in the output of
the pipeline — not at that place and not anywhere else on the line -/
theorem ipv4_no_leak (cfg : Cfg) (tb : Tables) (htb : TablesOk tb) (call : Call) (v6 : List Str)
    (before after : List Stage) (hst : stagesOf cfg call = before ++ Stage.ip :: after)
    (l l1 out : PStr) (h1 : runStages cfg tb false v6 before l = .ok l1)
    (pre t post : Str) (hl1 : chars l1 = pre ++ t ++ post) (ht : Quad t) (hlb : t ≠ loopback)
    (hpre : EndsOk (fun c => !isWord c && c != '.') pre)
    (hpost : StartsOk (fun c => !isDigit c) post)
    (hout : runStages cfg tb false v6 (stagesOf cfg call) l = .ok out) : NoOrigOcc t out := by
  rw [hst] at hout
  refine stage_clears_to_end htb v6 t before after Stage.ip h1 ?_ hout
  intro l2 h2
  have htne : t ≠ [] := quad_ne_nil t ht
  unfold runStage at h2
  split at h2
  · rename_i he
    have : l1 = [] := by simpa using he
    subst this
    simp [chars] at hl1
    exact absurd hl1.2.1 htne
  · obtain ⟨steps, hs, rfl⟩ := ipStage_steps h2
    have hmem : t ∈ ipKeys (chars l1) := by
      unfold ipKeys
      rw [List.mem_filter, mem_sortLenDesc, hl1]
      exact ⟨ipv4_found pre t post ht hpre hpost, by simpa [ignoreListV4] using hlb⟩
    obtain ⟨v, hv⟩ := resolve_mem hs hmem
    exact applyAll_clears steps l1 t v (resolve_stepsOk htb.ip hs) hv htne

/-! ### host names -/

/-- a host of the system's domain, delimited as described in `host_found_core`, is returned by the recogniser -/
theorem host_found (d pre lab post : Str) (hlab : HostLabel lab)
    (hd : ∀ c ∈ d, isHostCls c = true) (hov : noSelfOverlap d = true) (hdl : d.getLast? ≠ some '.')
    (hpre : EndsOk (fun c => !isHostCls c) pre)
    (hnodot : '.' ∉ pre.drop (pre.length - d.length))
    (hpost : StartsOk (fun c => !isHostCls c) post) :
    (lab ++ '.' :: d) ∈ findHost d (pre ++ (lab ++ '.' :: d) ++ post) :=
  host_found_core d pre lab post hlab hd hov hdl hpre hnodot hpost

example : HostLabel "db-1".toList ∧ (∀ c ∈ "abc.com".toList, isHostCls c = true) ∧ noSelfOverlap "abc.com".toList = true ∧
    "abc.com".toList.getLast? ≠ some '.' := by
  refine ⟨⟨⟨'d', "b-1".toList, rfl, by decide⟩, by decide⟩, by decide, by decide, by decide⟩

/-- the system's short host name has no all-original occurrence in a cleaned line — ANY occurrence, no
delimiter condition (`line.replace(short, …)` is the last step of the stage) -/
theorem short_name_cleared (cfg : Cfg) (tb : Tables) (htb : TablesOk tb) (call : Call) (v6 : List Str)
    (hh : Stage.hostname ∈ stagesOf cfg call) (hne : shortName cfg.fqdn ≠ [])
    (l out : PStr) (hout : runStages cfg tb false v6 (stagesOf cfg call) l = .ok out) :
    NoOrigOcc (shortName cfg.fqdn) out := by
  obtain ⟨before, after, hst⟩ := List.append_of_mem hh
  rw [hst] at hout
  obtain ⟨l1, h1, _⟩ := runStages_append_ok hout
  refine stage_clears_to_end htb v6 _ before after Stage.hostname h1 ?_ hout
  intro l2 h2
  unfold runStage at h2
  split at h2
  · rename_i he
    simp [pure, Except.pure] at h2; subst h2
    have : l1 = [] := by simpa using he
    subst this
    exact noOrigOcc_nil hne
  · obtain ⟨steps, self, hs, hself, rfl⟩ := hostStage_steps h2
    refine applyAll_clears _ l1 _ self ?_ (by simp) hne
    intro kv hkv
    simp only [List.mem_append, List.mem_singleton] at hkv
    rcases hkv with hkv | rfl
    · exact resolve_stepsOk htb.host hs kv hkv
    · exact htb.host _ _ hself

/-- hence neither has the fully-qualified name -/
theorem fqdn_cleared (cfg : Cfg) (tb : Tables) (htb : TablesOk tb) (call : Call) (v6 : List Str)
    (hh : Stage.hostname ∈ stagesOf cfg call) (hne : shortName cfg.fqdn ≠ [])
    (l out : PStr) (hout : runStages cfg tb false v6 (stagesOf cfg call) l = .ok out) :
    NoOrigOcc cfg.fqdn out := by
  have h := short_name_cleared cfg tb htb call v6 hh hne l out hout
  have : cfg.fqdn = shortName cfg.fqdn ++ cfg.fqdn.dropWhile (· != '.') := by
    simp [shortName, List.takeWhile_append_dropWhile]
  rw [this]
  exact h.append _

/-- another host of the system's domain, delimited as in `host_found`, has no all-original occurrence in
the output of the pipeline -/
theorem host_no_leak (cfg : Cfg) (tb : Tables) (htb : TablesOk tb) (call : Call) (v6 : List Str)
    (before after : List Stage) (hst : stagesOf cfg call = before ++ Stage.hostname :: after)
    (l l1 out : PStr) (h1 : runStages cfg tb false v6 before l = .ok l1)
    (d pre lab post : Str) (hdom : domainOf cfg.fqdn = some d)
    (hl1 : chars l1 = pre ++ (lab ++ '.' :: d) ++ post) (hlab : HostLabel lab)
    (hd : ∀ c ∈ d, isHostCls c = true) (hov : noSelfOverlap d = true) (hdl : d.getLast? ≠ some '.')
    (hpre : EndsOk (fun c => !isHostCls c) pre)
    (hnodot : '.' ∉ pre.drop (pre.length - d.length))
    (hpost : StartsOk (fun c => !isHostCls c) post)
    (hout : runStages cfg tb false v6 (stagesOf cfg call) l = .ok out) : NoOrigOcc (lab ++ '.' :: d) out := by
  rw [hst] at hout
  refine stage_clears_to_end htb v6 _ before after Stage.hostname h1 ?_ hout
  intro l2 h2
  have htne : lab ++ '.' :: d ≠ [] := by simp
  unfold runStage at h2
  split at h2
  · rename_i he
    have : l1 = [] := by simpa using he
    subst this
    simp [chars] at hl1
  · obtain ⟨steps, self, hs, hself, rfl⟩ := hostStage_steps h2
    have hmem : (lab ++ '.' :: d) ∈ hostKeys cfg.fqdn (chars l1) := by
      unfold hostKeys
      rw [hdom, hl1]
      exact host_found d pre lab post hlab hd hov hdl hpre hnodot hpost
    obtain ⟨v, hv⟩ := resolve_mem hs hmem
    refine applyAll_clears _ l1 _ v ?_ (by simp [hv]) htne
    intro kv hkv
    simp only [List.mem_append, List.mem_singleton] at hkv
    rcases hkv with hkv | rfl
    · exact resolve_stepsOk htb.host hs kv hkv
    · exact htb.host _ _ hself

/-! ### MAC addresses -/

/-- a MAC address whose neighbours are not hexadecimal digits, ':' or '-' is returned by the recogniser -/
theorem mac_found (pre t post : Str) (ht : MacTok t)
    (hpre : EndsOk (fun c => !isMacCls c) pre)
    (hpost : StartsOk (fun c => !isMacCls c) post) :
    t ∈ findMac (pre ++ t ++ post) :=
  mac_found_core pre t post ht hpre hpost

/-- the clause of the property for one delimiter class `ok` of the neighbours, at the MAC stage: an address
of the line that is not all-zero/broadcast and has a substitute in the table (it has one unless it is
itself a substitute issued earlier) has no all-original occurrence after the stage -/
def MacNoLeak (ok : Char → Bool) : Prop :=
  ∀ (tbl : List (Str × Str)) (l : PStr) (pre t post v : Str), TblOk tbl → chars l = pre ++ t ++ post →
    MacTok t → macIgnored t = false → EndsOk ok pre → StartsOk ok post → lookup tbl t = some v →
    ∀ out, macStage tbl l = .ok out → NoOrigOcc t out

/-- the property's statement: delimited by NON-WORD characters -/
def MacNoLeakFull : Prop := MacNoLeak (fun c => !isWord c)

/-- what the code guarantees: neighbours that are not hexadecimal digits, ':' or '-' -/
theorem mac_no_leak_stage_partial : MacNoLeak (fun c => !isMacCls c) := by
  intro tbl l pre t post v htbl hl ht hign hpre hpost hv out hout
  obtain ⟨steps, hs, rfl⟩ := macStage_steps hout
  refine applyAll_clears _ l t v (resolveGuard_stepsOk htbl hs) ?_ (macTok_ne_nil ht)
  refine (resolveGuard_spec _ _ hs).2 t v ?_ hv
  unfold macKeys
  rw [List.mem_filter, hl]
  exact ⟨mac_found pre t post ht hpre hpost, by simp [hign]⟩

/-- FALSE for the property's delimiter class: `MAC:52:54:00:aa:bb:cc` — ':' is a non-word character, but the
look-behind of the expression excludes it (known finding mac-after-colon) -/
theorem mac_witness : ¬ MacNoLeakFull := by
  intro h
  have := h [("52:54:00:aa:bb:cc".toList, "a9:80:fb:e0:9a:03".toList)] (orig "MAC:52:54:00:aa:bb:cc".toList)
    "MAC:".toList "52:54:00:aa:bb:cc".toList [] "a9:80:fb:e0:9a:03".toList
    (by intro k v hkv; simp only [lookup] at hkv; split at hkv <;> simp at hkv; subst hkv; decide)
    (by decide)
    ⟨':', '5', '2', '5', '4', '0', '0', 'a', 'a', 'b', 'b', 'c', 'c', by decide, by decide, by decide, by decide,
      by decide, by decide, by decide, by decide, by decide, by decide, by decide, by decide, by decide, rfl⟩
    (by decide) (by intro c hc; simp at hc; subst hc; decide) (by intro c hc; simp at hc) (by decide)
    (orig "MAC:52:54:00:aa:bb:cc".toList) (by rfl)
  exact this (orig "MAC:".toList) (orig "52:54:00:aa:bb:cc".toList) [] (by decide) (allOrig_orig _)
    (by decide)

/-- pipeline level: such an address has no all-original occurrence in the output of the pipeline -/
theorem mac_no_leak_partial (cfg : Cfg) (tb : Tables) (htb : TablesOk tb) (call : Call) (v6 : List Str)
    (before after : List Stage) (hst : stagesOf cfg call = before ++ Stage.mac :: after)
    (l l1 out : PStr) (h1 : runStages cfg tb false v6 before l = .ok l1)
    (pre t post v : Str) (hl1 : chars l1 = pre ++ t ++ post) (ht : MacTok t) (hign : macIgnored t = false)
    (hpre : EndsOk (fun c => !isMacCls c) pre) (hpost : StartsOk (fun c => !isMacCls c) post)
    (hv : lookup tb.mac t = some v)
    (hout : runStages cfg tb false v6 (stagesOf cfg call) l = .ok out) : NoOrigOcc t out := by
  rw [hst] at hout
  refine stage_clears_to_end htb v6 t before after Stage.mac h1 ?_ hout
  intro l2 h2
  unfold runStage at h2
  split at h2
  · rename_i he
    have : l1 = [] := by simpa using he
    subst this
    simp [chars] at hl1
    exact absurd hl1.2.1 (macTok_ne_nil ht)
  · exact mac_no_leak_stage_partial tb.mac l1 pre t post v htb.mac hl1 ht hign hpre hpost hv l2 h2

/-! ### passwords -/

/-- at a key `password<w>` followed by one of the separators the first expression lists (`PwSep`: ':' / '='
with optional blanks and double quotes, `--md5`, blanks) and a secret over the class of group 3 that does not
start with '=' or '-', ended by a character outside that class or by the end of the line: the expression keeps
key and separator and replaces exactly the secret -/
theorem password_match_partial (w sep x post : Str) (hw : ∀ c ∈ w, isWordA c = true) (hsep : PwSep sep)
    (hx : Secret x) (hpost : ∀ c, post.head? = some c → isSecret c = false) :
    pwMatch1 (pwLit ++ (w ++ (sep ++ (x ++ post)))) = some (8 + w.length + sep.length, x.length) :=
  pwMatch1_accepted w sep x post hw hsep hx hpost

/-- on a line: when that key is the first one on the line, the stage's result is the text up to and including the
separator unchanged, then `********` (inserted), then the rest of the line cleaned on its own — the secret is gone.
PARTIAL with respect to "a secret that follows a 'password' key is masked": only for the notations of `PwSep`
(`password='x'`, `Password=x`, `password={x}` are outside; listed in the evidence), for secrets over the class of
group 3 (a character outside it ends the secret: `password=ab.cd` keeps `.cd`), and for a key that reaches the
stage intact (known finding keyword-splits-password-key) -/
theorem password_masked_partial (pre w sep x post : Str) (hpre : NoKeyBefore pre)
    (hw : ∀ c ∈ w, isWordA c = true) (hsep : PwSep sep) (hx : Secret x) (hstar : x.head? ≠ some '*')
    (hpost : ∀ c, post.head? = some c → isSecret c = false) :
    passwordStage (orig (pre ++ (pwLit ++ (w ++ (sep ++ (x ++ post)))))) =
      orig (pre ++ (pwLit ++ (w ++ sep))) ++ ins stars ++ subPw pwMatch1 0 (orig post) := by
  have h1 := subPw1_masks pre w sep x post hpre hw hsep hx hpost
  have e : pre ++ (pwLit ++ (w ++ (sep ++ (x ++ post)))) = (pre ++ (pwLit ++ (w ++ sep))) ++ (x ++ post) := by
    simp only [List.append_assoc]
  rw [e] at h1 ⊢
  generalize pre ++ (pwLit ++ (w ++ sep)) = A at h1 ⊢
  have hne : (chars (subPw pwMatch1 0 (orig (A ++ (x ++ post)))) != chars (orig (A ++ (x ++ post)))) = true := by
    rw [h1]
    simp only [bne_iff_ne, ne_eq, chars_append, chars_orig, chars_ins, List.append_assoc]
    intro h
    have h' := List.append_cancel_left h
    obtain ⟨⟨c, r, rfl, _, _⟩, _⟩ := hx
    have hs : stars = '*' :: "*******".toList := by decide
    rw [hs] at h'
    simp only [List.cons_append, List.cons.injEq] at h'
    exact hstar (by simp [← h'.1])
  simp only [passwordStage, hne, if_true]
  exact h1

example : PwSep [' ', '=', ' ', '"'] ∧ Secret "hunter2".toList ∧ NoKeyBefore "db ".toList ∧
    chars (passwordStage (orig "db password_x = \"hunter2\" ok".toList)) = "db password_x = \"********\" ok".toList := by
  refine ⟨?_, ⟨⟨'h', "unter2".toList, by decide, by decide, by decide⟩, by decide⟩, by unfold NoKeyBefore; decide, by decide⟩
  exact PwSep.eqQuote [' '] [] [] [' '] [] (by unfold Blank; decide) (by unfold Quotes; decide)
    (by unfold Blank; decide) (by unfold Blank; decide) (by unfold Blank; decide)

/-! ### the hypotheses of the pipeline theorems are satisfiable (a worked configuration) -/

/-- system `web1.abc.com`, everything switched on, one keyword -/
def cfgX : Cfg := ⟨[.plain "DROPME".toList], ["secret".toList], true, true, true, false, "web1.abc.com".toList, 1048576⟩
def callX : Call := ⟨[], false, false⟩
def tbX : Tables :=
  ⟨[("10.1.2.3".toList, "10.230.230.1".toList)],
   [("web1.abc.com".toList, "b44e17fcea60.example.com".toList), ("db-1.abc.com".toList, "host2.example.com".toList)],
   [("52:54:00:aa:bb:cc".toList, "a9:80:fb:e0:9a:03".toList)], []⟩

example : TablesOk tbX :=
  ⟨tblOk_of_all _ (by decide), tblOk_of_all _ (by decide), tblOk_of_all _ (by decide), tblOk_of_all _ (by decide)⟩

/-- the stages in the order the code applies them; host names first, so `before = [hostname]` for the IPv4 stage -/
example : stagesOf cfgX callX = [Stage.hostname] ++ Stage.ip :: [Stage.keyword, Stage.mac, Stage.password] := by decide
example : stagesOf cfgX callX = [] ++ Stage.hostname :: [Stage.ip, Stage.keyword, Stage.mac, Stage.password] := by decide
example : stagesOf cfgX callX = [Stage.hostname, Stage.ip, Stage.keyword] ++ Stage.mac :: [Stage.password] := by decide
example : domainOf cfgX.fqdn = some "abc.com".toList ∧ shortName cfgX.fqdn = "web1".toList := by decide

/-- a whole line through the model: host, address, keyword, MAC and password secret are replaced, the
MAC after ':' (known finding) is not -/
example : ((cleanLine Pat.hit cfgX tbX callX none
      "db-1.abc.com 10.1.2.3:80 secret 52:54:00:aa:bb:cc MAC:52:54:00:aa:bb:cd password=hunter2".toList []).toOption.bind
        (fun r => r.2.map chars)) =
    some "host2.example.com 10.230.230.1:80 keyword0 a9:80:fb:e0:9a:03 MAC:52:54:00:aa:bb:cd password=********".toList := by
  decide

example : MacTok "52:54:00:aa:bb:cc".toList ∧ macIgnored "52:54:00:aa:bb:cc".toList = false :=
  ⟨⟨':', '5', '2', '5', '4', '0', '0', 'a', 'a', 'b', 'b', 'c', 'c', by decide, by decide, by decide, by decide,
    by decide, by decide, by decide, by decide, by decide, by decide, by decide, by decide, by decide, rfl⟩, by decide⟩

/-! ### per-spec exemptions are per CALL -/

/-- the stages a call runs are determined by the configuration and by THAT call's exemption list alone (two calls
with the same `no_obfuscate` run the same stages, whatever `no_redact` / `width` say and whatever was called before) -/
theorem stages_depend_on_own_exemptions (cfg : Cfg) (c c' : Call) (h : c.noObf = c'.noObf) :
    stagesOf cfg c = stagesOf cfg c' := by
  simp [stagesOf, h]

/-- in a history of calls on one cleaner, what call `k` yields is what a single call with the same arguments yields
(on a cleaner with the same configuration and the same substitute tables) … -/
theorem history_call_is_single_call (hit : Pat → Str → Bool) (cfg : Cfg) (tb : Tables) (calls : List CallIn) (k : Nat) :
    (cleanHistory hit cfg tb calls)[k]? = (calls[k]?).map (fun c => cleanContent hit cfg tb c.1 c.2.1 c.2.2) := by
  simp [cleanHistory]

/-- … hence it does not depend on the other calls of the history — in particular not on THEIR exemptions -/
theorem exemption_is_per_call (hit : Pat → Str → Bool) (cfg : Cfg) (tb : Tables) (h h' : List CallIn) (k : Nat)
    (hk : h[k]? = h'[k]?) : (cleanHistory hit cfg tb h)[k]? = (cleanHistory hit cfg tb h')[k]? := by
  rw [history_call_is_single_call, history_call_is_single_call, hk]

/-- an exempting call followed by a non-exempted one: the second runs every enabled stage -/
example : stagesOf cfgX ⟨["hostname".toList, "ip".toList, "ipv6".toList, "mac".toList], false, false⟩ = [Stage.keyword, Stage.password] ∧
    stagesOf cfgX callX = [Stage.hostname, Stage.ip, Stage.keyword, Stage.mac, Stage.password] := by decide

/-! ### width mode (`netstat -neopa`): the MAC clause is FALSE there

The theorems above are for the plain substitution mode.  In width mode `_sub_ip_keep_width` deletes characters of the
line, so original runs can JOIN and no `Shrinks` statement holds; the mode is tied by correspondence only.  The clause
itself fails there (known finding width-mode-eats-text) — also when only a BLANK is deleted: `155.25.0.25x- 70-F4-…`
becomes `10.230.230.1x-70-F4-…`, the MAC then follows `-` and is not recognised (corpus witness, line 0): -/

/-- the MAC clause with the code's own delimiter class, for a call in width mode: an address delimited on the line as
the IPv4 stage receives it has no all-original occurrence after the IPv4 and MAC stages -/
def MacNoLeakWidth : Prop :=
  ∀ (ipT macT : List (Str × Str)) (l l1 out : PStr) (pre t post v : Str), TblOk ipT → TblOk macT →
    chars l = pre ++ t ++ post → MacTok t → macIgnored t = false →
    EndsOk (fun c => !isMacCls c) pre → StartsOk (fun c => !isMacCls c) post → lookup macT t = some v →
    ipStage ipT true l = .ok l1 → macStage macT l1 = .ok out → NoOrigOcc t out

/-- FALSE: `1.2.3.100,a6:68:99:76:75:86 52:54:00:aa:bb:cc` — the substitute is 3 characters longer than the address,
the step removes ` 52` at the first blank behind it, the first MAC now stands before `:` and is not recognised -/
theorem width_mode_witness : ¬ MacNoLeakWidth := by
  intro h
  have := h [("1.2.3.100".toList, "10.230.230.1".toList)]
    [("a6:68:99:76:75:86".toList, "b5:b4:9a:d5:45:3c".toList), ("52:54:00:aa:bb:cc".toList, "a9:80:fb:e0:9a:bd".toList)]
    (orig "1.2.3.100,a6:68:99:76:75:86 52:54:00:aa:bb:cc".toList)
    (ins "10.230.230.1".toList ++ orig ",a6:68:99:76:75:86:54:00:aa:bb:cc".toList)
    (ins "10.230.230.1".toList ++ orig ",a6:68:99:76:75:86:54:00:aa:bb:cc".toList)
    "1.2.3.100,".toList "a6:68:99:76:75:86".toList " 52:54:00:aa:bb:cc".toList "b5:b4:9a:d5:45:3c".toList
    (tblOk_of_all _ (by decide)) (tblOk_of_all _ (by decide)) (by decide)
    ⟨':', 'a', '6', '6', '8', '9', '9', '7', '6', '7', '5', '8', '6', by decide, by decide, by decide, by decide,
      by decide, by decide, by decide, by decide, by decide, by decide, by decide, by decide, by decide, rfl⟩
    (by decide) (by intro c hc; simp at hc; subst hc; decide) (by intro c hc; simp at hc; subst hc; decide) (by decide)
    (by rfl) (by rfl)
  exact this (ins "10.230.230.1".toList ++ orig ",".toList) (orig "a6:68:99:76:75:86".toList)
    (orig ":54:00:aa:bb:cc".toList) (by decide) (allOrig_orig _) (by decide)

/-! ### ignore lists are lists of WHOLE items -/

/-- an address found on a line is substituted iff it is not a MEMBER of the ignore list (the test is on the whole
token: an address that merely is a substring or a superstring of an ignored one is substituted) -/
theorem ignored_iff_mem (s ip : Str) : ip ∈ ipKeys s ↔ ip ∈ findIPv4 s ∧ ip ∉ ignoreListV4 := by
  simp [ipKeys, List.mem_filter, mem_sortLenDesc]

/-- the list is exactly `127.0.0.1` -/
theorem ignored_v4_iff_loopback (ip : Str) : ip ∈ ignoreListV4 ↔ ip = loopback := by
  simp [ignoreListV4]

/-- a found MAC is left alone iff the whole address, lower-cased, is a member of the two-element ignore list -/
theorem mac_ignored_iff_mem (s m : Str) : m ∈ macKeys s ↔ m ∈ findMac s ∧ m.map lowerA ∉ macIgnoreList := by
  simp [macKeys, macIgnored, List.mem_filter]

/-- neighbours of the ignored items: 27.0.0.1 and 127.0.0.10 are substituted, 127.0.0.1 is not; 00:…:01 is, 00:…:00 is not -/
example : ipKeys "27.0.0.1 127.0.0.1 127.0.0.10 7.0.0.1".toList = ["127.0.0.10".toList, "27.0.0.1".toList, "7.0.0.1".toList] ∧
    macKeys "00:00:00:00:00:00 00:00:00:00:00:01 FF:ff:FF:ff:FF:ff fe:ff:ff:ff:ff:ff 00-00-00-00-00-00".toList =
      ["00:00:00:00:00:01".toList, "fe:ff:ff:ff:ff:ff".toList, "00-00-00-00-00-00".toList] := by decide

/-! ### round 10 — from what the USER configures and the SPEC declares to the pipeline

`cfg.pats` and the `Call` of the theorems above are not free parameters in the code: the first is computed from
`rm_conf['patterns']` by `Cleaner.__init__`, the second from the `RegistryPoint` declaration by
`_resolve_registry_points` + `ContentProvider._clean_content` (`IV/Model/CleanSpecDecl.lean`). -/

/-- every configured exclusion pattern — each string of the list form, each expression of the `regex` form — is one of
the patterns the `Pattern` parser is built with (none is dropped, merged, de-duplicated away or skipped for being
blank) -/
theorem configured_patterns_active {α : Type} (rx : α → Pat) (rm : RmPatterns α) :
    ∀ p ∈ rm.configured rx, p ∈ cfgPats rx rm := by
  cases rm with
  | absent => simp [RmPatterns.configured]
  | list ps => simp [RmPatterns.configured, cfgPats]
  | dict keys r =>
    cases r with
    | none => simp [RmPatterns.configured]
    | some rs =>
      cases rs with
      | nil => simp [RmPatterns.configured]
      | cons r rs => simp [RmPatterns.configured, cfgPats]

example : (Pat.plain " ".toList) ∈ (RmPatterns.list [" ".toList, "x".toList, " ".toList] : RmPatterns Str).configured Pat.plain ∧
    cfgPats Pat.plain (RmPatterns.dict ["regex".toList] (some [])) = [Pat.plain "regex".toList] ∧
    cfgPats Pat.plain (RmPatterns.dict ["regex".toList] (some ["a".toList])) = [Pat.plain "a".toList] :=
  ⟨by simp [RmPatterns.configured], rfl, rfl⟩

/-- cleaning is skipped for a (non-filterable) spec ONLY when its declaration exempts it from redaction and from
every obfuscation by name -/
theorem spec_skip_needs_full_exemption (d : SpecDecl) (relPath : Str)
    (h : skipsCleaning (declCall d relPath) = true) :
    d.noRedact = true ∧ ∀ st : Stage, st.name ∈ d.noObf.getD [] := by
  simp only [skipsCleaning, declCall, Bool.and_eq_true, List.all_eq_true] at h
  refine ⟨h.1.1, ?_⟩
  intro st
  have := h.1.2 st.name (by cases st <;> simp [allNames])
  simpa using this

example : skipsCleaning (declCall ⟨some allNames, true, false⟩ "etc/machine-id".toList) = true ∧
    skipsCleaning (declCall ⟨some ["hostname".toList, "ip".toList, "ipv6".toList, "mac".toList], true, false⟩ "etc/machine-id".toList) = false ∧
    skipsCleaning (declCall ⟨none, true, false⟩ "x".toList) = false := by decide

/-- an obfuscator the cleaner holds runs on every spec whose declaration does not name it — whatever else the
declaration says (`no_redact`, `filterable`, other exemptions) and whatever its path is -/
theorem declared_stage_runs (cfg : Cfg) (d : SpecDecl) (relPath : Str) (st : Stage)
    (hhas : cfg.has st = true) (hex : st.name ∉ d.noObf.getD []) :
    st ∈ stagesOf cfg (declCall d relPath) := by
  simp only [stagesOf, declCall, List.mem_filter, hhas, Bool.true_and, Bool.not_eq_true', List.contains_eq_mem,
    decide_eq_false_iff_not]
  exact ⟨by cases st <;> simp, hex⟩

example : cfgX.has .mac = true ∧ Stage.mac.name ∉ (some ["hostname".toList, "ip".toList] : Option (List Str)).getD [] ∧
    stagesOf cfgX (declCall ⟨some ["hostname".toList, "ip".toList], true, true⟩ "a".toList) = [Stage.keyword, .mac, .password] := by
  decide

/-- a point declared without `no_obfuscate` / `no_redact` is cleaned like a call with no exemption at all -/
theorem undeclared_spec_runs_all (cfg : Cfg) (relPath : Str) (f : Bool) :
    stagesOf cfg (declCall ⟨none, false, f⟩ relPath) =
      [Stage.hostname, .ip, .ipv6, .keyword, .mac, .password].filter (fun st => cfg.has st) ∧
    (declCall ⟨none, false, f⟩ relPath).noRedact = false := by
  simp [stagesOf, declCall]

example : stagesOf cfgX (declCall ⟨none, false, true⟩ "insights_commands/netstat_-neopa".toList) =
    [Stage.hostname, .ip, .keyword, .mac, .password] ∧
    (declCall ⟨none, false, true⟩ "insights_commands/netstat_-neopa".toList).width = true ∧
    (declCall ⟨none, false, true⟩ "insights_commands/netstat_-neopa.1".toList).width = false := by decide

/-- what is written for a spec that does not declare `no_redact`: every line is the cleaned image (under the call the
declaration yields) of a collected line on which NO configured exclusion pattern matches — list form or `regex` form,
any matcher, filterable or not -/
theorem declared_spec_redacts {α : Type} (hit : Pat → Str → Bool) (rx : α → Pat) (rm : RmPatterns α) (cfg : Cfg)
    (tb : Tables) (d : SpecDecl) (relPath : Str) (filters : Allow) (lines : List (Str × List Str)) (outs : List PStr)
    (hp : cfg.pats = cfgPats rx rm) (hnr : d.noRedact = false)
    (h : specCleanDecl hit cfg tb d relPath filters lines = .ok (some outs)) :
    ∀ o ∈ outs, ∃ lv ∈ lines,
      (∃ a a', cleanLine hit cfg tb (declCall d relPath) a lv.1 lv.2 = .ok (a', some o)) ∧
      (lv.1.take cfg.maxLen ≠ [] → ∀ p ∈ rm.configured rx, hit p (lv.1.take cfg.maxLen) = false) := by
  have hs : skipsCleaning (declCall d relPath) = false := by simp [skipsCleaning, declCall, hnr]
  unfold specCleanDecl at h
  simp only [hs, Bool.and_false, Bool.false_eq_true, if_false] at h
  split at h
  · rename_i outs' hc
    split at h
    · simp [pure, Except.pure] at h
    · simp only [pure, Except.pure, Except.ok.injEq, Option.some.injEq] at h
      subst h
      intro o ho
      obtain ⟨lv, hm, hx, hpat⟩ := pattern_redacts_content hit cfg tb _ _ lines outs' hc o ho
      refine ⟨lv, hm, hx, ?_⟩
      intro hne p hpm
      exact hpat (by simp [declCall, hnr]) hne p (hp ▸ configured_patterns_active rx rm p hpm)
  · simp at h

example : (specCleanDecl Pat.hit ⟨cfgPats Pat.plain (RmPatterns.list ["DROP".toList]), [], false, false, false, false, "h".toList, 100⟩
    ⟨[], [], [], []⟩ ⟨none, false, false⟩ "etc/x".toList [] [("keep me".toList, []), ("x DROPME".toList, [])]).toOption =
    some (some [orig "keep me".toList]) := by decide

/-- the lines a filterable spec collects are input lines (the `grep -F` pre-filter only selects) -/
theorem preFilter_sublist (keys : List Str) (lines : List (Str × List Str)) :
    (preFilter keys lines).Sublist lines := by
  unfold preFilter
  exact List.filter_sublist

example : preFilter ["ab".toList, "z".toList] [("xaby".toList, []), ("q".toList, []), ("z".toList, [])] =
    [("xaby".toList, []), ("z".toList, [])] := by decide

/-! ### the system's name is taken VERBATIM (`Hostname.__init__`: `_fqdn`, `_hostname = split('.')[0]`, `_domain = rest`) -/

/-- what `Hostname.__init__` stores after the short name: nothing, or `.` and the domain -/
def domainSuffix (fqdn : Str) : Str :=
  match domainOf fqdn with
  | none => []
  | some d => '.' :: d

/-- short name and domain are the configured spelling cut at its first dot — no letter-case folding, no stripping of
white space or of a trailing dot: put together again they ARE the configured name -/
theorem host_init_verbatim (fqdn : Str) : shortName fqdn ++ domainSuffix fqdn = fqdn := by
  induction fqdn with
  | nil => simp [shortName, domainSuffix, domainOf]
  | cons a as ih =>
    by_cases ha : a = '.'
    · subst ha
      simp [shortName, domainSuffix, domainOf, List.takeWhile, List.dropWhile]
    · have hb : (a != '.') = true := by simp [ha]
      simp only [shortName, domainSuffix, domainOf, List.takeWhile_cons, List.dropWhile_cons, hb, if_true] at ih ⊢
      simp only [List.cons_append, ih]

/-- upper-case letters, white space and a trailing dot stay where the caller put them; matching is by that spelling:
the configured name is cleared, the same name in lower case is not the system's configured name and is left alone -/
example : shortName "WebSrv01.Corp.Example.org".toList = "WebSrv01".toList ∧
    domainOf "WebSrv01.Corp.Example.org".toList = some "Corp.Example.org".toList ∧
    shortName " web1.abc.com. ".toList = " web1".toList ∧ domainOf " web1.abc.com. ".toList = some "abc.com. ".toList ∧
    hostKeys "WebSrv01.Corp.Example.org".toList "db7.Corp.Example.org db7.corp.example.org WebSrv01".toList =
      ["db7.Corp.Example.org".toList] := by decide

end IV.CleanLine
