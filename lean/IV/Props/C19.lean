import IV.Lemmas.Peg
import IV.Lemmas.PegPos
import IV.Gen.Grammars
/-!
C19 — parser combinators implement ordered-choice PEG semantics.

`run` (IV/Model/Peg.lean) mirrors `Parser.process` of insights/parsr/__init__.py together with
the two pieces of `Context` a result can depend on (function-error flag, tag stack).  `Ev`
(IV/Lemmas/Peg.lean) is the textbook PEG big-step relation with values; it is stateless.

Everything below is for ALL rule tables, inputs, terms, positions and fuels; "tag-free" means no
StartTagName/EndTagName in the term or in the rule table.  Function errors are handled
semantically: the hypothesis is that the function-error flag is still clear when the run ends.
-/
namespace IV.Peg

/-- every rule of the table is tag-free -/
def RulesTagFree (rules : List Term) : Prop := ∀ (i : Nat) (t : Term), rules[i]? = some t → t.tagFree = true

/-! ### interpreter ⟺ PEG semantics -/

/-- SOUNDNESS.  Whatever `process` returns or raises (fuel not exhausted, no mapped function
raised a non-Backtrack exception) is what PEG semantics prescribes: position and value, or failure. -/
theorem run_sound (rules : List Term) (inp : Str) (hR : RulesTagFree rules) (f : Nat) (t : Term) (pos : Nat)
    (σ σ' : St) (r : Res) (h : run rules inp f t pos σ = (r, σ')) (htf : t.tagFree = true)
    (hf : σ'.ferr = false) (hr : r ≠ .diverge) : Ev rules inp t pos r :=
  ((sound_all rules inp hR f).1 t pos σ r σ' h htf hf).2 hr

/-- COMPLETENESS.  Every PEG derivation is computed by `process`, from every state with a clear
function-error flag, at every sufficiently large fuel, and the state is handed back unchanged. -/
theorem run_complete (rules : List Term) (inp : Str) (hR : RulesTagFree rules) (t : Term) (pos : Nat) (r : Res)
    (h : Ev rules inp t pos r) (htf : t.tagFree = true) :
    ∃ f0, ∀ f, f0 ≤ f → ∀ σ : St, σ.ferr = false → run rules inp f t pos σ = (r, σ) :=
  complete_aux rules inp hR h htf

/-- PEG semantics never yields `diverge` (so `run_complete` is not about the fuel-0 branch) -/
theorem ev_never_diverge (rules : List Term) (inp : Str) (t : Term) (pos : Nat) (r : Res)
    (h : Ev rules inp t pos r) : r ≠ .diverge := by
  induction h <;> simp_all

/-- DETERMINISM of the semantics: a term has at most one outcome at a position — ordered choice
commits, repetition is greedy, there is no ambiguity. -/
theorem ev_deterministic (rules : List Term) (inp : Str) (hR : RulesTagFree rules) (t : Term) (pos : Nat)
    (r₁ r₂ : Res) (h₁ : Ev rules inp t pos r₁) (h₂ : Ev rules inp t pos r₂) (htf : t.tagFree = true) : r₁ = r₂ := by
  obtain ⟨f1, e1⟩ := run_complete rules inp hR t pos r₁ h₁ htf
  obtain ⟨f2, e2⟩ := run_complete rules inp hR t pos r₂ h₂ htf
  have a := e1 (f1 + f2) (by omega) St.init rfl
  have b := e2 (f1 + f2) (by omega) St.init rfl
  rw [a] at b
  exact (Prod.mk.inj b).1

/-- the answer does not depend on how much fuel was given, as long as it was enough -/
theorem run_fuel_independent (rules : List Term) (inp : Str) (hR : RulesTagFree rules) (f g : Nat) (t : Term)
    (pos : Nat) (σ σ₁ σ₂ : St) (r₁ r₂ : Res) (htf : t.tagFree = true)
    (h₁ : run rules inp f t pos σ = (r₁, σ₁)) (h₂ : run rules inp g t pos σ = (r₂, σ₂))
    (hf₁ : σ₁.ferr = false) (hf₂ : σ₂.ferr = false) (hr₁ : r₁ ≠ .diverge) (hr₂ : r₂ ≠ .diverge) :
    (r₁, σ₁) = (r₂, σ₂) := by
  have s1 := (sound_all rules inp hR f).1 t pos σ r₁ σ₁ h₁ htf hf₁
  have s2 := (sound_all rules inp hR g).1 t pos σ r₂ σ₂ h₂ htf hf₂
  rw [s1.1, s2.1, ev_deterministic rules inp hR t pos r₁ r₂ (s1.2 hr₁) (s2.2 hr₂) htf]

/-! ### a failed alternative leaves no trace -/

/-- BACKTRACK-CLEAN (tag-free terms).  Whatever happened inside — failed alternatives, abandoned
repetitions, look-ahead — the context is handed back exactly as it was received. -/
theorem backtrack_clean (rules : List Term) (inp : Str) (hR : RulesTagFree rules) (f : Nat) (t : Term) (pos : Nat)
    (σ σ' : St) (r : Res) (h : run rules inp f t pos σ = (r, σ')) (htf : t.tagFree = true)
    (hf : σ'.ferr = false) : σ' = σ :=
  ((sound_all rules inp hR f).1 t pos σ r σ' h htf hf).1

/-- … hence the outcome of a (sub-)term depends on the position it starts at and on nothing
that was tried before: the same answer is obtained from every other clean state. -/
theorem result_depends_only_on_position (rules : List Term) (inp : Str) (hR : RulesTagFree rules) (f : Nat)
    (t : Term) (pos : Nat) (σ σ' : St) (r : Res) (h : run rules inp f t pos σ = (r, σ')) (htf : t.tagFree = true)
    (hf : σ'.ferr = false) (hr : r ≠ .diverge) :
    ∃ f0, ∀ g, f0 ≤ g → ∀ τ : St, τ.ferr = false → run rules inp g t pos τ = (r, τ) :=
  run_complete rules inp hR t pos r (run_sound rules inp hR f t pos σ σ' r h htf hf hr) htf

/-- the full statement, for terms that use the tag stack as well: a FAILED parse hands the tag
stack back as it received it -/
def BacktrackCleanWithTags : Prop :=
  ∀ (rules : List Term) (inp : Str) (f : Nat) (t : Term) (pos : Nat) (σ σ' : St),
    run rules inp f t pos σ = (.fail, σ') → σ'.ferr = false → σ'.tags = σ.tags

def chr (c : Char) : Term := .prim (.char c)

/-- `<b> x` on "ba": the sequence fails after StartTagName pushed, and the tag stays pushed -/
theorem backtrack_clean_with_tags_witness : ¬ BacktrackCleanWithTags := by
  intro h
  have := h [] ['b', 'a'] 5 (.seq [.startTag (chr 'b'), chr 'x']) 0 St.init ⟨false, [.str ['b']]⟩
    (by simp [run, runSeq, chr, Prim.run, St.init, LRes.toRes]) rfl
  simp [St.init] at this

/-- `<b> (<a> x)? a </b>` — DESIGN §8 reproducer (known finding tag-stack-not-restored) -/
def tagGrammar (withGroup : Bool) : Term :=
  .seq ([.startTag (chr 'b')] ++ (if withGroup then [.opt (.seq [.startTag (chr 'a'), chr 'x']) .none] else []) ++
        [chr 'a', .endTag (chr 'b') false])

def Outcome.isValue : Outcome → Bool | .value _ => true | _ => false
def Outcome.isParseError : Outcome → Bool | .parseError => true | _ => false
def Outcome.isFunctionError : Outcome → Bool | .functionError => true | _ => false

/-- on "bab" the grammar with the optional group is rejected although the group matched
nothing: the failed alternative's start tag is compared with the end tag; without the group
the same input is accepted. -/
theorem tag_stack_witness :
    (call [] ['b', 'a', 'b'] 10 (tagGrammar true)).1.isParseError = true ∧
    (call [] ['b', 'a', 'b'] 10 (tagGrammar false)).1.isValue = true := by
  constructor <;>
    simp [call, run, runSeq, tagGrammar, chr, Prim.run, St.init, LRes.toRes, tagsAgree, Val.beq,
      Outcome.isParseError, Outcome.isValue]

/-! ### function errors (Map / Lift functions raising something other than Backtrack) -/

/-- `_debug_hook`: once the flag is set every `process` raises at entry and changes nothing -/
theorem ferr_stops_every_parser (rules : List Term) (inp : Str) (f : Nat) (t : Term) (pos : Nat) (σ : St)
    (h : σ.ferr = true) : run rules inp (f + 1) t pos σ = (.fail, σ) := by
  cases t <;> simp [run, h]

/-- `Parser.__call__`: a raised parse is reported as the function error iff the flag is set -/
theorem call_reports_function_error (rules : List Term) (inp : Str) (f : Nat) (t : Term) (σ : St)
    (h : run rules inp f t 0 St.init = (.fail, σ)) :
    (call rules inp f t).1 = (if σ.ferr then .functionError else .parseError) := by
  simp [call, h]

/-- full statement: a function error always surfaces (the parse never returns a value once a
mapped function raised) -/
def FunctionErrorSurfaces : Prop :=
  ∀ (rules : List Term) (inp : Str) (f : Nat) (t : Term) (o : Outcome) (σ : St),
    call rules inp f t = (o, σ) → σ.ferr = true → o.isValue = false

/-- it is FALSE of the current code: `Many(Char("a").map(raises))` on "a" returns `[]` — the loop's
`except Exception: break` swallows the error and nothing is called afterwards
(known finding function-error-swallowed) -/
theorem function_error_surfaces_witness : ¬ FunctionErrorSurfaces := by
  intro h
  have := h [] ['a'] 5 (.many (.map (chr 'a') (.raiseIf (.str ['a']))) 0) (.value (.list [])) ⟨true, []⟩
    (by simp [call, run, runMany, chr, Prim.run, St.init, Fn.apply, Val.beq]) rfl
  simp [Outcome.isValue] at this

/-- what does hold: with the flag set the parse can only end by returning from a catching
combinator without calling anything else; any later `process` fails — so a value comes back
only if the failing action was in the LAST thing tried.  Stated for sequencing: -/
theorem function_error_partial (rules : List Term) (inp : Str) (f : Nat) (a b : Term) (pos : Nat) (σ σ₁ : St)
    (p : Nat) (v : Val) (ha : run rules inp f a pos σ = (.ok p v, σ₁)) (h₁ : σ₁.ferr = true) (hσ : σ.ferr = false) :
    run rules inp (f + 1) (.keepLeft a b) pos σ = (if f = 0 then .diverge else .fail, σ₁) := by
  simp only [run, hσ, Bool.false_eq_true, ↓reduceIte, ha]
  cases f with
  | zero => simp [run]
  | succ g => rw [ferr_stops_every_parser rules inp g b p σ₁ h₁]; simp

/-! ### terminals -/

theorem prim_char (inp : Str) (pos : Nat) (c : Char) :
    (Prim.char c).run inp pos = if inp[pos]? = some c then some (pos + 1, .str [c]) else none := rfl

theorem prim_anyChar_ok (inp : Str) (pos : Nat) (c : Char) (h : inp[pos]? = some c) :
    Prim.anyChar.run inp pos = some (pos + 1, .str [c]) := by simp [Prim.run, h]

theorem prim_eof (inp : Str) (pos : Nat) :
    Prim.eof.run inp pos = if inp.length ≤ pos then some (pos, .none) else none := by
  simp only [Prim.run]
  split
  · rename_i c h
    have := (List.getElem?_eq_some_iff.mp h).1
    simp; omega
  · rename_i h
    have := List.getElem?_eq_none_iff.mp h
    simp [this]

/-- no parser ever moves backwards, and none runs past the end of the input: a successful
`process` returns a position `p ≥ pos` with `p ≤ len(input)` (or `p = pos`).  Unconditional —
tags, function errors, any rule table, any fuel. -/
theorem run_never_moves_backwards (rules : List Term) (inp : Str) (f : Nat) (t : Term) (pos p : Nat) (v : Val)
    (σ σ' : St) (h : run rules inp f t pos σ = (.ok p v, σ')) : pos ≤ p ∧ (p = pos ∨ p ≤ inp.length) :=
  ((adv_all rules inp f).1 t pos σ p v σ' h).1

/-- the syntactic check `Term.consuming` is sound: such a term never succeeds without consuming -/
theorem consuming_sound (rules : List Term) (inp : Str) (f : Nat) (t : Term) (pos p : Nat) (v : Val)
    (σ σ' : St) (h : run rules inp f t pos σ = (.ok p v, σ')) (hc : t.consuming = true) : pos < p :=
  ((adv_all rules inp f).1 t pos σ p v σ' h).2 hc

/-! ### termination -/

/-- NO DIVERGENCE.  For a well-formed grammar (`WellFormed`, decidable: Many/Until bodies are
syntactically consuming; every rule body consumes before it re-enters a rule — no left recursion;
the top term may reference rules anywhere) the fuel `bound rules t n`, computed from the term, the
rule table and the number `n` of characters that remain, suffices: `run` does not answer
`diverge`.  Any state, tags and function errors included; more fuel is fine too. -/
theorem no_divergence (rules : List Term) (inp : Str) (t : Term) (h : WellFormed rules t = true)
    (n pos : Nat) (σ : St) (f : Nat) (hn : inp.length - pos ≤ n) (hf : bound rules t n ≤ f) :
    (run rules inp f t pos σ).1 ≠ .diverge :=
  no_divergence_aux rules inp t h n pos σ f hn hf

/-- … so on well-formed tag-free grammars the computed fuel DECIDES the PEG outcome: whatever
`run` answers at that fuel is the (unique) outcome PEG semantics prescribes — `diverge` is never
the reason for an answer. -/
theorem run_decides (rules : List Term) (inp : Str) (hR : RulesTagFree rules) (t : Term) (pos : Nat)
    (hw : WellFormed rules t = true) (htf : t.tagFree = true) (σ σ' : St) (r : Res) (f : Nat)
    (hf : bound rules t (inp.length - pos) ≤ f) (h : run rules inp f t pos σ = (r, σ')) (hc : σ'.ferr = false) :
    Ev rules inp t pos r ∧ σ' = σ ∧ ∀ r', Ev rules inp t pos r' → r' = r := by
  have hnd := no_divergence rules inp t hw (inp.length - pos) pos σ f (Nat.le_refl _) hf
  rw [h] at hnd
  have hev := run_sound rules inp hR f t pos σ σ' r h htf hc hnd
  exact ⟨hev, backtrack_clean rules inp hR f t pos σ σ' r h htf hc,
    fun r' h' => ev_deterministic rules inp hR t pos r' r h' hev htf⟩

/-! ### the shipped grammars (IV/Gen/Grammars.lean, regenerated from the live objects on every run) -/

open IV.Gen.Grammars in
/-- the translated JSON grammar is well formed and tag-free -/
theorem json_grammar_wellformed :
    WellFormed jsonRules jsonTop = true ∧ jsonTop.tagFree = true ∧ Term.tagFreeL jsonRules = true := by decide

open IV.Gen.Grammars in
/-- the translated tag-expression grammar is well formed and tag-free -/
theorem taglang_grammar_wellformed :
    WellFormed taglangRules taglangTop = true ∧ taglangTop.tagFree = true ∧ Term.tagFreeL taglangRules = true := by
  decide

theorem rulesTagFree_of_tagFreeL : ∀ (rules : List Term), Term.tagFreeL rules = true → RulesTagFree rules := by
  intro rules
  induction rules with
  | nil => intro _ i t h; simp at h
  | cons r rs ih =>
    intro h i t hi
    simp only [Term.tagFreeL, Bool.and_eq_true] at h
    cases i with
    | zero => simp at hi; subst hi; exact h.1
    | succ i => simp at hi; exact ih h.2 i t hi

open IV.Gen.Grammars in
/-- hence: on EVERY input the JSON grammar terminates within the computed fuel, and what it
answers (no function error) is the unique PEG outcome, with the context untouched -/
theorem json_grammar_decided (inp : Str) (σ σ' : St) (r : Res)
    (h : run jsonRules inp (bound jsonRules jsonTop inp.length) jsonTop 0 σ = (r, σ')) (hc : σ'.ferr = false) :
    r ≠ .diverge ∧ Ev jsonRules inp jsonTop 0 r ∧ σ' = σ := by
  have hw := json_grammar_wellformed
  have hR := rulesTagFree_of_tagFreeL _ hw.2.2
  have := run_decides jsonRules inp hR jsonTop 0 hw.1 hw.2.1 σ σ' r _ (by simp) h hc
  exact ⟨ev_never_diverge _ _ _ _ _ this.1, this.1, this.2.1⟩

open IV.Gen.Grammars in
/-- the same for the tag-expression grammar -/
theorem taglang_grammar_decided (inp : Str) (σ σ' : St) (r : Res)
    (h : run taglangRules inp (bound taglangRules taglangTop inp.length) taglangTop 0 σ = (r, σ')) (hc : σ'.ferr = false) :
    r ≠ .diverge ∧ Ev taglangRules inp taglangTop 0 r ∧ σ' = σ := by
  have hw := taglang_grammar_wellformed
  have hR := rulesTagFree_of_tagFreeL _ hw.2.2
  have := run_decides taglangRules inp hR taglangTop 0 hw.1 hw.2.1 σ σ' r _ (by simp) h hc
  exact ⟨ev_never_diverge _ _ _ _ _ this.1, this.1, this.2.1⟩

/-- `Parser.__call__` on the input at the computed fuel returns a value `==` v -/
def parsesTo (rules : List Term) (top : Term) (inp : String) (v : Val) : Bool :=
  match (call rules inp.toList (bound rules top inp.length) top).1 with
  | .value w => w.beq v
  | _ => false

def rejects (rules : List Term) (top : Term) (inp : String) : Bool :=
  (call rules inp.toList (bound rules top inp.length) top).1.isParseError

/-- parse a tag expression with the translated grammar, then `Predicate.test(tags)` -/
def tagTest (inp : String) (tags : List String) : Option Bool :=
  match (call IV.Gen.Grammars.taglangRules inp.toList
      (bound IV.Gen.Grammars.taglangRules IV.Gen.Grammars.taglangTop inp.length) IV.Gen.Grammars.taglangTop).1 with
  | .value p => evalPred (tags.map String.toList) 100 p
  | _ => none

open IV.Gen.Grammars in
/-- sample evaluations of the TRANSLATED JSON grammar, checked by the kernel: they pin the literal
values, number construction, dict construction, the repaired white-space handling and the repaired
`sep_by` (a semantic edit of json_parser.py that changes one of them breaks this theorem) -/
theorem json_grammar_samples :
    parsesTo jsonRules jsonTop "true" (.list [.bool true, .none]) = true ∧
    parsesTo jsonRules jsonTop "false" (.list [.bool false, .none]) = true ∧
    parsesTo jsonRules jsonTop " null " (.list [.none, .none]) = true ∧
    parsesTo jsonRules jsonTop "[0, false]" (.list [.list [.int 0, .bool false], .none]) = true ∧
    parsesTo jsonRules jsonTop "-12.50" (.list [.float "-12.50".toList, .none]) = true ∧
    parsesTo jsonRules jsonTop "{\"a\" :-7, \"b\":[ ], \"a\":\"x y\"}"
      (.list [.dict [.list [.str ['a'], .str "x y".toList], .list [.str ['b'], .list []]], .none]) = true ∧
    rejects jsonRules jsonTop "[1,]" = true ∧ rejects jsonRules jsonTop "" = true ∧
    rejects jsonRules jsonTop "{\"a\";1}" = true := by
  decide +kernel

open IV.Gen.Grammars in
/-- the two recorded over-acceptances, on the translated grammar itself
(known findings json-leading-separator, json-leading-zero) -/
theorem json_grammar_overaccepts_witness :
    parsesTo jsonRules jsonTop "[,1]" (.list [.list [.int 1], .none]) = true ∧
    parsesTo jsonRules jsonTop "01" (.list [.int 1, .none]) = true := by
  decide +kernel

/-- sample evaluations of the TRANSLATED tag-expression grammar: `!` binds tighter than `&`, `&`
tighter than `|` and `,`; parentheses group -/
theorem taglang_grammar_samples :
    tagTest "a | b & !c" ["a"] = some true ∧ tagTest "a | b & !c" ["b"] = some true ∧
    tagTest "a | b & !c" ["b", "c"] = some false ∧ tagTest "a | b & !c" ["c"] = some false ∧
    tagTest "a , b&c" ["a"] = some true ∧ tagTest "(a , b)&c" ["a"] = some false ∧
    tagTest "!(a|b)" [] = some true ∧ tagTest "!a|b" ["a", "b"] = some true ∧ tagTest "!(a|b)" ["b"] = some false ∧
    tagTest "/net | \"x y\"" ["network"] = some true ∧ tagTest "! a" [] = none := by
  decide +kernel

/-! ### consequences read off the semantics (what the property's sentence lists) -/

/-- look-ahead consumes nothing: `a & b` ends where `a` ends, with `a`'s value -/
theorem lookahead_consumes_nothing (rules : List Term) (inp : Str) (a b : Term) (pos p : Nat) (v : Val)
    (h : Ev rules inp (.followedBy a b) pos (.ok p v)) : Ev rules inp a pos (.ok p v) := by
  cases h; assumption

/-- negative look-ahead likewise, and the predicate must have failed there -/
theorem neg_lookahead_consumes_nothing (rules : List Term) (inp : Str) (a b : Term) (pos p : Nat) (v : Val)
    (h : Ev rules inp (.notFollowedBy a b) pos (.ok p v)) : Ev rules inp a pos (.ok p v) ∧ Ev rules inp b p .fail := by
  cases h; exact ⟨‹_›, ‹_›⟩

/-- ordered choice commits to the first alternative that succeeds -/
theorem choice_commits_to_first (rules : List Term) (inp : Str) (hR : RulesTagFree rules) (t : Term) (ts : List Term)
    (pos p : Nat) (v : Val) (r : Res) (h₁ : Ev rules inp t pos (.ok p v))
    (h : Ev rules inp (.choice (t :: ts)) pos r) (htf : (Term.choice (t :: ts)).tagFree = true) : r = .ok p v :=
  ev_deterministic rules inp hR _ pos _ _ h (.choiceHit h₁) htf

/-- repetition respects its lower bound -/
theorem many_respects_lower_bound (rules : List Term) (inp : Str) (t : Term) (n pos q : Nat) (v : Val)
    (h : Ev rules inp (.many t n) pos (.ok q v)) : ∃ vs, v = .list vs ∧ n ≤ vs.length := by
  cases h with
  | starStop _ => exact ⟨[], rfl, Nat.le_refl _⟩
  | starMore _ _ => exact ⟨_, rfl, Nat.zero_le _⟩
  | manyOk _ hn => exact ⟨_, rfl, by omega⟩

/-- repetition is greedy: where `e*` stops, `e` fails -/
theorem many_is_greedy (rules : List Term) (inp : Str) (t : Term) (pos q : Nat) (v : Val)
    (h : Ev rules inp (.many t 0) pos (.ok q v)) : Ev rules inp t q .fail := by
  generalize hm : Term.many t 0 = m at h
  generalize hr : Res.ok q v = r at h
  induction h generalizing q v with
  | starStop h1 => cases hm; cases hr; exact h1
  | starMore _ _ _ ih2 => cases hm; cases hr; exact ih2 _ _ rfl rfl
  | _ => first | cases hm | cases hr

/-- option is greedy: the default is produced only where the sub-parser fails -/
theorem opt_default_only_on_failure (rules : List Term) (inp : Str) (hR : RulesTagFree rules) (t : Term) (d : Val)
    (pos p : Nat) (v : Val) (r : Res) (h₁ : Ev rules inp t pos (.ok p v)) (h : Ev rules inp (.opt t d) pos r)
    (htf : (Term.opt t d).tagFree = true) : r = .ok p v :=
  ev_deterministic rules inp hR _ pos _ _ h (.optSome h₁) htf

/-! ### sep_by (repaired by fix 8179445) -/

/-- the first element is kept whatever its value — `0`, `None`, `""`, `[]` included — as long
as it is not the private sentinel -/
theorem sepBy_keeps_first (rules : List Term) (inp : Str) (p sep : Term) (pos p₁ q : Nat) (v : Val) (vs : List Val)
    (h₁ : Ev rules inp p pos (.ok p₁ v)) (hv : v ≠ .sentinel)
    (h₂ : Ev rules inp (.many (.keepRight sep p) 0) p₁ (.ok q (.list vs))) :
    Ev rules inp (sepBy p sep) pos (.ok q (.list (v :: vs))) := by
  refine .liftOk (.seqCons (.optSome h₁) (.seqCons h₂ .seqNil)) ?_
  cases v <;> simp_all [Fn.apply]

/-- full statement "elements SEPARATED by sep": no separator before the first element -/
def SepByHasNoLeadingSeparator : Prop :=
  ∀ (rules : List Term) (inp : Str) (p sep : Term) (pos q : Nat) (v : Val),
    Ev rules inp (sepBy p sep) pos (.ok q v) → Ev rules inp p pos .fail → q = pos

/-- FALSE of the current code: `1 sep_by ,` accepts ",1" (known finding json-leading-separator) -/
theorem sepBy_leading_separator_witness : ¬ SepByHasNoLeadingSeparator := by
  intro h
  have hc : ∀ (c : Char) (pos : Nat), ([',', '1'] : Str)[pos]? = some c →
      Ev [] [',', '1'] (chr c) pos (.ok (pos + 1) (.str [c])) := fun c pos hh =>
    .primOk (by simp [Prim.run, hh])
  have hfail1 : Ev [] [',', '1'] (chr '1') 0 .fail := .primFail (by simp [Prim.run])
  have hfail2 : Ev [] [',', '1'] (.keepRight (chr ',') (chr '1')) 2 .fail :=
    .krFail (.primFail (by simp [Prim.run]))
  have hstar : Ev [] [',', '1'] (.many (.keepRight (chr ',') (chr '1')) 0) 0 (.ok 2 (.list [.str ['1']])) :=
    .starMore (.krOk (hc ',' 0 rfl) (hc '1' 1 rfl)) (.starStop hfail2)
  have hs : Ev [] [',', '1'] (sepBy (chr '1') (chr ',')) 0 (.ok 2 (.list [.str ['1']])) :=
    .liftOk (.seqCons (.optNone hfail1) (.seqCons hstar .seqNil)) (by simp [Fn.apply])
  have := h _ _ _ _ _ _ _ hs hfail1
  omega

/-! ### the operators that build grammars: `x + y`, `x | y` for every grouping of the operands

`plus` / `alt` (IV/Model/Peg.lean) are what `+` / `|` BUILD in the unchanged code: a Sequence
(Choice) on the LEFT accumulates the right operand, anything else — a Sequence (Choice) on the
right included — becomes ONE child of a new two-element node. -/

/-- the terms the two groupings of `a + b + c` build (for operands that are not themselves
Sequences): `(a + b) + c` is the flat three-element Sequence, `a + (b + c)` keeps the inner
Sequence as ONE child -/
theorem plus_grouping_terms (a b c : Term) (ha : a.isSeq = false) (hb : b.isSeq = false) :
    plus (plus a b) c = .seq [a, b, c] ∧ plus a (plus b c) = .seq [a, .seq [b, c]] := by
  rw [plus_of_not_seq b ha, plus_of_not_seq c hb, plus_of_not_seq _ ha]
  exact ⟨rfl, rfl⟩

/-- `x + y` is `x` then `y`, for every `x` and `y`; its value is `x`'s list extended by `y`'s
value when `x` is a Sequence, and the two-element list `[x's value, y's value]` otherwise — so a
Sequence on the RIGHT contributes its own list as one element -/
theorem plus_value_shape (rules : List Term) (inp : Str) (x y : Term) (pos p q : Nat) (v w : Val)
    (h1 : Ev rules inp x pos (.ok p v)) (h2 : Ev rules inp y p (.ok q w)) :
    Ev rules inp (plus x y) pos
      (.ok q (match x, v with | .seq _, .list vs => .list (vs ++ [w]) | _, _ => .list [v, w])) :=
  plus_ok h1 h2

/-- … and these are all its outcomes (with `plus_value_shape`: an exact characterisation) -/
theorem plus_outcomes (rules : List Term) (inp : Str) (x y : Term) (pos : Nat) (r : Res)
    (h : Ev rules inp (plus x y) pos r) :
    (∃ p v q w, Ev rules inp x pos (.ok p v) ∧ Ev rules inp y p (.ok q w) ∧
        r = .ok q (match x, v with | .seq _, .list vs => .list (vs ++ [w]) | _, _ => .list [v, w])) ∨
    (r = .fail ∧ (Ev rules inp x pos .fail ∨ ∃ p v, Ev rules inp x pos (.ok p v) ∧ Ev rules inp y p .fail)) :=
  plus_inv h

/-- `+` preserves the LANGUAGE of plain sequencing: `x + y` accepts (and ends) exactly where
`Sequence([x, y])` does, and rejects exactly where it rejects — only the value's nesting differs -/
theorem plus_preserves_language (rules : List Term) (inp : Str) (x y : Term) (pos : Nat) :
    (∀ q, (∃ v, Ev rules inp (plus x y) pos (.ok q v)) ↔ (∃ v, Ev rules inp (.seq [x, y]) pos (.ok q v))) ∧
    (Ev rules inp (plus x y) pos .fail ↔ Ev rules inp (.seq [x, y]) pos .fail) := by
  refine ⟨fun q => ⟨?_, ?_⟩, ⟨?_, ?_⟩⟩
  · rintro ⟨v, h⟩
    rcases plus_inv h with ⟨p, v1, q', w, h1, h2, h3⟩ | ⟨h0, _⟩
    · obtain ⟨rfl, -⟩ := Res.ok.inj h3
      exact ⟨_, .seqCons h1 (.seqCons h2 .seqNil)⟩
    · cases h0
  · rintro ⟨v, h⟩
    rcases ev_pair_inv h with ⟨p, v1, q', w, h1, h2, h3⟩ | ⟨h0, _⟩
    · obtain ⟨rfl, -⟩ := Res.ok.inj h3
      exact ⟨_, plus_ok h1 h2⟩
    · cases h0
  · intro h
    rcases plus_inv h with ⟨p, v1, q', w, _, _, h3⟩ | ⟨_, h1 | ⟨p, v, h1, h2⟩⟩
    · cases h3
    · exact .seqFailHead h1
    · exact .seqFailTail h1 (.seqFailHead h2)
  · intro h
    rcases ev_pair_inv h with ⟨p, v1, q', w, _, _, h3⟩ | ⟨_, h1 | ⟨p, v, h1, h2⟩⟩
    · cases h3
    · exact plus_fail_left h1
    · exact plus_fail_right h1 h2

/-- the VALUES of the two groupings, exactly as documented: on an input where `a`, `b`, `c` match
in turn, `(a + b) + c` returns `[va, vb, vc]` and `a + (b + c)` returns `[va, [vb, vc]]` — same end
position, different nesting, and the two values are never equal -/
theorem plus_grouping_values (rules : List Term) (inp : Str) (a b c : Term) (ha : a.isSeq = false)
    (hb : b.isSeq = false) (pos p₁ p₂ p₃ : Nat) (va vb vc : Val) (h1 : Ev rules inp a pos (.ok p₁ va))
    (h2 : Ev rules inp b p₁ (.ok p₂ vb)) (h3 : Ev rules inp c p₂ (.ok p₃ vc)) :
    Ev rules inp (plus (plus a b) c) pos (.ok p₃ (.list [va, vb, vc])) ∧
    Ev rules inp (plus a (plus b c)) pos (.ok p₃ (.list [va, .list [vb, vc]])) ∧
    Val.list [va, vb, vc] ≠ Val.list [va, .list [vb, vc]] := by
  obtain ⟨e1, e2⟩ := plus_grouping_terms a b c ha hb
  rw [e1, e2]
  refine ⟨.seqCons h1 (.seqCons h2 (.seqCons h3 .seqNil)),
    .seqCons h1 (.seqCons (.seqCons h2 (.seqCons h3 .seqNil)) .seqNil), by simp⟩

/-- the LANGUAGE does not depend on the grouping, for arbitrary operands (Sequences included):
both groupings accept with the same end position, and both reject, on exactly the same inputs -/
theorem plus_grouping_language (rules : List Term) (inp : Str) (a b c : Term) (pos : Nat) :
    (∀ q, (∃ v, Ev rules inp (plus (plus a b) c) pos (.ok q v)) ↔ (∃ v, Ev rules inp (plus a (plus b c)) pos (.ok q v))) ∧
    (Ev rules inp (plus (plus a b) c) pos .fail ↔ Ev rules inp (plus a (plus b c)) pos .fail) := by
  refine ⟨fun q => ⟨?_, ?_⟩, ⟨?_, ?_⟩⟩
  · rintro ⟨v, h⟩
    rcases plus_inv h with ⟨p, v1, q', w, h1, h2, h3⟩ | ⟨h0, _⟩
    · obtain ⟨rfl, -⟩ := Res.ok.inj h3
      rcases plus_inv h1 with ⟨p1, va, p', vb, ha, hb, h3'⟩ | ⟨h0, _⟩
      · obtain ⟨rfl, -⟩ := Res.ok.inj h3'
        exact ⟨_, plus_ok ha (plus_ok hb h2)⟩
      · cases h0
    · cases h0
  · rintro ⟨v, h⟩
    rcases plus_inv h with ⟨p, va, q', w, ha, h2, h3⟩ | ⟨h0, _⟩
    · obtain ⟨rfl, -⟩ := Res.ok.inj h3
      rcases plus_inv h2 with ⟨p1, vb, p', vc, hb, hc, h3'⟩ | ⟨h0, _⟩
      · obtain ⟨rfl, -⟩ := Res.ok.inj h3'
        exact ⟨_, plus_ok (plus_ok ha hb) hc⟩
      · cases h0
    · cases h0
  · intro h
    rcases plus_inv h with ⟨_, _, _, _, _, _, h3⟩ | ⟨_, h1 | ⟨p, v, h1, h2⟩⟩
    · cases h3
    · rcases plus_inv h1 with ⟨_, _, _, _, _, _, h3⟩ | ⟨_, ha | ⟨p1, va, ha, hb⟩⟩
      · cases h3
      · exact plus_fail_left ha
      · exact plus_fail_right ha (plus_fail_left hb)
    · rcases plus_inv h1 with ⟨p1, va, p', vb, ha, hb, h3'⟩ | ⟨h0, _⟩
      · obtain ⟨rfl, -⟩ := Res.ok.inj h3'
        exact plus_fail_right ha (plus_fail_right hb h2)
      · cases h0
  · intro h
    rcases plus_inv h with ⟨_, _, _, _, _, _, h3⟩ | ⟨_, ha | ⟨p, va, ha, h2⟩⟩
    · cases h3
    · exact plus_fail_left (plus_fail_left ha)
    · rcases plus_inv h2 with ⟨_, _, _, _, _, _, h3⟩ | ⟨_, hb | ⟨p1, vb, hb, hc⟩⟩
      · cases h3
      · exact plus_fail_left (plus_fail_right ha hb)
      · exact plus_fail_right (plus_ok ha hb) hc

/-- `|` preserves language AND values: `x | y` has exactly the outcomes of `Choice([x, y])` -/
theorem alt_preserves_values (rules : List Term) (inp : Str) (x y : Term) (pos : Nat) (r : Res) :
    Ev rules inp (alt x y) pos r ↔ Ev rules inp (.choice [x, y]) pos r :=
  alt_iff.trans ev_choice_pair.symm

/-- both groupings of `a | b | c` have exactly the same outcomes, values included, for arbitrary
operands: the first of `a`, `b`, `c` that matches decides -/
theorem alt_grouping (rules : List Term) (inp : Str) (a b c : Term) (pos : Nat) (r : Res) :
    Ev rules inp (alt (alt a b) c) pos r ↔ Ev rules inp (alt a (alt b c)) pos r := by
  simp only [alt_iff, Res.isOk]
  constructor
  · rintro (⟨hok, ⟨_, ha⟩ | ⟨ha, hb⟩⟩ | ⟨⟨h0, _⟩ | ⟨ha, hb⟩, hc⟩)
    · exact .inl ⟨hok, ha⟩
    · exact .inr ⟨ha, .inl ⟨hok, hb⟩⟩
    · simp at h0
    · exact .inr ⟨ha, .inr ⟨hb, hc⟩⟩
  · rintro (⟨hok, ha⟩ | ⟨ha, ⟨hok, hb⟩ | ⟨hb, hc⟩⟩)
    · exact .inl ⟨hok, .inl ⟨hok, ha⟩⟩
    · exact .inl ⟨hok, .inr ⟨ha, hb⟩⟩
    · exact .inr ⟨.inr ⟨ha, hb⟩, hc⟩

/-- hence flattening a Choice on the RIGHT (which `|` does not do) would change the built term
but no outcome: `Choice([a, Choice([b, c])])` and `Choice([a, b, c])` are indistinguishable by
values — unlike the Sequence case (`plus_grouping_values`) -/
theorem choice_nesting_invisible (rules : List Term) (inp : Str) (a b c : Term) (pos : Nat) (r : Res) :
    Ev rules inp (.choice [a, .choice [b, c]]) pos r ↔ Ev rules inp (.choice [a, b, c]) pos r := by
  have h1 : Ev rules inp (.choice [a, b, c]) pos r ↔ Ev rules inp (.choice ([a, b] ++ [c])) pos r := by simp
  rw [h1, ev_choice_snoc]
  simp only [ev_choice_pair, Res.isOk]
  constructor
  · rintro (⟨hok, ha⟩ | ⟨ha, ⟨hok, hb⟩ | ⟨hb, hc⟩⟩)
    · exact .inl ⟨hok, .inl ⟨hok, ha⟩⟩
    · exact .inl ⟨hok, .inr ⟨ha, hb⟩⟩
    · exact .inr ⟨.inr ⟨ha, hb⟩, hc⟩
  · rintro (⟨hok, ⟨_, ha⟩ | ⟨ha, hb⟩⟩ | ⟨⟨h0, _⟩ | ⟨ha, hb⟩, hc⟩)
    · exact .inl ⟨hok, ha⟩
    · exact .inr ⟨ha, .inl ⟨hok, hb⟩⟩
    · simp at h0
    · exact .inr ⟨ha, .inr ⟨hb, hc⟩⟩


/-! ### PosMarker, Context.line / Context.col, skip_none (round 10) -/

/-- `ctx.line(pos)` / `ctx.col(pos)` — a bisection over the offsets of the newlines — ARE the textbook line and
column (0-based) of every position inside the input or at its end: read the text before the position left to
right, a newline starts the next line at column 0, every other character advances the column. -/
theorem line_col_textbook (inp : Str) (pos : Nat) (h : pos ≤ inp.length) :
    (lineOf inp pos, colOf inp pos) = lineColSpec inp pos := lineCol_eq_spec inp pos h

example : (lineOf "ab\ncd".toList 4, colOf "ab\ncd".toList 4) = (1, 1) ∧ lineColSpec "ab\ncd".toList 4 = (1, 1) := by decide

/-- … in particular the line is the number of newlines before the position -/
theorem line_counts_newlines (inp : Str) (pos : Nat) (h : pos ≤ inp.length) :
    lineOf inp pos = ((inp.take pos).filter (· = '\n')).length := by
  have := congrArg Prod.fst (lineCol_eq_spec inp pos h)
  simp only [lineColSpec, lcStep_fst] at this
  simpa using this

example : lineOf "\n\nx".toList 2 = 2 := by decide

/-- the Mark a PosMarker builds carries the textbook line and column, 1-based, of the position handed to it -/
theorem mark_value_textbook (inp : Str) (pos : Nat) (v : Val) (h : pos ≤ inp.length) :
    markVal inp pos v =
      .obj "Mark".toList [.int ((lineColSpec inp pos).1 + 1), .int ((lineColSpec inp pos).2 + 1), v] := by
  rw [← lineCol_eq_spec inp pos h]; rfl

example : markVal "a\nb".toList 2 (.str ['b']) = .obj "Mark".toList [.int 2, .int 1, .str ['b']] := by rfl

/-- PosMarker is transparent: it succeeds exactly when its child does, ends where the child ends, leaves the
state the child leaves, and wraps the child's value — None / 0 / '' / [] included — into the Mark of the position
where the child STARTED (not where it ended). -/
theorem posmarker_marks_start (rules : List Term) (inp : Str) (f : Nat) (t : Term) (pos p : Nat) (v : Val)
    (σ σ' : St) (hσ : σ.ferr = false) (h : run rules inp f t pos σ = (.ok p v, σ')) :
    run rules inp (f + 1) (.mark t) pos σ = (.ok p (markVal inp pos v), σ') := by
  simp only [run, hσ, Bool.false_eq_true, ↓reduceIte, h]

/-- the hypotheses are met by a concrete run; the conclusion then gives the Mark of line 1, column 1 -/
example : run [] ['a'] 2 (chr 'a') 0 St.init = (.ok 1 (.str ['a']), St.init) ∧ St.init.ferr = false := by
  simp [run, chr, Prim.run, St.init]
example : run [] ['a'] 3 (.mark (chr 'a')) 0 St.init = (.ok 1 (markVal ['a'] 0 (.str ['a'])), St.init) :=
  posmarker_marks_start [] ['a'] 2 (chr 'a') 0 1 _ St.init St.init rfl (by simp [run, chr, Prim.run, St.init])

theorem posmarker_fails_with_child (rules : List Term) (inp : Str) (f : Nat) (t : Term) (pos : Nat)
    (σ σ' : St) (h : run rules inp f t pos σ = (.fail, σ')) :
    run rules inp (f + 1) (.mark t) pos σ = (.fail, if σ.ferr then σ else σ') := by
  simp only [run, h]
  split <;> rfl

example : run [] ['x'] 2 (chr 'a') 0 St.init = (.fail, St.init) := by simp [run, chr, Prim.run, St.init]

/-- and nothing else: whatever a PosMarker returns is the Mark of a value its child returned from the same
start to the same end -/
theorem posmarker_inv (rules : List Term) (inp : Str) (f : Nat) (t : Term) (pos p : Nat) (w : Val)
    (σ σ' : St) (h : run rules inp (f + 1) (.mark t) pos σ = (.ok p w, σ')) :
    ∃ v, run rules inp f t pos σ = (.ok p v, σ') ∧ w = markVal inp pos v := by
  simp only [run] at h
  split at h
  · cases h
  · rcases ha : run rules inp f t pos σ with ⟨_ | _ | _, σ1⟩ <;> rw [ha] at h <;> simp only at h <;> cases h
    exact ⟨_, rfl, rfl⟩

example : run [] ['a'] 3 (.mark (chr 'a')) 0 St.init = (.ok 1 (markVal ['a'] 0 (.str ['a'])), St.init) := by
  simp [run, chr, Prim.run, St.init]

/-- in the PEG relation: the outcomes of `mark t` are exactly the marked outcomes of `t` -/
theorem ev_mark_iff (rules : List Term) (inp : Str) (t : Term) (pos : Nat) (r : Res) :
    Ev rules inp (.mark t) pos r ↔
      (∃ p v, Ev rules inp t pos (.ok p v) ∧ r = .ok p (markVal inp pos v)) ∨ (Ev rules inp t pos .fail ∧ r = .fail) := by
  constructor
  · intro h
    cases h with
    | markOk h1 => exact .inl ⟨_, _, h1, rfl⟩
    | markFail h1 => exact .inr ⟨h1, rfl⟩
  · rintro (⟨p, v, h1, rfl⟩ | ⟨h1, rfl⟩)
    · exact .markOk h1
    · exact .markFail h1

example : Ev [] ['a'] (.mark (chr 'a')) 0 (.ok 1 (markVal ['a'] 0 (.str ['a']))) :=
  .markOk (.primOk (by simp [Prim.run]))

/-- `skip_none` drops exactly the None entries of a list: what remains is a sub-list in the same order, holds
no None, and keeps every other entry — 0, '', [] and False included -/
theorem skip_none_spec (vs : List Val) :
    ∃ ws, Fn.skipNone.apply (.list vs) = .ok (.list ws) ∧ ws.Sublist vs ∧ (∀ w ∈ ws, w.notNone = true) ∧
      (∀ v ∈ vs, v.notNone = true → v ∈ ws) :=
  ⟨vs.filter Val.notNone, rfl, List.filter_sublist, fun w hw => (List.mem_filter.mp hw).2,
    fun v hv hn => List.mem_filter.mpr ⟨hv, hn⟩⟩

example : Fn.skipNone.apply (.list [.none, .int 0, .str [], .none, .list []]) = .ok (.list [.int 0, .str [], .list []]) := by
  rfl

/-! ### deep nesting (known finding json-deep-nesting) -/

/-- `[[[…[1]…]]]`, n brackets deep -/
def deepVal : Nat → Val
  | 0 => .int 1
  | n + 1 => .list [deepVal n]

open IV.Gen.Grammars in
/-- PEG semantics (the translated JSON grammar at the fuel of `no_divergence`) ACCEPTS an array nested 100 deep and
returns the nested value, as json.loads does.  The Python implementation rejects the same document with a
parse error: the interpreter's recursion limit is reached inside the combinators (about eight frames per level) and
the RecursionError is swallowed by the `except` clauses of Choice / Many / Opt / `__call__` as if an alternative had
failed (known finding json-deep-nesting; the harness replays this document on every run). -/
theorem json_deep_nesting_witness :
    parsesTo jsonRules jsonTop "[[[[[[[[[[[[[[[[[[[[[[[[[[[[[[[[[[[[[[[[[[[[[[[[[[[[[[[[[[[[[[[[[[[[[[[[[[[[[[[[[[[[[[[[[[[[[[[[[[[[1]]]]]]]]]]]]]]]]]]]]]]]]]]]]]]]]]]]]]]]]]]]]]]]]]]]]]]]]]]]]]]]]]]]]]]]]]]]]]]]]]]]]]]]]]]]]]]]]]]]]"
      (.list [deepVal 100, .none]) = true := by
  decide +kernel

example : deepVal 2 = .list [.list [.int 1]] := rfl

/-! ### non-vacuity -/

example : RulesTagFree [] := by intro i t h; simp at h
example : (Term.seq [chr 'a', .many (.choice [chr 'b', chr 'c']) 1, .notFollowedBy (.prim .anyChar) (chr 'x')]).tagFree = true := by
  simp [Term.tagFree, Term.tagFreeL, chr]
/-- a run that meets the hypotheses of run_sound / backtrack_clean with a backtracking choice -/
example : run [] ['a', 'c'] 10 (.choice [.seq [chr 'a', chr 'b'], .seq [chr 'a', chr 'c']]) 0 St.init =
    (.ok 2 (.list [.str ['a'], .str ['c']]), St.init) := by
  simp [run, runChoice, runSeq, chr, Prim.run, St.init, LRes.toRes]
example : Ev [] ['a'] (.opt (chr 'b') .none) 0 (.ok 0 .none) := .optNone (.primFail (by simp [Prim.run]))
/-- a recursive well-formed grammar (balanced brackets through a Forward) meets no_divergence's hypothesis;
a left-recursive one and a repetition over a non-consuming body do not -/
example : WellFormed [.choice [.seq [chr 'a', .ref 0, chr 'b'], chr 'c']] (.keepLeft (.ref 0) (.prim .eof)) = true := by decide
example : WellFormed [.choice [.seq [.ref 0, chr 'b'], chr 'c']] (.ref 0) = false := by decide
example : WellFormed [] (.many (.opt (chr 'a') .none) 0) = false := by decide
example : bound [.choice [.seq [chr 'a', .ref 0, chr 'b'], chr 'c']] (.keepLeft (.ref 0) (.prim .eof)) 3 = 59 := by decide
/-- `a + (b + c)` on "abc": the hypotheses of plus_grouping_values are met by concrete derivations -/
example : Ev [] ['a', 'b', 'c'] (plus (chr 'a') (plus (chr 'b') (chr 'c'))) 0
    (.ok 3 (.list [.str ['a'], .list [.str ['b'], .str ['c']]])) := by
  have hc : ∀ (c : Char) (pos : Nat), (['a', 'b', 'c'] : Str)[pos]? = some c →
      Ev [] ['a', 'b', 'c'] (chr c) pos (.ok (pos + 1) (.str [c])) := fun c pos hh => .primOk (by simp [Prim.run, hh])
  exact (plus_grouping_values [] _ (chr 'a') (chr 'b') (chr 'c') rfl rfl 0 1 2 3 _ _ _ (hc 'a' 0 rfl) (hc 'b' 1 rfl)
    (hc 'c' 2 rfl)).2.1
example : (Term.seq [chr 'a']).isSeq = true ∧ (chr 'a').isSeq = false := ⟨rfl, rfl⟩
example : (tagGrammar true).tagFree = false := by simp [tagGrammar, Term.tagFree, Term.tagFreeL]

end IV.Peg
