import IV.Lemmas.DrOrder
import IV.Lemmas.DrAccount
/-!
C03 — a failing component affects only its dependents and is always accounted for.

"No exception escapes / stops other components": `step` and `runComponents` are total functions —
every outcome a body can have (value, deliberate skip, content error, failed command, timeout,
blacklisted spec, arbitrary exception) is turned into a `Result` and handled by the ladder; the
theorems below say what the handling amounts to.  Failing observers are outside the model state
(the real `fire_observers` swallows them; the harness injects failing observers).
-/
namespace IV.Dr

variable (w : World) (inG : Comp → Bool) (ss : Bool)

/-- isolation (i): after a run in any valid order the entry of a component is a function of the
instances of the keys it reads (declared dependencies, ignored keys) ALONE — a dependency that
crashed, skipped, timed out or errored is seen exactly like one that is merely absent, so a component
whose requirements can still be met produces exactly the value its body gives for those arguments -/
theorem isolation (seed : Inst) (o : List Comp) (hv : Valid w inG seed o) (c : Comp)
    (hc : c ∈ evald inG o) (hs : seed c = none) :
    let b := runComponents w inG ss o (Broker.seeded seed)
    b.inst c = (record w inG ss c b.inst).val ∧
    b.missing c = (record w inG ss c b.inst).missing ∧
    excOf b c = (record w inG ss c b.inst).excs ∧
    ∀ j : Inst, (∀ x ∈ w.reads c, j x = b.inst x) → record w inG ss c j = record w inG ss c b.inst := by
  intro b
  obtain ⟨h1, h2, h3⟩ := run_view w inG ss seed o hv c hc
  have hp : present seed c = false := by simp [present, hs]
  simp only [entry, hp] at h1 h2 h3
  exact ⟨h1, h2, h3, fun j hj => record_congr w inG ss c j b.inst hj⟩

/-- two programs that differ only in component bodies -/
structure SameShape (w w' : World) : Prop where
  decl : w.decl = w'.decl
  enabled : w.enabled = w'.enabled
  ignore : w.ignore = w'.ignore
  regPoints : w.regPoints = w'.regPoints

theorem record_world_congr (w' : World) (hsh : SameShape w w') (c : Comp)
    (hb : w.body c = w'.body c) (he : w.elemBody c = w'.elemBody c) (i : Inst) :
    record w inG ss c i = record w' inG ss c i := by
  obtain ⟨h1, h2, h3, h4⟩ := hsh
  have hes : ∀ coe, elemStep w c coe ss = elemStep w' c coe ss := by
    intro coe; funext s x; simp only [elemStep, he]
  unfold record eligible process invoke
  simp only [← h1, ← h2, ← h3, ← h4, ← hb, ← hes]

/-- isolation (ii): faults (or any change of behaviour) placed on components that `c` does not
transitively read cannot change `c`'s entry: if two programs agree on the bodies of a set `S` of
components closed under "reads", every member of `S` gets the same value, report and recorded
exceptions in both -/
theorem unrelated_faults_invisible (w' : World) (hsh : SameShape w w') (seed : Inst) (o : List Comp)
    (hv : Valid w inG seed o) (hv' : Valid w' inG seed o)
    (S : Comp → Prop) (hclosed : ∀ c, S c → ∀ x ∈ w.reads c, S x)
    (hbody : ∀ c, S c → w.body c = w'.body c ∧ w.elemBody c = w'.elemBody c) :
    let b := runComponents w inG ss o (Broker.seeded seed)
    let b' := runComponents w' inG ss o (Broker.seeded seed)
    ∀ c, S c → b.inst c = b'.inst c ∧ b.missing c = b'.missing c ∧
      (excOf b c).map (fun e => (e.target, e.exc)) = (excOf b' c).map (fun e => (e.target, e.exc)) := by
  intro b b'
  -- instances agree on S, by induction along the order
  have hinst : ∀ c, S c → b.inst c = b'.inst c := by
    suffices h : ∀ (post pre : List Comp), o = pre ++ post → (∀ c ∈ pre, S c → b.inst c = b'.inst c) →
        ∀ c ∈ pre ++ post, S c → b.inst c = b'.inst c by
      intro c hS
      by_cases hc : c ∈ o
      · exact h o [] (by simp) (by simp) c (by simpa using hc) hS
      · have hce : c ∉ evald inG o := fun m => hc (List.mem_filter.mp m).1
        rw [(run_view_out w inG ss seed o c hce).1, (run_view_out w' inG ss seed o c hce).1]
    intro post
    induction post with
    | nil => intro pre _ hp c hc; exact hp c (by simpa using hc)
    | cons d post ih =>
      intro pre ho hp
      have hd' : S d → b.inst d = b'.inst d := by
        intro hS
        by_cases hde : d ∈ evald inG o
        · have hdo := (List.mem_filter.mp hde).1
          have hdg := (List.mem_filter.mp hde).2
          rw [(run_view w inG ss seed o hv d hde).1, (run_view w' inG ss seed o hv' d hde).1]
          unfold entry
          split
          · rfl
          · rw [← record_world_congr w inG ss w' hsh d (hbody d hS).1 (hbody d hS).2]
            have : record w inG ss d b.inst = record w inG ss d b'.inst := by
              apply record_congr
              intro x hx
              have hSx := hclosed d hS x hx
              by_cases hxe : x ∈ evald inG o
              · have hxg := (List.mem_filter.mp hxe).2
                have hxo := (List.mem_filter.mp hxe).1
                simp only [World.reads, List.mem_append] at hx
                rcases hx with hx | hx
                · rcases hv.ignoreStable d hdo hdg x hx with h1 | h1
                  · exact absurd hxe h1
                  · rw [(run_view w inG ss seed o hv x hxe).1, (run_view w' inG ss seed o hv' x hxe).1]
                    simp [entry, h1]
                · obtain ⟨n1, n2⟩ := hv.depsFirst pre d post ho hdg x hx hxg
                  rw [ho] at hxo
                  rcases List.mem_append.mp hxo with h3 | h3
                  · exact hp x h3 hSx
                  · rcases List.mem_cons.mp h3 with h4 | h4
                    · exact absurd h4 n2
                    · exact absurd h4 n1
              · rw [(run_view_out w inG ss seed o x hxe).1, (run_view_out w' inG ss seed o x hxe).1]
            rw [this]
        · rw [(run_view_out w inG ss seed o d hde).1, (run_view_out w' inG ss seed o d hde).1]
      have := ih (pre ++ [d]) (by simp [ho]) (by
        intro c hc hS
        rcases List.mem_append.mp hc with h1 | h1
        · exact hp c h1 hS
        · have : c = d := by simpa using h1
          rw [this] at hS ⊢; exact hd' hS)
      intro c hc
      exact this c (by simpa using hc)
  intro c hS
  refine ⟨hinst c hS, ?_⟩
  by_cases hce : c ∈ evald inG o
  · obtain ⟨_, m1, e1⟩ := run_view w inG ss seed o hv c hce
    obtain ⟨_, m2, e2⟩ := run_view w' inG ss seed o hv' c hce
    have hrec : record w inG ss c b.inst = record w' inG ss c b'.inst := by
      rw [← record_world_congr w inG ss w' hsh c (hbody c hS).1 (hbody c hS).2]
      apply record_congr
      intro x hx
      exact hinst x (hclosed c hS x hx)
    rw [m1, m2, e1, e2]
    unfold entry
    split
    · exact ⟨rfl, rfl⟩
    · rw [hrec]; exact ⟨rfl, rfl⟩
  · obtain ⟨_, m1, e1⟩ := run_view_out w inG ss seed o c hce
    obtain ⟨_, m2, e2⟩ := run_view_out w' inG ss seed o c hce
    rw [m1, m2, e1, e2]; exact ⟨rfl, rfl⟩

/-! ### accounting -/

theorem step_excLog_eq (b : Broker) (c : Comp) :
    (step w inG ss b c).excLog =
      b.excLog ++ (if guard w inG b.inst c then
        match w.decl c with
        | some d => tag c (logged w ss c (process w ss c d b.inst))
        | none => []
      else []) := by
  unfold step
  split
  · cases hd : w.decl c with
    | none => simp
    | some d => simp [applyResult_excLog_eq]
  · simp

/-- nothing is recorded against any other component: every entry of the exception log targets the
component whose processing recorded it or one of its registry points (the specs it implements or is
built on), and that component was attempted -/
theorem accounting_targets (o : List Comp) (seed : Inst) :
    let b := runComponents w inG ss o (Broker.seeded seed)
    ∀ e ∈ b.excLog, (e.target = e.src ∨ e.target ∈ w.regPoints e.src) ∧ e.src ∈ b.attempts := by
  suffices h : ∀ (o : List Comp) (b : Broker),
      (∀ e ∈ b.excLog, (e.target = e.src ∨ e.target ∈ w.regPoints e.src) ∧ e.src ∈ b.attempts) →
      ∀ e ∈ (runComponents w inG ss o b).excLog,
        (e.target = e.src ∨ e.target ∈ w.regPoints e.src) ∧ e.src ∈ (runComponents w inG ss o b).attempts by
    exact h o (Broker.seeded seed) (by simp [Broker.seeded])
  intro o
  induction o with
  | nil => intro b hb; simpa [run_nil] using hb
  | cons c o ih =>
    intro b hb
    rw [run_cons]
    apply ih
    intro e he
    rw [step_excLog_eq, List.mem_append] at he
    rw [step_attempts]
    rcases he with he | he
    · obtain ⟨h1, h2⟩ := hb e he
      refine ⟨h1, ?_⟩
      split
      · simp [h2]
      · exact h2
    · split at he
      · rename_i hg
        simp only [hg, if_true]
        cases hd : w.decl c with
        | none => simp [hd] at he
        | some d =>
          simp only [hd, tag, List.mem_map] at he
          obtain ⟨te, hte, rfl⟩ := he
          exact ⟨process_targets w ss c d b.inst te hte, by simp⟩
      · simp at he

/-- a deliberate skip is recorded only when skip recording is on, and then against the skipping
component itself (generic kinds, datasources, single-value parsers) -/
theorem skip_attribution (c : Comp) (d : Decl) (i : Inst) (hk : ∀ coe, d.kind ≠ .parser coe)
    (hb : w.body c (d.deps.map i) = .fault .skip) :
    logged w ss c (invoke w ss c d i) = if ss then [(c, .skip)] else [] := by
  unfold invoke
  cases hkind : d.kind with
  | parser coe => exact absurd hkind (hk coe)
  | plain | plugin | rule | datasource => simp [hb, logged, pluginFault]

/-- …and for an element of a multi-output spec: recorded against the parser iff recording is on
(this is the clause the repaired defect 14ced6b violated) -/
theorem skip_attribution_element (c : Comp) (coe : Bool) (s : ElemState) (x : Nat) (hf : s.failed = false)
    (hb : w.elemBody c x = .fault .skip) :
    (elemStep w c coe ss s x).excs = s.excs ++ (if ss then [(c, .skip)] else []) ∧
    (elemStep w c coe ss s x).results = s.results ∧ (elemStep w c coe ss s x).failed = false := by
  unfold elemStep
  simp only [hf, Bool.false_eq_true, if_false, hb]
  cases ss <;> simp [hf]

/-- full-strength accounting clause: every exception other than the skip signal raised by an invoked
component's body is recorded (against the component or one of its registry points) -/
def AccountingComplete : Prop :=
  ∀ (w : World) (ss : Bool) (c : Comp) (d : Decl) (i : Inst) (e : Exc),
    (∀ coe, d.kind ≠ .parser coe) → w.body c (d.deps.map i) = .fault e → e ≠ .skip →
    ¬ (d.kind = .plain ∧ e = .content) →     -- ContentException IS-A SkipComponent: for a bare ComponentType it is the skip signal
    ∃ t, (t, e) ∈ logged w ss c (invoke w ss c d i)

/-- it is FALSE of the current code: a datasource that implements no registry point and raises a
content error (or failed command, or timeout) is recorded nowhere (known finding lonely-datasource) -/
theorem accounting_witness : ¬ AccountingComplete := by
  intro h
  let w : World := ⟨fun _ => none, fun _ => true, fun _ => [], fun _ => [], fun _ _ => .fault .content, fun _ _ => .noResult⟩
  obtain ⟨t, ht⟩ := h w false 0 ⟨.datasource, [], []⟩ (fun _ => none) .content (by simp) rfl (by simp) (by simp)
  simp [invoke, logged, w] at ht

/-- what holds: every such exception IS recorded, except exactly in that situation -/
theorem accounting_complete_partial (c : Comp) (d : Decl) (i : Inst) (e : Exc)
    (hk : ∀ coe, d.kind ≠ .parser coe) (hb : w.body c (d.deps.map i) = .fault e) (hns : e ≠ .skip)
    (hpc : ¬ (d.kind = .plain ∧ e = .content))
    (hlonely : ¬ (d.kind = .datasource ∧ w.regPoints c = [] ∧ (e = .content ∨ e = .calledProc ∨ e = .timeout))) :
    ∃ t, (t, e) ∈ logged w ss c (invoke w ss c d i) := by
  unfold invoke
  cases hkind : d.kind with
  | parser coe => exact absurd hkind (hk coe)
  | plain =>
    cases e <;> simp_all [logged]
  | plugin =>
    cases e <;> simp_all [logged, pluginFault]
  | rule =>
    cases e <;> simp_all [logged, pluginFault]
  | datasource =>
    simp only [hkind, true_and] at hlonely
    cases e <;> simp_all [logged]
    all_goals
      (cases hr : w.regPoints c with
       | nil => simp_all
       | cons p ps => exact ⟨p, by simp⟩)

/-- a single-value parser's content error / failed command is recorded against the parser; any other
exception against the parser and its registry points -/
theorem parser_fault_recorded (c : Comp) (d : Decl) (i : Inst) (coe : Bool) (hk : d.kind = .parser coe)
    (r : Comp) (hr : d.requires.head? = some r) (hnl : ∀ xs, getVal i r ≠ .multi xs) (e : Exc)
    (hb : w.body c [some (getVal i r)] = .fault e) (hns : e ≠ .skip) :
    (c, e) ∈ logged w ss c (invoke w ss c d i) := by
  unfold invoke
  simp only [hk, hr]
  cases hv : getVal i r with
  | multi xs => exact absurd hv (hnl xs)
  | none | atom _ | resp _ | skipResp _ _ | noneResp =>
    simp only [hv] at hb
    cases e <;> simp_all [logged]

/-- every failing element of a multi-output spec is recorded against the parser -/
theorem element_fault_recorded (c : Comp) (coe : Bool) (s : ElemState) (x : Nat) (hf : s.failed = false)
    (e : Exc) (hb : w.elemBody c x = .fault e) (hns : e ≠ .skip) :
    (c, e) ∈ (elemStep w c coe ss s x).excs := by
  unfold elemStep
  simp only [hf, Bool.false_eq_true, if_false, hb]
  cases e <;> simp_all

/-! ### non-vacuity -/
private def exW : World where
  decl c := if c = 0 then some ⟨.datasource, [], []⟩ else if c = 1 then some ⟨.parser true, [.one 0], []⟩
            else if c = 2 then some ⟨.rule, [.one 1], []⟩ else if c = 3 then some ⟨.rule, [], [1]⟩ else none
  enabled _ := true
  ignore _ := []
  regPoints c := if c = 1 then [0] else []
  body c _ := if c = 0 then .value (.multi [1, 2, 3]) else if c = 3 then .value (.resp 7) else .fault (.crash 1)
  elemBody _ x := if x = 2 then .fault .content else .value x

-- element 2 fails: recorded against the parser (1); the parser still yields [1,3]; rule 2 crashes:
-- recorded against itself; rule 3 (optional dependency on 1) is unaffected
example : (runComponents exW (fun _ => true) false [0, 1, 2, 3] (Broker.seeded fun _ => none)).excLog
    = [⟨1, .content, 1⟩, ⟨2, .crash 1, 2⟩] := by decide
example : (runComponents exW (fun _ => true) false [0, 1, 2, 3] (Broker.seeded fun _ => none)).inst 1
    = some (.multi [1, 3]) := by decide
example : (runComponents exW (fun _ => true) false [0, 1, 2, 3] (Broker.seeded fun _ => none)).inst 3
    = some (.resp 7) := by decide

/-! ### skip recording off: what a new `Broker()` has (round 10) -/

/-- with skip recording off (what a new `Broker()` has until somebody switches it on) NO deliberate skip is recorded,
against anybody: whatever the graph, the order, the seed and the faults -/
theorem no_skip_recorded_when_off (inG : Comp → Bool) (o : List Comp) (seed : Inst) :
    ∀ e ∈ (runComponents w inG false o (Broker.seeded seed)).excLog, e.exc ≠ Exc.skip := by
  suffices h : ∀ (o : List Comp) (b : Broker), (∀ e ∈ b.excLog, e.exc ≠ Exc.skip) →
      ∀ e ∈ (runComponents w inG false o b).excLog, e.exc ≠ Exc.skip by
    exact h o (Broker.seeded seed) (by simp [Broker.seeded])
  intro o
  induction o with
  | nil => intro b hb; simpa [run_nil] using hb
  | cons c o ih =>
    intro b hb
    rw [run_cons]
    apply ih
    intro e he
    rw [step_excLog_eq, List.mem_append] at he
    rcases he with he | he
    · exact hb e he
    · split at he
      · cases hd : w.decl c with
        | none => simp [hd] at he
        | some d =>
          simp only [hd, tag, List.mem_map] at he
          obtain ⟨te, hte, rfl⟩ := he
          exact process_noskip w c d b.inst te hte
      · simp at he

-- non-vacuity: a skipping plugin and a crashing one; with recording off only the crash is in the log
example : ((runComponents ⟨fun c => if c < 2 then some ⟨.plugin, [], []⟩ else none, fun _ => true, fun _ => [], fun _ => [],
    fun c _ => if c = 0 then .fault .skip else .fault (.crash 1), fun _ _ => .noResult⟩ (fun _ => true) false [0, 1]
    (Broker.seeded fun _ => none)).excLog.map (·.exc)) = [.crash 1] := by decide

end IV.Dr
