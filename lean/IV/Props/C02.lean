import IV.Lemmas.Dr
import IV.Lemmas.DrOrder
import IV.Lemmas.DrDecl
/-!
C02 — a component fires exactly when its requirements are met; arguments bind in order.

`fires` is the decision the engine takes before calling a component's body.  The property text
gives every component type one positional argument per dependency; the code (and its
documentation) specialises `datasource` (receives the broker) and `parser` (receives the value of
its first required dependency, element by element when that is a list): the binding theorems state
the generic binding for plain / plugin / rule kinds and the specialised binding for those two.
-/
namespace IV.Dr

variable (w : World) (inG : Comp → Bool) (ss : Bool)

/-- the body of `c` is called in the step taken from instances `i` -/
def fires (c : Comp) (d : Decl) (i : Inst) : Bool :=
  guard w inG i c && !(w.ignore c).any (present i) && (missingDeps d i).isNone

/-- exactly the missing required dependencies and the unsatisfied at-least-one groups are reported -/
theorem missing_exact (d : Decl) (i : Inst) :
    (missingDeps d i = none ↔
      (∀ r ∈ d.requires, present i r = true) ∧ (∀ g ∈ d.atLeastOne, ∃ m ∈ g, present i m = true)) ∧
    (∀ m, missingDeps d i = some m →
      m.required = d.requires.filter (fun r => !present i r) ∧
      m.atLeastOne = d.atLeastOne.filter (fun g => g.all (fun x => !present i x))) := by
  have e1 : d.requires.filter (fun r => !present i r) = [] ↔ ∀ r ∈ d.requires, present i r = true := by
    rw [List.filter_eq_nil_iff]
    constructor
    · intro h r hr; simpa using h r hr
    · intro h r hr; simp [h r hr]
  have e2 : d.atLeastOne.filter (fun g => g.all (fun x => !present i x)) = [] ↔
      ∀ g ∈ d.atLeastOne, ∃ m ∈ g, present i m = true := by
    rw [List.filter_eq_nil_iff]
    constructor
    · intro h g hg
      have := h g hg
      simp only [Bool.not_eq_true] at this
      obtain ⟨m, hm, hp⟩ := List.all_eq_false.mp this
      exact ⟨m, hm, by simpa using hp⟩
    · intro h g hg
      obtain ⟨m, hm, hp⟩ := h g hg
      simp only [Bool.not_eq_true]
      exact List.all_eq_false.mpr ⟨m, hm, by simp [hp]⟩
  simp only [missingDeps]
  constructor
  · rw [← e1, ← e2]
    constructor
    · intro h
      split at h
      · rename_i he
        simpa [List.isEmpty_iff] using he
      · simp at h
    · intro ⟨h1, h2⟩
      simp [h1, h2]
  · intro m h
    split at h
    · simp at h
    · simp only [Option.some.injEq] at h; subst h; exact ⟨rfl, rfl⟩

/-- invoked if and only if: not already in the broker, part of the evaluation, registered, enabled,
no ignored key present, every required dependency present, every at-least-one group has a member present -/
theorem fires_iff (c : Comp) (d : Decl) (i : Inst) :
    fires w inG c d i = true ↔
      (present i c = false ∧ inG c = true ∧ (w.decl c).isSome = true ∧ w.enabled c = true) ∧
      (∀ x ∈ w.ignore c, present i x = false) ∧
      (∀ r ∈ d.requires, present i r = true) ∧ (∀ g ∈ d.atLeastOne, ∃ m ∈ g, present i m = true) := by
  unfold fires
  rw [Bool.and_eq_true, Bool.and_eq_true, Option.isNone_iff_eq_none, (missing_exact d i).1]
  simp only [guard, Bool.and_eq_true, Bool.not_eq_true', List.any_eq_false]
  constructor
  · rintro ⟨⟨⟨⟨⟨a, b⟩, c'⟩, e⟩, f⟩, g⟩
    exact ⟨⟨a, b, c', e⟩, fun x hx => by simpa using f x hx, g⟩
  · rintro ⟨⟨a, b, c', e⟩, f, g⟩
    exact ⟨⟨⟨⟨⟨a, b⟩, c'⟩, e⟩, fun x hx => by simpa using f x hx⟩, g⟩

/-- what `process` does in each of the three situations: an ignored key is present → a skip;
requirements missing → the exact report (for a rule: a skip response carrying it, stored as the rule's
value); otherwise → the component is invoked -/
theorem process_cases (c : Comp) (d : Decl) (i : Inst) :
    ((w.ignore c).any (present i) = true → process w ss c d i = .skipped .skip []) ∧
    ((w.ignore c).any (present i) = false → ∀ m, missingDeps d i = some m →
        process w ss c d i = (if d.kind = .rule then .stored (.skipResp m.required m.atLeastOne) [] else .missingReq m)) ∧
    ((w.ignore c).any (present i) = false → missingDeps d i = none → process w ss c d i = invoke w ss c d i) := by
  refine ⟨?_, ?_, ?_⟩
  · intro h; simp [process, h]
  · intro h m hm
    simp only [process, h, hm]
    cases hk : d.kind <;> simp
  · intro h hm; simp [process, h, hm]

/-- a component that does not fire is not invoked and leaves no value, except a rule's skip response -/
theorem not_fired_no_value (b : Broker) (c : Comp) (d : Decl) (hd : w.decl c = some d) (hi : b.inst c = none)
    (hnf : fires w inG c d b.inst = false) (hk : d.kind ≠ .rule) :
    (step w inG ss b c).inst c = none := by
  have hs := (step_self w inG ss b c hi).1
  rw [hs]
  unfold record
  by_cases he : eligible w inG c = true
  · simp only [he, if_true, hd]
    have hg : guard w inG b.inst c = true := by
      simp [guard, eligible, present, hi, Bool.and_assoc] at he ⊢; exact he
    simp only [fires, hg, Bool.true_and, Bool.and_eq_false_iff, Bool.not_eq_false'] at hnf
    obtain ⟨p1, p2, p3⟩ := process_cases w ss c d b.inst
    rcases hnf with h | h
    · rw [p1 h]
    · by_cases hig : (w.ignore c).any (present b.inst) = true
      · rw [p1 hig]
      · have hig' : (w.ignore c).any (present b.inst) = false := by simpa using hig
        cases hm : missingDeps d b.inst with
        | none => simp [hm] at h
        | some m => rw [p2 hig' m hm]; simp [hk]
  · simp [he]

/-- a disabled component is not invoked and reports nothing -/
theorem disabled_silent (b : Broker) (c : Comp) (h : w.enabled c = false) :
    (step w inG ss b c).inst = b.inst ∧ (step w inG ss b c).missing = b.missing ∧
    (step w inG ss b c).excLog = b.excLog ∧ (step w inG ss b c).attempts = b.attempts := by
  have hg : guard w inG b.inst c = false := by simp [guard, h]
  unfold step
  simp [hg]

/-! ### evaluations on a broker that has been used before

Whether a component is invoked is decided by what is PRESENT in the broker: the records an earlier
evaluation left behind (exceptions, missing-requirements reports, the ghost logs) are no input of the
next one.  So a second evaluation on a used broker invokes the same components, in the same order, with
the same results as one evaluation on a fresh broker that holds the same values. -/

/-- one step from two brokers that hold the same values: same values afterwards, the same component
(if any) is attempted -/
theorem step_inst_only (b b' : Broker) (c : Comp) (h : b.inst = b'.inst) :
    (step w inG ss b c).inst = (step w inG ss b' c).inst ∧
    ∃ l, (step w inG ss b c).attempts = b.attempts ++ l ∧ (step w inG ss b' c).attempts = b'.attempts ++ l := by
  obtain ⟨i, m, e, a, f⟩ := b
  obtain ⟨i', m', e', a', f'⟩ := b'
  simp only at h
  subst h
  unfold step
  by_cases hg : guard w inG i c = true
  · simp only [hg, if_true]
    cases hd : w.decl c with
    | none => exact ⟨by simp, [], by simp, by simp⟩
    | some d =>
      simp only
      cases hr : process w ss c d i <;> simp only [applyResult] <;> exact ⟨by simp, [c], by simp, by simp⟩
  · have hg' : guard w inG i c = false := by simpa using hg
    simp only [hg', Bool.false_eq_true, if_false]
    exact ⟨by simp, [], by simp, by simp⟩

/-- any order of components from two brokers that hold the same values (whatever else they record):
same values afterwards and the same components attempted, in the same order -/
theorem second_evaluation (o : List Comp) (b b' : Broker) (h : b.inst = b'.inst) :
    (runComponents w inG ss o b).inst = (runComponents w inG ss o b').inst ∧
    ∃ l, (runComponents w inG ss o b).attempts = b.attempts ++ l ∧
         (runComponents w inG ss o b').attempts = b'.attempts ++ l := by
  induction o generalizing b b' with
  | nil => exact ⟨h, [], by simp [runComponents], by simp [runComponents]⟩
  | cons c o ih =>
    obtain ⟨hi, l1, h1, h1'⟩ := step_inst_only w inG ss b b' c h
    obtain ⟨hr, l2, h2, h2'⟩ := ih (step w inG ss b c) (step w inG ss b' c) hi
    refine ⟨by simpa [runComponents] using hr, l1 ++ l2, ?_, ?_⟩
    · have : runComponents w inG ss (c :: o) b = runComponents w inG ss o (step w inG ss b c) := by
        simp [runComponents]
      rw [this, h2, h1, List.append_assoc]
    · have : runComponents w inG ss (c :: o) b' = runComponents w inG ss o (step w inG ss b' c) := by
        simp [runComponents]
      rw [this, h2', h1', List.append_assoc]

/-- in particular: evaluating on a used broker = evaluating on a fresh broker seeded with its values -/
theorem second_evaluation_fresh (o : List Comp) (b : Broker) :
    (runComponents w inG ss o b).inst = (runComponents w inG ss o (Broker.seeded b.inst)).inst ∧
    ∃ l, (runComponents w inG ss o b).attempts = b.attempts ++ l ∧
         (runComponents w inG ss o (Broker.seeded b.inst)).attempts = l := by
  obtain ⟨hi, l, h1, h2⟩ := second_evaluation w inG ss o b (Broker.seeded b.inst) rfl
  exact ⟨hi, l, h1, by simpa [Broker.seeded] using h2⟩

/-! ### argument binding -/

/-- the positional arguments: one per declared dependency -/
def argsOf (d : Decl) (i : Inst) : List (Option Val) := d.deps.map i

/-- generic binding (plain / plugin / rule): the body is called with exactly `argsOf`, i.e. the k-th
argument is the broker entry of the k-th declared dependency (absent ↦ None on the Python side) -/
theorem args_bind (c : Comp) (d : Decl) (i : Inst) (hk : d.kind = .plain ∨ d.kind = .plugin ∨ d.kind = .rule) :
    (argsOf d i).length = d.deps.length ∧
    (∀ k : Nat, (argsOf d i)[k]? = (d.deps[k]?).map i) ∧
    (∀ o, w.body c (argsOf d i) = .value o → ∃ v, invoke w ss c d i = .stored v [] ∨ (d.kind = .rule ∧ invoke w ss c d i = .raised .badReturn [])) := by
  refine ⟨by simp [argsOf], fun k => by simp [argsOf], ?_⟩
  intro o ho
  unfold argsOf at ho
  rcases hk with hk | hk | hk
  · exact ⟨o, Or.inl (by simp [invoke, hk, ho])⟩
  · exact ⟨o, Or.inl (by simp [invoke, hk, ho])⟩
  · cases o with
    | none => exact ⟨.noneResp, Or.inl (by simp [invoke, hk, ho])⟩
    | resp n => exact ⟨.resp n, Or.inl (by simp [invoke, hk, ho])⟩
    | skipResp a b => exact ⟨.skipResp a b, Or.inl (by simp [invoke, hk, ho])⟩
    | noneResp => exact ⟨.noneResp, Or.inl (by simp [invoke, hk, ho])⟩
    | atom n => exact ⟨.none, Or.inr ⟨hk, by simp [invoke, hk, ho]⟩⟩
    | multi xs => exact ⟨.none, Or.inr ⟨hk, by simp [invoke, hk, ho]⟩⟩

/-- declaration order: required ones and at-least-one members as written, then the optional ones -/
theorem deps_order (d : Decl) :
    d.deps = d.items.flatMap (fun | .one c => [c] | .group cs => cs) ++ d.optional ∧
    d.requires.Sublist d.deps ∧ d.optional.Sublist d.deps := by
  refine ⟨rfl, ?_, List.sublist_append_right _ _⟩
  unfold Decl.requires Decl.deps
  apply List.Sublist.trans _ (List.sublist_append_left _ _)
  induction d.items with
  | nil => simp
  | cons it its ih =>
    cases it with
    | one c => simpa [List.filterMap_cons, List.flatMap_cons] using ih
    | group cs =>
      simp only [List.filterMap_cons, List.flatMap_cons]
      exact List.Sublist.trans ih (List.sublist_append_right _ _)

/-- specialised binding, parser: called on the value of its first required dependency (when that is
not a list) -/
theorem parser_binding (c : Comp) (d : Decl) (i : Inst) (coe : Bool) (hk : d.kind = .parser coe)
    (r : Comp) (hr : d.requires.head? = some r) (v : Val) (hv : getVal i r = v) (hnl : ∀ xs, v ≠ .multi xs)
    (o : Val) (hb : w.body c [some v] = .value o) : invoke w ss c d i = .stored o [] := by
  unfold invoke
  simp only [hk, hr, hv]
  cases v with
  | multi xs => exact absurd rfl (hnl xs)
  | none | atom _ | resp _ | skipResp _ _ | noneResp => simp [hb]

/-! ### non-vacuity -/
private def exD : Decl := ⟨.rule, [.one 1, .group [2, 3], .one 4], [5]⟩
example : exD.deps = [1, 2, 3, 4, 5] ∧ exD.requires = [1, 4] ∧ exD.atLeastOne = [[2, 3]] := by decide
example : missingDeps exD (fun c => if c = 1 ∨ c = 3 then some (.atom 0) else none) = some ⟨[4], []⟩ := by decide
example : missingDeps exD (fun c => if c = 1 ∨ c = 4 then some (.atom 0) else none) = some ⟨[], [[2, 3]]⟩ := by decide
example : missingDeps exD (fun c => if c = 1 ∨ c = 4 ∨ c = 2 then some (.atom 0) else none) = none := by decide

end IV.Dr

namespace IV.Dr

/-! ### from decorator arguments to the declaration -/

/-- class-level requirements come first, then the positional arguments (the deprecated `requires=`
keyword only when there is no positional argument), then class-level optional ones, then `optional=` -/
theorem derive_deps (r : RawDecl) (hk : ∀ coe, r.kind ≠ .parser coe) :
    (derive r).deps =
      (r.clsRequires ++ (if r.positional.isEmpty then r.kwRequires else r.positional)).flatMap
        (fun | .one c => [c] | .group cs => cs) ++ (r.clsOptional ++ r.kwOptional.toList) := by
  unfold derive
  cases hkind : r.kind with
  | parser coe => exact absurd hkind (hk coe)
  | plain | plugin | datasource | rule => rfl

/-- positional arguments win over the `requires=` keyword, which is then ignored entirely -/
theorem positional_overrides_keyword (r : RawDecl) (hp : r.positional ≠ []) (kw : List Item) :
    derive { r with kwRequires := kw } = derive r := by
  unfold derive
  cases r.kind <;> simp [hp]

/-- a single component given as `optional=` behaves like the one-element list -/
theorem optional_single_is_list (r : RawDecl) (c : Comp) :
    derive { r with kwOptional := .single c } = derive { r with kwOptional := .many [c] } := by
  unfold derive
  cases r.kind <;> rfl

/-- a parser's declaration ignores both keywords -/
theorem parser_ignores_keywords (r : RawDecl) (coe : Bool) (hk : r.kind = .parser coe) (kw : List Item) (o : OptArg) :
    derive { r with kwRequires := kw, kwOptional := o } = derive r := by
  unfold derive
  simp [hk]

/-! ### declarations as they may really be written: lists inside lists, `requires=` as a tuple -/

/-- on every well-formed declaration the wider reading is the one above: nothing is rejected, nothing re-ordered -/
theorem derive2_wellformed (r : RawDecl) : derive2 r.raw = some (derive r) := by
  have hmap : ∀ l : List Item, allSome ((l.map Item.raw).map RItem.toItem) = some l := by
    intro l
    rw [List.map_map, allSome_map_some (RItem.toItem ∘ Item.raw) id l (fun it _ => toItem_raw it)]
    simp
  unfold derive2 derive RawDecl.raw
  cases hk : r.kind <;> simp only [Kind.isParser, Bool.not_true, Bool.not_false, Bool.false_and, Bool.and_false,
    Bool.false_eq_true, if_false, if_true, List.isEmpty_map, List.append_nil]
  all_goals
    by_cases hp : r.positional.isEmpty = true
    · simp only [hp, if_true, List.append_nil, List.map_nil, ← List.map_append, hmap, Option.map_some]
      try (rw [List.isEmpty_iff.mp hp]; simp [hmap])
    · simp only [hp, if_false, ← List.map_append, hmap, Option.map_some, Bool.false_eq_true]

/-- `requires=` given as a tuple is rejected whenever the keyword is looked at (no positional argument, not a parser) -/
theorem derive2_tuple_keyword (r : RawDecl2) (hp : r.positional = []) (hk : r.kind.isParser = false)
    (ht : r.kwRequiresIsTuple = true) : derive2 r = none := by
  unfold derive2; simp [hp, hk, ht]

/-- … and is not looked at when there are positional arguments: the result is that of the list form -/
theorem derive2_tuple_ignored (r : RawDecl2) (hp : r.positional ≠ []) :
    derive2 { r with kwRequiresIsTuple := true } = derive2 { r with kwRequiresIsTuple := false } := by
  unfold derive2
  have : r.positional.isEmpty = false := by cases h : r.positional with
    | nil => exact absurd h hp
    | cons _ _ => rfl
  simp [this]

/-- a list inside an at-least-one list, at a place the constructor looks at, is rejected -/
theorem derive2_nested_rejected (r : RawDecl2) (it : RItem) (hn : it.toItem = none)
    (hm : it ∈ r.clsRequires ∨ (it ∈ r.positional)) : derive2 r = none := by
  have key : ∀ kw : List RItem,
      allSome ((r.clsRequires ++ (if r.positional.isEmpty then kw else r.positional)).map RItem.toItem) = none := by
    intro kw
    apply allSome_none
    rw [← hn]
    apply List.mem_map_of_mem
    rcases hm with hm | hm
    · exact List.mem_append_left _ hm
    · apply List.mem_append_right
      have : r.positional.isEmpty = false := by cases h : r.positional with
        | nil => rw [h] at hm; simp at hm
        | cons _ _ => rfl
      simp [this, hm]
  by_cases hc : (r.positional.isEmpty && (!r.kind.isParser && r.kwRequiresIsTuple)) = true
  · simp only [derive2, hc, if_true]
  · simp only [derive2, if_neg hc, key, Option.map_none]
    split <;> rfl

/-- a list inside the `optional=` list is rejected, except by a parser (which never looks at the keyword) -/
theorem derive2_optional_list_rejected (r : RawDecl2) (hk : r.kind.isParser = false) (ho : r.kwOptionalHasList = true) :
    derive2 r = none := by
  unfold derive2; simp only [hk, ho]; split <;> rfl

example : derive2 ⟨.rule, [], [], [.one 1, .group [.comp 2, .comp 3]], [], false, .single 5, false⟩
    = some ⟨.rule, [.one 1, .group [2, 3]], [5]⟩ := by decide
example : derive2 ⟨.plugin, [], [], [], [.one 1], true, .absent, false⟩ = none := by decide
example : derive2 ⟨.plugin, [], [], [.one 1], [], false, .many [2], true⟩ = none := by decide
example : derive2 ⟨.parser false, [], [], [.one 1], [], false, .many [2], true⟩ = some ⟨.parser false, [.one 1], []⟩ := by decide
example : derive2 ⟨.parser true, [], [], [.one 0], [.one 1], true, .absent, false⟩ = some ⟨.parser true, [.one 0], []⟩ := by decide
example : derive2 ⟨.plugin, [], [], [.group [.comp 2, .nested [3, 4]]], [], false, .absent, false⟩ = none := by decide
example : (RItem.group [.comp 2, .nested [3, 4]]).toItem = none := by decide

example : (derive ⟨.rule, [.one 9], [8], [.one 1, .group [2, 3]], [.one 7], .single 5⟩).deps = [9, 1, 2, 3, 8, 5] := by decide
example : (derive ⟨.plugin, [], [], [], [.one 7, .one 6], .many [5, 4]⟩).deps = [7, 6, 5, 4] := by decide

end IV.Dr
