/-
Model of insights/parsr/query/__init__.py (Entry trees, query desugaring, level-by-level
matching, deep flattening, roots mapping, select / find / __getitem__) and of
insights/parsr/query/boolean.py (the predicate algebra with its two evaluators).

  boolean.py:47-177            BExp, `interp` = Boolean.test (one try/except per Predicate),
                               `evalC`/`compiled` = the function built by to_pyfunc (Python
                               and/or/not, ONE try/except around the whole body)
  query/__init__.py:705-800    EQ = _EntryQuery objects (any_/all_/child_query and & | ~)
  query/__init__.py:818-871    NameQ/AttrQ/Query and `Query.eval` = _desugar_name/_desugar_attr/
                               _desugar_attrs/_desugar
  query/__init__.py:874-912    `flatten` = _flatten, `matchLv`/`runQueries` = compile_queries.match
  query/__init__.py:915-935    `selectNodes`, `rootsOf`, `select` = select(query, nodes, deep, roots)  (with fix 9796838)
  query/__init__.py:231-240    `Node.root` (Entry.root: furthest ancestor, None for a parentless node)
  query/__init__.py:255-264, 538-601   `Node.upto`, `parentsOf`, `rootsOf`, `uptoOf` (Entry.upto, Result.parents/roots/upto)
  query/__init__.py:266-283, 408-412, 628-630, 691-695   Entry/Result .select/.find/__getitem__
  query/__init__.py:285-318, 632-668                     Entry/Result .where with an entry query / (name, value)
  boolean.py:47-55, query/__init__.py:709-716            `BTerm`, `letB`, `runLets`: combinations are VALUES —
                               `b & c`, `b | c`, `~b` build a NEW object from operands that were built before

A Python `Entry` is an object with a parent pointer.  The model keeps the pointer chain
explicitly: a `Node` is a tree (content only) together with the list of its ancestors (nearest
first), so that `parent` = head and `root` = last element of that list, and with its IDENTITY
`path` (document number, then child indexes).  `kids` extends both.  Nothing in the model ever
compares content to decide whether two nodes are the same node: `seen` sets hold paths.

Not modelled: Entry names / attributes other than None, int and str (bool, float); `isin`,
`matches`; n-ary `All(...)`/`Any(...)` built by hand (the operators `&`, `|` only build binary
ones); int/slice indexing; `choose`, `nth`; opaque callables are a parameter
`ρ : Env` (the theorems hold for every ρ; the driver instantiates a concrete family).
-/
namespace IV.Query

abbrev Str := List Char

/-- names and attribute values: None, int, str -/
inductive Val where
  | none
  | int (i : Int)
  | str (s : Str)
deriving DecidableEq, Repr

/-- the CONTENT of an Entry: (_name, attrs, children).  Two distinct entries with the same content
are the same `Tree`; what tells them apart is where they are (`Node.path`). -/
inductive Tree where
  | node (name : Val) (attrs : List Val) (children : List Tree)
deriving Repr

namespace Tree
def name : Tree → Val | .node n _ _ => n
def attrs : Tree → List Val | .node _ a _ => a
def children : Tree → List Tree | .node _ _ c => c
end Tree

/-- an Entry as an OBJECT: its content, its parent pointers (`anc` = parent, grandparent, …, furthest
ancestor) and its identity `path` = position among the documents / start nodes followed by the child
indexes.  Python compares and hashes entries by object identity; the model does so by `path`. -/
structure Node where
  anc : List Tree
  tree : Tree
  path : List Nat
deriving Repr

/-- the trees `cs` as the children number i, i+1, … of the entry at `path` -/
def kidsFrom (anc : List Tree) (path : List Nat) : Nat → List Tree → List Node
  | _, [] => []
  | i, c :: cs => ⟨anc, c, path ++ [i]⟩ :: kidsFrom anc path (i + 1) cs

namespace Node
def name (n : Node) : Val := n.tree.name
def attrs (n : Node) : List Val := n.tree.attrs
/-- `n.children`, each child pointing back at `n` -/
def kids (n : Node) : List Node := kidsFrom (n.tree :: n.anc) n.path 0 n.tree.children
/-- `Entry.root`: the furthest ancestor; None when the node has no parent -/
def root (n : Node) : Option Tree := n.anc.getLast?
end Node

/-! ### Python string primitives used by the predicates -/

/-- `a < b` on str: lexicographic by code point -/
def strLt : Str → Str → Bool
  | [], [] => false
  | [], _ :: _ => true
  | _ :: _, [] => false
  | a :: as, b :: bs => if a.toNat < b.toNat then true else if b.toNat < a.toNat then false else strLt as bs

def isPrefix : Str → Str → Bool
  | [], _ => true
  | _ :: _, [] => false
  | a :: as, b :: bs => a == b && isPrefix as bs

/-- `sub in s` -/
def isSub (sub : Str) : Str → Bool
  | [] => sub.isEmpty
  | c :: cs => isPrefix sub (c :: cs) || isSub sub cs

def isSuffix (suf s : Str) : Bool := isPrefix suf.reverse s.reverse

/-! ### boolean.py -/

/-- result of calling a predicate function: a truth value, or an exception -/
inductive Out where
  | ret (b : Bool)
  | raise
deriving DecidableEq, Repr

/-- the two-argument functions wrapped by `pred2` in query/__init__.py:995-1011 -/
inductive Op where
  | eq | lt | le | gt | ge | contains | startswith | endswith
deriving DecidableEq, Repr

/-- `func(value, arg)` for the operator functions (operator.eq/lt/…, operator.contains,
str.startswith, str.endswith) on None / int / str -/
def primEval (op : Op) (v arg : Val) : Out :=
  match op, v, arg with
  | .eq, v, a => .ret (decide (v = a))
  | .lt, .int x, .int y => .ret (decide (x < y))
  | .le, .int x, .int y => .ret (decide (x ≤ y))
  | .gt, .int x, .int y => .ret (decide (x > y))
  | .ge, .int x, .int y => .ret (decide (x ≥ y))
  | .lt, .str x, .str y => .ret (strLt x y)
  | .le, .str x, .str y => .ret (!strLt y x)
  | .gt, .str x, .str y => .ret (strLt y x)
  | .ge, .str x, .str y => .ret (!strLt x y)
  | .contains, .str x, .str y => .ret (isSub y x)
  | .startswith, .str x, .str y => .ret (isPrefix y x)
  | .endswith, .str x, .str y => .ret (isSuffix y x)
  | _, _, _ => .raise          -- TypeError

/-- opaque callables: index ↦ behaviour on a value -/
structure Env where
  /-- opaque callables: index ↦ behaviour on a value -/
  call : Nat → Val → Out
  /-- Python's `str.lower`.  NOT modelled: Unicode lower-casing (final sigma, 'İ' ↦ two characters, …)
  stays a parameter; the theorems hold for every function, the driver receives the interpreter's
  values for the strings of each request from the harness. -/
  lower : Str → Str

/-- `lhs.lower() if isinstance(lhs, str) else lhs` -/
def lowerVal (lower : Str → Str) : Val → Val
  | .str s => .str (lower s)
  | v => v

/-- Boolean objects -/
inductive BExp where
  | tt                                  -- TRUE
  | ff                                  -- FALSE
  | prim (op : Op) (arg : Val)          -- Predicate(func, arg)            e.g. startswith("x")
  | primI (op : Op) (arg : Str)         -- CaselessPredicate(func, arg.lower())   e.g. ieq("X")
  | opq (k : Nat) (caseless : Bool)     -- pred(f, ignore_case=caseless)
  | and (a b : BExp)                    -- All(a, b)
  | or (a b : BExp)                     -- Any(a, b)
  | not (a : BExp)                      -- Not(a)
deriving Repr

/-- what the call at a leaf does (`b.func(value, *b.args)`, after the caseless lowering) -/
def leafOut (ρ : Env) : BExp → Val → Out
  | .prim op arg, v => primEval op v arg
  | .primI op arg, v => primEval op (lowerVal ρ.lower v) (.str (ρ.lower arg))
  | .opq k false, v => ρ.call k v
  | .opq k true, v => ρ.call k (lowerVal ρ.lower v)
  | _, _ => .ret true

/-- `Boolean.test`: every Predicate has its own try/except -/
def BExp.interp (ρ : Env) : BExp → Val → Bool
  | .tt, _ => true
  | .ff, _ => false
  | .and a b, v => a.interp ρ v && b.interp ρ v
  | .or a b, v => a.interp ρ v || b.interp ρ v
  | .not a, v => !a.interp ρ v
  | leaf, v => match leafOut ρ leaf v with | .ret b => b | .raise => false

/-- the body generated by `to_pyfunc`: Python `and` / `or` / `not`; an exception propagates -/
def BExp.evalC (ρ : Env) : BExp → Val → Out
  | .tt, _ => .ret true
  | .ff, _ => .ret false
  | .and a b, v => match a.evalC ρ v with
      | .ret true => b.evalC ρ v
      | r => r
  | .or a b, v => match a.evalC ρ v with
      | .ret false => b.evalC ρ v
      | r => r
  | .not a, v => match a.evalC ρ v with
      | .ret x => .ret (!x)
      | .raise => .raise
  | leaf, v => leafOut ρ leaf v

/-- `to_pyfunc()(value)`: `try: return body  except Exception: return False` -/
def BExp.compiled (ρ : Env) (b : BExp) (v : Val) : Bool :=
  match b.evalC ρ v with | .ret x => x | .raise => false

/-- no predicate of the expression raises on `v` -/
def BExp.nonRaising (ρ : Env) : BExp → Val → Bool
  | .tt, _ => true
  | .ff, _ => true
  | .and a b, v => a.nonRaising ρ v && b.nonRaising ρ v
  | .or a b, v => a.nonRaising ρ v && b.nonRaising ρ v
  | .not a, v => a.nonRaising ρ v
  | leaf, v => leafOut ρ leaf v != .raise

/-! ### query desugaring -/

/-- a bare callable used as a query: `try: return q(x)  except: return False` -/
def guard (o : Out) : Bool := match o with | .ret b => b | .raise => false

/-- first element of a query (`_desugar_name`) -/
inductive NameQ where
  | any                 -- None
  | lit (v : Val)       -- e._name == q
  | bexp (b : BExp)     -- q.to_pyfunc()(e._name)
  | fn (k : Nat)        -- a callable
deriving Repr

/-- an attribute query (`_desugar_attr`) -/
inductive AttrQ where
  | lit (v : Val)
  | bexp (b : BExp)
  | fn (k : Nat)
deriving Repr

def NameQ.eval (ρ : Env) : NameQ → Val → Bool
  | .any, _ => true
  | .lit q, n => decide (n = q)
  | .bexp b, n => b.compiled ρ n
  | .fn k, n => guard (ρ.call k n)

def AttrQ.eval (ρ : Env) : AttrQ → Val → Bool
  | .lit q, v => decide (v = q)
  | .bexp b, v => b.compiled ρ v
  | .fn k, v => guard (ρ.call k v)

/-- `_EntryQuery` objects; `child n a` is `child_query(n, a)` -/
inductive EQ where
  | anyAttr (a : AttrQ)
  | allAttr (a : AttrQ)
  | child (n : NameQ) (a : Option AttrQ)
  | and (a b : EQ)
  | or (a b : EQ)
  | not (a : EQ)
deriving Repr

/-- `_desugar_attrs(q[1:])` applied to the attributes: any attribute satisfies any of the queries -/
def attrsMatch (ρ : Env) (as : List AttrQ) (attrs : List Val) : Bool :=
  attrs.any (fun v => as.any (fun a => a.eval ρ v))

/-- `_EntryQuery.to_pyfunc()`: the leaves (`test`) never raise, so the body is plain logic -/
def EQ.eval (ρ : Env) : EQ → Node → Bool
  | .anyAttr a, e => e.attrs.any (a.eval ρ)
  | .allAttr a, e => e.attrs.all (a.eval ρ)
  | .child n none, e => e.kids.any (fun c => n.eval ρ c.name)
  | .child n (some a), e => e.kids.any (fun c => n.eval ρ c.name && attrsMatch ρ [a] c.attrs)
  | .and a b, e => a.eval ρ e && b.eval ρ e
  | .or a b, e => a.eval ρ e || b.eval ρ e
  | .not a, e => !a.eval ρ e

/-- one positional argument of select / the key of `[]` -/
inductive Query where
  | name (n : NameQ)                      -- a non-tuple: None, literal, Boolean, callable
  | tuple (n : NameQ) (as : List AttrQ)   -- (n, a1, …, ak), k ≥ 0
  | tupleE (n : NameQ) (e : EQ)           -- (n, entry_query)
  | entry (e : EQ)                        -- an _EntryQuery
deriving Repr

/-- `_desugar(q)` -/
def Query.eval (ρ : Env) : Query → Node → Bool
  | .name n, e => n.eval ρ e.name
  | .tuple n as, e => n.eval ρ e.name && (as.isEmpty || attrsMatch ρ as e.attrs)
  | .tupleE n q, e => n.eval ρ e.name && q.eval ρ e
  | .entry q, e => q.eval ρ e

/-! ### flatten, match, select -/

mutual
/-- `inner(n)` of `_flatten`: the node, then its descendants, pre-order -/
def flatT (anc : List Tree) (path : List Nat) : Tree → List Node
  | .node n a cs => ⟨anc, .node n a cs, path⟩ :: flatL (.node n a cs :: anc) path 0 cs
def flatL (anc : List Tree) (path : List Nat) : Nat → List Tree → List Node
  | _, [] => []
  | i, t :: ts => flatT anc (path ++ [i]) t ++ flatL anc path (i + 1) ts
end

def flatNode (n : Node) : List Node := flatT n.anc n.path n.tree

/-- `_flatten(nodes)` -/
def flatten (nodes : List Node) : List Node := nodes.flatMap flatNode

/-- `match(qs, nodes)` of compile_queries for a non-empty list `q :: qs` of desugared queries.
Generic in the node type: only `kids` is used. -/
def matchLv {α : Type} (kids : α → List α) : (α → Bool) → List (α → Bool) → List α → List α
  | q, [], nodes => nodes.filter q
  | q, q' :: qs, nodes =>
    let res := nodes.filter q
    if res.isEmpty then res else matchLv kids q' qs (res.flatMap kids)

/-- the function returned by compile_queries; `qs[0]` raises IndexError when there is no query -/
def runQueries {α : Type} (kids : α → List α) : List (α → Bool) → List α → Option (List α)
  | [], _ => none
  | q :: qs, nodes => some (matchLv kids q qs nodes)

/-- `query(_flatten(nodes)) if deep else query(nodes)` -/
def selectNodes (ρ : Env) (qs : List Query) (nodes : List Node) (deep : Bool) : Option (List Node) :=
  runQueries Node.kids (qs.map (Query.eval ρ)) (if deep then flatten nodes else nodes)

/-- `r.root if r.root is not None else r` (select, after fix 9796838; `Result.roots` likewise): the
content of the furthest ancestor, or of the node itself when it has no parent -/
def Node.rootOrSelf (n : Node) : Tree := n.root.getD n.tree

/-- … and its identity: the node's path without the child indexes of its `anc.length` ancestors -/
def Node.rootPath (n : Node) : List Nat := n.path.take (n.path.length - n.anc.length)

/-- the root as an object -/
def Node.rootNode (n : Node) : Node := ⟨[], n.rootOrSelf, n.rootPath⟩

/-- `c.parent if c.parent is not None else c` (`Result.parents`) -/
def Node.parentOrSelf (n : Node) : Node :=
  match n.anc with
  | [] => n
  | p :: rest => ⟨rest, p, n.path.dropLast⟩

/-- the parent chain as objects, nearest first -/
def ancNodes : List Tree → List Nat → List Node
  | [], _ => []
  | p :: rest, path => ⟨rest, p, path.dropLast⟩ :: ancNodes rest path.dropLast

def Node.ancestors (n : Node) : List Node := ancNodes n.anc n.path

/-- the de-duplication loop shared by select(roots=True), Result.roots, Result.parents, Result.upto:
`for x in xs: if x not in seen: seen.add(x); out.append(x)`.  `seen` is a Python set of Entry
objects, which hash and compare by identity: the model's `seen` holds paths, never content. -/
def dedupLoop : List Node → List (List Nat) → List Node → List Node
  | [], _, out => out
  | x :: xs, seen, out =>
    if seen.contains x.path then dedupLoop xs seen out
    else dedupLoop xs (x.path :: seen) (out ++ [x])

/-- select(roots=True) and `Result.roots` -/
def rootsOf (results : List Node) : List Node := dedupLoop (results.map Node.rootNode) [] []

/-- `Result.parents` -/
def parentsOf (children : List Node) : List Node := dedupLoop (children.map Node.parentOrSelf) [] []

/-- `Entry.upto(q)`: the first ancestor satisfying the query -/
def Node.upto (q : Node → Bool) (n : Node) : Option Node := n.ancestors.find? q

/-- `Result.upto(q)` -/
def uptoOf (q : Node → Bool) (children : List Node) : List Node :=
  dedupLoop (children.filterMap (Node.upto q)) [] []

/-- what `select(query, nodes, deep, roots)` returns, as identities -/
def select (ρ : Env) (qs : List Query) (nodes : List Node) (deep roots : Bool) : Option (List (List Nat)) :=
  (selectNodes ρ qs nodes deep).map (fun res =>
    if roots then (rootsOf res).map Node.path else res.map Node.path)

/-- `Entry.select(*qs, deep, roots)`: over the entry's children -/
def entrySelect (ρ : Env) (e : Node) (qs : List Query) (deep roots : Bool) :=
  select ρ qs e.kids deep roots

/-- `Entry.find(*qs, roots)` -/
def entryFind (ρ : Env) (e : Node) (qs : List Query) (roots : Bool) := entrySelect ρ e qs true roots

/-- `Result.grandchildren` -/
def grandchildren (children : List Node) : List Node := children.flatMap Node.kids

/-- `Result.select`: over the grandchildren -/
def resultSelect (ρ : Env) (children : List Node) (qs : List Query) (deep roots : Bool) :=
  select ρ qs (grandchildren children) deep roots

def resultFind (ρ : Env) (children : List Node) (qs : List Query) (roots : Bool) :=
  resultSelect ρ children qs true roots

/-- `Entry.__getitem__(query)` (query not an int / slice) -/
def entryGetitem (ρ : Env) (e : Node) (q : Query) : List Node := e.kids.filter (q.eval ρ)

/-- `Result.__getitem__(query)` -/
def resultGetitem (ρ : Env) (children : List Node) (q : Query) : List Node :=
  (grandchildren children).filter (q.eval ρ)

/-- `Entry.where(q)` for an entry query `q` (`where(name, value)` is `where(child_query(name, value))`):
the entry's children if the entry itself satisfies `q`, else nothing -/
def entryWhere (ρ : Env) (e : Node) (q : EQ) : List Node := if q.eval ρ e then e.kids else []

/-- `Result.where(q)`: the result's own children that satisfy `q` -/
def resultWhere (ρ : Env) (children : List Node) (q : EQ) : List Node := children.filter (q.eval ρ)

/-! ### combinations are values

A program builds combinations one after the other; an operand may be a combination that was
built (and named) before.  `BTerm` is what is written, `resolve` looks the names up, `letB`
appends the new combination: nothing else happens to the environment. -/

inductive BTerm where
  | tt
  | ff
  | prim (op : Op) (arg : Val)
  | primI (op : Op) (arg : Str)
  | opq (k : Nat) (caseless : Bool)
  | and (a b : BTerm)          -- a & b
  | or (a b : BTerm)           -- a | b
  | not (a : BTerm)            -- ~a
  | ref (i : Nat)              -- the i-th combination built so far
deriving Repr

def BTerm.resolve (env : List BExp) : BTerm → Option BExp
  | .tt => some .tt
  | .ff => some .ff
  | .prim op arg => some (.prim op arg)
  | .primI op arg => some (.primI op arg)
  | .opq k c => some (.opq k c)
  | .and a b => do let x ← a.resolve env; let y ← b.resolve env; pure (.and x y)
  | .or a b => do let x ← a.resolve env; let y ← b.resolve env; pure (.or x y)
  | .not a => do let x ← a.resolve env; pure (.not x)
  | .ref i => env[i]?

/-- `x_n = <term>` -/
def letB (env : List BExp) (t : BTerm) : Option (List BExp) := (t.resolve env).map (fun b => env ++ [b])

def runLets : List BExp → List BTerm → Option (List BExp)
  | env, [] => some env
  | env, t :: ts => (letB env t).bind (fun env' => runLets env' ts)

/-- the i-th of several parentless entries (document tops, or nodes handed to the module-level `select`) -/
def top (i : Nat) (t : Tree) : Node := ⟨[], t, [i]⟩

/-- the documents of a forest as objects: number i has identity `[i]` -/
def tops (docs : List Tree) : List Node := kidsFrom [] [] 0 docs

/-! ### plain Python callables used as predicates: partial functions

A name / attribute query or the argument of `where` may be any Python callable.  Called on a value it
returns something (judged by its truth value) or raises — ANY exception class.  The engine wraps it
(`try: return q(x)  except: return False`), so that to the engine it is the partial function
`Val → Option Bool` and "raises" is `none` is "does not match" (`guard`).  The family below is the
concrete set of ordinary-looking predicates the harness defines in Python with the same text
(harness/c20.py NATURAL): each raises on some names / attribute values through the operation that
naturally raises there (IndexError on '', KeyError on a name not in the table, ZeroDivisionError on 0,
TypeError on None / int / str of the wrong kind, a user-defined class, ValueError from str.index,
AttributeError on None / int, StopIteration, AssertionError, UnicodeEncodeError). -/

/-- `bool(v)` for a name / attribute value -/
def truthy : Val → Bool
  | .none => false
  | .int i => i != 0
  | .str s => !s.isEmpty

/-- the dict `WEIGHTS` of the harness -/
def weights : List (Val × Int) :=
  [(.str ['a'], 3), (.str ['b'], 1), (.str ['A'], 2), (.str ['a', 'b'], 0), (.int 5, 7), (.none, 2)]

/-- natural predicate number k on a value -/
def natCall : Nat → Val → Out
  | 0, .str (c :: _) => .ret (decide ('A'.toNat ≤ c.toNat ∧ c.toNat ≤ 'Z'.toNat))   -- 'A' <= n[0] <= 'Z'
  | 1, v => match weights.lookup v with                                              -- WEIGHTS[n] >= 2
      | some w => .ret (decide (w ≥ 2))
      | none => .raise
  | 2, .int i => if i = 0 then .raise else .ret (decide (10 % i = 0))                 -- 10 % n == 0
  | 3, .str s => .ret (decide (s.length > 1))                                         -- len(n) > 1
  | 4, v => if v = .str ['b'] ∨ v = .int 0 then .raise else .ret (v != .none)         -- raise UserDefinedError / n is not None
  | 5, .str s => match s.findIdx? (· == 'a') with                                     -- n.index("a") >= 1
      | some i => .ret (decide (i ≥ 1))
      | none => .raise
  | 6, .str s => if s.contains 'a' then .ret true else .raise                         -- next(c for c in n if c == "a") == "a"
  | 7, v => if truthy v then .ret (v != .str ['b']) else .raise                       -- assert n; n != "b"
  | 8, v => .ret (truthy v)                                                           -- lambda n: n   (a non-bool result)
  | 9, .str s => if s.all (fun c => c.toNat < 128) then .ret (!s.isEmpty) else .raise -- n.encode("ascii") != b""
  | _, _ => .raise

/-- the dict `CHILDREN_WANTED` of the harness -/
def wanted : List (Val × Nat) := [(.str ['a'], 1), (.str ['b'], 2), (.str ['A'], 0)]

/-- natural predicate number k on an ENTRY (the argument of `where(callable)`) -/
def natCallE : Nat → Node → Out
  | 0, e => match e.attrs with                                   -- e.attrs[0] == "a"
      | [] => .raise
      | a :: _ => .ret (decide (a = .str ['a']))
  | 1, e => match e.kids with                                    -- e.children[0]._name == e._name
      | [] => .raise
      | c :: _ => .ret (decide (c.name = e.name))
  | 2, e => if e.attrs.length = 0 then .raise else .ret (decide (10 % e.attrs.length = 0))   -- 10 % len(e.attrs) == 0
  | 3, e => match e.attrs.getLast? with                          -- e.attrs[-1] > 1
      | none => .raise
      | some a => primEval .gt a (.int 1)
  | 4, e => match wanted.lookup e.name with                      -- CHILDREN_WANTED[e._name] == len(e.children)
      | some w => .ret (decide (w = e.kids.length))
      | none => .raise
  | 5, e => .ret (!e.kids.isEmpty)                               -- lambda e: e.children   (a non-bool result)
  | _, _ => .raise

/-- `Entry.where(f)` for a plain callable `f`, called on the ENTRY itself inside try/except: the entry's
children if `f(entry)` returns something true, nothing if it returns something false or raises -/
def entryWhereFn (f : Node → Out) (e : Node) : List Node := if guard (f e) then e.kids else []

/-- `Result.where(f)`: the result's own children on which `f` returns something true -/
def resultWhereFn (f : Node → Out) (children : List Node) : List Node := children.filter (fun c => guard (f c))

/-- `q in entry` (`Entry.__contains__`): `len(self[q]) > 0` -/
def entryContains (ρ : Env) (e : Node) (q : Query) : Bool := !(entryGetitem ρ e q).isEmpty

/-- `q in result`: over the grandchildren -/
def resultContains (ρ : Env) (children : List Node) (q : Query) : Bool := !(resultGetitem ρ children q).isEmpty

/-- `entry.<name>` (`Entry.__getattr__` for a name that is not a member): `entry["<name>"]` -/
def entryGetattr (ρ : Env) (e : Node) (name : Str) : List Node := entryGetitem ρ e (.name (.lit (.str name)))

/-- `result.<name>` -/
def resultGetattr (ρ : Env) (children : List Node) (name : Str) : List Node :=
  resultGetitem ρ children (.name (.lit (.str name)))

end IV.Query
