/-!
C07 — model of the filter registry and of the content filters.

(a) registry: `insights/core/filters.py` `add_filter` (56-133) and `get_filters` (139-193), with the
    two module globals `FILTERS` and `_CACHE`, over a fixed component graph (`World`) that carries
    exactly what the two functions read from `insights.core.dr` / `plugins` / the component objects;
    `dr.get_registry_points` (dr.py 424-465, datasource branch) and the constructor check of
    `FileProvider` / `CommandOutputProvider` (spec_factory.py 208-229, 380-406).
(b) content: `AllowFilter.filter_content` and `AllowFilter.parse_line` (cleaner/filters.py 16-68) as
    driven by `Cleaner.clean_content(allowlist=…)` (cleaner/__init__.py 106-161, with redaction and
    obfuscation switched off), `filters.apply_filters` (filters.py 196-209), and `grep -F -e` as the
    function that keeps exactly the lines containing some pattern (ASSUMPTION about grep, validated by
    the correspondence run against the real binary).

(c) loading: every branch of `TextFileProvider.load()` / `_stream()` (spec_factory.py 284-330): grep on a
    host, whole-file read, truncated read of the last MAX_CONTENT_SIZE bytes (`readLines`), post-filter
    off-host (`loadFile`, `streamFile`); repeated loads of one datasource (`loadArchive`); hydration of
    a serialized archive, single and list branch (`hydrateResults`).

Strings are `List Char`; a Python `dict` is an insertion-ordered association list; Python `set`
iteration order is whatever order the lists in the `World` carry (the harness sends the order the real
sets iterate in; the theorems hold for every order).
-/
namespace IV.Filters

abbrev Str := List Char
abbrev Comp := Nat
/-- a Python dict `pattern -> max matches` (insertion ordered) -/
abbrev Allow := List (Str × Int)

/-! ## Python string / dict primitives -/

def isPrefix : Str → Str → Bool
  | [], _ => true
  | _ :: _, [] => false
  | a :: as, b :: bs => a == b && isPrefix as bs

/-- Python `k in l` for two strings -/
def isInfix (k : Str) : Str → Bool
  | [] => k.isEmpty
  | c :: cs => isPrefix k (c :: cs) || isInfix k cs

def keys (a : Allow) : List Str := a.map Prod.fst

def lookup (a : Allow) (k : Str) : Option Int :=
  match a with
  | [] => none
  | (k', b) :: rest => if k' = k then some b else lookup rest k

/-- `d[k] = v` : an existing key keeps its position, a new key is appended -/
def dictSet (a : Allow) (k : Str) (v : Int) : Allow :=
  match a with
  | [] => [(k, v)]
  | (k', b) :: rest => if k' = k then (k', v) :: rest else (k', b) :: dictSet rest k v

/-- `d.update(other)` -/
def dictUpdate (a other : Allow) : Allow := other.foldl (fun acc kv => dictSet acc kv.1 kv.2) a

/-! ## (b) content filters -/

/-- one line against the allow-list, exactly the inner `for a_key in list(allowlist.keys())` loop:
the FIRST key (dict order) contained in the line is charged; it is dropped when it reaches zero.
`none` = no key matched (the line is not kept). -/
def charge : Allow → Str → Option Allow
  | [], _ => none
  | (k, b) :: rest, l =>
    if isInfix k l then some (if b - 1 = 0 then rest else (k, b - 1) :: rest)
    else (charge rest l).map ((k, b) :: ·)

/-- the allow-list after a run of lines (in processing order) -/
def after (a : Allow) : List Str → Allow
  | [] => a
  | l :: ls => match charge a l with
    | some a' => after a' ls
    | none => after a ls

/-- the lines kept from a run of lines (in processing order) -/
def scan (a : Allow) : List Str → List Str
  | [] => []
  | l :: ls => match charge a l with
    | some a' => l :: scan a' ls
    | none => scan a ls

/-- `AllowFilter.filter_content(lines, allowlist)`: bottom-up scan, result back in file order -/
def filterContent (ls : List Str) (a : Allow) : List Str := (scan a ls.reverse).reverse

/-- `AllowFilter.parse_line(line, allowlist=a)` threaded over lines in processing order:
a falsy (empty) line is returned as it is, before the allow-list is consulted -/
def scanC (a : Allow) : List Str → List Str
  | [] => []
  | l :: ls =>
    if l.isEmpty then l :: scanC a ls else
    match charge a l with
    | some a' => l :: scanC a' ls
    | none => scanC a ls

/-- `Cleaner.clean_content(lines, allowlist=a)` with no redaction pattern and every obfuscation
switched off, all lines at most MAX_LINE_LENGTH: bottom-up, empty lines pass, `[]` when every kept
line is empty -/
def cleanAllow (ls : List Str) (a : Allow) : List Str :=
  let r := (scanC a ls.reverse).reverse
  if r.any (fun l => !l.isEmpty) then r else []

/-- what `grep -F -e p1 -e p2 …` is assumed to do: keep exactly the lines containing some pattern -/
def grepF (pats : List Str) (ls : List Str) : List Str := ls.filter (fun l => pats.any (fun k => isInfix k l))

/-- `filters.apply_filters` (the test helper): no filters = everything, otherwise the matching lines -/
def applyFilters (pats : List Str) (ls : List Str) : List Str := if pats.isEmpty then ls else grepF pats ls

/-! ## (a) registry -/

/-- what `add_filter` / `get_filters` / `get_registry_points` read from one component -/
structure Node where
  isDs : Bool              -- plugins.is_datasource(c)
  delegFilterable : Bool   -- dr.get_delegate(c).filterable
  delegRaw : Bool          -- dr.get_delegate(c).raw
  attrFalse : Bool         -- hasattr(c, "filterable") and c.filterable is False
  isPoint : Bool           -- dr.is_registry_point(c)
  pointFilterable : Bool   -- bool(c.filterable) of a registry point
  deps : List Comp         -- dr.get_dependencies(c), iteration order
  dependents : List Comp   -- dr.get_dependents(c), iteration order
deriving Repr

/-- a component nobody registered: not a datasource, no edges -/
def Node.none : Node := ⟨false, false, false, false, false, false, [], []⟩

structure World where
  nodes : List Node
  enabled : Bool           -- filters.ENABLED

def World.node (w : World) (c : Comp) : Node := (w.nodes[c]?).getD Node.none

/-- enough fuel for every walk in an acyclic world (see `rankedBy`) -/
def World.fuel (w : World) : Nat := w.nodes.length + 1

/-- decidable acyclicity certificate: `rank` strictly decreases along dependents and along
dependencies' converse, and is below the fuel.  The harness sends a rank with every world. -/
def rankedBy (w : World) (rank : Comp → Nat) : Bool :=
  (List.range w.nodes.length).all fun c =>
    decide (rank c < w.nodes.length) &&
    (w.node c).dependents.all (fun d => decide (d < w.nodes.length) && decide (rank d < rank c)) &&
    (w.node c).deps.all (fun d => decide (d < w.nodes.length) && decide (rank c < rank d))

abbrev Reg := List (Comp × Allow)

def regOf (r : Reg) (c : Comp) : Allow :=
  match r with
  | [] => []
  | (c', a) :: rest => if c' = c then a else regOf rest c

def regSet (r : Reg) (c : Comp) (a : Allow) : Reg :=
  match r with
  | [] => [(c, a)]
  | (c', a') :: rest => if c' = c then (c', a) :: rest else (c', a') :: regSet rest c a

structure State where
  reg : Reg                        -- FILTERS
  cache : List (Comp × Allow)      -- _CACHE

def State.init : State := ⟨[], []⟩

def cacheGet (cache : List (Comp × Allow)) (c : Comp) : Option Allow :=
  match cache with
  | [] => none
  | (c', a) :: rest => if c' = c then some a else cacheGet rest c

/-! ### add_filter -/

inductive AddErr
  | badMax          -- "Invalid argument: … It can only be a positive integer."
  | notApplicable   -- "Filters aren't applicable to <name>."
  | raw             -- "Filters aren't applicable to raw datasources."
  | typeErr         -- TypeError: patterns is not a str / list / set
  | emptyPattern    -- "Filter patterns must not be empty."
deriving DecidableEq, Repr

/-- `get_dependency_datasources`: the first datasources below a component -/
def depDs (w : World) : Nat → Comp → List Comp
  | 0, _ => []
  | f + 1, c => if (w.node c).isDs then [c] else (w.node c).deps.flatMap (depDs w f)

/-- `none_max` on an optional old value -/
def noneMax (old : Option Int) (new : Int) : Int :=
  match old with
  | none => new
  | some o => if o < new then new else o

/-- `FILTERS[comp].update(max_matchs(FILTERS[comp], {p: max for p in patterns}))` -/
def mergePatterns (a : Allow) (pats : List Str) (mx : Int) : Allow :=
  pats.foldl (fun acc p => dictSet acc p (noneMax (lookup acc p) mx)) a

/-- everything `add_filter` does before it reaches `inner`: the argument check on `max_match`, the
walk to the datasources and the raw / filterable refusals.  Result = the components `inner` will be
called on.  `mx = none`: `None` or not of type int. -/
def addPre (w : World) (comp : Comp) (mx : Option Int) : Except AddErr (List Comp) :=
  match mx with
  | none => .error .badMax
  | some m =>
    if m ≤ 0 then .error .badMax
    else if !(w.node comp).isDs then
      let deps := (depDs w w.fuel comp).eraseDups
      if deps.isEmpty then .ok []
      else
        let fdeps := deps.filter (fun d => (w.node d).delegFilterable)
        if fdeps.isEmpty then .error .notApplicable else .ok fdeps
    else if (w.node comp).delegRaw then .error .raw
    else if !(w.node comp).delegFilterable then .error .notApplicable
    else .ok [comp]

/-- the checks `inner` makes on the patterns (`none`: not a str / list / set) -/
def checkPats (pats : Option (List Str)) : Except AddErr Unit :=
  match pats with
  | none => .error .typeErr
  | some ps => if ps.any (·.isEmpty) then .error .emptyPattern else .ok ()

/-- the components `add_filter(comp, …)` writes to, or the exception it raises; depends on the
world and the arguments only, never on FILTERS / _CACHE -/
def addTargets (w : World) (comp : Comp) (pats : Option (List Str)) (mx : Option Int) :
    Except AddErr (List Comp) :=
  match addPre w comp mx with
  | .error e => .error e
  | .ok [] => .ok []
  | .ok (t :: ts) =>
    match checkPats pats with
    | .error e => .error e
    | .ok _ => .ok (t :: ts)

/-- does `add_filter` reach `inner` (and so clear the cache) — it does so before looking at the patterns -/
def addClears (w : World) (comp : Comp) (mx : Option Int) : Bool :=
  match addPre w comp mx with
  | .ok (_ :: _) => true
  | _ => false

/-- the writes of one successful `add_filter`: `inner` on every target -/
def applyAdd (r : Reg) (ts : List Comp) (ps : List Str) (m : Int) : Reg :=
  ts.foldl (fun r t => regSet r t (mergePatterns (regOf r t) ps m)) r

def addFilter (w : World) (st : State) (comp : Comp) (pats : Option (List Str)) (mx : Option Int) :
    State × Except AddErr Unit :=
  let cache := if addClears w comp mx then [] else st.cache
  match addTargets w comp pats mx with
  | .error e => (⟨st.reg, cache⟩, .error e)
  | .ok ts => (⟨applyAdd st.reg ts (pats.getD []) (mx.getD 0), cache⟩, .ok ())

/-- the invalidation as it was before fix 336d828: only the entries of the written components go -/
def addFilterOld (w : World) (st : State) (comp : Comp) (pats : Option (List Str)) (mx : Option Int) :
    State × Except AddErr Unit :=
  match addTargets w comp pats mx with
  | .error e => (st, .error e)
  | .ok ts =>
    (⟨applyAdd st.reg ts (pats.getD []) (mx.getD 0), st.cache.filter (fun e => !ts.contains e.1)⟩, .ok ())

/-! ### get_filters -/

/-- the three early returns of `get_filters.inner` -/
def gate (w : World) (c : Comp) : Bool :=
  !(w.node c).attrFalse && w.enabled && (w.node c).isDs

/-- `get_filters.inner(c, filters)` -/
def inner (w : World) (reg : Reg) : Nat → Comp → Allow → Allow
  | 0, _, acc => acc
  | f + 1, c, acc =>
    if gate w c then
      (w.node c).dependents.foldl (fun a d => inner w reg f d a) (dictUpdate acc (regOf reg c))
    else acc

/-- the value `get_filters` computes on a cache miss -/
def compute (w : World) (reg : Reg) (c : Comp) : Allow := inner w reg w.fuel c []

/-- `get_filters(c, with_matches=True)`; the Bool tells whether the cache answered -/
def getFilters (w : World) (st : State) (c : Comp) : State × Allow × Bool :=
  match cacheGet st.cache c with
  | some v => (st, v, true)
  | none =>
    let v := compute w st.reg c
    (⟨st.reg, (c, v) :: st.cache⟩, v, false)

/-! ### histories -/

inductive Op
  | add (comp : Comp) (pats : Option (List Str)) (mx : Option Int)
  | get (comp : Comp)
deriving DecidableEq

def stepOp (w : World) (st : State) : Op → State
  | .add c p m => (addFilter w st c p m).1
  | .get c => (getFilters w st c).1

def run (w : World) (ops : List Op) : State := ops.foldl (stepOp w) State.init

def stepOpOld (w : World) (st : State) : Op → State
  | .add c p m => (addFilterOld w st c p m).1
  | .get c => (getFilters w st c).1

def runOld (w : World) (ops : List Op) : State := ops.foldl (stepOpOld w) State.init

/-! ### specification vocabulary (used by the theorems, not by the driver) -/

/-- `Reach w c d`: the registrations on `d` count for `c` — `d` is `c` or a dependent of `c`
(transitively), every component on the way (both ends included) passing the gate of `get_filters` -/
inductive Reach (w : World) : Comp → Comp → Prop
  | here {c : Comp} : gate w c = true → Reach w c c
  | step {c d e : Comp} : gate w c = true → d ∈ (w.node c).dependents → Reach w d e → Reach w c e

/-- the registration log: some `add_filter` call of the history succeeded, wrote to `d`, and had `k`
among its patterns -/
def Registered (w : World) (ops : List Op) (d : Comp) (k : Str) : Prop :=
  ∃ comp ps mx ts, Op.add comp (some ps) mx ∈ ops ∧ addTargets w comp (some ps) mx = .ok ts ∧
    d ∈ ts ∧ k ∈ ps

/-- `FirstDs w c d`: `d` is one of the first datasources below `c` (what `add_filter` on a parser
or combiner looks for) -/
inductive FirstDs (w : World) : Comp → Comp → Prop
  | here {c : Comp} : (w.node c).isDs = true → FirstDs w c c
  | step {c e d : Comp} : (w.node c).isDs = false → e ∈ (w.node c).deps → FirstDs w e d → FirstDs w c d

/-! ### provider construction (spec_factory.py 208-229 / 380-406) -/

/-- `dr.get_registry_points(c)` for a datasource: walk the dependents -/
def regPoints (w : World) : Nat → Comp → List Comp
  | 0, _ => []
  | f + 1, c =>
    if (w.node c).isPoint then [c]
    else (w.node c).dependents.flatMap (fun d => if (w.node d).isPoint then [d] else regPoints w f d)

/-- `self._filterable` -/
def specFilterable (w : World) (ds : Comp) : Bool :=
  w.enabled && (regPoints w w.fuel ds).any (fun p => (w.node p).pointFilterable)

inductive Built
  | noFilter                                  -- NoFilterException
  | ok (filterable : Bool) (filters : Allow)
deriving Repr, DecidableEq

/-- constructor of EVERY provider kind as far as filters are concerned — FileProvider.__init__ +
validate (208-229) and CommandOutputProvider.__init__ + validate (380-406, inherited by the container
command / file providers) compute `_filterable` and `_filters` the same way from `ds` and refuse the
same way (the file / command exists, is readable and is not black-listed) -/
def construct (w : World) (st : State) (host : Bool) (ds : Comp) : State × Built :=
  let (st', fs, _) := getFilters w st ds
  if host && specFilterable w ds && fs.isEmpty then (st', .noFilter)
  else (st', .ok (specFilterable w ds) fs)

/-- content of a TextFileProvider built by `construct`, after `write()` on a host
(grep pre-filter, then the cleaner's allow-list when the spec is filterable) or after `load()`
under an archive context (post-filter).  `grep` = the pre-filter actually used. -/
def providerContent (grep : List Str → List Str → List Str) (host : Bool) (filterable : Bool)
    (fs : Allow) (file : List Str) : List Str :=
  if host then
    let pre := if fs.isEmpty then file else grep (keys fs) file
    if filterable then cleanAllow pre fs else pre
  else
    if fs.isEmpty then file else filterContent file fs

/-- one load of a TextFileProvider of datasource `ds` under an archive context (constructor look-up,
then `load()`): the state it leaves and the content it returns.  `filter_content` works on a COPY
of the allow-list, so the only trace a load leaves is the look-up's cache entry. -/
def loadArchive (w : World) (st : State) (ds : Comp) (file : List Str) : State × List Str :=
  let r := getFilters w st ds
  (r.1, providerContent grepF false true r.2.1 file)

/-- `PointAbove w c p`: `p` is a registry point `dr.get_registry_points(c)` finds for the datasource
`c` — `c` itself, or reached through dependents, however many levels (an alternative inside
`first_of([...])`, something wrapped by `head()`, the command behind `foreach_execute`, …) -/
inductive PointAbove (w : World) : Comp → Comp → Prop
  | here {c : Comp} : (w.node c).isPoint = true → PointAbove w c c
  | step {c d p : Comp} : (w.node c).isPoint = false → d ∈ (w.node c).dependents → PointAbove w d p →
      PointAbove w c p

/-- `CommandOutputProvider.load()` with `split=True` (spec_factory.py 408-444): grep is in the
pipeline whenever the provider has filters -/
def commandContent (grep : List Str → List Str → List Str) (fs : Allow) (output : List Str) : List Str :=
  if fs.isEmpty then output else grep (keys fs) output

/-! ### every branch of `TextFileProvider.load()` / `_stream()` (spec_factory.py 284-330) -/

/-- bytes of one line on disk: its UTF-8 encoding plus the newline (files whose every line ends in `\n`) -/
def lineBytes (l : Str) : Nat := (l.map Char.utf8Size).sum + 1

/-- lines lost by `f.seek(off)` + "discard the first line which is broken": the line the offset falls
into is dropped whole — also when the offset is exactly its first byte -/
def dropCount : List Nat → Nat → Nat
  | [], _ => 0
  | s :: rest, off => if off < s then 1 else 1 + dropCount rest (off - s)

/-- is the file above `MAX_CONTENT_SIZE` (the truncated-read branch)? -/
def isHuge (maxSize : Nat) (ls : List Str) : Bool := decide ((ls.map lineBytes).sum > maxSize)

/-- what the open()-branch of `load()` reads: the whole file, or for a file above `maxSize`
(= MAX_CONTENT_SIZE) the complete lines inside its last `maxSize` bytes -/
def readLines (maxSize : Nat) (ls : List Str) : List Str :=
  if isHuge maxSize ls then ls.drop (dropCount (ls.map lineBytes) ((ls.map lineBytes).sum - maxSize)) else ls

/-- `TextFileProvider.load()`, all branches: grep on a host with filters (whole file, never
truncated); otherwise read (whole / tail) and, off-host with filters, post-filter -/
def loadFile (grep : List Str → List Str → List Str) (maxSize : Nat) (host : Bool) (fs : Allow)
    (file : List Str) : List Str :=
  if host && !fs.isEmpty then grep (keys fs) file
  else if !host && !fs.isEmpty then filterContent (readLines maxSize file) fs
  else readLines maxSize file

/-- `provider.stream()`: the loaded content when there is a non-empty one; otherwise grep on a host
with filters; otherwise the file as it is — NOT truncated and NOT post-filtered (as the code is) -/
def streamFile (grep : List Str → List Str → List Str) (maxSize : Nat) (host loaded : Bool) (fs : Allow)
    (file : List Str) : List Str :=
  if loaded && !(loadFile grep maxSize host fs file).isEmpty then loadFile grep maxSize host fs file
  else if host && !fs.isEmpty then grep (keys fs) file
  else file

/-! ### hydration of a serialized archive (serde.py 130-135, 154-164; spec_factory.py deserializers) -/

/-- the `results` entry of one meta-data document: nothing, one serialized provider, or the list a
`multi_output` spec (glob_file, foreach_collect / foreach_execute, container specs) produced; each
provider is the lines of its data file in the archive -/
inductive Results
  | none
  | single (file : List Str)
  | multi (files : List (List Str))

/-- `deserialize(d, root, ctx, ds).content`: every deserializer builds a `SerializedOutputProvider`
with `ds` = the spec, i.e. a TextFileProvider off-host whose filters are the spec's filters NOW -/
def rebuild (maxSize : Nat) (fs : Allow) (file : List Str) : List Str := loadFile grepF maxSize false fs file

/-- `unmarshal(doc["results"], ds=spec)` followed by `.content` of every rebuilt provider -/
def hydrateResults (maxSize : Nat) (fs : Allow) : Results → List (List Str)
  | .none => []
  | .single file => [rebuild maxSize fs file]
  | .multi files => files.map (rebuild maxSize fs)

def Results.elements : Results → List (List Str)
  | .none => []
  | .single file => [file]
  | .multi files => files

/-! ## (d) the other registration entry points: `spec_factory.find` and `filters.loads` -/

inductive FindErr
  | raw                 -- ValueError "<name>: Cannot filter raw files."
  | add (e : AddErr)    -- whatever `filters._add_filter` raised
deriving DecidableEq, Repr

/-- `find(spec, pattern).__init__` (spec_factory.py 1538-1551) as far as filters are concerned: refuse a
spec whose `raw` attribute is set; register through `filters._add_filter(spec, pattern)` (= `add_filter`,
default budget MAX_MATCH) iff the spec object carries a true `filterable` attribute (registry points and
the objects bound to them do); otherwise register nothing.  `Node.pointFilterable` is
`bool(getattr(c, "filterable", False))` of any component. -/
def findSpec (w : World) (st : State) (c : Comp) (pats : Option (List Str)) : State × Except FindErr Unit :=
  if (w.node c).delegRaw then (st, .error .raw)
  else if (w.node c).pointFilterable then
    match addFilter w st c pats (some 10000) with
    | (st', .ok _) => (st', .ok ())
    | (st', .error e) => (st', .error (.add e))
  else (st, .ok ())

/-- histories that also use `find` -/
inductive XOp
  | base (o : Op)
  | find (comp : Comp) (pats : Option (List Str))

def stepX (w : World) (st : State) : XOp → State
  | .base o => stepOp w st o
  | .find c p => (findSpec w st c p).1

def runX (w : World) (xs : List XOp) : State := xs.foldl (stepX w) State.init

/-- what a `find` is in terms of `add_filter`: one call with the default budget, or nothing -/
def desugar (w : World) : XOp → List Op
  | .base o => [o]
  | .find c p => if !(w.node c).delegRaw && (w.node c).pointFilterable then [.add c p (some 10000)] else []

/-- `filters.loads(text)` (filters.py 222-227): every entry REPLACES `FILTERS[comp]`; `_CACHE` is left
as it is -/
def loadsReg (st : State) (entries : List (Comp × Allow)) : State :=
  ⟨entries.foldl (fun r e => regSet r e.1 e.2) st.reg, st.cache⟩

/-! ## (e) component types: `plugins.is_type` / `is_datasource` over derived types -/

/-- the component types of insights (`datasource`, `parser`, …, and types DERIVED from them):
`tt[t]` = index of the base class of type `t` among the component types, `none` = derived directly
from `ComponentType` (single inheritance, as `dr.ComponentType` subclasses are declared) -/
abbrev TypeTable := List (Option Nat)

def parentOf (tt : TypeTable) (t : Nat) : Option Nat := (tt[t]?).getD none

/-- `issubclass(t, base)`: walk the base classes -/
def isSub (tt : TypeTable) : Nat → Nat → Nat → Bool
  | 0, _, _ => false
  | f + 1, t, base =>
    t == base || (match parentOf tt t with
      | some p => isSub tt f p base
      | none => false)

/-- `plugins.is_type(component, base)` for a component declared with type `t` -/
def typeIs (tt : TypeTable) (t base : Nat) : Bool := isSub tt (tt.length + 1) t base

/-- classes are declared after their base class -/
def declaredInOrder (tt : TypeTable) : Bool :=
  (List.range tt.length).all fun t => match parentOf tt t with
    | some p => decide (p < t)
    | none => true

inductive Derives (tt : TypeTable) : Nat → Nat → Prop
  | refl (t : Nat) : Derives tt t t
  | step {t p b : Nat} : parentOf tt t = some p → Derives tt p b → Derives tt t b

end IV.Filters
