/-
Python values and operators as far as insights/client/config.py uses them on option values
(C16).  Hand-written prelude of the GENERATED file IV/Gen/ClientConfig.lean and of the loader
model IV/Model/ClientLoad.lean.  Import-free.

`or` / `and` return an operand (Python semantics), conditions go through `truthy`.
-/
namespace IV.ClientVal

abbrev Str := List Char

/-- the values an option can take.  `flt n e` is the decimal `n · 10^-e` with `e` minimal
(only produced by the `float()` coercion of `http_timeout`); `obj t r` is any other object
(the `branch_info` dict, a manifest, a directory listing): only its truth value `t` and its
`repr` text `r` are kept. -/
inductive PyVal where
  | none
  | bool (b : Bool)
  | int (i : Int)
  | str (s : Str)
  | flt (num : Int) (exp : Nat)
  | obj (t : Bool) (repr : Str)
deriving DecidableEq, Repr, Inhabited

/-- `bool(v)` -/
def truthy : PyVal → Bool
  | .none => false
  | .bool b => b
  | .int i => i != 0
  | .str s => !s.isEmpty
  | .flt n _ => n != 0
  | .obj t _ => t

/-- `a or b` -/
def pyOr (a b : PyVal) : PyVal := if truthy a then a else b
/-- `a and b` -/
def pyAnd (a b : PyVal) : PyVal := if truthy a then b else a
/-- `not a` -/
def pyNot (a : PyVal) : PyVal := .bool (!truthy a)

/-- numeric view: `True == 1`, `1 == 1.0` -/
def asNum : PyVal → Option (Int × Nat)
  | .bool b => some (if b then 1 else 0, 0)
  | .int i => some (i, 0)
  | .flt n e => some (n, e)
  | _ => Option.none

/-- `a == b` -/
def pyEq (a b : PyVal) : Bool :=
  match asNum a, asNum b with
  | some x, some y => x == y
  | Option.none, Option.none => a == b
  | _, _ => false

/-- `a is <None|True|False>`: identity with a singleton = structural equality with it -/
def pyIs (a b : PyVal) : Bool := a == b

/-- `a in (k1, k2, …)` for a constant tuple -/
def pyIn (a : PyVal) (xs : List PyVal) : Bool := xs.any (pyEq a)

/-- `a < b` on numbers without a fractional part (bool counts as int).  Python 3 raises TypeError
for str/None operands; the loaders coerce the only option compared this way (`retries`) to int
from every source, so that branch is not modelled (it answers `false`). -/
def pyLt (a b : PyVal) : Bool :=
  match asNum a, asNum b with
  | some (x, 0), some (y, 0) => x < y
  | _, _ => false

@[simp] theorem truthy_pyOr (a b : PyVal) : truthy (pyOr a b) = (truthy a || truthy b) := by
  unfold pyOr; cases h : truthy a <;> simp [h]
@[simp] theorem truthy_pyAnd (a b : PyVal) : truthy (pyAnd a b) = (truthy a && truthy b) := by
  unfold pyAnd; cases h : truthy a <;> simp [h]
@[simp] theorem truthy_pyNot (a : PyVal) : truthy (pyNot a) = !truthy a := rfl
@[simp] theorem truthy_bool (b : Bool) : truthy (.bool b) = b := rfl
@[simp] theorem truthy_none : truthy .none = false := rfl

end IV.ClientVal
