import IV.Model.Dr
/-!
`ComponentType.__init__` (dr.py:709-735) on decorator arguments as they may really be written: an at-least-one
group may contain something that is not a key (a list inside the list), and the deprecated `requires=`
keyword may be handed a tuple instead of a list.  Both (and a list inside the `optional=` list) are REJECTED by the code (`TypeError`):
`self.dependencies = set(self.deps)` cannot hash the inner list, and `list(cls.requires) + deps` cannot
add a tuple to a list.  A tuple written as a positional argument or inside a group is an ordinary hashable
key (only `list` makes a group) and is modelled as a component number like any other key.
-/
namespace IV.Dr

/-- a member of an at-least-one list: a key, or (malformed) a list again -/
inductive Member where
  | comp (c : Comp)
  | nested (cs : List Comp)
deriving DecidableEq, Repr

inductive RItem where
  | one (c : Comp)
  | group (ms : List Member)
deriving DecidableEq, Repr

structure RawDecl2 where
  kind : Kind
  clsRequires : List RItem
  clsOptional : List Comp
  positional : List RItem
  kwRequires : List RItem
  kwRequiresIsTuple : Bool          -- `requires=(…)` instead of `requires=[…]`
  kwOptional : OptArg
  kwOptionalHasList : Bool := false  -- `optional=[a, [b, c]]`: a list inside the optional list
deriving DecidableEq, Repr

def allSome {α : Type} : List (Option α) → Option (List α)
  | [] => some []
  | none :: _ => none
  | some a :: t => (allSome t).map (a :: ·)

def Member.key : Member → Option Comp
  | .comp c => some c
  | .nested _ => none

def RItem.toItem : RItem → Option Item
  | .one c => some (.one c)
  | .group ms => (allSome (ms.map Member.key)).map Item.group

def Kind.isParser : Kind → Bool
  | .parser _ => true
  | _ => false

/-- `none` = `TypeError` out of the decorator call -/
def derive2 (r : RawDecl2) : Option Decl :=
  -- `parser.__init__` forwards only `group`: both keywords are dropped for a parser
  let kwReq := if r.kind.isParser then [] else r.kwRequires
  let kwTuple := !r.kind.isParser && r.kwRequiresIsTuple
  if r.positional.isEmpty && kwTuple then none            -- `list(cls.requires) + <tuple>`
  else if !r.kind.isParser && r.kwOptionalHasList then none   -- `set(self.deps)` with the inner list among the deps
  else
    let eff := r.clsRequires ++ (if r.positional.isEmpty then kwReq else r.positional)
    (allSome (eff.map RItem.toItem)).map fun items =>       -- `set(self.deps)` with a list among the deps
      ⟨r.kind, items, r.clsOptional ++ (if r.kind.isParser then [] else r.kwOptional.toList)⟩

/-- a well-formed declaration written in the wider syntax -/
def Item.raw : Item → RItem
  | .one c => .one c
  | .group cs => .group (cs.map Member.comp)

def RawDecl.raw (r : RawDecl) : RawDecl2 :=
  ⟨r.kind, r.clsRequires.map Item.raw, r.clsOptional, r.positional.map Item.raw, r.kwRequires.map Item.raw, false, r.kwOptional, false⟩

end IV.Dr
