/-
Model of the base parsers of insights/core/__init__.py (property C14):

  * `CommandParser.validate_lines` / `CommandParser.__init__`            (lines 571-621)
  * `JSONParser.parse_content`                                            (lines 812-839)
  * `YAMLParser.parse_content`                                            (lines 776-796)
  * `TextFileOutput.__contains__`, `_valid_search`, `get`                 (lines 1035-1094)
  * `LogFileOutput.get_after`: the inclusion loop and the year inference  (lines 1368-1400)

Parameters (the theorems hold for every instantiation):
  `lower : Str → Str`                      Python's `str.lower` (the driver uses `asciiLower`)
  `loads : Str → Except Unit JVal`         `json.loads` / `yaml.load(.., Loader=SafeLoader)`; `.error` = it raised
  `stamp : Line → Option RawStamp`         `time_re.search(line)` + the fields `strptime` extracts from the match
  `hasYear : Bool`                         `logs_have_year` (a function of the class's `time_format`)
Not modelled (outside the property or format-level only): the `time_format is None` RuntimeError and the
ParseException for an unknown strptime directive / format type (lines 1277-1357: they depend on the class, not
on the log), the dictionaries built by `_parse_line` (only `raw_message` is compared), scanner registration
(`keep_scan` / `last_scan` / `token_scan` are tied through `get` / `textContains`), `get(None)`, non-string
search items, `num` that is not an int, tz-aware thresholds, LazyLogFileOutput.
The bad-line lists are arguments here; `IV/Gen/BadLines.lean` (regenerated from the live class on
every run) supplies them to the theorems' instances and to the driver.
-/
namespace IV.BaseParsers

abbrev Str := List Char
abbrev Line := Str

/-! ## Python `str` primitives -/

/-- `s.startswith(p)` -/
def isPrefix : Str → Str → Bool
  | [], _ => true
  | _ :: _, [] => false
  | p :: ps, c :: cs => p == c && isPrefix ps cs

/-- `needle in hay` -/
def contains (needle : Str) : Str → Bool
  | [] => isPrefix needle []
  | c :: cs => isPrefix needle (c :: cs) || contains needle cs

def lowerChar (c : Char) : Char :=
  if 'A' ≤ c ∧ c ≤ 'Z' then Char.ofNat (c.toNat + 32) else c

/-- `str.lower` restricted to what the driver is fed (ASCII letters; other characters caseless) -/
def asciiLower (s : Str) : Str := s.map lowerChar

/-- `str.isspace` for one character (CPython's `_PyUnicode_IsWhitespace` table) -/
def isSpace (c : Char) : Bool :=
  let n := c.toNat
  (9 ≤ n && n ≤ 13) || (28 ≤ n && n ≤ 32) || n == 133 || n == 160 || n == 5760 ||
  (8192 ≤ n && n ≤ 8202) || n == 8232 || n == 8233 || n == 8239 || n == 8287 || n == 12288

def lstrip : Str → Str
  | [] => []
  | c :: cs => if isSpace c then lstrip cs else c :: cs

/-- `s.strip()` -/
def strip (s : Str) : Str := (lstrip (lstrip s).reverse).reverse

/-- `'\n'.join(lines)` -/
def joinNl : List Line → Str
  | [] => []
  | [l] => l
  | l :: ls => l ++ '\n' :: joinNl ls

/-! ## CommandParser -/

/-- `any(bl in rl.lower() for bl in bad for rl in results)` -/
def hasBad (lower : Str → Str) (bad : List Str) (results : List Line) : Bool :=
  bad.any (fun bl => results.any (fun rl => contains bl (lower rl)))

/-- `CommandParser.validate_lines(results, bad_single_lines, bad_lines)` -/
def validateLines (lower : Str → Str) (results : List Line) (badSingle badMulti : List Str) : Bool :=
  if results.isEmpty then true                         -- `if results:` is falsy
  else
    let bl := if results.length > 1 then badMulti else badSingle
    !(hasBad lower bl results)

inductive CmdOutcome
  | contentError (first : Line)       -- ContentException(name + ": " + first)
  | parsed (content : List Line)      -- Parser.__init__ → parse_content(context.content)
deriving DecidableEq, Repr

def noContent : Str := "<no content>".toList

/-- the value of `valid_lines` at line 617; `extra = []` models both `None` and `[]` -/
def cmdValid (lower : Str → Str) (badSingle badMulti extra : List Str) (content : List Line) : Bool :=
  let v := validateLines lower content badSingle badMulti
  if v && !extra.isEmpty then validateLines lower content extra extra else v

/-- `CommandParser.__init__(context, extra_bad_lines)` -/
def commandInit (lower : Str → Str) (badSingle badMulti extra : List Str) (content : List Line) : CmdOutcome :=
  if !cmdValid lower badSingle badMulti extra content then
    .contentError (match content with | [] => noContent | f :: _ => f)
  else .parsed content

/-! ## JSONParser / YAMLParser -/

inductive JKind | null | scalar | seq | map
deriving DecidableEq, Repr

/-- a loaded document: its kind (`None` / `dict` / `list` / anything else) and a canonical rendering -/
structure JVal where
  kind : JKind
  repr : Str
deriving DecidableEq, Repr

inductive DocOutcome
  | skip                                                   -- SkipComponent
  | parseError                                             -- ParseException
  | data (v : JVal) (unparsed : Option (List Line))        -- object built: `.data`, `.unparsed_lines` (absent = none)
deriving DecidableEq, Repr

/-- `line = _line.strip(); line and line.startswith('{') or line.startswith('[')` -/
def startsDoc (l : Line) : Bool :=
  let s := strip l
  (!s.isEmpty && isPrefix ['{'] s) || isPrefix ['['] s

/-- the `for idx, _line in enumerate(content)` loop with `break`; `none` = loop ran to the end -/
def findStart : Nat → List Line → Option Nat
  | _, [] => none
  | idx, l :: ls => if startsDoc l then some idx else findStart (idx + 1) ls

/-- `actual_start_index` (initialised to 0) -/
def jsonStartIdx (content : List Line) : Nat := (findStart 0 content).getD 0

/-- lines 827-839 after the text is chosen: `json.loads(text)` inside the bare `except:` (→ ParseException),
then `if self.data is None: raise SkipComponent` -/
def docOutcome (loads : Str → Except Unit JVal) (text : Str) (unparsed : Option (List Line)) : DocOutcome :=
  match loads text with
  | .error _ => .parseError
  | .ok v => if v.kind = .null then .skip else .data v unparsed

/-- `JSONParser.parse_content(content)` for list content -/
def jsonParse (loads : Str → Except Unit JVal) (content : List Line) : DocOutcome :=
  if content.isEmpty then .skip                            -- `if not content`
  else
    let i := jsonStartIdx content
    docOutcome loads (joinNl (content.drop i)) (some (content.take i))

/-- `JSONParser.parse_content(content)` for `str` content (the `else:` branch; no `unparsed_lines`) -/
def jsonParseStr (loads : Str → Except Unit JVal) (content : Str) : DocOutcome :=
  if content.isEmpty then .skip else docOutcome loads content none

/-- `l.lstrip().lower().startswith(ignore_lines)` (a tuple of prefixes) -/
def yamlIgnored (lower : Str → Str) (ignore : List Str) (l : Line) : Bool :=
  ignore.any (fun p => isPrefix p (lower (lstrip l)))

/-- lines 781-787 after the text is chosen: `yaml.load(text)`, `None` → SkipComponent, anything that is not a
`dict` / `list` → ParseException; every exception other than SkipComponent — whatever its type — is turned into
ParseException by the bare `except:` (lines 791-796) -/
def yamlOutcome (loads : Str → Except Unit JVal) (text : Str) : DocOutcome :=
  match loads text with
  | .error _ => .parseError
  | .ok v =>
    match v.kind with
    | .null => .skip
    | .scalar => .parseError                               -- raised inside the try, translated by `except:`
    | _ => .data v none

/-- `YAMLParser.parse_content(content)` for list content -/
def yamlParse (lower : Str → Str) (loads : Str → Except Unit JVal) (ignore : List Str)
    (content : List Line) : DocOutcome :=
  let kept := content.filter (fun l => !(yamlIgnored lower ignore l))
  yamlOutcome loads (joinNl kept)

/-- `YAMLParser.parse_content(content)` for `str` content (the `else:` branch: no `ignore_lines`, no emptiness test) -/
def yamlParseStr (loads : Str → Except Unit JVal) (content : Str) : DocOutcome :=
  yamlOutcome loads content

/-! ## TextFileOutput: `in`, `get` -/

inductive Term
  | one (s : Str)             -- a string
  | many (ws : List Str)      -- a list of strings
deriving DecidableEq, Repr

inductive Chk | all | any
deriving DecidableEq, Repr

/-- `_valid_search(s, check)`; `none` = TypeError (empty list) -/
def validSearch (t : Term) (c : Chk) : Option (Line → Bool) :=
  match t with
  | .one s => some (fun l => contains s l)
  | .many [] => none
  | .many ws => some (fun l => match c with
      | .all => ws.all (fun w => contains w l)
      | .any => ws.any (fun w => contains w l))

/-- `__contains__` (always `check=all`) and the `token_scan` scanner (`check` as registered) -/
def textContains (t : Term) (c : Chk) (lines : List Line) : Option Bool :=
  (validSearch t c).map (fun p => lines.any p)

/-- the `for l in lines:` loop of `get`: `ret` is the list built so far -/
def getLoop (p : Line → Bool) (num : Option Int) : List Line → List Line → List Line
  | ret, [] => ret
  | ret, l :: ls =>
    let room := match num with | none => true | some n => decide ((ret.length : Int) < n)
    if room && p l then getLoop p num (ret ++ [l]) ls else getLoop p num ret ls

/-- `get(s, check, num, reverse)`: the raw lines of the returned dictionaries; `none` = TypeError -/
def get (t : Term) (c : Chk) (num : Option Int) (reverse : Bool) (lines : List Line) : Option (List Line) :=
  match validSearch t c with
  | none => none
  | some p =>
    let ls := if reverse then lines.reverse else lines
    let ret := getLoop p num [] ls
    some (if reverse then ret.reverse else ret)

/-! ## LogFileOutput.get_after -/

/-- what the regular expression + `strptime` field extraction give for a line (before any
`datetime` is constructed): `year = none` when the matched format has no `%Y`/`%y` -/
structure RawStamp where
  year : Option Nat
  month : Nat
  day : Nat
  tod : Nat            -- microseconds since midnight
deriving DecidableEq, Repr

/-- `%y` (two-digit year) as `_strptime` converts it — the POSIX pivot: 00–68 → 2000–2068, 69–99 → 1969–1999
(`if year <= 68: year += 2000 else: year += 1900`).  A stamp written with `%y` has `year = some (pivotYear yy)`. -/
def pivotYear (yy : Nat) : Nat := if yy ≤ 68 then yy + 2000 else yy + 1900

/-- the fields of a stamp whose year was written with two digits -/
def RawStamp.ofTwoDigitYear (yy month day tod : Nat) : RawStamp := ⟨some (pivotYear yy), month, day, tod⟩

/-- a naive `datetime.datetime` -/
structure Time where
  year : Nat
  month : Nat
  day : Nat
  tod : Nat
deriving DecidableEq, Repr

def isLeap (y : Nat) : Bool := y % 4 == 0 && (y % 100 != 0 || y % 400 == 0)

def daysInMonth (y m : Nat) : Nat :=
  match m with
  | 1 => 31 | 2 => if isLeap y then 29 else 28 | 3 => 31 | 4 => 30 | 5 => 31 | 6 => 30
  | 7 => 31 | 8 => 31 | 9 => 30 | 10 => 31 | 11 => 30 | 12 => 31 | _ => 0

def validDate (y m d : Nat) : Bool :=
  1 ≤ y && y ≤ 9999 && 1 ≤ m && m ≤ 12 && 1 ≤ d && d ≤ daysInMonth y m

def usPerDay : Nat := 86400000000

/-- `datetime.datetime(y, m, d, ...)`: `none` = ValueError -/
def mkTime (y m d tod : Nat) : Option Time :=
  if validDate y m d && tod < usPerDay then some ⟨y, m, d, tod⟩ else none

/-- `datetime._days_before_year` -/
def daysBeforeYear (y : Nat) : Nat :=
  let p := y - 1
  p * 365 + p / 4 - p / 100 + p / 400

def cumDays (m : Nat) : Nat :=
  match m with
  | 1 => 0 | 2 => 31 | 3 => 59 | 4 => 90 | 5 => 120 | 6 => 151 | 7 => 181 | 8 => 212
  | 9 => 243 | 10 => 273 | 11 => 304 | 12 => 334 | _ => 0

/-- `datetime._days_before_month` -/
def daysBeforeMonth (y m : Nat) : Nat := cumDays m + (if m > 2 && isLeap y then 1 else 0)

/-- `date.toordinal()` -/
def ordinal (y m d : Nat) : Nat := daysBeforeYear y + daysBeforeMonth y m + d

/-- microseconds since 0001-01-01 minus one day: `a - b > timedelta(days=n)` ⟺ `a.micros > b.micros + n*usPerDay`,
`a >= b` ⟺ `a.micros ≥ b.micros` -/
def Time.micros (t : Time) : Nat := ordinal t.year t.month t.day * usPerDay + t.tod

/-- `t.replace(year=y)`: `none` = ValueError -/
def Time.replaceYear (t : Time) (y : Nat) : Option Time := mkTime y t.month t.day t.tod

def d330 : Nat := 330 * usPerDay

/-- lines 1381-1389: substitute the threshold's year, shift by one year when more than 330 days away -/
def inferYear (thr t0 : Time) : Option Time :=
  match t0.replaceYear thr.year with
  | none => none
  | some t1 =>
    if t1.micros > thr.micros + d330 then t1.replaceYear (thr.year - 1)
    else if thr.micros > t1.micros + d330 then t1.replaceYear (thr.year + 1)
    else some t1

/-- `parse_fn(match.group(0))` followed by the year substitution: `strptime` builds a `datetime`
with year 1900 when the format has none (ValueError when that date does not exist) -/
def resolve (hasYear : Bool) (thr : Time) (r : RawStamp) : Option Time :=
  match mkTime (r.year.getD 1900) r.month r.day r.tod with
  | none => none
  | some t0 => if hasYear then some t0 else inferYear thr t0

/-- the `for line in self.lines:` loop: `keep` = the `s` filter (`continue`), `st line` =
`none` no timestamp, `some none` a timestamp whose conversion raises, `some (some t)` its time;
result `none` = ValueError escaped -/
def afterGo (keep : Line → Bool) (st : Line → Option (Option Time)) (thr : Time) :
    Bool → List Line → Option (List Line)
  | _, [] => some []
  | inc, l :: ls =>
    if !keep l then afterGo keep st thr inc ls
    else match st l with
      | some none => none
      | some (some t) =>
        if t.micros ≥ thr.micros then (afterGo keep st thr true ls).map (l :: ·)
        else afterGo keep st thr false ls
      | none =>
        if inc then (afterGo keep st thr inc ls).map (l :: ·) else afterGo keep st thr inc ls

inductive AfterOutcome
  | typeError
  | valueError
  | ok (ls : List Line)
deriving DecidableEq, Repr

/-- `if s and not search_by_expression(line): continue` -/
def afterKeep (s : Option Term) : Option (Line → Bool) :=
  match s with
  | none => some (fun _ => true)
  | some t =>
    match validSearch t .all with
    | none => none
    | some p => some (match t with | .one [] => (fun _ => true) | _ => p)

/-- `list(get_after(timestamp, s))`: the raw lines -/
def getAfter (stamp : Line → Option RawStamp) (hasYear : Bool) (thr : Time) (s : Option Term)
    (lines : List Line) : AfterOutcome :=
  match afterKeep s with
  | none => .typeError
  | some keep =>
    match afterGo keep (fun l => (stamp l).map (resolve hasYear thr)) thr false lines with
    | none => .valueError
    | some r => .ok r

end IV.BaseParsers
