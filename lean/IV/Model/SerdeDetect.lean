import IV.Model.Serde
/-!
C11, load side glue: how `insights.core.hydration.create_context` / `identify` and
`ExecutionContextMeta.identify` / `ExecutionContext.handles` (insights/core/context.py) decide, from the
list of all file paths under a directory, WHICH context class the directory is and WHERE its root is.
`initialize_broker` hydrates meta_data only when the answer is the SerializedArchiveContext, so every
persisted location takes part in the decision whether anything loads at all.

Paths are strings (`List Char`), exactly as the code handles them (`in`, `find`, `endswith`, slicing).
Not modelled: the ClusterArchiveContext short-cut for top-level compressed files, `os.scandir`.
-/
namespace IV.Serde

/-- `f.find(m)` counted from offset `k`: index of the first occurrence of `m` -/
def findSub (m : Str) : Str → Nat → Option Nat
  | [], k => if m = [] then some k else none
  | c :: cs, k => if m.isPrefixOf (c :: cs) then some k else findSub m cs (k + 1)

/-- `os.path.dirname` (posixpath): cut after the last '/', then strip trailing slashes unless all are slashes -/
def pyDirname (p : Str) : Str :=
  let head := (p.reverse.dropWhile (· != sep)).reverse
  if head.all (· == sep) then head else rstripC sep head

/-- `m = sep + cls.marker.lstrip(sep)` -/
def markerOf (marker : Str) : Str := sep :: lstripC sep marker

/-- the body of the loop of `ExecutionContext.handles` for one file: the root this file votes for.
    Only the FIRST occurrence of the marker is looked at (`f.find`), `endswith` is asked of the whole path. -/
def markerRoot (marker f : Str) : Option Str :=
  let m := markerOf marker
  match findSub m f 0 with
  | none => none
  | some i =>
    if m.isSuffixOf f || (f.drop (i + m.length)).head? == some sep
    then some (pyDirname (f.take (i + 1))) else none

/-- `closest_root = pop(); for left_one in rest: if len(left_one) < len(closest_root): closest_root = left_one`
    (duplicates, which the code's set removes, do not change the result of this loop) -/
def closest : Str → List Str → Str
  | c, [] => c
  | c, l :: rest => closest (if l.length < c.length then l else c) rest

def markerRoots (marker : Str) (files : List Str) : List Str := files.filterMap (markerRoot marker)

/-- `ExecutionContext.handles(files)`: `none` = `(None, None)` -/
def handles (marker : Option Str) (files : List Str) : Option Str :=
  match marker with
  | none => none
  | some mk =>
    match markerRoots mk files with
    | [] => none
    | r :: rest => some (closest r rest)

structure CtxDecl where
  name : Str
  marker : Option Str
deriving DecidableEq, Repr

/-- `ExecutionContextMeta.identify`: the registry is tried in REVERSE order of registration -/
def identifyReg (reg : List CtxDecl) (files : List Str) : Option (Str × Str) :=
  reg.reverse.findSome? (fun e => (handles e.marker files).map (fun r => (r, e.name)))

def commonPrefix2 : Str → Str → Str
  | a :: as, b :: bs => if a = b then a :: commonPrefix2 as bs else []
  | _, _ => []

/-- `os.path.commonprefix` (character-wise) -/
def commonPrefix : List Str → Str
  | [] => []
  | f :: fs => fs.foldl commonPrefix2 f

inductive Detected where
  | ctx (root : Str) (name : Str)
  | invalid
deriving DecidableEq, Repr

def nmHostArchive : Str := ['H', 'o', 's', 't', 'A', 'r', 'c', 'h', 'i', 'v', 'e', 'C', 'o', 'n', 't', 'e', 'x', 't']
def nmSerialized : Str :=
  ['S', 'e', 'r', 'i', 'a', 'l', 'i', 'z', 'e', 'd', 'A', 'r', 'c', 'h', 'i', 'v', 'e', 'C', 'o', 'n', 't', 'e', 'x', 't']
def nmSos : Str := ['S', 'o', 's', 'A', 'r', 'c', 'h', 'i', 'v', 'e', 'C', 'o', 'n', 't', 'e', 'x', 't']
def nmJdr : Str := ['J', 'D', 'R', 'C', 'o', 'n', 't', 'e', 'x', 't']
def nmOther : Str := ['o', 't', 'h', 'e', 'r']

def mkInsightsCommands : Str := ['i', 'n', 's', 'i', 'g', 'h', 't', 's', '_', 'c', 'o', 'm', 'm', 'a', 'n', 'd', 's']
def mkArchiveTxt : Str :=
  ['i', 'n', 's', 'i', 'g', 'h', 't', 's', '_', 'a', 'r', 'c', 'h', 'i', 'v', 'e', '.', 't', 'x', 't']
def mkSos : Str := ['s', 'o', 's', '_', 'c', 'o', 'm', 'm', 'a', 'n', 'd', 's']
def mkJdr : Str := ['J', 'B', 'O', 'S', 'S', '_', 'H', 'O', 'M', 'E']

/-- `hydration.identify` after `create_context`'s "No files in archive" test -/
def createContext (reg : List CtxDecl) (files : List Str) : Detected :=
  if files = [] then .invalid
  else match identifyReg reg files with
    | some (r, n) => .ctx r n
    | none =>
      let cp := pyDirname (commonPrefix files)
      if cp = [] then .invalid else .ctx cp nmHostArchive

/-- the context classes of insights/core/context.py in registration order (marker-less ones can never answer) -/
def stockReg : List CtxDecl :=
  [⟨nmOther, none⟩, ⟨nmHostArchive, some mkInsightsCommands⟩, ⟨nmSerialized, some mkArchiveTxt⟩, ⟨nmSos, some mkSos⟩,
   ⟨nmOther, none⟩, ⟨nmOther, none⟩, ⟨nmOther, none⟩, ⟨nmJdr, some mkJdr⟩, ⟨nmOther, none⟩]

def dataDir : Str := ['/', 'd', 'a', 't', 'a', '/']
def metaDir : Str := ['/', 'm', 'e', 't', 'a', '_', 'd', 'a', 't', 'a', '/']

/-- all files of an archive written by collection under `root`: the marker file `collect` touches, the data
    files at the persisted locations, the metadata documents -/
def archiveFiles (root : Str) (locs metas : List Str) : List Str :=
  (root ++ sep :: mkArchiveTxt) :: (locs.map (fun l => root ++ dataDir ++ l) ++ metas.map (fun n => root ++ metaDir ++ n))

/-- `initialize_broker` hydrates iff the detected context is the serialized archive rooted at `root` -/
def archiveLoads (reg : List CtxDecl) (root : Str) (locs metas : List Str) : Bool :=
  createContext reg (archiveFiles root locs metas) == .ctx root nmSerialized

end IV.Serde
