import IV.Model.CleanLine
/-!
C08 (round 10) — the glue between what a USER configures / a SPEC declares and the per-line pipeline of
`IV/Model/CleanLine.lean`:

* `rm_conf['patterns']` → the exclusion list of the `Pattern` parser          (cleaner/__init__.py:72-82)
* `RegistryPoint(no_obfuscate=…, no_redact=…, filterable=…)` → the arguments of the `clean_content` call that
  `ContentProvider._clean_content` issues for every datasource registered under the point
  (core/spec_factory.py:530-560 RegistryPoint, :640-652 `_resolve_registry_points`, :82-116 `_clean_content`)
* a filterable file / command spec under a host context is pre-filtered with `grep -F` on its filter keys
  before it is cleaned (core/spec_factory.py:268-283, 410-416)
-/
namespace IV.CleanLine

/-! ### `rm_conf['patterns']` -/

/-- the value under `patterns` as the caller hands it over.  `α` is the type of one regular expression
(its text, or — in the driver — the already parsed expression). -/
inductive RmPatterns (α : Type) where
  /-- key missing, `None`, `[]` or `{}` -/
  | absent
  /-- a list of plain strings -/
  | list (ps : List Str)
  /-- a mapping: its keys in insertion order and the value under `'regex'` when there is one -/
  | dict (keys : List Str) (regex : Option (List α))

/-- the patterns the `Pattern` parser is built with.  `isinstance(exclude, dict) and exclude.get('regex')`: a mapping
whose `regex` entry is missing or EMPTY stays a mapping and is then iterated as such (`x in y` for each of its
KEYS) — the code that exists. -/
def cfgPats {α : Type} (rx : α → Pat) : RmPatterns α → List Pat
  | .absent => []
  | .list ps => ps.map Pat.plain
  | .dict _ (some (r :: rs)) => (r :: rs).map rx
  | .dict keys _ => keys.map Pat.plain

/-- the strings / expressions the user configured -/
def RmPatterns.configured {α : Type} (rx : α → Pat) : RmPatterns α → List Pat
  | .absent => []
  | .list ps => ps.map Pat.plain
  | .dict _ (some rs) => rs.map rx
  | .dict _ none => []

/-! ### what a spec declares -/

/-- `RegistryPoint(no_obfuscate=None, no_redact=False, filterable=False)` -/
structure SpecDecl where
  noObf : Option (List Str)
  noRedact : Bool
  filterable : Bool

def endsWith (s suf : Str) : Bool := suf.reverse.isPrefixOf s.reverse

def netstatName : Str := "netstat_-neopa".toList

/-- the call `_clean_content` makes for a datasource registered under a point declared as `d`:
`_resolve_registry_points` copies `no_obfuscate` / `no_redact` of the POINT to the implementation
(`[] if no_obfuscate is None`), `width` is decided by the relative path -/
def declCall (d : SpecDecl) (relPath : Str) : Call :=
  ⟨d.noObf.getD [], d.noRedact, endsWith relPath netstatName⟩

/-- `grep -a -F -e 'k1\nk2…'`: the lines that contain one of the filter keys -/
def preFilter (keys : List Str) (lines : List (Str × List Str)) : List (Str × List Str) :=
  lines.filter (fun l => keys.any (fun k => contains k l.1))

/-- `ContentProvider._clean_content` for a datasource registered under a point declared as `d`, under a host context
with a cleaner.  `filters` = `filters.get_filters(ds, True)`; a filterable spec is always cleaned (the allow list is
passed), a non-filterable one unless everything is exempted.  `none` = "Empty after cleaning". -/
def specCleanDecl (hit : Pat → Str → Bool) (cfg : Cfg) (tb : Tables) (d : SpecDecl) (relPath : Str)
    (filters : Allow) (lines : List (Str × List Str)) : Except Err (Option (List PStr)) :=
  let call := declCall d relPath
  if !d.filterable && skipsCleaning call then pure (some (lines.map (fun l => orig l.1)))
  else match cleanContent hit cfg tb call (if d.filterable then some filters else none) lines with
    | .ok outs => if outs.isEmpty then pure none else pure (some outs)
    | .error e => .error e

end IV.CleanLine
