import IV.Model.Dr
/-!
Graph construction from a component: insights/core/dr.py `walk_dependencies`, `get_dependency_graph`
(dr.py:301-347) and `determine_components` for a list / set of components (dr.py:1033-1050).

`Reg` is the registry `DEPENDENCIES` (component → the set of its declared dependencies, required,
at-least-one members and optional ones alike; the list is one iteration order of the set).
`visit` is the recursive visitor of `walk_dependencies`: it has NO seen-set, a component shared by
several dependents is walked once per path.  The dict of sets `graph[parent].add(c)` is kept as
"for every distinct parent the distinct children" (`graphOfEdges`); dict / set iteration order is not
observable through `toposort` (its levels are sets), so key order is not modelled.
-/
namespace IV.Dr

abbrev Reg := Comp → List Comp

/-- the calls `visitor(d, parent)` of `walk_dependencies` below the root, as `(parent, d)`, in call order.
The recursion of the code is unbounded; `fuel` bounds the depth (`visit_complete`: any fuel above the
rank of the root is enough for an acyclic registry, so the bound is never why a theorem holds). -/
def visit (reg : Reg) : Nat → Comp → List (Comp × Comp)
  | 0, _ => []
  | f + 1, p => (reg p).flatMap (fun d => (p, d) :: visit reg f d)

/-- `graph = defaultdict(set)`; `graph[parent].add(c)` for every visited pair -/
def graphOfEdges (es : List (Comp × Comp)) : Graph :=
  (dedup (es.map (·.1))).map (fun p => (p, dedup ((es.filter (fun e => e.1 == p)).map (·.2))))

/-- `extra_items_in_deps = union(values) - keys`; `graph.update((item, set()) for item in extra)` -/
def closeGraph (g : Graph) : Graph :=
  g ++ (dedup ((g.flatMap (·.2)).filter (fun d => !g.keys.contains d))).map (·, [])

/-- `get_dependency_graph(component)`; `none` = "is not a registered component" (Exception) -/
def getDependencyGraph (reg : Reg) (registered : Comp → Bool) (fuel : Nat) (root : Comp) : Option Graph :=
  if !registered root then none
  else if (reg root).isEmpty then some [(root, [])]
  else some (closeGraph (graphOfEdges (visit reg fuel root)))

/-- `dict.update`: an existing key keeps its place and gets the new value, a new key is appended -/
def dictUpdate (g h : Graph) : Graph :=
  h.foldl (fun acc kv =>
    if acc.keys.contains kv.1 then acc.map (fun e => if e.1 == kv.1 then kv else e) else acc ++ [kv]) g

/-- `determine_components(<list or set of components>)`: the union of the components' graphs -/
def determineList (reg : Reg) (registered : Comp → Bool) (fuel : Nat) (cs : List Comp) : Option Graph :=
  cs.foldl (fun acc c => acc.bind fun g => (getDependencyGraph reg registered fuel c).map (dictUpdate g)) (some [])

/-- `dr.add_dependency(c, d)` / `ComponentType.add_dependency`: one more declared dependency of an already registered
component (a new member of its first at-least-one group); nothing else in the registry changes -/
def addDep (reg : Reg) (c d : Comp) : Reg := fun x => if x = c then reg c ++ [d] else reg x

/-- `c` is the root or a (transitive) dependency of it -/
inductive Reach (reg : Reg) : Comp → Comp → Prop where
  | refl (c : Comp) : Reach reg c c
  | head {r d c : Comp} : d ∈ reg r → Reach reg d c → Reach reg r c

/-- index of the level an item is emitted on -/
def levelOf (c : Comp) : List (List Comp) → Option Nat
  | [] => none
  | l :: ls => if l.contains c then some 0 else (levelOf c ls).map (· + 1)

end IV.Dr
