import IV.Model.BaseParsers
/-
Round-10 extension of the C14 model (insights/core/__init__.py and insights/core/plugins.py):

  * the ARGUMENT CHECKS of `TextFileOutput.get` / `__contains__` (lines 1059-1064, 1085-1086): `num` that is not an
    int, search items that are not a string / a non-empty list of strings, and `None` (for which `_valid_search`
    returns None and the call of None raises as soon as one line is examined)
  * the FORMAT-LEVEL part of `LogFileOutput.get_after` (lines 1277-1357): `time_format is None` -> RuntimeError,
    dict -> list of its values, a type that is neither str nor list -> ParseException, a `%x` directive outside the
    table `format_conversion_for` -> ParseException, and the derivation of `logs_have_year` from the format text
    (`'%Y' in tf or '%y' in tf`; `all(..)` over a list) -- until round 9 `hasYear` was handed to the model
  * SCANNER REGISTRATION (ScanMeta.__new__ 842-845, `scan` 1096-1114, `token_scan` / `keep_scan` / `last_scan`
    1116-1179, `parse_content` 1026-1033, LazyLogFileOutput.do_scan 1446-1460) as a history of operations on a
    world of classes, each class owning ONE insertion-ordered registry that starts empty (also for a subclass)
  * `insights.core.plugins.parser.invoke` (plugins.py 149-206): what the framework stores for a parser component
    given the outcome of each construction (single datasource value or a list of them, `continue_on_error`)
-/
namespace IV.BaseParsers

/-! ## argument checks of `get` / `in` -/

inductive TermArg
  | ok (t : Term)      -- a `str` or a `list` whose items are all `str` (the empty list included)
  | none               -- `None`
  | bad                -- anything else: int, bytes, tuple, dict, a list with a non-string item
deriving DecidableEq, Repr

inductive NumArg
  | none               -- `None`
  | int (n : Int)      -- an `int` (`bool` included: True = 1, False = 0)
  | bad                -- anything else: '1', 1.0, [1]
deriving DecidableEq, Repr

inductive GetOutcome
  | typeError
  | ok (ls : List Line)
deriving DecidableEq, Repr

def numOf : NumArg → Option (Option Int)
  | .none => some none
  | .int n => some (some n)
  | .bad => Option.none

/-- `(num is None or len(ret) < num)` with `ret == []` -/
def roomAtStart : Option Int → Bool
  | none => true
  | some k => decide (0 < k)

/-- `get(s, check, num, reverse)` with its argument checks (1085-1094) -/
def getPy (t : TermArg) (c : Chk) (num : NumArg) (rev : Bool) (lines : List Line) : GetOutcome :=
  match numOf num with
  | Option.none => .typeError                                     -- line 1086
  | some n =>
    match t with
    | .bad => .typeError                                          -- line 1064
    | .ok t' => (match get t' c n rev lines with | Option.none => .typeError | some r => .ok r)
    | .none =>                                                    -- `_valid_search` returned None: `None(l)` raises
      if lines.isEmpty then .ok [] else if roomAtStart n then .typeError else .ok []

inductive HasOutcome
  | typeError
  | ok (b : Bool)
deriving DecidableEq, Repr

/-- `s in parser` with the argument check -/
def containsPy (t : TermArg) (lines : List Line) : HasOutcome :=
  match t with
  | .bad => .typeError
  | .ok t' => (match textContains t' .all lines with | Option.none => .typeError | some b => .ok b)
  | .none => if lines.isEmpty then .ok false else .typeError

/-! ## `time_format` -/

inductive FmtArg
  | none                      -- `time_format = None`
  | str (f : Str)
  | many (fs : List Str)      -- a list, or the values of a dict
  | other                     -- int, tuple, bytes, ...
deriving DecidableEq, Repr

inductive FmtErr | runtime | parse
deriving DecidableEq, Repr

/-- the keys of `format_conversion_for` (lines 1290-1306) -/
def knownDirectives : List Char := "aAwdbBmyYHIpMSf".toList

/-- `\w` on the characters the generator uses in formats (ASCII) -/
def isWordAscii (c : Char) : Bool := c.isAlphanum || c == '_'

/-- the matches of `re.compile(r'%(\w)')` from left to right, non-overlapping; the flag says that the previous
character was a `%` that is not part of a match -/
def directivesGo : Bool → Str → List Char
  | _, [] => []
  | true, c :: cs => if isWordAscii c then c :: directivesGo false cs else directivesGo (c == '%') cs
  | false, c :: cs => directivesGo (c == '%') cs

def directives (f : Str) : List Char := directivesGo false f

/-- `timefmt_re.sub(replacer, tf)` does not raise -/
def fmtOk (f : Str) : Bool := (directives f).all (fun c => knownDirectives.contains c)

/-- `'%Y' in tf or '%y' in tf` -/
def fmtHasYear (f : Str) : Bool := contains ['%', 'Y'] f || contains ['%', 'y'] f

/-- lines 1277-1357: the error raised, or `logs_have_year` -/
def fmtCheck : FmtArg → Except FmtErr Bool
  | .none => .error .runtime
  | .other => .error .parse
  | .str f => if fmtOk f then .ok (fmtHasYear f) else .error .parse
  | .many fs => if fs.all fmtOk then .ok (fs.all fmtHasYear) else .error .parse

inductive AfterFOutcome
  | runtimeError
  | parseError
  | res (o : AfterOutcome)
deriving DecidableEq, Repr

/-- `list(get_after(timestamp, s))` for an object whose `time_format` is `fmt` -/
def getAfterF (fmt : FmtArg) (stamp : Line → Option RawStamp) (thr : Time) (s : Option Term)
    (lines : List Line) : AfterFOutcome :=
  match fmtCheck fmt with
  | .error .runtime => .runtimeError
  | .error .parse => .parseError
  | .ok hy => .res (getAfter stamp hy thr s lines)

/-! ## scanner registration -/

inductive ScanKind
  | keep (num : Option Int) (rev : Bool)     -- keep_scan
  | last                                      -- last_scan
  | token                                     -- token_scan
deriving DecidableEq, Repr

structure ScanDef where
  key : Str
  kind : ScanKind
  term : Term
  chk : Chk
deriving DecidableEq, Repr

/-- `cls.scanners`: an insertion-ordered dict -/
abbrev Registry := List ScanDef

def hasKey (r : Registry) (k : Str) : Bool := r.any (fun d => d.key == k)

/-- `cls.scan(result_key, func)`: `none` = ValueError (already registered), the registry is left as it was -/
def register (r : Registry) (d : ScanDef) : Option Registry :=
  if hasKey r d.key then none else some (r ++ [d])

inductive AttrVal
  | lines (ls : List Line)        -- keep_scan: raw lines of the list of dictionaries
  | last (l : Option Line)        -- last_scan: the raw line of the dictionary, `none` = `dict()`
  | flag (b : Bool)               -- token_scan
deriving DecidableEq, Repr

/-- what one scanner stores on the object; `none` = TypeError out of `_valid_search` -/
def evalScan (d : ScanDef) (lines : List Line) : Option AttrVal :=
  match d.kind with
  | .keep num rev => (get d.term d.chk num rev lines).map .lines
  | .last => (get d.term d.chk (some 1) true lines).map (fun r => .last r.head?)
  | .token => (textContains d.term d.chk lines).map .flag

/-- `parse_content`: `for scanner in self.scanners.values(): scanner(self)`; `none` = TypeError escaped, no object -/
def runScanners : Registry → List Line → Option (List (Str × AttrVal))
  | [], _ => some []
  | d :: ds, lines =>
    match evalScan d lines with
    | none => none
    | some v => (runScanners ds lines).map ((d.key, v) :: ·)

/-- a world of classes (numbered); every class owns one registry -/
abbrev World := Nat → Registry

inductive Op
  | newClass (c : Nat)                        -- `class C(Base)`: ScanMeta gives it `scanners = dict()`
  | reg (c : Nat) (d : ScanDef)               -- `C.keep_scan / last_scan / token_scan(key, ...)`
  | build (c : Nat) (lines : List Line)       -- `C(context)`
deriving Repr

def Op.cls : Op → Nat
  | .newClass c => c
  | .reg c _ => c
  | .build c _ => c

inductive OpOut
  | created
  | registered
  | dupKey                                    -- ValueError
  | typeError                                 -- construction raised TypeError
  | attrs (as : List (Str × AttrVal))         -- the object's scanner attributes, in registration order
deriving DecidableEq, Repr

def setReg (w : World) (c : Nat) (r : Registry) : World := fun x => if x = c then r else w x

def step (w : World) : Op → World × OpOut
  | .newClass c => (setReg w c [], .created)
  | .reg c d =>
    match register (w c) d with
    | none => (w, .dupKey)
    | some r => (setReg w c r, .registered)
  | .build c lines =>
    (w, match runScanners (w c) lines with | none => .typeError | some a => .attrs a)

def runOps : World → List Op → World × List OpOut
  | w, [] => (w, [])
  | w, op :: ops =>
    let (w1, o) := step w op
    let (w2, os) := runOps w1 ops
    (w2, o :: os)

def emptyWorld : World := fun _ => []

/-- what the operations addressed to class `c` alone do to its registry -/
def ownReg (c : Nat) : Registry → List Op → Registry
  | r, [] => r
  | r, .newClass c' :: ops => ownReg c (if c' = c then [] else r) ops
  | r, .reg c' d :: ops => ownReg c (if c' = c then (register r d).getD r else r) ops
  | r, .build _ _ :: ops => ownReg c r ops

/-! ### LazyLogFileOutput.do_scan -/

structure LazyObj where
  lines : List Line
  scanned : List Str                          -- `_scanned`
  attrs : List (Str × AttrVal)                -- attributes set so far, in the order they were set
deriving DecidableEq, Repr

/-- `do_scan(result_key)` with a non-empty key: `none` = TypeError -/
def doScanKey (r : Registry) (o : LazyObj) (k : Str) : Option LazyObj :=
  if o.scanned.contains k then some o
  else match r.find? (fun d => d.key == k) with
    | none => some o
    | some d =>
      match evalScan d o.lines with
      | none => none
      | some v => some { o with scanned := o.scanned ++ [k], attrs := o.attrs ++ [(k, v)] }

/-- `do_scan()`: every registered scanner that has not been executed, in registration order -/
def doScanAll : Registry → LazyObj → Option LazyObj
  | [], o => some o
  | d :: ds, o =>
    if o.scanned.contains d.key then doScanAll ds o
    else match evalScan d o.lines with
      | none => none
      | some v => doScanAll ds { o with scanned := o.scanned ++ [d.key], attrs := o.attrs ++ [(d.key, v)] }

/-- `do_scan(result_key=None)`: `if result_key:` -- None and the empty string mean "all" -/
def doScan (r : Registry) (o : LazyObj) (k : Option Str) : Option LazyObj :=
  match k with
  | none => doScanAll r o
  | some k => if k.isEmpty then doScanAll r o else doScanKey r o k

/-! ## `plugins.parser.invoke` -/

/-- the outcome of ONE construction `component(value)` as the framework sees it -/
inductive Built (α : Type)
  | obj (v : α)            -- a parser object
  | contentError           -- ContentException
  | skip                   -- SkipComponent
  | failed                 -- any other Exception (ParseException, TypeError, ...)
deriving DecidableEq, Repr

inductive Invoked (α : Type)
  | value (v : α)          -- stored in the broker: the object
  | values (vs : List α)   -- stored in the broker: the list of objects (list datasource)
  | skipped                -- SkipComponent out of invoke: nothing is stored
  | raised                 -- the exception of the construction propagates (dr records it; nothing is stored)
deriving DecidableEq, Repr

/-- the `for d in dep_value:` loop: (objects collected, an error stopped the loop) -/
def invokeLoop {α : Type} (coe : Bool) : List (Built α) → List α × Bool
  | [] => ([], false)
  | .obj v :: bs => (v :: (invokeLoop coe bs).1, (invokeLoop coe bs).2)
  | .skip :: bs => invokeLoop coe bs
  | .contentError :: bs => if coe then invokeLoop coe bs else ([], true)
  | .failed :: bs => if coe then invokeLoop coe bs else ([], true)

/-- `parser.invoke` for a datasource value that is not a list -/
def invokeOne {α : Type} : Built α → Invoked α
  | .obj v => .value v
  | .contentError => .skipped
  | .skip => .raised
  | .failed => .raised

/-- `parser.invoke` for a list datasource -/
def invokeMany {α : Type} (coe : Bool) (bs : List (Built α)) : Invoked α :=
  if (invokeLoop coe bs).2 then .skipped
  else if (invokeLoop coe bs).1.isEmpty then .skipped else .values (invokeLoop coe bs).1

end IV.BaseParsers
