/-
C17 — model of the client's persistent identity and registration markers.

Mirrors insights/client/utilities.py (tree at /repo HEAD):
  write_registered_file      48-57      `register`
  write_unregistered_file    60-74      `unregister`
  delete_registered_file     77-79      `deleteRegistered`
  delete_unregistered_file   82-84      `deleteUnregistered`
  write_to_disk              92-117     `wtdDelete` / `wtdWrite`
  generate_machine_id        137-174    `genId`  (`readId` = new=False, `newId` = new=True)
and the three path constants of insights/client/constants.py (machine_id_file, registered_files,
unregistered_files: one identifier file in the default configuration directory, one marker pair in
each of the two configuration directories).

File system: five locations, each absent | regular file | symlink | directory; symlinks point at
"outside" paths `ext k` (absent | regular file | directory) that no marker operation may touch.
Whether each configuration directory exists is part of the environment `Env` (no modelled function
creates or removes a directory).  `uuid.uuid4()` and the subscription-manager identity are inputs of
the operation; `canon` is `str(uuid.UUID(s.strip(), version=4))` with `none` = ValueError.
The clock (`get_time()`) is the opaque token `timeStamp`.
-/
namespace IV.ClientState

abbrev Str := List Char

/-! ## Python primitives used by `uuid.UUID(hex, version=4)` -/

/-- `str.isspace` of one character (the table of CPython 3.12: `[c for c in range(0x110000) if chr(c).isspace()]`) -/
def pySpace (c : Char) : Bool :=
  let n := c.toNat
  (9 ≤ n && n ≤ 13) || (28 ≤ n && n ≤ 32) || n == 133 || n == 160 || n == 5760 ||
  (8192 ≤ n && n ≤ 8202) || n == 8232 || n == 8233 || n == 8239 || n == 8287 || n == 12288

/-- white space skipped by `int(s, 16)`: ASCII C `isspace` plus non-ASCII Unicode spaces (0x1c–0x1f are not) -/
def intSpace (c : Char) : Bool := pySpace c && !(28 ≤ c.toNat && c.toNat ≤ 31)

def stripBy (p : Char → Bool) (s : Str) : Str := ((s.dropWhile p).reverse.dropWhile p).reverse

/-- `s.replace(pat, "")` for a non-empty `pat`: `skip` = characters of a match still to drop -/
def removeGo (pat : Str) : Nat → Str → Str
  | _, [] => []
  | skip + 1, _ :: cs => removeGo pat skip cs
  | 0, c :: cs => if pat.isPrefixOf (c :: cs) then removeGo pat (pat.length - 1) cs else c :: removeGo pat 0 cs

def remove (pat s : Str) : Str := removeGo pat 0 s

def lowerHexDigits : Str := ['0', '1', '2', '3', '4', '5', '6', '7', '8', '9', 'a', 'b', 'c', 'd', 'e', 'f']
def upperHexLetters : Str := ['A', 'B', 'C', 'D', 'E', 'F']
def lowerHex (c : Char) : Bool := lowerHexDigits.contains c
def isHex (c : Char) : Bool := lowerHexDigits.contains c || upperHexLetters.contains c
/-- `'%x'` prints lower case -/
def hexLower : Char → Char
  | 'A' => 'a' | 'B' => 'b' | 'C' => 'c' | 'D' => 'd' | 'E' => 'e' | 'F' => 'f'
  | c => c

/-- digits of `int(_, 16)` after sign and prefix: hex digits with single underscores between them -/
def scanDigits : Bool → Str → Option Str
  | pu, [] => if pu then none else some []
  | pu, c :: cs =>
    if c = '_' then (if pu then none else scanDigits true cs)
    else if isHex c then (scanDigits false cs).map (c :: ·)
    else none

/-- optional '+' sign ('-' cannot occur: `uuid.UUID` removed every '-' before) -/
def dropSign : Str → Str
  | '+' :: r => r
  | s => s

/-- optional `0x` / `0X` prefix, after which one underscore is allowed -/
def dropHexPrefix : Str → Str
  | '0' :: x :: r => if x = 'x' ∨ x = 'X' then (match r with | '_' :: r' => r' | _ => r) else '0' :: x :: r
  | s => s

/-- the hex digits (most significant first) of `int(s, 16)` for a string without '-'; `none` = ValueError.
    Non-ASCII decimal digits (which CPython also accepts) are rejected: identifier contents are ASCII here. -/
def pyInt16 (s : Str) : Option Str :=
  match dropHexPrefix (dropSign (stripBy intSpace s)) with
  | [] => none
  | '_' :: _ => none
  | t => scanDigits false t

/-- `(v & 3) | 8` on one lower-case hex digit: the RFC 4122 variant bits -/
def variantDigit : Char → Char
  | '0' | '4' | '8' | 'c' => '8'
  | '1' | '5' | '9' | 'd' => '9'
  | '2' | '6' | 'a' | 'e' => 'a'
  | _ => 'b'                               -- 3 7 b f

/-- `'%032x'` digits → 8-4-4-4-12 with the version digit forced to 4 and the variant digit to 8..b -/
def render (p : Str) : Option Str :=
  let a := p.take 8
  let b := (p.drop 8).take 4
  match p.drop 12 with
  | _ :: r =>
    let c := r.take 3
    match r.drop 3 with
    | v :: r' =>
      some (a ++ '-' :: b ++ '-' :: '4' :: c ++ '-' :: variantDigit v :: r'.take 3 ++ '-' :: r'.drop 3)
    | [] => none
  | [] => none

def pad32 (ds : Str) : Str := List.replicate (32 - ds.length) '0' ++ ds

/-- `str(uuid.UUID(str(raw).strip(), version=4))`; `none` = ValueError (the caller then exits) -/
def canon (raw : Str) : Option Str :=
  let h := stripBy pySpace raw
  let h := remove "uuid:".toList (remove "urn:".toList h)
  let h := remove ['-'] (stripBy (fun c => c == '{' || c == '}') h)
  if h.length ≠ 32 then none else
  match pyInt16 h with
  | none => none
  | some ds => render ((pad32 ds).map hexLower)

/-! ## File-system state -/

/-- `legacy = false`: constants.default_conf_dir; `true`: constants.simple_find_replace_dir -/
inductive Loc
  | id                      -- constants.machine_id_file
  | reg (legacy : Bool)     -- constants.registered_files[0|1]
  | unreg (legacy : Bool)   -- constants.unregistered_files[0|1]
  deriving DecidableEq, Repr

def Loc.dir : Loc → Bool
  | .id => false
  | .reg d => d
  | .unreg d => d

inductive Node
  | absent
  | file (c : Str)
  | link (k : Nat)          -- symlink to the outside path `ext k`
  | dir
  deriving DecidableEq, Repr

inductive ENode
  | absent
  | file (c : Str)
  | dir
  deriving DecidableEq, Repr

structure FS where
  node : Loc → Node
  ext : Nat → ENode

structure Env where
  /-- does the configuration directory exist (argument = `legacy`) -/
  has : Bool → Bool
  /-- fault injection: `os.remove` of this location inside write_to_disk(delete=True) fails with an errno other than
      ENOENT (EPERM, EACCES, EROFS, EBUSY: a root-owned marker in a sticky directory, a read-only file system …).
      The code consults no uid: the same for root and for an unprivileged user.  An ENOENT (somebody else removed the
      file first) is ignored by the code and is the same as a successful removal. -/
  denied : Loc → Bool

def FS.set (fs : FS) (l : Loc) (n : Node) : FS :=
  { fs with node := fun l' => if l' = l then n else fs.node l' }

def FS.setExt (fs : FS) (k : Nat) (n : ENode) : FS :=
  { fs with ext := fun k' => if k' = k then n else fs.ext k' }

/-- what `lstat` sees: everything under a missing directory is absent -/
def look (E : Env) (fs : FS) (l : Loc) : Node := if E.has l.dir then fs.node l else .absent

/-- `get_time()`: canonical token (time stamps are never compared) -/
def timeStamp : Str := "<time>".toList

/-! ## write_to_disk (utilities.py:92-117); `false` = an OSError propagates -/

/-- `write_to_disk(f, delete=True)` -/
def wtdDelete (E : Env) (fs : FS) (l : Loc) : FS × Bool :=
  if !E.has l.dir then (fs, true)                 -- directory missing: silent return
  else match fs.node l with
    | .absent => (fs, true)                       -- not lexists
    | .dir => (fs, false)                         -- os.remove(directory): EISDIR, re-raised
    | _ =>
      if E.denied l then (fs, false)              -- any errno but ENOENT is re-raised (105-111): nothing removed
      else (fs.set l .absent, true)               -- file or symlink: unlinked, not followed

/-- `write_to_disk(f, content=c)`: `open(f, 'wb')` follows a symlink -/
def wtdWrite (E : Env) (fs : FS) (l : Loc) (c : Str) : FS × Bool :=
  if !E.has l.dir then (fs, true)                 -- directory missing: silent return, nothing persisted
  else match fs.node l with
    | .absent => (fs.set l (.file c), true)
    | .file _ => (fs.set l (.file c), true)
    | .dir => (fs, false)
    | .link k => match fs.ext k with
      | .dir => (fs, false)
      | _ => (fs.setExt k (.file c), true)

/-- `for f in [default, legacy]: body`, stopping at the first exception -/
def forDirs (body : FS → Bool → FS × Bool) (fs : FS) : FS × Bool :=
  let r := body fs false
  if r.2 then body r.1 true else (r.1, false)

/-- delete_registered_file / delete_unregistered_file (77-84) -/
def deleteMarkers (E : Env) (mk : Bool → Loc) (fs : FS) : FS × Bool :=
  forDirs (fun s d => wtdDelete E s (mk d)) fs

/-- loop body of write_registered_file / write_unregistered_file (50-57, 67-74) -/
def writeMarker (E : Env) (c : Str) (fs : FS) (l : Loc) : FS × Bool :=
  match look E fs l with
  | .absent => wtdWrite E fs l c                        -- not lexists
  | .link _ => wtdWrite E (fs.set l .absent) l c        -- islink: os.remove, then write_to_disk
  | _ => (fs, true)                                     -- regular file or directory: left as it is

def writeMarkers (E : Env) (mk : Bool → Loc) (c : Str) (fs : FS) : FS × Bool :=
  forDirs (fun s d => writeMarker E c s (mk d)) fs

inductive Res
  | done                    -- marker operation returned
  | id (x : Str)            -- generate_machine_id returned x
  | invalid                 -- sys.exit(constants.sig_kill_bad): the identifier is not a UUID
  | oserror                 -- an OSError propagated
  deriving DecidableEq, Repr

def ofOk : Bool → Res
  | true => .done
  | false => .oserror

/-- write_registered_file (48-57) / write_unregistered_file (60-74): opposite marker deleted first -/
def writeState (E : Env) (del mk : Bool → Loc) (c : Str) (fs : FS) : FS × Res :=
  let r := deleteMarkers E del fs
  if r.2 then
    let w := writeMarkers E mk c r.1
    (w.1, ofOk w.2)
  else (r.1, .oserror)

/-- what `os.path.isfile(dest)` + `open(dest).read()` see (symlink followed) -/
def readsAs (E : Env) (fs : FS) : Option Str :=
  match look E fs .id with
  | .file c => some c
  | .link k => match fs.ext k with
    | .file c => some c
    | _ => none
  | _ => none

def ofCanon (m : Str) : Res :=
  match canon m with
  | some x => .id x
  | none => .invalid

/-- no usable file: the subscription-manager identity if there is one (155-159), else `str(uuid.uuid4())` (161-164) -/
def chooseId (rhsm : Option Str) (fresh : Str) : Str :=
  match rhsm with
  | some r => if r.isEmpty then fresh else r
  | none => fresh

/-- generate_machine_id(new, destination_file) (137-174): reuse 149-153, new identifier 155-164, canonical return 165-174 -/
def genId (E : Env) (fs : FS) (new : Bool) (rhsm : Option Str) (fresh : Str) : FS × Res :=
  let existing : Option Str := if new then none else readsAs E fs
  let reuse : Option Str := match existing with
    | some c => if c.isEmpty then none else some c      -- `if not machine_id`
    | none => none
  match reuse with
  | some c => (fs, ofCanon c)
  | none =>
    let m : Str := chooseId rhsm fresh
    let w := wtdWrite E fs .id m
    if w.2 then (w.1, ofCanon m) else (w.1, .oserror)

/-- every entry point that hands out the identifier (all of them end in `generate_machine_id()`):
    `explicit`  utilities.generate_machine_id(destination_file=…)
    `default`   utilities.generate_machine_id()            (path bound at import time)
    `clientFn`  insights.client.client.get_machine_id()                         client.py:305
    `clientObj` InsightsClient(config).get_machine_id()                         __init__.py:540
    `createSystem`      InsightsConnection.create_system(new_machine_id=False): id in the POST body   connection.py:533
    `legacyUnregister`  InsightsConnection.unregister() with legacy_upload: id in the DELETE url      connection.py:769 -/
inductive Reader
  | explicit | default | clientFn | clientObj | createSystem | legacyUnregister
  deriving DecidableEq, Repr

/-- entry points that force a new identifier: generate_machine_id(new=True), create_system(new_machine_id=True) -/
inductive Regen
  | explicit | default | createSystem
  deriving DecidableEq, Repr

/-- `machine_id_exists()`: os.path.isfile, symlink followed -/
def idIsFile (E : Env) (fs : FS) : Bool := (readsAs E fs).isSome

/-- `os.path.exists(p)`: symlink followed -/
def existsFollow (E : Env) (fs : FS) (l : Loc) : Bool :=
  match look E fs l with
  | .absent => false
  | .link k => (match fs.ext k with | .absent => false | _ => true)
  | _ => true

/-- `write_unregistered_file(); write_to_disk(constants.machine_id_file, delete=True)`:
    connection.py:794-795, support.py:76-77, client.py:252-254 (there with delete_cache_files() in between) -/
def unregisterAndDrop (E : Env) (fs : FS) : FS × Res :=
  let r := writeState E .reg .unreg timeStamp fs
  if r.2 = .done then
    let d := wtdDelete E r.1 .id
    (d.1, ofOk d.2)
  else r

/-- InsightsConnection.unregister(), platform branch (connection.py:793-799); `.2` = the value returned -/
def connUnregister (E : Env) (fs : FS) : (FS × Res) × Bool :=
  if idIsFile E fs || existsFollow E fs (.reg false) then (unregisterAndDrop E fs, true)
  else ((fs, .done), false)

/-- client.handle_unregistration(config, pconn), platform branch (client.py:289-300) -/
def handleUnregistration (E : Env) (fs : FS) (force : Bool) : FS × Res :=
  let u := connUnregister E fs
  if u.1.2 = .done then
    if u.2 || force then unregisterAndDrop E u.1.1 else u.1
  else u.1

/-- InsightsConnection.api_registration_check → _fetch_system_by_machine_id (connection.py:705-731, 1005-1022):
    the identifier is read only if the file exists -/
def fetch (E : Env) (fs : FS) (rhsm : Option Str) (fresh : Str) : FS × Res :=
  if idIsFile E fs then genId E fs false rhsm fresh else (fs, .done)

/-- support.registration_check(pconn), platform branch (support.py:60-80); `http` = what the inventory said
    (some true = found, some false = 404, none = unreachable) -/
def registrationCheck (E : Env) (fs : FS) (http : Option Bool) (rhsm : Option Str) (fresh : Str) : FS × Res :=
  let g := fetch E fs rhsm fresh
  let proceed (fs1 : FS) (status : Option Bool) : FS × Res :=
    let status' := if status != some true && idIsFile E fs1 && existsFollow E fs1 (.reg false) then some true else status
    match status' with
    | some true => writeState E .unreg .reg timeStamp fs1      -- write_registered_file()
    | some false => unregisterAndDrop E fs1                    -- write_unregistered_file(); delete machine-id
    | none => (fs1, .done)
  match g.2 with
  | .id _ => proceed g.1 http
  | .done => proceed g.1 (some false)                          -- no identifier file: `return False` before any request
  | e => (g.1, e)

/-- `if date is None: date = get_time()` (65-66) -/
def dateOr : Option Str → Str
  | some d => d
  | none => timeStamp

/-! ## the legacy (`legacy_upload=True`) registration flow: support.py:23-80, client.py:162-229, connection.py:650-703 -/

/-- what `_legacy_api_registration_check` learned from `GET /v1/systems/<machine-id>` (connection.py:662-703) -/
inductive Api
  | registered              -- 200 and "unregistered_at": null                       → True
  | unreachable             -- ConnectionError, a status not in (200, 404), no JSON   → False
  | notYet                  -- no "unregistered_at" key                               → None
  | unregAt (d : Str)       -- "unregistered_at": "<date>"                            → the date string
  deriving DecidableEq, Repr

/-- no identifier file: `return None` before any request (connection.py:662) -/
def effApi (E : Env) (fs : FS) (api : Api) : Api := if idIsFile E fs then api else .notYet

/-- `_legacy_registration_check` turns the answer into status / unreachable; registration_check then resyncs the
    markers: registered → write_registered_file(); not registered / unregistered → write_unregistered_file() and the
    identifier file is deleted; unreachable → nothing (support.py:60-80 with `pconn.config.legacy_upload`) -/
def legacySync (E : Env) (fs : FS) : Api → FS × Res
  | .registered => writeState E .unreg .reg timeStamp fs
  | .unreachable => (fs, .done)
  | _ => unregisterAndDrop E fs

/-- support.registration_check(pconn), legacy branch -/
def legacyRegistrationCheck (E : Env) (fs : FS) (api : Api) (rhsm : Option Str) (fresh : Str) : FS × Res :=
  let g := fetch E fs rhsm fresh
  match g.2 with
  | .id _ => legacySync E g.1 api
  | .done => legacySync E g.1 .notYet
  | e => (g.1, e)

def apiDate : Api → Option Str
  | .unregAt d => some d
  | _ => none

/-- client._legacy_handle_registration(config, pconn) (client.py:162-229); `reg` = config.register with a register()
    that reaches the API (create_system(new_machine_id=False) reads the identifier once more) -/
def legacyHandleRegistration (E : Env) (fs : FS) (api : Api) (reg : Bool) (rhsm : Option Str) (fresh fresh2 : Str) :
    FS × Res :=
  -- `fresh`, `fresh2`: the first and the second value of uuid.uuid4() during the call; the status check consumes the
  -- first one exactly when it finds an EMPTY identifier file (and then fills it)
  let fg := if readsAs E fs = some [] then fresh2 else fresh
  let a := effApi E fs api
  let c := legacyRegistrationCheck E fs api rhsm fresh
  if c.2 = .done then
    if idIsFile E c.1 && a != .registered then (c.1, .done)          -- "Machine-id found, … unregister first": return False
    else
      let g := genId E c.1 false rhsm fg                             -- logger.debug('Machine-id: %s', generate_machine_id())
      match g.2 with
      | .id _ =>
        if a = .unreachable then (g.1, .done)
        else if a = .registered then writeState E .unreg .reg timeStamp g.1
        else if reg then
          let g2 := genId E g.1 false rhsm fresh2                     -- register() → create_system(False)
          match g2.2 with
          | .id _ => writeState E .unreg .reg timeStamp g2.1
          | e => (g2.1, e)
        else writeState E .reg .unreg (dateOr (apiDate a)) g.1        -- write_unregistered_file(date=check['unreg_date'])
      | e => (g.1, e)
  else c

/-- InsightsConnection.handle_fail_rcs(res) with res.status_code == 412 (connection.py:476-486):
    `write_unregistered_file(res.json()["unregistered_at"])` inside `try … except:` — whatever it raises is swallowed -/
def rc412 (E : Env) (fs : FS) (date : Option Str) : FS × Res :=
  ((writeState E .reg .unreg (dateOr date) fs).1, .done)

/-- client._legacy_handle_unregistration(config, pconn) (client.py:259-285); `delOk` = the DELETE of
    InsightsConnection._legacy_unregister went through (False = ConnectionError) -/
def legacyHandleUnregistration (E : Env) (fs : FS) (api : Api) (force delOk : Bool) (rhsm : Option Str) (fresh fresh2 : Str) :
    FS × Res :=
  let fg := if readsAs E fs = some [] then fresh2 else fresh
  let a := effApi E fs api
  let c := legacyRegistrationCheck E fs api rhsm fresh
  if c.2 = .done then
    if a = .unreachable then (if force then unregisterAndDrop E c.1 else (c.1, .done))
    else if a = .registered then
      let g := genId E c.1 false rhsm fg                             -- pconn.unregister(): generate_machine_id(), DELETE
      match g.2 with
      | .id _ => if delOk then unregisterAndDrop E g.1 else (g.1, .done)
      | e => (g.1, e)
    else unregisterAndDrop E c.1                                     -- 'This system is already unregistered.'
  else c

inductive Op
  | readId (rd : Reader) (rhsm : Option Str) (fresh : Str)
  | newId (w : Regen) (rhsm : Option Str) (fresh : Str)
  | fetch (rhsm : Option Str) (fresh : Str)
  | register
  | unregister (date : Option Str)
  | deleteRegistered
  | deleteUnregistered
  | connUnregister
  | handleUnregistration (force : Bool)
  | registrationCheck (http : Option Bool) (rhsm : Option Str) (fresh : Str)
  | legacyRegistrationCheck (api : Api) (rhsm : Option Str) (fresh : Str)
  | legacyHandleRegistration (api : Api) (reg : Bool) (rhsm : Option Str) (fresh fresh2 : Str)
  | rc412 (date : Option Str)
  | legacyHandleUnregistration (api : Api) (force delOk : Bool) (rhsm : Option Str) (fresh fresh2 : Str)
  deriving DecidableEq, Repr

/-- every reader / regenerator is the same function of the file system: the code has no other copy of the identifier -/
def step (E : Env) (fs : FS) : Op → FS × Res
  | .readId _ r f => genId E fs false r f
  | .newId _ r f => genId E fs true r f
  | .fetch r f => fetch E fs r f
  | .register => writeState E .unreg .reg timeStamp fs
  | .unregister date => writeState E .reg .unreg (dateOr date) fs
  | .deleteRegistered => let r := deleteMarkers E .reg fs; (r.1, ofOk r.2)
  | .deleteUnregistered => let r := deleteMarkers E .unreg fs; (r.1, ofOk r.2)
  | .connUnregister => (connUnregister E fs).1
  | .handleUnregistration force => handleUnregistration E fs force
  | .registrationCheck http r f => registrationCheck E fs http r f
  | .legacyRegistrationCheck api r f => legacyRegistrationCheck E fs api r f
  | .legacyHandleRegistration api reg r f f2 => legacyHandleRegistration E fs api reg r f f2
  | .rc412 date => rc412 E fs date
  | .legacyHandleUnregistration api force ok r f f2 => legacyHandleUnregistration E fs api force ok r f f2

/-- state after a history -/
def exec (E : Env) (fs : FS) : List Op → FS
  | [] => fs
  | o :: h => exec E (step E fs o).1 h

/-- results of a history, in order -/
def trace (E : Env) (fs : FS) : List Op → List Res
  | [] => []
  | o :: h => (step E fs o).2 :: trace E (step E fs o).1 h

end IV.ClientState
