/-
Model of rule responses and their accounting (C12):

  insights/core/plugins.py     Response.__init__ / validate_kwargs / validate_key / adjust_for_length / get_key (421-477),
                               make_metadata_key / make_metadata / _make_skip / make_none constructors (626-698),
                               rule.process (322-336), PluginType.invoke (59-70)
  insights/core/dr.py          get_missing_dependencies (780-787), stringify_requirements (588-596),
                               the guard and the `except` ladder of run_components (1064-1097) as far as rules are concerned
  insights/core/evaluators.py  Evaluator.observer with the `_handled` set (34-52), SingleEvaluator.append_metadata / get_response /
                               handle_result (91-148)
  insights/formats/__init__.py EvaluatorFormatterAdapter.__init__ (98-113), get_response_of_types (188-220)
  insights/formats/_json.py    JsonFormat.handle_result (16-40: the same classification), postprocess

The response classes (response_type, key_name, whether adjust_for_length is overridden) are DATA: they
are a parameter here (`RClass`, `Cfg`) and are instantiated from the live classes by IV/Gen/Responses.lean.

Python values a rule can put into a response are `PyVal` (None, bool, int, str, list of str); `str(dict)` is
modelled exactly for these (`reprDict`), because the size limit is applied to that rendering.
A dict is an insertion-ordered association list.
-/
namespace IV.Rules

abbrev Str := List Char
abbrev Comp := Nat

/-! ### Python values and their `repr` -/

inductive PyVal where
  | none
  | bool (b : Bool)
  | int (i : Int)
  | str (s : Str)
  | strs (xs : List Str)
deriving DecidableEq, Repr

/-- `bool(v)` -/
def PyVal.truthy : PyVal → Bool
  | .none => false
  | .bool b => b
  | .int i => i != 0
  | .str s => !s.isEmpty
  | .strs xs => !xs.isEmpty

/-- `isinstance(v, str)` -/
def PyVal.isStr : PyVal → Bool
  | .str _ => true
  | _ => false

def hexDigit (n : Nat) : Char :=
  if n < 10 then Char.ofNat (48 + n) else Char.ofNat (87 + n)

def hex2 (n : Nat) : Str := [hexDigit (n / 16 % 16), hexDigit (n % 16)]

/-- one character inside `repr(str)` with quote `q` (code points ≥ 0xa1 other than U+00AD are taken to be printable) -/
def escChar (q c : Char) : Str :=
  if c = q ∨ c = '\\' then ['\\', c]
  else if c = '\n' then ['\\', 'n']
  else if c = '\r' then ['\\', 'r']
  else if c = '\t' then ['\\', 't']
  else if c.toNat < 32 ∨ (127 ≤ c.toNat ∧ c.toNat ≤ 160) ∨ c.toNat = 173 then ['\\', 'x'] ++ hex2 c.toNat
  else [c]

/-- `repr(s)` for a `str` -/
def reprStr (s : Str) : Str :=
  let q : Char := if s.contains '\'' && !s.contains '"' then '"' else '\''
  q :: (s.flatMap (escChar q) ++ [q])

def sepBy (sep : Str) : List Str → Str
  | [] => []
  | [x] => x
  | x :: y :: rest => x ++ sep ++ sepBy sep (y :: rest)

def reprVal : PyVal → Str
  | .none => "None".toList
  | .bool true => "True".toList
  | .bool false => "False".toList
  | .int i => (toString i).toList
  | .str s => reprStr s
  | .strs xs => '[' :: (sepBy [',', ' '] (xs.map reprStr) ++ [']'])

abbrev Dict := List (Str × PyVal)

/-- `str(d)` for a dict with `str` keys -/
def reprDict (d : Dict) : Str :=
  '{' :: (sepBy [',', ' '] (d.map (fun kv => reprStr kv.1 ++ [':', ' '] ++ reprVal kv.2)) ++ ['}'])

/-! ### association lists (Python dicts) -/

def lookup {α : Type} (k : Str) : List (Str × α) → Option α
  | [] => none
  | (k', v) :: rest => if k' = k then some v else lookup k rest

def hasKey {α : Type} (k : Str) (d : List (Str × α)) : Bool := d.any (fun kv => kv.1 == k)

/-- `d[k] = v` -/
def setKey {α : Type} (k : Str) (v : α) : List (Str × α) → List (Str × α)
  | [] => [(k, v)]
  | (k', v') :: rest => if k' = k then (k', v) :: rest else (k', v') :: setKey k v rest

/-- `d.pop(k)` when present (keys of a dict are unique: dropping every pair with that key is the same thing) -/
def erase {α : Type} (k : Str) (d : List (Str × α)) : List (Str × α) := d.filter (fun kv => kv.1 != k)

/-- `defaultdict(list)[k].append(e)` -/
def appendAt {α : Type} (k : Str) (e : α) : List (Str × List α) → List (Str × List α)
  | [] => [(k, [e])]
  | (k', es) :: rest => if k' = k then (k', es ++ [e]) :: rest else (k', es) :: appendAt k e rest

def getList {α : Type} (k : Str) (d : List (Str × List α)) : List α := (lookup k d).getD []

/-! ### Response classes and `Response.__init__` -/

/-- what `Response.__init__` reads from the class -/
structure RClass where
  cname : Str
  rtype : Option Str        -- `response_type` (`none` when falsy)
  keyName : Option Str      -- `key_name` (`none` when falsy)
  exempt : Bool             -- `adjust_for_length` overridden to return the response unchanged (make_metadata_key)
deriving DecidableEq, Repr

inductive VErr where
  | typeUnset      -- "response_type must be set on the Response subclass."
  | reserved       -- "<key_name> is an invalid argument for <class>"
  | keyMissing     -- "<class> response missing <key_name>"
  | keyType        -- "Response contains invalid <key_name> type"
deriving DecidableEq, Repr

/-- a constructed response: the class (for `get_key`, `response_type`) and the dict contents -/
structure Resp where
  cls : RClass
  fields : Dict
deriving DecidableEq, Repr

def sType : Str := "type".toList
def sMaxErr : Str := "max_detail_length_error".toList

/-- names that may not be used as keyword arguments: `"type"` and the class's `key_name` -/
def reservedNames (c : RClass) : List Str := sType :: c.keyName.toList

/-- `r = {"type": response_type}` plus `r[key_name] = key` -/
def keyField (c : RClass) (key : PyVal) : Dict :=
  match c.keyName with
  | some kn => [(kn, key)]
  | none => []

def baseFields (t : Str) (c : RClass) (key : PyVal) : Dict := (sType, .str t) :: keyField c key

/-- `Response.__init__(key, **kwargs)` with `settings.defaults["max_detail_length"] = limit` -/
def mkResp (limit : Nat) (c : RClass) (key : PyVal) (kwargs : Dict) : Except VErr Resp :=
  match c.rtype with
  | none => .error .typeUnset                                             -- validate_kwargs
  | some t =>
    if (reservedNames c).any (fun n => hasKey n kwargs) then .error .reserved
    else if c.keyName.isSome && !key.truthy then .error .keyMissing      -- validate_key
    else if c.keyName.isSome && !key.isStr then .error .keyType
    else
      let r := baseFields t c key
      let full := kwargs ++ r                                              -- kwargs.update(r): neither name is in kwargs
      let length := (reprDict full).length                                 -- adjust_for_length
      if !c.exempt && length > limit then .ok ⟨c, r ++ [(sMaxErr, .int length)]⟩
      else .ok ⟨c, full⟩

/-- `Response.get_key()`; `none` = Python None -/
def Resp.getKey (r : Resp) : Option PyVal :=
  match r.cls.keyName with
  | some kn => lookup kn r.fields
  | none => none

/-! ### rules, `rule.process`, the engine's exception ladder -/

inductive Exc where
  | skip                   -- SkipComponent
  | content                -- ContentException
  | calledProc             -- CalledProcessError
  | other (n : Nat)        -- any other Exception raised by the body (incl. TimeoutException, BlacklistedSpec)
  | badReturn              -- Exception("rules must return Response objects.")
  | validation (e : VErr)  -- ValidationException from a response constructor
deriving DecidableEq, Repr

/-- what the body of a rule does when it is called -/
inductive Action where
  | ret (c : RClass) (key : PyVal) (kwargs : Dict)    -- `return cls(key, **kwargs)`
  | retNone                                           -- `return None`
  | retOther (truthy : Bool)                          -- returns something that is neither None nor a Response;
                                                      -- `truthy` = bool(value): False, 0, '', [], {}, () … are falsy
  | raise (e : Exc)
deriving DecidableEq, Repr

structure Rule where
  id : Comp
  name : Str                                  -- dr.get_name(component)
  modName : Option Str                        -- dr.BASE_MODULE_NAMES.get(component)
  tags : List Str                             -- list(dr.get_tags(component)), some order of the set
  links : Option (List (Str × List Str))      -- the delegate's `links`
  requires : List Comp
  atLeastOne : List (List Comp)
  ignore : List Comp                          -- dr.IGNORE[component]
  enabled : Bool                              -- dr.ENABLED[component]
  act : Action
deriving Repr

/-- data of the infrastructure responses, taken from the live classes -/
structure Cfg where
  skipCls : RClass
  noneCls : RClass
  noneKey : Str
  skipReason : Str
deriving Repr

structure Env where
  cfg : Cfg
  limit : Nat                 -- settings.defaults["max_detail_length"]
  storeSkips : Bool           -- broker.store_skips
  nameOf : Comp → Str         -- dr.get_name of a dependency

structure Missing where
  required : List Comp
  atLeastOne : List (List Comp)
deriving DecidableEq, Repr

/-- `get_missing_dependencies` -/
def missingDeps (present : List Comp) (r : Rule) : Option Missing :=
  let mr := r.requires.filter (fun d => !present.contains d)
  let ma := r.atLeastOne.filter (fun g => g.all (fun d => !present.contains d))
  if mr.isEmpty && ma.isEmpty then none else some ⟨mr, ma⟩

def reprNames (nameOf : Comp → Str) (cs : List Comp) : Str :=
  '[' :: (sepBy [',', ' '] (cs.map (fun c => reprStr (nameOf c))) ++ [']'])

/-- `dr.stringify_requirements((required, at_least_one))` -/
def stringifyReq (nameOf : Comp → Str) (m : Missing) : Str :=
  "All: ".toList ++ reprNames nameOf m.required ++ " Any: ".toList ++
    sepBy " Any: ".toList (m.atLeastOne.map (reprNames nameOf))

def sRuleFqdn : Str := "rule_fqdn".toList
def sReason : Str := "reason".toList
def sDetails : Str := "details".toList

/-- keyword arguments of `_make_skip(rule_fqdn, missing)` -/
def skipKwargs (env : Env) (r : Rule) (m : Missing) : Dict :=
  [(sRuleFqdn, .str r.name), (sReason, .str env.cfg.skipReason), (sDetails, .str (stringifyReq env.nameOf m))]

/-- what `DELEGATES[rule].process(broker)` amounts to for run_components -/
inductive Proc where
  | stored (r : Resp)              -- `broker[rule] = r`
  | skipped (pre : List Exc)       -- a SkipComponent reached run_components; `pre` were recorded by PluginType.invoke
  | raised (e : Exc)               -- any other exception reached run_components
deriving DecidableEq, Repr

def ofMk : Except VErr Resp → Proc
  | .ok r => .stored r
  | .error e => .raised (.validation e)

/-- `PluginType.invoke` around the body, and the checks `rule.process` makes on what it returns -/
def invoke (env : Env) (r : Rule) : Proc :=
  match r.act with
  | .ret c key kwargs => ofMk (mkResp env.limit c key kwargs)
  | .retNone => ofMk (mkResp env.limit env.cfg.noneCls (.str env.cfg.noneKey) [])
  | .retOther _ => .raised .badReturn                 -- `isinstance`, not truthiness, decides
  | .raise .skip => .skipped []
  | .raise .content => .skipped [.content]
  | .raise .calledProc => .skipped [.calledProc]
  | .raise e => .raised e

/-- `any(i in broker for i in dr.IGNORE.get(component, []))` -/
def ignored (present : List Comp) (r : Rule) : Bool := r.ignore.any (fun i => present.contains i)

/-- `rule.process` -/
def process (env : Env) (present : List Comp) (r : Rule) : Proc :=
  if ignored present r then .skipped []
  else
    match missingDeps present r with
    | some m => ofMk (mkResp env.limit env.cfg.skipCls .none (skipKwargs env r m))
    | none => invoke env r

/-! ### the evaluator -/

/-- one element of `results[type]` -/
structure Entry where
  src : Comp                 -- ghost: the rule that produced it
  idName : Str               -- "<response_type>_id"
  idVal : Str                -- "<simple module name>|<key>"
  component : Str
  type : Str
  key : Option PyVal         -- `none` = Python None
  details : Resp
  tags : List Str
  links : List (Str × List Str)
deriving Repr

structure St where
  inst : List (Comp × Option Resp)      -- broker.instances: `some r` a stored response, `none` any other value (seeds)
  results : List (Str × List Entry)     -- Evaluator.results
  skips : List (Comp × Resp)            -- Evaluator.rule_skips (with the ghost source)
  metadata : Dict                       -- SingleEvaluator.metadata
  mdKeys : Dict                         -- Evaluator.metadata_keys
  excs : List (Comp × Exc)              -- broker.exceptions, in recording order
  mdFrom : List Comp                    -- ghost: rules whose metadata response was merged
  mdkFrom : List Comp                   -- ghost: rules whose metadata_key was stored
  handled : List Comp                   -- Evaluator._handled: the rules the observer has dealt with
deriving Repr

def St.present (st : St) : List Comp := st.inst.map (·.1)

def St.init (seed : List Comp) : St := ⟨seed.map (·, none), [], [], [], [], [], [], [], []⟩

def sNone : Str := "None".toList

/-- `"{0}|{1}".format(...)` of a module name / key that may be None -/
def fmtOpt : Option Str → Str
  | some s => s
  | none => sNone

def fmtKey : Option PyVal → Str
  | some (.str s) => s
  | some v => reprVal v
  | none => sNone

def sSkip : Str := "skip".toList
def sMetadata : Str := "metadata".toList
def sMetadataKey : Str := "metadata_key".toList
def sValue : Str := "value".toList

def mkEntry (r : Rule) (t : Str) (resp : Resp) : Entry :=
  { src := r.id
    idName := (resp.cls.rtype.getD sNone) ++ "_id".toList
    idVal := fmtOpt r.modName ++ ['|'] ++ fmtKey resp.getKey
    component := r.name
    type := t
    key := resp.getKey
    details := resp
    tags := r.tags
    links := r.links.getD [] }

/-- `append_metadata`: every item but "type" is merged, later values win -/
def mergeMd (md : Dict) (fields : Dict) : Dict :=
  fields.foldl (fun acc kv => if kv.1 = sType then acc else setKey kv.1 kv.2 acc) md

/-- `handle_result(plugin, r)`; an exception inside the observer is swallowed by `fire_observers` -/
def handle (st : St) (r : Rule) (resp : Resp) : St :=
  match lookup sType resp.fields with
  | some (.str t) =>
    if t = sSkip then { st with skips := st.skips ++ [(r.id, resp)] }
    else if t = sMetadata then
      { st with metadata := mergeMd st.metadata resp.fields, mdFrom := st.mdFrom ++ [r.id] }
    else if t = sMetadataKey then
      match resp.getKey, lookup sValue resp.fields with
      | some (.str k), some v => { st with mdKeys := setKey k v st.mdKeys, mdkFrom := st.mdkFrom ++ [r.id] }
      | _, _ => st                      -- KeyError / a key that is not a string: outside the model, nothing listed
    else { st with results := appendAt t (mkEntry r t resp) st.results }
  | _ => st                              -- no "type": KeyError in the observer

/-- what the observer does with a value it has not dealt with before: `self._handled.add(comp)`, then
`handle_result(comp, broker[comp])` (which raises inside the observer when the value is not a response) -/
def observeNew (st : St) (r : Rule) (v : Option Resp) : St :=
  match v with
  | some resp => handle { st with handled := st.handled ++ [r.id] } r resp
  | none => { st with handled := st.handled ++ [r.id] }

/-- `Evaluator.observer`: `if is_rule(comp) and comp in broker and comp not in self._handled: …` — observers fire
for every component of every run on the broker, so a rule already dealt with is left alone -/
def observe (st : St) (r : Rule) : St :=
  match lookup' r.id st.inst with
  | some v => if st.handled.contains r.id then st else observeNew st r v
  | none => st
where
  lookup' (c : Comp) : List (Comp × Option Resp) → Option (Option Resp)
    | [] => none
    | (c', v) :: rest => if c' = c then some v else lookup' c rest

/-- exceptions recorded when a SkipComponent reaches run_components -/
def skipExcs (env : Env) (pre : List Exc) : List Exc := pre ++ (if env.storeSkips then [Exc.skip] else [])

/-- the `except` ladder of run_components for a rule (no registry points) -/
def applyProc (env : Env) (st : St) (r : Rule) : Proc → St
  | .stored resp => { st with inst := st.inst ++ [(r.id, some resp)] }
  | .skipped pre =>
    { st with excs := st.excs ++ (skipExcs env pre).map (r.id, ·) }
  | .raised e => { st with excs := st.excs ++ [(r.id, e)] }

/-- one iteration of run_components on a rule: guard, process, ladder, `finally: fire_observers` -/
def step (env : Env) (st : St) (r : Rule) : St :=
  let st1 := if !st.present.contains r.id && r.enabled then applyProc env st r (process env st.present r) else st
  observe st1 r

/-- the rules of the graph in the order the engine runs them -/
def run (env : Env) (seed : List Comp) (rules : List Rule) : St :=
  rules.foldl (step env) (St.init seed)

/-! ### one evaluator object hooked to its broker over a history of uses

`Formatter.__enter__` = `preprocess()` = `broker.add_observer(self.observer)`; `broker.observers[type]` is a SET of
callables and a bound method equals itself, so registering again changes nothing.  `dr.run` fires the observers
for EVERY component of the run order — also for components that are only mentioned as dependencies (not keys of
the graph) and for components that are already in the broker; such components are not processed again, and the evaluator's
observer leaves alone what it has dealt with before (`Evaluator._handled`, `St.handled`). -/

abbrev ObsId := Nat

/-- the evaluator's own `self.observer` bound method -/
def evalObs : ObsId := 0

/-- `set.add` on the observers of a component type -/
def addObserver (o : ObsId) (l : List ObsId) : List ObsId := if l.contains o then l else l ++ [o]

/-- the guard and ladder of run_components without the observers; `inGraph` = `component in components` -/
def engineStep (env : Env) (inGraph : Bool) (st : St) (r : Rule) : St :=
  if !st.present.contains r.id && inGraph && r.enabled then applyProc env st r (process env st.present r) else st

/-- `fire_observers`: every registered callable once; only the evaluator's touches the evaluator -/
def dispatch (observers : List ObsId) (st : St) (r : Rule) : St :=
  observers.foldl (fun s o => if o = evalObs then observe s r else s) st

structure HSt where
  st : St
  observers : List ObsId

/-- one element of a run order: the rule and whether it is a key of the graph -/
abbrev Fired := Rule × Bool

def stepH (env : Env) (h : HSt) (f : Fired) : HSt :=
  { h with st := dispatch h.observers (engineStep env f.2 h.st f.1) f.1 }

inductive Op where
  | register (o : ObsId)          -- add_observer / preprocess() / __enter__ / the start of process()
  | run (fired : List Fired)      -- dr.run(graph, broker=e.broker): the rules of the run order, in order

def applyOp (env : Env) (h : HSt) : Op → HSt
  | .register o => { h with observers := addObserver o h.observers }
  | .run fired => fired.foldl (stepH env) h

def runHistory (env : Env) (seed : List Comp) (ops : List Op) : HSt :=
  ops.foldl (applyOp env) ⟨St.init seed, []⟩

/-! ### run modes: `Evaluator(incremental=True).process(graph, parallel)`

`process` enters the evaluator (registers the observer) and then `run_incremental` → `dr.run_all` runs `dr.run` on
sub-graph after sub-graph of the graph (`get_subgraphs`), all on the evaluator's own broker. -/

/-- `incremental=True`: the sub-graphs, each as the rules of its run order -/
def processIncremental (env : Env) (seed : List Comp) (subgraphs : List (List Rule)) : St :=
  (runHistory env seed (.register evalObs :: subgraphs.map (fun g => Op.run (g.map (·, true))))).st

/-! ### configuration glue: `insights.apply_default_enabled(config)` followed by `insights.apply_configs(config)`

`apply_default_enabled` sets every known ENABLED entry to `default_component_enabled` (and makes it the default of
components defined later).  `apply_configs` walks the LOADED components sorted by name for each entry of
`configs`: a component whose name starts with the entry's name gets `enabled` (default: the default), `tags`,
`links`; the walk of an entry stops after a component whose name IS the entry's name. -/

structure ConfEntry where
  name : Str
  exactLoaded : Bool                          -- a loaded component is called exactly `name` (the walk stops there)
  enabled : Option Bool                       -- `comp_cfg.get("enabled", default_enabled)`
  tags : Option (List Str)                    -- `comp_cfg.get("tags", delegate.tags)`
  links : Option (List (Str × List Str))      -- `comp_cfg.get("links", delegate.links)`
deriving Repr

structure Config where
  defaultEnabled : Bool
  entries : List ConfEntry
deriving Repr

/-- the entry is applied to the component called `cname` -/
def entryMatches (e : ConfEntry) (cname : Str) : Bool :=
  cname == e.name || (e.name.isPrefixOf cname && !e.exactLoaded)

def applyEntry (dflt : Bool) (r : Rule) (e : ConfEntry) : Rule :=
  if entryMatches e r.name then
    { r with enabled := e.enabled.getD dflt, tags := e.tags.getD r.tags,
             links := match e.links with | some l => some l | none => r.links }
  else r

/-- one `apply_default_enabled(c); apply_configs(c)` on a rule that is loaded -/
def applyConfig (c : Config) (r : Rule) : Rule :=
  c.entries.foldl (applyEntry c.defaultEnabled) { r with enabled := c.defaultEnabled }

/-- the configurations applied after the rule was defined (and after any `dr.set_enabled` on it), in order -/
def configure (cs : List Config) (r : Rule) : Rule := cs.foldl (fun r c => applyConfig c r) r

/-! ### InsightsEvaluator: the observer decorates AFTER it has handled the outcome

`InsightsEvaluator.observer` first calls `super().observer(comp, broker)` and then reads Specs.machine_id /
Specs.redhat_release content and BranchInfo from the broker.  These are lazily loaded providers: reading `.content` /
`.data` may raise.  An exception leaves the rest of the observer undone and is swallowed by `fire_observers`. -/

/-- a content provider in the broker, as the decoration sees it -/
inductive Provider where
  | absent                         -- not in the broker
  | content (lines : List Str)     -- `.content` (an empty list is falsy: nothing is read)
  | raises                         -- `.content` raises (ContentException, file gone, …)
deriving DecidableEq, Repr

inductive BranchProv where
  | absent
  | data (nonEmpty : Bool)         -- `.data`; an empty dict leaves `branch_info` falsy
  | raises
deriving DecidableEq, Repr

structure Deco where
  machineId : Provider
  release : Provider
  branch : BranchProv
deriving DecidableEq, Repr

structure ISt where
  st : St                          -- what SingleEvaluator has
  systemId : Option Str
  release : Option Str
  branchLoaded : Bool              -- `bool(self.branch_info)`
deriving Repr

/-- a statement of the observer: `error` = it raised -/
abbrev Stmt := ISt → Except Unit ISt

/-- statements in order; an exception leaves the remaining ones undone (and is swallowed by fire_observers) -/
def seqStmts : List Stmt → ISt → ISt
  | [], s => s
  | f :: rest, s =>
    match f s with
    | .ok s' => seqStmts rest s'
    | .error _ => s

def isPySpace (c : Char) : Bool := c = ' ' || c = '\n' || c = '\t' || c = '\r' || c.toNat = 11 || c.toNat = 12

/-- `str.strip()` (ASCII white space) -/
def pyStrip (s : Str) : Str := ((s.dropWhile isPySpace).reverse.dropWhile isPySpace).reverse

/-- `X in broker and broker[X].content` … `broker[X].content[0].strip()` -/
def readFirst : Provider → Except Unit (Option Str)
  | .absent => .ok none
  | .raises => .error ()
  | .content [] => .ok none
  | .content (l :: _) => .ok (some (pyStrip l))

/-- `super(InsightsEvaluator, self).observer(comp, broker)` -/
def handleStmt (r : Rule) : Stmt := fun s => .ok { s with st := observe s.st r }

def machineIdStmt (d : Deco) : Stmt := fun s =>
  if s.systemId.isSome then .ok s
  else match readFirst d.machineId with
    | .ok (some v) => .ok { s with systemId := some v }
    | .ok none => .ok s
    | .error e => .error e

def releaseStmt (d : Deco) : Stmt := fun s =>
  if s.release.isSome then .ok s
  else match readFirst d.release with
    | .ok (some v) => .ok { s with release := some v }
    | .ok none => .ok s
    | .error e => .error e

def branchStmt (d : Deco) : Stmt := fun s =>
  if s.branchLoaded then .ok s
  else match d.branch with
    | .absent => .ok s
    | .data ne => .ok { s with branchLoaded := ne }
    | .raises => .error ()

/-- `InsightsEvaluator.observer(rule, broker)` -/
def observerI (d : Deco) (r : Rule) : ISt → ISt :=
  seqStmts [handleStmt r, machineIdStmt d, releaseStmt d, branchStmt d]

def stepI (env : Env) (d : Deco) (s : ISt) (f : Fired) : ISt :=
  observerI d f.1 { s with st := engineStep env f.2 s.st f.1 }

def ISt.init (seed : List Comp) : ISt := ⟨St.init seed, none, none, false⟩

/-- `InsightsEvaluator(broker).process(graph)` -/
def runI (env : Env) (d : Deco) (seed : List Comp) (rules : List Rule) : ISt :=
  (rules.map (·, true)).foldl (stepI env d) (ISt.init seed)

def sRelease : Str := "release".toList

/-- `format_response`: `if self.release: system["metadata"]["release"] = self.release` (the same dict as the evaluator's) -/
def ISt.metadata (s : ISt) : Dict :=
  match s.release with
  | some v => if v.isEmpty then s.st.metadata else setKey sRelease (.str v) s.st.metadata
  | none => s.st.metadata

/-! ### `get_response` and `get_response_of_types` -/

inductive Top where
  | val (v : PyVal)                                  -- a metadata_key value
  | system (metadata : Option Dict)                  -- {"metadata": ..., "hostname": ...}
  | entries (es : List Entry)
  | skips (rs : List Resp)
  | analysis                                         -- "analysis_metadata"
deriving Repr

def sSystem : Str := "system".toList
def sReports : Str := "reports".toList
def sFingerprints : Str := "fingerprints".toList
def sSkips : Str := "skips".toList
def sAnalysis : Str := "analysis_metadata".toList
def sRule : Str := "rule".toList
def sFingerprint : Str := "fingerprint".toList
def sInfo : Str := "info".toList
def sPass : Str := "pass".toList
def sNoneT : Str := "none".toList
def sFail : Str := "fail".toList

abbrev Report := List (Str × Top)

/-- `SingleEvaluator.get_response()` -/
def getResponse (st : St) : Report :=
  let r0 : Report := st.mdKeys.map (fun kv => (kv.1, Top.val kv.2))
  let r1 := setKey sSkips (.skips (st.skips.map (·.2)))
            (setKey sFingerprints (.entries (getList sFingerprint st.results))
            (setKey sReports (.entries (getList sRule st.results))
            (setKey sSystem (.system (some st.metadata)) r0)))
  let r2 := st.results.foldl
    (fun r kv => if kv.1 = sRule ∨ kv.1 = sFingerprint then r else setKey kv.1 (.entries kv.2) r) r1
  setKey sAnalysis .analysis r2

def popMetadata : Report → Report
  | [] => []
  | (k, v) :: rest =>
    if k = sSystem then
      (k, match v with | .system _ => .system none | v => v) :: rest
    else (k, v) :: popMetadata rest

/-- `if cond and k in response: response.pop(k)` -/
def condErase (b : Bool) (k : Str) (r : Report) : Report := if b then erase k r else r

/-- `if cond and 'metadata' in response.get('system', {}): response['system'].pop('metadata')` -/
def condPop (b : Bool) (r : Report) : Report := if b then popMetadata r else r

/-- `get_response_of_types(response, missing, show_rules)`; the pops in the order of the code (innermost first) -/
def ofTypes (resp : Report) (missing : Bool) (showRules : List Str) : Report :=
  let r := condErase (!missing) sSkips resp
  if showRules.isEmpty then erase sNoneT r
  else
    condErase (!showRules.contains sFingerprint) sFingerprints
      (condErase (!showRules.contains sNoneT) sNoneT
        (condErase (!showRules.contains sPass) sPass
          (condErase (!showRules.contains sInfo) sInfo
            (condErase (!showRules.contains sRule) sReports
              (condPop (!showRules.contains sMetadata) r)))))

/-- `EvaluatorFormatterAdapter.__init__`: the `show_rules` handed to the formatter for `-m`, `-F`, `-S …` -/
def adapterShow (missing failOnly : Bool) (showArg : List Str) : List Str :=
  let failOnly := if missing && failOnly then false else failOnly
  if showArg.isEmpty && failOnly then [sRule]
  else if !showArg.isEmpty then showArg.map (fun o => if o = sFail then sRule else o)
  else []

/-! ### specification side: the one outcome of each rule -/

/-- where a rule ends up -/
inductive Final where
  | entry (t : Str) (resp : Resp)       -- a typed response, listed in `results[t]`
  | skipEntry (resp : Resp)             -- a skip response, listed in `skips`
  | metadata (resp : Resp)              -- merged into the system metadata
  | metadataKey (resp : Resp) (k : Str) (v : PyVal)   -- stored as a top-level metadata key
  | unlisted (resp : Resp)              -- stored in the broker but the observer raised (malformed custom response only)
  | exception (es : List Exc)           -- recorded in broker.exceptions (non-empty)
  | nothing                             -- no trace
deriving DecidableEq, Repr

/-- the branch `handle_result` takes for a response -/
def observeKind (resp : Resp) : Final :=
  match lookup sType resp.fields with
  | some (.str t) =>
    if t = sSkip then .skipEntry resp
    else if t = sMetadata then .metadata resp
    else if t = sMetadataKey then
      match resp.getKey, lookup sValue resp.fields with
      | some (.str k), some v => .metadataKey resp k v
      | _, _ => .unlisted resp
    else .entry t resp
  | _ => .unlisted resp

/-- the trace a `process` result leaves -/
def finalOfProc (env : Env) : Proc → Final
  | .stored resp => observeKind resp
  | .skipped pre => if (skipExcs env pre).isEmpty then .nothing else .exception (skipExcs env pre)
  | .raised e => .exception [e]

def classify (env : Env) (present : List Comp) (r : Rule) : Final :=
  if !r.enabled then .nothing else finalOfProc env (process env present r)

/-- the rule's value is in the broker afterwards -/
def Final.stored : Final → Bool
  | .entry _ _ | .skipEntry _ | .metadata _ | .metadataKey _ _ _ | .unlisted _ => true
  | .exception _ | .nothing => false

/-- every rule of the run with its outcome, the broker's key set threaded through -/
def finals (env : Env) : List Comp → List Rule → List (Rule × Final)
  | _, [] => []
  | present, r :: rs =>
    let f := classify env present r
    (r, f) :: finals env (if f.stored then present ++ [r.id] else present) rs

end IV.Rules
