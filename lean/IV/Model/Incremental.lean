import IV.Model.Subgraphs
/-
Model of the incremental / pooled drivers of insights/core/dr.py (1132-1169), broker handling included:

```
def generate_incremental(components=None, broker=None):
    ...
    for graph in get_subgraphs(components):
        yield graph, broker or Broker()

def run_incremental(components=None, broker=None):
    for graph, _broker in generate_incremental(components, broker):
        yield run(graph, broker=_broker)

def run_all(components=None, broker=None, pool=None):
    if pool:
        futures = [pool.submit(run, graph, _broker) for graph, _broker in generate_incremental(components, broker)]
        return [f.result() for f in futures]
    else:
        return list(run_incremental(components=components, broker=broker))
```

Brokers are OBJECTS: a `Ref` is the identity of one, a `Heap` maps identities to contents.  A `Broker`
instance is always truthy (the class defines neither `__bool__` nor `__len__`), so `broker or Broker()`
is the caller's object when one was passed and otherwise a NEW object per sub-graph — empty, with
`store_skips = False` (Broker.__init__).
-/
namespace IV.Dr

abbrev Ref := Nat

/-- the contents of one broker object -/
structure Cell where
  broker : Broker
  storeSkips : Bool

abbrev Heap := Ref → Cell

/-- what `Broker()` creates -/
def Cell.fresh : Cell := ⟨Broker.seeded (fun _ => none), false⟩

/-- one `(graph, _broker)` pair yielded by `generate_incremental`: the keys of the sub-graph and the identity of the broker -/
abbrev Task := List Comp × Ref

/-- the identities `broker or Broker()` evaluates to, sub-graph after sub-graph; `next` = the first identity not in use -/
def brokerRefs (passed : Option Ref) (next : Ref) : Nat → List Ref
  | 0 => []
  | n + 1 =>
    match passed with
    | some r => r :: brokerRefs passed next n
    | none => next :: brokerRefs passed (next + 1) n

/-- `generate_incremental` over the sub-graphs `subs` (= `getSubgraphs …`) -/
def generateIncremental (subs : List (List Comp)) (passed : Option Ref) (next : Ref) : List Task :=
  subs.zip (brokerRefs passed next subs.length)

/-- `run(graph, broker=_broker)` for one yielded pair: the sub-graph is evaluated in the order `orderOf` gives for it
(`run_order` of the yielded dict: any topological order), on the object the pair names, in place -/
def runTask (w : World) (orderOf : List Comp → List Comp) (h : Heap) (t : Task) : Heap :=
  upd h t.2 { h t.2 with
    broker := runComponents w (fun c => t.1.contains c) (h t.2).storeSkips (orderOf t.1) (h t.2).broker }

/-- tasks executed one after the other (in the order given) -/
def runTasks (w : World) (orderOf : List Comp → List Comp) (h : Heap) (ts : List Task) : Heap :=
  ts.foldl (runTask w orderOf) h

/-- `run_incremental`, consumed up to and including its `i`-th yield: the heap at that moment and the identity yielded -/
def runIncrementalAt (w : World) (orderOf : List Comp → List Comp) (h : Heap) (ts : List Task) (i : Nat) : Heap × Option Ref :=
  (runTasks w orderOf h (ts.take (i + 1)), (ts[i]?).map (·.2))

/-- `run_all` without a pool / `list(run_incremental(...))`: final heap and the identities handed back, in order -/
def runAllSerial (w : World) (orderOf : List Comp → List Comp) (h : Heap) (ts : List Task) : Heap × List Ref :=
  (runTasks w orderOf h ts, ts.map (·.2))

/-- `run_all` with a pool whose workers take the submitted tasks in the order `sched` (a permutation of the tasks; tasks on
DIFFERENT broker objects do not touch each other's state, tasks on one shared object are covered at step granularity by
`run_modes_agree`); the identities handed back are in SUBMISSION order -/
def runAllPool (w : World) (orderOf : List Comp → List Comp) (h : Heap) (ts sched : List Task) : Heap × List Ref :=
  (runTasks w orderOf h sched, ts.map (·.2))

/-! ### a loaded archive (`SerializedArchiveContext` in the broker) through the incremental drivers

`run(graph, broker)` first runs its pruning loop (`archivePrune`, Model/Dr.lean) on the dict it is given — here the yielded
sub-graph dict `{s: get_dependencies(s) for s in seen}` — with the instances the broker holds AT THAT MOMENT, then evaluates
what is left in a topological order of it. -/

/-- the dict `get_subgraphs` yields for the key list `sg` -/
def subDict (deps : Comp → List Comp) (sg : List Comp) : Graph := sg.map (fun k => (k, deps k))

/-- `run(graph, _broker)` on a loaded-archive broker; `none` of the pruning loop / the sort = the call raises (KeyError /
cycle) and nothing is evaluated -/
def runTaskArchive (w : World) (pick : List Comp → List Comp) (deps : Comp → List Comp) (h : Heap) (t : Task) : Heap :=
  match archivePrune (h t.2).broker.inst (subDict deps t.1) with
  | none => h
  | some g' =>
    match toposort pick g' with
    | none => h
    | some o =>
      upd h t.2 { h t.2 with
        broker := runComponents w (fun c => g'.keys.contains c) (h t.2).storeSkips o (h t.2).broker }

def runTasksArchive (w : World) (pick : List Comp → List Comp) (deps : Comp → List Comp) (h : Heap) (ts : List Task) : Heap :=
  ts.foldl (runTaskArchive w pick deps) h

end IV.Dr
