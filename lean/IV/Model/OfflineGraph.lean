/-
C16, `offline` => no network: the call graph of insights/client as far as it can open a connection.

Functions are numbered by translate/offline_sites.py (simple names; the numbering is in the generated file).  A `Call`
is one call site; `guarded = true` when the site is not executed while `config.offline` is true (it sits under
`not x.offline`, in the else branch of `if x.offline`, or after `if x.offline: return`).  `Reaches seeds calls f`: `f` can get
to a connection opener (`seeds`) along call sites that ARE executed when offline is true.
-/
namespace IV.OfflineGraph

structure Call where
  caller : Nat
  callee : Nat
  guarded : Bool
deriving DecidableEq, Repr

inductive Reaches (seeds : List Nat) (calls : List Call) : Nat → Prop
  | seed {f : Nat} : f ∈ seeds → Reaches seeds calls f
  | step {f g : Nat} : (⟨f, g, false⟩ : Call) ∈ calls → Reaches seeds calls g → Reaches seeds calls f

/-- `S` contains the seeds and every function with an unguarded call into `S` -/
def closed (S seeds : List Nat) (calls : List Call) : Bool :=
  seeds.all (fun f => S.contains f) &&
  calls.all (fun c => c.guarded || !S.contains c.callee || S.contains c.caller)

end IV.OfflineGraph
