import IV.Model.TextFormats
/-
C15 (round 10) — the remaining shared helpers of insights/parsers/__init__.py and the write accessor of
IniConfigFile:

  insights/parsers/__init__.py   optlist_to_dict incl. make_kv (40-80), unsplit_lines (160-202)
  insights/core/__init__.py      IniConfigFile.set (1758-1767)

Same conventions as IV.Model.TextFormats (strings are `List Char`, a `dict` is an insertion-ordered
association list, exceptions are `Except Err`).
-/
namespace IV.TextFormats

/-! ### unsplit_lines -/

/-- the loop of `unsplit_lines`: `acc` is the list `unsplit_lines` of collected pieces (a LIST: `if unsplit_lines:`
    at the end tests the list, so a single empty piece still yields a line) -/
def unsplitGo (cont : Str) (keep : Bool) : List Str → List Str → List Str
  | [], acc => if acc.isEmpty then [] else [acc.flatten]
  | l :: ls, acc =>
    let line := rstrip l
    if endsWith cont line then unsplitGo cont keep ls (acc ++ [if keep then line else line.dropLast])
    else (acc.flatten ++ line) :: unsplitGo cont keep ls []

/-- `list(unsplit_lines(lines, cont_char, keep_cont_char))` -/
def unsplitLines (lines : List Str) (cont : Str) (keep : Bool) : List Str := unsplitGo cont keep lines []

/-- a logical line: pieces that are each followed by the continuation character (and `n` blanks), then the
    last piece -/
structure Logical where
  parts : List (Str × Nat)
  last : Str
  deriving Repr

def renderParts (c : Char) (ps : List (Str × Nat)) : List Str := ps.map (fun p => p.1 ++ [c] ++ spaces p.2)

def renderLogical (c : Char) (lg : Logical) : List Str := renderParts c lg.parts ++ [lg.last]

def renderLogicals (c : Char) (doc : List Logical) : List Str := doc.flatMap (renderLogical c)

/-- what a logical line says: its pieces joined (trailing white space of the LAST physical line is not data) -/
def joinedParts (c : Char) (keep : Bool) (ps : List (Str × Nat)) : Str :=
  (ps.map (fun p => if keep then p.1 ++ [c] else p.1)).flatten

def Logical.joined (c : Char) (keep : Bool) (lg : Logical) : Str := joinedParts c keep lg.parts ++ rstrip lg.last

/-! ### optlist_to_dict -/

/-- the value of an option: `True` (`none`) or the text to the right of `kv_sep` -/
abbrev OptDict := List (Str × Option Str)

/-- `make_kv(opt)`; `kv_sep in opt` with an empty `kv_sep` is true and `opt.split('', 1)` raises ValueError; with
    `strip_quotes` a NON-EMPTY value that begins and ends with the same quote character loses both (`v[1:-1]`: a value
    that is one lone quote character becomes empty); an empty value stays empty (`strip_quotes and v and …`, fix d975e2b) -/
def makeKv (kvSep : Option Str) (stripQuotes : Bool) (opt : Str) : Except Err (Str × Option Str) :=
  match kvSep with
  | none => .ok (opt, none)
  | some sep =>
    if sep.isEmpty then .error .valueError else
    match splitFirst sep opt with
    | none => .ok (opt, none)
    | some (k, v) =>
      if stripQuotes then
        match v with
        | [] => .ok (strip k, some [])
        | q :: _ =>
          if (q = '"' ∨ q = '\'') ∧ v.getLast? = some q then .ok (strip k, some (v.drop 1).dropLast)
          else .ok (strip k, some v)
      else .ok (strip k, some v)

/-- `optlist_to_dict(optlist, opt_sep, kv_sep, strip_quotes)`; the observable is `list(result.items())` -/
def optlistToDict (optlist optSep : Str) (kvSep : Option Str) (stripQuotes : Bool) : Except Err OptDict :=
  if optSep.isEmpty then .error .valueError
  else (fromPairs ·) <$> (splitSep optSep none optlist).mapM (makeKv kvSep stripQuotes)

/-- the rule BEFORE fix d975e2b (`strip_quotes and v[0] in …`): `v[0]` on an empty value raised IndexError.
    Kept only for the regression lemmas `optlist_old_rule_witness` / `optlist_old_rule_violates`. -/
def makeKvOld (kvSep : Option Str) (stripQuotes : Bool) (opt : Str) : Except Err (Str × Option Str) :=
  match kvSep with
  | none => .ok (opt, none)
  | some sep =>
    if sep.isEmpty then .error .valueError else
    match splitFirst sep opt with
    | none => .ok (opt, none)
    | some (k, v) =>
      if stripQuotes then
        match v with
        | [] => .error .indexError
        | q :: _ =>
          if (q = '"' ∨ q = '\'') ∧ v.getLast? = some q then .ok (strip k, some (v.drop 1).dropLast)
          else .ok (strip k, some v)
      else .ok (strip k, some v)

def optlistToDictOld (optlist optSep : Str) (kvSep : Option Str) (stripQuotes : Bool) : Except Err OptDict :=
  if optSep.isEmpty then .error .valueError
  else (fromPairs ·) <$> (splitSep optSep none optlist).mapM (makeKvOld kvSep stripQuotes)

/-- an option as rendered: a bare flag, or `key`, blanks, `kv_sep`, value (the key may be padded: it is stripped) -/
inductive OptItem where
  | flag (k : Str)
  | kv (lead : Nat) (k : Str) (gap : Nat) (v : Str)
  deriving Repr

def renderOptItem (kv : Char) : OptItem → Str
  | .flag k => k
  | .kv a k b v => spaces a ++ k ++ spaces b ++ kv :: v

def optPairOf : OptItem → Str × Option Str
  | .flag k => (k, none)
  | .kv _ k _ v => (k, some v)

def renderOptlist (os kv : Char) (items : List OptItem) : Str := joinWith os (items.map (renderOptItem kv))

/-! ### IniConfigFile.set, ConfigParser.parse_content -/

/-- `ConfigParser.parse_content`: `if not content: raise SkipComponent('Empty content.')` (content = the list of lines) -/
def skipsEmpty (lines : List Str) : Bool := lines.isEmpty

/-- `IniConfigFile.set(section, option, value)`: `self._dict[section.strip()][option.strip().lower()] = value`;
    an absent section is a KeyError -/
def iniSet (d : IniDict) (sec opt : Str) (v : Option Str) : Except Err IniDict :=
  match dictGet d (strip sec) with
  | none => .error .keyError
  | some h => .ok (dictSet d (strip sec) (dictSet h (lower (strip opt)) v))

end IV.TextFormats
