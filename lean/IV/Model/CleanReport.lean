import IV.Model.CleanState
/-!
The REPORT side of the cleaner (C09): `Cleaner.generate_report(archive_name)` =
`generate_rhsm_facts()` (the facts file: system name, four "enabled" flags, five JSON lists built from
`mapping()`) followed by `parser.generate_report(report_dir, archive_name)` of every parser object that is
truthy (`<archive>-ip.csv`, `-ipv6.csv`, `-hostname.csv`, `-mac.csv`, `-keyword.csv`; `Pattern`, `AllowFilter`
and `Password` write nothing), each through `utilities.write_report` (one line + LF per list item).

Transcribed from insights/cleaner/__init__.py:201-240, ip.py:139-152 / 230-243, hostname.py:119-135,
mac.py:83-96, keyword.py:57-68, utilities.py:13-28.  Nothing here changes a database: a report may be taken
at any point of a history, any number of times.
-/
namespace IV.CleanState

/-- `'{0},{1}'.format(a, b)` -/
def csvRow (a b : Str) : Str := a ++ ',' :: b

/-- the `lines` list a `generate_report` method builds: header, then one row per pair -/
def csvLines (header : Str) (rows : List (Str × Str)) : List Str := header :: rows.map (fun p => csvRow p.1 p.2)

/-- `utilities.write_report(lines, file)`, list branch: `fp.write("{0}\n".format(line))` per item -/
def writeReport (lines : List Str) : Str := (lines.map (fun l => l ++ ['\n'])).flatten

/-! rows = (first column, second column).  IPv4 / host / MAC / IPv6 write `obfuscated,original`; the keyword
report writes `original,replacement` under the header `Replaced Keyword,Original Keyword` (keyword.py:63). -/

def ipRows (st : St) : List (Str × Str) := st.ipDb.map (fun kv => (int2ip kv.1, int2ip kv.2))
/-- hostname.py:124-128: `None,None` when the counter is 0 (never the case for an existing `Hostname`) -/
def hostRows (st : St) : List (Str × Str) :=
  if 0 < st.hnCount then st.hnDb else [("None".toList, "None".toList)]
def macRows (st : St) : List (Str × Str) := st.macDb.map (fun kv => (kv.2, kv.1))
def ip6Rows (st : St) : List (Str × Str) := st.ip6Db.map (fun kv => (kv.2, kv.1))
def kwRows (E : Env) (cfg : Cfg) (st : St) : List (Str × Str) := kwMapping E cfg st

def ipHeader : Str := "Obfuscated IPv4,Original IPv4".toList
def hostHeader : Str := "Obfuscated Hostname,Original Hostname".toList
def macHeader : Str := "Obfuscated MAC,Original MAC".toList
def ip6Header : Str := "Obfuscated IPv6,Original IPv6".toList
def kwHeader : Str := "Replaced Keyword,Original Keyword".toList

/-- what one `generate_report` call leaves behind -/
structure Reports where
  /-- `insights_client.hostname` -/
  sysName : Str
  /-- `obfuscate_ipv4_enabled`, `_ipv6_`, `_hostname_`, `_mac_`: is the KEY in `self.obfuscate` -/
  ip4On : Bool
  ip6On : Bool
  hostOn : Bool
  macOn : Bool
  /-- the five JSON lists of the facts file: (original, obfuscated) -/
  factsIp : List (Str × Str)
  factsIp6 : List (Str × Str)
  factsMac : List (Str × Str)
  factsHost : List (Str × Str)
  factsKw : List (Str × Str)
  /-- content of each CSV file; `none` = the file is not written -/
  ipCsv : Option Str
  ip6Csv : Option Str
  hostCsv : Option Str
  macCsv : Option Str
  kwCsv : Option Str

def generateReport (E : Env) (cfg : Cfg) (st : St) : Reports :=
  let on := fun (s : Stage) => s.enabled cfg
  let m := fun (s : Stage) (x : List (Str × Str)) => if on s then x else []
  let f := fun (s : Stage) (hdr : Str) (rows : List (Str × Str)) =>
    if on s then some (writeReport (csvLines hdr rows)) else none
  { sysName := cfg.fqdn
    ip4On := on .ip, ip6On := on .ipv6, hostOn := on .hostname, macOn := on .mac
    factsIp := m .ip (ipMapping st), factsIp6 := m .ipv6 (ip6Mapping st), factsMac := m .mac (macMapping st)
    factsHost := m .hostname (hostMapping st), factsKw := m .keyword (kwMapping E cfg st)
    ipCsv := f .ip ipHeader (ipRows st), ip6Csv := f .ipv6 ip6Header (ip6Rows st)
    hostCsv := f .hostname hostHeader (hostRows st), macCsv := f .mac macHeader (macRows st)
    kwCsv := f .keyword kwHeader (kwRows E cfg st) }

/-- split a CSV row at its FIRST comma (how a reader pairs the two columns) -/
def splitRow : Str → Option (Str × Str)
  | [] => none
  | c :: cs => if c = ',' then some ([], cs) else (splitRow cs).map (fun p => (c :: p.1, p.2))

end IV.CleanState
