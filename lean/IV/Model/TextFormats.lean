/-
C15 — model of the shared text-format helpers.

  insights/parsers/__init__.py   get_active_lines (11-37), split_kv_pairs (83-157), calc_offset (205-276),
                                 parse_fixed_table incl. calc_column_indices (279-367),
                                 parse_delimited_table (370-456), keyword_search (459-605)
  insights/core/__init__.py      IniConfigFile.parse_content and its accessors (1620-1770), over the
                                 tree that insights/parsr/iniparser.py returns (apply_defaults: 50-63)

Strings are `List Char`; a Python `dict` is an insertion-ordered association list (`dictSet`);
exceptions are `Except Err`.  Import-free.
-/
namespace IV.TextFormats

abbrev Str := List Char

inductive Err where
  | valueError      -- ValueError (heading not found, empty separator, substring not found)
  | indexError      -- IndexError (no header line)
  | parseException  -- ParseException (empty_exception=True and an empty cell)
  | noSection       -- iniparser.NoSectionError
  | noOption        -- iniparser.NoOptionError
  | keyError        -- KeyError (IniConfigFile.set on an absent section)
  deriving DecidableEq, Repr

/-! ### Python `str` primitives -/

/-- `str.isspace` of one character: the code points CPython strips / splits on
    (the harness compares this table with the live interpreter over all code points) -/
def isSpace (c : Char) : Bool :=
  let n := c.toNat
  (9 ≤ n && n ≤ 13) || (28 ≤ n && n ≤ 32) || n == 0x85 || n == 0xa0 || n == 0x1680 ||
  (0x2000 ≤ n && n ≤ 0x200a) || n == 0x2028 || n == 0x2029 || n == 0x202f || n == 0x205f || n == 0x3000

def spaces (n : Nat) : Str := List.replicate n ' '

def lstrip (s : Str) : Str := s.dropWhile isSpace
def rstrip (s : Str) : Str := (s.reverse.dropWhile isSpace).reverse
/-- `s.strip()` -/
def strip (s : Str) : Str := lstrip (rstrip s)

/-- ASCII `str.lower` (the generators stay inside ASCII where lower-casing matters) -/
def lowerC (c : Char) : Char := if 'A' ≤ c ∧ c ≤ 'Z' then Char.ofNat (c.toNat + 32) else c
def lower (s : Str) : Str := s.map lowerC

/-- `s.startswith(p)` -/
def startsWith (p s : Str) : Bool := p.isPrefixOf s
/-- `s.endswith(p)` -/
def endsWith (p s : Str) : Bool := p.reverse.isPrefixOf s.reverse
/-- `sub in s` -/
def contains (sub : Str) : Str → Bool
  | [] => sub.isEmpty
  | c :: cs => sub.isPrefixOf (c :: cs) || contains sub cs

/-- `hay.find(needle)` (lowest index, `none` = -1) -/
def find (needle : Str) : Str → Option Nat
  | [] => if needle.isEmpty then some 0 else none
  | c :: cs => if needle.isPrefixOf (c :: cs) then some 0 else (find needle cs).map (· + 1)

/-- `hay.index(needle, start)` for `start ≥ 0`; `none` = ValueError -/
def findFrom (needle hay : Str) (start : Nat) : Option Nat :=
  if start > hay.length then none else (find needle (hay.drop start)).map (· + start)

/-- `s[a:b]` for non-negative `a`, `b`; `b = none` is `s[a:]` -/
def slice (s : Str) (a : Nat) : Option Nat → Str
  | none => s.drop a
  | some b => (s.drop a).take (b - a)

/-- first occurrence of a non-empty `sep`: `(before, after)`; `none` when absent -/
def splitFirst (sep : Str) : Str → Option (Str × Str)
  | [] => none
  | c :: cs =>
    if sep.isPrefixOf (c :: cs) then some ([], (c :: cs).drop sep.length)
    else (splitFirst sep cs).map (fun p => (c :: p.1, p.2))

/-- `s.split(sep, 1)[0]` for a non-empty `sep` -/
def before (sep s : Str) : Str :=
  match splitFirst sep s with
  | some p => p.1
  | none => s

def consHead (c : Char) : List Str → List Str
  | [] => [[c]]
  | p :: ps => (c :: p) :: ps

/-- the loop of `str.split(sep, maxsplit)` for non-empty `sep`: `skip` = characters of a taken
    separator still to drop, budget `none` = unlimited -/
def splitGo (sep : Str) : Nat → Option Nat → Str → List Str
  | _, _, [] => [[]]
  | skip + 1, b, _ :: cs => splitGo sep skip b cs
  | 0, b, c :: cs =>
    if b != some 0 && sep.isPrefixOf (c :: cs) then
      [] :: splitGo sep (sep.length - 1) (b.map (· - 1)) cs
    else consHead c (splitGo sep 0 b cs)

/-- `s.split(sep, maxsplit)`, non-empty `sep` -/
def splitSep (sep : Str) (max : Option Nat) (s : Str) : List Str := splitGo sep 0 max s

/-- the loop of `str.split(None, maxsplit)`: `cur` = the word being collected -/
def splitWsGo : Option Nat → Str → Str → List Str
  | _, cur, [] => if cur.isEmpty then [] else [cur]
  | b, cur, c :: cs =>
    if cur.isEmpty then
      if isSpace c then splitWsGo b [] cs
      else if b == some 0 then [c :: cs]
      else splitWsGo b [c] cs
    else
      if isSpace c then cur :: splitWsGo (b.map (· - 1)) [] cs
      else splitWsGo b (cur ++ [c]) cs

/-- `s.split(None, maxsplit)` -/
def splitWs (max : Option Nat) (s : Str) : List Str := splitWsGo max [] s

/-- `s.split(delim, maxsplit)` with `delim = None` meaning white space; `none` = ValueError (empty separator) -/
def pySplit (delim : Option Str) (max : Option Nat) (s : Str) : Option (List Str) :=
  match delim with
  | none => some (splitWs max s)
  | some d => if d.isEmpty then none else some (splitSep d max s)

def replaceGo (old new : Str) : Nat → Str → Str
  | _, [] => []
  | skip + 1, _ :: cs => replaceGo old new skip cs
  | 0, c :: cs =>
    if old.isPrefixOf (c :: cs) then new ++ replaceGo old new (old.length - 1) cs
    else c :: replaceGo old new 0 cs

/-- `s.replace(old, new)` -/
def replaceAll (old new s : Str) : Str :=
  if old.isEmpty then new ++ s.flatMap (fun c => c :: new) else replaceGo old new 0 s

/-! ### dictionaries -/

/-- `d[k] = v` on an insertion-ordered dict -/
def dictSet {α β : Type} [DecidableEq α] : List (α × β) → α → β → List (α × β)
  | [], k, v => [(k, v)]
  | (k', v') :: rest, k, v => if k' = k then (k, v) :: rest else (k', v') :: dictSet rest k v

def dictGet {α β : Type} [DecidableEq α] : List (α × β) → α → Option β
  | [], _ => none
  | (k', v') :: rest, k => if k' = k then some v' else dictGet rest k

/-- `dict(pairs)` / a sequence of assignments: first-occurrence order, last value wins -/
def fromPairs {α β : Type} [DecidableEq α] (ps : List (α × β)) : List (α × β) :=
  ps.foldl (fun d p => dictSet d p.1 p.2) []

/-- `d.update(e)` -/
def dictUpdate {α β : Type} [DecidableEq α] (d e : List (α × β)) : List (α × β) :=
  e.foldl (fun d p => dictSet d p.1 p.2) d

abbrev Dict := List (Str × Str)

/-! ### get_active_lines / split_kv_pairs -/

/-- `get_active_lines(lines, comment_char)` -/
def getActiveLines (lines : List Str) (cc : Str) : Except Err (List Str) :=
  if cc.isEmpty then (if lines.isEmpty then .ok [] else .error .valueError)
  else .ok ((lines.map (fun l => strip (before cc l))).filter (fun l => !l.isEmpty))

/-- one iteration of the loop of `split_kv_pairs` (non-empty `split_on`) -/
def kvStep (splitOn : Str) (usePartition : Bool) (d : Dict) (line : Str) : Dict :=
  match splitFirst splitOn line with
  | some (k, v) => dictSet d (strip k) (strip v)
  | none => if usePartition then dictSet d (strip line) [] else d

/-- `split_kv_pairs(lines, comment_char, filter_string, split_on, use_partition)`; the observable is
    `list(result.items())` (`ordered` only changes the dict class) -/
def splitKvPairs (lines : List Str) (cc : Option Str) (filter : Option Str) (splitOn : Str)
    (usePartition : Bool) : Except Err Dict := do
  let l1 ← match cc with
    | none => pure lines
    | some c => getActiveLines lines c
  let l2 := match filter with
    | none => l1
    | some f => l1.filter (fun l => contains f l)
  if splitOn.isEmpty then
    (if l2.isEmpty then pure [] else .error .valueError)
  else pure (l2.foldl (kvStep splitOn usePartition) [])

/-! ### calc_offset -/

def foundAny (tgt : List Str) (line : Str) : Bool := tgt.any (fun t => startsWith t line)

/-- the loop of `calc_offset` over already stripped targets; `none` = ValueError -/
def calcOffsetGo (tgt : List Str) (invert requireAll : Bool) : List Str → Option Nat
  | [] => none
  | l :: ls =>
    let line := strip l
    let fa := foundAny tgt line
    if !invert && fa then
      (if requireAll then
        (if tgt.all (fun t => contains t line) then some 0
         else (calcOffsetGo tgt invert requireAll ls).map (· + 1))
       else some 0)
    else if invert && !(line.isEmpty || fa) then some 0
    else (calcOffsetGo tgt invert requireAll ls).map (· + 1)

/-- `calc_offset(lines, target, invert_search, require_all)`; `target = []` models `None`/`[]` -/
def calcOffset (lines : List Str) (target : List Str) (invert requireAll : Bool) : Option Nat :=
  if target.isEmpty then some 0
  else calcOffsetGo (target.map strip) invert requireAll lines

/-! ### parse_fixed_table -/

/-- `calc_column_indices(line, headers)`: each header is searched from the END of the previous one -/
def calcColumnIndices (line : Str) : List Str → Nat → Option (List Nat)
  | [], _ => some []
  | h :: hs, start =>
    match findFrom h line start with
    | none => none
    | some i => (calcColumnIndices line hs (i + h.length)).map (i :: ·)

/-- the index rule of the code before fix 564ef64: the next header was searched from the previous
    index + 1 (kept to show what the repaired rule excludes) -/
def calcColumnIndicesOld (line : Str) : List Str → Nat → Option (List Nat)
  | [], _ => some []
  | h :: hs, start =>
    match findFrom h line start with
    | none => none
    | some i => (calcColumnIndicesOld line hs (i + 1)).map (i :: ·)

/-- `[(c, col_index[i + 1]) …]` over `col_index = idx + [None]` -/
def idxPairs : List Nat → List (Nat × Option Nat)
  | [] => []
  | [s] => [(s, none)]
  | s :: e :: rest => (s, some e) :: idxPairs (e :: rest)

def applySubst (subst : List (Str × Str)) (header : Str) : Str :=
  subst.foldl (fun h p => replaceAll p.1 p.2 h) header

/-- the cells of one data line, in column order, before they are put into the row dict -/
def cutRow (line : Str) (headers : List Str) (pairs : List (Nat × Option Nat)) : List (Str × Str) :=
  (headers.zip pairs).map (fun hp => (hp.1, strip (slice line hp.2.1 hp.2.2)))

def fixedRows (emptyException : Bool) (headers : List Str) (pairs : List (Nat × Option Nat)) :
    List Str → Except Err (List Dict)
  | [] => .ok []
  | line :: rest =>
    if (strip line).isEmpty then fixedRows emptyException headers pairs rest
    else
      let cells := cutRow line headers pairs
      if emptyException && cells.any (fun c => c.2.isEmpty) then .error .parseException
      else match fixedRows emptyException headers pairs rest with
        | .ok rs => .ok (fromPairs cells :: rs)
        | .error e => .error e

/-- `table_lines[a:b]` -/
def sliceLines (lines : List Str) (a b : Nat) : List Str := (lines.drop a).take (b - a)

/-- `parse_fixed_table(table_lines, heading_ignore, header_substitute, trailing_ignore, empty_exception)` -/
def parseFixedTable (lines : List Str) (headingIgnore : List Str) (subst : List (Str × Str))
    (trailingIgnore : List Str) (emptyException : Bool) : Except Err (List Dict) :=
  match calcOffset lines headingIgnore false false with
  | none => .error .valueError
  | some first =>
    let last := match calcOffset lines.reverse trailingIgnore true false with
      | some off => lines.length - off
      | none => lines.length
    match lines[first]? with
    | none => .error .indexError
    | some header0 =>
      let header := applySubst subst header0
      let headers := splitWs none (strip header)
      match calcColumnIndices header headers 0 with
      | none => .error .valueError
      | some idx => fixedRows emptyException headers (idxPairs idx) (sliceLines lines (first + 1) last)

/-! ### parse_delimited_table -/

inductive HeaderDelim where
  | same                      -- 'same as delimiter'
  | other (d : Option Str)

def delimRows (delim : Option Str) (max : Option Nat) (doStrip : Bool) (rawKey : Option Str)
    (headings : List Str) : List Str → Except Err (List Dict)
  | [] => .ok []
  | line :: rest =>
    let row := strip line
    if row.isEmpty then delimRows delim max doStrip rawKey headings rest
    else match pySplit delim max row with
      | none => .error .valueError
      | some parts =>
        let parts := if doStrip then parts.map strip else parts
        let o := fromPairs (headings.zip parts)
        let o := match rawKey with
          | some k => if k.isEmpty then o else dictSet o k line
          | none => o
        match delimRows delim max doStrip rawKey headings rest with
        | .ok rs => .ok (o :: rs)
        | .error e => .error e

/-- `parse_delimited_table(...)`; `max = none` is `max_splits < 0` -/
def parseDelimitedTable (lines : List Str) (delim : Option Str) (max : Option Nat) (doStrip : Bool)
    (headerDelim : HeaderDelim) (headingIgnore : List Str) (subst : List (Str × Str))
    (trailingIgnore : List Str) (rawKey : Option Str) : Except Err (List Dict) :=
  if lines.isEmpty then .ok [] else
  match calcOffset lines headingIgnore false false with
  | none => .error .valueError
  | some first =>
    match calcOffset (lines.drop (first + 1)).reverse trailingIgnore true false with
    | none => .ok []
    | some off =>
      let last := lines.length - off
      let hd := match headerDelim with
        | .same => delim
        | .other d => d
      match lines[first]? with
      | none => .error .indexError
      | some header0 =>
        let header := applySubst subst header0
        match pySplit hd none header with
        | none => .error .valueError
        | some hs =>
          let headings := if doStrip then hs.map strip else hs
          delimRows delim max doStrip rawKey headings (sliceLines lines (first + 1) last)

/-! ### keyword_search -/

/-- a row: field name ↦ value (`none` = Python `None`) -/
abbrev Row := List (Str × Option Str)

/-- a matcher of the table inside `keyword_search`: data value, sought value (a string) -/
abbrev Matcher := Option Str → Str → Bool

/-- `key.replace(' ', '_').replace('-', '_')` -/
def txKey (k : Str) : Str := replaceAll ['-'] ['_'] (replaceAll [' '] ['_'] k)

/-- first-occurrence de-duplication (the key *set*, in a fixed order) -/
def dedup : List Str → List Str
  | [] => []
  | k :: ks => k :: (dedup ks).filter (· ≠ k)

/-- the documented keyword of a heading: only space and dash are written as '_', every other
    character stands for itself -/
def kwOf (k : Str) : Str := k.map (fun c => if c = ' ' ∨ c = '-' then '_' else c)

/-- the key set the transformation table is built from (first row, or all rows with
    `row_keys_change`), in first-occurrence order -/
def keySet (rows : List Row) (rowKeysChange : Bool) : List Str :=
  if rowKeysChange then dedup (rows.flatMap (fun r => r.map (·.1)))
  else match rows with
    | [] => []
    | r :: _ => dedup (r.map (·.1))

/-- `dict((transform(key), key) for key in keys)`: a later key wins a clash.  With `keys` = the hash
    order of the key set this was the whole table before fix 1e9b608 (order dependent) -/
def txKeysOf (keys : List Str) : Dict := fromPairs (keys.map (fun k => (txKey k, k)))

/-- Python's order on `str`: lexicographic on code points -/
def strLe : Str → Str → Bool
  | [], _ => true
  | _ :: _, [] => false
  | a :: as, b :: bs => if a.toNat < b.toNat then true else if b.toNat < a.toNat then false else strLe as bs

def insertSorted (k : Str) : List Str → List Str
  | [] => [k]
  | x :: xs => if strLe k x then k :: x :: xs else x :: insertSorted k xs

/-- `sorted(all_keys)` (the elements of a set are distinct, so stability plays no role) -/
def sortKeys : List Str → List Str
  | [] => []
  | k :: ks => insertSorted k (sortKeys ks)

/-- one assignment of `txkeys.update((key, key) for key in all_keys if key in txkeys)` -/
def updSelf (d : Dict) (k : Str) : Dict := if (dictGet d k).isSome then dictSet d k k else d

/-- `txkeys` as built since fix 1e9b608, `keys` = the key set in ANY iteration order: the table over
    `sorted(all_keys)`, then every heading that is itself a keyword of the table names itself -/
def txKeysFix (keys : List Str) : Dict := keys.foldl updSelf (txKeysOf (sortKeys keys))

/-- `txkeys` of the rows -/
def txKeys (rows : List Row) (rowKeysChange : Bool) : Dict := txKeysFix (keySet rows rowKeysChange)

/-- split a search keyword into data key and matcher name -/
def splitKeyword (names : List Str) (kw : Str) : Str × Str :=
  match splitFirst ['_', '_'] kw with
  | none => (kw, "equals".toList)
  | some (dk, m) => if names.contains m then (dk, m) else (kw, "equals".toList)

/-- `key_match(row, data_key, matcher, fn, value)` -/
def keyMatch (table : List (Str × Matcher)) (row : Row) (dataKey matcher value : Str) : Bool :=
  match dictGet row dataKey with
  | none => false
  | some cell =>
    if matcher = "equals".toList then cell == some value
    else match dictGet table matcher with
      | some fn => fn cell value
      | none => false

/-- the compiled search terms `(data key in the rows, matcher name, value)`; `none` = some keyword's
    data key is not a (transformed) key of the rows -/
def searchTerms (names : List Str) (tx : Dict) : List (Str × Str) → Option (List (Str × Str × Str))
  | [] => some []
  | (kw, v) :: rest =>
    let (dk, m) := splitKeyword names kw
    match dictGet tx dk with
    | none => none
    | some key => (searchTerms names tx rest).map ((key, m, v) :: ·)

/-- `keyword_search` once the transformation table `tx` is known (computed, or taken from the cache) -/
def keywordSearchTx (table : List (Str × Matcher)) (tx : Dict) (rows : List Row)
    (kwargs : List (Str × Str)) : List Row :=
  if kwargs.isEmpty || rows.isEmpty then [] else
  match searchTerms (table.map (·.1)) tx kwargs with
  | none => []
  | some terms => rows.filter (fun row => terms.all (fun t => keyMatch table row t.1 t.2.1 t.2.2))

/-- `keyword_search(rows, row_keys_change=…, **kwargs)` for string search values, `parent=None`,
    key set in first-occurrence order -/
def keywordSearch (table : List (Str × Matcher)) (rows : List Row) (rowKeysChange : Bool)
    (kwargs : List (Str × Str)) : List Row :=
  keywordSearchTx table (txKeys rows rowKeysChange) rows kwargs

/-- one call `keyword_search(rows, parent=p, **kwargs)`: `cache` = `p._transform_cache` when the
    attribute exists, `keys` = the key set of this call; returns the rows found and the cache
    afterwards (the early returns for no keywords / no rows do not touch it) -/
def keywordSearchCached (table : List (Str × Matcher)) (cache : Option Dict) (keys : List Str)
    (rows : List Row) (kwargs : List (Str × Str)) : List Row × Option Dict :=
  if kwargs.isEmpty || rows.isEmpty then ([], cache) else
  let tx := match cache with
    | some tx => tx
    | none => txKeysFix keys
  (keywordSearchTx table tx rows kwargs, some tx)

/-- successive calls on the same parent -/
def keywordSearchSeq (table : List (Str × Matcher)) (keys : List Str) (rows : List Row) :
    Option Dict → List (List (Str × Str)) → List (List Row)
  | _, [] => []
  | cache, kw :: rest =>
    let r := keywordSearchCached table cache keys rows kw
    r.1 :: keywordSearchSeq table keys rows r.2 rest

/-! ### IniConfigFile: the dictionary view over the parsed tree -/

structure IniOpt where
  name : Str
  value : Option Str          -- `none`: a key with no separator
  deriving DecidableEq, Repr

structure IniSec where
  name : Str
  opts : List IniOpt
  deriving DecidableEq, Repr

abbrev IniTree := List IniSec

def DEFAULT : Str := "DEFAULT".toList

/-- `iniparser.parse_doc … apply_defaults(cfg, include_defaults=True)`: every option of the DEFAULT
    sections is appended to each other section that has no child of exactly that name -/
def applyDefaults (t : IniTree) : IniTree :=
  if !t.any (fun s => s.name = DEFAULT) then t else
  let defaults := (t.filter (fun s => s.name = DEFAULT)).flatMap (·.opts)
  t.map (fun s =>
    if s.name = DEFAULT then s
    else ⟨s.name, defaults.foldl
            (fun os d => if os.any (fun o => o.name = d.name) then os else os ++ [d]) s.opts⟩)

abbrev IniDict := List (Str × List (Str × Option Str))

/-- `section_dict` of one parsed section (loop body of `parse_content`) -/
def sectionDict (allowNoValue : Bool) (s : IniSec) : List (Str × Option Str) :=
  s.opts.foldl (fun d opt =>
    let group := s.opts.filter (fun o => o.name = opt.name)
    let options : List (Option Str) :=
      group.filterMap (fun o => match o.value with
        | some v => some (some v)
        | none => if allowNoValue then some none else none)
    match options.getLast? with
    | none => d
    | some v => dictSet d (lower opt.name) v) []

/-- `IniConfigFile.parse_content`: `self._dict` -/
def buildDict (allowNoValue : Bool) (t : IniTree) : IniDict :=
  t.foldl (fun d s =>
    let sd := sectionDict allowNoValue s
    match dictGet d s.name with
    | some old => dictSet d s.name (dictUpdate old sd)
    | none => dictSet d s.name sd) []

/-- `self._dict` for the tree the grammar returned -/
def iniView (allowNoValue : Bool) (t : IniTree) : IniDict := buildDict allowNoValue (applyDefaults t)

def iniSections (d : IniDict) : List Str := (d.map (·.1)).filter (· ≠ DEFAULT)

def iniHasSection (d : IniDict) (sec : Str) : Bool := (dictGet d (strip sec)).isSome

def iniItems (d : IniDict) (sec : Str) : Except Err (List (Str × Option Str)) :=
  match dictGet d (strip sec) with
  | none => .error .noSection
  | some h => .ok h

def iniGet (d : IniDict) (sec opt : Str) : Except Err (Option Str) :=
  match dictGet d (strip sec) with
  | none => .error .noSection
  | some h => match dictGet h (lower opt) with
    | none => .error .noOption
    | some v => .ok v

def iniHasOption (d : IniDict) (sec opt : Str) : Bool :=
  match dictGet d (strip sec) with
  | none => false
  | some h => (dictGet h (lower opt)).isSome

def iniDefaults (d : IniDict) : List (Str × Option Str) := (dictGet d DEFAULT).getD []

/-- `getboolean`: `.ok b`, or ValueError for a value outside the table -/
def iniGetBoolean (d : IniDict) (sec opt : Str) : Except Err Bool :=
  match iniGet d sec opt with
  | .error e => .error e
  | .ok none => .error .valueError      -- AttributeError in Python; only with allow_no_value
  | .ok (some v) =>
    let l := lower v
    if l = "1".toList ∨ l = "yes".toList ∨ l = "true".toList ∨ l = "on".toList then .ok true
    else if l = "0".toList ∨ l = "no".toList ∨ l = "false".toList ∨ l = "off".toList then .ok false
    else .error .valueError

/-! ### a line-level reading of the INI documents the renderer produces
(the real grammar, insights/parsr/iniparser.py, is an instance of C19's combinators and is tied to
this reading by correspondence on rendered documents; it is not proved here) -/

/-- the character sets of the grammar (`header_chars`, `key_chars`, `sep_chars`, `value_chars` of
    `iniparser.parse_doc`, and the one-character comment starters); the live sets are regenerated into
    `IV.Gen.IniChars.alphabet` on every run -/
structure IniAlphabet where
  header : List Char
  key : List Char
  sep : List Char
  value : List Char
  comment : List Char
  deriving DecidableEq, Repr

/-- `string.whitespace` (what the grammar's `WS` skips) -/
def isIniWs (c : Char) : Bool :=
  c = ' ' || c = '\t' || c = '\n' || c = '\r' || c = Char.ofNat 11 || c = Char.ofNat 12

def lstripWs (s : Str) : Str := s.dropWhile isIniWs
/-- column of the first character that is not white space -/
def leadWs (s : Str) : Nat := (s.takeWhile isIniWs).length

/-- `content.encode('ascii', 'replace').decode()` -/
def asciiReplace (s : Str) : Str := s.map (fun c => if c.toNat < 128 then c else '?')

/-- `s.rstrip(" \\")` -/
def rstripBS (s : Str) : Str := (s.reverse.dropWhile (fun c => c = ' ' || c = '\\')).reverse

/-- one physical line of a value as `HangingString` keeps it: inline `#` comment removed, then
    `rstrip(" \\")` -/
def iniValuePiece (raw : Str) : Str := rstripBS (before ['#'] raw)

inductive IniLine where
  | blank
  | comment
  | header (name : Str)
  /-- `hasPiece`: text follows the separator on this line -/
  | opt (o : IniOpt) (hasPiece : Bool)
  /-- the grammar rejects the line -/
  | bad
  deriving DecidableEq, Repr

/-- one line that is not a continuation (white space before it already skipped by the grammar's `WS`) -/
def classifyIniLine (A : IniAlphabet) (line : Str) : IniLine :=
  match lstripWs line with
  | [] => .blank
  | c :: rest =>
    if A.comment.contains c then .comment
    else if c = '[' then
      -- LeftEnd >> String(header_chars) << RightEnd; only a comment may follow on the line
      let r := rest.dropWhile (fun c => isIniWs c && c != '\n' && c != '\r')
      let body := r.takeWhile (fun c => A.header.contains c)
      match r.dropWhile (fun c => A.header.contains c) with
      | ']' :: tail =>
        if body.isEmpty then .bad
        else match lstripWs tail with
          | [] => .header (strip body)
          | t :: _ => if A.comment.contains t then .header (strip body) else .bad
      | _ => .bad
    else
      -- Key = WS >> String(key_chars) << WS, then Opt(Sep >> Value)
      let l := c :: rest
      let key := l.takeWhile (fun c => A.key.contains c)
      if key.isEmpty then .bad
      else match lstripWs (l.dropWhile (fun c => A.key.contains c)) with
        | [] => .opt ⟨strip key, none⟩ false
        | s :: v =>
          if A.sep.contains s && v.all (fun c => A.value.contains c) then
            (match lstripWs v with
             | [] => .opt ⟨strip key, some []⟩ false
             | w => .opt ⟨strip key, some (iniValuePiece w)⟩ true)
          else .bad

/-- append a continuation piece to the value of the last option of `s` (`" ".join(results)`) -/
def addPiece (s : IniSec) (hasPiece : Bool) (piece : Str) : IniSec :=
  match s.opts.reverse with
  | [] => s
  | o :: before =>
    let v := match o.value with
      | some old => if hasPiece then old ++ ' ' :: piece else piece
      | none => piece
    ⟨s.name, before.reverse ++ [⟨o.name, some v⟩]⟩

/-- fold the lines left to right: `cur` = the section being filled, `hang` = `(column of the key,
    a piece was already collected)` when the last line parsed was an option with a separator, whose value a
    more deeply indented line continues (`HangingString`); `none` = the grammar rejects the text -/
def iniLinesGo (A : IniAlphabet) : List Str → Option IniSec → IniTree → Option (Nat × Bool) → Option IniTree
  | [], cur, acc, _ => some (match cur with | some s => acc ++ [s] | none => acc)
  | line :: rest, cur, acc, hang =>
    if (lstripWs line).isEmpty then iniLinesGo A rest cur acc hang else
    let continues := match hang, cur with
      | some (k, _), some _ => decide (leadWs line > k) && (lstripWs line).all (fun c => A.value.contains c)
      | _, _ => false
    if continues then
      match hang, cur with
      | some (k, hp), some s => iniLinesGo A rest (some (addPiece s hp (iniValuePiece (lstripWs line)))) acc (some (k, true))
      | _, _ => none
    else match classifyIniLine A line with
      | .blank => iniLinesGo A rest cur acc hang
      | .comment => iniLinesGo A rest cur acc none
      | .header n => iniLinesGo A rest (some ⟨n, []⟩) (match cur with | some s => acc ++ [s] | none => acc) none
      | .opt o hp => (match cur with
        | none => none
        | some s => iniLinesGo A rest (some ⟨s.name, s.opts ++ [o]⟩) acc
            (if o.value.isSome then some (leadWs line, hp) else none))
      | .bad => none

/-- the tree the grammar returns for a text given as its lines (non-ASCII replaced by `?` first) -/
def parseIni (A : IniAlphabet) (lines : List Str) : Option IniTree :=
  iniLinesGo A (lines.map asciiReplace) none [] none

/-! ### renderers (the harness has the same functions in Python) -/

/-- one item of a key/value document -/
inductive KvItem where
  | pair (lead : Nat) (k : Str) (sp1 sp2 : Nat) (v : Str) (trail : Nat) (comment : Option Str)
  | comment (indent : Nat) (text : Str)
  | blank (n : Nat)

def renderKvItem (cc sep : Char) : KvItem → Str
  | .pair lead k sp1 sp2 v trail cm =>
    spaces lead ++ k ++ spaces sp1 ++ sep :: spaces sp2 ++ v ++ spaces trail ++
      (match cm with | none => [] | some t => cc :: t)
  | .comment indent text => spaces indent ++ cc :: text
  | .blank n => spaces n

def renderKv (cc sep : Char) (doc : List KvItem) : List Str := doc.map (renderKvItem cc sep)

def kvPairsOf : List KvItem → List (Str × Str)
  | [] => []
  | .pair _ k _ _ v _ _ :: rest => (k, v) :: kvPairsOf rest
  | _ :: rest => kvPairsOf rest

/-- a column of a fixed-width table: header text and column width (header + gap) -/
structure Col where
  name : Str
  width : Nat

def padTo (w : Nat) (s : Str) : Str := s ++ spaces (w - s.length)

/-- a fixed-width table: `cols` are all columns but the last; the last column is open-ended -/
structure FixedTable where
  junk : List Str            -- lines before the heading
  lead : Nat                 -- spaces before the first header
  cols : List Col
  lastName : Str
  lastPad : Nat              -- spaces after the last header
  rows : List (List Str × Str × Nat)   -- cells of `cols`, last cell, trailing spaces
  footer : List Str          -- lines after the data

def FixedTable.names (t : FixedTable) : List Str := t.cols.map (·.name) ++ [t.lastName]

def renderCells : List Col → List Str → Str
  | c :: cs, x :: xs => padTo c.width x ++ renderCells cs xs
  | _, _ => []

def FixedTable.headerLine (t : FixedTable) : Str :=
  spaces t.lead ++ renderCells t.cols (t.cols.map (·.name)) ++ t.lastName ++ spaces t.lastPad

def FixedTable.rowLine (t : FixedTable) (r : List Str × Str × Nat) : Str :=
  spaces t.lead ++ renderCells t.cols r.1 ++ r.2.1 ++ spaces r.2.2

def renderFixed (t : FixedTable) : List Str :=
  t.junk ++ t.headerLine :: (t.rows.map t.rowLine ++ t.footer)

/-- the cells of a row in column order -/
def rowCells (r : List Str × Str × Nat) : List Str := r.1 ++ [r.2.1]

/-- `d.join(parts)` for a one-character delimiter -/
def joinWith (d : Char) : List Str → Str
  | [] => []
  | [x] => x
  | x :: y :: rest => x ++ d :: joinWith d (y :: rest)

/-- a delimited table: header names, rows of cells, all joined with the delimiter -/
def renderDelimited (d : Char) (names : List Str) (rows : List (List Str)) : List Str :=
  joinWith d names :: rows.map (joinWith d)

/-- `d.join(parts)` for a delimiter string of any length -/
def joinStr (d : Str) : List Str → Str
  | [] => []
  | [x] => x
  | x :: y :: rest => x ++ d ++ joinStr d (y :: rest)

/-- a delimited table with the text around it: lines before the heading, header names, rows of cells
    (cells as they are written, padding included), lines after the data -/
structure DelimTable where
  junk : List Str
  names : List Str
  rows : List (List Str)
  footer : List Str

/-- header and every row joined with the delimiter string `d` -/
def renderDelimTable (d : Str) (t : DelimTable) : List Str :=
  t.junk ++ joinStr d t.names :: (t.rows.map (joinStr d) ++ t.footer)

/-- a white-space separated line: leading white space, the cells `gap` apart, trailing white space -/
structure WsLine where
  lead : Str
  gap : Str
  cells : List Str
  trail : Str

def WsLine.render (l : WsLine) : Str := l.lead ++ joinStr l.gap l.cells ++ l.trail

/-- a white-space delimited table with the text around it -/
structure WsTable where
  junk : List Str
  head : WsLine
  rows : List WsLine
  footer : List Str

def renderWsTable (t : WsTable) : List Str :=
  t.junk ++ t.head.render :: (t.rows.map (·.render) ++ t.footer)

/-- an INI document item -/
inductive IniItem where
  | sec (padL : Nat) (name : Str) (padR : Nat)
  | opt (name : Str) (sp1 : Nat) (sep : Char) (sp2 : Nat) (value : Str)
  | comment (semicolon : Bool) (text : Str) (indent : Nat)
  | blank

def renderIniItem : IniItem → Str
  | .sec l n r => '[' :: spaces l ++ n ++ spaces r ++ [']']
  | .opt n s1 sep s2 v => n ++ spaces s1 ++ sep :: spaces s2 ++ v
  | .comment semi t n => spaces n ++ (if semi then ';' else '#') :: t
  | .blank => []

def renderIni (doc : List IniItem) : List Str := doc.map renderIniItem

/-- the tree a document describes: sections in order with their options in order -/
def iniTreeGo : List IniItem → Option IniSec → IniTree → Option IniTree
  | [], cur, acc => some (match cur with | some s => acc ++ [s] | none => acc)
  | .sec _ n _ :: rest, cur, acc =>
    iniTreeGo rest (some ⟨n, []⟩) (match cur with | some s => acc ++ [s] | none => acc)
  | .opt n _ _ _ v :: rest, cur, acc =>
    (match cur with
     | none => none
     | some s => iniTreeGo rest (some ⟨s.name, s.opts ++ [⟨n, some v⟩]⟩) acc)
  | _ :: rest, cur, acc => iniTreeGo rest cur acc

def iniTreeOf (doc : List IniItem) : Option IniTree := iniTreeGo doc none []

end IV.TextFormats
