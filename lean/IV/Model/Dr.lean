/-
Model of the dependency-resolution engine: insights/core/dr.py (ComponentType.__init__,
get_missing_dependencies, process, invoke, Broker, run_components, run_order, get_subgraphs),
insights/contrib/toposort.py and the component types of insights/core/plugins.py
(PluginType, datasource, parser incl. multi-output, rule).  Shared by C01–C04.

Components are numbers.  A `World` is "the program": declarations (DELEGATES), ENABLED, IGNORE,
the registry points of each component, and deterministic component bodies.  A `Broker` holds
instances, missing-requirement reports and the exception log (+ ghost fields: the components
whose `process` was called, in order, and the observer firings).
-/
namespace IV.Dr

abbrev Comp := Nat

/-- what a component can hand to its dependents -/
inductive Val where
  | none                                  -- Python None (also what `broker.get` gives for an absent key)
  | atom (n : Nat)                        -- any ordinary value
  | multi (xs : List Nat)                 -- a list (multi-output datasource / parser result)
  | resp (n : Nat)                        -- a rule Response
  | skipResp (mr : List Comp) (ma : List (List Comp))   -- rule's _make_skip(missing)
  | noneResp                              -- rule's make_none()
deriving DecidableEq, Repr

/-- exceptions a body can raise / that get recorded -/
inductive Exc where
  | skip            -- SkipComponent
  | content         -- ContentException (a subclass of SkipComponent)
  | calledProc      -- CalledProcessError
  | timeout         -- TimeoutException
  | blacklisted     -- BlacklistedSpec
  | crash (e : Nat) -- any other Exception
  | badReturn       -- "rules must return Response objects."
  | badDecl         -- parser without a required dependency (IndexError on requires[0])
deriving DecidableEq, Repr

inductive Outcome where
  | value (v : Val)
  | fault (e : Exc)
deriving DecidableEq, Repr

/-- result of parsing ONE element of a multi-output spec -/
inductive ElemOutcome where
  | value (n : Nat)
  | noResult                 -- the parser returned None for this element
  | fault (e : Exc)
deriving DecidableEq, Repr

inductive Kind where
  | plain                     -- bare ComponentType (ComponentType.invoke)
  | plugin                    -- PluginType with the default invoke: component, combiner, condition, incident, fact
  | datasource
  | parser (continueOnError : Bool)
  | rule
deriving DecidableEq, Repr

/-- a decorator argument: a required component or an at-least-one list -/
inductive Item where
  | one (c : Comp)
  | group (cs : List Comp)
deriving DecidableEq, Repr

/-- what `ComponentType.__init__` receives: `list(cls.requires) + deps` and `cls.optional + optional` -/
structure Decl where
  kind : Kind
  items : List Item
  optional : List Comp
deriving DecidableEq, Repr

/-- `self.requires` -/
def Decl.requires (d : Decl) : List Comp :=
  d.items.filterMap (fun | .one c => some c | .group _ => none)
/-- `self.at_least_one` -/
def Decl.atLeastOne (d : Decl) : List (List Comp) :=
  d.items.filterMap (fun | .one _ => none | .group cs => some cs)
/-- `self.deps`: required ones and group members in the order written, then the optional ones -/
def Decl.deps (d : Decl) : List Comp :=
  d.items.flatMap (fun | .one c => [c] | .group cs => cs) ++ d.optional

structure World where
  decl : Comp → Option Decl                  -- DELEGATES
  enabled : Comp → Bool                      -- ENABLED
  ignore : Comp → List Comp                  -- IGNORE
  regPoints : Comp → List Comp               -- get_registry_points
  body : Comp → List (Option Val) → Outcome  -- the component called on its dependencies' entries, in `deps` order:
                                             -- `none` = absent, `some .none` = present with value None (a default-invoke
                                             -- body cannot tell these apart — it receives `broker.get(d)` — a datasource
                                             -- body, which receives the broker, can)
  elemBody : Comp → Nat → ElemOutcome        -- a parser called on one element of a list

def World.deps (w : World) (c : Comp) : List Comp :=
  match w.decl c with
  | some d => d.deps
  | none => []

/-- everything `process` may look at in the broker -/
def World.reads (w : World) (c : Comp) : List Comp := w.ignore c ++ w.deps c

abbrev Inst := Comp → Option Val

/-- one entry of `broker.exceptions`: recorded against `target`; `src` (ghost) is the component whose
processing recorded it.  Every entry is recorded together with a traceback (the only call of
`add_exception` without one is for MissingRequirements, which goes to `missing_requirements`). -/
structure ExcEntry where
  target : Comp
  exc : Exc
  src : Comp
deriving DecidableEq, Repr

structure Missing where
  required : List Comp
  atLeastOne : List (List Comp)
deriving DecidableEq, Repr

structure Broker where
  inst : Inst
  missing : Comp → Option Missing
  excLog : List ExcEntry
  attempts : List Comp        -- ghost: components whose `process` was called, in order
  fired : List Comp           -- ghost: `fire_observers` calls, in order

/-- what `DELEGATES[c].process(broker)` amounts to -/
inductive Result where
  | stored (v : Val) (excs : List (Comp × Exc))      -- `broker[c] = v`; excs were recorded on the way
  | missingReq (m : Missing)                          -- MissingRequirements reached run_components
  | skipped (e : Exc) (excs : List (Comp × Exc))      -- a SkipComponent instance `e` reached run_components
  | raised (e : Exc) (excs : List (Comp × Exc))       -- any other exception reached run_components
  | blacklisted (excs : List (Comp × Exc))
deriving DecidableEq, Repr

def present (i : Inst) (c : Comp) : Bool := (i c).isSome

/-- `broker.get(c)` -/
def getVal (i : Inst) (c : Comp) : Val := (i c).getD .none

/-- `get_missing_dependencies` -/
def missingDeps (d : Decl) (i : Inst) : Option Missing :=
  let mr := d.requires.filter (fun r => !present i r)
  let ma := d.atLeastOne.filter (fun g => g.all (fun m => !present i m))
  if mr.isEmpty && ma.isEmpty then none else some ⟨mr, ma⟩

/-- how an exception raised by the body of a default-invoke PluginType surfaces -/
def pluginFault (c : Comp) (e : Exc) : Result :=
  match e with
  | .content => .skipped .skip [(c, .content)]
  | .calledProc => .skipped .skip [(c, .calledProc)]
  | .skip => .skipped .skip []
  | .blacklisted => .blacklisted []
  | e => .raised e []

/-- state of the per-element loop of `parser.invoke` -/
structure ElemState where
  results : List Nat
  excs : List (Comp × Exc)
  failed : Bool              -- `exception = True` (loop was left by `break`)

def elemStep (w : World) (c : Comp) (coe storeSkips : Bool) (s : ElemState) (x : Nat) : ElemState :=
  if s.failed then s else
  match w.elemBody c x with
  | .value n => { s with results := s.results ++ [n] }
  | .noResult => s
  | .fault .skip => if storeSkips then { s with excs := s.excs ++ [(c, .skip)] } else s
  | .fault e => { s with excs := s.excs ++ [(c, e)], failed := !coe }

/-- `ComponentType.invoke` and its overrides, by kind; `args` are the broker entries of `deps`, in order -/
def invoke (w : World) (storeSkips : Bool) (c : Comp) (d : Decl) (i : Inst) : Result :=
  let args := d.deps.map i
  match d.kind with
  | .plain =>
    match w.body c args with
    | .value v => .stored v []
    | .fault .skip => .skipped .skip []
    | .fault .content => .skipped .content []          -- ContentException is a SkipComponent
    | .fault .blacklisted => .blacklisted []
    | .fault e => .raised e []
  | .plugin =>
    match w.body c args with
    | .value v => .stored v []
    | .fault e => pluginFault c e
  | .rule =>
    match w.body c args with
    | .value .none => .stored .noneResp []
    | .value (.resp n) => .stored (.resp n) []
    | .value (.skipResp a b) => .stored (.skipResp a b) []
    | .value .noneResp => .stored .noneResp []
    | .value _ => .raised .badReturn []
    | .fault e => pluginFault c e
  | .datasource =>
    match w.body c args with
    | .value v => .stored v []
    | .fault .content => .skipped .skip ((w.regPoints c).map (·, .content))
    | .fault .calledProc => .skipped .skip ((w.regPoints c).map (·, .calledProc))
    | .fault .timeout => .skipped .skip ((w.regPoints c).map (·, .timeout))
    | .fault .skip => .skipped .skip []
    | .fault .blacklisted => .blacklisted []
    | .fault e => .raised e []
  | .parser coe =>
    match d.requires.head? with
    | none => .raised .badDecl []
    | some r =>
      match getVal i r with
      | .multi xs =>
        let s := xs.foldl (elemStep w c coe storeSkips) ⟨[], [], false⟩
        if s.failed then .skipped .skip s.excs
        else if s.results.isEmpty then .skipped .skip s.excs
        else .stored (.multi s.results) s.excs
      | v =>
        match w.body c [some v] with
        | .value r => .stored r []
        | .fault .content => .skipped .skip [(c, .content)]
        | .fault .calledProc => .skipped .skip [(c, .calledProc)]
        | .fault .skip => .skipped .skip []
        | .fault .blacklisted => .blacklisted []
        | .fault e => .raised e []

/-- `ComponentType.process` / `rule.process` -/
def process (w : World) (storeSkips : Bool) (c : Comp) (d : Decl) (i : Inst) : Result :=
  if (w.ignore c).any (present i) then .skipped .skip []
  else
    match missingDeps d i with
    | some m =>
      (match d.kind with
       | .rule => .stored (.skipResp m.required m.atLeastOne) []
       | _ => .missingReq m)
    | none => invoke w storeSkips c d i

def upd {α : Type} (f : Comp → α) (c : Comp) (v : α) : Comp → α := fun x => if x = c then v else f x

def tag (src : Comp) (es : List (Comp × Exc)) : List ExcEntry := es.map (fun te => ⟨te.1, te.2, src⟩)

/-- the `except` ladder of run_components applied to a result -/
def applyResult (w : World) (storeSkips : Bool) (b : Broker) (c : Comp) (r : Result) : Broker :=
  match r with
  | .stored v excs => { b with inst := upd b.inst c (some v), excLog := b.excLog ++ tag c excs }
  | .missingReq m => { b with missing := upd b.missing c (some m) }
  | .skipped e excs =>
    { b with excLog := b.excLog ++ tag c (excs ++ (if storeSkips then [(c, e)] else [])) }
  | .raised e excs =>
    { b with excLog := b.excLog ++ tag c (excs ++ [(c, e)] ++ (w.regPoints c).map (·, e)) }
  | .blacklisted excs => { b with excLog := b.excLog ++ tag c (excs ++ [(c, .blacklisted)]) }

/-- `component not in broker and component in components and component in DELEGATES and is_enabled(component)` -/
def guard (w : World) (inGraph : Comp → Bool) (i : Inst) (c : Comp) : Bool :=
  !present i c && inGraph c && (w.decl c).isSome && w.enabled c

/-- one iteration of the `for` loop of run_components -/
def step (w : World) (inGraph : Comp → Bool) (storeSkips : Bool) (b : Broker) (c : Comp) : Broker :=
  let b1 :=
    if guard w inGraph b.inst c then
      match w.decl c with
      | some d =>
        let b0 := { b with attempts := b.attempts ++ [c] }
        applyResult w storeSkips b0 c (process w storeSkips c d b.inst)
      | none => b
    else b
  { b1 with fired := b1.fired ++ [c] }            -- `finally: broker.fire_observers(component)`

def runComponents (w : World) (inGraph : Comp → Bool) (storeSkips : Bool) (order : List Comp) (b : Broker) : Broker :=
  order.foldl (step w inGraph storeSkips) b

def Broker.seeded (seed : Inst) : Broker := ⟨seed, fun _ => none, [], [], []⟩

/-! ### toposort (insights/contrib/toposort.py) -/

abbrev Graph := List (Comp × List Comp)      -- a dict: keys are distinct

def Graph.keys (g : Graph) : List Comp := g.map (·.1)

def ready (g : Graph) : List Comp := (g.filter (fun kv => kv.2.isEmpty)).map (·.1)

def prune (g : Graph) (r : List Comp) : Graph :=
  (g.filter (fun kv => !r.contains kv.1)).map (fun kv => (kv.1, kv.2.filter (fun d => !r.contains d)))

/-- the `while True` loop; `pick` is the iteration order of each emitted set (`sort=False`) -/
def levels (pick : List Comp → List Comp) : Nat → Graph → Option (List (List Comp))
  | 0, g => if g.isEmpty then some [] else none
  | f + 1, g =>
    if g.isEmpty then some []
    else
      let r := ready g
      if r.isEmpty then none          -- cyclic remainder: ValueError
      else (levels pick f (prune g r)).map (pick r :: ·)

def dedup : List Comp → List Comp
  | [] => []
  | x :: xs => if xs.contains x then dedup xs else x :: dedup xs

/-- discard self-dependencies, add dependency-only items with empty sets -/
def prepare (g : Graph) : Graph :=
  let g1 : Graph := g.map (fun kv => (kv.1, kv.2.filter (fun d => d != kv.1)))
  let extra := dedup ((g1.flatMap (·.2)).filter (fun d => !g1.keys.contains d))
  g1 ++ extra.map (·, [])

/-- `toposort_flatten(graph, sort=False)`; `none` = ValueError (cycle) -/
def toposort (pick : List Comp → List Comp) (g : Graph) : Option (List Comp) :=
  let g' := prepare g
  (levels pick g'.length g').map List.flatten

/-- `dr.run(graph, broker)` for a dict graph (without the SerializedArchiveContext pruning) -/
def run (w : World) (pick : List Comp → List Comp) (storeSkips : Bool) (g : Graph) (seed : Inst) : Option Broker :=
  (toposort pick g).map (fun o => runComponents w (fun c => g.keys.contains c) storeSkips o (Broker.seeded seed))

/-! ### the loaded-archive branch of `dr.run` (dr.py:1122-1130)

```
if broker.get(SerializedArchiveContext) is not None:
    for comp in list(components):
        if comp in broker:
            for dep in components[comp]:
                components.pop(dep, None)
```
The keys are visited in the dict order they had when the loop started; a key that has a value has
its dependencies popped; looking up a key that an earlier step popped is a `KeyError` (`none`). -/

def archivePruneStep (seed : Inst) (g : Option Graph) (c : Comp) : Option Graph :=
  g.bind fun g =>
    if present seed c then
      match g.find? (fun kv => kv.1 == c) with
      | some kv => some (g.filter (fun e => !kv.2.contains e.1))
      | none => none
    else some g

def archivePrune (seed : Inst) (g : Graph) : Option Graph :=
  g.keys.foldl (archivePruneStep seed) (some g)

/-- `dr.run(graph, broker)` for a dict graph when the broker holds a `SerializedArchiveContext` -/
def runArchive (w : World) (pick : List Comp → List Comp) (storeSkips : Bool) (g : Graph) (seed : Inst) : Option Broker :=
  (archivePrune seed g).bind (fun g' => run w pick storeSkips g' seed)

end IV.Dr

namespace IV.Dr

/-! ### from decorator arguments to a declaration (`ComponentType.__init__`, dr.py:709-735) -/

/-- the `optional=` keyword: absent, a single component (wrapped into a list), or a list -/
inductive OptArg where
  | absent
  | single (c : Comp)
  | many (cs : List Comp)
deriving DecidableEq, Repr

/-- what a decorator call supplies: class-level `requires` / `optional` of the component type,
positional arguments, the deprecated `requires=` keyword and the `optional=` keyword -/
structure RawDecl where
  kind : Kind
  clsRequires : List Item
  clsOptional : List Comp
  positional : List Item
  kwRequires : List Item
  kwOptional : OptArg
deriving DecidableEq, Repr

def OptArg.toList : OptArg → List Comp
  | .absent => []
  | .single c => [c]
  | .many cs => cs

/-- `deps = list(deps) or kwargs.get("requires", [])`; `requires = list(cls.requires) + deps`;
`optional = list(cls.optional) + normalised optional=`.  `parser.__init__` forwards only `group`, so
for a parser the two keywords are dropped. -/
def derive (r : RawDecl) : Decl :=
  match r.kind with
  | .parser _ => ⟨r.kind, r.clsRequires ++ r.positional, r.clsOptional⟩
  | _ =>
    ⟨r.kind, r.clsRequires ++ (if r.positional.isEmpty then r.kwRequires else r.positional),
     r.clsOptional ++ r.kwOptional.toList⟩

end IV.Dr
