import IV.Model.Dr
/-
Model of `dr.get_subgraphs` (insights/core/dr.py:468-496): keys in priority order; for each remaining
key the closure of {key} under "dependency or dependent, inside the graph"; the keys of the closure
are removed from the remaining keys.  `frontier.pop()` takes an arbitrary element of a set; the model
takes the head of a list — the resulting SET `seen` does not depend on that choice (theorem
`close_closed`/`close_reach`: it is the connected component of the key).
-/
namespace IV.Dr

structure Rel where
  deps : Comp → List Comp            -- get_dependencies
  dependents : Comp → List Comp      -- get_dependents

/-- `[d for d in get_dependencies(c) if d in graph] + [d for d in get_dependents(c) if d in graph]` -/
def nbrs (r : Rel) (G : List Comp) (c : Comp) : List Comp :=
  (r.deps c ++ r.dependents c).filter (fun d => G.contains d)

/-- the inner `while frontier` loop -/
def close (r : Rel) (G : List Comp) : Nat → List Comp → List Comp → List Comp
  | 0, _, seen => seen
  | _ + 1, [], seen => seen
  | f + 1, c :: fr, seen =>
    let seen' := c :: seen
    close r G f ((fr ++ nbrs r G c).filter (fun x => !seen'.contains x)) seen'

/-- the outer `while keys` loop: one closure per remaining key -/
def subgraphs (r : Rel) (G : List Comp) : Nat → List Comp → List (List Comp)
  | 0, _ => []
  | _ + 1, [] => []
  | f + 1, k :: ks =>
    let seen := close r G (G.length + 1) [k] []
    seen :: subgraphs r G f (ks.filter (fun x => !seen.contains x))

/-- stable insertion sort by descending priority (`sorted(graph, key=prio, reverse=True)`) -/
def insertPrio (prio : Comp → Nat) (x : Comp) : List Comp → List Comp
  | [] => [x]
  | y :: ys => if prio y ≤ prio x then x :: y :: ys else y :: insertPrio prio x ys

def sortPrio (prio : Comp → Nat) (l : List Comp) : List Comp := l.foldr (insertPrio prio) []

/-- `get_subgraphs(graph)`: the key sets of the yielded dicts, in order -/
def getSubgraphs (r : Rel) (prio : Comp → Nat) (G : List Comp) : List (List Comp) :=
  subgraphs r G G.length (sortPrio prio G)

end IV.Dr
