/-
C11 — model of what collection persists and what analysis loads.

Mirrors (tree at /repo HEAD):
  insights/core/spec_factory.py
     ContentProvider.write                 142-152   `joinLines` ("\n".join for a list; a str — the content of a
                                                      split=False command — is written as it is; UTF-8, binary write)
     ContentProvider.content (empty rule)  122-140   `writeText` (empty content under a HostContext raises)
     RawFileProvider.load / write          254-261   `Kind.raw` (cp; bytes in = bytes out)
     TextFileProvider.load                 284-304   `read` (open(..., "r", encoding="utf-8") — NO newline=
                                                      argument, i.e. universal newlines — iteration,
                                                      `l.rstrip("\n")`)
     DatasourceProvider / FileProvider constructors   177, 205   `mkRelative` (relative_path.lstrip("/"))
     simple_file / first_file .save_as     720, 866  `saveAsFile`
     glob_file / foreach_collect .save_as  776, 1270 `saveAsDir`
     simple_command / command_with_args    1008,1088 `saveAsCmd`
     serialize_* / deserialize_*           1577-1734 `relOf`, `docOf`, `serializeOne`, `deserialize`
  insights/core/serde.py
     marshal                               99-127    `marshalList`, `marshal`
     unmarshal                             130-135   `unmarshal`
     Hydration._hydrate_one / hydrate      154-188   `loadOne`, `hydrate`
     Hydration.dehydrate                   190-229   `dehydrate`; the persister over a run: `persist`
  insights/core/dr.py
     Broker.__setitem__ (raises when the key exists)  `Broker.set`
     run (pruning under SerializedArchiveContext) 1121-1129  `prune`

Parameters / not modelled: json's grammar (a document is its parsed form; only the string codec is modelled: `jsonEscape`; a file that does not parse is
`RawEntry.notJson`), the UTF-8 codec (a `Char` is a Unicode scalar value; text that is not valid
Unicode is outside the model), the file system (`FS` = association list from path STRINGS to file
texts: the same string names the same file; two different strings are taken to name different files
only where a theorem says so in its hypothesis), `cp`, tracebacks (an error is an opaque number),
`\w` of `re` (parameter `isWord` of `mangle`), symbolic links under data/, the cleaner (C08–C10), filters (C07).
-/
namespace IV.Serde

abbrev Str := List Char

/-! ## Python string and path primitives -/

/-- `s.lstrip(c)` for a one-character argument -/
def lstripC (c : Char) (s : Str) : Str := s.dropWhile (· == c)

/-- `s.rstrip(c)` for a one-character argument: removes EVERY trailing `c` -/
def rstripC (c : Char) (s : Str) : Str := (s.reverse.dropWhile (· == c)).reverse

/-- `s.strip(c)` -/
def stripC (c : Char) (s : Str) : Str := rstripC c (lstripC c s)

/-- `s.startswith(c)` -/
def startsWithC (c : Char) : Str → Bool
  | [] => false
  | d :: _ => d == c

/-- `s.endswith(c)` -/
def endsWithC (c : Char) (s : Str) : Bool := startsWithC c s.reverse

def sep : Char := '/'

/-- `posixpath.join(a, b)` -/
def pjoin (a b : Str) : Str :=
  if startsWithC sep b then b
  else if a.isEmpty || endsWithC sep a then a ++ b
  else a ++ sep :: b

/-- `posixpath.basename(p)`: what follows the last '/' -/
def basename (p : Str) : Str := (p.reverse.takeWhile (· != sep)).reverse

/-! ## Names under data/: the mangled command line, and the reader's containment check -/

/-- `s.rstrip(chars)`, by recursion (the same function as reverse/dropWhile/reverse; this form keeps the head visible) -/
def rstripP (p : Char → Bool) : Str → Str
  | [] => []
  | c :: t =>
    match rstripP p t with
    | [] => if p c then [] else [c]
    | r => c :: r

/-- `s.strip(chars)` -/
def stripP (p : Char → Bool) (s : Str) : Str := rstripP p (s.dropWhile p)

def dropPrefix? (pre : Str) (s : Str) : Option Str :=
  if pre.isPrefixOf s then some (s.drop pre.length) else none

/-- `re.sub(r"^/(usr/|)(bin|sbin)/", "", command)` -/
def stripBinDir (s : Str) : Str :=
  match dropPrefix? ['/', 'u', 's', 'r', '/', 'b', 'i', 'n', '/'] s with
  | some r => r
  | none =>
  match dropPrefix? ['/', 'u', 's', 'r', '/', 's', 'b', 'i', 'n', '/'] s with
  | some r => r
  | none =>
  match dropPrefix? ['/', 'b', 'i', 'n', '/'] s with
  | some r => r
  | none =>
  match dropPrefix? ['/', 's', 'b', 'i', 'n', '/'] s with
  | some r => r
  | none => s

/-- `re.sub(r"[^\w\-\.\/]+", "_", s)`: every maximal run of other characters becomes ONE '_';
    `isWord` = `\w` of Python's `re` on `str` (a parameter: Unicode alphanumerics and '_') -/
def collapseOther (isWord : Char → Bool) (inRun : Bool) : Str → Str
  | [] => []
  | c :: t =>
    if isWord c || c = '-' || c = '.' || c = '/' then c :: collapseOther isWord false t
    else if inRun then collapseOther isWord true t
    else '_' :: collapseOther isWord true t

def mangleStrip (c : Char) : Bool := c = ' ' || c = '.' || c = '_' || c = '-'

/-- insights.util.mangle.mangle_command (name_max = 255): the file name of a command's output -/
def mangle (isWord : Char → Bool) (cmd : Str) : Str :=
  ((stripP mangleStrip ((collapseOther isWord false (stripBinDir cmd)).map (fun c => if c = '/' then '.' else c))).take 255)

/-- the components of a location between '/' (always at least one, possibly empty ones) -/
def splitPath : Str → List Str
  | [] => [[]]
  | c :: t =>
    if c = sep then [] :: splitPath t
    else match splitPath t with
      | [] => [[c]]
      | h :: r => (c :: h) :: r

def dotdot : Str := ['.', '.']
def dot : Str := ['.']

/-- resolving a relative location below the root lexically (what `os.path.realpath` does when no
    component is a symbolic link): `none` = a ".." climbed above the root -/
def resolveBelow : List Str → List Str → Option (List Str)
  | stack, [] => some stack
  | stack, c :: rest =>
    if c = [] || c = dot then resolveBelow stack rest
    else if c = dotdot then
      (match stack with
       | [] => none
       | _ :: up => resolveBelow up rest)
    else resolveBelow (c :: stack) rest

/-- FileProvider.validate, 231-235, on the LOAD side (root = the archive's data directory): the
    resolved path must be the root or lie below it -/
def containedLoc (rel : Str) : Bool := (resolveBelow [] (splitPath rel)).isSome

/-- no component of the location is a parent reference ("..") -/
def NoParentRef (s : Str) : Prop := dotdot ∉ splitPath s

/-! ## Content: how lines are written and how they are read back -/

def NL : Char := '\n'
def CR : Char := '\r'

/-- `"\n".join(lines)` (ContentProvider.write; the bytes are the UTF-8 encoding, written in binary mode) -/
def joinLines : List Str → Str
  | [] => []
  | [l] => l
  | l :: rest => l ++ NL :: joinLines rest

/-- universal-newline translation done by text-mode `open(path, "r")` (newline=None):
    "\r\n" and a lone "\r" both become "\n".  `prevCR` = the previous character was a '\r'
    (CPython's IncrementalNewlineDecoder keeps exactly this bit). -/
def translate (prevCR : Bool) : Str → Str
  | [] => []
  | c :: t =>
    if c = CR then NL :: translate true t
    else if c = NL then (if prevCR then translate false t else NL :: translate false t)
    else c :: translate false t

/-- iteration over a text file: pieces ending in their '\n'; a last piece without one only if non-empty -/
def iterLines : Str → List Str
  | [] => []
  | c :: t =>
    if c = NL then [NL] :: iterLines t
    else match iterLines t with
      | [] => [[c]]
      | l :: ls => (c :: l) :: ls

/-- `[l.rstrip("\n") for l in f]` on a file opened in text mode with universal newlines -/
def read (text : Str) : List Str := (iterLines (translate false text)).map (rstripC NL)

/-- the persisted lines "up to one trailing empty line" -/
def dropOneTrailingEmpty : List Str → List Str
  | [] => []
  | [l] => if l = [] then [] else [l]
  | l :: rest => l :: dropOneTrailingEmpty rest

/-- a line without a character that text mode treats as a line break when reading -/
def NoBreak (l : Str) : Prop := NL ∉ l ∧ CR ∉ l

instance (l : Str) : Decidable (NoBreak l) := by unfold NoBreak; exact inferInstance

/-! ## Providers, documents -/

inductive Kind
  | text | raw | datasource | command | containerFile | containerCommand
  deriving DecidableEq, Repr

/-- `args` of a command provider: None, one string, or a tuple/list of strings (JSON has only lists) -/
inductive Args
  | none | str (s : Str) | seq (xs : List Str)
  deriving DecidableEq, Repr

abbrev Fault := Nat

/-- a provider object as it sits in the broker at collection time -/
structure Provider where
  kind : Kind
  relativePath : Str
  saveAs : Option Str := none
  cmd : Option Str := none
  args : Args := .none
  rc : Option Int := none
  image : Option Str := none
  engine : Option Str := none
  containerId : Option Str := none
  /-- `get_serializer(obj)` finds a serializer: the lookup is by the EXACT type name of the value
      (`SERIALIZERS.get(dr.get_name(type(obj)))`, see `serializerFor`); when it finds none,
      `serialize` calls `None(obj, root=root)` and the TypeError is recorded like any serializer error -/
  serializable : Bool := true
  /-- the content is ONE `str`, not a list of lines (a command created with split=False); the single
      element of `load` is then that string -/
  unsplit : Bool := false
  /-- outcome of `obj.content` at the moment the serializer asks for it (commands run lazily, there);
      for `Kind.raw` the single element is the file's bytes -/
  load : Except Fault (List Str)
  deriving Repr

/-- `relative_path.lstrip("/")` of the FileProvider / DatasourceProvider constructors -/
def mkRelative (p : Str) : Str := lstripC sep p

/-- Python truthiness of `obj.save_as` -/
def truthy : Option Str → Option Str
  | some (c :: t) => some (c :: t)
  | _ => none

/-- simple_file / first_file: `save_as.lstrip("/") if save_as else None` -/
def saveAsFile (s : Option Str) : Option Str := (truthy s).map (lstripC sep)

/-- glob_file / foreach_collect: `os.path.join(save_as.lstrip("/"), '') if save_as else None` -/
def saveAsDir (s : Option Str) : Option Str := (truthy s).map (fun x => pjoin (lstripC sep x) [])

/-- simple_command / command_with_args: `save_as.strip("/") if save_as else None` -/
def saveAsCmd (s : Option Str) : Option Str := (truthy s).map (stripC sep)

def insightsCommands : Str :=
  ['i', 'n', 's', 'i', 'g', 'h', 't', 's', '_', 'c', 'o', 'm', 'm', 'a', 'n', 'd', 's']
def insightsContainers : Str :=
  ['i', 'n', 's', 'i', 'g', 'h', 't', 's', '_', 'c', 'o', 'n', 't', 'a', 'i', 'n', 'e', 'r', 's']

/-- directory under data/ that the kind's serializer prepends -/
def kindPrefix : Kind → Option Str
  | .command => some insightsCommands
  | .containerFile | .containerCommand => some insightsContainers
  | _ => none

def underPrefix (k : Kind) (p : Str) : Str :=
  match kindPrefix k with
  | some pre => pjoin pre p
  | none => p

/-- the `rel` computed by every serialize_* function -/
def relOf (p : Provider) : Str :=
  match truthy p.saveAs with
  | none => underPrefix p.kind p.relativePath
  | some sa =>
    let rel := underPrefix p.kind sa
    if endsWithC sep sa then pjoin rel (basename p.relativePath) else rel

/-- the "object" dictionary (absent keys and null both `none`) -/
structure ObjDoc where
  relativePath : Str
  saveAsSet : Bool
  rc : Option Int
  cmd : Option Str
  args : Args
  image : Option Str
  engine : Option Str
  containerId : Option Str
  deriving DecidableEq, Repr

structure ResDoc where
  type : Kind
  obj : ObjDoc
  deriving DecidableEq, Repr

/-- `rc = obj.write(dst)` — `write` returns None, so "rc" is always null in the document -/
def docOf (p : Provider) (rel : Str) : ObjDoc :=
  let isCmd := p.kind == .command || p.kind == .containerCommand
  let isCont := p.kind == .containerFile || p.kind == .containerCommand
  { relativePath := rel
    saveAsSet := (truthy p.saveAs).isSome
    rc := none
    cmd := if isCmd || p.kind == .containerFile then p.cmd else none
    args := if isCmd then p.args else .none
    image := if isCont then p.image else none
    engine := if isCont then p.engine else none
    containerId := if isCont then p.containerId else none }

/-- the file text a provider's `write` produces, or the exception it raises.
    `host` = the collecting context is a HostContext (empty content is then refused).
    RawFileProvider.write copies the file without looking at `content`.  A `str` content (unsplit
    command) is not joined. -/
def writeText (host : Bool) (p : Provider) : Except Fault Str :=
  if !p.serializable then .error 9 else
  match p.kind, p.load with
  | .raw, .ok ls => .ok (ls.headD [])
  | .raw, .error f => .error f
  | _, .error f => .error f
  | _, .ok ls =>
    if p.unsplit then
      -- `len(content) == 0` of the string; `isinstance(content, six.string_types)`: written as it is
      (if host && (ls.headD []).isEmpty then .error 0 else .ok (ls.headD []))
    else if host && ls.isEmpty then .error 0 else .ok (joinLines ls)

/-! ## The document codec: text of a metadata document as JSON with ASCII escapes -/

/-- A Python `str` is a list of CODE POINTS 0 … 0x10FFFF, lone surrogates (0xD800–0xDFFF) included —
    `os.fsdecode` maps an undecodable file-name byte b to 0xDC00 + b.  (`Char` has no surrogates, so the
    codec is modelled on numbers.) -/
abbrev CodePoints := List Nat

def isHigh (u : Nat) : Bool := 0xD800 ≤ u && u < 0xDC00
def isLow (u : Nat) : Bool := 0xDC00 ≤ u && u < 0xE000

/-- `json.dump(doc, f)` with the default `ensure_ascii=True`: every code point becomes 16-bit units — itself
    below 0x10000 (a lone surrogate too), a surrogate pair above.  How a unit is SPELLED in the file (a
    printable ASCII character, a two-character escape, `\uXXXX` in hexadecimal) is not modelled. -/
def jsonEscape : CodePoints → List Nat
  | [] => []
  | c :: t =>
    if c < 0x10000 then c :: jsonEscape t
    else (0xD800 + (c - 0x10000) / 1024) :: (0xDC00 + (c - 0x10000) % 1024) :: jsonEscape t

/-- `json.load`: a high-surrogate unit directly followed by a low-surrogate unit is ONE code point,
    every other unit is a code point by itself (a lone surrogate stays what it is) -/
def jsonUnescape : List Nat → CodePoints
  | [] => []
  | [u] => [u]
  | u :: v :: t =>
    if isHigh u && isLow v then (0x10000 + (u - 0xD800) * 1024 + (v - 0xDC00)) :: jsonUnescape t
    else u :: jsonUnescape (v :: t)

/-! ## Value types: which serializer the writer finds, which deserializer the reader finds -/

/-- the type of a value in the broker, by its fully qualified name: a stock provider class, a user
    subclass (number n), or one of the two classes a LOADED archive's providers have -/
inductive TName
  | stock (k : Kind)
  | user (n : Nat)
  | serializedText
  | serializedRaw
  deriving DecidableEq, Repr

/-- SERIALIZERS / DESERIALIZERS: partial functions on type names (`some k` = the registered function
    behaves like the stock one of kind k) -/
structure Registry where
  ser : TName → Option Kind
  de : TName → Option Kind

/-- what `insights.core.spec_factory` registers: the six stock classes, in both tables; nothing for
    SerializedOutputProvider / SerializedRawOutputProvider -/
def stockRegistry : Registry :=
  { ser := fun | .stock k => some k | _ => none
    de := fun | .stock k => some k | _ => none }

/-- `@serializer(T)` and `@deserializer(T)` for a user class T, both -/
def Registry.addPair (r : Registry) (n : Nat) (k : Kind) : Registry :=
  { ser := fun t => if t = .user n then some k else r.ser t
    de := fun t => if t = .user n then some k else r.de t }

/-- `get_serializer(obj)`: exact-name lookup -/
def serializerFor (r : Registry) (t : TName) : Option Kind := r.ser t
/-- `DESERIALIZERS.get(data["type"])` -/
def deserializerFor (r : Registry) (t : TName) : Option Kind := r.de t

/-! ## File system of the archive's data directory -/

abbrev FS := List (Str × Str)

def FS.write (fs : FS) (path text : Str) : FS := (path, text) :: fs

def FS.read : FS → Str → Option Str
  | [], _ => none
  | (p, t) :: rest, path => if p = path then some t else FS.read rest path

/-- one call of a registered serializer: compute `rel`, write the content, return the document -/
def serializeOne (host : Bool) (root : Str) (fs : FS) (p : Provider) : Except Fault (ResDoc × FS) :=
  let rel := relOf p
  match writeText host p with
  | .error f => .error f
  | .ok t => .ok (⟨p.kind, docOf p rel⟩, fs.write (pjoin root rel) t)

/-- the provider object a deserializer builds (SerializedOutputProvider / SerializedRawOutputProvider) -/
structure Loaded where
  raw : Bool
  relativePath : Str
  path : Str
  rc : Option Int
  cmd : Option Str
  args : Args
  image : Option Str
  engine : Option Str
  containerId : Option Str
  deriving DecidableEq, Repr

/-- deserialize_*: `relative_path = rel.lstrip("/")`, `validate()` needs the file to exist (else
    ContentException = `none`), then the kind's deserializer copies ITS fields — the container-file
    one copies cmd (`data.get("cmd")`) but no args, the text/raw/datasource ones only rc. -/
def deserialize (root : Str) (fs : FS) (d : ResDoc) : Option Loaded :=
  let rp := lstripC sep d.obj.relativePath
  let path := pjoin root rp
  if (fs.read path).isSome then
    let isCmd := d.type == .command || d.type == .containerCommand
    let isCont := d.type == .containerFile || d.type == .containerCommand
    some { raw := d.type == .raw, relativePath := rp, path := path
           rc := if d.type == .datasource then none else d.obj.rc
           cmd := if isCmd || d.type == .containerFile then d.obj.cmd else none
           args := if isCmd then d.obj.args else .none
           image := if isCont then d.obj.image else none
           engine := if isCont then d.obj.engine else none
           containerId := if isCont then d.obj.containerId else none }
  else none

/-- `.content` of a loaded provider: text kinds iterate the file in text mode, raw reads the bytes -/
def loadedContent (fs : FS) (l : Loaded) : Option (List Str) :=
  (fs.read l.path).map (fun t => if l.raw then [t] else read t)

/-- `pat in line` -/
def containsStr (pat : Str) : Str → Bool
  | [] => pat.isEmpty
  | c :: t => pat.isPrefixOf (c :: t) || containsStr pat t

/-- TextFileProvider.load, 301-303: when the loading context is not a HostContext and the spec has
    filters, the lines are filtered again (AllowFilter.filter_content: a line stays when it contains
    one of the patterns; the per-pattern line budget `max_match` is not modelled) -/
def postFilter (pats : List Str) (ls : List Str) : List Str :=
  if pats.isEmpty then ls else ls.filter (fun l => pats.any (fun p => containsStr p l))

/-- `serialize(obj, root)`: look the serializer up by the value's type name, record THAT name as
    "type" (the stock serializers never look at the class again) -/
def serializeTyped (r : Registry) (host : Bool) (root : Str) (fs : FS) (t : TName) (p : Provider) :
    Except Fault (TName × ResDoc × FS) :=
  match serializerFor r t with
  | none => .error 9
  | some k =>
    match serializeOne host root fs { p with kind := k, serializable := true } with
    | .ok (d, fs') => .ok (t, d, fs')
    | .error f => .error f

/-- `deserialize(data, root, ...)`: "Unrecognized type" (= `none`) when the recorded name has no deserializer -/
def deserializeTyped (r : Registry) (root : Str) (fs : FS) (t : TName) (d : ResDoc) : Option Loaded :=
  match deserializerFor r t with
  | none => none
  | some k => deserialize root fs { d with type := k }

/-! ## Raw files behind symbolic links -/

inductive Node
  | file (bytes : Str)
  | link (target : Str)      -- the node the link names (relative / absolute spelling already resolved to a key)
  deriving DecidableEq, Repr

abbrev NFS := List (Str × Node)

def NFS.get : NFS → Str → Option Node
  | [], _ => none
  | (k, n) :: rest, p => if k = p then some n else NFS.get rest p

/-- the bytes `open(path, "rb")` / `cp path dst` see: links are followed (`fuel` = the kernel's limit on
    the number of links, ELOOP beyond) -/
def resolveBytes (src : NFS) : Nat → Str → Option Str
  | 0, _ => none
  | fuel + 1, p =>
    match src.get p with
    | none => none
    | some (.file b) => some b
    | some (.link t) => resolveBytes src fuel t

/-- RawFileProvider.write: `cp <path> <dst>` — the CONTENT the path resolves to is copied into a new
    regular file (cp without the -P or -d option follows links given on the command line) -/
def persistRaw (src : NFS) (fuel : Nat) (arch : NFS) (path dst : Str) : Option NFS :=
  (resolveBytes src fuel path).map (fun b => (dst, .file b) :: arch)

/-! ## marshal / dehydrate -/

/-- `broker.get(comp)` of a spec: one provider or (multi_output) a list -/
inductive Value
  | single (p : Provider)
  | multi (ps : List Provider)
  deriving Repr

inductive Results
  | one (d : ResDoc)
  | many (ds : List ResDoc)
  deriving DecidableEq, Repr

/-- the list branch of `marshal`: serializers run in order; a failed element is dropped from the
    results and its error kept; order of both kept -/
def marshalList (host : Bool) (root : Str) : FS → List Provider → List ResDoc × List Fault × FS
  | fs, [] => ([], [], fs)
  | fs, p :: ps =>
    match serializeOne host root fs p with
    | .ok (d, fs') =>
      let r := marshalList host root fs' ps
      (d :: r.1, r.2.1, r.2.2)
    | .error f =>
      let r := marshalList host root fs ps
      (r.1, f :: r.2.1, r.2.2)

/-- `marshal` + the `results if results else None` of dehydrate: (results, errors, fs) -/
def marshal (host : Bool) (root : Str) (fs : FS) : Option Value → Option Results × List Fault × FS
  | none => (none, [], fs)
  | some (.single p) =>
    match serializeOne host root fs p with
    | .ok (d, fs') => (some (.one d), [], fs')
    | .error f => (none, [f], fs)
  | some (.multi ps) =>
    let r := marshalList host root fs ps
    (if r.1.isEmpty then none else some (.many r.1), r.2.1, r.2.2)

structure MetaDoc where
  name : Str
  errors : List Fault
  results : Option Results
  deriving DecidableEq, Repr

/-- a file of meta_data as `hydrate` sees it -/
inductive RawEntry
  | unreadable              -- open() fails (directory, dangling link, bytes that are not UTF-8)
  | notJson                 -- json.load raises (garbage, any truncation of a document, empty file)
  | badShape                -- JSON but not a document (a list, a missing key, an unknown provider type)
  | json (d : MetaDoc)
  deriving DecidableEq, Repr

structure Store where
  fs : FS := []
  entries : List (Str × RawEntry) := []   -- file name (= component name; ".json" left out) ↦ entry

def metaPut (m : List (Str × RawEntry)) (k : Str) (e : RawEntry) : List (Str × RawEntry) :=
  match m with
  | [] => [(k, e)]
  | (k', e') :: rest => if k' = k then (k, e) :: rest else (k', e') :: metaPut rest k e

def metaGet : List (Str × RawEntry) → Str → Option RawEntry
  | [], _ => none
  | (k', e) :: rest, k => if k' = k then some e else metaGet rest k

/-- the document `dehydrate` builds for a component: the tracebacks recorded against it, then the
    serializer errors -/
def docFor (host : Bool) (root : Str) (fs : FS) (name : Str) (recorded : List Fault) (v : Option Value) : MetaDoc :=
  let r := marshal host root fs v
  { name := name, errors := recorded ++ r.2.1, results := r.1 }

/-- `Hydration.dehydrate`: the document is written iff it has results or errors -/
def dehydrate (host : Bool) (root : Str) (st : Store) (name : Str) (recorded : List Fault) (v : Option Value) : Store :=
  let r := marshal host root st.fs v
  let doc := docFor host root st.fs name recorded v
  if doc.results.isSome || !doc.errors.isEmpty then { fs := r.2.2, entries := metaPut st.entries name (.json doc) }
  else { st with fs := r.2.2 }

/-- one persisted component of a collection run: its name, the tracebacks recorded against it
    before the persister looks at it, and its value in the broker -/
structure Item where
  name : Str
  recorded : List Fault
  value : Option Value

/-- a whole collection: the persister observer fires once per component, in evaluation order (over
    all sub-graphs of `dr.run_all`, which share one broker and one Hydration) — a fold of `dehydrate`
    over the archive (file-system map + meta_data entries) -/
def persist (host : Bool) (root : Str) (st : Store) (items : List Item) : Store :=
  items.foldl (fun st it => dehydrate host root st it.name it.recorded it.value) st

/-! ## unmarshal / hydrate -/

inductive LoadedValue
  | single (l : Loaded)
  | multi (ls : List Loaded)
  deriving DecidableEq, Repr

def allSome {α : Type} : List (Option α) → Option (List α)
  | [] => some []
  | none :: _ => none
  | some a :: rest => (allSome rest).map (a :: ·)

/-- `unmarshal`: a list is deserialized element by element, one raising element fails the entry -/
def unmarshal (root : Str) (fs : FS) : Results → Option LoadedValue
  | .one d => (deserialize root fs d).map .single
  | .many ds => (allSome (ds.map (deserialize root fs))).map .multi

abbrev Comp := Nat

/-- the body of hydrate's `try:` for one file, up to `if results:` — `none` = an exception was
    swallowed or the results were falsy -/
def loadOne (known : Str → Option Comp) (root : Str) (fs : FS) : RawEntry → Option (Comp × LoadedValue)
  | .json d =>
    match known d.name, d.results with
    | some key, some r =>
      match unmarshal root fs r with
      | some (.multi []) => none
      | some v => some (key, v)
      | none => none
    | _, _ => none
  | _ => none

abbrev Broker := List (Comp × LoadedValue)

def Broker.get : Broker → Comp → Option LoadedValue
  | [], _ => none
  | (k, v) :: rest, c => if k = c then some v else Broker.get rest c

/-- `broker[comp] = results`: raises (swallowed by hydrate) when the key is already there -/
def Broker.set (b : Broker) (k : Comp) (v : LoadedValue) : Broker :=
  match b.get k with
  | some _ => b
  | none => b ++ [(k, v)]

def hydrateStep (known : Str → Option Comp) (root : Str) (fs : FS) (b : Broker) (e : RawEntry) : Broker :=
  match loadOne known root fs e with
  | some (k, v) => b.set k v
  | none => b

/-- `Hydration.hydrate`: the entries in the order `glob` returns them -/
def hydrate (known : Str → Option Comp) (root : Str) (fs : FS) (es : List RawEntry) (b : Broker) : Broker :=
  es.foldl (hydrateStep known root fs) b

/-! ## dr.run under a SerializedArchiveContext -/

/-- dependency graph as an association list component ↦ direct dependencies -/
abbrev Graph := List (Comp × List Comp)

def Graph.deps : Graph → Comp → Option (List Comp)
  | [], _ => none
  | (k, ds) :: rest, c => if k = c then some ds else Graph.deps rest c

def Graph.pop (g : Graph) (c : Comp) : Graph := g.filter (·.1 != c)

/-- `for comp in list(components): if comp in broker: for dep in components[comp]: components.pop(dep, None)`
    over the snapshot `keys`; `none` = `components[comp]` raised KeyError (comp itself was popped before) -/
def prune (loaded : Comp → Bool) : List Comp → Graph → Option Graph
  | [], g => some g
  | c :: rest, g =>
    if loaded c then
      match g.deps c with
      | some ds => prune loaded rest (ds.foldl Graph.pop g)
      | none => none
    else prune loaded rest g

end IV.Serde
