import IV.Model.Rpm
/-
Model of the glue of insights/parsers/installed_rpms.py around the comparison (round 10):

* `InstalledRpm._parse_package` / `_arch_sep` and `insights.util.rsplit` — how the short package string
  `name-[epoch:]version-release[.arch]` becomes the fields that are compared;
* `InstalledRpm.__init__`'s epoch rule (`'(none)'` / absent → `'0'`) and `int(epoch)` for decimal strings;
* the `left is right` shortcut of `rpm_version_compare`;
* the operators with an operand that is not an `InstalledRpm`;
* `InstalledRpm.__hash__` (the string that is hashed);
* `RpmList.get_max` / `get_min` (the look-up by name in front of `max` / `min`).
-/
namespace IV.Rpm

/-! ### insights.util.rsplit, `_arch_sep`, `_parse_package` -/

/-- walk of `for idx, ch in enumerate(reversed(_str))` on the reversed string: the characters before the first
separator (still reversed) and the rest behind it (still reversed); `none` = loop fell through (returns None) -/
def splitRev (sep : Char) : Str → Option (Str × Str)
  | [] => none
  | c :: cs => if c = sep then some ([], cs) else (splitRev sep cs).map (fun p => (c :: p.1, p.2))

/-- `rsplit(_str, sep)` = `_str[0:-idx-1], _str[-idx:]`; for `idx = 0` (the string ENDS with the separator)
`_str[-0:]` is the whole string — as written -/
def rsplit (s : Str) (sep : Char) : Option (Str × Str) :=
  (splitRev sep s.reverse).map (fun p => (p.2.reverse, if p.1 = [] then s else p.1.reverse))

/-- `'.' if s.rfind('.') > s.rfind('-') else '-'`, read from the right: whichever of the two is met first -/
def archSepRev : Str → Char
  | [] => '-'
  | c :: cs => if c = '.' then '.' else if c = '-' then '-' else archSepRev cs

def archSep (s : Str) : Char := archSepRev s.reverse

/-- `x.split(sep, 1)` when `sep in x`: before / after the FIRST occurrence -/
def splitFirst (sep : Char) : Str → Option (Str × Str)
  | [] => none
  | c :: cs => if c = sep then some ([], cs) else (splitFirst sep cs).map (fun p => (c :: p.1, p.2))

structure Fields where
  name : Str
  epoch : Str
  version : Str
  release : Str
  arch : Option Str
deriving DecidableEq, Repr

def startsWith (p s : Str) : Bool := s.take p.length == p
def endsWith (p s : Str) : Bool := s.drop (s.length - p.length) == p

/-- `InstalledRpm._parse_package(package_string)`; `none` = it raises (unpacking `None` / too few values) -/
def parsePackage (archs : List Str) (s : Str) : Option Fields := do
  let (pkg0, arch0) ← rsplit s (archSep s)
  let (pkg, arch) := if arch0 ∈ archs then (pkg0, some arch0) else (s, none)
  let (pkg, release) ← rsplit pkg '-'
  let (name, version) ← rsplit pkg '-'
  let (epoch, version) := match splitFirst ':' version with
    | some (e, v) => (e, v)
    | none => ("0".toList, version)
  if startsWith "oracleasm".toList name && endsWith ".el5".toList name then
    let (name, version2) ← splitFirst '-' name
    pure ⟨name, epoch, version2 ++ '-' :: version, release, arch⟩
  else
    pure ⟨name, epoch, version, release, arch⟩

/-- the short string form a package is written in (`rpm -qa` default format, epoch left out when 0) -/
def printPackage (name : Str) (epoch : Option Str) (version release arch : Str) : Str :=
  name ++ '-' :: ((match epoch with | some e => e ++ [':'] | none => []) ++ version) ++ '-' :: release ++ '.' :: arch

/-! ### epoch -/

/-- `data['epoch'] if 'epoch' in data and data['epoch'] != '(none)' else '0'` -/
def epochOf : Option Str → Str
  | none => "0".toList
  | some e => if e = "(none)".toList then "0".toList else e

def digitVal (c : Char) : Option Nat := if c.isDigit then some (c.toNat - 48) else none

/-- `int(s)` for a non-empty string of ASCII decimal digits; everything else is outside the model (`none`) -/
def pyIntDec (s : Str) : Option Int :=
  if s = [] then none
  else (s.foldl (fun acc c => do let a ← acc; let d ← digitVal c; pure (a * 10 + d)) (some 0)).map Int.ofNat

/-! ### `rpm_version_compare` with its identity shortcut -/

/-- `if left is right: return 0` in front of the comparison -/
def evrCmpId (same : Bool) (l r : Evr) : Int := if same then 0 else evrCmp l r

/-! ### operators with an operand that is not a package -/

inductive Operand
  | pkg (p : Pkg)
  | other           -- anything that is not an InstalledRpm: None, a string, a number, a tuple
deriving Repr

/-- the six operators `a OP x` as `InstalledRpm` defines them (each starts with the `isinstance` guard) -/
def opEq (a : Pkg) : Operand → Option Bool | .pkg b => pkgEq a b | .other => some false
def opNe (a : Pkg) (x : Operand) : Option Bool := (opEq a x).map not
def opLt (a : Pkg) : Operand → Option Bool | .pkg b => pkgLt a b | .other => some false
def opGt (a : Pkg) : Operand → Option Bool | .pkg b => pkgGt a b | .other => some false
def opGe (a : Pkg) : Operand → Option Bool | .pkg b => pkgGe a b | .other => some false
def opLe (a : Pkg) : Operand → Option Bool | .pkg b => pkgLe a b | .other => some false

/-! ### `__hash__` -/

/-- the string whose hash is the package's hash: `nvra`, or `nvr` when `arch` is None (`".".join` raises
TypeError) -/
def hashKey (f : Fields) : Str :=
  let nvr := f.name ++ '-' :: f.version ++ '-' :: f.release
  match f.arch with
  | some a => nvr ++ '.' :: a
  | none => nvr

def pkgOf (f : Fields) (epoch : Int) : Pkg := ⟨f.name, ⟨epoch, f.version, f.release⟩⟩

/-! ### RpmList.get_max / get_min -/

def lookup (name : Str) : List (Str × List Evr) → Option (List Evr)
  | [] => none
  | (n, xs) :: rest => if n = name then some xs else lookup name rest

/-- `None` if the name is not in `packages`, else `max(packages[name])` -/
def getMax (pkgs : List (Str × List Evr)) (name : Str) : Option Evr := (lookup name pkgs).bind pyMax
def getMin (pkgs : List (Str × List Evr)) (name : Str) : Option Evr := (lookup name pkgs).bind pyMin

end IV.Rpm
