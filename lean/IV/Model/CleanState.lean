/-
Model of the spec cleaner's obfuscator STATE and of `Cleaner.clean_content` (shared by C09 and C10).

  insights/cleaner/__init__.py   Cleaner.__init__ (66-104), clean_content (106-161), generate_rhsm_facts (201-232)
  insights/cleaner/ip.py         IPv4._ip2db (48-71), parse_line width=False (79-82, 118-128), mapping (133-137)
                                 IPv6._ip2db (175-203), parse_line (205-222), mapping (224-228)
  insights/cleaner/hostname.py   __init__ (28-49), _domains2db (51-62), _hn2db (66-87), parse_line (89-108), mapping (113-117)
  insights/cleaner/mac.py        _mac2db (31-56), parse_line (58-75), mapping (77-81)
  insights/cleaner/keyword.py    _keywords2db (26-38), parse_line (41-49), mapping (51-55)
  insights/cleaner/pattern.py    parse_line, plain mode (20-30);  filters.py AllowFilter.parse_line (16-31)
  insights/cleaner/password.py   parse_line (28-37)
  insights/core/spec_factory.py  ContentProvider._clean_content (81-116), content (123-140), write (142-150)

What Python's `re` computes on the patterns of those modules is a PARAMETER of the model (`Env`): the
theorems hold for every recogniser.  The driver instantiates `Env` with the small backtracking matcher of
section "regular expressions" below, run on the pattern strings of the LIVE modules (parsed by
`re._parser` in the harness and sent over the protocol), and SHA-1 is a table computed by the harness.

Strings are `List Char`; a Python `dict` is an insertion-ordered association list.
-/
namespace IV.CleanState

abbrev Str := List Char

/-! ## Python `str` primitives -/

/-- `k in s` -/
def contains (k : Str) : Str → Bool
  | [] => k.isEmpty
  | c :: cs => k.isPrefixOf (c :: cs) || contains k cs

/-- `s.replace(k, v)` for `k ≠ ""`: leftmost, non-overlapping; `skip` = characters of a taken match still to drop -/
def replGo (k v : Str) : Nat → Str → Str
  | _, [] => []
  | skip + 1, _ :: cs => replGo k v skip cs
  | 0, c :: cs =>
    if k.isPrefixOf (c :: cs) then v ++ replGo k v (k.length - 1) cs else c :: replGo k v 0 cs

/-- `s.replace(k, v)`; an empty `k` matches before every character and at the end -/
def replace (k v s : Str) : Str :=
  if k.isEmpty then v ++ s.flatMap (fun c => c :: v) else replGo k v 0 s

/-- `s.split(sep)` for a one-character separator -/
def splitOn (sep : Char) : Str → List Str
  | [] => [[]]
  | c :: cs =>
    if c = sep then [] :: splitOn sep cs
    else match splitOn sep cs with
      | [] => [[c]]
      | h :: t => (c :: h) :: t

/-- `sep.join(xs)` -/
def join (sep : Str) : List Str → Str
  | [] => []
  | [x] => x
  | x :: xs => x ++ sep ++ join sep xs

def lowerC (c : Char) : Char := if 'A' ≤ c ∧ c ≤ 'Z' then Char.ofNat (c.toNat + 32) else c
def upperC (c : Char) : Char := if 'a' ≤ c ∧ c ≤ 'z' then Char.ofNat (c.toNat - 32) else c
def lower (s : Str) : Str := s.map lowerC
def upper (s : Str) : Str := s.map upperC
/-- `s.isupper()` (ASCII): at least one cased character and no lower-case one -/
def isUpper (s : Str) : Bool :=
  s.any (fun c => 'A' ≤ c ∧ c ≤ 'Z') && !s.any (fun c => 'a' ≤ c ∧ c ≤ 'z')

/-- decimal rendering, `str(n)` / `"%s" % n` -/
def natStr (n : Nat) : Str := Nat.toDigits 10 n
/-- value of a run of decimal digits -/
def digitsVal (s : Str) : Nat := s.foldl (fun a c => 10 * a + (c.toNat - '0'.toNat)) 0

/-- the tables Python uses for non-ASCII characters (`str.isspace`, `\w`, `\d`); the ASCII part is built in.
The harness sends the entries for the non-ASCII characters of its alphabets. -/
structure Uni where
  word : List Char := []
  space : List Char := []
  digit : List Char := []

def asciiSpace (c : Char) : Bool :=
  c = ' ' || (9 ≤ c.toNat && c.toNat ≤ 13) || (28 ≤ c.toNat && c.toNat ≤ 31)
def Uni.isSpace (U : Uni) (c : Char) : Bool := asciiSpace c || U.space.contains c
def Uni.isWord (U : Uni) (c : Char) : Bool := c.isAlphanum || c = '_' || U.word.contains c
def Uni.isDigit (U : Uni) (c : Char) : Bool := c.isDigit || U.digit.contains c

def lstripBy (p : Char → Bool) : Str → Str
  | [] => []
  | c :: cs => if p c then lstripBy p cs else c :: cs
/-- `s.strip()` -/
def strip (U : Uni) (s : Str) : Str := (lstripBy U.isSpace (lstripBy U.isSpace s).reverse).reverse

/-! ## `dict` as an insertion-ordered association list -/

/-- `d[k] = v`: overwrite in place when the key exists, else append -/
def dictSet {α β : Type} [BEq α] : List (α × β) → α → β → List (α × β)
  | [], k, v => [(k, v)]
  | (k', v') :: rest, k, v => if k' == k then (k', v) :: rest else (k', v') :: dictSet rest k v

def dictGet {α β : Type} [BEq α] : List (α × β) → α → Option β
  | [], _ => none
  | (k', v') :: rest, k => if k' == k then some v' else dictGet rest k

/-- the loop `for k, v in db.items(): if v == x: ret = k` — the LAST key whose value is `x` -/
def lastKeyOf {α β : Type} [BEq β] (db : List (α × β)) (x : β) : Option α :=
  db.foldl (fun acc kv => if kv.2 == x then some kv.1 else acc) none

/-! ## regular expressions: the fragment of Python's `re` the cleaner's patterns use

A backtracking matcher in continuation-passing style (ordered alternation, greedy bounded/unbounded
repetition, capture groups, back-references, `\b`, look-ahead, one-character look-behind,
IGNORECASE on ASCII letters).  Not used by any theorem (the recognisers are parameters there); it is what
the driver runs on the live pattern strings, and it is validated directly against `re.findall` / `re.sub`. -/

inductive Cat | word | notWord | digit | notDigit | space | notSpace
deriving Repr

inductive CItem
  | lit (c : Char) | range (lo hi : Char) | cat (k : Cat)
deriving Repr

inductive Re
  | eps
  | cls (neg : Bool) (items : List CItem)
  | any
  | seq (a b : Re)
  | alt (a b : Re)
  | rep (min : Nat) (max : Option Nat) (r : Re)
  | grp (n : Nat) (r : Re)
  | bref (n : Nat)
  | wordB
  | look (ahead neg : Bool) (r : Re)
deriving Repr

def Re.size : Re → Nat
  | .seq a b => a.size + b.size + 1
  | .alt a b => a.size + b.size + 1
  | .rep mn _ r => r.size + mn + 2
  | .grp _ r => r.size + 1
  | .look _ _ r => r.size + 1
  | _ => 1

structure Pos where
  prev : Option Char
  rest : Str
  idx : Nat

/-- captures, most recent first: group, start, end -/
abbrev Caps := List (Nat × Nat × Nat)

def capOf (c : Caps) (n : Nat) : Option (Nat × Nat) :=
  match c with
  | [] => none
  | (g, s, e) :: rest => if g = n then some (s, e) else capOf rest n

def slice (src : Str) (s e : Nat) : Str := (src.drop s).take (e - s)

def itemMatch (U : Uni) (ch : Char) : CItem → Bool
  | .lit c => ch = c
  | .range lo hi => lo ≤ ch && ch ≤ hi
  | .cat .word => U.isWord ch
  | .cat .notWord => !U.isWord ch
  | .cat .digit => U.isDigit ch
  | .cat .notDigit => !U.isDigit ch
  | .cat .space => U.isSpace ch
  | .cat .notSpace => !U.isSpace ch

def clsMatch (U : Uni) (ic neg : Bool) (items : List CItem) (ch : Char) : Bool :=
  let hit := items.any (fun it => itemMatch U ch it || (ic && (itemMatch U (lowerC ch) it || itemMatch U (upperC ch) it)))
  hit != neg

def eqC (ic : Bool) (a b : Char) : Bool := a = b || (ic && lowerC a = lowerC b)

/-- advance over `txt` (a back-reference) -/
def eat (ic : Bool) : Str → Pos → Option Pos
  | [], p => some p
  | t :: ts, p =>
    match p.rest with
    | [] => none
    | ch :: rest => if eqC ic t ch then eat ic ts ⟨some ch, rest, p.idx + 1⟩ else none

def matchRe (U : Uni) (ic : Bool) (src : Str) :
    Nat → Re → Pos → Caps → (Pos → Caps → Option (Pos × Caps)) → Option (Pos × Caps)
  | 0, _, _, _, _ => none
  | f + 1, re, p, c, k =>
    match re with
    | .eps => k p c
    | .cls neg items =>
      match p.rest with
      | [] => none
      | ch :: rest => if clsMatch U ic neg items ch then k ⟨some ch, rest, p.idx + 1⟩ c else none
    | .any =>
      match p.rest with
      | [] => none
      | ch :: rest => if ch ≠ '\n' then k ⟨some ch, rest, p.idx + 1⟩ c else none
    | .seq a b => matchRe U ic src f a p c (fun p' c' => matchRe U ic src f b p' c' k)
    | .alt a b =>
      match matchRe U ic src f a p c k with
      | some r => some r
      | none => matchRe U ic src f b p c k
    | .rep mn mx r =>
      let more :=
        if mx = some 0 then none
        else matchRe U ic src f r p c (fun p' c' =>
          if p'.idx = p.idx && mn = 0 then none
          else matchRe U ic src f (.rep (mn - 1) (mx.map (· - 1)) r) p' c' k)
      match more with
      | some x => some x
      | none => if mn = 0 then k p c else none
    | .grp n r => matchRe U ic src f r p c (fun p' c' => k p' ((n, p.idx, p'.idx) :: c'))
    | .bref n =>
      match capOf c n with
      | none => none
      | some (s, e) =>
        match eat ic (slice src s e) p with
        | some p' => k p' c
        | none => none
    | .wordB =>
      let a := match p.prev with | some ch => U.isWord ch | none => false
      let b := match p.rest with | ch :: _ => U.isWord ch | [] => false
      if a != b then k p c else none
    | .look true neg r =>
      let ok := (matchRe U ic src f r p c (fun p' c' => some (p', c'))).isSome
      if ok != neg then k p c else none
    | .look false neg r =>
      -- look-behind of width one: the sub-pattern is run on the previous character alone
      let ok := match p.prev with
        | none => false
        | some ch => (matchRe U ic src f r ⟨none, [ch], 0⟩ []
            (fun p' c' => if p'.rest.isEmpty then some (p', c') else none)).isSome
      if ok != neg then k p c else none

def fuelFor (re : Re) (src : Str) : Nat := (src.length + 20) * (re.size + 2)

/-- all non-overlapping matches, leftmost first: (start, end, captures) -/
def scanGo (U : Uni) (ic : Bool) (re : Re) (src : Str) (F : Nat) : Nat → Pos → List (Nat × Nat × Caps)
  | 0, _ => []
  | n + 1, p =>
    let step : Unit → List (Nat × Nat × Caps) := fun _ =>
      match p.rest with
      | [] => []
      | ch :: rest => scanGo U ic re src F n ⟨some ch, rest, p.idx + 1⟩
    match matchRe U ic src F re p [] (fun p' c' => some (p', c')) with
    | some (p', c) =>
      (p.idx, p'.idx, c) :: (if p'.idx > p.idx then scanGo U ic re src F n p' else step ())
    | none => step ()

def scan (U : Uni) (ic : Bool) (re : Re) (src : Str) : List (Nat × Nat × Caps) :=
  scanGo U ic re src (fuelFor re src) (src.length + 1) ⟨none, src, 0⟩

/-- `[m[g] for m in re.finditer(re, src)]`; group 0 is the whole match -/
def findall (U : Uni) (ic : Bool) (re : Re) (g : Nat) (src : Str) : List Str :=
  (scan U ic re src).map (fun (s, e, c) =>
    if g = 0 then slice src s e else match capOf c g with | some (a, b) => slice src a b | none => [])

/-- `re.search(re, src) is not None` -/
def search (U : Uni) (ic : Bool) (re : Re) (src : Str) : Bool := !(scan U ic re src).isEmpty

/-- `re.sub(re, r"\1\2" + tail, src)` -/
def sub12 (U : Uni) (ic : Bool) (re : Re) (tail : Str) (src : Str) : Str :=
  let rec go (ms : List (Nat × Nat × Caps)) (at_ : Nat) : Str :=
    match ms with
    | [] => src.drop at_
    | (s, e, c) :: rest =>
      let g := fun n => match capOf c n with | some (a, b) => slice src a b | none => []
      slice src at_ s ++ g 1 ++ g 2 ++ tail ++ go rest e
  go (scan U ic re src) 0

/-! ## parameters -/

/-- what `re` and `hashlib` compute — uninterpreted in the theorems -/
structure Env where
  /-- `[each[0] for each in re.findall(IPv4.pattern, line)]` -/
  findIp : Str → List Str
  /-- `regex.findall(line)` for the host-name regex built from the system's domain -/
  findHost : Str → List Str
  /-- `[m[0] for m in re.findall(Mac.pattern, line, re.I)]` -/
  findMac : Str → List Str
  /-- `any(re.search(i, mac, re.I) for i in Mac._ignore_list)` -/
  macIgnored : Str → Bool
  findIp6 : Str → List Str
  ip6Ignored : Str → Bool
  /-- `hashlib.sha1(s.encode()).hexdigest()` -/
  sha1 : Str → Str
  /-- `Password.parse_line` on a non-empty line -/
  password : Str → Str
  uni : Uni

/-- `Cleaner(config, rm_conf, fqdn)` -/
structure Cfg where
  fqdn : Str
  obfuscate : Bool
  obfuscateIpv6 : Bool
  obfuscateHostname : Bool
  obfuscateMac : Bool
  keywords : List Str
  /-- `rm_conf['patterns']` as a plain list (the regex form is not modelled) -/
  patterns : List Str

/-- arguments of one `clean_content` call (`width=False`) -/
structure Call where
  noObfuscate : List Str
  noRedact : Bool
  allowlist : Option (List (Str × Int))
  lines : List Str

/-! ## obfuscator state -/

structure St where
  /-- `IPv4._ip_db`: obfuscated ↦ original, both as integers -/
  ipDb : List (Nat × Nat) := []
  /-- `Hostname._hn_db`: obfuscated ↦ original -/
  hnDb : List (Str × Str) := []
  /-- `Hostname._hostname_count` -/
  hnCount : Nat := 0
  /-- `Mac._mac_db`: original ↦ obfuscated -/
  macDb : List (Str × Str) := []
  /-- `IPv6._ipv6_db`: original ↦ obfuscated -/
  ip6Db : List (Str × Str) := []
  /-- `Keyword._obfuscated` (a set: first-seen order here, compared sorted) -/
  kwSeen : List Str := []
  /-- ghost: every original the recognisers handed to `_ip2db` / `_hn2db` / `_mac2db` so far -/
  foundIp : List Nat := []
  foundHost : List Str := []
  foundMac : List Str := []

def startIp : Nat := 10 * 2 ^ 24 + 230 * 2 ^ 16 + 230 * 2 ^ 8 + 1   -- '10.230.230.1'
def obfDomain : Str := "example.com".toList

/-- `socket.inet_ntoa(struct.pack('!I', n))` (defined for `n < 2^32`; the real call raises above) -/
def int2ip (n : Nat) : Str :=
  join ['.'] [natStr (n / 2 ^ 24 % 256), natStr (n / 2 ^ 16 % 256), natStr (n / 2 ^ 8 % 256), natStr (n % 256)]

/-- `struct.unpack('!I', socket.inet_aton(s))` on a dotted quad -/
def ip2int (s : Str) : Nat := (splitOn '.' s).foldl (fun a o => a * 256 + digitsVal o) 0

def maxKey (db : List (Nat × Nat)) : Nat := db.foldl (fun m kv => max m kv.1) 0

/-- `IPv4._ip2db` on integers: look the original up among the VALUES; otherwise issue max+1 -/
def ip2db (db : List (Nat × Nat)) (n : Nat) : List (Nat × Nat) × Nat :=
  match lastKeyOf db n with
  | some k => (db, k)
  | none =>
    let new := if db.isEmpty then startIp else maxKey db + 1
    (dictSet db new n, new)

/-- `sorted(ips, key=len, reverse=True)`: stable, longest first -/
def insertByLen (x : Str) : List Str → List Str
  | [] => [x]
  | y :: ys => if y.length ≥ x.length then y :: insertByLen x ys else x :: y :: ys
def sortByLenDesc (xs : List Str) : List Str := xs.foldl (fun acc x => insertByLen x acc) []

def ipIgnore : List Str := ["127.0.0.1".toList]

/-- one iteration of the loop of `IPv4.parse_line` -/
def ipStep (sl : St × Str) (ip : Str) : St × Str :=
  if ipIgnore.contains ip then sl
  else
    let r := ip2db sl.1.ipDb (ip2int ip)
    ({ sl.1 with ipDb := r.1, foundIp := sl.1.foundIp ++ [ip2int ip] }, replace ip (int2ip r.2) sl.2)

def ipStage (E : Env) (st : St) (line : Str) : St × Str :=
  (sortByLenDesc (E.findIp line)).foldl ipStep (st, line)

/-! ### host names -/

def shortName (cfg : Cfg) : Str := ((splitOn '.' cfg.fqdn).head?).getD []
def domainOf (cfg : Cfg) : Option Str :=
  match splitOn '.' cfg.fqdn with
  | _ :: b :: rest => some (join ['.'] (b :: rest))
  | _ => none
/-- `Hostname._dn_db` after `_domains2db` -/
def dnDb (cfg : Cfg) : List (Str × Str) :=
  match domainOf cfg with
  | some d => [(obfDomain, d)]
  | none => []

/-- `Hostname._obfuscated_fqdn` -/
def sysSub (E : Env) (cfg : Cfg) : Str := (E.sha1 cfg.fqdn).take 12 ++ ".example.com".toList

/-- state of a fresh `Cleaner`; the `Hostname` object (and its first entry) exists only when enabled -/
def initSt (E : Env) (cfg : Cfg) : St :=
  if cfg.obfuscate && cfg.obfuscateHostname then { hnDb := [(sysSub E cfg, cfg.fqdn)], hnCount := 1 } else {}

def counterName (n : Nat) (od : Str) : Str := "host".toList ++ natStr n ++ ['.'] ++ od

/-- `Hostname._hn2db` -/
def hn2db (cfg : Cfg) (st : St) (hn : Str) : St × Str :=
  match lastKeyOf st.hnDb hn with
  | some k => (st, k)
  | none =>
    let cnt := st.hnCount + 1
    let od := (dnDb cfg).foldl (fun acc kv => if contains kv.2 hn then kv.1 else acc) obfDomain
    let new := counterName cnt od
    ({ st with hnCount := cnt, hnDb := dictSet st.hnDb new hn }, new)

def hostStep (cfg : Cfg) (sl : St × Str) (hn : Str) : St × Str :=
  let r := hn2db cfg sl.1 hn
  ({ r.1 with foundHost := r.1.foundHost ++ [hn] }, replace hn r.2 sl.2)

/-- `Hostname.parse_line` -/
def hostStage (E : Env) (cfg : Cfg) (st : St) (line : Str) : St × Str :=
  let sl := (dnDb cfg).foldl (fun sl _ => (E.findHost line).foldl (hostStep cfg) sl) (st, line)
  let r := hn2db cfg sl.1 cfg.fqdn
  (r.1, replace (shortName cfg) r.2 sl.2)

/-! ### MAC and IPv6: hash-derived substitutes, database original ↦ substitute -/

def macObf (E : Env) (mac : Str) : Str :=
  let low := !isUpper mac
  let sep := if mac.contains '-' then '-' else ':'
  join [sep] ((splitOn sep mac).map (fun h =>
    let x := (E.sha1 (lower h)).take h.length
    if low then x else upper x))

/-- `_mac2db` / IPv6 `_ip2db`: known original → its substitute; an issued substitute → `None`; else insert -/
def hashDb (obf : Str → Str) (db : List (Str × Str)) (x : Str) : List (Str × Str) × Option Str :=
  match dictGet db x with
  | some v => (db, some v)
  | none =>
    if db.any (fun kv => kv.2 == x) then (db, none)
    else (dictSet db x (obf x), some (obf x))

def macStep (E : Env) (sl : St × Str) (mac : Str) : St × Str :=
  if E.macIgnored mac then sl
  else
    let r := hashDb (macObf E) sl.1.macDb mac
    match r.2 with
    | some new =>
      let st := { sl.1 with macDb := r.1, foundMac := sl.1.foundMac ++ [mac] }
      if new.isEmpty then (st, sl.2) else (st, replace mac new sl.2)
    | none => ({ sl.1 with macDb := r.1 }, sl.2)

def macStage (E : Env) (st : St) (line : Str) : St × Str :=
  (E.findMac line).foldl (macStep E) (st, line)

def utf8Len (s : Str) : Nat := s.foldl (fun a c => a + c.utf8Size) 0

def hex6 (E : Env) (h : Str) : Str :=
  if h.isEmpty then []
  else
    let n0 := lower (lstripBy (· = '0') h)
    if n0.isEmpty then List.replicate h.length '0'
    else List.replicate (h.length - n0.length) '0' ++ (E.sha1 n0).take (utf8Len n0)

def ip6Obf (E : Env) (ip : Str) : Str := join [':'] ((splitOn ':' ip).map (hex6 E))

def ip6Step (E : Env) (sl : St × Str) (ip : Str) : St × Str :=
  if E.ip6Ignored ip then sl
  else
    let r := hashDb (ip6Obf E) sl.1.ip6Db ip
    let st := { sl.1 with ip6Db := r.1 }
    match r.2 with
    | some new => if new.isEmpty then (st, sl.2) else (st, replace ip new sl.2)
    | none => (st, sl.2)

def ip6Stage (E : Env) (st : St) (line : Str) : St × Str :=
  (E.findIp6 line).foldl (ip6Step E) (st, line)

/-! ### keywords -/

/-- `Keyword._kw_db` after `_keywords2db` -/
def kwDbGo (U : Uni) : List Str → Nat → List (Str × Str) → List (Str × Str)
  | [], _, db => db
  | k :: ks, i, db => kwDbGo U ks (i + 1) (dictSet db (strip U k) ("keyword".toList ++ natStr i))
def kwDb (U : Uni) (kws : List Str) : List (Str × Str) := kwDbGo U kws 0 []

def kwStep (sl : St × Str) (kv : Str × Str) : St × Str :=
  if contains kv.1 sl.2 then
    ({ sl.1 with kwSeen := if sl.1.kwSeen.contains kv.1 then sl.1.kwSeen else sl.1.kwSeen ++ [kv.1] },
     replace kv.1 kv.2 sl.2)
  else sl

def kwStage (E : Env) (cfg : Cfg) (st : St) (line : Str) : St × Str :=
  (kwDb E.uni cfg.keywords).foldl kwStep (st, line)

/-! ### redaction and allow-list filtering -/

/-- `Pattern.parse_line`, plain mode -/
def patternStage (pats : List Str) (line : Str) : Option Str :=
  if pats.any (fun p => contains p line) then none else some line

/-- `AllowFilter.parse_line`; the allow list is a per-call copy that is counted down -/
def allowStage (al : List (Str × Int)) (line : Str) : List (Str × Int) × Option Str :=
  match al.find? (fun kv => contains kv.1 line) with
  | some (k, n) =>
    (if n - 1 = 0 then al.filter (fun kv => kv.1 != k)
     else al.map (fun kv => if kv.1 == k then (k, n - 1) else kv), some line)
  | none => (al, none)

/-! ## `clean_content` -/

inductive Stage | pattern | allow | hostname | ip | ipv6 | keyword | mac | password
deriving DecidableEq, Repr

def Stage.name : Stage → Str
  | .hostname => "hostname".toList | .ip => "ip".toList | .ipv6 => "ipv6".toList
  | .keyword => "keyword".toList | .mac => "mac".toList | .password => "password".toList
  | .pattern => "pattern".toList | .allow => "allow_filter".toList

/-- is the obfuscator object present and truthy in `self.obfuscate`? -/
def Stage.enabled (cfg : Cfg) : Stage → Bool
  | .hostname => cfg.obfuscate && cfg.obfuscateHostname
  | .ip => cfg.obfuscate
  | .ipv6 => cfg.obfuscate && cfg.obfuscateIpv6
  | .keyword => !cfg.keywords.isEmpty
  | .mac => cfg.obfuscate && cfg.obfuscateMac
  | .password => true
  | _ => false

/-- the ONE fixed order of the obfuscators: `sorted(...)` of their names -/
def obfOrder : List Stage := [.hostname, .ip, .ipv6, .keyword, .mac, .password]

/-- the parser list of one call (lines 125-145) -/
def stages (cfg : Cfg) (call : Call) : List Stage :=
  (if !cfg.patterns.isEmpty && !call.noRedact then [Stage.pattern] else []) ++
  (if call.allowlist.isSome then [Stage.allow] else []) ++
  obfOrder.filter (fun s => s.enabled cfg && !call.noObfuscate.contains s.name)

/-- cleaner state plus the call's private copy of the allow list -/
abbrev LSt := St × List (Str × Int)

/-- one parser applied to a non-empty line -/
def applyStage (E : Env) (cfg : Cfg) (s : LSt) (line : Str) : Stage → LSt × Option Str
  | .pattern => (s, patternStage cfg.patterns line)
  | .allow => let r := allowStage s.2 line; ((s.1, r.1), r.2)
  | .hostname => let r := hostStage E cfg s.1 line; ((r.1, s.2), some r.2)
  | .ip => let r := ipStage E s.1 line; ((r.1, s.2), some r.2)
  | .ipv6 => let r := ip6Stage E s.1 line; ((r.1, s.2), some r.2)
  | .keyword => let r := kwStage E cfg s.1 line; ((r.1, s.2), some r.2)
  | .mac => let r := macStage E s.1 line; ((r.1, s.2), some r.2)
  | .password => (s, some (E.password line))

/-- every parser starts with `if not line: return line`: `None` and `''` pass through untouched -/
def stageStep (E : Env) (cfg : Cfg) (acc : LSt × Option Str) (stg : Stage) : LSt × Option Str :=
  match acc.2 with
  | none => acc
  | some [] => acc
  | some (c :: cs) => applyStage E cfg acc.1 (c :: cs) stg

def maxLineLength : Nat := 1048576

/-- `_clean_line` -/
def cleanLine (E : Env) (cfg : Cfg) (call : Call) (s : LSt) (line : Str) : LSt × Option Str :=
  (stages cfg call).foldl (stageStep E cfg) (s, some (line.take maxLineLength))

/-- the loop of lines 151-155 on the already reversed list: results are appended -/
def lineLoop (E : Env) (cfg : Cfg) (call : Call) : LSt → List Str → List Str → LSt × List Str
  | s, acc, [] => (s, acc)
  | s, acc, l :: ls =>
    let r := cleanLine E cfg call s l
    lineLoop E cfg call r.1 (match r.2 with | some x => acc ++ [x] | none => acc) ls

/-- `Cleaner.clean_content(lines, ...)` for a list: bottom-up, result reversed, all-blank ⇒ `[]` -/
def cleanContent (E : Env) (cfg : Cfg) (st : St) (call : Call) : St × List Str :=
  let r := lineLoop E cfg call (st, call.allowlist.getD []) [] call.lines.reverse
  if r.2.any (fun l => !l.isEmpty) then (r.1.1, r.2.reverse) else (r.1.1, [])

/-! ## width-preserving mode (`width=True`, the `netstat_-neopa` spec): `IPv4._sub_ip_keep_width`, ip.py 84-116

Only the IPv4 parser looks at `width`.  It can RAISE (`line[idx]` past the end when the substitute is the last
thing on the line and the lengths differ, `line.index` when the substitute is not there); `parse_line` turns
that into `Exception('SubIPError…')`, `clean_content` lets it escape and the spec is not emitted.  The database
entry has been made by then.  `none` below = raised. -/

/-- `line.index(k)`: position of the first occurrence -/
def findIdx (k : Str) : Str → Nat → Option Nat
  | [], i => if k.isEmpty then some i else none
  | c :: cs, i => if k.isPrefixOf (c :: cs) then some i else findIdx k cs (i + 1)

/-- the `while c != " "` loops: first position `≥ idx` holding a blank, else `dflt` -/
def scanBlank (line : Str) (idx dflt : Nat) : Nat :=
  match ((line.drop idx).findIdx? (· = ' ')) with
  | some j => idx + j
  | none => dflt

/-- `_sub_ip_keep_width` after the database call: pad with / swallow blanks behind the first substitute -/
def keepWidth (line ip new : Str) : Option Str :=
  if ip.length > new.length then
    let l := replace ip new line
    match findIdx new l 0 with
    | none => none
    | some i =>
      let idx := i + new.length
      if idx ≥ l.length then none
      else
        let j := scanBlank l idx (l.length - 1)
        some (l.take j ++ List.replicate (ip.length - new.length) ' ' ++ l.drop j)
  else if new.length > ip.length then
    let l := replace ip new line
    match findIdx new l 0 with
    | none => none
    | some i =>
      let idx := i + new.length
      if idx ≥ l.length then none
      else
        let j := scanBlank l idx l.length
        some (l.take j ++ l.drop (j + (new.length - ip.length)))
  else some (replace ip new line)

/-- one iteration of the loop of `IPv4.parse_line` with `width=True`; once raised nothing more happens -/
def ipStepW (sl : St × Option Str) (ip : Str) : St × Option Str :=
  match sl.2 with
  | none => sl
  | some line =>
    if ipIgnore.contains ip then sl
    else
      let r := ip2db sl.1.ipDb (ip2int ip)
      ({ sl.1 with ipDb := r.1, foundIp := sl.1.foundIp ++ [ip2int ip] }, keepWidth line ip (int2ip r.2))

def ipStageW (E : Env) (st : St) (line : Str) : St × Option Str :=
  (sortByLenDesc (E.findIp line)).foldl ipStepW (st, some line)

/-- a parser in width mode: outer `none` = raised -/
def applyStageW (E : Env) (cfg : Cfg) (s : LSt) (line : Str) : Stage → LSt × Option (Option Str)
  | .ip => let r := ipStageW E s.1 line; ((r.1, s.2), r.2.map some)
  | stg => let r := applyStage E cfg s line stg; (r.1, some r.2)

def stageStepW (E : Env) (cfg : Cfg) (acc : LSt × Option (Option Str)) (stg : Stage) : LSt × Option (Option Str) :=
  match acc.2 with
  | none => acc
  | some none => acc
  | some (some []) => acc
  | some (some (c :: cs)) => applyStageW E cfg acc.1 (c :: cs) stg

def cleanLineW (E : Env) (cfg : Cfg) (call : Call) (s : LSt) (line : Str) : LSt × Option (Option Str) :=
  (stages cfg call).foldl (stageStepW E cfg) (s, some (some (line.take maxLineLength)))

/-- the loop over the reversed lines; a raising line ends the call -/
def lineLoopW (E : Env) (cfg : Cfg) (call : Call) : LSt → List Str → List Str → LSt × Option (List Str)
  | s, acc, [] => (s, some acc)
  | s, acc, l :: ls =>
    let r := cleanLineW E cfg call s l
    match r.2 with
    | none => (r.1, none)
    | some (some x) => lineLoopW E cfg call r.1 (acc ++ [x]) ls
    | some none => lineLoopW E cfg call r.1 acc ls

/-- `clean_content(lines, …, width=True)`: the cleaner's state afterwards and the output, `none` = raised -/
def cleanContentW (E : Env) (cfg : Cfg) (st : St) (call : Call) : St × Option (List Str) :=
  let r := lineLoopW E cfg call (st, call.allowlist.getD []) [] call.lines.reverse
  match r.2 with
  | none => (r.1.1, none)
  | some out => if out.any (fun l => !l.isEmpty) then (r.1.1, some out.reverse) else (r.1.1, some [])

/-- a history mixing both modes: `(call, width)`; a raised call yields `none` and the history goes on -/
def runHistoryW (E : Env) (cfg : Cfg) : St → List (Call × Bool) → St × List (Option (List Str))
  | st, [] => (st, [])
  | st, (c, w) :: cs =>
    let r : St × Option (List Str) :=
      if w then cleanContentW E cfg st c else let x := cleanContent E cfg st c; (x.1, some x.2)
    let rest := runHistoryW E cfg r.1 cs
    (rest.1, r.2 :: rest.2)

/-- a history of calls on one `Cleaner`: final state and every call's output -/
def runHistory (E : Env) (cfg : Cfg) : St → List Call → St × List (List Str)
  | st, [] => (st, [])
  | st, c :: cs =>
    let r := cleanContent E cfg st c
    let rest := runHistory E cfg r.1 cs
    (rest.1, r.2 :: rest.2)

/-- `clean_content(text, …)` with ONE string (`if not isinstance(lines, list): return _clean_line(lines)`, line 147-149):
the whole text — line breaks included — goes through the parsers as a single "line"; this is what a `split=False`
command stores and what `_clean_facts` passes for a fact string.  `none` = `None` (a pattern / the allow list dropped it) -/
def cleanString (E : Env) (cfg : Cfg) (st : St) (call : Call) (text : Str) : St × Option Str :=
  let r := cleanLine E cfg call (st, call.allowlist.getD []) text
  (r.1.1, r.2)

/-! ## `Cleaner.clean_file` (cleaner/__init__.py 163-199): read, clean, replace the WHOLE content -/

/-- `fh.readlines()`: the text cut behind every `'\n'` — and nowhere else (not at `\x0b`, `\x0c`, `\x1c`-`\x1e`, `\x85`,
U+2028, U+2029) —, terminators kept -/
def readlinesGo : Str → Str → List Str
  | [], [] => []
  | [], cur => [cur.reverse]
  | c :: cs, cur => if c = '\n' then (c :: cur).reverse :: readlinesGo cs [] else readlinesGo cs (c :: cur)
def readlines (txt : Str) : List Str := readlinesGo txt []

/-- what `open(path, 'r')` hands to `readlines`: universal-newline translation, `'\r\n'` and a lone `'\r'` become `'\n'` -/
def universalNewlines : Str → Str
  | [] => []
  | '\r' :: '\n' :: cs => '\n' :: universalNewlines cs
  | '\r' :: cs => '\n' :: universalNewlines cs
  | c :: cs => c :: universalNewlines cs

/-- a path as `clean_file` sees it: nothing there, a symbolic link (left alone), or a regular file with its text -/
inductive FileSt
  | absent
  | link
  | file (txt : Str)
deriving DecidableEq, Repr

/-- `clean_file(path, …)` (not the `netstat_-neopa` name): an empty file is left alone, a file whose cleaning leaves
nothing is REMOVED, otherwise the file is opened with `'wb'` — truncated — and the cleaned lines are written one
after the other: afterwards it holds exactly their concatenation -/
def cleanFile (E : Env) (cfg : Cfg) (st : St) (call : Call) : FileSt → St × FileSt
  | .absent => (st, .absent)
  | .link => (st, .link)
  | .file txt =>
    let raw := readlines (universalNewlines txt)
    let r := cleanContent E cfg st { call with lines := raw }
    if raw.isEmpty then (r.1, .file txt)
    else if r.2.isEmpty then (r.1, .absent)
    else (r.1, .file r.2.flatten)

/-! ## `mapping()`: (original, obfuscated) pairs in database order -/

def ipMapping (st : St) : List (Str × Str) := st.ipDb.map (fun kv => (int2ip kv.2, int2ip kv.1))
def hostMapping (st : St) : List (Str × Str) := st.hnDb.map (fun kv => (kv.2, kv.1))
def macMapping (st : St) : List (Str × Str) := st.macDb
def ip6Mapping (st : St) : List (Str × Str) := st.ip6Db
def kwMapping (E : Env) (cfg : Cfg) (st : St) : List (Str × Str) :=
  st.kwSeen.filterMap (fun k => (dictGet (kwDb E.uni cfg.keywords) k).map (fun v => (k, v)))

/-! ## `ContentProvider.write` (spec_factory.py): an empty result is an error and nothing is stored -/

inductive WriteErr | emptyContent | emptyAfterCleaning
deriving DecidableEq, Repr

/-- the part of a provider `write` looks at -/
structure Provider where
  hostCtx : Bool            -- isinstance(self.ctx, HostContext)
  hasCleaner : Bool         -- self.ds and self.cleaner
  content : List Str
  call : Call               -- no_obfuscate / no_redact of the datasource, the filters when filterable

/-- is any cleaning requested? (`cleans` non-empty): redact unless `no_redact`, obfuscate unless every
obfuscator is excluded, filter when an allow list is present -/
def wantsCleaning (p : Provider) : Bool :=
  !p.call.noRedact ||
  !(obfOrder.all (fun s => p.call.noObfuscate.contains s.name) &&
    p.call.noObfuscate.all (fun n => obfOrder.any (fun s => s.name == n))) ||
  p.call.allowlist.isSome

/-- `_clean_content`: the cleaner's state afterwards and the cleaned lines or the ContentException -/
def providerClean (E : Env) (cfg : Cfg) (st : St) (p : Provider) : St × Except WriteErr (List Str) :=
  if p.content.isEmpty then
    if p.hostCtx then (st, .error .emptyContent) else (st, .ok [])
  else if p.hostCtx && p.hasCleaner && wantsCleaning p then
    let r := cleanContent E cfg st { p.call with lines := p.content }
    if r.2.isEmpty then (r.1, .error .emptyAfterCleaning) else (r.1, .ok r.2)
  else (st, .ok p.content)

/-- `write(dst)`: `file` is what is at `dst` (`none` = no file); on success it holds `"\n".join(lines)` -/
def providerWrite (E : Env) (cfg : Cfg) (st : St) (p : Provider) (file : Option Str) :
    St × Except WriteErr Unit × Option Str :=
  match providerClean E cfg st p with
  | (st', .error e) => (st', .error e, file)
  | (st', .ok ls) => (st', .ok (), some (join ['\n'] ls))

end IV.CleanState
