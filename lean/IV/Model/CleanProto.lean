import IV.Model.Proto
import IV.Model.CleanState
/-!
Protocol handler of the cleaner model, shared by Drivers/C09.lean and Drivers/C10.lean (glue, not model).
-/
namespace IV.CleanProto
open IV IV.Proto IV.CleanState

/-! line protocol for C09 and C10 (stateful: tables and regexes first, then one history = `init` + calls)

  uni   word space digit                      non-ASCII members of \w, \s, \d used by the alphabets   → ok
  shab  k d k d …                             permanent SHA-1 table (the 256 two-digit strings)        → ok
  sha   k d k d …                             SHA-1 values needed by the next history (replaces the previous ones) → ok
  re    name ic tokens                        define a regex (prefix token stream, see `parseRe`)      → ok
  init  fqdn obf obf6 obfhost obfmac kws pats hostre      new Cleaner                                   → ok
  clean noobf noredact allow line…            one clean_content call                                   → `ok` TAB out-line…
  cleanw noobf noredact allow line…           the same with width=True                                 → `ok` TAB out-line… | raised
  cleans noobf noredact allow text            clean_content on ONE string                              → None | S TAB text
  fset N|L|text  /  cfile noobf noredact allow   the file at the path; one clean_file call on it         → N | L | F TAB text
  map                                         mapping() of ip, host, mac, ipv6, keyword                → five list fields
  write hostctx hascleaner noobf noredact allow line…     ContentProvider.write                        → E1 | E2 | S TAB text
  findall name group line  /  search name line  /  subpw line        recogniser checks

list fields: `~` = empty, items joined by `,`; allow: `N` = None, else list of `key:count`.
-/

def decL (f : String) : Option (List Str) :=
  if f = "~" then some [] else (f.splitOn ",").mapM decStr

def encL (xs : List Str) : String := if xs.isEmpty then "~" else ",".intercalate (xs.map encStr)

def decAllow (f : String) : Option (Option (List (Str × Int))) :=
  if f = "N" then some none
  else if f = "~" then some (some [])
  else (f.splitOn ",").mapM (fun (it : String) => match it.splitOn ":" with
      | [k, n] => do let k ← decStr k; let n ← n.toInt?; pure (k, n)
      | _ => none) |>.map some

def decChar (f : String) : Option Char := (hexNat f.toList).map Char.ofNat

def decCat (f : String) : Option Cat :=
  match f with
  | "w" => some .word | "W" => some .notWord | "d" => some .digit | "D" => some .notDigit
  | "s" => some .space | "S" => some .notSpace | _ => none

def parseItems : Nat → List String → Option (List CItem × List String)
  | 0, ts => some ([], ts)
  | n + 1, "l" :: c :: ts => do
    let c ← decChar c; let (r, ts) ← parseItems n ts; pure (.lit c :: r, ts)
  | n + 1, "r" :: a :: b :: ts => do
    let a ← decChar a; let b ← decChar b; let (r, ts) ← parseItems n ts; pure (.range a b :: r, ts)
  | n + 1, "c" :: k :: ts => do
    let k ← decCat k; let (r, ts) ← parseItems n ts; pure (.cat k :: r, ts)
  | _, _ => none

mutual
def parseRe : Nat → List String → Option (Re × List String)
  | 0, _ => none
  | f + 1, t :: ts =>
    match t, ts with
    | "E", ts => some (.eps, ts)
    | "A", ts => some (.any, ts)
    | "W", ts => some (.wordB, ts)
    | "L", c :: ts => (decChar c).map (fun c => (.cls false [.lit c], ts))
    | "N", c :: ts => (decChar c).map (fun c => (.cls true [.lit c], ts))
    | "C", neg :: k :: ts => do
      let neg ← decBool neg; let k ← k.toNat?
      let (items, ts) ← parseItems k ts
      pure (.cls neg items, ts)
    | "S", k :: ts => do
      let k ← k.toNat?; let (rs, ts) ← parseMany f k ts
      pure (rs.foldr Re.seq .eps, ts)
    | "B", k :: ts => do
      let k ← k.toNat?; let (rs, ts) ← parseMany f k ts
      match rs.reverse with
      | [] => none
      | last :: init => pure (init.foldl (fun acc r => Re.alt r acc) last, ts)
    | "R", mn :: mx :: ts => do
      let mn ← mn.toNat?
      let mx ← if mx = "*" then some none else mx.toNat?.map some
      let (r, ts) ← parseRe f ts
      pure (.rep mn mx r, ts)
    | "G", n :: ts => do
      let n ← n.toNat?; let (r, ts) ← parseRe f ts
      pure (.grp n r, ts)
    | "F", n :: ts => n.toNat?.map (fun n => (.bref n, ts))
    | "K", a :: n :: ts => do
      let a ← decBool a; let n ← decBool n; let (r, ts) ← parseRe f ts
      pure (.look a n r, ts)
    | _, _ => none
  | _, [] => none
def parseMany : Nat → Nat → List String → Option (List Re × List String)
  | _, 0, ts => some ([], ts)
  | 0, _, _ => none
  | f + 1, k + 1, ts => do
    let (r, ts) ← parseRe f ts
    let (rs, ts) ← parseMany f k ts
    pure (r :: rs, ts)
end

def decRe (f : String) : Option Re :=
  let ts := f.splitOn ","
  match parseRe (ts.length + 1) ts with
  | some (r, []) => some r
  | _ => none

structure D where
  uni : Uni := {}
  shaBase : List (Str × Str) := []
  sha : List (Str × Str) := []
  res : List (String × Bool × Re) := []
  cfg : Option Cfg := none
  hostRe : Option Re := none
  st : St := {}
  file : FileSt := .absent

def D.re (d : D) (name : String) : Option (Bool × Re) :=
  (d.res.find? (fun x => x.1 == name)).map (·.2)

def noHash : Str := List.replicate 40 '?'

def D.env (d : D) : Env :=
  let fa := fun (name : String) (g : Nat) (line : Str) =>
    match d.re name with
    | some (ic, r) => findall d.uni ic r g line
    | none => [['!']]
  let se := fun (name : String) (line : Str) =>
    match d.re name with
    | some (ic, r) => search d.uni ic r line
    | none => false
  { findIp := fa "ip" 1
    findHost := fun line => match d.hostRe with
      | some r => findall d.uni false r 0 line
      | none => []
    findMac := fa "mac" 1
    macIgnored := se "macign"
    findIp6 := fa "ip6" 1
    ip6Ignored := se "ip6ign"
    sha1 := fun s => (dictGet d.sha s).getD noHash
    password := fun line =>
      match d.re "pw1", d.re "pw2" with
      | some (i1, r1), some (i2, r2) =>
        let l1 := sub12 d.uni i1 r1 "********".toList line
        if l1 != line then l1 else sub12 d.uni i2 r2 "********".toList line
      | _, _ => ['!']
    uni := d.uni }

def showMap (m : List (Str × Str)) : String :=
  if m.isEmpty then "~" else ",".intercalate (m.map (fun kv => encStr kv.1 ++ ">" ++ encStr kv.2))

def addSha : List String → List (Str × Str) → Option (List (Str × Str))
  | [], acc => some acc
  | k :: v :: rest, acc => do
    let k ← decStr k; let v ← decStr v
    addSha rest ((k, v) :: acc)
  | _, _ => none

def mkCall (noobf noredact allow : String) (lines : List String) : Option Call := do
  let no ← decL noobf; let nr ← decBool noredact; let al ← decAllow allow
  let ls ← lines.mapM decStr
  pure { noObfuscate := no, noRedact := nr, allowlist := al, lines := ls }

/-- checksum of a long text (sent instead of the text itself) -/
def polyHash (s : Str) : Nat := s.foldl (fun h c => (h * 131 + c.toNat) % 2305843009213693951) 7

def handle (d : D) (fs : List String) : D × String :=
  match fs with
  | ["uni", w, s, dg] =>
    match decStr w, decStr s, decStr dg with
    | some w, some s, some dg => ({ d with uni := { word := w, space := s, digit := dg } }, "ok")
    | _, _, _ => (d, "bad-op")
  | "shab" :: rest =>
    match addSha rest d.shaBase with
    | some t => ({ d with shaBase := t, sha := t }, "ok")
    | none => (d, "bad-op")
  | "sha" :: rest =>
    -- the per-history part of the table REPLACES the previous history's
    match addSha rest d.shaBase with
    | some t => ({ d with sha := t }, "ok")
    | none => (d, "bad-op")
  | ["re", name, ic, toks] =>
    match decBool ic, decRe toks with
    | some ic, some r => ({ d with res := (name, ic, r) :: d.res.filter (fun x => x.1 != name) }, "ok")
    | _, _ => (d, "bad-op")
  | ["init", fqdn, o, o6, oh, om, kws, pats, hre] =>
    match decStr fqdn, decBool o, decBool o6, decBool oh, decBool om, decL kws, decL pats with
    | some fqdn, some o, some o6, some oh, some om, some kws, some pats =>
      let cfg : Cfg := ⟨fqdn, o, o6, oh, om, kws, pats⟩
      let hr := if hre = "-" then some none else (decRe hre).map some
      match hr with
      | some hr =>
        let d := { d with cfg := some cfg, hostRe := hr }
        ({ d with st := initSt d.env cfg }, "ok")
      | none => (d, "bad-op")
    | _, _, _, _, _, _, _ => (d, "bad-op")
  | "clean" :: noobf :: noredact :: allow :: lines =>
    match d.cfg, mkCall noobf noredact allow lines with
    | some cfg, some call =>
      let r := cleanContent d.env cfg d.st call
      ({ d with st := r.1 }, "\t".intercalate ("ok" :: r.2.map encStr))
    | _, _ => (d, "bad-op")
  | "cleanw" :: noobf :: noredact :: allow :: lines =>
    match d.cfg, mkCall noobf noredact allow lines with
    | some cfg, some call =>
      match cleanContentW d.env cfg d.st call with
      | (st', some out) => ({ d with st := st' }, "\t".intercalate ("ok" :: out.map encStr))
      | (st', none) => ({ d with st := st' }, "raised")
    | _, _ => (d, "bad-op")
  | "fsetr" :: segs =>
    -- a long text as segments: `S:<string>` or `R:<hex code point>:<count>` (a run of one character)
    let parts := segs.mapM (fun (g : String) => match g.splitOn ":" with
      | ["S", x] => decStr x
      | ["R", c, n] => do let c ← decChar c; let n ← n.toNat?; pure (List.replicate n c)
      | _ => none)
    match parts with
    | some ps => ({ d with file := .file ps.flatten }, "ok")
    | none => (d, "bad-op")
  | ["fset", f] =>
    if f = "N" then ({ d with file := .absent }, "ok")
    else if f = "L" then ({ d with file := .link }, "ok")
    else match decStr f with
      | some t => ({ d with file := .file t }, "ok")
      | none => (d, "bad-op")
  | ["cfile", noobf, noredact, allow] =>
    match d.cfg, mkCall noobf noredact allow [] with
    | some cfg, some call =>
      let r := cleanFile d.env cfg d.st call d.file
      ({ d with st := r.1, file := r.2 },
        match r.2 with
        | .absent => "N" | .link => "L"
        | .file t =>
          if t.length > 20000 then
            s!"G\t{t.length}\t{polyHash t}\t{encStr (t.take 120)}\t{encStr (t.drop (t.length - 120))}"
          else "F\t" ++ encStr t)
    | _, _ => (d, "bad-op")
  | ["cleans", noobf, noredact, allow, text] =>
    match d.cfg, mkCall noobf noredact allow [], decStr text with
    | some cfg, some call, some t =>
      let r := cleanString d.env cfg d.st call t
      ({ d with st := r.1 }, match r.2 with | some o => "S\t" ++ encStr o | none => "None")
    | _, _, _ => (d, "bad-op")
  | ["map"] =>
    match d.cfg with
    | some cfg =>
      let has := fun (s : Stage) => s.enabled cfg
      let m := fun (s : Stage) (x : List (Str × Str)) => if has s then showMap x else "~"
      (d, "\t".intercalate [m .ip (ipMapping d.st), m .hostname (hostMapping d.st), m .mac (macMapping d.st),
                           m .ipv6 (ip6Mapping d.st), m .keyword (kwMapping d.env cfg d.st)])
    | none => (d, "bad-op")
  | "write" :: hc :: hcl :: noobf :: noredact :: allow :: lines =>
    match d.cfg, decBool hc, decBool hcl, mkCall noobf noredact allow lines with
    | some cfg, some hc, some hcl, some call =>
      let p : Provider := { hostCtx := hc, hasCleaner := hcl, content := call.lines, call := call }
      match providerWrite d.env cfg d.st p none with
      | (st', .error .emptyContent, f) => ({ d with st := st' }, "E1" ++ (if f.isSome then "\tstored" else ""))
      | (st', .error .emptyAfterCleaning, f) => ({ d with st := st' }, "E2" ++ (if f.isSome then "\tstored" else ""))
      | (st', .ok _, some txt) => ({ d with st := st' }, "S\t" ++ encStr txt)
      | (st', .ok _, none) => ({ d with st := st' }, "S\tnothing")
    | _, _, _, _ => (d, "bad-op")
  | ["findall", name, g, line] =>
    match g.toNat?, decStr line with
    | some g, some line =>
      if name = "host" then (d, encL (d.env.findHost line))
      else match d.re name with
        | some (ic, r) => (d, encL (findall d.uni ic r g line))
        | none => (d, "bad-op")
    | _, _ => (d, "bad-op")
  | ["search", name, line] =>
    match d.re name, decStr line with
    | some (ic, r), some line => (d, if search d.uni ic r line then "1" else "0")
    | _, _ => (d, "bad-op")
  | ["subpw", line] =>
    match decStr line with
    | some line => (d, encStr (d.env.password line))
    | none => (d, "bad-op")
  | _ => (d, "bad-op")


end IV.CleanProto
