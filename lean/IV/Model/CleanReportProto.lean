import IV.Model.CleanProto
import IV.Model.CleanReport
/-!
Protocol extension of the C09 driver (glue, not model): everything `IV.CleanProto.handle` knows, plus

  report      one `Cleaner.generate_report` call in the current state (the state is NOT changed) →
              `R` TAB flags(ipv4 ipv6 hostname mac as 0/1) TAB system-name TAB five mapping lists of the facts file
              (ip, host, mac, ipv6, keyword) TAB five files (ip, host, mac, ipv6, keyword): `N` = not written, else the text
-/
namespace IV.CleanReportProto
open IV IV.Proto IV.CleanState IV.CleanProto

def showFile : Option Str → String
  | none => "N"
  | some t => "F:" ++ encStr t

def bit (b : Bool) : String := if b then "1" else "0"

def handle (d : D) (fs : List String) : D × String :=
  match fs with
  | ["report"] =>
    match d.cfg with
    | some cfg =>
      let r := generateReport d.env cfg d.st
      (d, "\t".intercalate
        ["R", bit r.ip4On ++ bit r.ip6On ++ bit r.hostOn ++ bit r.macOn, encStr r.sysName,
         showMap r.factsIp, showMap r.factsHost, showMap r.factsMac, showMap r.factsIp6, showMap r.factsKw,
         showFile r.ipCsv, showFile r.hostCsv, showFile r.macCsv, showFile r.ip6Csv, showFile r.kwCsv])
    | none => (d, "bad-op")
  | _ => IV.CleanProto.handle d fs

end IV.CleanReportProto
