import IV.Model.Rpm
/-
Specification vocabulary for `vercmp_eq_lex` (C13, DESIGN Appendix A.1): the tokens of a version
string and the order on them.  Not a model of code: these definitions say WHAT `_rpm_vercmp`
computes (the lexicographic comparison of token lists under `~ < end < ^ < alpha < num`); the
theorem `vercmp_eq_lex` proves that the model of the code computes it.  The driver exposes
`tokens` (command `tok`) so that the harness can compare it with an independent regex tokenizer.
-/
namespace IV.Rpm


/-- a token of a version string: `~`, `^`, a maximal run of letters, a maximal run of digits
(stored without its leading zeros) -/
inductive Tok
  | tilde
  | caret
  | alpha (s : Str)
  | num (s : Str)
deriving DecidableEq, Repr

/-- cut the string into tokens: skip separators, then take `~`, `^`, or the maximal run of
digits / letters under the cursor.  Fuel: one unit per token (`tokensF_fuel`: any fuel above
the length gives the same list) -/
def tokensF : Nat → Str → List Tok
  | 0, _ => []
  | f + 1, s =>
    let s := skipSep s
    match cls s with
    | .eof => []
    | .tilde => .tilde :: tokensF f s.tail
    | .caret => .caret :: tokensF f s.tail
    | .dig => let l := s.takeWhile isDigit; .num (stripZeros l) :: tokensF f (s.drop l.length)
    | .alp => let l := s.takeWhile isAlpha; .alpha l :: tokensF f (s.drop l.length)

def tokens (s : Str) : List Tok := tokensF (s.length + 1) s

/-- two zero-stripped digit strings by value: the longer is larger, equal lengths by string order -/
def numCmp (l r : Str) : Int :=
  if l.length > r.length then 1 else if r.length > l.length then -1 else lexCmp l r

/-- position of a token class in the order `~ < end < ^ < alpha < num`; `none` is the end of
the token list -/
def rank : Option Tok → Nat
  | some .tilde => 0
  | none => 1
  | some .caret => 2
  | some (.alpha _) => 3
  | some (.num _) => 4

/-- the total preorder on tokens ∪ {end}: by class; two alphabetic tokens by string order; two
numeric tokens by length, then string order (= by value, the leading zeros being stripped) -/
def tokCmp (x y : Option Tok) : Int :=
  match x, y with
  | some (.alpha l), some (.alpha r) => lexCmp l r
  | some (.num l), some (.num r) => numCmp l r
  | _, _ => if rank x < rank y then -1 else if rank y < rank x then 1 else 0

/-- lexicographic extension of `tokCmp` to token lists, the shorter list padded with `end` -/
def lexCmpTok : List Tok → List Tok → Int
  | [], [] => 0
  | [], y :: _ => tokCmp none (some y)
  | x :: _, [] => tokCmp (some x) none
  | x :: xs, y :: ys =>
    let c := tokCmp (some x) (some y)
    if c != 0 then c else lexCmpTok xs ys

end IV.Rpm
