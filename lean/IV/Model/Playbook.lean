/-
Model of insights/client/apps/ansible/playbook_verifier/serializer.py (PlaybookSerializer,
lines 12-103) and of the verification logic of playbook_verifier/__init__.py
(serialize_play 110-122 on Python >= 3.12, exclude_dynamic_elements 157-210 (after fix 5a7421c),
verify_play, get_play_revocation_list, verify).

Values.  `PVal` is what the ruamel round-trip loader hands to the verifier for the types
the property quantifies over: strings, integers (unbounded), booleans, null, sequences and
insertion-ordered mappings whose keys are scalars (str | int | bool | None all occur as
YAML keys).  Floats, dates and binaries go through Python's `str()` and are not modelled.

Not modelled (parameters of the theorems / of the driver): YAML loading, SHA-256
(`H : Str → D`), GPG (`sigValid`), base64 decoding of the signature.

`dec`/`decList`/`decPairs` are NOT part of the Python code: they are the total decoder that
the injectivity proof uses (IV/Lemmas/Playbook.lean); `decode` runs it with fuel
`|input| + 1`, `need_le_length` (Lemmas) shows that is enough.
-/
namespace IV.Playbook

abbrev Str := List Char

inductive Scalar where
  | str (s : Str)
  | int (n : Int)
  | bool (b : Bool)
  | none
deriving DecidableEq, Repr

inductive PVal where
  | sc (s : Scalar)
  | seq (xs : List PVal)
  | map (kvs : List (Scalar × PVal))
deriving Repr

/-- a play is a mapping -/
abbrev Play := List (Scalar × PVal)

/-! ### PlaybookSerializer._str (serializer.py:43-76) -/

/-- `special_chars.get(char, char)` -/
def escChar (c : Char) : Str :=
  if c = '\\' then ['\\', '\\']
  else if c = '\n' then ['\\', 'n']
  else if c = '\t' then ['\\', 't']
  else if c = '\u200b' then ['\\', 'u', '2', '0', '0', 'b']
  else if c = '\u200c' then ['\\', 'u', '2', '0', '0', 'c']
  else if c = '\u200d' then ['\\', 'u', '2', '0', '0', 'd']
  else [c]

/-- the `for char in value: escaped_string += …` loop -/
def escape : Str → Str
  | [] => []
  | c :: cs => escChar c ++ escape cs

/-- `value.replace("'", "\\'")` (one-character needle: every occurrence, left to right) -/
def replaceQuote : Str → Str
  | [] => []
  | c :: cs => if c = '\'' then '\\' :: '\'' :: replaceQuote cs else c :: replaceQuote cs

def hasChar (q : Char) : Str → Bool
  | [] => false
  | c :: cs => if c = q then true else hasChar q cs

def strTok (s : Str) : Str :=
  let e := escape s
  if hasChar '\'' e then
    if !hasChar '"' e then '"' :: (e ++ ['"'])
    else '\'' :: (replaceQuote e ++ ['\''])
  else '\'' :: (e ++ ['\''])

/-! ### `str(int)` -/

def digitChar (n : Nat) : Char := Char.ofNat (48 + n % 10)

def natStrAux : Nat → Nat → Str → Str
  | 0, _, acc => acc
  | fuel + 1, n, acc =>
    if n < 10 then digitChar n :: acc else natStrAux fuel (n / 10) (digitChar n :: acc)

/-- decimal digits of a natural number (fuel `n + 1` is more than its number of digits) -/
def natStr (n : Nat) : Str := natStrAux (n + 1) n []

def intStr : Int → Str
  | .ofNat n => natStr n
  | .negSucc n => '-' :: natStr (n + 1)

/-! ### PlaybookSerializer._obj / _dict / _list (serializer.py:22-40, 78-103) -/

/-- `_obj` on a scalar: `bool` is an `int` (`str(True)`), `None` falls through to `str(value)` -/
def serScalar : Scalar → Str
  | .str s => strTok s
  | .int n => intStr n
  | .bool true => ['T', 'r', 'u', 'e']
  | .bool false => ['F', 'a', 'l', 's', 'e']
  | .none => ['N', 'o', 'n', 'e']

def odOpen : Str := ['o', 'r', 'd', 'e', 'r', 'e', 'd', 'd', 'i', 'c', 't', '(']

mutual
def ser : PVal → Str
  | .sc s => serScalar s
  | .seq xs => '[' :: (serList xs ++ [']'])
  | .map [] => odOpen ++ [')']
  | .map (kv :: r) => odOpen ++ ('[' :: (serPairs (kv :: r) ++ [']', ')']))
/-- `", ".join(cls._obj(v) for v in value)` -/
def serList : List PVal → Str
  | [] => []
  | [x] => ser x
  | x :: y :: r => ser x ++ (',' :: ' ' :: serList (y :: r))
/-- `", ".join("({key}, {value})".format(key=cls._obj(k), value=cls._obj(v)) …)` -/
def serPairs : List (Scalar × PVal) → Str
  | [] => []
  | [(k, v)] => '(' :: (serScalar k ++ (',' :: ' ' :: (ser v ++ [')'])))
  | (k, v) :: y :: r =>
      '(' :: (serScalar k ++ (',' :: ' ' :: (ser v ++ (')' :: ',' :: ' ' :: serPairs (y :: r)))))
end

/-- `serialize_play` (before `.encode("utf-8")`) -/
def serializePlay (p : Play) : Str := ser (.map p)

/-! ### the decoder used by the injectivity proof (not Python code) -/

def push (c : Char) : Option (Str × Str) → Option (Str × Str)
  | some (s, r) => some (c :: s, r)
  | none => none

/-- body of a string token up to the closing quote `q` -/
def decBody (q : Char) : Str → Option (Str × Str)
  | [] => none
  | c :: r =>
    if c = '\\' then
      match r with
      | [] => none
      | d :: r1 =>
        if d = '\\' then push '\\' (decBody q r1)
        else if d = 'n' then push '\n' (decBody q r1)
        else if d = 't' then push '\t' (decBody q r1)
        else if d = '\'' then push '\'' (decBody q r1)
        else if d = 'u' then
          match r1 with
          | a :: b :: c' :: e :: r2 =>
            if a = '2' ∧ b = '0' ∧ c' = '0' then
              if e = 'b' then push '\u200b' (decBody q r2)
              else if e = 'c' then push '\u200c' (decBody q r2)
              else if e = 'd' then push '\u200d' (decBody q r2)
              else none
            else none
          | _ => none
        else none
    else if c = q then some ([], r)
    else push c (decBody q r)

def isDig (c : Char) : Bool := 48 ≤ c.toNat && c.toNat ≤ 57

def spanDig : Str → Str × Str
  | [] => ([], [])
  | c :: cs => if isDig c then ((c :: (spanDig cs).1), (spanDig cs).2) else ([], c :: cs)

def parseNat (ds : Str) : Nat := ds.foldl (fun a c => a * 10 + (c.toNat - 48)) 0

def decNat (s : Str) : Option (Nat × Str) :=
  match spanDig s with
  | ([], _) => none
  | (ds, r) => some (parseNat ds, r)

def stripPrefix : Str → Str → Option Str
  | [], s => some s
  | _ :: _, [] => none
  | p :: ps, c :: cs => if p = c then stripPrefix ps cs else none

def decScalar : Str → Option (Scalar × Str)
  | [] => none
  | c :: r =>
    if c = '\'' ∨ c = '"' then
      match decBody c r with
      | some (s, r') => some (.str s, r')
      | none => none
    else if c = 'T' then
      match stripPrefix ['r', 'u', 'e'] r with
      | some r' => some (.bool true, r')
      | none => none
    else if c = 'F' then
      match stripPrefix ['a', 'l', 's', 'e'] r with
      | some r' => some (.bool false, r')
      | none => none
    else if c = 'N' then
      match stripPrefix ['o', 'n', 'e'] r with
      | some r' => some (.none, r')
      | none => none
    else if c = '-' then
      match decNat r with
      | some (n, r') => some (.int (-(n : Int)), r')
      | none => none
    else
      match decNat (c :: r) with
      | some (n, r') => some (.int (n : Int), r')
      | none => none

mutual
def dec : Nat → Str → Option (PVal × Str)
  | 0, _ => none
  | _ + 1, [] => none
  | f + 1, c :: r =>
    if c = '[' then
      match r with
      | ']' :: r' => some (.seq [], r')
      | _ =>
        match decList f r with
        | some (xs, ']' :: r') => some (.seq xs, r')
        | _ => none
    else if c = 'o' then
      match stripPrefix odOpen.tail r with
      | some (')' :: r') => some (.map [], r')
      | some ('[' :: r1) =>
        (match decPairs f r1 with
         | some (kvs, ']' :: ')' :: r') => some (.map kvs, r')
         | _ => none)
      | _ => none
    else
      match decScalar (c :: r) with
      | some (s, r') => some (.sc s, r')
      | none => none
def decList : Nat → Str → Option (List PVal × Str)
  | 0, _ => none
  | f + 1, s =>
    match dec f s with
    | some (x, ',' :: ' ' :: r) =>
      (match decList f r with
       | some (xs, r') => some (x :: xs, r')
       | none => none)
    | some (x, r) => some ([x], r)
    | none => none
def decPairs : Nat → Str → Option (List (Scalar × PVal) × Str)
  | 0, _ => none
  | _ + 1, [] => none
  | f + 1, c :: s =>
    if c = '(' then
      match decScalar s with
      | some (k, ',' :: ' ' :: r) =>
        (match dec f r with
         | some (v, ')' :: ',' :: ' ' :: r') =>
           (match decPairs f r' with
            | some (kvs, r'') => some ((k, v) :: kvs, r'')
            | none => none)
         | some (v, ')' :: r') => some ([(k, v)], r')
         | _ => none)
      | _ => none
    else none
end

/-- total decoder: `decode (ser v ++ rest) = some (v, rest)` (Props/C18 `decode_ser`) -/
def decode (s : Str) : Option (PVal × Str) := dec (s.length + 1) s

/- fuel the decoder needs on `ser v` (never more than the length of the text: Lemmas `need_le_length`) -/
mutual
def need : PVal → Nat
  | .sc _ => 1
  | .seq xs => 1 + needL xs
  | .map kvs => 1 + needP kvs
def needL : List PVal → Nat
  | [] => 0
  | x :: r => 1 + need x + needL r
def needP : List (Scalar × PVal) → Nat
  | [] => 0
  | (_, v) :: r => 1 + need v + needP r
end

/-! ### Python string helpers used by `exclude_dynamic_elements` -/

/-- `str.split(sep)` for a one-character separator: always at least one piece -/
def splitOn (sep : Char) : Str → List Str
  | [] => [[]]
  | c :: cs =>
    if c = sep then [] :: splitOn sep cs
    else match splitOn sep cs with
      | [] => [[c]]            -- unreachable: splitOn never returns []
      | p :: ps => (c :: p) :: ps

def isPrefix : Str → Str → Bool
  | [], _ => true
  | _ :: _, [] => false
  | p :: ps, c :: cs => p = c && isPrefix ps cs

/-- `needle in haystack` for strings -/
def isInfix (needle : Str) : Str → Bool
  | [] => needle.isEmpty
  | c :: cs => isPrefix needle (c :: cs) || isInfix needle cs

/-! ### mapping operations with a string key (Python `d[k]`, `del d[k]`, `d[k] = v` in place) -/

def lookupStr (k : Str) : List (Scalar × PVal) → Option PVal
  | [] => none
  | (k', v) :: r => if k' = .str k then some v else lookupStr k r

/-- `del d[k]`; `none` = KeyError -/
def eraseStr (k : Str) : List (Scalar × PVal) → Option (List (Scalar × PVal))
  | [] => none
  | (k', v) :: r =>
    if k' = .str k then some r
    else match eraseStr k r with
      | some r' => some ((k', v) :: r')
      | none => none

/-- replace the value stored under an existing key, position unchanged -/
def setStr (k : Str) (v : PVal) : List (Scalar × PVal) → List (Scalar × PVal)
  | [] => []
  | (k', v') :: r => if k' = .str k then (k', v) :: r else (k', v') :: setStr k v r

/-! ### exclude_dynamic_elements (__init__.py:157-210) -/

/-- `verr` = PlaybookVerificationError; `crash` = any other Python exception escaping -/
inductive Err where
  | verr
  | crash
deriving DecidableEq, Repr

def sHosts : Str := ['h', 'o', 's', 't', 's']
def sVars : Str := ['v', 'a', 'r', 's']
/-- "insights_signature_exclude" -/
def sExclude : Str :=
  ['i', 'n', 's', 'i', 'g', 'h', 't', 's', '_', 's', 'i', 'g', 'n', 'a', 't', 'u', 'r', 'e', '_', 'e', 'x', 'c', 'l', 'u', 'd', 'e']
/-- "insights_signature" -/
def sSignature : Str :=
  ['i', 'n', 's', 'i', 'g', 'h', 't', 's', '_', 's', 'i', 'g', 'n', 'a', 't', 'u', 'r', 'e']
/-- "revoked_playbooks" -/
def sRevoked : Str :=
  ['r', 'e', 'v', 'o', 'k', 'e', 'd', '_', 'p', 'l', 'a', 'y', 'b', 'o', 'o', 'k', 's']
def sHash : Str := ['h', 'a', 's', 'h']

/-- `x in PLAYBOOK_DYNAMIC_LABELS` -/
def isLabel (s : Str) : Bool := s = sHosts || s = sVars

/-- `[string for string in element.split("/") if string != '']` -/
def pathOf (element : Str) : List Str := (splitOn '/' element).filter (fun s => !s.isEmpty)

/-- one iteration of the `for element in exclusions` loop (lines 179-202) -/
def exclStep (result : Play) (element : Str) : Except Err Play :=
  match pathOf element with
  | [a] =>
    if isLabel a then
      match eraseStr a result with
      | some r => .ok r
      | none => .error .verr
    else .error .verr
  | [a, b] =>
    if isLabel a then
      match lookupStr a result with
      | some (.map vs) =>
        (match eraseStr b vs with
         | some vs' => .ok (setStr a (.map vs') result)
         | none => .error .verr)
      | _ => .error .verr          -- KeyError / TypeError inside `try`, re-raised as verification error
    else .error .verr
  | _ => .error .verr

def exclLoop : Play → List Str → Except Err Play
  | result, [] => .ok result
  | result, e :: es =>
    match exclStep result e with
    | .ok r => exclLoop r es
    | .error x => .error x

/-- the value of `vars/insights_signature_exclude` as lines 170-182 see it (after fix 5a7421c) -/
inductive ExclList where
  | missing                 -- `vars` absent or not a mapping, or the key is not in it: verification error
  | text (e : Str)          -- a string: split on ','
  | nonstring               -- present but not a string: verification error
deriving Repr

def exclList (play : Play) : ExclList :=
  match lookupStr sVars play with
  | some (.map vs) =>
    (match lookupStr sExclude vs with
     | none => .missing
     | some (.sc (.str e)) => .text e
     | some _ => .nonstring)
  | _ => .missing             -- play.get('vars', {}) = {}  or  not isinstance(play_vars, dict)

def exclude (play : Play) : Except Err Play :=
  match exclList play with
  | .missing => .error .verr
  | .nonstring => .error .verr
  | .text e => exclLoop play (splitOn ',' e)

/-! #### the code before fix 5a7421c (kept only for the regression witness in Props/C18) -/

inductive ExclListOld where
  | missing                 -- `not in` is true: verification error
  | text (e : Str)
  | unusable                -- present but `.split` / indexing / `in` raised something else
deriving Repr

def seqHasStr (k : Str) : List PVal → Bool
  | [] => false
  | .sc (.str s) :: r => s = k || seqHasStr k r
  | _ :: r => seqHasStr k r

def exclListOld (play : Play) : ExclListOld :=
  match lookupStr sVars play with
  | none => .missing
  | some (.map vs) =>
    (match lookupStr sExclude vs with
     | none => .missing
     | some (.sc (.str e)) => .text e
     | some _ => .unusable)                            -- AttributeError: no `.split`
  | some (.sc (.str s)) => if isInfix sExclude s then .unusable else .missing   -- substring test, then str['…']
  | some (.seq xs) => if seqHasStr sExclude xs then .unusable else .missing     -- list membership, then list['…']
  | some (.sc _) => .unusable                          -- `in` on int / bool / None: TypeError

def excludeOld (play : Play) : Except Err Play :=
  match exclListOld play with
  | .missing => .error .verr
  | .unusable => .error .crash
  | .text e => exclLoop play (splitOn ',' e)

/-! ### verify_play (248-265), get_play_revocation_list (290-300), verify (303-332) -/

/-- presence checks + exclusion; returns the signed text and the signature value -/
def verifyPlay (play : Play) : Except Err (Str × PVal) :=
  match lookupStr sVars play with
  | some (.map vs) =>
    (match lookupStr sSignature vs with
     | none => .error .verr
     | some (.sc .none) => .error .verr
     | some sig =>
       match exclude play with
       | .ok cleaned => .ok (serializePlay cleaned, sig)
       | .error e => .error e)
  | _ => .error .verr

section Verify
variable {D : Type} [DecidableEq D]
/- `H` = SHA-256 of the UTF-8 bytes (uninterpreted); `sigDecodes sig` = `base64.b64decode(sig)` does
   not raise; `sigValid d sig` = GPG says `sig` signs `d`;
   `hashOf item` = `bytearray.fromhex(item['hash'])`, `none` when that raises. -/
variable (H : Str → D) (sigDecodes : PVal → Bool) (sigValid : D → PVal → Bool) (hashOf : PVal → Option D)

/-- `verify_play` including `execute_verification` (213-245): (GPG's verdict, digest) -/
def verifyPlayFull (play : Play) : Except Err (Bool × D) :=
  match verifyPlay play with
  | .error e => .error e
  | .ok (text, sig) =>
    if sigDecodes sig then .ok (sigValid (H text) sig, H text)
    else .error .crash

/-- the `for revoked_item in revocation_list` loop -/
def revokedLoop (d : D) : List PVal → Except Err Unit
  | [] => .ok ()
  | it :: r =>
    match hashOf it with
    | none => .error .crash
    | some h => if d = h then .error .verr else revokedLoop d r

/-- `get_play_revocation_list` after the YAML was loaded: the revocation document is itself a
signed play; `revoked_plays.get("revoked_playbooks", [])`.  `none` = a value the `for` cannot iterate. -/
def revocationList (rplay : Play) : Except Err (Option (List PVal)) :=
  match verifyPlayFull H sigDecodes sigValid rplay with
  | .error e => .error e
  | .ok (valid, _) =>
    if valid then
      match lookupStr sRevoked rplay with
      | none => .ok (some [])
      | some (.seq items) => .ok (some items)
      | some (.map kvs) => .ok (some (kvs.map (fun kv => .sc kv.1)))       -- iterating a mapping: its keys
      | some (.sc (.str s)) => .ok (some (s.map (fun c => .sc (.str [c]))))  -- iterating a string: its characters
      | some (.sc _) => .ok none                                            -- not iterable: the `for` raises
    else .error .verr

/-- `verify(play)`: `ok` = the play is returned (accepted) -/
def verify (rplay : Play) (play : Play) : Except Err Unit :=
  if play.isEmpty then .error .verr else
  match revocationList H sigDecodes sigValid rplay with
  | .error e => .error e
  | .ok revoked =>
    match verifyPlayFull H sigDecodes sigValid play with
    | .error e => .error e
    | .ok (valid, d) =>
      if valid then
        match revoked with
        | some items => revokedLoop hashOf d items
        | none => .error .crash
      else .error .verr
/-- one call of `verify` in a process: the revocation document it finds and the play it is given -/
structure Call where
  rplay : Play
  play : Play

/-- what a process that verifies one play after the other answers (`__main__` loops over the plays of a
playbook): the verifier keeps no state, every answer is `verify` of that call -/
def runHistory (calls : List Call) : List (Except Err Unit) :=
  calls.map (fun c => verify H sigDecodes sigValid hashOf c.rplay c.play)

end Verify

/-! ### the glue around GPG: get_public_key (138-154), execute_verification (213-245), __main__.py -/

/-- what `get_public_key` sees: is `PUBLIC_KEY_PATH` truthy (the key file shipped with the egg was found
and is not empty), and `import_results.count` as GPG answered it -/
structure Key where
  present : Bool
  count : Int
deriving Repr, DecidableEq

/-- `get_public_key` does not raise: `PUBLIC_KEY_PATH` truthy and not `import_results.count < 1` -/
def keyOk (k : Key) : Bool := k.present && decide (1 ≤ k.count)

section Glue
variable {D : Type} [DecidableEq D]
variable (H : Str → D) (sigDecodes : PVal → Bool) (sigValid : D → PVal → Bool) (hashOf : PVal → Option D)

/-- `verify_play` + `execute_verification` with the key import as it is written: serialise, hash,
`base64.b64decode` (may raise), THEN `get_public_key` (verification error), then `gpg.verify_data` -/
def verifyPlayFullK (k : Key) (play : Play) : Except Err (Bool × D) :=
  match verifyPlay play with
  | .error e => .error e
  | .ok (text, sig) =>
    if sigDecodes sig then
      if keyOk k then .ok (sigValid (H text) sig, H text) else .error .verr
    else .error .crash

def revocationListK (k : Key) (rplay : Play) : Except Err (Option (List PVal)) :=
  match verifyPlayFullK H sigDecodes sigValid k rplay with
  | .error e => .error e
  | .ok (valid, _) =>
    if valid then
      match lookupStr sRevoked rplay with
      | none => .ok (some [])
      | some (.seq items) => .ok (some items)
      | some (.map kvs) => .ok (some (kvs.map (fun kv => .sc kv.1)))
      | some (.sc (.str s)) => .ok (some (s.map (fun c => .sc (.str [c]))))
      | some (.sc _) => .ok none
    else .error .verr

/-- `verify(play)` with the key import -/
def verifyK (k : Key) (rplay : Play) (play : Play) : Except Err Unit :=
  if play.isEmpty then .error .verr else
  match revocationListK H sigDecodes sigValid k rplay with
  | .error e => .error e
  | .ok revoked =>
    match verifyPlayFullK H sigDecodes sigValid k play with
    | .error e => .error e
    | .ok (valid, d) =>
      if valid then
        match revoked with
        | some items => revokedLoop hashOf d items
        | none => .error .crash
      else .error .verr
/-- what `get_play_revocation_list` gets out of the YAML of the revocation list: nothing usable (the text does not
load, or the loaded value has no `[0]`: empty, a mapping, a scalar — all inside the `try`), a first entry that is not
a mapping (`verify_play` calls `.get` on it, outside the `try`), or a play -/
inductive RDoc where
  | unloadable
  | notMapping
  | play (p : Play)
deriving Repr

/-- `verify(play)` from the revocation list's text on -/
def verifyDoc (k : Key) (rdoc : RDoc) (play : Play) : Except Err Unit :=
  if play.isEmpty then .error .verr else
  match rdoc with
  | .unloadable => .error .verr
  | .notMapping => .error .crash
  | .play r => verifyK H sigDecodes sigValid hashOf k r play
end Glue

/-! ### the int -> str digit limit (Python >= 3.11: `str(n)` raises ValueError for |n| >= 10**4300) -/

/-- `sys.get_int_max_str_digits()` = 4300: `str(n)` is refused when `n` has more than 4300 decimal digits.
`intStr` above is total (defined for every integer); the implementation is not: the guard is stated here. -/
def intLimit : Nat := 10 ^ 4300

def scalarRefused : Scalar → Bool
  | .int n => decide (intLimit ≤ n.natAbs)
  | _ => false

mutual
/-- does serialising the value reach an integer (as value, sequence item, mapping key or mapping value, at any depth) that `str()` refuses -/
def refused : PVal → Bool
  | .sc s => scalarRefused s
  | .seq xs => refusedL xs
  | .map kvs => refusedP kvs
def refusedL : List PVal → Bool
  | [] => false
  | x :: r => refused x || refusedL r
def refusedP : List (Scalar × PVal) → Bool
  | [] => false
  | (k, v) :: r => scalarRefused k || refused v || refusedP r
end

/-- `PlaybookSerializer.serialize` as it behaves: `none` = ValueError, no text -/
def serG (v : PVal) : Option Str := if refused v then none else some (ser v)

/-- `verify_play` up to the digest with the guard: the integers of the CLEANED play are what is serialised
(one inside an excluded element is never printed); the ValueError is not caught anywhere: `crash`, no digest -/
def verifyPlayG (play : Play) : Except Err (Str × PVal) :=
  match verifyPlay play with
  | .error e => .error e
  | .ok (text, sig) =>
    match exclude play with
    | .ok cleaned => if refused (.map cleaned) then .error .crash else .ok (text, sig)
    | .error e => .error e

/-- exclude_dynamic_elements + serialize_play with the guard -/
def excludeSerG (play : Play) : Except Err Str :=
  match exclude play with
  | .ok cleaned => if refused (.map cleaned) then .error .crash else .ok (serializePlay cleaned)
  | .error e => .error e

/-- how `python -m …playbook_verifier` ends: exit 0, exit `sig_kill_bad` with the error's message, or a traceback -/
inductive Exit where
  | ok
  | bad
  | crash
deriving DecidableEq, Repr

/-- `for play in plays: verify(play)` over the answers of `verify` for the top-level entries in order
(`none` = an entry that is not a mapping: `play.get` raises AttributeError): the first answer that is
not `ok` ends the process -/
def mainLoop : List (Option (Except Err Unit)) → Exit
  | [] => .ok
  | none :: _ => .crash
  | some (.ok ()) :: r => mainLoop r
  | some (.error .verr) :: _ => .bad
  | some (.error .crash) :: _ => .crash

/-- `__main__`: `skip` = the environment has a non-empty SKIP_VERIFY; `doc` = the top-level entries of the
loaded text (`none`: `load_playbook_yaml` raised its verification error).  Answer: (exit, is the playbook printed) -/
def mainRun (skip : Bool) (doc : Option (List (Option (Except Err Unit)))) : Exit × Bool :=
  if skip then (.ok, true)
  else match doc with
    | none => (.bad, false)
    | some es => (mainLoop es, mainLoop es == .ok)

end IV.Playbook
