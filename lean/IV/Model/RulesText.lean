import IV.Model.Rules

/-!
# The text formatter's accounting (insights/formats/text.py, HumanReadableFormat.show_description)

`show_description` walks `broker.get_by_type(rule)` — the rules whose value is in the broker — AFTER the run, reads
`v.get('type')` of each value, adds one to `counts[type]` when the type is one of the nine labelled ones, and prints
the rule under the label of its type when the options select it:
`(missing and type == 'skip') or (show_rules and type in show_rules) or (not show_rules and type not in ['skip', 'none'])`.
Printing a rule whose type has no label raises KeyError (`self.responses[v["type"]]`), which ends `postprocess`.
The model works on the broker part of the evaluator state (`St.inst`), so the theorems of `IV.Props.C12` can relate
the text summary to the evaluator's own lists.
-/

namespace IV.Rules

def sException : Str := "exception".toList

/-- the keys of `HumanReadableFormat.responses` -/
def textLabels : List Str :=
  [sSkip, sPass, sRule, sInfo, sNoneT, sMetadata, sMetadataKey, sFingerprint, sException]

/-- `v.get('type')` of a stored response (`none`: no such field or not a string — the loop `continue`s / outside) -/
def respType (resp : Resp) : Option Str :=
  match lookup sType resp.fields with
  | some (.str t) => some t
  | _ => none

/-- the rules in the broker with the type of their value: what the loop of `show_description` sees -/
def textRows : List (Comp × Option Resp) → List (Comp × Str)
  | [] => []
  | (c, some resp) :: rest =>
    match respType resp with
    | some t => (c, t) :: textRows rest
    | none => textRows rest
  | (_, none) :: rest => textRows rest

/-- `counts[t]` of the "Rule Execution Summary" for a labelled type other than 'exception' -/
def textCount (t : Str) (inst : List (Comp × Option Resp)) : Nat :=
  ((textRows inst).filter (fun p => p.2 = t)).length

/-- the selection condition of `show_description` -/
def textSelected (missing : Bool) (showRules : List Str) (t : Str) : Bool :=
  (missing && t = sSkip) || (!showRules.isEmpty && showRules.contains t) ||
  (showRules.isEmpty && !(t = sSkip) && !(t = sNoneT))

/-- the rules printed under a label (`none`: a selected rule has a type without label — KeyError) -/
def textPrinted (missing : Bool) (showRules : List Str) (inst : List (Comp × Option Resp)) : Option (List (Comp × Str)) :=
  let sel := (textRows inst).filter (fun p => textSelected missing showRules p.2)
  if sel.all (fun p => textLabels.contains p.2) then some sel else none

end IV.Rules

/-! ### evaluation on a thread pool: the pre-fix behaviour (regression model, fix c9df167)

`Broker.fire_observers` logs and swallows an exception raised by an observer.  Before c9df167, when components were
evaluated on several threads (`run_incremental` with `parallel=True`), `Evaluator.observer` could raise `RuntimeError:
dictionary changed size during iteration` from its walk over `broker.instances`; `ok = false` stands for such a call:
the value is in the broker, the observer has not dealt with it — a failing observer call loses the outcome.  The code
now walks a snapshot (`list(self.broker.instances)`) and cannot fail there, i.e. every call has `ok = true`. -/

namespace IV.Rules

def fireObserver (ok : Bool) (st : St) (r : Rule) : St := if ok then observe st r else st

def stepPooled (env : Env) (st : St) (x : Rule × Bool) : St :=
  let r := x.1
  let st1 := if !st.present.contains r.id && r.enabled then applyProc env st r (process env st.present r) else st
  fireObserver x.2 st1 r

def runPooled (env : Env) (seed : List Comp) (xs : List (Rule × Bool)) : St :=
  xs.foldl (stepPooled env) (St.init seed)

end IV.Rules
