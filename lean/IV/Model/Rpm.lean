/-
Model of insights/parsers/rpm_vercmp.py and of the comparison operators of
insights/parsers/installed_rpms.py (InstalledRpm.__eq__/__lt__/…, get_max/get_min).

`vercmp` is `_rpm_vercmp`: the `a == b` shortcut, the non-ASCII → '.' normalisation and the
while-loop.  The loop body is written as a table over the class of the two
separator-skipped heads (end / '~' / '^' / digit / alpha); each cell is one path through
the Python if-ladder.  Fuel is |a| + |b| + 1; `loop_fuel` (Lemmas) shows it suffices.
-/
namespace IV.Rpm

abbrev Str := List Char

def isDigit (c : Char) : Bool := c.isDigit
def isAlpha (c : Char) : Bool := c.isAlpha
def isAlnum (c : Char) : Bool := c.isDigit || c.isAlpha
/-- `x[0] and not x[0].isalnum() and x[0] not in "~^"` -/
def isSep (c : Char) : Bool := !isAlnum c && c != '~' && c != '^'

/-- `c if ord(c) < 128 else "."` -/
def norm (s : Str) : Str := s.map (fun c => if c.toNat < 128 then c else '.')

def skipSep : Str → Str
  | [] => []
  | c :: cs => if isSep c then skipSep cs else c :: cs

def stripZeros : Str → Str
  | [] => []
  | c :: cs => if c = '0' then stripZeros cs else c :: cs

/-- Python's `l > r` / `l < r` on deques of one-character strings, as -1/0/1 -/
def lexCmp : Str → Str → Int
  | [], [] => 0
  | [], _ :: _ => -1
  | _ :: _, [] => 1
  | a :: as, b :: bs => if a < b then -1 else if b < a then 1 else lexCmp as bs

/-- comparison of two non-empty segments of the same kind -/
def segCmp (isnum : Bool) (l r : Str) : Int :=
  if isnum then
    let l' := stripZeros l; let r' := stripZeros r
    if l'.length > r'.length then 1
    else if r'.length > l'.length then -1
    else lexCmp l' r'
  else lexCmp l r

inductive Cls | eof | tilde | caret | dig | alp
deriving DecidableEq, Repr

/-- class of the head of a separator-skipped string -/
def cls (s : Str) : Cls :=
  match s with
  | [] => .eof
  | c :: _ => if c = '~' then .tilde else if c = '^' then .caret else if isDigit c then .dig else .alp

/-- one pass through the body of the while-loop, on separator-skipped strings; `rec` is the
next iteration -/
def step (rec : Str → Str → Int) (a b : Str) : Int :=
  match cls a, cls b with
  | .tilde, .tilde => rec a.tail b.tail
  | .tilde, _ => -1
  | _, .tilde => 1
  | .caret, .caret => rec a.tail b.tail
  | .eof, .caret => -1
  | .caret, .eof => 1
  | .caret, _ => -1
  | _, .caret => 1
  | .eof, .eof => 0
  | .eof, _ => -1
  | _, .eof => 1
  | .dig, .alp => 1
  | .alp, .dig => -1
  | .dig, .dig =>
    let l := a.takeWhile isDigit; let r := b.takeWhile isDigit
    let c := segCmp true l r
    if c != 0 then c else rec (a.drop l.length) (b.drop r.length)
  | .alp, .alp =>
    let l := a.takeWhile isAlpha; let r := b.takeWhile isAlpha
    let c := segCmp false l r
    if c != 0 then c else rec (a.drop l.length) (b.drop r.length)

def loop (fuel : Nat) (a b : Str) : Int :=
  match fuel with
  | 0 => 0
  | fuel + 1 =>
    if a.isEmpty && b.isEmpty then 0            -- `while a[0] or b[0]`
    else step (loop fuel) (skipSep a) (skipSep b)

/-- `_rpm_vercmp(a, b)` -/
def vercmp (a b : Str) : Int :=
  if a = b then 0 else loop (a.length + b.length + 1) (norm a) (norm b)

/-- epoch / version / release as `rpm_version_compare` reads them (`int(epoch)` done by the caller) -/
structure Evr where
  epoch : Int
  version : Str
  release : Str
deriving DecidableEq, Repr

/-- `rpm_version_compare` (without the `left is right` identity shortcut, which returns the
same 0 that the comparison of a value with itself returns — theorem `evrCmp_refl`) -/
def evrCmp (l r : Evr) : Int :=
  if l.epoch < r.epoch then -1
  else if l.epoch > r.epoch then 1
  else
    let rc := vercmp l.version r.version
    if rc != 0 then rc else vercmp l.release r.release

structure Pkg where
  name : Str
  evr : Evr
deriving DecidableEq, Repr

/-- the rich comparison operators of `InstalledRpm`, as written; `none` = the ValueError for
differing names -/
def pkgEq (a b : Pkg) : Option Bool :=
  if a.name ≠ b.name then none else some (evrCmp a.evr b.evr == 0)

def pkgLt (a b : Pkg) : Option Bool :=
  match pkgEq a b with
  | none => none
  | some true => some false
  | some false => some (evrCmp a.evr b.evr < 0)

def pkgNe (a b : Pkg) : Option Bool := (pkgEq a b).map not
def pkgGt (a b : Pkg) : Option Bool := pkgLt b a
def pkgGe (a b : Pkg) : Option Bool := (pkgLt a b).map not
def pkgLe (a b : Pkg) : Option Bool := (pkgLt b a).map not

/-- Python's `max(xs)`: keeps the first maximal element (`if item > best`) -/
def pyMax : List Evr → Option Evr
  | [] => none
  | x :: xs => some (xs.foldl (fun best y => if evrCmp best y < 0 then y else best) x)

/-- Python's `min(xs)`: keeps the first minimal element (`if item < best`) -/
def pyMin : List Evr → Option Evr
  | [] => none
  | x :: xs => some (xs.foldl (fun best y => if evrCmp y best < 0 then y else best) x)

end IV.Rpm
