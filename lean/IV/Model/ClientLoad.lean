import IV.Gen.ClientConfig
/-
Hand-written model of the option LOADER of insights/client/config.py (C16); the decision code
(`_imply_options`, `_validate_options`, the option table) is the GENERATED IV.Gen.ClientConfig.

  config.py:488-502  __init__            -> `construct`
  config.py:519-542  _update_dict        -> `updateDict`  (`effective` = what one call contributes)
  config.py:544-586  _load_env           -> `envDict`
  config.py:588-625  _load_command_line  -> `cliDict`  (argparse itself is platform: the model gets
                                            the switches as (destination, optional argument) pairs)
  config.py:627-666  _load_config_file   -> `fileDict` (ConfigParser.RawConfigParser — the translator pins that constructor, `fileParser` — is platform: NO interpolation; the model gets the RAW
                                            items of the section, keys already lower-cased)
  config.py:667-678  load_all            -> `preImply` (the four updates) then `finish` (imply, validate)
  config.py:881-919  _determine_filename_and_extension -> `detMeth` / `detRaises` (instantiates `env.meth`)
  `concreteEnv` instantiates the external calls from a table of file-system facts.

A dict is an insertion-ordered association list (`Dict`); a store (`__dict__`) is one too.
-/
namespace IV.ClientLoad
open IV.ClientVal IV.ClientConfig

abbrev Dict := List (Str × PyVal)

/-- `d[k]` (first entry with that key; stores never hold a key twice) -/
def dget : Dict → Str → Option PyVal
  | [], _ => none
  | (k', v) :: d, k => if k' = k then some v else dget d k

/-- the entry a dict built from these pairs would hold: the LAST one with that key -/
def dlast : Dict → Str → Option PyVal
  | [], _ => none
  | (k', v) :: d, k => match dlast d k with
    | some w => some w
    | none => if k' = k then some v else none

/-- `d[k] = v` -/
def dput : Dict → Str → PyVal → Dict
  | [], k, v => [(k, v)]
  | (k', v') :: d, k, v => if k' = k then (k', v) :: d else (k', v') :: dput d k v

/-- `s.update(d)` -/
def dupdate (s d : Dict) : Dict := d.foldl (fun s kv => dput s kv.1 kv.2) s

/-- `dict(pairs)` -/
def dofPairs (d : Dict) : Dict := dupdate [] d

def optNames : List Str := optTable.map (·.name)
def defaults : Dict := optTable.map (fun o => (o.name, o.default))
/-- DEFAULT_BOOLS: options whose default `type(v) is bool` -/
def isDefaultBool (k : Str) : Bool :=
  optTable.any (fun o => o.name == k && (match o.default with | .bool _ => true | _ => false))
def cliKind (k : Str) : CliKind :=
  match optTable.find? (fun o => o.name == k) with
  | some o => o.cli
  | none => .none

/-! ### strings (ASCII case mapping: see the harness assumptions) -/

def lowerC (c : Char) : Char := if 'A' ≤ c ∧ c ≤ 'Z' then Char.ofNat (c.toNat + 32) else c
def upperC (c : Char) : Char := if 'a' ≤ c ∧ c ≤ 'z' then Char.ofNat (c.toNat - 32) else c
def lower (s : Str) : Str := s.map lowerC
def upper (s : Str) : Str := s.map upperC

def isWs (c : Char) : Bool := c = ' ' || c = '\t' || c = '\n' || c = '\r' || c.toNat = 11 || c.toNat = 12
def lstripWs : Str → Str
  | [] => []
  | c :: cs => if isWs c then lstripWs cs else c :: cs
def stripWs (s : Str) : Str := (lstripWs (lstripWs s).reverse).reverse

def startsWith : Str → Str → Bool
  | _, [] => true
  | [], _ :: _ => false
  | c :: cs, p :: ps => c == p && startsWith cs ps
def endsWith (s p : Str) : Bool := startsWith s.reverse p.reverse

def digitVal (c : Char) : Option Nat := if '0' ≤ c ∧ c ≤ '9' then some (c.toNat - 48) else none

/-- digits with single underscores between them, as `int()` / `float()` allow; `none` if malformed.
Returns (value, number of digits). -/
def digitsVal : Str → Option (Nat × Nat)
  | [] => none
  | c :: cs =>
    let rec go : Str → Nat → Nat → Bool → Option (Nat × Nat)
      | [], acc, n, afterUnderscore => if afterUnderscore then none else some (acc, n)
      | c :: cs, acc, n, afterUnderscore =>
        if c = '_' then (if afterUnderscore then none else go cs acc n true)
        else match digitVal c with
          | some d => go cs (acc * 10 + d) (n + 1) false
          | none => none
    match digitVal c with
    | some d => go cs d 1 false
    | none => none

def splitSign (s : Str) : Bool × Str :=
  match s with
  | '-' :: r => (true, r)
  | '+' :: r => (false, r)
  | _ => (false, s)

/-- `int(s)` for a str: surrounding ASCII whitespace, optional sign, ASCII decimal digits -/
def parseInt (s : Str) : Option Int :=
  let (neg, r) := splitSign (stripWs s)
  match digitsVal r with
  | some (n, _) => some (if neg then -(n : Int) else n)
  | none => none

def normDec : Nat → Int → Nat → Int × Nat
  | 0, n, e => (n, e)
  | fuel + 1, n, e => if e > 0 ∧ n % 10 = 0 then normDec fuel (n / 10) (e - 1) else (n, e)

/-- `float(s)` for plain decimal literals `[ws][sign]digits[.digits][ws]`, `[sign].digits`
(no exponent, inf, nan: the generator does not produce them), as a normalised decimal -/
def parseFloat (s : Str) : Option (Int × Nat) :=
  let (neg, r) := splitSign (stripWs s)
  let ip := r.takeWhile (· != '.')
  let rest := r.dropWhile (· != '.')
  let mk (n : Nat) (e : Nat) : Option (Int × Nat) :=
    let z : Int := if neg then -(n : Int) else n
    some (normDec e z e)
  match rest with
  | [] => match digitsVal ip with
    | some (n, _) => mk n 0
    | none => none
  | _ :: fp =>
    match ip, fp with
    | [], [] => none
    | _, [] => match digitsVal ip with
      | some (n, _) => mk n 0
      | none => none
    | [], _ => match digitsVal fp with
      | some (m, k) => mk m k
      | none => none
    | _, _ => match digitsVal ip, digitsVal fp with
      | some (n, _), some (m, k) => mk (n * 10 ^ k + m) k
      | _, _ => none

/-! ### `_update_dict` (config.py:519-542) -/

/-- `self._init_attrs` as far as it matters: the methods of the class and `_print_errors`
(dunder names cannot be option names either) -/
def protectedNames : List Str :=
  ["_print_errors", "_determine_filename_and_extension", "_imply_options", "_load_command_line",
   "_load_config_file", "_load_env", "_set_app_config", "_update_dict", "_validate_options",
   "load_all"].map String.toList

def kNoGpg : Str := ['n', 'o', '_', 'g', 'p', 'g']
def kGpg : Str := ['g', 'p', 'g']

/-- what one `_update_dict(d)` call writes: class attributes filtered, the `no_gpg` rule, unknown
options dropped -/
def effective (d : Dict) : Dict :=
  let d1 : Dict := d.filter (fun kv => !protectedNames.contains kv.1)
  let d2 : Dict := match dget d1 kNoGpg with
    | some v => if truthy v then dput d1 kGpg (.bool false) else d1
    | none => d1
  d2.filter (fun kv => optNames.contains kv.1)

def updateDict (s d : Dict) : Dict := dupdate s (effective d)

/-! ### the three loaders' coercions -/

/-- `_boolify` -/
def boolify (v : Str) : PyVal :=
  if lower v = "true".toList then .bool true
  else if lower v = "false".toList then .bool false
  else .str v

def kRetries : Str := "retries".toList
def kCmdTimeout : Str := "cmd_timeout".toList
def kHttpTimeout : Str := "http_timeout".toList
def kConf : Str := ['c', 'o', 'n', 'f']

/-- `int(v)` / `float(v)` on a boolified environment value -/
def envNum (k : Str) (v : PyVal) : Option PyVal :=
  match v with
  | .bool b => if k = kHttpTimeout then some (.flt (if b then 1 else 0) 0) else some (.int (if b then 1 else 0))
  | .str s =>
    if k = kHttpTimeout then (parseFloat s).map (fun x => .flt x.1 x.2)
    else (parseInt s).map .int
  | _ => none

def insightsPrefix : Str := "INSIGHTS_".toList

/-- the dict comprehension of `_load_env`: INSIGHTS_* variables except INSIGHTS_PHASE, key = text
after the first underscore in lower case, later variables win -/
def envRaw (vars : List (Str × Str)) : Dict :=
  dofPairs ((vars.filter (fun kv => startsWith (upper kv.1) insightsPrefix
      && upper kv.1 != "INSIGHTS_PHASE".toList)).map (fun kv => ((lower kv.1).drop 9, boolify kv.2)))

/-- `_load_env` up to the final `_update_dict`; `none` = ValueError (invalid number) -/
def envDict (vars : List (Str × Str)) : Option Dict :=
  [kRetries, kCmdTimeout, kHttpTimeout].foldl (fun acc k => match acc with
    | none => none
    | some d => match dget d k with
      | none => some d
      | some v => match envNum k v with
        | some n => some (dput d k n)
        | none => none) (some (envRaw vars))

/-- RawConfigParser.getboolean -/
def getBoolean (v : Str) : Option Bool :=
  let l := lower v
  if l = "1".toList || l = "yes".toList || l = "true".toList || l = "on".toList then some true
  else if l = "0".toList || l = "no".toList || l = "false".toList || l = "off".toList then some false
  else none

/-- the per-key coercion of `_load_config_file`; `none` = ValueError -/
def fileCoerce (k : Str) (v : Str) : Option PyVal :=
  if k = kRetries || k = kCmdTimeout then (parseInt v).map .int
  else if k = kHttpTimeout then (parseFloat v).map (fun x => .flt x.1 x.2)
  else if isDefaultBool k then (getBoolean v).map .bool
  else some (.str v)

def coerceAll : List (Str × Str) → Option Dict
  | [] => some []
  | (k, v) :: r => match fileCoerce k v, coerceAll r with
    | some x, some d => some ((k, x) :: d)
    | _, _ => none

/-- what the parser found at the path in `conf` -/
inductive FileSrc where
  /-- unreadable, missing, or without a recognised section: "using defaults" -/
  | absent
  /-- the items of section [insights-client] -/
  | section (items : List (Str × Str))
  /-- only the legacy section [redhat-access-insights] exists -/
  | legacy (items : List (Str × Str))

/-- the items of the section that was found (`section` in the code: [insights-client], else the legacy
[redhat-access-insights]); typed options are re-read with getint/getfloat/getboolean FROM THAT SECTION
(config.py:642-660), so both sections are coerced alike -/
def FileSrc.items? : FileSrc → Option (List (Str × Str))
  | .absent => none
  | .section items => some items
  | .legacy items => some items

/-- `_load_config_file` up to the final `_update_dict`; a ValueError drops the whole file -/
def fileDict (f : FileSrc) : Dict :=
  match f.items? with
  | none => []
  | some items => match coerceAll items with
    | some d => dofPairs d
    | none => []

/-- one command-line switch: `none` = not a switch of the table, `some none` = argparse error -/
def cliValue (k : Str) (arg : Option Str) : Option (Option PyVal) :=
  match cliKind k, arg with
  | .storeTrue, none => some (some (.bool true))
  | .storeFalse, none => some (some (.bool false))
  | .store, some a => some (some (.str a))
  | .storeInt, some a => some ((parseInt a).map .int)
  | .optConst, none => some (some (.bool true))
  | .optConst, some a => some (some (.str a))
  | _, _ => none

inductive CliRes where
  | dict (d : Dict)
  /-- argparse called sys.exit(2) -/
  | exit
  /-- the request is not a well-formed command line for the table -/
  | bad

def cliDict : List (Str × Option Str) → CliRes
  | [] => .dict []
  | (k, a) :: r => match cliValue k a, cliDict r with
    | none, _ => .bad
    | _, .bad => .bad
    | some none, _ => .exit
    | _, .exit => .exit
    | some (some v), .dict d => .dict ((k, v) :: d)

/-! ### concrete environment -/

/-- (function name, argument, result) -/
abbrev Facts := List (Str × PyVal × PyVal)

def Facts.find (f : Facts) (fn : Str) (arg : PyVal) : PyVal :=
  match f.find? (fun x => x.1 == fn && x.2.1 == arg) with
  | some x => x.2.2
  | none => .obj false "missing-fact".toList

def rstripChars (s chars : Str) : Str := (s.reverse.dropWhile (fun c => chars.contains c)).reverse

/-- posixpath.dirname -/
def dirname (p : Str) : Str :=
  let head := (p.reverse.dropWhile (· != '/')).reverse
  if !head.isEmpty && head.any (· != '/') then rstripChars head ['/'] else head

def manifestTag (k : Str) : PyVal := .obj true ("manifest:".toList ++ k)

def concreteCall (facts : Facts) (fn : Str) (args : List PyVal) : PyVal :=
  if fn = "os.path.dirname".toList then
    match args with | [.str p] => .str (dirname p) | _ => .obj false "bad-call".toList
  else if fn = ".rstrip".toList then
    match args with | [.str s, .str cs] => .str (rstripChars s cs) | _ => .obj false "bad-call".toList
  else if fn = ".startswith".toList then
    match args with | [.str s, .str p] => .bool (startsWith s p) | _ => .obj false "bad-call".toList
  else if fn = "manifests.get".toList then
    match args with
    | [.str k] => if manifestKeys.contains k then manifestTag k else .none
    | [_] => .none
    | _ => .obj false "bad-call".toList
  else if fn = "content_types.get".toList then
    match args with
    | [.str k] => match contentTypes.find? (fun x => x.1 == k) with
      | some x => .str x.2
      | none => .none
    | [_] => .none
    | _ => .obj false "bad-call".toList
  else match args with
    | [a] => facts.find fn a
    | _ => .obj false "bad-call".toList

def kDet : Str := "_determine_filename_and_extension".toList

/-- `_tar_ext` -/
def tarExt (comp : Str) : Str := ".tar".toList ++ (if comp = "none".toList then [] else '.' :: comp)

/-- config.py:881-919 as a function of (compressor, output_file): the new (compressor, output_file) -/
def detFilename (compressor outputFile : PyVal) : PyVal × PyVal :=
  match outputFile with
  | .str f =>
    match validCompressors.find? (fun x => endsWith f (tarExt x)) with
    | some x => (.str x, .str f)
    | none => match compressor with
      | .str comp => (compressor, .str (f ++ tarExt comp))
      | _ => (compressor, .obj false "bad-compressor".toList)
  | _ => (compressor, .obj false "bad-output-file".toList)

def detMeth (m : Str) (args : List PyVal) (a : Attr) : PyVal :=
  if m = kDet then
    match args with
    | [comp, f] =>   -- methReads kDet = [compressor, output_file]
      if a.name = "compressor".toList then (detFilename comp f).1
      else if a.name = "output_file".toList then (detFilename comp f).2
      else .obj false "bad-meth-attr".toList
    | _ => .obj false "bad-meth-args".toList
  else .obj false "unknown-meth".toList

def detRaises (facts : Facts) (m : Str) (args : List PyVal) : Bool :=
  if m = kDet then
    match args with
    | [_, f] => truthy (facts.find "os.path.isdir".toList f)
    | _ => false
  else false

/-- `cli` = `self._cli_opts` (`none` while the constructor runs) -/
def concreteEnv (facts : Facts) (printErrors : Bool) (cli : Option Dict) : Env where
  call := concreteCall facts
  meth := detMeth
  methRaises := detRaises facts
  priv := fun n =>
    if n = "_print_errors".toList then .bool printErrors
    else if n = "_cli_opts".toList then (match cli with | some d => .obj (!d.isEmpty) [] | none => .none)
    else .obj false "unknown-private".toList
  privHas := fun n k =>
    n = "_cli_opts".toList && (match cli with | some d => (dget d k).isSome | none => false)

/-! ### `__init__` and `load_all` -/

def toCfg (s : Dict) : Cfg := fun a => (dget s a.name).getD .none

def attrOfName (k : Str) : Option Attr := Attr.all.find? (fun a => a.name == k)

/-- write the attributes back into `__dict__` -/
def fromCfg (c : Cfg) (s : Dict) : Dict :=
  s.map (fun kv => match attrOfName kv.1 with
    | some a => (kv.1, c a)
    | none => kv)

inductive Outcome where
  | ok (s : Dict)
  /-- ValueError; the static prefix of its message -/
  | valueError (msg : Str)
  /-- SystemExit from argparse -/
  | exit
  /-- malformed request (never a behaviour of the code) -/
  | bad

/-- `_imply_options(); _validate_options()` on a store.  (`implySnap … ` is bound once as data;
`Cfg.ofSnap (implySnap env (Cfg.snap c))` is `imply env c` by definition.) -/
def finish (env : Env) (s : Dict) : Outcome :=
  let vs := implySnap env (Cfg.snap (toCfg s))
  let c := Cfg.ofSnap vs
  if truthy (c Attr.raised_) then .valueError []
  else match firstGuard env c with
    | some j => .valueError (guardMsgs.getD j [])
    | none => .ok (fromCfg c s)

structure Input where
  kwargs : Dict                           -- InsightsConfig(**kwargs)
  posArgs : Dict := []                    -- InsightsConfig(args[0], **kwargs): the positional dict (config.py:497-498)
  files : List (Str × FileSrc)            -- what the parser finds at each path
  envVars : List (Str × Str)              -- os.environ, in order
  cli : List (Str × Option Str)           -- sys.argv[1:] as (destination, argument)
  facts : Facts
  printErrors : Bool

/-- the store `__init__` builds before its own `_imply_options(); _validate_options()`: the defaults, then the
positional dict `args[0]` when there is one (an absent one is the empty dict), then the keyword arguments -/
def constructStore (inp : Input) : Dict :=
  updateDict (updateDict (updateDict [] defaults) inp.posArgs) inp.kwargs

/-- `InsightsConfig(*args, **kwargs)` (config.py:488-502) -/
def construct (inp : Input) : Outcome :=
  finish (concreteEnv inp.facts inp.printErrors none) (constructStore inp)

def fileAt (files : List (Str × FileSrc)) (conf : Option PyVal) : FileSrc :=
  match conf with
  | some (.str p) => match files.find? (fun x => x.1 == p) with
    | some x => x.2
    | none => .absent
  | _ => .absent

/-- the store after `_load_command_line(conf_only=True)` -/
def afterConfOnly (s cli : Dict) : Dict :=
  match dlast cli kConf with
  | some v => updateDict s [(kConf, v)]
  | none => updateDict s cli

/-- the four loading steps of `load_all` on the constructed store: the store before implication -/
def preImply (inp : Input) (s0 cli : Dict) : Outcome :=
  let s1 := afterConfOnly s0 cli
  let fd := fileDict (fileAt inp.files (dget s1 kConf))
  let s2 := updateDict s1 fd
  match envDict inp.envVars with
  | none => .valueError "ERROR: Invalid value specified for ".toList
  | some ed =>
    let s3 := updateDict s2 ed
    .ok (updateDict s3 cli)

/-- `InsightsConfig(**kwargs).load_all()` -/
def loadAll (inp : Input) : Outcome :=
  match construct inp with
  | .ok s0 =>
    match cliDict inp.cli with
    | .bad => .bad
    | .exit => .exit
    | .dict cli0 =>
      let cli := dofPairs cli0
      match preImply inp s0 cli with
      | .ok s => finish (concreteEnv inp.facts inp.printErrors (some cli)) s
      | o => o
  | o => o

/-- `_load_config_file(fname)` called directly (config.py:627-665): the parser reads `fname or self.conf`, then the same
coercions and `_update_dict` as inside `load_all` -/
def loadConfigFile (files : List (Str × FileSrc)) (s : Dict) (fname : PyVal) : Dict :=
  let path : Option PyVal := if truthy fname then some fname else dget s kConf
  updateDict s (fileDict (fileAt files path))

/-- `c = InsightsConfig(...); c._load_config_file(fname)` -/
def constructThenFile (inp : Input) (fname : PyVal) : Outcome :=
  match construct inp with
  | .ok s0 => .ok (loadConfigFile inp.files s0 fname)
  | o => o

/-- a SECOND `load_all()` on the object a first one returned, under the same sources: `_cli_opts` is cached
(config.py:593-595), so both command-line passes apply the whole cached dict; file and environment are read again.
Not modelled: a `conf` that the first load left as a bool (INSIGHTS_CONF=true/false) makes the real `read()` raise TypeError;
the model treats it like any path at which nothing is found (the harness does not generate it, see its assumptions) -/
def reloadAll (inp : Input) (s : Dict) (cli : Dict) : Outcome :=
  let s1 := updateDict s cli
  let fd := fileDict (fileAt inp.files (dget s1 kConf))
  let s2 := updateDict s1 fd
  match envDict inp.envVars with
  | none => .valueError "ERROR: Invalid value specified for ".toList
  | some ed =>
    finish (concreteEnv inp.facts inp.printErrors (some cli)) (updateDict (updateDict s2 ed) cli)

/-- `c = InsightsConfig(...); c.load_all(); c.load_all()` -/
def loadAllTwice (inp : Input) : Outcome :=
  match loadAll inp with
  | .ok s =>
    match cliDict inp.cli with
    | .dict cli0 =>
      -- an EMPTY cached dict is falsy: the command line is parsed again (same result)
      reloadAll inp s (dofPairs cli0)
    | _ => .bad
  | o => o

end IV.ClientLoad
