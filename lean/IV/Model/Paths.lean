/-
C06 — model of root containment, the deny list and persisted destinations of the declarative
datasources.

Mirrors (tree at /repo HEAD):
  insights/core/spec_factory.py
     FileProvider.__init__/validate            199-238    `mkFile`   (`accept` = lines 231-235)
     CommandOutputProvider.__init__/validate   345-406    `mkCmd`
     ContainerFileProvider._misc_settings      505-510    `containerFileRel`
     ContainerCommandProvider._misc_settings   516-521    `containerCmdRel`
     simple_file.__call__                      727-737    `Factory.simpleFile`
     glob_file.__call__                        785-819    `Factory.globFile`
     first_file.__call__                       873-891    `Factory.firstFile`
     simple_command.__call__                   1019-1034  `Factory.simpleCommand`
     command_with_args.__call__                1100-1132  `Factory.commandWithArgs`
     foreach_execute.__call__                  1199-1233  `Factory.foreachExecute`
     foreach_collect.__call__                  1281-1313  `Factory.foreachCollect`
     container_execute.__call__                1352-1390  `Factory.containerExecute`
     container_collect.__call__                1445-1488  `Factory.containerCollect`
     serialize_* (7 serializers)               1577-1721  `serRel`, `dst`
  insights/core/blacklist.py  allow_file / allow_command   24-31   `denyMatch`, `allow`
  insights/collect.py         apply_blacklist              55-103  `applyBlacklist`
  insights/core/serde.py      Hydration.__init__ 148-155 (`dataRoot`, `metaPath`)
  insights/util/mangle.py     mangle_command               9-44    `mangle`

Parameters (not modelled, every theorem holds for each instantiation): what the file system answers
(`Fs`: exists / realpath / access / isdir / glob results, whether a command's first word resolves),
the `ignore` regular expression, the `\w` class of `re` (`isWord`).  `os.path.realpath` is taken to be
the kernel's resolution.  Strings are `List Char`.
-/
namespace IV.Paths

abbrev Str := List Char

/-! ## Python string / os.path primitives -/

/-- `s.startswith(p)` -/
def startsWith (s p : Str) : Bool := p.isPrefixOf s

/-- `s.endswith("/")` -/
def endsSep (s : Str) : Bool := s.getLast? == some '/'

/-- `s.lstrip("/")` -/
def lstripSep (s : Str) : Str := s.dropWhile (· == '/')

/-- `s.rstrip("/")` -/
def rstripSep (s : Str) : Str := (s.reverse.dropWhile (· == '/')).reverse

/-- `s.strip("/")` -/
def stripSep (s : Str) : Str := rstripSep (lstripSep s)

/-- `os.path.join(a, b)` (POSIX, two arguments) -/
def join (a b : Str) : Str :=
  if startsWith b ['/'] then b
  else if a = [] || endsSep a then a ++ b
  else a ++ '/' :: b

/-- `s.split("/")`: never empty -/
def splitSep : Str → List Str
  | [] => [[]]
  | c :: cs =>
    if c = '/' then [] :: splitSep cs
    else match splitSep cs with
      | [] => [[c]]
      | h :: t => (c :: h) :: t

/-- `os.path.basename(p)`: what follows the last '/' -/
def basename (p : Str) : Str := (splitSep p).getLast?.getD []

/-- ASCII part of `str.isspace` (the generator uses no other white space) -/
def isSp (c : Char) : Bool :=
  c == ' ' || c == '\t' || c == '\n' || c == '\r' || c == '\x0b' || c == '\x0c'

/-- `s.split(None, k)` -/
def splitWs : Nat → Str → List Str
  | k, s =>
    let s' := s.dropWhile isSp
    if s' = [] then [] else
    match k with
    | 0 => [s']
    | k + 1 => s'.takeWhile (fun c => !isSp c) :: splitWs k (s'.dropWhile (fun c => !isSp c))

/-- `tmpl % args` for templates whose only conversions are `%s` and `%%`; `none` = the TypeError /
ValueError Python raises (too few / too many arguments) or a conversion outside the modelled subset -/
def fmt : Str → List Str → Option Str
  | [], [] => some []
  | [], _ :: _ => none
  | c :: t, as =>
    if c = '%' then
      match t, as with
      | '%' :: t', as => (fmt t' as).map ('%' :: ·)
      | 's' :: t', a :: as' => (fmt t' as').map (a ++ ·)
      | _, _ => none
    else (fmt t as).map (c :: ·)
termination_by s _ => s.length

/-! ## (A) containment: the comparison `FileProvider.validate` makes on the two resolved paths -/

/-- spec_factory.py:233 — `resolved == real_root or resolved.startswith(real_root.rstrip("/") + "/")` -/
def accept (realRoot resolved : Str) : Bool :=
  resolved == realRoot || startsWith resolved (rstripSep realRoot ++ ['/'])

/-- the comparison before repair e56526f: `resolved.startswith(real_root)` -/
def acceptOld (realRoot resolved : Str) : Bool := startsWith resolved realRoot

/-- a path component: non-empty, no '/' -/
def ValidName (n : Str) : Prop := n ≠ [] ∧ '/' ∉ n

def renderNE (ns : List Str) : Str := ns.flatMap (fun n => '/' :: n)

/-- canonical absolute path string of a component list (what `realpath` / the kernel print) -/
def render : List Str → Str
  | [] => ['/']
  | n :: ns => renderNE (n :: ns)

/-! ## (B) deny list -/

/-- blacklist.py:26/31 — `c.startswith(f) and (len(c) == len(f) or c[len(f)] == ' ')` -/
def denyMatch (f c : Str) : Bool :=
  startsWith c f && (c.length == f.length || c[f.length]? == some ' ')

/-- `allow_file` / `allow_command` over the deny set (iteration order is irrelevant to `any`) -/
def allow (deny : List Str) (c : Str) : Bool := !deny.any (fun f => denyMatch f c)

inductive Err
  | notFound      -- ContentException: does not exist / command not found / nothing matched
  | noFilter      -- NoFilterException
  | blacklisted   -- BlacklistedSpec
  | outside       -- Exception "Relative path points outside the root"
  | noAccess      -- ContentException: cannot access
  | badCmd        -- shlex / split / formatting error
  | tooMany       -- ContentException: over the max_files limit
  deriving DecidableEq, Repr

/-- what the file system and PATH answer (parameters) -/
structure Fs where
  exists_ : Str → Bool
  realpath : Str → Str
  readable : Str → Bool
  isDir : Str → Bool
  glob : Str → List Str
  /-- `shlex.split(cmd)[0]` resolvable: `none` = shlex raises, `some b` = `which` finds it -/
  cmdOk : Str → Option Bool

/-- execution context + the process-wide deny sets -/
structure Ctx where
  host : Bool
  root : Str
  denyFiles : List Str
  denyCmds : List Str

/-- per-datasource constants -/
structure Spec where
  /-- `_filterable and not _filters` -/
  noFilters : Bool := false
  saveAs : Option Str := none
  ignore : Str → Bool := fun _ => false
  maxFiles : Nat := 1000

inductive PKind | file | command | containerFile | containerCmd
  deriving DecidableEq, Repr

/-- a constructed provider: what it will open / execute and where it will be persisted -/
structure Prov where
  kind : PKind
  /-- context root (files) -/
  root : Str
  /-- `relative_path` -/
  rel : Str
  /-- `cmd` (commands) -/
  cmd : Str
  saveAs : Option Str

/-- FileProvider.__init__ + validate (199-238) -/
def mkFile (fs : Fs) (ctx : Ctx) (sp : Spec) (arg : Str) : Except Err Prov :=
  let rel := lstripSep arg
  let path := join ctx.root rel
  if !fs.exists_ path then .error .notFound
  else if ctx.host && sp.noFilters then .error .noFilter
  else if ctx.host && !allow ctx.denyFiles ('/' :: rel) then .error .blacklisted
  else if !accept (fs.realpath ctx.root) (fs.realpath path) then .error .outside
  else if !fs.readable path then .error .noAccess
  else .ok { kind := .file, root := ctx.root, rel := rel, cmd := [], saveAs := sp.saveAs }

/-! ### mangle_command -/

def binPrefixes : List Str :=
  ["/usr/bin/".toList, "/usr/sbin/".toList, "/bin/".toList, "/sbin/".toList]

/-- `re.sub(r"^/(usr/|)(bin|sbin)/", "", s)` -/
def dropBinPrefix (s : Str) : Str :=
  match binPrefixes.find? (fun p => startsWith s p) with
  | some p => s.drop p.length
  | none => s

/-- `re.sub(r"[^\w\-\.\/]+", "_", s)`: each maximal run of other characters becomes one '_' -/
def squash (keep : Char → Bool) : Bool → Str → Str
  | _, [] => []
  | inRun, c :: cs =>
    if keep c then c :: squash keep false cs
    else if inRun then squash keep true cs
    else '_' :: squash keep true cs

def stripSet (c : Char) : Bool := c == ' ' || c == '.' || c == '_' || c == '-'

/-- `s.strip(" ._-")` -/
def stripMangle (s : Str) : Str := ((s.dropWhile stripSet).reverse.dropWhile stripSet).reverse

/-- mangle.py:34-44 with `has_variables=False`, `name_max=255`; `isWord` = the `\w` class -/
def mangle (isWord : Char → Bool) (cmd : Str) : Str :=
  let keep := fun c => isWord c || c == '-' || c == '.' || c == '/'
  let s := squash keep false (dropBinPrefix cmd)
  let s := s.map (fun c => if c == '/' then '.' else c)
  (stripMangle s).take 255

/-- ASCII part of `\w` (the generator of the correspondence uses ASCII commands) -/
def isWordAscii (c : Char) : Bool := c.isAlphanum || c == '_'

/-- ContainerFileProvider._misc_settings (506-510); `none` = the unpacking raises ValueError -/
def containerFileRel (cmd : Str) : Option Str :=
  match splitWs 4 cmd with
  | [_, _, cid, _, path] => some (join cid (lstripSep path))
  | _ => none

/-- ContainerCommandProvider._misc_settings (517-521) -/
def containerCmdRel (isWord : Char → Bool) (cmd : Str) : Option Str :=
  match splitWs 3 cmd with
  | [_, _, cid, c] => some (join (join cid "insights_commands".toList) (mangle isWord c))
  | _ => none

/-- CommandOutputProvider.__init__ + validate (345-406) for the three command-like kinds -/
def mkCmd (isWord : Char → Bool) (fs : Fs) (ctx : Ctx) (sp : Spec) (kind : PKind) (cmd : Str) : Except Err Prov :=
  let relO : Option Str := match kind with
    | .containerFile => containerFileRel cmd
    | .containerCmd => containerCmdRel isWord cmd
    | _ => some (mangle isWord cmd)
  match relO with
  | none => .error .badCmd
  | some rel =>
    match fs.cmdOk cmd with
    | none => .error .badCmd
    | some false => .error .notFound
    | some true =>
      if ctx.host && sp.noFilters then .error .noFilter
      else if ctx.host && !allow ctx.denyCmds cmd then .error .blacklisted
      else .ok { kind := kind, root := [], rel := rel, cmd := cmd,
                 saveAs := if kind = .command then sp.saveAs else none }

/-- the loop `for x …: try: result.append(K(x)) / except NoFilterException: raise / except Exception: skip` -/
def collectLoop {α : Type} (mk : α → Except Err Prov) : List α → Except Err (List Prov)
  | [] => .ok []
  | x :: xs =>
    match mk x with
    | .error .noFilter => .error .noFilter
    | .error _ => collectLoop mk xs
    | .ok p => match collectLoop mk xs with
      | .ok ps => .ok (p :: ps)
      | .error e => .error e

/-- first_file's loop: first constructor that succeeds -/
def firstLoop (mk : Str → Except Err Prov) : List Str → Except Err (List Prov)
  | [] => .error .notFound
  | x :: xs =>
    match mk x with
    | .ok p => .ok [p]
    | .error .noFilter => .error .noFilter
    | .error _ => firstLoop mk xs

/-- foreach_collect's outer loop (1291-1310): `self.path % e` is evaluated OUTSIDE the try, so a formatting
error ends the whole datasource with that exception; the inner loop over the globbed paths is `collectLoop` -/
def foreachLoop (mk : Str → Except Err Prov) (cands : Str → List Str) (tmpl : Str) :
    List (List Str) → Except Err (List Prov)
  | [] => .ok []
  | e :: es =>
    match fmt tmpl e with
    | none => .error .badCmd
    | some pat =>
      match collectLoop mk (cands pat) with
      | .error err => .error err
      | .ok ps => match foreachLoop mk cands tmpl es with
        | .ok qs => .ok (ps ++ qs)
        | .error err => .error err

def nonEmpty (r : Except Err (List Prov)) : Except Err (List Prov) :=
  match r with
  | .ok [] => .error .notFound
  | r => r

inductive Factory
  | simpleFile (path : Str)
  | globFile (patterns : List Str)
  | firstFile (paths : List Str)
  | foreachCollect (tmpl : Str) (items : List (List Str))
  | simpleCommand (cmd : Str)
  | commandWithArgs (tmpl : Str) (args : List Str)
  | foreachExecute (tmpl : Str) (items : List (List Str))
  | containerExecute (tmpl : Str) (items : List (List Str))
  | containerCollect (tmpl : Option Str) (items : List (List Str))

/-- candidate paths of one glob pattern, as the factories compute them (792-793 / 1293-1294) -/
def globCands (fs : Fs) (ctx : Ctx) (sp : Spec) (pattern : Str) : List Str :=
  (fs.glob (join ctx.root (lstripSep pattern))).filter (fun p => !(sp.ignore p || fs.isDir p))

def engineCmd (engine cid rest : Str) : Str :=
  "/usr/bin/".toList ++ engine ++ " exec ".toList ++ cid ++ ' ' :: rest

/-- container_execute: one provider item `(image, engine, container_id, *args)` → command line -/
def containerExecCmd (tmpl : Str) (item : List Str) : Option Str :=
  match item with
  | _ :: engine :: cid :: args =>
    (if args = [] then some tmpl else fmt tmpl args).map (engineCmd engine cid)
  | _ => none

/-- container_collect: item `(image, engine, container_id[, path])` → `… exec cid cat path` -/
def containerCollectCmd (tmpl : Option Str) (item : List Str) : Option Str :=
  match item with
  | _ :: rest =>
    let fromItem := tmpl = none || tmpl = some ['%', 's']
    let e := if fromItem then rest.dropLast else rest
    let path := if fromItem then rest.getLast? else tmpl
    match e, path with
    | [engine, cid], some path => some (engineCmd engine cid ("cat ".toList ++ path))
    | _, _ => none
  | [] => none

/-- what a datasource returns when it is called: the providers, or the exception class -/
def Factory.run (isWord : Char → Bool) (fs : Fs) (ctx : Ctx) (sp : Spec) : Factory → Except Err (List Prov)
  | .simpleFile path => (mkFile fs ctx sp path).map ([·])
  | .globFile patterns =>
    match nonEmpty (collectLoop (fun p => mkFile fs ctx sp (p.drop ctx.root.length))
            (patterns.flatMap (globCands fs ctx sp))) with
    | .ok ps => if ps.length > sp.maxFiles then .error .tooMany else .ok ps
    | .error e => .error e
  | .firstFile paths => firstLoop (mkFile fs ctx sp) paths
  | .foreachCollect tmpl items =>
    nonEmpty (foreachLoop (fun p => mkFile fs ctx sp (p.drop ctx.root.length)) (globCands fs ctx sp) tmpl items)
  | .simpleCommand cmd => (mkCmd isWord fs ctx sp .command cmd).map ([·])
  | .commandWithArgs tmpl args =>
    match fmt tmpl args with
    | none => .error .notFound
    | some c => match mkCmd isWord fs ctx sp .command c with
      | .ok p => .ok [p]
      | .error .noFilter => .error .noFilter
      | .error _ => .error .notFound
  | .foreachExecute tmpl items =>
    nonEmpty (collectLoop (fun e => match fmt tmpl e with
      | some c => mkCmd isWord fs ctx { sp with saveAs := none } .command c
      | none => .error .badCmd) items)
  | .containerExecute tmpl items =>
    nonEmpty (collectLoop (fun e => match containerExecCmd tmpl e with
      | some c => mkCmd isWord fs ctx sp .containerCmd c
      | none => .error .badCmd) items)
  | .containerCollect tmpl items =>
    nonEmpty (collectLoop (fun e => match containerCollectCmd tmpl e with
      | some c => mkCmd isWord fs ctx sp .containerFile c
      | none => .error .badCmd) items)

/-- what reading a provider's content opens or executes -/
inductive Ev
  | open_ (root rel : Str)
  | exec (cmd : Str)
  deriving DecidableEq, Repr

def Prov.load (p : Prov) : Ev :=
  match p.kind with
  | .file => .open_ p.root p.rel
  | _ => .exec p.cmd

/-- the event names an entry of the deny list (as `allow_file("/" + relative_path)` / `allow_command(cmd)` see it) -/
def Ev.denied (ctx : Ctx) : Ev → Bool
  | .open_ _ rel => !allow ctx.denyFiles ('/' :: rel)
  | .exec cmd => !allow ctx.denyCmds cmd

/-- open/exec trace of evaluating a datasource and reading everything it returned.
Constructing providers opens and executes nothing (validate only stats), so the trace is exactly the loads. -/
def Factory.trace (isWord : Char → Bool) (fs : Fs) (ctx : Ctx) (sp : Spec) (f : Factory) : List Ev :=
  match f.run isWord fs ctx sp with
  | .ok ps => ps.map Prov.load
  | .error _ => []

/-! ### collect.apply_blacklist (55-103) -/

structure Deny where
  files : List Str := []
  commands : List Str := []
  disabled : List Str := []
  deriving Repr

/-- `isSpec name` = name is an identifier and `insights.specs.default.DefaultSpecs.<name>` is a loaded component;
`isComp name` = `dr.get_component_by_name(name)` finds something -/
def applyBlacklist (isSpec isComp : Str → Bool) (files commands components : List Str) : Deny :=
  let pre := "insights.specs.default.DefaultSpecs.".toList
  let d : Deny := {}
  let d := files.foldl (fun d f => if isSpec f then { d with disabled := d.disabled ++ [pre ++ f] }
                                   else { d with files := d.files ++ [f] }) d
  let d := commands.foldl (fun d c => if isSpec c then { d with disabled := d.disabled ++ [pre ++ c] }
                                      else { d with commands := d.commands ++ [c] }) d
  components.foldl (fun d c => if isComp c then { d with disabled := d.disabled ++ [c] } else d) d

/-! ## (C) persisted destinations -/

def truthy : Option Str → Option Str
  | some [] => none
  | o => o

/-- constructor-side normalisation of `save_as`: simple_file/first_file `lstrip("/")`, glob_file/foreach_collect
`join(lstrip("/"), "")`, simple_command/command_with_args `strip("/")` -/
def saveAsFile (s : Option Str) : Option Str := (truthy s).map lstripSep
def saveAsDir (s : Option Str) : Option Str := (truthy s).map (fun s => join (lstripSep s) [])
def saveAsCmd (s : Option Str) : Option Str := (truthy s).map stripSep

/-- the `relative_path` a serializer records (1577-1721): prefix directory by kind, `save_as` rules -/
def serRel (kind : PKind) (relativePath : Str) (saveAs : Option Str) : Str :=
  let pre (x : Str) : Str := match kind with
    | .file => x
    | .command => join "insights_commands".toList x
    | _ => join "insights_containers".toList x
  match truthy saveAs with
  | none => pre relativePath
  | some s => if endsSep s then join (pre s) (basename relativePath) else pre s

/-- `dst = os.path.join(root, rel)` -/
def dst (root rel : Str) : Str := join root rel

def Prov.dst (out : Str) (p : Prov) : Str := IV.Paths.dst out (serRel p.kind p.rel p.saveAs)

def normStep (acc : List Str) (c : Str) : List Str :=
  if c = [] || c = ['.'] then acc
  else if c = ['.', '.'] then acc.dropLast
  else acc ++ [c]

/-- location named by an absolute path string when no component is a symbolic link:
'.' and empty components dropped, '..' pops (and stays at the top) -/
def norm (s : Str) : List Str := (splitSep s).foldl normStep []

/-- Hydration.__init__: `data_root = join(root, "data")`; dehydrate writes `join(meta_root, name + ".json")` -/
def dataRoot (root : Str) : Str := join root "data".toList
def metaPath (root name : Str) : Str := join (join root "meta_data".toList) (name ++ ".json".toList)

/-! ## validate() as the ordered sequence of its checks (spec_factory.py 217-237, 392-405)

`VIn` is what one call of validate() observes; the checks run in the order of the list and the first one that
fails raises.  `filterable` / `hasFilters` are kept apart (`_filterable`, `bool(_filters)`) so that every path
through the "no filters" guard is a separate input. -/

structure VIn where
  found : Bool
  host : Bool
  filterable : Bool
  hasFilters : Bool
  allowed : Bool
  contained : Bool := true
  readable : Bool := true

inductive VCheck | found | filters | deny | contained | readable
  deriving DecidableEq, Repr

def VCheck.fails (i : VIn) : VCheck → Option Err
  | .found => if !i.found then some .notFound else none
  | .filters => if i.host && (i.filterable && !i.hasFilters) then some .noFilter else none
  | .deny => if i.host && !i.allowed then some .blacklisted else none
  | .contained => if !i.contained then some .outside else none
  | .readable => if !i.readable then some .noAccess else none

/-- FileProvider.validate: exists, (host) filters, (host) deny list, containment, readable -/
def fileChecks : List VCheck := [.found, .filters, .deny, .contained, .readable]
/-- CommandOutputProvider.validate: which, (host) filters, (host) deny list -/
def cmdChecks : List VCheck := [.found, .filters, .deny]

/-- run the checks in order; the first failing one raises -/
def runChecks (i : VIn) : List VCheck → Except Err Unit
  | [] => .ok ()
  | c :: cs => match c.fails i with
    | some e => .error e
    | none => runChecks i cs

/-- the observation FileProvider.validate makes for `arg` -/
def fileVIn (fs : Fs) (ctx : Ctx) (filterable hasFilters : Bool) (arg : Str) : VIn :=
  let rel := lstripSep arg
  let path := join ctx.root rel
  { found := fs.exists_ path, host := ctx.host, filterable := filterable, hasFilters := hasFilters,
    allowed := allow ctx.denyFiles ('/' :: rel),
    contained := accept (fs.realpath ctx.root) (fs.realpath path), readable := fs.readable path }

/-! ## collect.apply_blacklist on a deny list AS THE USER WROTE IT (possibly malformed)

A YAML item is a string or something else (number, None, bool: `.isidentifier()` raises AttributeError under
files/commands; under components `dr.get_component_by_name` finds nothing and the item is skipped).  The value of
a section is absent, a list, a bare string (Python iterates its characters) or not iterable (None / number:
TypeError).  `Except Unit` = the exception that leaves apply_blacklist and collect(). -/

inductive Item | str (s : Str) | other
  deriving DecidableEq, Repr

inductive Sect | absent | list (xs : List Item) | str (s : Str) | noniter
  deriving Repr

def Sect.items : Sect → Option (List Item)
  | .absent => some []
  | .list xs => some xs
  | .str s => some (s.map (fun c => Item.str [c]))
  | .noniter => none

def blPre : Str := "insights.specs.default.DefaultSpecs.".toList

/-- one pass of the files / commands loop body (68-74) -/
def Deny.reg (isSpec : Str → Bool) (cmd : Bool) (d : Deny) (s : Str) : Deny :=
  if isSpec s then { d with disabled := d.disabled ++ [blPre ++ s] }
  else if cmd then { d with commands := d.commands ++ [s] }
  else { d with files := d.files ++ [s] }

/-- the files / commands loop: a non-string item raises at that point -/
def blLoop (isSpec : Str → Bool) (cmd : Bool) : List Item → Deny → Except Unit Deny
  | [], d => .ok d
  | .other :: _, _ => .error ()
  | .str s :: xs, d => blLoop isSpec cmd xs (d.reg isSpec cmd s)

/-- the components loop (76-80): unknown names (and non-strings) are logged and skipped -/
def blComps (isComp : Str → Bool) : List Item → Deny → Deny
  | [], d => d
  | .other :: xs, d => blComps isComp xs d
  | .str s :: xs, d => blComps isComp xs (if isComp s then { d with disabled := d.disabled ++ [s] } else d)

/-- apply_blacklist, sequentially: files, then commands, then components -/
def applyBlacklistSeq (isSpec isComp : Str → Bool) (files commands components : Sect) : Except Unit Deny :=
  match files.items with
  | none => .error ()
  | some fi =>
    match blLoop isSpec false fi {} with
    | .error _ => .error ()
    | .ok d =>
      match commands.items with
      | none => .error ()
      | some ci =>
        match blLoop isSpec true ci d with
        | .error _ => .error ()
        | .ok d =>
          match components.items with
          | none => .error ()
          | some co => .ok (blComps isComp co d)

/-- collect(): apply_blacklist precedes the creation of the broker and `dr.run_all`; an exception leaves collect()
before any datasource is evaluated.  `run d` = the events of evaluating the enabled datasources under deny state `d`. -/
def collectRun {ε : Type} (isSpec isComp : Str → Bool) (files commands components : Sect) (run : Deny → List ε) : List ε :=
  match applyBlacklistSeq isSpec isComp files commands components with
  | .error _ => []
  | .ok d => run d

/-- the entry `s` of the files (`cmd = false`) / commands section is in force in `d` -/
def Deny.has (cmd : Bool) (d : Deny) (s : Str) : Prop :=
  s ∈ (if cmd then d.commands else d.files) ∨ blPre ++ s ∈ d.disabled

/-- `d'` keeps everything `d` has -/
def Deny.le (d d' : Deny) : Prop :=
  (∀ x ∈ d.files, x ∈ d'.files) ∧ (∀ x ∈ d.commands, x ∈ d'.commands) ∧ (∀ x ∈ d.disabled, x ∈ d'.disabled)

/-! ## several collect() calls in one process

`blacklist._FILE_FILTERS` / `_COMMAND_FILTERS` / `BLACKLISTED_SPECS` are module-level and never reset; the enabled flags are
reset by apply_default_enabled / apply_configs at the start of EVERY collect().  `Proc` is that state. -/

/-- field-wise append -/
def Deny.app (a b : Deny) : Deny :=
  { files := a.files ++ b.files, commands := a.commands ++ b.commands, disabled := a.disabled ++ b.disabled }

def compStep (isComp : Str → Bool) (d : Deny) (c : Str) : Deny :=
  if isComp c then { d with disabled := d.disabled ++ [c] } else d

/-- apply_blacklist on top of the deny state `d0` an earlier application left behind -/
def applyBlacklistFrom (isSpec isComp : Str → Bool) (d0 : Deny) (files commands components : List Str) : Deny :=
  components.foldl (compStep isComp)
    (commands.foldl (fun d s => d.reg isSpec true s) (files.foldl (fun d s => d.reg isSpec false s) d0))

/-- `component.split('.')[-1]` -/
def shortName (s : Str) : Str := (s.reverse.takeWhile (· != '.')).reverse

structure Proc where
  /-- BLACKLISTED_SPECS: short names, duplicates allowed, never reset -/
  recorded : List Str := []
  files : List Str := []
  commands : List Str := []
  /-- components whose enabled flag is False -/
  disabled : List Str := []

structure Cfg where
  files : List Str
  commands : List Str
  components : List Str

/-- one collect(): the flags are reset, then the deny list is applied on top of the never-reset module state -/
def collectStep (isSpec isComp : Str → Bool) (st : Proc) (cfg : Cfg) : Proc :=
  let d := applyBlacklistFrom isSpec isComp { files := st.files, commands := st.commands, disabled := [] }
             cfg.files cfg.commands cfg.components
  { recorded := st.recorded ++ d.disabled.map shortName, files := d.files, commands := d.commands, disabled := d.disabled }

def runHistory (isSpec isComp : Str → Bool) (st : Proc) (h : List Cfg) : Proc := h.foldl (collectStep isSpec isComp) st

end IV.Paths
