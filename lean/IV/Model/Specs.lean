import IV.Model.Dr
/-!
Model of spec-set registration: insights/core/spec_factory.py
  RegistryPoint.__init__/__call__ (533-566), _get_ctx_dependencies (587-595),
  _register_context_handler (598-617), _resolve_registry_points (620-658), SpecSetMeta (661-677)
and dr.add_dependency (dr.py 803-811), dr.add_ignore (dr.py 134-135).  Evaluation is NOT modelled
again: `world` builds an `IV.Dr.World` and the engine model `IV.Dr.step / process / runComponents`
is reused as it is.

One ROOT spec-set class declares the registry points (`Root.registry`: attribute name ↦ point).
A registration history is the list of spec-set classes created afterwards, in creation order; a
class is a list of datasource attributes `(name, implementation, contexts)`, where `contexts` is
what `_get_ctx_dependencies` finds (the ExecutionContext classes in the dependency tree of the
datasource when the class is created; a Python `set`, so the order is immaterial and duplicates
collapse), and the flag `direct` says whether `bases[0]` is the root class.  For any other class
`k in base.registry` is false (every class gets its OWN empty `registry` dict in
`SpecSetMeta.__new__`), so nothing is wired — `regEntry` mirrors exactly that test.

Execution contexts are opaque KEYS (`Comp`) with no parent relation, because that is the rule of the code:
the active context is the broker key `ctx.__class__` (collect.py:249, hydration.py:70, __init__.py:148), a
context class derived from another context class (JBossContext(HostContext)) is a key of its own, every class
`issubclass` of ExecutionContext at any depth is collected by `_get_ctx_dependencies`, and an implementation
declared for the parent context requires the parent's key — it is not declared for the derived context.

The second half of this file (`HClass`, `hRegister`, `hWorld`) is the general shape: every class carries its
`parents` chain and may RE-DECLARE registry points; the flat model is its special case and the driver checks
that the two agree where both apply.

The third part (`FReg`, `fRegister`) models the PROPAGATION OF THE POINT'S FLAGS (filterable, raw, multi_output,
no_obfuscate, no_redact, prio: one opaque value `Flags` per component) onto whatever is wired to it
(`_resolve_registry_points`, the six `v.x = delegate.x = point.x` assignments), over the same histories.

Not modelled: the rejection of multiple inheritance (`len(bases) > 1`).
-/
namespace IV.Specs
open IV.Dr

abbrev Name := Nat

/-- one datasource attribute of a class body -/
structure Entry where
  name : Name
  impl : Comp
  ctxs : List Comp
deriving DecidableEq, Repr

structure ClassDef where
  direct : Bool               -- `bases[0]` is the class that holds the registry points
  entries : List Entry        -- `dct.items()` restricted to datasources, in definition order
deriving DecidableEq, Repr

abbrev History := List ClassDef

/-- the class that declares the registry points: `registry` is its `cls.registry` dict,
`nameOf` the inverse (which components are registry points, and under which name) -/
structure Root where
  registry : Name → Option Comp
  nameOf : Comp → Option Name

/-- what registration leaves behind -/
structure Reg where
  deps : Name → List Comp              -- `DELEGATES[point].deps` = `at_least_one[0]`, in append order
  handlers : Name → Comp → List Comp   -- `root.context_handlers[name][ctx]`
  ignore : Comp → List Comp            -- `dr.IGNORE` (a set per component; here a list, duplicates possible)

def Reg.empty : Reg := ⟨fun _ => [], fun _ _ => [], fun _ => []⟩

/-- body of the loop `for c in _get_ctx_dependencies(component)`:
`for old in ctx_handlers[name][c]: dr.add_ignore(old, c)` then `ctx_handlers[name][c].append(component)` -/
def addHandler (n : Name) (v : Comp) (r : Reg) (c : Comp) : Reg :=
  let olds := r.handlers n c
  { r with
    ignore := fun x => if olds.contains x then r.ignore x ++ [c] else r.ignore x
    handlers := fun m d => if m = n ∧ d = c then olds ++ [v] else r.handlers m d }

/-- one `(k, v)` of `dct.items()` with `is_datasource(v)` in `_resolve_registry_points` -/
def regEntry (root : Root) (direct : Bool) (r : Reg) (e : Entry) : Reg :=
  if direct then
    match root.registry e.name with                -- `if k in base.registry`
    | none => r
    | some _ =>
      -- dr.add_dependency(point, v): appended to at_least_one[0] and deps
      let r1 := { r with deps := fun m => if m = e.name then r.deps m ++ [e.impl] else r.deps m }
      -- _register_context_handler(parents, v); the contexts are a set
      (dedup e.ctxs).foldl (addHandler e.name e.impl) r1
  else r                                            -- base.registry is the base's own, empty, dict

def regClass (root : Root) (r : Reg) (cd : ClassDef) : Reg :=
  cd.entries.foldl (regEntry root cd.direct) r

def register (root : Root) (h : History) : Reg := h.foldl (regClass root) Reg.empty

/-! ### evaluation: an `IV.Dr.World` -/

/-- `datasource([])(point)` followed by the `add_dependency` calls: one at-least-one group -/
def pointDecl (ds : List Comp) : Decl := ⟨.datasource, [.group ds], []⟩

/-- `for c in reversed(deps): if c in broker: return broker[c]` on the entries of `deps` -/
def lastPresent : List (Option Val) → Option Val
  | [] => none
  | a :: t => match lastPresent t with
    | some v => some v
    | none => a

/-- `RegistryPoint.__call__` -/
def pointBody (args : List (Option Val)) : Outcome :=
  match lastPresent args with
  | some v => .value v
  | none => .fault .skip             -- `raise SkipComponent()`

/-- the program: `env` supplies the generated datasources (declarations, bodies), registration
supplies the declaration of every registry point and the IGNORE table -/
def world (root : Root) (env : World) (r : Reg) : World where
  decl c := match root.nameOf c with
    | some n => some (pointDecl (r.deps n))
    | none => env.decl c
  enabled := env.enabled
  ignore := r.ignore
  regPoints := env.regPoints
  body c args := match root.nameOf c with
    | some _ => pointBody args
    | none => env.body c args
  elemBody := env.elemBody

/-! ### the rule, read off the history -/

/-- the entries that reach `regEntry` with `direct = true`, in registration order -/
def flat (h : History) : List Entry := h.flatMap (fun cd => if cd.direct then cd.entries else [])

/-- every implementation declared under `n`, in registration order -/
def implsOf (h : History) (n : Name) : List Comp :=
  ((flat h).filter (fun e => e.name == n)).map (·.impl)

/-- `L`: the implementations of `n` declared for context `c`, in registration order -/
def implsFor (h : History) (n : Name) (c : Comp) : List Comp :=
  ((flat h).filter (fun e => e.name == n && e.ctxs.contains c)).map (·.impl)

/-- which implementation supplies `n` under `c` according to the rule (none: the spec is absent) -/
def supplier (h : History) (n : Name) (c : Comp) : Option Comp := (implsFor h n c).getLast?

/-! ### the invocation log of a run (ghost: the engine model does not keep one) -/

/-- the body of `c` is called in the step taken from instances `i` (= `IV.Dr.fires`, C02) -/
def invoked (w : World) (inG : Comp → Bool) (i : Inst) (c : Comp) : Bool :=
  match w.decl c with
  | some d => guard w inG i c && !(w.ignore c).any (present i) && (missingDeps d i).isNone
  | none => false

/-- the components whose body was called, in order, together with the final broker -/
def runLogged (w : World) (inG : Comp → Bool) (ss : Bool) : List Comp → Broker → List Comp × Broker
  | [], b => ([], b)
  | c :: o, b =>
    let r := runLogged w inG ss o (step w inG ss b c)
    ((if invoked w inG b.inst c then [c] else []) ++ r.1, r.2)

/-! ### hierarchies: registry points RE-DECLARED in intermediate spec-set classes

The general shape of `_resolve_registry_points` / `_register_context_handler`.  A history is the list of
ALL spec-set classes in creation order (class id = position; the class that first declares the points is
just an ordinary member), each with its `parents` chain — `cls.__mro__` without `cls`, `SpecSet`, `object`:
`[base, base of base, …, top]` — and its attributes in `dct.items()` order: RegistryPoints and datasources.

* every class has its OWN `registry` (name ↦ point) and its own `context_handlers`;
* an attribute (a datasource, but also a re-declared RegistryPoint — `is_datasource` holds for it) is wired
  iff its name is in the registry of `bases[0] = parents[0]`; it becomes a dependency of THAT point;
* its contexts are recorded in the handler table of `parents'[-1]`, where `parents'` is the longest prefix of
  `parents` all of whose classes declare the name (`itertools.takewhile`): a point re-declared down a chain
  of classes shares the table of the topmost class of the chain, so implementations attached at different
  levels override one another.

"Is a datasource" is a flag of the entry (`isDs`), computed by the harness as `issubclass(type, datasource)` on
the real component type: registration looks at nothing else about the type — an implementation decorated with a
SPECIALISED datasource type (`class audited_datasource(datasource)`, two levels deep, extra class attributes) is
wired, overrides and supplies exactly like a plain one, and a component of a type that is merely NAMED
"datasource" (`class datasource(dr.ComponentType)` elsewhere) is not wired at all.

The flat model above (whose classes list datasource attributes only) is the special case "one class declares points, all others only datasources"; the
driver evaluates both on such histories and reports whether they agree. -/

abbrev ClassId := Nat

structure HEntry where
  name : Name
  comp : Comp
  isPoint : Bool            -- `name = RegistryPoint()` rather than a datasource
  ctxs : List Comp          -- `_get_ctx_dependencies(comp)` when the class is created ([] for a fresh RegistryPoint)
  isDs : Bool               -- `is_datasource(v)`: the component's TYPE is `datasource` or a subclass of it, at any depth
deriving DecidableEq, Repr

structure HClass where
  parents : List ClassId
  entries : List HEntry
deriving DecidableEq, Repr

abbrev HHistory := List HClass

structure HReg where
  nclasses : Nat
  registry : ClassId → Name → Option Comp           -- `cls.registry`
  isPoint : Comp → Bool                             -- the components that are RegistryPoints
  deps : Comp → List Comp                           -- `DELEGATES[point].deps`, in append order
  handlers : ClassId → Name → Comp → List Comp      -- `cls.context_handlers[name][ctx]`
  ignore : Comp → List Comp                         -- `dr.IGNORE`

def HReg.empty : HReg := ⟨0, fun _ _ => none, fun _ => false, fun _ => [], fun _ _ _ => [], fun _ => []⟩

def hAddHandler (root : ClassId) (n : Name) (v : Comp) (r : HReg) (c : Comp) : HReg :=
  let olds := r.handlers root n c
  { r with
    ignore := fun x => if olds.contains x then r.ignore x ++ [c] else r.ignore x
    handlers := fun k m d => if k = root ∧ m = n ∧ d = c then olds ++ [v] else r.handlers k m d }

/-- the class whose handler table is used: `parents = takewhile(lambda x: name in x.registry, parents)`,
then `parents[-1]` (none: `if not parents: return`) -/
def handlerRoot (r : HReg) (ps : List ClassId) (n : Name) : Option ClassId :=
  (ps.takeWhile (fun x => (r.registry x n).isSome)).getLast?

/-- `if k in base.registry: … dr.add_dependency(point, v); _register_context_handler(parents, v)` -/
def hAttach (ps : List ClassId) (n : Name) (v : Comp) (ctxs : List Comp) (r : HReg) : HReg :=
  match ps with
  | [] => r                                  -- bases[0] is SpecSet: its registry is empty
  | b :: _ =>
    match r.registry b n with
    | none => r
    | some pt =>
      let r1 := { r with deps := fun x => if x = pt then r.deps x ++ [v] else r.deps x }
      match handlerRoot r ps n with
      | none => r1
      | some root => (dedup ctxs).foldl (hAddHandler root n v) r1

/-- one `(k, v)` of `dct.items()` for the class `k` being created -/
def hRegEntry (k : ClassId) (ps : List ClassId) (r : HReg) (e : HEntry) : HReg :=
  if e.isPoint then
    hAttach ps e.name e.comp e.ctxs
      { r with registry := fun k' m => if k' = k ∧ m = e.name then some e.comp else r.registry k' m
               isPoint := fun x => if x = e.comp then true else r.isPoint x }
  else if e.isDs then hAttach ps e.name e.comp e.ctxs r
  else r                                     -- `if is_datasource(v):` — anything else in the class body is left alone

def hRegClass (r : HReg) (cd : HClass) : HReg :=
  let r' := cd.entries.foldl (hRegEntry r.nclasses cd.parents) r
  { r' with nclasses := r.nclasses + 1 }

def hRegister (h : HHistory) : HReg := h.foldl hRegClass HReg.empty

/-- a parents chain can only name classes that exist already -/
def hWellFormed : Nat → HHistory → Bool
  | _, [] => true
  | k, cd :: h => cd.parents.all (· < k) && hWellFormed (k + 1) h

def hWorld (env : World) (r : HReg) : World where
  decl c := if r.isPoint c then some (pointDecl (r.deps c)) else env.decl c
  enabled := env.enabled
  ignore := r.ignore
  regPoints := env.regPoints
  body c args := if r.isPoint c then pointBody args else env.body c args
  elemBody := env.elemBody

/-- the datasources (non-points) reachable from a point through its dependencies and the points among them -/
def famLeaves (r : HReg) : Nat → Comp → List Comp
  | 0, _ => []
  | f + 1, p => (r.deps p).flatMap (fun d => if r.isPoint d then famLeaves r f d else [d])

/-! ### propagation of the registry point's flags

`_resolve_registry_points`, the block between `point = base.registry[k]` and `dr.add_dependency(point, v)`:
`v.filterable = delegate.filterable = point.filterable` … `v.prio = delegate.prio = point.prio`.  The six
attributes travel together, so a component carries ONE opaque value `Flags` (the harness encodes the tuple).
`own c` is what the component was created with (`RegistryPoint(multi_output=…)`, `@datasource(…, raw=…)`).
What is wired (a datasource, or a RE-DECLARED RegistryPoint, which is a datasource too) takes the flags the
point of `bases[0]` has AT THAT MOMENT and becomes its dependency; the machine below keeps its own copy of
`registry` and `deps` (theorem `flags_machine_agrees`: they are those of `hRegister`). -/

abbrev Flags := Nat

structure FReg where
  nclasses : Nat
  registry : ClassId → Name → Option Comp
  deps : Comp → List Comp
  flags : Comp → Flags

def FReg.init (own : Comp → Flags) : FReg := ⟨0, fun _ _ => none, fun _ => [], own⟩

def fAttach (ps : List ClassId) (n : Name) (v : Comp) (r : FReg) : FReg :=
  match ps with
  | [] => r
  | b :: _ =>
    match r.registry b n with
    | none => r
    | some pt =>
      { r with flags := fun x => if x = v then r.flags pt else r.flags x
               deps := fun x => if x = pt then r.deps x ++ [v] else r.deps x }

def fRegEntry (k : ClassId) (ps : List ClassId) (r : FReg) (e : HEntry) : FReg :=
  if e.isPoint then
    fAttach ps e.name e.comp
      { r with registry := fun k' m => if k' = k ∧ m = e.name then some e.comp else r.registry k' m }
  else if e.isDs then fAttach ps e.name e.comp r
  else r

def fRegClass (r : FReg) (cd : HClass) : FReg :=
  let r' := cd.entries.foldl (fRegEntry r.nclasses cd.parents) r
  { r' with nclasses := r.nclasses + 1 }

def fRegister (own : Comp → Flags) (h : HHistory) : FReg := h.foldl fRegClass (FReg.init own)

/-- the components created by a history, in creation order (one per attribute of a class body) -/
def hComps (h : HHistory) : List Comp := (h.flatMap (·.entries)).map (·.comp)

end IV.Specs
