import IV.Model.Dr
/-!
Model of spec-set registration: insights/core/spec_factory.py
  RegistryPoint.__init__/__call__ (533-566), _get_ctx_dependencies (587-595),
  _register_context_handler (598-617), _resolve_registry_points (620-658), SpecSetMeta (661-677)
and dr.add_dependency (dr.py 803-811), dr.add_ignore (dr.py 134-135).  Evaluation is NOT modelled
again: `world` builds an `IV.Dr.World` and the engine model `IV.Dr.step / process / runComponents`
is reused as it is.

One ROOT spec-set class declares the registry points (`Root.registry`: attribute name ↦ point).
A registration history is the list of spec-set classes created afterwards, in creation order; a
class is a list of datasource attributes `(name, implementation, contexts)`, where `contexts` is
what `_get_ctx_dependencies` finds (the ExecutionContext classes in the dependency tree of the
datasource when the class is created; a Python `set`, so the order is immaterial and duplicates
collapse), and the flag `direct` says whether `bases[0]` is the root class.  For any other class
`k in base.registry` is false (every class gets its OWN empty `registry` dict in
`SpecSetMeta.__new__`), so nothing is wired — `regEntry` mirrors exactly that test.

Not modelled: spec-set classes other than the root that declare RegistryPoints themselves
(re-declaring a point in a subclass chains the points and shares the root's handler lists through
`itertools.takewhile(...)/parents[-1]`); the propagation of the point's flags (filterable, raw,
multi_output, no_obfuscate, no_redact, prio) onto the implementation.
-/
namespace IV.Specs
open IV.Dr

abbrev Name := Nat

/-- one datasource attribute of a class body -/
structure Entry where
  name : Name
  impl : Comp
  ctxs : List Comp
deriving DecidableEq, Repr

structure ClassDef where
  direct : Bool               -- `bases[0]` is the class that holds the registry points
  entries : List Entry        -- `dct.items()` restricted to datasources, in definition order
deriving DecidableEq, Repr

abbrev History := List ClassDef

/-- the class that declares the registry points: `registry` is its `cls.registry` dict,
`nameOf` the inverse (which components are registry points, and under which name) -/
structure Root where
  registry : Name → Option Comp
  nameOf : Comp → Option Name

/-- what registration leaves behind -/
structure Reg where
  deps : Name → List Comp              -- `DELEGATES[point].deps` = `at_least_one[0]`, in append order
  handlers : Name → Comp → List Comp   -- `root.context_handlers[name][ctx]`
  ignore : Comp → List Comp            -- `dr.IGNORE` (a set per component; here a list, duplicates possible)

def Reg.empty : Reg := ⟨fun _ => [], fun _ _ => [], fun _ => []⟩

/-- body of the loop `for c in _get_ctx_dependencies(component)`:
`for old in ctx_handlers[name][c]: dr.add_ignore(old, c)` then `ctx_handlers[name][c].append(component)` -/
def addHandler (n : Name) (v : Comp) (r : Reg) (c : Comp) : Reg :=
  let olds := r.handlers n c
  { r with
    ignore := fun x => if olds.contains x then r.ignore x ++ [c] else r.ignore x
    handlers := fun m d => if m = n ∧ d = c then olds ++ [v] else r.handlers m d }

/-- one `(k, v)` of `dct.items()` with `is_datasource(v)` in `_resolve_registry_points` -/
def regEntry (root : Root) (direct : Bool) (r : Reg) (e : Entry) : Reg :=
  if direct then
    match root.registry e.name with                -- `if k in base.registry`
    | none => r
    | some _ =>
      -- dr.add_dependency(point, v): appended to at_least_one[0] and deps
      let r1 := { r with deps := fun m => if m = e.name then r.deps m ++ [e.impl] else r.deps m }
      -- _register_context_handler(parents, v); the contexts are a set
      (dedup e.ctxs).foldl (addHandler e.name e.impl) r1
  else r                                            -- base.registry is the base's own, empty, dict

def regClass (root : Root) (r : Reg) (cd : ClassDef) : Reg :=
  cd.entries.foldl (regEntry root cd.direct) r

def register (root : Root) (h : History) : Reg := h.foldl (regClass root) Reg.empty

/-! ### evaluation: an `IV.Dr.World` -/

/-- `datasource([])(point)` followed by the `add_dependency` calls: one at-least-one group -/
def pointDecl (ds : List Comp) : Decl := ⟨.datasource, [.group ds], []⟩

/-- `for c in reversed(deps): if c in broker: return broker[c]` on the entries of `deps` -/
def lastPresent : List (Option Val) → Option Val
  | [] => none
  | a :: t => match lastPresent t with
    | some v => some v
    | none => a

/-- `RegistryPoint.__call__` -/
def pointBody (args : List (Option Val)) : Outcome :=
  match lastPresent args with
  | some v => .value v
  | none => .fault .skip             -- `raise SkipComponent()`

/-- the program: `env` supplies the generated datasources (declarations, bodies), registration
supplies the declaration of every registry point and the IGNORE table -/
def world (root : Root) (env : World) (r : Reg) : World where
  decl c := match root.nameOf c with
    | some n => some (pointDecl (r.deps n))
    | none => env.decl c
  enabled := env.enabled
  ignore := r.ignore
  regPoints := env.regPoints
  body c args := match root.nameOf c with
    | some _ => pointBody args
    | none => env.body c args
  elemBody := env.elemBody

/-! ### the rule, read off the history -/

/-- the entries that reach `regEntry` with `direct = true`, in registration order -/
def flat (h : History) : List Entry := h.flatMap (fun cd => if cd.direct then cd.entries else [])

/-- every implementation declared under `n`, in registration order -/
def implsOf (h : History) (n : Name) : List Comp :=
  ((flat h).filter (fun e => e.name == n)).map (·.impl)

/-- `L`: the implementations of `n` declared for context `c`, in registration order -/
def implsFor (h : History) (n : Name) (c : Comp) : List Comp :=
  ((flat h).filter (fun e => e.name == n && e.ctxs.contains c)).map (·.impl)

/-- which implementation supplies `n` under `c` according to the rule (none: the spec is absent) -/
def supplier (h : History) (n : Name) (c : Comp) : Option Comp := (implsFor h n c).getLast?

/-! ### the invocation log of a run (ghost: the engine model does not keep one) -/

/-- the body of `c` is called in the step taken from instances `i` (= `IV.Dr.fires`, C02) -/
def invoked (w : World) (inG : Comp → Bool) (i : Inst) (c : Comp) : Bool :=
  match w.decl c with
  | some d => guard w inG i c && !(w.ignore c).any (present i) && (missingDeps d i).isNone
  | none => false

/-- the components whose body was called, in order, together with the final broker -/
def runLogged (w : World) (inG : Comp → Bool) (ss : Bool) : List Comp → Broker → List Comp × Broker
  | [], b => ([], b)
  | c :: o, b =>
    let r := runLogged w inG ss o (step w inG ss b c)
    ((if invoked w inG b.inst c then [c] else []) ++ r.1, r.2)

end IV.Specs
