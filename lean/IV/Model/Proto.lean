/-
Line protocol shared by every driver (Drivers/Cxx.lean).

One request per line, fields separated by TAB.  A string field is the list of its code
points in lower-case hex separated by '.', the empty string is "-".  A driver answers
exactly one line per request line, prefixed with '@' (so compiler chatter on stdout is ignored).  Everything here is glue, not model.
-/
namespace IV.Proto

def hexVal (c : Char) : Option Nat :=
  if '0' ≤ c ∧ c ≤ '9' then some (c.toNat - '0'.toNat)
  else if 'a' ≤ c ∧ c ≤ 'f' then some (c.toNat - 'a'.toNat + 10)
  else none

def hexNat (s : List Char) : Option Nat :=
  if s.isEmpty then none else
  s.foldl (fun acc c => match acc, hexVal c with
    | some a, some v => some (a * 16 + v)
    | _, _ => none) (some 0)

/-- decode a string field into its characters; `none` on malformed input -/
def decStr (f : String) : Option (List Char) :=
  if f = "-" then some [] else
  (f.splitOn ".").foldr (fun p acc => match acc, hexNat p.toList with
    | some cs, some n => some (Char.ofNat n :: cs)
    | _, _ => none) (some [])

def hexDigit (n : Nat) : Char :=
  if n < 10 then Char.ofNat ('0'.toNat + n) else Char.ofNat ('a'.toNat + n - 10)

def natHex (n : Nat) : String :=
  let rec go (fuel n : Nat) (acc : List Char) : List Char :=
    match fuel with
    | 0 => acc
    | fuel + 1 => if n < 16 then hexDigit n :: acc else go fuel (n / 16) (hexDigit (n % 16) :: acc)
  String.ofList (go 16 n [])

def encStr (cs : List Char) : String :=
  if cs.isEmpty then "-" else ".".intercalate (cs.map (fun c => natHex c.toNat))

def fields (line : String) : List String :=
  let l := if line.endsWith "\n" then (line.dropEnd 1).toString else line
  l.splitOn "\t"

def decNat (f : String) : Option Nat := f.toNat?
def decInt (f : String) : Option Int := f.toInt?
def decBool (f : String) : Option Bool :=
  if f = "1" then some true else if f = "0" then some false else none

/-- a list field: items separated by ',' ; the empty list is "-" -/
def decList (f : String) : List String := if f = "-" then [] else f.splitOn ","
def encList (xs : List String) : String := if xs.isEmpty then "-" else ",".intercalate xs

partial def serve (handle : List String → String) : IO Unit := do
  let stdin ← IO.getStdin
  let stdout ← IO.getStdout
  let rec loop : IO Unit := do
    let line ← stdin.getLine
    if line.isEmpty then return ()
    stdout.putStrLn ("@" ++ handle (fields line))
    loop
  loop
  stdout.flush

/-- stateful variant: the handler threads a state through the lines -/
partial def serveState {σ : Type} (init : σ) (handle : σ → List String → σ × String) : IO Unit := do
  let stdin ← IO.getStdin
  let stdout ← IO.getStdout
  let rec loop (s : σ) : IO Unit := do
    let line ← stdin.getLine
    if line.isEmpty then return ()
    let (s', out) := handle s (fields line)
    stdout.putStrLn ("@" ++ out)
    loop s'
  loop init
  stdout.flush

end IV.Proto
