/-
C08 — the per-LINE cleaning pipeline of insights/cleaner (model; import-free).

Mirrors, in the order the code applies them (insights/cleaner/__init__.py:106-161):
  truncation to MAX_LINE_LENGTH (:116-118), Pattern.parse_line (pattern.py:21-31),
  AllowFilter.parse_line (filters.py:16-31), then the enabled obfuscators in sorted name order
  (:143-145): Hostname.parse_line (hostname.py:89-111), IPv4.parse_line (ip.py:73-131, both the
  plain and the width-preserving substitution), IPv6.parse_line (ip.py:205-222; the *recogniser* is a
  parameter: the list of addresses found on the line is an input), Keyword.parse_line
  (keyword.py:41-49) with the keyword database of keyword.py:26-39, Mac.parse_line (mac.py:58-75),
  Password.parse_line (password.py:27-36); finally the bottom-up loop of clean_content (:151-161).

A line is `List (Char × Bool)`: the flag says whether the character is ORIGINAL input text
(`true`) or was inserted by a substitution (`false`).  The flag is ghost state: no function below
reads it, the driver erases it.  The substitutes themselves (obfuscated address numbering, hashed
host names: property C09) are not computed here: they come in as tables `original ↦ substitute`.

Character classes are exact for code points < 0x250 (validated exhaustively against the live
interpreter by the harness); the driver refuses text outside that range.
-/
namespace IV.CleanLine

abbrev Str := List Char
abbrev PChar := Char × Bool
abbrev PStr := List PChar

def chars (s : PStr) : Str := s.map Prod.fst
def orig (s : Str) : PStr := s.map (fun c => (c, true))
def ins (s : Str) : PStr := s.map (fun c => (c, false))
def allOrig (s : PStr) : Prop := ∀ x ∈ s, x.2 = true

/-! ### character classes -/

def inRng (lo hi : Nat) (c : Char) : Bool := decide (lo ≤ c.toNat) && decide (c.toNat ≤ hi)
def isDigit (c : Char) : Bool := inRng 48 57 c
def isUpperA (c : Char) : Bool := inRng 65 90 c
def isLowerA (c : Char) : Bool := inRng 97 122 c
def isAlphaA (c : Char) : Bool := isUpperA c || isLowerA c
def isAlnumA (c : Char) : Bool := isAlphaA c || isDigit c
/-- `[a-zA-Z0-9_]` -/
def isWordA (c : Char) : Bool := isAlnumA c || c == '_'
/-- `[0-9a-fA-F]` -/
def isHex (c : Char) : Bool := isDigit c || inRng 65 70 c || inRng 97 102 c
/-- Python's `\w` for `str` patterns (`isalnum()` or `_`), exact below U+0250 -/
def isWord (c : Char) : Bool :=
  isWordA c || c.toNat == 0xAA || inRng 0xB2 0xB3 c || c.toNat == 0xB5 || inRng 0xB9 0xBA c
    || inRng 0xBC 0xBE c || inRng 0xC0 0xD6 c || inRng 0xD8 0xF6 c || inRng 0xF8 0x24F c
/-- Python's `\s` for `str` patterns = what `str.strip()` strips, exact below U+0250 -/
def isSpace (c : Char) : Bool := inRng 9 13 c || inRng 0x1C 0x20 c || c.toNat == 0x85 || c.toNat == 0xA0
def domainLimit : Nat := 0x250
def inDomain (s : Str) : Bool := s.all (fun c => decide (c.toNat < domainLimit))

/-! ### Python string primitives -/

/-- `k` matches at the head of `s` (on characters) -/
def matchesAt (k : Str) (s : PStr) : Bool := k.isPrefixOf (chars s)

/-- `str.replace(k, v)` for `k ≠ ""` on provenance-tagged text; `skip` = characters of a taken match
still to drop (leftmost, non-overlapping) -/
def repl (k v : Str) : Nat → PStr → PStr
  | _, [] => []
  | skip + 1, _ :: cs => repl k v skip cs
  | 0, c :: cs =>
    if matchesAt k (c :: cs) then ins v ++ repl k v (k.length - 1) cs
    else c :: repl k v 0 cs

/-- `s.replace("", v)`: `v` before every character and at the end -/
def interleave (v : Str) : PStr → PStr
  | [] => ins v
  | c :: cs => ins v ++ c :: interleave v cs

def replaceAll (k v : Str) (s : PStr) : PStr :=
  if k.isEmpty then interleave v s else repl k v 0 s

/-- `k in s` -/
def contains (k : Str) : Str → Bool
  | [] => k.isEmpty
  | c :: cs => k.isPrefixOf (c :: cs) || contains k cs

/-- `s.index(k)` (`none` = ValueError) -/
def findIdx (k : Str) : Str → Option Nat
  | [] => if k.isEmpty then some 0 else none
  | c :: cs => if k.isPrefixOf (c :: cs) then some 0 else (findIdx k cs).map (· + 1)

def strip (s : Str) : Str := ((s.dropWhile isSpace).reverse.dropWhile isSpace).reverse

def natStr (n : Nat) : Str := (toString n).toList

def lookup (t : List (Str × Str)) (k : Str) : Option Str :=
  match t with
  | [] => none
  | (a, b) :: r => if a == k then some b else lookup r k

/-- the substitutions one stage performs, in order: `line = line.replace(k, v)` for each -/
def applyAll (steps : List (Str × Str)) (l : PStr) : PStr :=
  steps.foldl (fun acc kv => replaceAll kv.1 kv.2 acc) l

/-- look the substitute of every key up; `none` = a key without an entry -/
def resolve (t : List (Str × Str)) : List Str → Option (List (Str × Str))
  | [] => some []
  | k :: ks =>
    match lookup t k, resolve t ks with
    | some v, some r => some ((k, v) :: r)
    | _, _ => none

/-- `_mac2db` / IPv6 `_ip2db` against the final table: an address with an entry is replaced; one that is itself
an issued substitute is left alone (the "avoid nested obfuscating" guard returns None); any other address
would have been given an entry when it was found — `none` -/
def resolveGuard (t : List (Str × Str)) : List Str → Option (List (Str × Str))
  | [] => some []
  | k :: ks =>
    match lookup t k with
    | some v =>
      match resolveGuard t ks with
      | some r => some ((k, v) :: r)
      | none => none
    | none => if t.any (fun kv => kv.2 == k) then resolveGuard t ks else none

/-! ### exclusion patterns (pattern.py) -/

/-- the regular-expression forms the tie exercises: `^`? atom+ `$`?, atom = class with optional `+` -/
inductive Cls where
  | lit (c : Char) | any | alnum | alpha | blank | digit | lower | space | upper | word | xdigit

def Cls.test : Cls → Char → Bool
  | .lit a, c => a == c
  | .any, c => c != '\n'
  | .alnum, c => isAlnumA c
  | .alpha, c => isAlphaA c
  | .blank, c => c == ' ' || c == '\t'
  | .digit, c => isDigit c
  | .lower, c => isLowerA c
  | .space, c => c == ' ' || inRng 9 13 c
  | .upper, c => isUpperA c
  | .word, c => isWordA c
  | .xdigit, c => isHex c

structure Atom where
  cls : Cls
  plus : Bool

structure Rx where
  anchored : Bool
  atoms : List Atom
  eol : Bool

/-- the atoms match a prefix of the text (and `$` holds after it) -/
def rxSeq (eol : Bool) : List Atom → Str → Bool
  | [], s => !eol || s.isEmpty || s == ['\n']
  | _ :: _, [] => false
  | a :: as, c :: cs => a.cls.test c && ((a.plus && rxSeq eol (a :: as) cs) || rxSeq eol as cs)

def rxSearchFrom (r : Rx) : Str → Bool
  | [] => rxSeq r.eol r.atoms []
  | c :: cs => rxSeq r.eol r.atoms (c :: cs) || rxSearchFrom r cs

/-- `re.search` -/
def rxSearch (r : Rx) (s : Str) : Bool :=
  if r.anchored then rxSeq r.eol r.atoms s else rxSearchFrom r s

inductive Pat where
  | plain (k : Str)
  | regex (r : Rx)
  /-- an expression outside the modelled family (groups, back-references, alternation, inline flags …): its
  semantics is a parameter, given extensionally as the lines on which the expression, TAKEN BY ITSELF, matches -/
  | ext (hits : List Str)

/-- the concrete matcher: `pat in line` / `re.search(pat, line)` -/
def Pat.hit : Pat → Str → Bool
  | .plain k, s => contains k s
  | .regex r, s => rxSearch r s
  | .ext hits, s => hits.contains s

/-- Pattern.parse_line for an arbitrary matcher -/
def patternStage (hit : Pat → Str → Bool) (pats : List Pat) (line : Option PStr) : Option PStr :=
  match line with
  | none => none
  | some l =>
    if l.isEmpty then some l
    else if pats.any (fun p => hit p (chars l)) then none
    else some l

/-! ### allow list (filters.py) -/

abbrev Allow := List (Str × Int)

def allowDec (key : Str) : Allow → Allow
  | [] => []
  | (k, n) :: r =>
    if k == key then (if n - 1 == 0 then r else (k, n - 1) :: r) else (k, n) :: allowDec key r

def allowStage (a : Allow) (line : Option PStr) : Allow × Option PStr :=
  match line with
  | none => (a, none)
  | some l =>
    if l.isEmpty then (a, some l)
    else match a.find? (fun kv => contains kv.1 (chars l)) with
      | some kv => (allowDec kv.1 a, some l)
      | none => (a, none)

/-! ### IPv4 (ip.py:38, 73-131) -/

def charAt (s : Str) (i : Nat) (p : Char → Bool) : Bool :=
  match s[i]? with
  | some c => p c
  | none => false

/-- lengths of the octet alternatives that match at the head of `s`, in the pattern's order
`25[0-5] | 2[0-4][0-9] | 1[0-9][0-9] | [1-9][0-9] | [1-9]` (first octet) / `… | [0-9]` (others) -/
def octAlts (first : Bool) (s : Str) : List Nat :=
  (if charAt s 0 (· == '2') && charAt s 1 (· == '5') && charAt s 2 (inRng 48 53) then [3] else []) ++
  (if charAt s 0 (· == '2') && charAt s 1 (inRng 48 52) && charAt s 2 isDigit then [3] else []) ++
  (if charAt s 0 (· == '1') && charAt s 1 isDigit && charAt s 2 isDigit then [3] else []) ++
  (if charAt s 0 (inRng 49 57) && charAt s 1 isDigit then [2] else []) ++
  (if charAt s 0 (if first then inRng 49 57 else isDigit) then [1] else [])

/-- ordered choice with backtracking: the first candidate length after which the rest of the pattern matches -/
def firstSome (cands : List Nat) (k : Nat → Option Nat) : Option Nat :=
  match cands with
  | [] => none
  | n :: r =>
    match k n with
    | some m => some (n + m)
    | none => firstSome r k

def oct (first : Bool) (k : Str → Option Nat) (s : Str) : Option Nat :=
  firstSome (octAlts first s) (fun n => k (s.drop n))

/-- `\.` then the rest; the `\b` after the dot always holds before a digit -/
def dot (k : Str → Option Nat) (s : Str) : Option Nat :=
  match s with
  | c :: r => if c == '.' then (k r).map (· + 1) else none
  | [] => none

/-- length of the match of the address pattern at the head of `s` (without the leading `\b`) -/
def matchQuad (s : Str) : Option Nat :=
  oct true (dot (oct false (dot (oct false (dot (oct false (fun _ => some 0))))))) s

/-- `\b` before a digit: start of text or a non-word character before it -/
def boundaryBefore (prev : Option Char) : Bool :=
  match prev with
  | none => true
  | some p => !isWord p

/-- `re.findall(pattern, line)`: left to right, non-overlapping -/
def scanIPv4 : Option Char → Nat → Str → List Str
  | _, _, [] => []
  | _, skip + 1, c :: cs => scanIPv4 (some c) skip cs
  | prev, 0, c :: cs =>
    if boundaryBefore prev then
      match matchQuad (c :: cs) with
      | some n => (c :: cs).take n :: scanIPv4 (some c) (n - 1) cs
      | none => scanIPv4 (some c) 0 cs
    else scanIPv4 (some c) 0 cs

def findIPv4 (s : Str) : List Str := scanIPv4 none 0 s

def insLen (x : Str) : List Str → List Str
  | [] => [x]
  | y :: ys => if y.length ≥ x.length then y :: insLen x ys else x :: y :: ys

/-- `sorted(ips, key=len, reverse=True)` (stable) -/
def sortLenDesc (l : List Str) : List Str := l.foldl (fun acc x => insLen x acc) []

def loopback : Str := "127.0.0.1".toList

inductive Err where
  | table   -- a substitute the tables do not contain was needed (harness error, never the code)
  | index   -- IndexError / ValueError inside _sub_ip_keep_width → "SubIPError" exception
  deriving DecidableEq

/-- smallest `j ≥ i` with `s[j] = ' '`, else `len(s)` -/
def nextSpace (s : Str) (i : Nat) : Nat := i + ((s.drop i).takeWhile (· != ' ')).length

/-- `_sub_ip_keep_width` (ip.py:84-116) -/
def subIpWidth (ip new : Str) (line : PStr) : Except Err PStr :=
  let l := replaceAll ip new line
  if ip.length = new.length then pure l else
  match findIdx new (chars l) with
  | none => throw .index
  | some i =>
    let idx := i + new.length
    if idx ≥ l.length then throw .index else
    let j := nextSpace (chars l) idx
    if ip.length > new.length then
      let j' := if j = l.length then l.length - 1 else j
      pure (l.take j' ++ ins (List.replicate (ip.length - new.length) ' ') ++ l.drop j')
    else pure (l.take j ++ l.drop (j + (new.length - ip.length)))

/-- width mode: `_ip2db` is called when an address's turn comes (an earlier IndexError ends the line) -/
def widthAll (tbl : List (Str × Str)) : List Str → PStr → Except Err PStr
  | [], l => pure l
  | k :: r, l =>
    match lookup tbl k with
    | none => .error .table
    | some v =>
      match subIpWidth k v l with
      | .ok l' => widthAll tbl r l'
      | .error e => .error e

/-- `IPv4._ignore_list`: a list of WHOLE addresses -/
def ignoreListV4 : List Str := [loopback]

/-- `if ip not in self._ignore_list`: membership of the whole token in the list (not a substring test) -/
def ipKeys (s : Str) : List Str := (sortLenDesc (findIPv4 s)).filter (fun ip => !ignoreListV4.contains ip)

def ipStage (tbl : List (Str × Str)) (width : Bool) (l : PStr) : Except Err PStr :=
  if width then widthAll tbl (ipKeys (chars l)) l
  else match resolve tbl (ipKeys (chars l)) with
    | none => throw .table
    | some steps => pure (applyAll steps l)

/-! ### host names (hostname.py:27-31, 89-111) -/

/-- `[a-zA-Z0-9\-\_\.]` -/
def isHostCls (c : Char) : Bool := isWordA c || c == '-' || c == '.'

/-- the domain is pasted into the expression unescaped: its `.` match any character but newline -/
def domMatch : Str → Str → Bool
  | [], _ => true
  | _ :: _, [] => false
  | d :: ds, c :: cs => (if d == '.' then c != '\n' else d == c) && domMatch ds cs

def hostTry (d s : Str) (j : Nat) : Option Nat :=
  if charAt s j (· == '.') && domMatch d (s.drop (j + 1)) then some (j + 1 + d.length) else none

/-- greedy `[a-zA-Z0-9\-\_\.]*` giving characters back until `\.<domain>` matches -/
def hostBack (d s : Str) : Nat → Option Nat
  | 0 => hostTry d s 0
  | j + 1 =>
    match hostTry d s (j + 1) with
    | some n => some n
    | none => hostBack d s j

/-- match of `(?![\W\-\:\ \.])[a-zA-Z0-9\-\_\.]*\.<domain>` at the head of `s` -/
def hostAt (d s : Str) : Option Nat :=
  if charAt s 0 isWordA then hostBack d s (s.takeWhile isHostCls).length else none

def scanHost (d : Str) : Nat → Str → List Str
  | _, [] => []
  | skip + 1, _ :: cs => scanHost d skip cs
  | 0, c :: cs =>
    match hostAt d (c :: cs) with
    | some n => (c :: cs).take n :: scanHost d (n - 1) cs
    | none => scanHost d 0 cs

def findHost (d s : Str) : List Str := scanHost d 0 s

def shortName (fqdn : Str) : Str := fqdn.takeWhile (· != '.')
def domainOf (fqdn : Str) : Option Str :=
  match fqdn.dropWhile (· != '.') with
  | [] => none
  | _ :: d => some d

def hostKeys (fqdn s : Str) : List Str :=
  match domainOf fqdn with
  | none => []
  | some d => findHost d s

def hostStage (fqdn : Str) (tbl : List (Str × Str)) (l : PStr) : Except Err PStr :=
  match resolve tbl (hostKeys fqdn (chars l)), lookup tbl fqdn with
  | some steps, some self => pure (applyAll (steps ++ [(shortName fqdn, self)]) l)
  | _, _ => throw .table

/-! ### MAC addresses (mac.py:23-29, 58-75) -/

def isSep (c : Char) : Bool := c == ':' || c == '-'
/-- the look-behind / look-ahead class `[0-9a-fA-F:-]` -/
def isMacCls (c : Char) : Bool := isHex c || isSep c

/-- `HH(s HH){5}` with one separator `s`, at the head of `s` -/
def macShape (s : Str) : Bool :=
  match s with
  | a0 :: a1 :: s1 :: b0 :: b1 :: s2 :: c0 :: c1 :: s3 :: d0 :: d1 :: s4 :: e0 :: e1 :: s5 :: f0 :: f1 :: _ =>
    isHex a0 && isHex a1 && isSep s1 && isHex b0 && isHex b1 && s2 == s1 && isHex c0 && isHex c1 && s3 == s1
      && isHex d0 && isHex d1 && s4 == s1 && isHex e0 && isHex e1 && s5 == s1 && isHex f0 && isHex f1
  | _ => false

def macAt (s : Str) : Bool :=
  macShape s && (match s.drop 17 with | [] => true | c :: _ => !isMacCls c)

def scanMac : Option Char → Nat → Str → List Str
  | _, _, [] => []
  | _, skip + 1, c :: cs => scanMac (some c) skip cs
  | prev, 0, c :: cs =>
    if (match prev with | none => true | some p => !isMacCls p) && macAt (c :: cs) then
      (c :: cs).take 17 :: scanMac (some c) 16 cs
    else scanMac (some c) 0 cs

def findMac (s : Str) : List Str := scanMac none 0 s

def lowerA (c : Char) : Char := if isUpperA c then Char.ofNat (c.toNat + 32) else c

/-- the ignore list `\\b(?:(?:00:){5}00|(?:ff:){5}ff)\\b` (re.I) on a found address, i.e. on exactly 17 characters: the
WHOLE address is one of these two forms (any case; `:` only — the `-` forms are obfuscated) -/
def macIgnoreList : List Str := ["00:00:00:00:00:00".toList, "ff:ff:ff:ff:ff:ff".toList]

def macIgnored (m : Str) : Bool := macIgnoreList.contains (m.map lowerA)

def macKeys (s : Str) : List Str := (findMac s).filter (fun m => !macIgnored m)

def macStage (tbl : List (Str × Str)) (l : PStr) : Except Err PStr :=
  match resolveGuard tbl (macKeys (chars l)) with
  | some steps => pure (applyAll steps l)
  | none => throw .table

/-! ### IPv6 (ip.py:205-222): the recogniser is a parameter (`found`) -/

def ipv6Stage (tbl : List (Str × Str)) (found : List Str) (l : PStr) : Except Err PStr :=
  match resolveGuard tbl found with
  | some steps => pure (applyAll steps l)
  | none => throw .table

/-! ### keywords (keyword.py:26-49) -/

def dictSet (d : List (Str × Str)) (k v : Str) : List (Str × Str) :=
  if d.any (fun kv => kv.1 == k) then d.map (fun kv => if kv.1 == k then (k, v) else kv)
  else d ++ [(k, v)]

def kwDbAux : Nat → List Str → List (Str × Str) → List (Str × Str)
  | _, [], d => d
  | i, k :: ks, d => kwDbAux (i + 1) ks (dictSet d (strip k) ("keyword".toList ++ natStr i))

/-- `_keywords2db`: stripped keyword ↦ `keyword<N>`, a dict (a repeated keyword keeps its first
position and takes the last number) -/
def kwDb (ks : List Str) : List (Str × Str) := kwDbAux 0 ks []

def keywordStage (ks : List Str) (l : PStr) : PStr := applyAll (kwDb ks) l

/-! ### passwords (password.py:12-36) -/

/-- the class of group 3: word characters and `! @ # $ % ^ & * ( ) + = /` and `-` -/
def isSecret (c : Char) : Bool :=
  isWordA c || c == '!' || c == '@' || c == '#' || c == '$' || c == '%' || c == '^' || c == '&'
    || c == '*' || c == '(' || c == ')' || c == '+' || c == '=' || c == '/' || c == '-'

def pwLit : Str := "password".toList
def stars : Str := "********".toList
def ws (s : Str) : Str := s.dropWhile isSpace
def headIs (p : Char → Bool) : Str → Bool
  | [] => false
  | c :: _ => p c

/- Each alternative of group 2 returns the suffix at which group 3 (`[secret]+`) starts.  Blanks,
quotes and ':' are not secret characters, so giving them back never helps: the greedy reading is the
only one, except for `=+` and `5+`, whose own characters are secret characters (`repBack`). -/

/-- `\s*\:\s*\"*\s*` -/
def alt1 (s : Str) : Option Str :=
  match ws s with
  | c :: r =>
    if c == ':' then
      let r' := ws ((ws r).dropWhile (· == '"'))
      if headIs isSecret r' then some r' else none
    else none
  | [] => none

/-- `\s*\"*\s*=\s*\"\s*` -/
def alt2 (s : Str) : Option Str :=
  match ws ((ws s).dropWhile (· == '"')) with
  | c :: r =>
    if c == '=' then
      match ws r with
      | q :: r2 =>
        if q == '"' then
          let r' := ws r2
          if headIs isSecret r' then some r' else none
        else none
      | [] => none
    else none
  | [] => none

/-- `ch+\s*` followed by a secret character, `ch` itself a secret character: all of them, or
(when no secret character follows) all but the last, which then starts group 3 -/
def repBack (ch : Char) (r1 : Str) : Option Str :=
  let n := (r1.takeWhile (· == ch)).length
  if n = 0 then none else
  let r' := ws (r1.drop n)
  if headIs isSecret r' then some r'
  else if n ≥ 2 then some (r1.drop (n - 1)) else none

/-- `\s*=+\s*` -/
def alt3 (s : Str) : Option Str := repBack '=' (ws s)

/-- `\s*--md5+\s*` -/
def alt4 (s : Str) : Option Str :=
  match ws s with
  | a :: b :: c :: d :: r =>
    if a == '-' && b == '-' && c == 'm' && d == 'd' then repBack '5' r else none
  | _ => none

/-- `\s*` -/
def alt5 (s : Str) : Option Str :=
  let r' := ws s
  if headIs isSecret r' then some r' else none

def group2 (s : Str) : Option Str :=
  match alt1 s with
  | some r => some r
  | none =>
  match alt2 s with
  | some r => some r
  | none =>
  match alt3 s with
  | some r => some r
  | none =>
  match alt4 s with
  | some r => some r
  | none => alt5 s

/-- group 1 `password[a-zA-Z0-9_]*` greedy, giving characters back one at a time -/
def pwTry (t : Str) : Nat → Option Str
  | 0 => group2 t
  | n + 1 =>
    match group2 (t.drop (n + 1)) with
    | some r => some r
    | none => pwTry t n

/-- first expression at the head of `s`: (characters kept = groups 1+2, characters replaced = group 3) -/
def pwMatch1 (s : Str) : Option (Nat × Nat) :=
  if pwLit.isPrefixOf s then
    let t := s.drop 8
    match pwTry t (t.takeWhile isWordA).length with
    | some r => some (s.length - r.length, (r.takeWhile isSecret).length)
    | none => none
  else none

/-- `\s+` greedy giving blanks back until `.+` finds a non-newline character -/
def pwBack2 (r2 : Str) : Nat → Option Str
  | 0 => none
  | j + 1 =>
    let rest := r2.drop (j + 1)
    if headIs (· != '\n') rest then some rest else pwBack2 r2 j

/-- second expression `(password[a-zA-Z0-9_]*)(\s*\*+\s+)(.+)` at the head of `s` -/
def pwMatch2 (s : Str) : Option (Nat × Nat) :=
  if pwLit.isPrefixOf s then
    let r1 := ws ((s.drop 8).dropWhile isWordA)
    let nst := (r1.takeWhile (· == '*')).length
    if nst = 0 then none else
    let r2 := r1.drop nst
    match pwBack2 r2 (r2.takeWhile isSpace).length with
    | some rest => some (s.length - rest.length, (rest.takeWhile (· != '\n')).length)
    | none => none
  else none

/-- `re.sub(regex, r"\1\2********", line)` -/
def subPw (m : Str → Option (Nat × Nat)) : Nat → PStr → PStr
  | _, [] => []
  | skip + 1, _ :: cs => subPw m skip cs
  | 0, c :: cs =>
    match m (chars (c :: cs)) with
    | some (keep, drop) => (c :: cs).take keep ++ ins stars ++ subPw m (keep + drop - 1) cs
    | none => c :: subPw m 0 cs

def passwordStage (l : PStr) : PStr :=
  let l1 := subPw pwMatch1 0 l
  if chars l1 != chars l then l1 else subPw pwMatch2 0 l1

/-! ### the pipeline (cleaner/__init__.py:66-161) -/

inductive Stage where
  | hostname | ip | ipv6 | keyword | mac | password
  deriving DecidableEq

def Stage.name : Stage → Str
  | .hostname => "hostname".toList
  | .ip => "ip".toList
  | .ipv6 => "ipv6".toList
  | .keyword => "keyword".toList
  | .mac => "mac".toList
  | .password => "password".toList

structure Cfg where
  pats : List Pat            -- rm_conf['patterns'] ([] = no Pattern parser)
  keywords : List Str        -- rm_conf['keywords'] ([] = no Keyword parser)
  obfuscate : Bool
  obfHost : Bool
  obfMac : Bool
  obfIpv6 : Bool
  fqdn : Str
  maxLen : Nat               -- MAX_LINE_LENGTH

structure Tables where
  ip : List (Str × Str)
  host : List (Str × Str)
  mac : List (Str × Str)
  ipv6 : List (Str × Str)

structure Call where
  noObf : List Str           -- no_obfuscate
  noRedact : Bool
  width : Bool

/-- which obfuscators the Cleaner holds (`__init__`:86-104) -/
def Cfg.has (cfg : Cfg) : Stage → Bool
  | .hostname => cfg.obfuscate && cfg.obfHost
  | .ip => cfg.obfuscate
  | .ipv6 => cfg.obfuscate && cfg.obfIpv6
  | .keyword => !cfg.keywords.isEmpty
  | .mac => cfg.obfuscate && cfg.obfMac
  | .password => true

/-- `sorted(set(self.obfuscate.keys()) - set(no_obfuscate))` restricted to the non-None entries -/
def stagesOf (cfg : Cfg) (call : Call) : List Stage :=
  [Stage.hostname, .ip, .ipv6, .keyword, .mac, .password].filter
    (fun st => cfg.has st && !call.noObf.contains st.name)

/-- one obfuscator's `parse_line` (each starts with `if not line: return line`) -/
def runStage (cfg : Cfg) (tb : Tables) (width : Bool) (v6 : List Str) (st : Stage) (l : PStr) :
    Except Err PStr :=
  if l.isEmpty then pure l else
  match st with
  | .hostname => hostStage cfg.fqdn tb.host l
  | .ip => ipStage tb.ip width l
  | .ipv6 => ipv6Stage tb.ipv6 v6 l
  | .keyword => pure (keywordStage cfg.keywords l)
  | .mac => macStage tb.mac l
  | .password => pure (passwordStage l)

def runStages (cfg : Cfg) (tb : Tables) (width : Bool) (v6 : List Str) : List Stage → PStr → Except Err PStr
  | [], l => pure l
  | st :: r, l =>
    match runStage cfg tb width v6 st l with
    | .ok l' => runStages cfg tb width v6 r l'
    | .error e => .error e

/-- `_clean_line` on one input line: truncate, redact, allow-filter, obfuscate.
`allow = none` ⇔ `allowlist is None`.  Result: the allow list after the line and the cleaned
line (`none` = the line is dropped). -/
def cleanLine (hit : Pat → Str → Bool) (cfg : Cfg) (tb : Tables) (call : Call) (allow : Option Allow)
    (line : Str) (v6 : List Str) : Except Err (Option Allow × Option PStr) :=
  let l0 : PStr := orig (line.take cfg.maxLen)
  let l1 := if call.noRedact then some l0 else patternStage hit cfg.pats (some l0)
  let (allow', l2) : Option Allow × Option PStr :=
    match allow with
    | none => (none, l1)
    | some a => let r := allowStage a l1; (some r.1, r.2)
  match l2 with
  | none => pure (allow', none)
  | some l =>
    match runStages cfg tb call.width v6 (stagesOf cfg call) l with
    | .ok out => pure (allow', some out)
    | .error e => .error e

/-- the loop of clean_content over the lines in the order given (the caller passes them bottom-up) -/
def cleanSeq (hit : Pat → Str → Bool) (cfg : Cfg) (tb : Tables) (call : Call) :
    Option Allow → List (Str × List Str) → Except Err (List PStr)
  | _, [] => pure []
  | allow, (line, v6) :: rest =>
    match cleanLine hit cfg tb call allow line v6 with
    | .error e => .error e
    | .ok (allow', o) =>
      match cleanSeq hit cfg tb call allow' rest with
      | .error e => .error e
      | .ok outs => pure (match o with | some l => l :: outs | none => outs)

/-- `clean_content(lines)` for a list: bottom-up, result in the original order, `[]` when every
kept line is empty -/
def cleanContent (hit : Pat → Str → Bool) (cfg : Cfg) (tb : Tables) (call : Call) (allow : Option Allow)
    (lines : List (Str × List Str)) : Except Err (List PStr) :=
  match cleanSeq hit cfg tb call allow lines.reverse with
  | .error e => .error e
  | .ok res => if res.any (fun l => !l.isEmpty) then pure res.reverse else pure []

/-! ### how a spec is cleaned when it is written (core/spec_factory.py:82-116, 142-150) -/

def allNames : List Str :=
  [Stage.hostname, .ip, .ipv6, .keyword, .mac, .password].map Stage.name

/-- `no_redact` and `set(no_obfuscate) == DEFAULT_OBFUSCATIONS` (and no filters): cleaning is skipped -/
def skipsCleaning (call : Call) : Bool :=
  call.noRedact && allNames.all (fun n => call.noObf.contains n) && call.noObf.all (fun n => allNames.contains n)

/-- `ContentProvider._clean_content` for a non-filterable spec under a host context with a cleaner:
`none` = ContentException "Empty after cleaning" (nothing is written) -/
def specClean (hit : Pat → Str → Bool) (cfg : Cfg) (tb : Tables) (call : Call)
    (lines : List (Str × List Str)) : Except Err (Option (List PStr)) :=
  if skipsCleaning call then pure (some (lines.map (fun l => orig l.1)))
  else match cleanContent hit cfg tb call none lines with
    | .ok outs => if outs.isEmpty then pure none else pure (some outs)
    | .error e => .error e

/-! ### histories of calls on ONE cleaner

`no_obfuscate`, `no_redact`, the allow list and `width` are arguments of the CALL (`Call`, `allow`): the stages a call
runs are `stagesOf cfg call`, a function of the configuration and of that call's own exemptions.  What one cleaner
carries from call to call is only the obfuscators' databases, i.e. the substitute tables (property C09; a parameter
here).  A history is therefore the list of its calls, each cleaned by itself. -/

abbrev CallIn := Call × Option Allow × List (Str × List Str)

def cleanHistory (hit : Pat → Str → Bool) (cfg : Cfg) (tb : Tables) (calls : List CallIn) :
    List (Except Err (List PStr)) :=
  calls.map (fun c => cleanContent hit cfg tb c.1 c.2.1 c.2.2)

end IV.CleanLine
