/-
TRUSTED BASE — reference semantics for "RPM's own comparison" (property C13).

This file is a transcription of `rpmvercmp()` from RPM's `lib/rpmvercmp.c` (rpm ≥ 4.15, the
version with the caret operator) into a pure Lean function on CODE UNITS: a C string is the
`List Nat` of its bytes before the terminating NUL (for the strings of C13: the UTF-8 bytes).
Nothing here is proved; `vercmp_eq_reference` (Props/C13.lean) proves that the model of the
Python `_rpm_vercmp` computes exactly this function, so "agrees with RPM" rests on this
transcription being right.  It is tied to RPM's data by the harness: every row of RPM's own
`tests/rpmvercmp.at` table (corpus/C13/rpmvercmp_at.json) and every generated pair is run
through `rpmvercmp` below (driver command `ref`) and compared with an independent Python port
of the same C file.

Reading conventions (C on the left, Lean on the right)

  a cursor `char *p` into a NUL-terminated buffer   the list of bytes from `p` up to (excluding) the NUL
  `*p`  as a truth value (`*p != '\0'`)              `nz p`          (p ≠ [])
  `*p == ch`                                          `pointsAt p ch` (p = ch :: _)
  `pred(*p)` for risdigit/risalpha/risalnum           `atP pred p`    (false at the NUL: NUL is in no class)
  `p++`                                               `p.tail`
  `while (*p && pred(*p)) p++;`                       the cursor moves to `p.dropWhile pred`; the bytes it
                                                      walked over are `p.takeWhile pred`
  `*str1 = '\0'` (cut the segment) … `*str1 = oldch1` `one` then denotes the walked-over bytes `seg1`, and
                                                      after the restore `one = str1` is the cursor after them
  `one == str1` (pointer equality after the walk)     `seg1.isEmpty`
  `continue`                                          `next one two`  (re-tests the `while` condition)
  `break`                                             `afterLoop one two`
  `strcmp`                                            `strcmp` (sign of the first differing unsigned byte;
                                                      C fixes only the sign of the result)

A C string cannot contain a NUL, so a `0` inside the list has no C counterpart; it is treated as
an ordinary byte (not alphanumeric), which is also what Python does with U+0000.  `char` may be
signed in C: a byte ≥ 128 is then negative, and in either case it is outside every `ris*` class,
which is what the range tests below give.  The `while` loop is unrolled with a fuel argument;
`rpmvercmp` starts it with `|a| + |b| + 1`, and `Reference.cmpLoop_fuel` (Lemmas/RpmRef.lean)
proves that any larger fuel gives the same answer, i.e. the `fuel = 0` branch is never taken.

The C source transcribed (rpm `lib/rpmvercmp.c`, function body; `rpmio/rpmstring.h` for the
character classes):

    static inline int rislower(int c) { return (c >= 'a' && c <= 'z'); }
    static inline int risupper(int c) { return (c >= 'A' && c <= 'Z'); }
    static inline int risalpha(int c) { return (rislower(c) || risupper(c)); }
    static inline int risdigit(int c) { return (c >= '0' && c <= '9'); }
    static inline int risalnum(int c) { return (risalpha(c) || risdigit(c)); }

    int rpmvercmp(const char * a, const char * b)
    {
        /* easy comparison to see if versions are identical */
        if (rstreq(a, b)) return 0;

        char oldch1, oldch2;
        char abuf[strlen(a)+1], bbuf[strlen(b)+1];
        char *str1 = abuf, *str2 = bbuf;
        char * one, * two;
        int rc;
        int isnum;

        strcpy(str1, a);
        strcpy(str2, b);

        one = str1;
        two = str2;

        /* loop through each version segment of str1 and str2 and compare them */
        while (*one || *two) {
            while (*one && !risalnum(*one) && *one != '~' && *one != '^') one++;
            while (*two && !risalnum(*two) && *two != '~' && *two != '^') two++;

            /* handle the tilde separator, it sorts before everything else */
            if (*one == '~' || *two == '~') {
                if (*one != '~') return 1;
                if (*two != '~') return -1;
                one++;
                two++;
                continue;
            }

            /*
             * Handle caret separator. Concept is the same as tilde,
             * except that if one of the strings ends (base version),
             * the other is considered as higher version.
             */
            if (*one == '^' || *two == '^') {
                if (!*one) return -1;
                if (!*two) return 1;
                if (*one != '^') return 1;
                if (*two != '^') return -1;
                one++;
                two++;
                continue;
            }

            /* If we ran to the end of either, we are finished with the loop */
            if (!(*one && *two)) break;

            str1 = one;
            str2 = two;

            /* grab first completely alpha or completely numeric segment */
            /* leave one and two pointing to the start of the alpha or numeric */
            /* segment and walk str1 and str2 to end of segment */
            if (risdigit(*str1)) {
                while (*str1 && risdigit(*str1)) str1++;
                while (*str2 && risdigit(*str2)) str2++;
                isnum = 1;
            } else {
                while (*str1 && risalpha(*str1)) str1++;
                while (*str2 && risalpha(*str2)) str2++;
                isnum = 0;
            }

            /* save character at the end of the alpha or numeric segment */
            /* so that they can be restored after the comparison */
            oldch1 = *str1;
            *str1 = '\0';
            oldch2 = *str2;
            *str2 = '\0';

            /* this cannot happen, as we previously tested to make sure that */
            /* the first string has a non-null segment */
            if (one == str1) return -1;     /* arbitrary */

            /* take care of the case where the two version segments are */
            /* different types: one numeric, the other alpha (i.e. empty) */
            /* numeric segments are always newer than alpha segments */
            /* XXX See patch #60884 (and details) from bugzilla #50977. */
            if (two == str2) return (isnum ? 1 : -1);

            if (isnum) {
                size_t onelen, twolen;
                /* this used to be done by converting the digit segments */
                /* to ints using atoi() - it's changed because long  */
                /* digit segments can overflow an int - this should fix that. */

                /* throw away any leading zeros - it's a number, right? */
                while (*one == '0') one++;
                while (*two == '0') two++;

                /* whichever number has more digits wins */
                onelen = strlen(one);
                twolen = strlen(two);
                if (onelen > twolen) return 1;
                if (twolen > onelen) return -1;
            }

            /* strcmp will return which one is greater - even if the two */
            /* segments are alpha or if they are numeric.  don't return  */
            /* if they are equal because there might be more segments to */
            /* compare */
            rc = strcmp(one, two);
            if (rc) return (rc < 1 ? -1 : 1);

            /* restore character that was replaced by null above */
            *str1 = oldch1;
            one = str1;
            *str2 = oldch2;
            two = str2;
        }

        /* this catches the case where all numeric and alpha segments have */
        /* compared identically but the segment separating characters were */
        /* different */
        if ((!*one) && (!*two)) return 0;

        /* whichever version still has characters left over wins */
        if (!*one) return -1; else return 1;
    }
-/
namespace IV.Rpm.Reference

/-- the bytes of a C string from a cursor up to (excluding) the terminating NUL -/
abbrev Bytes := List Nat

/-! ### rpmio/rpmstring.h -/

/-- `c >= 'a' && c <= 'z'` -/
def rislower (c : Nat) : Bool := decide (c ≥ 97) && decide (c ≤ 122)
/-- `c >= 'A' && c <= 'Z'` -/
def risupper (c : Nat) : Bool := decide (c ≥ 65) && decide (c ≤ 90)
/-- `rislower(c) || risupper(c)` -/
def risalpha (c : Nat) : Bool := rislower c || risupper c
/-- `c >= '0' && c <= '9'` -/
def risdigit (c : Nat) : Bool := decide (c ≥ 48) && decide (c ≤ 57)
/-- `risalpha(c) || risdigit(c)` -/
def risalnum (c : Nat) : Bool := risalpha c || risdigit c

/-! ### reading the byte under a cursor -/

/-- `*p` as a truth value: the cursor is not on the terminating NUL -/
def nz (p : Bytes) : Bool := !p.isEmpty

/-- `*p == ch` for a non-NUL character constant `ch` -/
def pointsAt (p : Bytes) (ch : Nat) : Bool :=
  match p with
  | [] => false
  | c :: _ => c == ch

/-- `pred(*p)` for one of the `ris*` classes (all of them are false on NUL) -/
def atP (pred : Nat → Bool) (p : Bytes) : Bool :=
  match p with
  | [] => false
  | c :: _ => pred c

/-- `'~'` -/
def tilde : Nat := 126
/-- `'^'` -/
def caret : Nat := 94
/-- `'0'` -/
def zero : Nat := 48

/-- `while (*p && !risalnum(*p) && *p != '~' && *p != '^') p++;` — the new cursor -/
def skipSeps : Bytes → Bytes
  | [] => []
  | c :: p => if !risalnum c && c != tilde && c != caret then skipSeps p else c :: p

/-- `strcmp(s, t)`: -1 / 0 / 1 by the first position where the strings differ, bytes compared as
`unsigned char`, the shorter string first when one is a prefix of the other -/
def strcmp : Bytes → Bytes → Int
  | [], [] => 0
  | [], _ :: _ => -1
  | _ :: _, [] => 1
  | c :: s, d :: t => if c < d then -1 else if d < c then 1 else strcmp s t

/-- the statements after the `while` loop -/
def afterLoop (one two : Bytes) : Int :=
  if !nz one && !nz two then 0          -- if ((!*one) && (!*two)) return 0;
  else if !nz one then -1 else 1        -- if (!*one) return -1; else return 1;

/-- the body of the `while` loop; `next one two` is what `continue` (or falling off the end of
the body) does: re-test the loop condition with the cursors `one`, `two` -/
def body (next : Bytes → Bytes → Int) (one two : Bytes) : Int :=
  let one := skipSeps one
  let two := skipSeps two
  -- handle the tilde separator
  if pointsAt one tilde || pointsAt two tilde then
    if !pointsAt one tilde then 1
    else if !pointsAt two tilde then -1
    else next one.tail two.tail                                  -- one++; two++; continue;
  -- handle the caret separator
  else if pointsAt one caret || pointsAt two caret then
    if !nz one then -1
    else if !nz two then 1
    else if !pointsAt one caret then 1
    else if !pointsAt two caret then -1
    else next one.tail two.tail                                  -- one++; two++; continue;
  -- if we ran to the end of either, we are finished with the loop
  else if !(nz one && nz two) then afterLoop one two             -- break;
  else
    -- grab first completely alpha or completely numeric segment
    let isnum := atP risdigit one                                -- if (risdigit(*str1))
    let cls := if isnum then risdigit else risalpha
    let seg1 := one.takeWhile cls                                -- bytes from `one` to `str1` after the walk
    let str1 := one.dropWhile cls
    let seg2 := two.takeWhile cls
    let str2 := two.dropWhile cls
    if seg1.isEmpty then -1                                      -- if (one == str1) return -1;
    else if seg2.isEmpty then (if isnum then 1 else -1)          -- if (two == str2) return (isnum ? 1 : -1);
    else
      -- if (isnum) { throw away any leading zeros … }
      let one' := if isnum then seg1.dropWhile (· == zero) else seg1
      let two' := if isnum then seg2.dropWhile (· == zero) else seg2
      -- whichever number has more digits wins
      if isnum && decide (one'.length > two'.length) then 1
      else if isnum && decide (two'.length > one'.length) then -1
      else
        let rc := strcmp one' two'
        if rc != 0 then (if rc < 1 then -1 else 1)               -- if (rc) return (rc < 1 ? -1 : 1);
        else next str1 str2                                      -- one = str1; two = str2;

/-- `while (*one || *two) { body }` followed by the statements after the loop -/
def cmpLoop : Nat → Bytes → Bytes → Int
  | 0, _, _ => 0                          -- out of fuel: unreachable from `rpmvercmp` (`cmpLoop_fuel`)
  | fuel + 1, one, two =>
    if nz one || nz two then body (cmpLoop fuel) one two
    else afterLoop one two

/-- `int rpmvercmp(const char *a, const char *b)` -/
def rpmvercmp (a b : Bytes) : Int :=
  if a = b then 0                          -- if (rstreq(a, b)) return 0;
  else cmpLoop (a.length + b.length + 1) a b

end IV.Rpm.Reference
