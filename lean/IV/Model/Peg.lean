/-
Model of the parser-combinator library insights/parsr/__init__.py (C19).

`run` mirrors `Parser.process(pos, data, ctx)` (parsr/__init__.py:318-319 and every subclass):
it returns the new position and the value, failure by exception is `Res.fail`.  The part of
`Context` that can influence a result is the state `St`:
  * `ferr`  — `ctx.function_error is not None`.  `_debug_hook` (113-141) wraps EVERY `process`
              and raises at entry once it is set; `Map`/`Lift` set it when the mapped function
              raises anything but `Backtrack` (943-954, 999-1014).
  * `tags`  — `ctx.tags`, pushed by `StartTagName` (1170-1179), popped and compared by
              `EndTagName` (1182-1207).  Head of the list = top of the stack.
`ctx.pos/errors/parser_stack/lines` only feed the error text and are not modelled; `indents`
(WithIndent / HangingString) is not modelled.

Fuel: one unit per `process` call / loop iteration, i.e. fuel bounds the DEPTH of the call
tree.  `fuel = 0` gives `diverge` (Python: an endless `while True` in Many/Until over a
non-consuming success, or unbounded recursion through a Forward).  `IV.Peg.run_mono` shows more
fuel never changes a non-diverge answer; `run_complete` shows every PEG derivation is reached.

Classes mirrored (line ranges of insights/parsr/__init__.py):
  AnyChar 365-372, Char 375-395, InSet 403-429, String 437-476, Literal 479-543, EOF 1045-1061
  (= `Prim`), Wrapper 546-557, Sequence 585-632, Choice 635-669, Many 672-726, Until 734-775,
  FollowedBy 778-803, NotFollowedBy 806-836, KeepLeft 839-863, KeepRight 866-889, Opt 892-921,
  Map 924-954, Lift 962-1014, Forward 1017-1042, StartTagName/EndTagName 1170-1207,
  Parser.__call__ 321-359 (`call`), Parser.sep_by/_accumulate 224-239 (`Fn.accumulate`, `sepBy`).
-/
namespace IV.Peg

abbrev Str := List Char

/-- Python values that parsers return in the modelled fragment -/
inductive Val where
  | none                      -- None
  | int (n : Int)             -- int (never bool)
  | str (s : Str)             -- str
  | list (vs : List Val)      -- list
  | sentinel                  -- Parser._NO_MATCH
deriving Repr, Inhabited

mutual
/-- Python `==` on these values (no bool / float in the fragment, so it is structural) -/
def Val.beq : Val → Val → Bool
  | .none, .none => true
  | .int a, .int b => a == b
  | .str a, .str b => a == b
  | .list a, .list b => Val.beqList a b
  | .sentinel, .sentinel => true
  | _, _ => false
def Val.beqList : List Val → List Val → Bool
  | [], [] => true
  | a :: as, b :: bs => Val.beq a b && Val.beqList as bs
  | _, _ => false
end

/-- outcome of calling a mapped / lifted Python function -/
inductive FnRes where
  | ok (v : Val)
  | backtrack        -- raised parsr.Backtrack
  | raise            -- raised anything else
deriving Repr

/-- the table of mapped functions used by generated grammars (harness/c19.py FUNCS holds the
Python originals).  Theorems never unfold `Fn.apply`: they hold for every function table. -/
inductive Fn where
  | ident
  | join                      -- "".join(x)
  | length                    -- len(x)
  | const (v : Val)
  | backtrackIf (v : Val)     -- raise Backtrack if x == v else x
  | raiseIf (v : Val)         -- raise ValueError if x == v else x
  | accumulate                -- Parser._accumulate(first, rest)   (lifted, two arguments)
  | pair                      -- lambda *a: list(a)                (lifted, any arity)
deriving Repr

def allStr : List Val → Option Str
  | [] => some []
  | .str s :: vs => (allStr vs).map (s ++ ·)
  | _ :: _ => none

/-- a mapped function receives the child's value; a lifted function receives `list args` -/
def Fn.apply : Fn → Val → FnRes
  | .ident, v => .ok v
  | .join, .str s => .ok (.str s)
  | .join, .list vs => match allStr vs with | some s => .ok (.str s) | none => .raise
  | .join, _ => .raise
  | .length, .str s => .ok (.int s.length)
  | .length, .list vs => .ok (.int vs.length)
  | .length, _ => .raise
  | .const c, _ => .ok c
  | .backtrackIf c, v => if v.beq c then .backtrack else .ok v
  | .raiseIf c, v => if v.beq c then .raise else .ok v
  | .accumulate, .list [first, .list rest] =>
      .ok (.list ((match first with | .sentinel => [] | f => [f]) ++ rest))
  | .accumulate, _ => .raise
  | .pair, v => .ok v

def lowerAscii (c : Char) : Char :=
  if 'A' ≤ c ∧ c ≤ 'Z' then Char.ofNat (c.toNat + 32) else c

/-- the `while` loop of String.process (458-471) on the remaining input:
(characters consumed, characters collected) -/
def scanString (cs es : Str) : Str → Nat × Str
  | [] => (0, [])
  | [c] => if cs.contains c then (1, [c]) else (0, [])
  | c :: d :: rest =>
    if c = '\\' && es.contains d then
      let r := scanString cs es rest
      (r.1 + 2, d :: r.2)
    else if cs.contains c then
      let r := scanString cs es (d :: rest)
      (r.1 + 1, c :: r.2)
    else (0, [])

/-- the `for c in self.chars` loop of Literal.process (522-543): the matched input text.
`ic`: compare `data[pos].lower()`; the terminal `None` (end of input) fails either way. -/
def matchLit (ic : Bool) : Str → Str → Option Str
  | [], _ => some []
  | _ :: _, [] => none
  | c :: cs, d :: ds =>
    if (if ic then lowerAscii d else d) = c then (matchLit ic cs ds).map (d :: ·) else none

/-- the primitive matchers -/
inductive Prim where
  | anyChar
  | char (c : Char)
  | inSet (cs : Str)
  | string (cs es : Str) (minLen : Nat)
  | literal (cs : Str) (value : Option Val) (ignoreCase : Bool)   -- cs as stored (already lower-cased if ignoreCase)
  | eof
deriving Repr

/-- `none` = the primitive raises -/
def Prim.run (inp : Str) (pos : Nat) : Prim → Option (Nat × Val)
  | .anyChar => match inp[pos]? with
      | some c => some (pos + 1, .str [c])
      | none => none
  | .char c => if inp[pos]? = some c then some (pos + 1, .str [c]) else none
  | .inSet cs => match inp[pos]? with
      | some c => if cs.contains c then some (pos + 1, .str [c]) else none
      | none => none
  | .string cs es m =>
      let r := scanString cs es (inp.drop pos)
      if r.2.length < m then none else some (pos + r.1, .str r.2)
  | .literal cs value ic => match matchLit ic cs (inp.drop pos) with
      | some txt => some (pos + cs.length, match value with | some v => v | none => .str txt)
      | none => none
  | .eof => match inp[pos]? with
      | some _ => none
      | none => some (pos, .none)

inductive Term where
  | prim (p : Prim)
  | seq (ts : List Term)
  | choice (ts : List Term)
  | many (t : Term) (lower : Nat)
  | until (t p : Term)
  | opt (t : Term) (dflt : Val)
  | followedBy (a b : Term)
  | notFollowedBy (a b : Term)
  | keepLeft (a b : Term)
  | keepRight (a b : Term)
  | map (t : Term) (f : Fn)
  | lift (f : Fn) (ts : List Term)
  | wrapper (t : Term)
  | ref (i : Nat)                       -- Forward: index into the rule table
  | startTag (t : Term)
  | endTag (t : Term) (ignoreCase : Bool)
deriving Repr, Inhabited

/-- the part of `Context` a result can depend on -/
structure St where
  ferr : Bool
  tags : List Val
deriving Repr

def St.init : St := ⟨false, []⟩

inductive Res where
  | ok (pos : Nat) (v : Val)
  | fail
  | diverge
deriving Repr

/-- result of the list-valued loops (Sequence / Many / Until bodies) -/
inductive LRes where
  | ok (pos : Nat) (vs : List Val)
  | fail
  | diverge
deriving Repr

def LRes.toRes : LRes → Res
  | .ok p vs => .ok p (.list vs)
  | .fail => .fail
  | .diverge => .diverge

/-- the comparison at the end of EndTagName.process (1197-1207); with `ignore_case` a value without
`.lower()` (anything but a str) raises AttributeError, i.e. the tags do not agree -/
def tagsAgree (ic : Bool) (res expect : Val) : Bool :=
  if ic then
    match res, expect with
    | .str r, .str e => r.map lowerAscii == e.map lowerAscii
    | _, _ => false
  else res.beq expect

mutual
def run (rules : List Term) (inp : Str) : Nat → Term → Nat → St → Res × St
  | 0, _, _, σ => (.diverge, σ)
  | fuel + 1, t, pos, σ =>
    if σ.ferr then (.fail, σ) else          -- _debug_hook: "no point in continuing"
    match t with
    | .prim p =>
      match p.run inp pos with
      | some (q, v) => (.ok q v, σ)
      | none => (.fail, σ)
    | .seq ts =>
      match runSeq rules inp fuel ts pos σ with
      | (lr, σ1) => (lr.toRes, σ1)
    | .choice ts => runChoice rules inp fuel ts pos σ
    | .many t lower =>
      match runMany rules inp fuel t pos σ with
      | (.ok p vs, σ1) => if vs.length < lower then (.fail, σ1) else (.ok p (.list vs), σ1)
      | (lr, σ1) => (lr.toRes, σ1)
    | .until t p =>
      match runUntil rules inp fuel t p pos σ with
      | (lr, σ1) => (lr.toRes, σ1)
    | .opt t d =>
      match run rules inp fuel t pos σ with
      | (.fail, σ1) => (.ok pos d, σ1)
      | r => r
    | .followedBy a b =>
      match run rules inp fuel a pos σ with
      | (.ok p v, σ1) =>
        (match run rules inp fuel b p σ1 with
          | (.ok _ _, σ2) => (.ok p v, σ2)
          | r => r)
      | r => r
    | .notFollowedBy a b =>
      match run rules inp fuel a pos σ with
      | (.ok p v, σ1) =>
        (match run rules inp fuel b p σ1 with
          | (.ok _ _, σ2) => (.fail, σ2)
          | (.fail, σ2) => (.ok p v, σ2)
          | r => r)
      | r => r
    | .keepLeft a b =>
      match run rules inp fuel a pos σ with
      | (.ok p v, σ1) =>
        (match run rules inp fuel b p σ1 with
          | (.ok q _, σ2) => (.ok q v, σ2)
          | r => r)
      | r => r
    | .keepRight a b =>
      match run rules inp fuel a pos σ with
      | (.ok p _, σ1) => run rules inp fuel b p σ1
      | r => r
    | .map t f =>
      match run rules inp fuel t pos σ with
      | (.ok p v, σ1) =>
        (match f.apply v with
          | .ok w => (.ok p w, σ1)
          | .backtrack => (.fail, σ1)
          | .raise => (.fail, { σ1 with ferr := true }))
      | r => r
    | .lift f ts =>
      match runSeq rules inp fuel ts pos σ with
      | (.ok p vs, σ1) =>
        (match f.apply (.list vs) with
          | .ok w => (.ok p w, σ1)
          | .backtrack => (.fail, σ1)
          | .raise => (.fail, { σ1 with ferr := true }))
      | (lr, σ1) => (lr.toRes, σ1)
    | .wrapper t => run rules inp fuel t pos σ
    | .ref i =>
      match rules[i]? with
      | some t => run rules inp fuel t pos σ
      | none => (.fail, σ)                  -- Forward without a definition: IndexError
    | .startTag t =>
      match run rules inp fuel t pos σ with
      | (.ok p v, σ1) => (.ok p v, { σ1 with tags := v :: σ1.tags })
      | r => r
    | .endTag t ic =>
      match run rules inp fuel t pos σ with
      | (.ok p v, σ1) =>
        (match σ1.tags with
          | [] => (.fail, σ1)               -- pop from empty list
          | e :: rest =>
            if tagsAgree ic v e then (.ok p v, { σ1 with tags := rest })
            else (.fail, { σ1 with tags := rest }))
      | r => r
/-- the `for p in self.children` loop of Sequence / Lift -/
def runSeq (rules : List Term) (inp : Str) : Nat → List Term → Nat → St → LRes × St
  | 0, _, _, σ => (.diverge, σ)
  | _ + 1, [], pos, σ => (.ok pos [], σ)
  | fuel + 1, t :: ts, pos, σ =>
    match run rules inp fuel t pos σ with
    | (.ok p v, σ1) =>
      (match runSeq rules inp fuel ts p σ1 with
        | (.ok q vs, σ2) => (.ok q (v :: vs), σ2)
        | r => r)
    | (.fail, σ1) => (.fail, σ1)
    | (.diverge, σ1) => (.diverge, σ1)
/-- the `for c in self.children: try … except: pass` loop of Choice -/
def runChoice (rules : List Term) (inp : Str) : Nat → List Term → Nat → St → Res × St
  | 0, _, _, σ => (.diverge, σ)
  | _ + 1, [], _, σ => (.fail, σ)
  | fuel + 1, t :: ts, pos, σ =>
    match run rules inp fuel t pos σ with
    | (.fail, σ1) => runChoice rules inp fuel ts pos σ1
    | r => r
/-- the `while True` loop of Many (never fails; the lower bound is checked by the caller) -/
def runMany (rules : List Term) (inp : Str) : Nat → Term → Nat → St → LRes × St
  | 0, _, _, σ => (.diverge, σ)
  | fuel + 1, t, pos, σ =>
    match run rules inp fuel t pos σ with
    | (.ok p v, σ1) =>
      (match runMany rules inp fuel t p σ1 with
        | (.ok q vs, σ2) => (.ok q (v :: vs), σ2)
        | r => r)
    | (.fail, σ1) => (.ok pos [], σ1)
    | (.diverge, σ1) => (.diverge, σ1)
/-- the `while True` loop of Until: stop when the predicate matches or the parser fails -/
def runUntil (rules : List Term) (inp : Str) : Nat → Term → Term → Nat → St → LRes × St
  | 0, _, _, _, σ => (.diverge, σ)
  | fuel + 1, t, pr, pos, σ =>
    match run rules inp fuel pr pos σ with
    | (.ok _ _, σ1) => (.ok pos [], σ1)
    | (.diverge, σ1) => (.diverge, σ1)
    | (.fail, σ1) =>
      match run rules inp fuel t pos σ1 with
      | (.ok p v, σ2) =>
        (match runUntil rules inp fuel t pr p σ2 with
          | (.ok q vs, σ3) => (.ok q (v :: vs), σ3)
          | r => r)
      | (.fail, σ2) => (.ok pos [], σ2)
      | (.diverge, σ2) => (.diverge, σ2)
end

/-- what `Parser.__call__` (321-359) reports -/
inductive Outcome where
  | value (v : Val)
  | parseError          -- Exception("At line … column …:\n…")
  | functionError       -- Exception("At line … column …: Map raised …")
  | diverge
deriving Repr

/-- `Parser.__call__`: a returned value is returned whatever `function_error` says -/
def call (rules : List Term) (inp : Str) (fuel : Nat) (t : Term) : Outcome × St :=
  match run rules inp fuel t 0 St.init with
  | (.ok _ v, σ) => (.value v, σ)
  | (.fail, σ) => (if σ.ferr then .functionError else .parseError, σ)
  | (.diverge, σ) => (.diverge, σ)

/-- `p.sep_by(sep)` = `Lift(_accumulate) * Opt(p, _NO_MATCH) * Many(sep >> p)` (234-239) -/
def sepBy (p sep : Term) : Term :=
  .lift .accumulate [.opt p .sentinel, .many (.keepRight sep p) 0]

mutual
/-- no StartTagName / EndTagName inside -/
def Term.tagFree : Term → Bool
  | .prim _ => true
  | .seq ts => Term.tagFreeL ts
  | .choice ts => Term.tagFreeL ts
  | .many t _ => t.tagFree
  | .until t p => t.tagFree && p.tagFree
  | .opt t _ => t.tagFree
  | .followedBy a b => a.tagFree && b.tagFree
  | .notFollowedBy a b => a.tagFree && b.tagFree
  | .keepLeft a b => a.tagFree && b.tagFree
  | .keepRight a b => a.tagFree && b.tagFree
  | .map t _ => t.tagFree
  | .lift _ ts => Term.tagFreeL ts
  | .wrapper t => t.tagFree
  | .ref _ => true
  | .startTag _ => false
  | .endTag _ _ => false
def Term.tagFreeL : List Term → Bool
  | [] => true
  | t :: ts => t.tagFree && Term.tagFreeL ts
end

end IV.Peg
