/-
Model of the parser-combinator library insights/parsr/__init__.py (C19).

`run` mirrors `Parser.process(pos, data, ctx)` (parsr/__init__.py:318-319 and every subclass):
it returns the new position and the value, failure by exception is `Res.fail`.  The part of
`Context` that can influence a result is the state `St`:
  * `ferr`  — `ctx.function_error is not None`.  `_debug_hook` (113-141) wraps EVERY `process`
              and raises at entry once it is set; `Map`/`Lift` set it when the mapped function
              raises anything but `Backtrack` (943-954, 999-1014).
  * `tags`  — `ctx.tags`, pushed by `StartTagName` (1170-1179), popped and compared by
              `EndTagName` (1182-1207).  Head of the list = top of the stack.
`ctx.pos/errors/parser_stack` only feed the error text and are not modelled (`ctx.lines` is: `lineOf`/`colOf`); `indents`
(WithIndent / HangingString) is not modelled.

Fuel: one unit per `process` call / loop iteration, i.e. fuel bounds the DEPTH of the call
tree.  `fuel = 0` gives `diverge` (Python: an endless `while True` in Many/Until over a
non-consuming success, or unbounded recursion through a Forward).  Props.C19: `run_complete` shows
every PEG derivation is reached at every large enough fuel, `run_fuel_independent` that enough fuel
never changes an answer, and `no_divergence` that for `WellFormed` grammars (below: repetitions
consume, rule bodies consume before re-entering a rule) the computable fuel `bound rules t n`
suffices, so `diverge` is never the reason for an answer there.

Classes mirrored (line ranges of insights/parsr/__init__.py):
  AnyChar 365-372, Char 375-395, InSet 403-429, String 437-476, Literal 479-543, EOF 1045-1061
  (= `Prim`), Wrapper 546-557, Sequence 585-632, Choice 635-669, Many 672-726, Until 734-775,
  FollowedBy 778-803, NotFollowedBy 806-836, KeepLeft 839-863, KeepRight 866-889, Opt 892-921,
  Map 924-954, Lift 962-1014, Forward 1017-1042, StartTagName/EndTagName 1170-1207, PosMarker 572-582 (`mark`,
  with Context.line / Context.col 187-194 = `lineOf` / `colOf`), skip_none 1226-1227 (`Fn.skipNone`),
  Parser.__call__ 321-359 (`call`), Parser.sep_by/_accumulate 224-239 (`Fn.accumulate`, `sepBy`).
-/
namespace IV.Peg

abbrev Str := List Char

/-- Python values that parsers return in the modelled fragment -/
inductive Val where
  | none                      -- None
  | int (n : Int)             -- int (never bool)
  | str (s : Str)             -- str
  | list (vs : List Val)      -- list
  | sentinel                  -- Parser._NO_MATCH
  | bool (b : Bool)           -- True / False (Literal values of the JSON grammar)
  | float (text : Str)        -- float(text): the conversion itself is NOT modelled, the value is its argument
  | dict (items : List Val)   -- dict in insertion order; every item is `list [key, value]`, keys distinct
  | obj (cls : Str) (fields : List Val)   -- instance of a plain class: taglang's Eq / Regex / Not / And / Or
deriving Repr, Inhabited

mutual
/-- Python `==` on these values, structural.  Exact on None/int/str/list/sentinel (the fragment the
random grammars use); on bool-vs-int, float and dict (order-insensitive in Python) it is only an
approximation — no modelled function compares such values. -/
def Val.beq : Val → Val → Bool
  | .none, .none => true
  | .int a, .int b => a == b
  | .str a, .str b => a == b
  | .list a, .list b => Val.beqList a b
  | .sentinel, .sentinel => true
  | .bool a, .bool b => a == b
  | .float a, .float b => a == b
  | .dict a, .dict b => Val.beqList a b
  | .obj c a, .obj d b => c == d && Val.beqList a b
  | _, _ => false
def Val.beqList : List Val → List Val → Bool
  | [], [] => true
  | a :: as, b :: bs => Val.beq a b && Val.beqList as bs
  | _, _ => false
end

/-- Python truthiness (`if x:`) -/
def Val.truthy : Val → Bool
  | .none => false
  | .int n => n != 0
  | .str s => !s.isEmpty
  | .list vs => !vs.isEmpty
  | .sentinel => true
  | .bool b => b
  | .float _ => true          -- not modelled (0.0 is falsy); no modelled function tests a float
  | .dict items => !items.isEmpty
  | .obj _ _ => true

/-- outcome of calling a mapped / lifted Python function -/
inductive FnRes where
  | ok (v : Val)
  | backtrack        -- raised parsr.Backtrack
  | raise            -- raised anything else
deriving Repr

/-- the table of mapped functions: the first eight are used by generated grammars (harness/c19.py
FUNCS holds the Python originals), the rest are the functions of the SHIPPED grammars
(translate/grammars.py maps the live function objects to these entries).
Theorems never unfold `Fn.apply`: they hold for every function table. -/
inductive Fn where
  | ident
  | join                      -- "".join(x)
  | length                    -- len(x)
  | const (v : Val)
  | backtrackIf (v : Val)     -- raise Backtrack if x == v else x
  | raiseIf (v : Val)         -- raise ValueError if x == v else x
  | accumulate                -- Parser._accumulate(first, rest)   (lifted, two arguments)
  | pair                      -- lambda *a: list(a)                (lifted, any arity)
  | makeNumber                -- parsr._make_number(sign, int_part, frac_part)        (lifted)
  | mkDict                    -- json_parser: lambda res: dict((k, v) for (k, v) in res)
  | mkEq                      -- taglang.Eq      (the class used as a function)
  | mkRegex                   -- taglang.Regex
  | negate                    -- taglang.negate
  | oper                      -- taglang.oper
  | skipNone                  -- parsr.skip_none: [i for i in x if i is not None]
deriving Repr

def allStr : List Val → Option Str
  | [] => some []
  | .str s :: vs => (allStr vs).map (s ++ ·)
  | _ :: _ => none

/-- `a, b = x` for a list or a str of length two (unpacking a dict / other iterables is not modelled) -/
def unpack2 : Val → Option (Val × Val)
  | .list [a, b] => some (a, b)
  | .str [a, b] => some (.str [a], .str [b])
  | _ => none

def isDigitAscii (c : Char) : Bool := '0' ≤ c && c ≤ '9'
def digitsVal (ds : Str) : Nat := ds.foldl (fun acc c => acc * 10 + (c.toNat - '0'.toNat)) 0

/-- `float(tmp) if "." in tmp else int(tmp)` — exact on `-?digits` and `-?digits.digits` (all the
Number grammar can produce); any other string is rejected by the model (Python accepts a few more
spellings: blanks, '+', '_', exponents, which the grammar cannot produce). -/
def numberOf (tmp : Str) : FnRes :=
  let body := match tmp with | '-' :: r => r | r => r
  if tmp.contains '.' then
    match body.span isDigitAscii with
    | (i, '.' :: fr) => if !i.isEmpty && !fr.isEmpty && fr.all isDigitAscii then .ok (.float tmp) else .raise
    | _ => .raise
  else if !body.isEmpty && body.all isDigitAscii then
    .ok (.int (match tmp with | '-' :: _ => - (digitsVal body : Int) | _ => (digitsVal body : Int)))
  else .raise

def hashable : Val → Bool
  | .list _ => false
  | .dict _ => false
  | _ => true

/-- `d[k] = v` on the insertion-ordered item list -/
def dictSet (k v : Val) : List Val → List Val
  | [] => [.list [k, v]]
  | .list [k', v'] :: rest => if k'.beq k then .list [k', v] :: rest else .list [k', v'] :: dictSet k v rest
  | x :: rest => x :: dictSet k v rest

def dictOf : List Val → List Val → Option (List Val)
  | [], acc => some acc
  | x :: xs, acc => match unpack2 x with
    | some (k, v) => if hashable k then dictOf xs (dictSet k v acc) else none
    | none => none

/-- the `for op, right in rest` loop of taglang.oper; `none` = it raised -/
def operLoop : List Val → Val → Option Val
  | [], left => some left
  | x :: xs, left => match unpack2 x with
    | some (.str op, right) =>
      let l1 := if op == ['&'] then Val.obj "And".toList [left, right] else left
      let l2 := if op == [] || op == [','] || op == ['|'] || op == [',', '|'] then Val.obj "Or".toList [l1, right] else l1
      operLoop xs l2
    | _ => none               -- not unpackable, or `op in ",|"` with a non-str op: TypeError

/-- `x is not None` -/
def Val.notNone : Val → Bool
  | .none => false
  | _ => true

/-- a mapped function receives the child's value; a lifted function receives `list args` -/
def Fn.apply : Fn → Val → FnRes
  | .ident, v => .ok v
  | .join, .str s => .ok (.str s)
  | .join, .list vs => match allStr vs with | some s => .ok (.str s) | none => .raise
  | .join, _ => .raise
  | .length, .str s => .ok (.int s.length)
  | .length, .list vs => .ok (.int vs.length)
  | .length, _ => .raise
  | .const c, _ => .ok c
  | .backtrackIf c, v => if v.beq c then .backtrack else .ok v
  | .raiseIf c, v => if v.beq c then .raise else .ok v
  | .accumulate, .list [first, .list rest] =>
      .ok (.list ((match first with | .sentinel => [] | f => [f]) ++ rest))
  | .accumulate, _ => .raise
  | .pair, v => .ok v
  | .makeNumber, .list [.str sign, .str ip, frac] =>
      -- tmp = sign + int_part + ("".join(frac_part) if frac_part else "")
      if frac.truthy then
        match Fn.apply .join frac with
        | .ok (.str fs) => numberOf (sign ++ ip ++ fs)
        | _ => .raise
      else numberOf (sign ++ ip)
  | .makeNumber, _ => .raise
  | .mkDict, .list items => match dictOf items [] with | some d => .ok (.dict d) | none => .raise
  | .mkDict, .str [] => .ok (.dict [])
  | .mkDict, _ => .raise
  | .mkEq, v => .ok (.obj "Eq".toList [v])
  | .mkRegex, .str s => .ok (.obj "Regex".toList [.str s])     -- re.compile(s); invalid patterns (re.error) not modelled
  | .mkRegex, _ => .raise
  | .negate, v => match unpack2 v with
      | some (op, p) => .ok (if op.truthy then .obj "Not".toList [p] else p)
      | none => .raise
  | .oper, v => match unpack2 v with
      | some (left, .list rest) => (match operLoop rest left with | some r => .ok r | none => .raise)
      | some (left, .str []) => .ok left
      | _ => .raise
  | .skipNone, .list vs => .ok (.list (vs.filter Val.notNone))
  | .skipNone, .str s => .ok (.list (s.map fun c => .str [c]))     -- iterating a str gives its characters
  | .skipNone, _ => .raise                                         -- None / int are not iterable (dict: not modelled)

def lowerAscii (c : Char) : Char :=
  if 'A' ≤ c ∧ c ≤ 'Z' then Char.ofNat (c.toNat + 32) else c

/-- the `while` loop of String.process (458-471) on the remaining input:
(characters consumed, characters collected) -/
def scanString (cs es : Str) : Str → Nat × Str
  | [] => (0, [])
  | [c] => if cs.contains c then (1, [c]) else (0, [])
  | c :: d :: rest =>
    if c = '\\' && es.contains d then
      let r := scanString cs es rest
      (r.1 + 2, d :: r.2)
    else if cs.contains c then
      let r := scanString cs es (d :: rest)
      (r.1 + 1, c :: r.2)
    else (0, [])

/-- the `for c in self.chars` loop of Literal.process (522-543): the matched input text.
`ic`: compare `data[pos].lower()`; the terminal `None` (end of input) fails either way. -/
def matchLit (ic : Bool) : Str → Str → Option Str
  | [], _ => some []
  | _ :: _, [] => none
  | c :: cs, d :: ds =>
    if (if ic then lowerAscii d else d) = c then (matchLit ic cs ds).map (d :: ·) else none

/-- the primitive matchers -/
inductive Prim where
  | anyChar
  | char (c : Char)
  | inSet (cs : Str)
  | string (cs es : Str) (minLen : Nat)
  | literal (cs : Str) (value : Option Val) (ignoreCase : Bool)   -- cs as stored (already lower-cased if ignoreCase)
  | eof
deriving Repr

/-- `none` = the primitive raises -/
def Prim.run (inp : Str) (pos : Nat) : Prim → Option (Nat × Val)
  | .anyChar => match inp[pos]? with
      | some c => some (pos + 1, .str [c])
      | none => none
  | .char c => if inp[pos]? = some c then some (pos + 1, .str [c]) else none
  | .inSet cs => match inp[pos]? with
      | some c => if cs.contains c then some (pos + 1, .str [c]) else none
      | none => none
  | .string cs es m =>
      let r := scanString cs es (inp.drop pos)
      if r.2.length < m then none else some (pos + r.1, .str r.2)
  | .literal cs value ic => match matchLit ic cs (inp.drop pos) with
      | some txt => some (pos + cs.length, match value with | some v => v | none => .str txt)
      | none => none
  | .eof => match inp[pos]? with
      | some _ => none
      | none => some (pos, .none)

/-! ### `Context.line` / `Context.col` (187-194): what PosMarker (572-582) reports -/

/-- `Context.lines = [i for i, x in enumerate(lines) if x == "\n"]`, enumeration starting at `i` -/
def newlineIdx : Str → Nat → List Nat
  | [], _ => []
  | c :: cs, i => if c = '\n' then i :: newlineIdx cs (i + 1) else newlineIdx cs (i + 1)

/-- `bisect.bisect_left(a, x)` on a sorted list: the number of leading elements `< x` -/
def bisectLeft : List Nat → Nat → Nat
  | [], _ => 0
  | a :: as, x => if a < x then 1 + bisectLeft as x else 0

/-- `ctx.line(pos)` (0-based) -/
def lineOf (inp : Str) (pos : Nat) : Nat := bisectLeft (newlineIdx inp 0) pos

/-- the body of `ctx.col(pos)` on a list of newline offsets: `pos` on the first line, else the distance to the
last newline before `pos` -/
def colIn (lines : List Nat) (pos : Nat) : Nat :=
  let p := bisectLeft lines pos
  if p = 0 then pos else pos - lines.getD (p - 1) 0 - 1

/-- `ctx.col(pos)` (0-based) -/
def colOf (inp : Str) (pos : Nat) : Nat := colIn (newlineIdx inp 0) pos

/-- `Mark(lineno, col, value)` as PosMarker builds it: both 1-based, taken at the START position -/
def markVal (inp : Str) (pos : Nat) (v : Val) : Val :=
  .obj "Mark".toList [.int (lineOf inp pos + 1), .int (colOf inp pos + 1), v]

/-- the textbook way to number lines and columns: read the text before the position left to right,
a newline starts the next line at column 0, any other character advances the column -/
def lcStep (lc : Nat × Nat) (c : Char) : Nat × Nat :=
  if c = '\n' then (lc.1 + 1, 0) else (lc.1, lc.2 + 1)

def lineColSpec (inp : Str) (pos : Nat) : Nat × Nat := (inp.take pos).foldl lcStep (0, 0)

inductive Term where
  | prim (p : Prim)
  | seq (ts : List Term)
  | choice (ts : List Term)
  | many (t : Term) (lower : Nat)
  | until (t p : Term)
  | opt (t : Term) (dflt : Val)
  | followedBy (a b : Term)
  | notFollowedBy (a b : Term)
  | keepLeft (a b : Term)
  | keepRight (a b : Term)
  | map (t : Term) (f : Fn)
  | lift (f : Fn) (ts : List Term)
  | wrapper (t : Term)
  | ref (i : Nat)                       -- Forward: index into the rule table
  | startTag (t : Term)
  | endTag (t : Term) (ignoreCase : Bool)
  | mark (t : Term)                     -- PosMarker
deriving Repr, Inhabited

/-- the part of `Context` a result can depend on -/
structure St where
  ferr : Bool
  tags : List Val
deriving Repr

def St.init : St := ⟨false, []⟩

inductive Res where
  | ok (pos : Nat) (v : Val)
  | fail
  | diverge
deriving Repr

/-- result of the list-valued loops (Sequence / Many / Until bodies) -/
inductive LRes where
  | ok (pos : Nat) (vs : List Val)
  | fail
  | diverge
deriving Repr

def LRes.toRes : LRes → Res
  | .ok p vs => .ok p (.list vs)
  | .fail => .fail
  | .diverge => .diverge

/-- the comparison at the end of EndTagName.process (1197-1207); with `ignore_case` a value without
`.lower()` (anything but a str) raises AttributeError, i.e. the tags do not agree -/
def tagsAgree (ic : Bool) (res expect : Val) : Bool :=
  if ic then
    match res, expect with
    | .str r, .str e => r.map lowerAscii == e.map lowerAscii
    | _, _ => false
  else res.beq expect

mutual
def run (rules : List Term) (inp : Str) : Nat → Term → Nat → St → Res × St
  | 0, _, _, σ => (.diverge, σ)
  | fuel + 1, t, pos, σ =>
    if σ.ferr then (.fail, σ) else          -- _debug_hook: "no point in continuing"
    match t with
    | .prim p =>
      match p.run inp pos with
      | some (q, v) => (.ok q v, σ)
      | none => (.fail, σ)
    | .seq ts =>
      match runSeq rules inp fuel ts pos σ with
      | (lr, σ1) => (lr.toRes, σ1)
    | .choice ts => runChoice rules inp fuel ts pos σ
    | .many t lower =>
      match runMany rules inp fuel t pos σ with
      | (.ok p vs, σ1) => if vs.length < lower then (.fail, σ1) else (.ok p (.list vs), σ1)
      | (lr, σ1) => (lr.toRes, σ1)
    | .until t p =>
      match runUntil rules inp fuel t p pos σ with
      | (lr, σ1) => (lr.toRes, σ1)
    | .opt t d =>
      match run rules inp fuel t pos σ with
      | (.fail, σ1) => (.ok pos d, σ1)
      | r => r
    | .followedBy a b =>
      match run rules inp fuel a pos σ with
      | (.ok p v, σ1) =>
        (match run rules inp fuel b p σ1 with
          | (.ok _ _, σ2) => (.ok p v, σ2)
          | r => r)
      | r => r
    | .notFollowedBy a b =>
      match run rules inp fuel a pos σ with
      | (.ok p v, σ1) =>
        (match run rules inp fuel b p σ1 with
          | (.ok _ _, σ2) => (.fail, σ2)
          | (.fail, σ2) => (.ok p v, σ2)
          | r => r)
      | r => r
    | .keepLeft a b =>
      match run rules inp fuel a pos σ with
      | (.ok p v, σ1) =>
        (match run rules inp fuel b p σ1 with
          | (.ok q _, σ2) => (.ok q v, σ2)
          | r => r)
      | r => r
    | .keepRight a b =>
      match run rules inp fuel a pos σ with
      | (.ok p _, σ1) => run rules inp fuel b p σ1
      | r => r
    | .map t f =>
      match run rules inp fuel t pos σ with
      | (.ok p v, σ1) =>
        (match f.apply v with
          | .ok w => (.ok p w, σ1)
          | .backtrack => (.fail, σ1)
          | .raise => (.fail, { σ1 with ferr := true }))
      | r => r
    | .lift f ts =>
      match runSeq rules inp fuel ts pos σ with
      | (.ok p vs, σ1) =>
        (match f.apply (.list vs) with
          | .ok w => (.ok p w, σ1)
          | .backtrack => (.fail, σ1)
          | .raise => (.fail, { σ1 with ferr := true }))
      | (lr, σ1) => (lr.toRes, σ1)
    | .wrapper t => run rules inp fuel t pos σ
    | .ref i =>
      match rules[i]? with
      | some t => run rules inp fuel t pos σ
      | none => (.fail, σ)                  -- Forward without a definition: IndexError
    | .startTag t =>
      match run rules inp fuel t pos σ with
      | (.ok p v, σ1) => (.ok p v, { σ1 with tags := v :: σ1.tags })
      | r => r
    | .endTag t ic =>
      match run rules inp fuel t pos σ with
      | (.ok p v, σ1) =>
        (match σ1.tags with
          | [] => (.fail, σ1)               -- pop from empty list
          | e :: rest =>
            if tagsAgree ic v e then (.ok p v, { σ1 with tags := rest })
            else (.fail, { σ1 with tags := rest }))
      | r => r
    | .mark t =>                            -- PosMarker: line and column of the position it STARTS at
      match run rules inp fuel t pos σ with
      | (.ok p v, σ1) => (.ok p (markVal inp pos v), σ1)
      | r => r
/-- the `for p in self.children` loop of Sequence / Lift -/
def runSeq (rules : List Term) (inp : Str) : Nat → List Term → Nat → St → LRes × St
  | 0, _, _, σ => (.diverge, σ)
  | _ + 1, [], pos, σ => (.ok pos [], σ)
  | fuel + 1, t :: ts, pos, σ =>
    match run rules inp fuel t pos σ with
    | (.ok p v, σ1) =>
      (match runSeq rules inp fuel ts p σ1 with
        | (.ok q vs, σ2) => (.ok q (v :: vs), σ2)
        | r => r)
    | (.fail, σ1) => (.fail, σ1)
    | (.diverge, σ1) => (.diverge, σ1)
/-- the `for c in self.children: try … except: pass` loop of Choice -/
def runChoice (rules : List Term) (inp : Str) : Nat → List Term → Nat → St → Res × St
  | 0, _, _, σ => (.diverge, σ)
  | _ + 1, [], _, σ => (.fail, σ)
  | fuel + 1, t :: ts, pos, σ =>
    match run rules inp fuel t pos σ with
    | (.fail, σ1) => runChoice rules inp fuel ts pos σ1
    | r => r
/-- the `while True` loop of Many (never fails; the lower bound is checked by the caller) -/
def runMany (rules : List Term) (inp : Str) : Nat → Term → Nat → St → LRes × St
  | 0, _, _, σ => (.diverge, σ)
  | fuel + 1, t, pos, σ =>
    match run rules inp fuel t pos σ with
    | (.ok p v, σ1) =>
      (match runMany rules inp fuel t p σ1 with
        | (.ok q vs, σ2) => (.ok q (v :: vs), σ2)
        | r => r)
    | (.fail, σ1) => (.ok pos [], σ1)
    | (.diverge, σ1) => (.diverge, σ1)
/-- the `while True` loop of Until: stop when the predicate matches or the parser fails -/
def runUntil (rules : List Term) (inp : Str) : Nat → Term → Term → Nat → St → LRes × St
  | 0, _, _, _, σ => (.diverge, σ)
  | fuel + 1, t, pr, pos, σ =>
    match run rules inp fuel pr pos σ with
    | (.ok _ _, σ1) => (.ok pos [], σ1)
    | (.diverge, σ1) => (.diverge, σ1)
    | (.fail, σ1) =>
      match run rules inp fuel t pos σ1 with
      | (.ok p v, σ2) =>
        (match runUntil rules inp fuel t pr p σ2 with
          | (.ok q vs, σ3) => (.ok q (v :: vs), σ3)
          | r => r)
      | (.fail, σ2) => (.ok pos [], σ2)
      | (.diverge, σ2) => (.diverge, σ2)
end

/-- what `Parser.__call__` (321-359) reports -/
inductive Outcome where
  | value (v : Val)
  | parseError          -- Exception("At line … column …:\n…")
  | functionError       -- Exception("At line … column …: Map raised …")
  | diverge
deriving Repr

/-- `Parser.__call__`: a returned value is returned whatever `function_error` says -/
def call (rules : List Term) (inp : Str) (fuel : Nat) (t : Term) : Outcome × St :=
  match run rules inp fuel t 0 St.init with
  | (.ok _ v, σ) => (.value v, σ)
  | (.fail, σ) => (if σ.ferr then .functionError else .parseError, σ)
  | (.diverge, σ) => (.diverge, σ)

/-- `p.sep_by(sep)` = `Lift(_accumulate) * Opt(p, _NO_MATCH) * Many(sep >> p)` (234-239) -/
def sepBy (p sep : Term) : Term :=
  .lift .accumulate [.opt p .sentinel, .many (.keepRight sep p) 0]

mutual
/-- no StartTagName / EndTagName inside -/
def Term.tagFree : Term → Bool
  | .prim _ => true
  | .seq ts => Term.tagFreeL ts
  | .choice ts => Term.tagFreeL ts
  | .many t _ => t.tagFree
  | .until t p => t.tagFree && p.tagFree
  | .opt t _ => t.tagFree
  | .followedBy a b => a.tagFree && b.tagFree
  | .notFollowedBy a b => a.tagFree && b.tagFree
  | .keepLeft a b => a.tagFree && b.tagFree
  | .keepRight a b => a.tagFree && b.tagFree
  | .map t _ => t.tagFree
  | .lift _ ts => Term.tagFreeL ts
  | .wrapper t => t.tagFree
  | .ref _ => true
  | .startTag _ => false
  | .endTag _ _ => false
  | .mark t => t.tagFree
def Term.tagFreeL : List Term → Bool
  | [] => true
  | t :: ts => t.tagFree && Term.tagFreeL ts
end

/-! ### the operators that build grammars (Parser.__add__/__or__ 255-279, Sequence.__add__ 624-625,
Choice.__or__ 660-661, Lift.__mul__ 996-997): what `x + y`, `x | y`, `x * y` BUILD -/

/-- `x + y`: a Sequence on the LEFT accumulates `y` onto itself (`Sequence.__add__` = `add_child`);
anything else — a Sequence on the right included — becomes one child of a new two-element Sequence
(`Parser.__add__`), so it contributes ONE value, its own list if it is a sequence. -/
def plus : Term → Term → Term
  | .seq xs, y => .seq (xs ++ [y])
  | x, y => .seq [x, y]

/-- `x | y`: likewise for Choice -/
def alt : Term → Term → Term
  | .choice xs, y => .choice (xs ++ [y])
  | x, y => .choice [x, y]

/-- `x * y`: only a Lift has `__mul__` (it accumulates an argument parser); `none` = TypeError -/
def mul : Term → Term → Option Term
  | .lift f xs, y => some (.lift f (xs ++ [y]))
  | _, _ => none

def Term.isSeq : Term → Bool
  | .seq _ => true
  | _ => false

def Term.isChoice : Term → Bool
  | .choice _ => true
  | _ => false

def Res.isOk : Res → Bool
  | .ok _ _ => true
  | _ => false

/-! ### the syntactic discipline of grammars that terminate (what harness/c19.py's generator enforces) -/

def Prim.consuming : Prim → Bool
  | .anyChar => true
  | .char _ => true
  | .inSet _ => true
  | .string _ _ m => decide (1 ≤ m)
  | .literal cs _ _ => !cs.isEmpty
  | .eof => false

mutual
/-- syntactic: the term cannot succeed without consuming input (a Forward counts as non-consuming) -/
def Term.consuming : Term → Bool
  | .prim p => p.consuming
  | .seq ts => Term.consumingAny ts
  | .choice ts => Term.consumingAll ts
  | .many t l => decide (1 ≤ l) && t.consuming
  | .until _ _ => false
  | .opt _ _ => false
  | .followedBy a _ => a.consuming
  | .notFollowedBy a _ => a.consuming
  | .keepLeft a b => a.consuming || b.consuming
  | .keepRight a b => a.consuming || b.consuming
  | .map t _ => t.consuming
  | .lift _ ts => Term.consumingAny ts
  | .wrapper t => t.consuming
  | .ref _ => false
  | .startTag t => t.consuming
  | .endTag t _ => t.consuming
  | .mark t => t.consuming
def Term.consumingAny : List Term → Bool
  | [] => false
  | t :: ts => t.consuming || Term.consumingAny ts
def Term.consumingAll : List Term → Bool
  | [] => true
  | t :: ts => t.consuming && Term.consumingAll ts
end

mutual
/-- `wf g t`: repetition bodies (Many / Until) are consuming, and — when `g = false`, i.e. nothing
has been consumed yet since the enclosing rule was entered — every Forward reference sits behind
something consuming (no left recursion).  `g = true`: references are allowed anywhere. -/
def Term.wf : Bool → Term → Bool
  | _, .prim _ => true
  | g, .seq ts => Term.wfSeq g ts
  | g, .choice ts => Term.wfAll g ts
  | g, .many t _ => t.consuming && t.wf g && t.wf true
  | g, .until t p => t.consuming && t.wf g && t.wf true && p.wf g && p.wf true
  | g, .opt t _ => t.wf g
  | g, .followedBy a b => a.wf g && b.wf (g || a.consuming)
  | g, .notFollowedBy a b => a.wf g && b.wf (g || a.consuming)
  | g, .keepLeft a b => a.wf g && b.wf (g || a.consuming)
  | g, .keepRight a b => a.wf g && b.wf (g || a.consuming)
  | g, .map t _ => t.wf g
  | g, .lift _ ts => Term.wfSeq g ts
  | g, .wrapper t => t.wf g
  | g, .ref _ => g
  | g, .startTag t => t.wf g
  | g, .endTag t _ => t.wf g
  | g, .mark t => t.wf g
def Term.wfSeq : Bool → List Term → Bool
  | _, [] => true
  | g, t :: ts => t.wf g && Term.wfSeq (g || t.consuming) ts
def Term.wfAll : Bool → List Term → Bool
  | _, [] => true
  | g, t :: ts => t.wf g && Term.wfAll g ts
end

/-- a grammar is well formed: rule bodies consume before they re-enter a rule, repetitions consume -/
def WellFormed (rules : List Term) (t : Term) : Bool := t.wf true && rules.all (fun b => b.wf false)

mutual
def Term.size : Term → Nat
  | .prim _ => 1
  | .seq ts => 1 + Term.sizeL ts
  | .choice ts => 1 + Term.sizeL ts
  | .many t _ => 1 + t.size
  | .until t p => 1 + t.size + p.size
  | .opt t _ => 1 + t.size
  | .followedBy a b => 1 + a.size + b.size
  | .notFollowedBy a b => 1 + a.size + b.size
  | .keepLeft a b => 1 + a.size + b.size
  | .keepRight a b => 1 + a.size + b.size
  | .map t _ => 1 + t.size
  | .lift _ ts => 1 + Term.sizeL ts
  | .wrapper t => 1 + t.size
  | .ref _ => 1
  | .startTag t => 1 + t.size
  | .endTag t _ => 1 + t.size
  | .mark t => 1 + t.size
def Term.sizeL : List Term → Nat
  | [] => 0
  | t :: ts => 1 + t.size + Term.sizeL ts
end

mutual
/-- fuel that suffices for `t` when at most `n` characters remain and `k` suffices for any Forward -/
def Term.cost (k n : Nat) : Term → Nat
  | .prim _ => 1
  | .seq ts => 1 + Term.costL k n ts
  | .choice ts => 1 + Term.costL k n ts
  | .many t _ => 2 + n + t.cost k n
  | .until t p => 2 + n + t.cost k n + p.cost k n
  | .opt t _ => 1 + t.cost k n
  | .followedBy a b => 1 + a.cost k n + b.cost k n
  | .notFollowedBy a b => 1 + a.cost k n + b.cost k n
  | .keepLeft a b => 1 + a.cost k n + b.cost k n
  | .keepRight a b => 1 + a.cost k n + b.cost k n
  | .map t _ => 1 + t.cost k n
  | .lift _ ts => 1 + Term.costL k n ts
  | .wrapper t => 1 + t.cost k n
  | .ref _ => 1 + k
  | .startTag t => 1 + t.cost k n
  | .endTag t _ => 1 + t.cost k n
  | .mark t => 1 + t.cost k n
def Term.costL (k n : Nat) : List Term → Nat
  | [] => 1
  | t :: ts => 1 + t.cost k n + Term.costL k n ts
end

def sumCost (k n : Nat) : List Term → Nat
  | [] => 0
  | b :: bs => b.cost k n + sumCost k n bs

/-- fuel that suffices for any Forward reference when at most `r` characters remain -/
def refFuel (rules : List Term) (n : Nat) : Nat → Nat
  | 0 => 1 + sumCost 0 n rules
  | r + 1 => 1 + sumCost (refFuel rules n r) n rules

/-- the fuel bound of `no_divergence`: computable from the term, the rule table and the number of
characters that remain -/
def bound (rules : List Term) (t : Term) (n : Nat) : Nat := t.cost (refFuel rules n n) n

/-- taglang's `Predicate.test(values)` on the objects the translated grammar builds.
Regex: `re.search` is modelled as substring search (exact for patterns without metacharacters). -/
def isInfix (p : Str) : Str → Bool
  | [] => p.isEmpty
  | c :: cs => p.isPrefixOf (c :: cs) || isInfix p cs

def evalPred (tags : List Str) : Nat → Val → Option Bool
  | 0, _ => none
  | fuel + 1, .obj cls fields =>
    if cls == "Eq".toList then
      match fields with
      | [.str s] => some (tags.contains s)
      | [_] => some false
      | _ => none
    else if cls == "Regex".toList then
      match fields with
      | [.str p] => some (tags.any (isInfix p))
      | _ => none
    else if cls == "Not".toList then
      match fields with
      | [p] => (evalPred tags fuel p).map (!·)
      | _ => none
    else if cls == "And".toList then
      match fields with
      | [l, r] => match evalPred tags fuel l, evalPred tags fuel r with
        | some a, some b => some (a && b)
        | _, _ => none
      | _ => none
    else if cls == "Or".toList then
      match fields with
      | [l, r] => match evalPred tags fuel l, evalPred tags fuel r with
        | some a, some b => some (a || b)
        | _, _ => none
      | _ => none
    else none
  | _ + 1, _ => none

end IV.Peg
