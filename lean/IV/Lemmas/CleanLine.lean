import IV.Lemmas.CleanSpec
/-!
C08 — provenance lemmas (DESIGN Appendix A.6).

`Edit s s'`: `s'` is `s` with disjoint segments replaced by NON-EMPTY inserted (non-original) text.
Every substitution the obfuscators perform is an `Edit` (`str.replace` with a non-empty substitute,
`re.sub` of the password expressions).  `Shrinks s s'`: every all-original window of `s'` is a window
of `s` (original runs only shrink or split, they never join) — what an `Edit` guarantees and what
composes along the pipeline.
-/
namespace IV.CleanLine

/-! ### edits and windows -/

inductive Edit : PStr → PStr → Prop where
  | nil : Edit [] []
  | keep (c : PChar) {s s' : PStr} : Edit s s' → Edit (c :: s) (c :: s')
  | subst (seg : PStr) (v : Str) {s s' : PStr} : v ≠ [] → Edit s s' → Edit (seg ++ s) (ins v ++ s')

def Shrinks (s s' : PStr) : Prop :=
  ∀ pre w post : PStr, s' = pre ++ w ++ post → allOrig w → ∃ pre' post', s = pre' ++ w ++ post'

theorem Shrinks.refl (s : PStr) : Shrinks s s := fun pre _ post h _ => ⟨pre, post, h⟩

theorem Shrinks.trans {a b c : PStr} (h1 : Shrinks a b) (h2 : Shrinks b c) : Shrinks a c := by
  intro pre w post h hw
  obtain ⟨p1, q1, e1⟩ := h2 pre w post h hw
  exact h1 p1 w q1 e1 hw

theorem NoOrigOcc.of_shrinks {k : Str} {s s' : PStr} (h : NoOrigOcc k s) (hs : Shrinks s s') :
    NoOrigOcc k s' := by
  intro pre w post e hw
  obtain ⟨p, q, e'⟩ := hs pre w post e hw
  exact h p w q e' hw

theorem Edit.refl : ∀ s : PStr, Edit s s
  | [] => .nil
  | c :: cs => .keep c (Edit.refl cs)

theorem Edit.keepAll (p : PStr) {s s' : PStr} (h : Edit s s') : Edit (p ++ s) (p ++ s') := by
  induction p with
  | nil => exact h
  | cons c cs ih => exact .keep c ih

theorem ins_cons_not_orig {v : Str} {x : PChar} {xs r : PStr} (a : Char) (as : Str)
    (hv : v = a :: as) (h : ins v ++ r = x :: xs) : x.2 = false := by
  subst hv
  simp [ins] at h
  rw [← h.1]

/-- an all-original prefix of the edited text is a prefix of the text -/
theorem Edit.origPrefix {s s' : PStr} (h : Edit s s') :
    ∀ w post : PStr, s' = w ++ post → allOrig w → ∃ post', s = w ++ post' := by
  induction h with
  | nil =>
    intro w post e _
    have : w = [] := by
      cases w with
      | nil => rfl
      | cons x xs => simp at e
    exact ⟨[], by simp [this]⟩
  | keep c _ ih =>
    intro w post e hw
    cases w with
    | nil => exact ⟨_, (List.nil_append _).symm⟩
    | cons x xs =>
      simp at e
      obtain ⟨e1, e2⟩ := e
      obtain ⟨p', hp'⟩ := ih xs post e2 (fun y hy => hw y (by simp [hy]))
      exact ⟨p', by simp [e1, hp']⟩
  | subst seg v hv _ _ =>
    intro w post e hw
    cases w with
    | nil => exact ⟨_, (List.nil_append _).symm⟩
    | cons x xs =>
      cases v with
      | nil => exact absurd rfl hv
      | cons a as =>
        have hx : x.2 = true := hw x (by simp)
        have := ins_cons_not_orig (x := x) (xs := xs ++ post) a as rfl (by simpa using e)
        rw [this] at hx
        cases hx

/-- core lemma (`origWindow_infix`): every all-original window of the edited text is a window of the text -/
theorem Edit.shrinks {s s' : PStr} (h : Edit s s') : Shrinks s s' := by
  induction h with
  | nil =>
    intro pre w post e _
    have e' : pre ++ w ++ post = [] := e.symm
    simp at e'
    exact ⟨[], [], by simp [e'.2.1]⟩
  | @keep c s s' hE ih =>
    intro pre w post e hw
    cases pre with
    | nil =>
      obtain ⟨p', hp'⟩ := (Edit.keep c hE).origPrefix w post (by simpa using e) hw
      exact ⟨[], p', by simpa using hp'⟩
    | cons p ps =>
      simp at e
      obtain ⟨e1, e2⟩ := e
      obtain ⟨p1, q1, h1⟩ := ih ps w post (by simp [e2]) hw
      exact ⟨c :: p1, q1, by simp [h1]⟩
  | @subst seg v s s' hv hE ih =>
    intro pre w post e hw
    rw [List.append_assoc] at e
    rcases List.append_eq_append_iff.mp e with ⟨a', ha1, ha2⟩ | ⟨c', hc1, hc2⟩
    · -- pre = ins v ++ a', s' = a' ++ (w ++ post)
      obtain ⟨p1, q1, h1⟩ := ih a' w post (by simp [ha2]) hw
      exact ⟨seg ++ p1, q1, by simp [h1]⟩
    · -- ins v = pre ++ c', w ++ post = c' ++ s'
      cases c' with
      | nil =>
        simp at hc2
        obtain ⟨p1, q1, h1⟩ := ih [] w post (by simp [hc2]) hw
        exact ⟨seg ++ p1, q1, by simp [h1]⟩
      | cons y ys =>
        cases w with
        | nil => exact ⟨[], seg ++ s, by simp⟩
        | cons x xs =>
          simp at hc2
          have hx : x.2 = true := hw x (by simp)
          have hy : y ∈ ins v := by rw [hc1]; simp
          simp [ins] at hy
          obtain ⟨_, _, rfl⟩ := hy
          rw [hc2.1] at hx
          cases hx

/-! ### str.replace -/

theorem repl_edit (k v : Str) (hk : k ≠ []) (hv : v ≠ []) :
    ∀ (s : PStr) (skip : Nat), Edit (s.drop skip) (repl k v skip s) := by
  intro s
  induction s with
  | nil => intro skip; cases skip <;> simp [repl] <;> exact .nil
  | cons c cs ih =>
    intro skip
    cases skip with
    | succ n => simp only [repl, List.drop_succ_cons]; exact ih n
    | zero =>
      simp only [repl, List.drop_zero]
      split
      · have hlen : k.length - 1 + 1 = k.length := by
          cases k with
          | nil => exact absurd rfl hk
          | cons a as => simp
        have hd : (c :: cs).drop k.length = cs.drop (k.length - 1) := by
          cases k with
          | nil => exact absurd rfl hk
          | cons a as => simp
        have e : c :: cs = (c :: cs).take k.length ++ cs.drop (k.length - 1) := by
          rw [← hd, List.take_append_drop]
        rw [e]
        exact .subst _ v hv (ih (k.length - 1))
      · exact .keep c (by simpa using ih 0)

theorem interleave_edit (v : Str) (hv : v ≠ []) : ∀ s : PStr, Edit s (interleave v s)
  | [] => by
    have : Edit ([] ++ []) (ins v ++ []) := .subst [] v hv .nil
    simpa [interleave] using this
  | c :: cs => by
    have : Edit ([] ++ c :: cs) (ins v ++ c :: interleave v cs) :=
      .subst [] v hv (.keep c (interleave_edit v hv cs))
    simpa [interleave] using this

/-- `str.replace` with a non-empty substitute is an edit -/
theorem replaceAll_edit (k v : Str) (hv : v ≠ []) (s : PStr) : Edit s (replaceAll k v s) := by
  unfold replaceAll
  split
  · exact interleave_edit v hv s
  · rename_i hk
    have hk' : k ≠ [] := by intro h; simp [h] at hk
    simpa using repl_edit k v hk' hv s 0

/-- no all-original window of `s.replace(k, v)` spells `k` (generalised over the skip counter) -/
theorem repl_clears (k v : Str) (hv : v ≠ []) (hk : k ≠ []) :
    ∀ (s : PStr) (skip : Nat) (pre w post : PStr),
      repl k v skip s = pre ++ w ++ post → allOrig w → chars w = k → False := by
  intro s
  induction s with
  | nil =>
    intro skip pre w post h _ hc
    cases skip <;> simp [repl] at h <;> (rw [h.2.1] at hc; simp [chars] at hc; exact hk hc)
  | cons c cs ih =>
    intro skip pre w post h hw hc
    cases skip with
    | succ n => simp only [repl] at h; exact ih n pre w post h hw hc
    | zero =>
      simp only [repl] at h
      split at h
      · rename_i hm
        have hsplit := h
        rw [List.append_assoc] at hsplit
        rcases List.append_eq_append_iff.mp hsplit with ⟨a', ha1, ha2⟩ | ⟨c', hc1, hc2⟩
        · exact ih (k.length - 1) a' w post (by rw [ha2]; simp) hw hc
        · cases c' with
          | nil =>
            simp at hc1 hc2
            exact ih (k.length - 1) [] w post (by simp [hc2]) hw hc
          | cons y ys =>
            cases w with
            | nil => simp [chars] at hc; exact hk hc
            | cons x xs =>
              simp at hc2
              have hx : x.2 = true := hw x (by simp)
              have hy : y ∈ ins v := by rw [hc1]; simp
              rw [hc2.1] at hx
              simp [ins] at hy
              obtain ⟨_, _, rfl⟩ := hy
              simp at hx
      · rename_i hm
        cases pre with
        | cons p ps =>
          simp at h
          exact ih 0 ps w post (by simp [h.2]) hw hc
        | nil =>
          simp at h
          have hE : Edit (c :: cs) (c :: repl k v 0 cs) := .keep c (by simpa using repl_edit k v hk hv cs 0)
          obtain ⟨t, ht⟩ := hE.origPrefix w post (by simpa using h) hw
          have : k.isPrefixOf (chars (c :: cs)) = true := by
            rw [ht, ← hc]
            simp [chars]
          exact hm (by simpa [matchesAt] using this)

theorem replaceAll_noOrigOcc (k v : Str) (hk : k ≠ []) (hv : v ≠ []) (s : PStr) :
    NoOrigOcc k (replaceAll k v s) := by
  intro pre w post e hw hc
  unfold replaceAll at e
  have : k.isEmpty = false := by cases k with
    | nil => exact absurd rfl hk
    | cons a as => rfl
  rw [this] at e
  exact repl_clears k v hv hk s 0 pre w post (by simpa using e) hw hc

/-! ### a stage = a list of replacements -/

def StepsOk (steps : List (Str × Str)) : Prop := ∀ kv ∈ steps, kv.2 ≠ []

theorem applyAll_shrinks : ∀ (steps : List (Str × Str)) (l : PStr), StepsOk steps → Shrinks l (applyAll steps l)
  | [], l, _ => by simpa [applyAll] using Shrinks.refl l
  | kv :: r, l, h => by
    have h1 : Shrinks l (replaceAll kv.1 kv.2 l) := (replaceAll_edit kv.1 kv.2 (h kv (by simp)) l).shrinks
    have h2 := applyAll_shrinks r (replaceAll kv.1 kv.2 l) (fun x hx => h x (by simp [hx]))
    simpa [applyAll] using h1.trans h2

/-- every key of the stage is cleared: replaced when its turn comes, never re-created afterwards -/
theorem applyAll_clears : ∀ (steps : List (Str × Str)) (l : PStr) (k v : Str), StepsOk steps →
    (k, v) ∈ steps → k ≠ [] → NoOrigOcc k (applyAll steps l)
  | [], _, _, _, _, hm, _ => by simp at hm
  | kv :: r, l, k, v, h, hm, hk => by
    have hr : StepsOk r := fun x hx => h x (by simp [hx])
    simp only [List.mem_cons] at hm
    rcases hm with rfl | hm
    · have h1 := replaceAll_noOrigOcc k v hk (h (k, v) (by simp)) l
      have h2 := applyAll_shrinks r (replaceAll k v l) hr
      simpa [applyAll] using h1.of_shrinks h2
    · simpa [applyAll] using applyAll_clears r (replaceAll kv.1 kv.2 l) k v hr hm hk

/-! ### tables -/

/-- every substitute of the table is non-empty (the obfuscators never issue an empty one) -/
def TblOk (t : List (Str × Str)) : Prop := ∀ k v, lookup t k = some v → v ≠ []

theorem resolve_spec (t : List (Str × Str)) : ∀ (ks : List Str) (steps : List (Str × Str)),
    resolve t ks = some steps → steps.map Prod.fst = ks ∧ ∀ kv ∈ steps, lookup t kv.1 = some kv.2
  | [], steps, h => by simp [resolve] at h; subst h; simp
  | k :: ks, steps, h => by
    simp only [resolve] at h
    cases h1 : lookup t k with
    | none => simp [h1] at h
    | some v =>
      cases h2 : resolve t ks with
      | none => simp [h1, h2] at h
      | some r =>
        simp [h1, h2] at h
        subst h
        obtain ⟨a, b⟩ := resolve_spec t ks r h2
        refine ⟨by simp [a], ?_⟩
        intro kv hkv
        simp only [List.mem_cons] at hkv
        rcases hkv with rfl | hkv
        · exact h1
        · exact b kv hkv

theorem resolve_stepsOk {t : List (Str × Str)} (ht : TblOk t) {ks : List Str} {steps : List (Str × Str)}
    (h : resolve t ks = some steps) : StepsOk steps :=
  fun kv hkv => ht kv.1 kv.2 ((resolve_spec t ks steps h).2 kv hkv)

theorem resolve_mem {t : List (Str × Str)} {ks : List Str} {steps : List (Str × Str)}
    (h : resolve t ks = some steps) {k : Str} (hk : k ∈ ks) : ∃ v, (k, v) ∈ steps := by
  obtain ⟨a, _⟩ := resolve_spec t ks steps h
  rw [← a] at hk
  simp only [List.mem_map] at hk
  obtain ⟨kv, hkv, rfl⟩ := hk
  exact ⟨kv.2, hkv⟩

theorem resolveGuard_spec {t : List (Str × Str)} : ∀ (ks : List Str) (steps : List (Str × Str)),
    resolveGuard t ks = some steps →
    (∀ kv ∈ steps, lookup t kv.1 = some kv.2) ∧ (∀ k v, k ∈ ks → lookup t k = some v → (k, v) ∈ steps)
  | [], steps, h => by simp [resolveGuard] at h; subst h; simp
  | a :: ks, steps, h => by
    simp only [resolveGuard] at h
    cases h1 : lookup t a with
    | some w =>
      rw [h1] at h
      cases h2 : resolveGuard t ks with
      | none => rw [h2] at h; simp at h
      | some r =>
        rw [h2] at h
        simp at h; subst h
        obtain ⟨x, y⟩ := resolveGuard_spec ks r h2
        constructor
        · intro kv hkv
          simp only [List.mem_cons] at hkv
          rcases hkv with rfl | hkv
          · exact h1
          · exact x kv hkv
        · intro k v hk hl
          simp only [List.mem_cons] at hk
          rcases hk with rfl | hk
          · rw [h1] at hl; simp at hl; subst hl; simp
          · simp [y k v hk hl]
    | none =>
      rw [h1] at h
      simp only at h
      split at h
      · obtain ⟨x, y⟩ := resolveGuard_spec ks steps h
        refine ⟨x, ?_⟩
        intro k v hk hl
        simp only [List.mem_cons] at hk
        rcases hk with rfl | hk
        · rw [h1] at hl; simp at hl
        · exact y k v hk hl
      · simp at h

theorem resolveGuard_stepsOk {t : List (Str × Str)} (ht : TblOk t) {ks : List Str} {steps : List (Str × Str)}
    (h : resolveGuard t ks = some steps) : StepsOk steps :=
  fun kv hkv => ht kv.1 kv.2 ((resolveGuard_spec ks steps h).1 kv hkv)

theorem macStage_steps {tbl : List (Str × Str)} {l out : PStr} (h : macStage tbl l = .ok out) :
    ∃ steps, resolveGuard tbl (macKeys (chars l)) = some steps ∧ out = applyAll steps l := by
  unfold macStage at h
  split at h
  · rename_i steps h1
    simp [pure, Except.pure] at h
    exact ⟨steps, h1, h.symm⟩
  · simp [throw, throwThe, MonadExceptOf.throw] at h

theorem ipv6Stage_steps {tbl : List (Str × Str)} {found : List Str} {l out : PStr}
    (h : ipv6Stage tbl found l = .ok out) :
    ∃ steps, resolveGuard tbl found = some steps ∧ out = applyAll steps l := by
  unfold ipv6Stage at h
  split at h
  · rename_i steps h1
    simp [pure, Except.pure] at h
    exact ⟨steps, h1, h.symm⟩
  · simp [throw, throwThe, MonadExceptOf.throw] at h

/-! ### the keyword database -/

theorem dictSet_vals (d : List (Str × Str)) (k v : Str) (P : Str → Prop) (hd : ∀ kv ∈ d, P kv.2) (hv : P v) :
    ∀ kv ∈ dictSet d k v, P kv.2 := by
  intro kv h
  unfold dictSet at h
  split at h
  · simp only [List.mem_map] at h
    obtain ⟨x, hx, rfl⟩ := h
    split
    · exact hv
    · exact hd x hx
  · simp only [List.mem_append, List.mem_singleton] at h
    rcases h with h | rfl
    · exact hd kv h
    · exact hv

theorem kwDbAux_vals : ∀ (ks : List Str) (i : Nat) (d : List (Str × Str)), (∀ kv ∈ d, kv.2 ≠ []) →
    ∀ kv ∈ kwDbAux i ks d, kv.2 ≠ []
  | [], _, d, hd => by simpa [kwDbAux] using hd
  | k :: ks, i, d, hd => by
    simp only [kwDbAux]
    exact kwDbAux_vals ks (i + 1) _ (dictSet_vals d _ _ (· ≠ []) hd (by simp))

theorem kwDb_stepsOk (ks : List Str) : StepsOk (kwDb ks) :=
  kwDbAux_vals ks 0 [] (by simp)

/-! ### the password expressions -/

theorem subPw_edit (m : Str → Option (Nat × Nat)) :
    ∀ (s : PStr) (skip : Nat), Edit (s.drop skip) (subPw m skip s) := by
  intro s
  induction s with
  | nil => intro skip; cases skip <;> simp [subPw] <;> exact .nil
  | cons c cs ih =>
    intro skip
    cases skip with
    | succ n => simp only [subPw, List.drop_succ_cons]; exact ih n
    | zero =>
      simp only [subPw, List.drop_zero]
      split
      · rename_i keep drop _
        -- c :: cs = take keep ++ seg ++ cs.drop (keep + drop - 1)
        have hsuf : ∃ seg, (c :: cs).drop keep = seg ++ cs.drop (keep + drop - 1) := by
          by_cases h0 : keep + drop = 0
          · have hk : keep = 0 := by omega
            have hd : drop = 0 := by omega
            subst hk; subst hd
            exact ⟨[c], by simp⟩
          · refine ⟨((c :: cs).drop keep).take drop, ?_⟩
            have : cs.drop (keep + drop - 1) = ((c :: cs).drop keep).drop drop := by
              rw [List.drop_drop]
              obtain ⟨n, hn⟩ : ∃ n, keep + drop = n + 1 := ⟨keep + drop - 1, by omega⟩
              rw [hn]; simp
            rw [this, List.take_append_drop]
        obtain ⟨seg, hseg⟩ := hsuf
        have e : c :: cs = (c :: cs).take keep ++ (seg ++ cs.drop (keep + drop - 1)) := by
          rw [← hseg, List.take_append_drop]
        have hE : Edit (seg ++ cs.drop (keep + drop - 1)) (ins stars ++ subPw m (keep + drop - 1) cs) :=
          .subst seg stars (by decide) (ih (keep + drop - 1))
        have := Edit.keepAll ((c :: cs).take keep) hE
        rw [← e] at this
        simpa [List.append_assoc] using this
      · exact .keep c (by simpa using ih 0)

theorem passwordStage_shrinks (l : PStr) : Shrinks l (passwordStage l) := by
  unfold passwordStage
  have h1 : Shrinks l (subPw pwMatch1 0 l) := by simpa using (subPw_edit pwMatch1 l 0).shrinks
  simp only
  split
  · exact h1
  · exact h1.trans (by simpa using (subPw_edit pwMatch2 (subPw pwMatch1 0 l) 0).shrinks)

/-! ### the stages and the pipeline (plain substitution mode, `width = False`) -/

structure TablesOk (tb : Tables) : Prop where
  ip : TblOk tb.ip
  host : TblOk tb.host
  mac : TblOk tb.mac
  ipv6 : TblOk tb.ipv6

theorem hostStage_steps {fqdn : Str} {tbl : List (Str × Str)} {l out : PStr}
    (h : hostStage fqdn tbl l = .ok out) :
    ∃ steps self, resolve tbl (hostKeys fqdn (chars l)) = some steps ∧ lookup tbl fqdn = some self ∧
      out = applyAll (steps ++ [(shortName fqdn, self)]) l := by
  unfold hostStage at h
  split at h
  · rename_i steps self h1 h2
    simp [pure, Except.pure] at h
    exact ⟨steps, self, h1, h2, h.symm⟩
  · simp [throw, throwThe, MonadExceptOf.throw] at h

theorem ipStage_steps {tbl : List (Str × Str)} {l out : PStr} (h : ipStage tbl false l = .ok out) :
    ∃ steps, resolve tbl (ipKeys (chars l)) = some steps ∧ out = applyAll steps l := by
  unfold ipStage at h
  simp only [Bool.false_eq_true, if_false] at h
  split at h
  · simp [throw, throwThe, MonadExceptOf.throw] at h
  · rename_i steps h1
    simp [pure, Except.pure] at h
    exact ⟨steps, h1, h.symm⟩

theorem runStage_shrinks {cfg : Cfg} {tb : Tables} (htb : TablesOk tb) (v6 : List Str) (st : Stage)
    {l out : PStr} (h : runStage cfg tb false v6 st l = .ok out) : Shrinks l out := by
  unfold runStage at h
  split at h
  · simp [pure, Except.pure] at h; subst h; exact Shrinks.refl _
  · cases st with
    | hostname =>
      obtain ⟨steps, self, h1, h2, rfl⟩ := hostStage_steps h
      apply applyAll_shrinks
      intro kv hkv
      simp only [List.mem_append, List.mem_singleton] at hkv
      rcases hkv with hkv | rfl
      · exact resolve_stepsOk htb.host h1 kv hkv
      · exact htb.host _ _ h2
    | ip =>
      obtain ⟨steps, h1, rfl⟩ := ipStage_steps h
      exact applyAll_shrinks _ _ (resolve_stepsOk htb.ip h1)
    | ipv6 =>
      obtain ⟨steps, h1, rfl⟩ := ipv6Stage_steps h
      exact applyAll_shrinks _ _ (resolveGuard_stepsOk htb.ipv6 h1)
    | keyword =>
      simp [pure, Except.pure] at h; subst h
      exact applyAll_shrinks _ _ (kwDb_stepsOk _)
    | mac =>
      obtain ⟨steps, h1, rfl⟩ := macStage_steps h
      exact applyAll_shrinks _ _ (resolveGuard_stepsOk htb.mac h1)
    | password =>
      simp [pure, Except.pure] at h; subst h
      exact passwordStage_shrinks _

theorem runStages_shrinks {cfg : Cfg} {tb : Tables} (htb : TablesOk tb) (v6 : List Str) :
    ∀ (sts : List Stage) {l out : PStr}, runStages cfg tb false v6 sts l = .ok out → Shrinks l out
  | [], l, out, h => by simp [runStages, pure, Except.pure] at h; subst h; exact Shrinks.refl _
  | st :: r, l, out, h => by
    simp only [runStages] at h
    split at h
    · rename_i l' h1
      exact (runStage_shrinks htb v6 st h1).trans (runStages_shrinks htb v6 r h)
    · simp at h

theorem runStages_append {cfg : Cfg} {tb : Tables} {w : Bool} {v6 : List Str} :
    ∀ (a b : List Stage) (l : PStr), runStages cfg tb w v6 (a ++ b) l =
      match runStages cfg tb w v6 a l with
      | .ok l1 => runStages cfg tb w v6 b l1
      | .error e => .error e
  | [], b, l => by simp [runStages, pure, Except.pure]
  | st :: r, b, l => by
    simp only [List.cons_append, runStages]
    cases runStage cfg tb w v6 st l with
    | ok l' => simpa using runStages_append r b l'
    | error e => rfl

/-- a stage that clears `k` on the line it receives keeps it cleared to the end of the pipeline -/
theorem stage_clears_to_end {cfg : Cfg} {tb : Tables} (htb : TablesOk tb) (v6 : List Str) (k : Str)
    (before after : List Stage) (st : Stage) {l l1 out : PStr}
    (h1 : runStages cfg tb false v6 before l = .ok l1)
    (hest : ∀ l2, runStage cfg tb false v6 st l1 = .ok l2 → NoOrigOcc k l2)
    (hout : runStages cfg tb false v6 (before ++ st :: after) l = .ok out) : NoOrigOcc k out := by
  rw [runStages_append, h1] at hout
  simp only [runStages] at hout
  split at hout
  · rename_i l2 h2
    exact (hest l2 h2).of_shrinks (runStages_shrinks htb v6 after hout)
  · simp at hout

/-! ### sorting keeps the members -/

theorem mem_insLen {x y : Str} : ∀ {l : List Str}, y ∈ insLen x l ↔ y = x ∨ y ∈ l
  | [] => by simp [insLen]
  | z :: zs => by
    simp only [insLen]
    split
    · simp only [List.mem_cons, mem_insLen (l := zs)]
      constructor
      · rintro (h | h | h)
        · exact .inr (.inl h)
        · exact .inl h
        · exact .inr (.inr h)
      · rintro (h | h | h)
        · exact .inr (.inl h)
        · exact .inl h
        · exact .inr (.inr h)
    · simp

theorem mem_foldl_insLen {y : Str} : ∀ (l acc : List Str),
    y ∈ l.foldl (fun acc x => insLen x acc) acc ↔ y ∈ l ∨ y ∈ acc
  | [], acc => by simp
  | x :: xs, acc => by
    simp only [List.foldl_cons, mem_foldl_insLen xs, mem_insLen, List.mem_cons]
    constructor
    · rintro (h | h | h)
      · exact .inl (.inr h)
      · exact .inl (.inl h)
      · exact .inr h
    · rintro ((h | h) | h)
      · exact .inr (.inl h)
      · exact .inl h
      · exact .inr (.inr h)

theorem mem_sortLenDesc {y : Str} {l : List Str} : y ∈ sortLenDesc l ↔ y ∈ l := by
  simp [sortLenDesc, mem_foldl_insLen]

end IV.CleanLine
