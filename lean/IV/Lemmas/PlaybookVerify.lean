import IV.Model.Playbook
/-!
Lemmas about `exclude_dynamic_elements` / `verify` of the Playbook model: the exclusion loop only
ever fails with a verification error, what it removes is confined to `hosts` / `vars`, and
association-list algebra (`eraseStr`, `setStr`, `lookupStr` commute on different keys).
-/
namespace IV.Playbook

/-! ### association lists -/

theorem eraseStr_sublist (b : Str) : ∀ (vs vs' : List (Scalar × PVal)), eraseStr b vs = some vs' → vs'.Sublist vs
  | [], _, h => by simp [eraseStr] at h
  | (k, v) :: r, vs', h => by
    simp only [eraseStr] at h
    split at h
    · injection h with h; subst h; exact List.Sublist.cons _ (List.Sublist.refl _)
    · cases hr : eraseStr b r with
      | none => simp [hr] at h
      | some r' =>
        simp [hr] at h; subst h
        exact List.Sublist.cons_cons _ (eraseStr_sublist b r r' hr)

theorem lookupStr_setStr_ne (a c : Str) (w : PVal) (h : a ≠ c) :
    ∀ p : List (Scalar × PVal), lookupStr c (setStr a w p) = lookupStr c p
  | [] => rfl
  | (k, v) :: r => by
    simp only [setStr]
    split
    · rename_i hk
      have : ¬ k = Scalar.str c := by rw [hk]; intro e; injection e with e; exact h e
      simp [lookupStr, this]
    · simp only [lookupStr]; rw [lookupStr_setStr_ne a c w h r]

theorem eraseStr_setStr_same (a : Str) (w : PVal) :
    ∀ p : List (Scalar × PVal), eraseStr a (setStr a w p) = eraseStr a p
  | [] => rfl
  | (k, v) :: r => by
    simp only [setStr]
    split
    · rename_i hk; simp [eraseStr, hk]
    · rename_i hk; simp only [eraseStr, hk, if_false]; rw [eraseStr_setStr_same a w r]

theorem eraseStr_setStr_ne (a c : Str) (w : PVal) (h : a ≠ c) :
    ∀ p : List (Scalar × PVal), eraseStr c (setStr a w p) = (eraseStr c p).map (setStr a w)
  | [] => rfl
  | (k, v) :: r => by
    simp only [setStr]
    split
    · rename_i hk
      have hc : ¬ k = Scalar.str c := by rw [hk]; intro e; injection e with e; exact h e
      simp only [eraseStr, hc, if_false]
      cases eraseStr c r with
      | none => rfl
      | some r' => simp [setStr, hk]
    · rename_i hk
      simp only [eraseStr]
      split
      · simp
      · rw [eraseStr_setStr_ne a c w h r]
        cases eraseStr c r with
        | none => rfl
        | some r' => simp [setStr, hk]

theorem setStr_setStr_same (a : Str) (w w' : PVal) :
    ∀ p : List (Scalar × PVal), setStr a w (setStr a w' p) = setStr a w p
  | [] => rfl
  | (k, v) :: r => by
    simp only [setStr]
    split
    · rename_i hk; simp [setStr, hk]
    · rename_i hk; simp only [setStr, hk, if_false]; rw [setStr_setStr_same a w w' r]

theorem setStr_comm (a c : Str) (w u : PVal) (h : a ≠ c) :
    ∀ p : List (Scalar × PVal), setStr c u (setStr a w p) = setStr a w (setStr c u p)
  | [] => rfl
  | (k, v) :: r => by
    by_cases hka : k = Scalar.str a
    · subst hka
      have h1 : ¬ (Scalar.str a = Scalar.str c) := by intro e; injection e with e; exact h e
      simp [setStr, h1]
    · by_cases hkc : k = Scalar.str c
      · subst hkc
        simp [setStr, hka]
      · simp only [setStr, hka, hkc, if_false]; rw [setStr_comm a c w u h r]

theorem lookupStr_setStr_same (a : Str) (w : PVal) :
    ∀ (p : List (Scalar × PVal)) (v : PVal), lookupStr a p = some v → lookupStr a (setStr a w p) = some w
  | [], _, h => by simp [lookupStr] at h
  | (k, v) :: r, v0, h => by
    simp only [lookupStr] at h
    simp only [setStr]
    split
    · rename_i hk; simp [lookupStr, hk]
    · rename_i hk; simp only [hk, if_false] at h; simp only [lookupStr, hk, if_false]
      exact lookupStr_setStr_same a w r v0 h

theorem lookupStr_setStr_none (a : Str) (w : PVal) :
    ∀ (p : List (Scalar × PVal)), lookupStr a p = none → setStr a w p = p
  | [], _ => rfl
  | (k, v) :: r, h => by
    simp only [lookupStr] at h
    split at h
    · simp at h
    · rename_i hk; simp only [setStr, hk, if_false]; rw [lookupStr_setStr_none a w r h]

/-! ### the exclusion loop fails only with a verification error -/

theorem exclStep_error (r : Play) (e : Str) (x : Err) (h : exclStep r e = .error x) : x = .verr := by
  unfold exclStep at h
  repeat' split at h
  all_goals first | (injection h with h; exact h.symm) | (cases h)

theorem exclLoop_error : ∀ (es : List Str) (r : Play) (x : Err), exclLoop r es = .error x → x = .verr
  | [], r, x, h => by simp [exclLoop] at h
  | e :: es, r, x, h => by
    simp only [exclLoop] at h
    cases hs : exclStep r e with
    | ok r' => rw [hs] at h; exact exclLoop_error es r' x h
    | error y =>
      rw [hs] at h; injection h with h; subst h; exact exclStep_error r e y hs

/-- a request the loop accepts is `a` or `a/b` with `a` one of the dynamic labels -/
def ValidPath (path : List Str) : Prop :=
  (∃ a, path = [a] ∧ isLabel a = true) ∨ (∃ a b, path = [a, b] ∧ isLabel a = true)

theorem exclStep_ok_valid (r r' : Play) (e : Str) (h : exclStep r e = .ok r') : ValidPath (pathOf e) := by
  unfold exclStep at h
  split at h
  · rename_i a hp
    split at h
    · rename_i hl; exact Or.inl ⟨a, hp, hl⟩
    · cases h
  · rename_i a b hp
    split at h
    · rename_i hl; exact Or.inr ⟨a, b, hp, hl⟩
    · cases h
  · cases h

theorem exclLoop_ok_valid : ∀ (es : List Str) (r r' : Play), exclLoop r es = .ok r' →
    ∀ e ∈ es, ValidPath (pathOf e)
  | [], _, _, _, e, he => by simp at he
  | e0 :: es, r, r', h, e, he => by
    simp only [exclLoop] at h
    cases hs : exclStep r e0 with
    | error y => rw [hs] at h; cases h
    | ok r1 =>
      rw [hs] at h
      rcases List.mem_cons.mp he with rfl | he
      · exact exclStep_ok_valid r r1 _ hs
      · exact exclLoop_ok_valid es r1 r' h e he

/-! ### what exclusion removes is confined to the dynamic labels -/

def isDynKey (k : Scalar) : Prop := k = .str sHosts ∨ k = .str sVars

theorem isLabel_dyn (a : Str) (h : isLabel a = true) : isDynKey (.str a) := by
  unfold isLabel at h
  simp only [Bool.or_eq_true, decide_eq_true_eq] at h
  rcases h with h | h
  · exact Or.inl (by rw [h])
  · exact Or.inr (by rw [h])

/-- `Shrunk p p'`: `p'` is `p` with some `hosts` / `vars` entries deleted and some direct children
of a `hosts` / `vars` mapping deleted; every other entry is identical and in the same order -/
inductive Shrunk : Play → Play → Prop
  | nil : Shrunk [] []
  | keep (kv : Scalar × PVal) {p p' : Play} : Shrunk p p' → Shrunk (kv :: p) (kv :: p')
  | drop (k : Scalar) (v : PVal) {p p' : Play} : isDynKey k → Shrunk p p' → Shrunk ((k, v) :: p) p'
  | child (k : Scalar) (kvs kvs' : List (Scalar × PVal)) {p p' : Play} : isDynKey k → kvs'.Sublist kvs →
      Shrunk p p' → Shrunk ((k, .map kvs) :: p) ((k, .map kvs') :: p')

theorem Shrunk.refl : ∀ p : Play, Shrunk p p
  | [] => .nil
  | kv :: r => .keep kv (Shrunk.refl r)

theorem Shrunk.erase (a : Str) (ha : isLabel a = true) {p r : Play} (h : Shrunk p r) :
    ∀ r', eraseStr a r = some r' → Shrunk p r' := by
  induction h with
  | nil => intro r' hr; simp [eraseStr] at hr
  | @keep kv p0 q0 hs ih =>
    intro r' hr
    obtain ⟨k, v⟩ := kv
    simp only [eraseStr] at hr
    split at hr
    · rename_i hk; injection hr with hr; subst hr
      exact .drop k v (hk ▸ isLabel_dyn a ha) hs
    · cases he : eraseStr a q0 with
      | none => simp [he] at hr
      | some r0 => simp [he] at hr; subst hr; exact .keep _ (ih r0 he)
  | drop k v hd hs ih => intro r' hr; exact .drop k v hd (ih r' hr)
  | @child k kvs kvs' p0 q0 hd hsub hs ih =>
    intro r' hr
    simp only [eraseStr] at hr
    split at hr
    · injection hr with hr; subst hr; exact .drop k _ hd hs
    · cases he : eraseStr a q0 with
      | none => simp [he] at hr
      | some r0 => simp [he] at hr; subst hr; exact .child k kvs kvs' hd hsub (ih r0 he)

theorem Shrunk.setChild (a b : Str) (ha : isLabel a = true) {p r : Play} (h : Shrunk p r) :
    ∀ vs vs', lookupStr a r = some (.map vs) → eraseStr b vs = some vs' →
      Shrunk p (setStr a (.map vs') r) := by
  induction h with
  | nil => intro vs vs' hl; simp [lookupStr] at hl
  | keep kv hs ih =>
    intro vs vs' hl he
    obtain ⟨k, v⟩ := kv
    simp only [lookupStr] at hl
    simp only [setStr]
    split
    · rename_i hk
      simp only [hk, if_true] at hl; injection hl with hl; subst hl
      exact .child k vs vs' (hk ▸ isLabel_dyn a ha) (eraseStr_sublist b vs vs' he) hs
    · rename_i hk
      simp only [hk, if_false] at hl
      exact .keep _ (ih vs vs' hl he)
  | drop k v hd hs ih => intro vs vs' hl he; exact .drop k v hd (ih vs vs' hl he)
  | child k kvs kvs' hd hsub hs ih =>
    intro vs vs' hl he
    simp only [lookupStr] at hl
    simp only [setStr]
    split
    · rename_i hk
      simp only [hk, if_true] at hl; injection hl with hl; injection hl with hl; subst hl
      exact .child k kvs vs' hd ((eraseStr_sublist b _ vs' he).trans hsub) hs
    · rename_i hk
      simp only [hk, if_false] at hl
      exact .child k kvs kvs' hd hsub (ih vs vs' hl he)

theorem exclStep_shrunk (p r r' : Play) (e : Str) (hp : Shrunk p r) (h : exclStep r e = .ok r') :
    Shrunk p r' := by
  unfold exclStep at h
  split at h
  · rename_i a _
    split at h
    · rename_i hl
      cases he : eraseStr a r with
      | none => simp [he] at h
      | some r0 => simp [he] at h; subst h; exact hp.erase a hl r0 he
    · cases h
  · rename_i a b _
    split at h
    · rename_i hl
      split at h
      · rename_i vs hlk
        cases he : eraseStr b vs with
        | none => simp [he] at h
        | some vs' => simp [he] at h; subst h; exact hp.setChild a b hl vs vs' hlk he
      · cases h
    · cases h
  · cases h

theorem exclLoop_shrunk : ∀ (es : List Str) (p r r' : Play), Shrunk p r → exclLoop r es = .ok r' → Shrunk p r'
  | [], p, r, r', hp, h => by simp only [exclLoop] at h; injection h with h; subst h; exact hp
  | e :: es, p, r, r', hp, h => by
    simp only [exclLoop] at h
    cases hs : exclStep r e with
    | error y => rw [hs] at h; cases h
    | ok r1 => rw [hs] at h; exact exclLoop_shrunk es p r1 r' (exclStep_shrunk p r r1 e hp hs) h

/-! ### changing the value of an excluded top-level element does not change the result -/

/-- `q` is `p` except possibly for the value stored under the string key `a` -/
def SameBut (a : Str) (p q : Play) : Prop := q = p ∨ ∃ w, q = setStr a w p

theorem exclStep_sameBut (a : Str) (p q p1 q1 : Play) (e : Str) (hr : SameBut a p q)
    (hp : exclStep p e = .ok p1) (hq : exclStep q e = .ok q1) :
    SameBut a p1 q1 ∧ (pathOf e = [a] → q1 = p1) := by
  rcases hr with rfl | ⟨w, rfl⟩
  · rw [hp] at hq; injection hq with hq; subst hq; exact ⟨Or.inl rfl, fun _ => rfl⟩
  · unfold exclStep at hp hq
    split at hp
    · rename_i c hpath
      rw [hpath] at hq
      simp only at hq
      split at hp
      · rename_i hl
        simp only [hl, if_true] at hq
        cases he : eraseStr c p with
        | none => simp [he] at hp
        | some r0 =>
          simp [he] at hp; subst hp
          by_cases hca : a = c
          · subst hca
            rw [eraseStr_setStr_same, he] at hq
            simp at hq; subst hq
            exact ⟨Or.inl rfl, fun _ => rfl⟩
          · rw [eraseStr_setStr_ne a c w hca, he] at hq
            simp at hq; subst hq
            refine ⟨Or.inr ⟨w, rfl⟩, ?_⟩
            intro hh; rw [hpath] at hh; injection hh with hh; exact absurd hh.symm hca
      · cases hp
    · rename_i c b hpath
      rw [hpath] at hq
      simp only at hq
      split at hp
      · rename_i hl
        simp only [hl, if_true] at hq
        refine ⟨?_, fun hh => by rw [hpath] at hh; simp at hh⟩
        split at hp
        · rename_i vs hlk
          cases he : eraseStr b vs with
          | none => simp [he] at hp
          | some vs' =>
            simp [he] at hp; subst hp
            by_cases hca : a = c
            · subst hca
              split at hq
              · rename_i us _
                cases hu : eraseStr b us with
                | none => simp [hu] at hq
                | some us' =>
                  simp [hu] at hq; subst hq
                  right; refine ⟨.map us', ?_⟩
                  rw [setStr_setStr_same, setStr_setStr_same]
              · cases hq
            · rw [lookupStr_setStr_ne a c w hca, hlk] at hq
              simp [he] at hq; subst hq
              right; exact ⟨w, setStr_comm a c w _ hca p⟩
        · cases hp
      · cases hp
    · cases hp

theorem exclLoop_sameBut (a : Str) : ∀ (es : List Str) (p q r r' : Play), SameBut a p q →
    exclLoop p es = .ok r → exclLoop q es = .ok r' → (∃ e ∈ es, pathOf e = [a]) → r' = r
  | [], _, _, _, _, _, _, _, ⟨e, he, _⟩ => by simp at he
  | e0 :: es, p, q, r, r', hr, hp, hq, ⟨e, he, hpe⟩ => by
    simp only [exclLoop] at hp hq
    cases hsp : exclStep p e0 with
    | error y => rw [hsp] at hp; cases hp
    | ok p1 =>
      cases hsq : exclStep q e0 with
      | error y => rw [hsq] at hq; cases hq
      | ok q1 =>
        rw [hsp] at hp; rw [hsq] at hq
        obtain ⟨hr1, heq⟩ := exclStep_sameBut a p q p1 q1 e0 hr hsp hsq
        rcases List.mem_cons.mp he with rfl | he'
        · have := heq hpe; subst this
          rw [hp] at hq; injection hq with hq; exact hq.symm
        · exact exclLoop_sameBut a es p1 q1 r r' hr1 hp hq ⟨e, he', hpe⟩

/-! ### … and of a direct child of `hosts` / `vars` that the list excludes -/

theorem lookupStr_eraseStr_ne (a c : Str) (h : a ≠ c) :
    ∀ (p p1 : List (Scalar × PVal)), eraseStr c p = some p1 → lookupStr a p1 = lookupStr a p
  | [], _, he => by simp [eraseStr] at he
  | (k, v) :: r, p1, he => by
    simp only [eraseStr] at he
    split at he
    · rename_i hk
      injection he with he; subst he
      have : ¬ k = Scalar.str a := by rw [hk]; intro e; injection e with e; exact h e.symm
      simp [lookupStr, this]
    · cases hr : eraseStr c r with
      | none => simp [hr] at he
      | some r' =>
        simp [hr] at he; subst he
        simp only [lookupStr]
        rw [lookupStr_eraseStr_ne a c h r r' hr]

/-- `q` is `p` except possibly for the value of the child `b` of the mapping stored under `a` -/
def SameButChild (a b : Str) (p q : Play) : Prop :=
  q = p ∨ ∃ vs w, lookupStr a p = some (.map vs) ∧ q = setStr a (.map (setStr b w vs)) p

theorem exclStep_sameButChild (a b : Str) (p q p1 q1 : Play) (e : Str) (hr : SameButChild a b p q)
    (hp : exclStep p e = .ok p1) (hq : exclStep q e = .ok q1) :
    SameButChild a b p1 q1 ∧ (pathOf e = [a, b] → q1 = p1) := by
  rcases hr with rfl | ⟨vs, w, hlk, rfl⟩
  · rw [hp] at hq; injection hq with hq; subst hq; exact ⟨Or.inl rfl, fun _ => rfl⟩
  · unfold exclStep at hp hq
    split at hp
    · rename_i c hpath
      rw [hpath] at hq
      simp only at hq
      refine ⟨?_, fun hh => by rw [hpath] at hh; simp at hh⟩
      split at hp
      · rename_i hl
        simp only [hl, if_true] at hq
        cases he : eraseStr c p with
        | none => simp [he] at hp
        | some r0 =>
          simp [he] at hp; subst hp
          by_cases hca : a = c
          · subst hca
            rw [eraseStr_setStr_same, he] at hq
            simp at hq; subst hq
            exact Or.inl rfl
          · rw [eraseStr_setStr_ne a c _ hca, he] at hq
            simp at hq; subst hq
            exact Or.inr ⟨vs, w, by rw [lookupStr_eraseStr_ne a c hca p _ he]; exact hlk, rfl⟩
      · cases hp
    · rename_i c d hpath
      rw [hpath] at hq
      simp only at hq
      split at hp
      · rename_i hl
        simp only [hl, if_true] at hq
        split at hp
        · rename_i us hlc
          cases he : eraseStr d us with
          | none => simp [he] at hp
          | some us' =>
            simp [he] at hp; subst hp
            by_cases hca : a = c
            · subst hca
              rw [hlk] at hlc; injection hlc with hlc; injection hlc with hlc; subst hlc
              rw [lookupStr_setStr_same a _ p _ hlk] at hq
              simp only at hq
              by_cases hdb : b = d
              · subst hdb
                rw [eraseStr_setStr_same, he] at hq
                simp at hq; subst hq
                rw [setStr_setStr_same]
                exact ⟨Or.inl rfl, fun _ => rfl⟩
              · rw [eraseStr_setStr_ne b d w hdb, he] at hq
                simp at hq; subst hq
                rw [setStr_setStr_same]
                refine ⟨Or.inr ⟨us', w, lookupStr_setStr_same a _ p _ hlk, ?_⟩, ?_⟩
                · rw [setStr_setStr_same]
                · intro hh; rw [hpath] at hh; injection hh with _ hh; injection hh with hh
                  exact absurd hh.symm hdb
            · rw [lookupStr_setStr_ne a c _ hca, hlc] at hq
              simp [he] at hq; subst hq
              refine ⟨Or.inr ⟨vs, w, ?_, setStr_comm a c _ _ hca p⟩, ?_⟩
              · rw [lookupStr_setStr_ne c a _ (fun e => hca e.symm)]; exact hlk
              · intro hh; rw [hpath] at hh; injection hh with hh; exact absurd hh.symm hca
        · cases hp
      · cases hp
    · cases hp

theorem exclLoop_sameButChild (a b : Str) : ∀ (es : List Str) (p q r r' : Play), SameButChild a b p q →
    exclLoop p es = .ok r → exclLoop q es = .ok r' → (∃ e ∈ es, pathOf e = [a, b]) → r' = r
  | [], _, _, _, _, _, _, _, ⟨e, he, _⟩ => by simp at he
  | e0 :: es, p, q, r, r', hr, hp, hq, ⟨e, he, hpe⟩ => by
    simp only [exclLoop] at hp hq
    cases hsp : exclStep p e0 with
    | error y => rw [hsp] at hp; cases hp
    | ok p1 =>
      cases hsq : exclStep q e0 with
      | error y => rw [hsq] at hq; cases hq
      | ok q1 =>
        rw [hsp] at hp; rw [hsq] at hq
        obtain ⟨hr1, heq⟩ := exclStep_sameButChild a b p q p1 q1 e0 hr hsp hsq
        rcases List.mem_cons.mp he with rfl | he'
        · have := heq hpe; subst this
          rw [hp] at hq; injection hq with hq; exact hq.symm
        · exact exclLoop_sameButChild a b es p1 q1 r r' hr1 hp hq ⟨e, he', hpe⟩

/-- the digit limit is far above every integer written out in an example (`intLimit` is never unfolded by a tactic) -/
theorem intLimit_gt : 1000 < intLimit := by
  unfold intLimit
  calc 1000 < 10 ^ 4 := by decide
    _ ≤ 10 ^ 4300 := Nat.pow_le_pow_right (by decide) (by decide)

end IV.Playbook
