import IV.Model.DrDecl
namespace IV.Dr

theorem allSome_map_some {α β : Type} (f : α → Option β) (g : α → β) (l : List α) (h : ∀ a ∈ l, f a = some (g a)) :
    allSome (l.map f) = some (l.map g) := by
  induction l with
  | nil => rfl
  | cons a as ih =>
    simp only [List.map_cons]
    rw [h a (by simp)]
    simp only [allSome]
    rw [ih (fun x hx => h x (by simp [hx]))]; rfl

theorem allSome_none {α : Type} (l : List (Option α)) (h : none ∈ l) : allSome l = none := by
  induction l with
  | nil => simp at h
  | cons a as ih =>
    cases a with
    | none => rfl
    | some x =>
      simp only [allSome]
      rw [ih (by simpa using h)]; rfl

theorem toItem_raw (it : Item) : it.raw.toItem = some it := by
  cases it with
  | one c => rfl
  | group cs =>
    simp only [Item.raw, RItem.toItem, List.map_map]
    rw [allSome_map_some (Member.key ∘ Member.comp) id cs (fun _ _ => rfl)]
    simp

end IV.Dr
