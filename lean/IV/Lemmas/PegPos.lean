import IV.Model.Peg
/-!
Helper lemmas for C19: `Context.line` / `Context.col` (bisect over the newline offsets) agree with the textbook
left-to-right numbering of lines and columns.
-/
namespace IV.Peg

theorem bisectLeft_newlineIdx_le (l : Str) : ∀ (j x : Nat), x ≤ j → bisectLeft (newlineIdx l j) x = 0 := by
  induction l with
  | nil => intro j x _; rfl
  | cons c cs ih =>
    intro j x h
    simp only [newlineIdx]
    split
    · simp only [bisectLeft]; rw [if_neg (by omega)]
    · exact ih (j + 1) x (by omega)

/-- reading `k` characters of `l` (whose first character has offset `i`) from line `ln0`, column `c0` -/
theorem lc_aux (l : Str) : ∀ (i k ln0 c0 : Nat), k ≤ l.length →
    (l.take k).foldl lcStep (ln0, c0) =
      (ln0 + bisectLeft (newlineIdx l i) (i + k),
       if bisectLeft (newlineIdx l i) (i + k) = 0 then c0 + k
       else i + k - (newlineIdx l i).getD (bisectLeft (newlineIdx l i) (i + k) - 1) 0 - 1) := by
  induction l with
  | nil =>
    intro i k ln0 c0 h
    have : k = 0 := by simpa using h
    subst this; simp [newlineIdx, bisectLeft]
  | cons c cs ih =>
    intro i k ln0 c0 h
    cases k with
    | zero =>
      have := bisectLeft_newlineIdx_le (c :: cs) i i (Nat.le_refl _)
      simp [this]
    | succ k =>
      have h' : k ≤ cs.length := by simpa using h
      have e : i + (k + 1) = i + 1 + k := by omega
      simp only [List.take_succ_cons, List.foldl_cons, newlineIdx, lcStep]
      by_cases hc : c = '\n'
      · simp only [hc, if_true]
        rw [ih (i + 1) k (ln0 + 1) 0 h', e]
        have hlt : i < i + 1 + k := by omega
        simp only [bisectLeft, hlt, if_true]
        by_cases hb : bisectLeft (newlineIdx cs (i + 1)) (i + 1 + k) = 0
        · simp [hb]; omega
        · have : 1 + bisectLeft (newlineIdx cs (i + 1)) (i + 1 + k) - 1
              = (bisectLeft (newlineIdx cs (i + 1)) (i + 1 + k) - 1) + 1 := by omega
          simp [hb, this]; omega
      · simp only [hc, if_false]
        rw [ih (i + 1) k ln0 (c0 + 1) h', e]
        by_cases hb : bisectLeft (newlineIdx cs (i + 1)) (i + 1 + k) = 0
        · simp [hb]; omega
        · simp [hb]

theorem lineCol_eq_spec (inp : Str) (pos : Nat) (h : pos ≤ inp.length) :
    (lineOf inp pos, colOf inp pos) = lineColSpec inp pos := by
  have := lc_aux inp 0 pos 0 0 h
  simp only [Nat.zero_add] at this
  simp only [lineColSpec, this, lineOf, colOf, colIn]

theorem lcStep_fst (l : Str) : ∀ lc : Nat × Nat,
    (l.foldl lcStep lc).1 = lc.1 + (l.filter (· = '\n')).length := by
  induction l with
  | nil => intro lc; simp
  | cons c cs ih =>
    intro lc
    simp only [List.foldl_cons, ih, lcStep, List.filter_cons]
    by_cases hc : c = '\n' <;> simp [hc] <;> omega

end IV.Peg
