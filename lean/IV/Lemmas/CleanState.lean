import IV.Model.CleanState
/-!
Helper lemmas for C09 / C10: association-list facts, the database invariant `Inv`, the extension order
`Ext`, and their preservation by every function of the model up to `runHistory`.
-/
namespace IV.CleanState

/-! ## association lists -/

theorem dictSet_fresh {α β : Type} [BEq α] [LawfulBEq α] (db : List (α × β)) (k : α) (v : β)
    (h : k ∉ db.map Prod.fst) : dictSet db k v = db ++ [(k, v)] := by
  induction db with
  | nil => rfl
  | cons p rest ih =>
    obtain ⟨k', v'⟩ := p
    simp only [List.map_cons, List.mem_cons, not_or] at h
    have hne : (k' == k) = false := by
      apply beq_false_of_ne; intro e; exact h.1 e.symm
    simp [dictSet, hne, ih h.2]

theorem dictGet_none {α β : Type} [BEq α] [LawfulBEq α] (db : List (α × β)) (k : α)
    (h : dictGet db k = none) : k ∉ db.map Prod.fst := by
  induction db with
  | nil => simp
  | cons p rest ih =>
    obtain ⟨k', v'⟩ := p
    simp only [dictGet] at h
    split at h
    · simp at h
    · rename_i hne
      simp only [List.map_cons, List.mem_cons, not_or]
      refine ⟨?_, ih h⟩
      intro e; subst e; simp at hne

theorem dictGet_some_mem {α β : Type} [BEq α] [LawfulBEq α] (db : List (α × β)) (k : α) (v : β)
    (h : dictGet db k = some v) : (k, v) ∈ db := by
  induction db with
  | nil => simp [dictGet] at h
  | cons p rest ih =>
    obtain ⟨k', v'⟩ := p
    simp only [dictGet] at h
    split at h
    · rename_i he
      have := eq_of_beq he
      simp at h; subst h; subst this; simp
    · exact List.mem_cons_of_mem _ (ih h)

/-- generalised accumulator form of `lastKeyOf` -/
theorem lastKeyOf_foldl {α β : Type} [BEq β] [LawfulBEq β] (db : List (α × β)) (x : β) (acc : Option α) :
    db.foldl (fun acc kv => if kv.2 == x then some kv.1 else acc) acc =
      match lastKeyOf db x with | some k => some k | none => acc := by
  induction db generalizing acc with
  | nil => simp [lastKeyOf]
  | cons p rest ih =>
    simp only [List.foldl_cons, lastKeyOf]
    rw [ih, ih (acc := if p.2 == x then some p.1 else none)]
    cases h : lastKeyOf rest x <;> simp [lastKeyOf] at * <;> split <;> simp_all

theorem lastKeyOf_cons {α β : Type} [BEq β] [LawfulBEq β] (p : α × β) (rest : List (α × β)) (x : β) :
    lastKeyOf (p :: rest) x =
      match lastKeyOf rest x with | some k => some k | none => if p.2 == x then some p.1 else none := by
  have := lastKeyOf_foldl rest x (if p.2 == x then some p.1 else none)
  simp only [lastKeyOf, List.foldl_cons] at *
  exact this

theorem lastKeyOf_none {α β : Type} [BEq β] [LawfulBEq β] (db : List (α × β)) (x : β) :
    lastKeyOf db x = none ↔ x ∉ db.map Prod.snd := by
  induction db with
  | nil => simp [lastKeyOf]
  | cons p rest ih =>
    rw [lastKeyOf_cons]
    cases h : lastKeyOf rest x with
    | some k =>
      have : ¬ (x ∉ rest.map Prod.snd) := fun hn => by rw [← ih] at hn; rw [hn] at h; cases h
      simp only [List.map_cons, List.mem_cons, not_or]
      constructor
      · intro e; cases e
      · intro e; exact absurd e.2 this
    | none =>
      have hr := ih.mp h
      simp only [List.map_cons, List.mem_cons, not_or]
      by_cases e : p.2 = x
      · simp [e]
      · have : (p.2 == x) = false := beq_false_of_ne e
        simp [this, hr]; exact fun e' => e e'.symm

theorem lastKeyOf_some_mem {α β : Type} [BEq β] [LawfulBEq β] (db : List (α × β)) (x : β) (k : α)
    (h : lastKeyOf db x = some k) : (k, x) ∈ db := by
  induction db with
  | nil => simp [lastKeyOf] at h
  | cons p rest ih =>
    rw [lastKeyOf_cons] at h
    cases hr : lastKeyOf rest x with
    | some k' =>
      rw [hr] at h; simp at h; subst h
      exact List.mem_cons_of_mem _ (ih hr)
    | none =>
      rw [hr] at h
      simp only at h
      split at h
      · rename_i he
        have := eq_of_beq he
        simp at h; subst h; subst this; simp
      · cases h

/-- with distinct values the lookup returns THE key of the entry -/
theorem lastKeyOf_of_mem {α β : Type} [BEq β] [LawfulBEq β] (db : List (α × β)) (k : α) (x : β)
    (hn : (db.map Prod.snd).Nodup) (h : (k, x) ∈ db) : lastKeyOf db x = some k := by
  induction db with
  | nil => cases h
  | cons p rest ih =>
    rw [lastKeyOf_cons]
    simp only [List.map_cons, List.nodup_cons] at hn
    rcases List.mem_cons.mp h with e | hm
    · subst e
      have : lastKeyOf rest x = none := (lastKeyOf_none rest x).mpr hn.1
      simp [this]
    · rw [ih hn.2 hm]

/-! ## IPv4 database -/

theorem maxKey_foldl (db : List (Nat × Nat)) (m : Nat) :
    db.foldl (fun m kv => max m kv.1) m = max m (maxKey db) := by
  induction db generalizing m with
  | nil => simp [maxKey]
  | cons p rest ih =>
    simp only [List.foldl_cons, maxKey]
    rw [ih, ih (m := max 0 p.1)]
    omega

theorem maxKey_range (db : List (Nat × Nat)) (s : Nat) (h : db.map Prod.fst = List.range' s db.length)
    (hne : db ≠ []) : maxKey db + 1 = s + db.length := by
  induction db generalizing s with
  | nil => exact absurd rfl hne
  | cons p rest ih =>
    simp only [List.map_cons, List.length_cons, List.range'_succ, List.cons.injEq] at h
    have hm : maxKey (p :: rest) = max p.1 (maxKey rest) := by
      have := maxKey_foldl rest (max 0 p.1)
      simp only [maxKey, List.foldl_cons] at *
      rw [this]; omega
    rw [hm]
    by_cases hr : rest = []
    · subst hr; simp [maxKey]; omega
    · have := ih (s + 1) h.2 hr
      simp only [List.length_cons]; omega

theorem mem_range'_1 {x s n : Nat} : x ∈ List.range' s n ↔ s ≤ x ∧ x < s + n := by
  simp [List.mem_range']
  constructor
  · rintro ⟨i, hi, rfl⟩; omega
  · intro h; exact ⟨x - s, by omega, by omega⟩

/-- the issued address when the original is new: always `start + number of entries` -/
theorem ip2db_new (db : List (Nat × Nat)) (n : Nat)
    (hk : db.map Prod.fst = List.range' startIp db.length) (hn : lastKeyOf db n = none) :
    ip2db db n = (db ++ [(startIp + db.length, n)], startIp + db.length) := by
  have hnew : (if db.isEmpty then startIp else maxKey db + 1) = startIp + db.length := by
    cases db with
    | nil => simp
    | cons p rest => simp only [List.isEmpty_cons]; exact maxKey_range _ _ hk (by simp)
  have hfresh : startIp + db.length ∉ db.map Prod.fst := by
    rw [hk, mem_range'_1]; omega
  simp only [ip2db, hn, hnew]
  rw [dictSet_fresh _ _ _ hfresh]

/-! ## host names -/

theorem natStr_inj {a b : Nat} (h : natStr a = natStr b) : a = b := by
  have ha := @Nat.ofDigitChars_ten_toDigits a
  have hb := @Nat.ofDigitChars_ten_toDigits b
  unfold natStr at h
  rw [h] at ha; omega

theorem counterName_inj {a b : Nat} {od : Str} (h : counterName a od = counterName b od) : a = b := by
  unfold counterName at h
  have h1 : natStr a ++ '.' :: od = natStr b ++ '.' :: od := by simpa using h
  have h2 := List.append_cancel_right h1
  exact natStr_inj h2

/-- SHA-1 hex digests consist of hexadecimal digits — the only fact about the hash that is used -/
def HexDigest (E : Env) : Prop := ∀ s, ∀ c ∈ E.sha1 s, c ∈ "0123456789abcdef".toList

theorem sysSub_ne_counter (E : Env) (cfg : Cfg) (hE : HexDigest E) (n : Nat) (od : Str) :
    sysSub E cfg ≠ counterName n od := by
  intro h
  unfold sysSub counterName at h
  cases hd : (E.sha1 cfg.fqdn).take 12 with
  | nil => rw [hd] at h; simp at h
  | cons c cs =>
    rw [hd] at h
    have hc : c ∈ E.sha1 cfg.fqdn := List.mem_of_mem_take (by rw [hd]; simp)
    have := hE _ _ hc
    simp at h
    rw [h.1] at this
    simp at this

theorem odomain_eq (cfg : Cfg) (hn : Str) :
    (dnDb cfg).foldl (fun acc kv => if contains kv.2 hn then kv.1 else acc) obfDomain = obfDomain := by
  unfold dnDb
  cases domainOf cfg <;> simp

/-! ## invariant and extension order -/

/-- keys of the host database: the system's entry (when the obfuscator exists) followed by counter names -/
def hostKeys (E : Env) (cfg : Cfg) (cnt : Nat) : List Str :=
  (initSt E cfg).hnDb.map Prod.fst ++
    (List.range' ((initSt E cfg).hnCount + 1) (cnt - (initSt E cfg).hnCount)).map (fun n => counterName n obfDomain)

structure Inv (E : Env) (cfg : Cfg) (st : St) : Prop where
  ipKeys : st.ipDb.map Prod.fst = List.range' startIp st.ipDb.length
  ipVals : (st.ipDb.map Prod.snd).Nodup
  ipFoundSub : ∀ v ∈ st.ipDb.map Prod.snd, v ∈ st.foundIp
  ipFoundSup : ∀ v ∈ st.foundIp, v ∈ st.ipDb.map Prod.snd
  hnKeys : st.hnDb.map Prod.fst = hostKeys E cfg st.hnCount
  hnCnt : (initSt E cfg).hnCount ≤ st.hnCount
  hnVals : (st.hnDb.map Prod.snd).Nodup
  hnFoundSub : ∀ v ∈ st.hnDb.map Prod.snd, v = cfg.fqdn ∨ v ∈ st.foundHost
  hnFoundSup : ∀ v ∈ st.foundHost, v ∈ st.hnDb.map Prod.snd
  macKeys : (st.macDb.map Prod.fst).Nodup
  macFoundSub : ∀ v ∈ st.macDb.map Prod.fst, v ∈ st.foundMac
  macFoundSup : ∀ v ∈ st.foundMac, v ∈ st.macDb.map Prod.fst
  ip6Keys : (st.ip6Db.map Prod.fst).Nodup

/-- every database of `b` extends the one of `a` at the end; nothing is changed or dropped -/
structure Ext (a b : St) : Prop where
  ip : a.ipDb <+: b.ipDb
  hn : a.hnDb <+: b.hnDb
  mac : a.macDb <+: b.macDb
  ip6 : a.ip6Db <+: b.ip6Db
  fip : a.foundIp <+: b.foundIp
  fhn : a.foundHost <+: b.foundHost
  fmac : a.foundMac <+: b.foundMac

theorem Ext.refl (a : St) : Ext a a :=
  ⟨List.prefix_refl _, List.prefix_refl _, List.prefix_refl _, List.prefix_refl _, List.prefix_refl _,
   List.prefix_refl _, List.prefix_refl _⟩

theorem Ext.trans {a b c : St} (h1 : Ext a b) (h2 : Ext b c) : Ext a c :=
  ⟨h1.ip.trans h2.ip, h1.hn.trans h2.hn, h1.mac.trans h2.mac, h1.ip6.trans h2.ip6, h1.fip.trans h2.fip,
   h1.fhn.trans h2.fhn, h1.fmac.trans h2.fmac⟩

/-- `b` is reached from `a` by steps that keep the invariant and only extend -/
def Pres (E : Env) (cfg : Cfg) (a b : St) : Prop := Inv E cfg a → Inv E cfg b ∧ Ext a b

theorem Pres.refl (E : Env) (cfg : Cfg) (a : St) : Pres E cfg a a := fun h => ⟨h, Ext.refl a⟩

theorem Pres.trans {E : Env} {cfg : Cfg} {a b c : St} (h1 : Pres E cfg a b) (h2 : Pres E cfg b c) :
    Pres E cfg a c := fun h =>
  have ⟨i1, e1⟩ := h1 h
  have ⟨i2, e2⟩ := h2 i1
  ⟨i2, e1.trans e2⟩

theorem initSt_inv (E : Env) (cfg : Cfg) : Inv E cfg (initSt E cfg) := by
  have hk : (initSt E cfg).hnDb.map Prod.fst = hostKeys E cfg (initSt E cfg).hnCount := by simp [hostKeys]
  refine ⟨?_, ?_, ?_, ?_, hk, Nat.le_refl _, ?_, ?_, ?_, ?_, ?_, ?_, ?_⟩ <;> (unfold initSt; split <;> simp)

/-! ### steps -/

theorem ipStep_pres (E : Env) (cfg : Cfg) (sl : St × Str) (ip : Str) : Pres E cfg sl.1 (ipStep sl ip).1 := by
  intro h
  unfold ipStep
  split
  · exact ⟨h, Ext.refl _⟩
  · cases hl : lastKeyOf sl.1.ipDb (ip2int ip) with
    | some k =>
      have hm := lastKeyOf_some_mem _ _ _ hl
      have hv : ip2int ip ∈ sl.1.ipDb.map Prod.snd := List.mem_map.mpr ⟨_, hm, rfl⟩
      simp only [ip2db, hl]
      refine ⟨⟨h.ipKeys, h.ipVals, ?_, ?_, h.hnKeys, h.hnCnt, h.hnVals, h.hnFoundSub, h.hnFoundSup, h.macKeys,
        h.macFoundSub, h.macFoundSup, h.ip6Keys⟩, ?_⟩
      · intro v hv'; simp; exact Or.inl (h.ipFoundSub v hv')
      · intro v hv'
        simp at hv'
        rcases hv' with h1 | h1
        · exact h.ipFoundSup v h1
        · rw [h1]; exact hv
      · exact ⟨List.prefix_refl _, List.prefix_refl _, List.prefix_refl _, List.prefix_refl _,
          List.prefix_append _ _, List.prefix_refl _, List.prefix_refl _⟩
    | none =>
      rw [ip2db_new _ _ h.ipKeys hl]
      have hnv := (lastKeyOf_none _ _).mp hl
      refine ⟨⟨?_, ?_, ?_, ?_, h.hnKeys, h.hnCnt, h.hnVals, h.hnFoundSub, h.hnFoundSup, h.macKeys,
        h.macFoundSub, h.macFoundSup, h.ip6Keys⟩, ?_⟩
      · simp only [List.map_append, List.map_cons, List.map_nil, List.length_append, List.length_cons,
          List.length_nil, h.ipKeys]
        rw [Nat.zero_add, List.range'_concat]; simp
      · simp only [List.map_append, List.map_cons, List.map_nil]
        rw [List.nodup_append]
        refine ⟨h.ipVals, by simp, ?_⟩
        intro a ha b hb
        simp at hb; subst hb
        intro e; subst e; exact hnv ha
      · intro v hv'
        simp at hv' ⊢
        rcases hv' with ⟨k, hk⟩ | h1
        · exact Or.inl (h.ipFoundSub v (List.mem_map.mpr ⟨(k, v), hk, rfl⟩))
        · exact Or.inr h1
      · intro v hv'
        simp at hv' ⊢
        rcases hv' with h1 | h1
        · have := h.ipFoundSup v h1
          simp at this
          exact Or.inl this
        · exact Or.inr h1
      · exact ⟨List.prefix_append _ _, List.prefix_refl _, List.prefix_refl _, List.prefix_refl _,
          List.prefix_append _ _, List.prefix_refl _, List.prefix_refl _⟩


theorem initKeys_cases (E : Env) (cfg : Cfg) :
    ((initSt E cfg).hnDb.map Prod.fst = [] ∧ (initSt E cfg).hnCount = 0) ∨
    ((initSt E cfg).hnDb.map Prod.fst = [sysSub E cfg] ∧ (initSt E cfg).hnCount = 1) := by
  unfold initSt; split <;> simp

theorem counter_fresh (E : Env) (cfg : Cfg) (hE : HexDigest E) (cnt : Nat) :
    counterName (cnt + 1) obfDomain ∉ hostKeys E cfg cnt := by
  unfold hostKeys
  intro hm
  rcases List.mem_append.mp hm with h1 | h1
  · rcases initKeys_cases E cfg with ⟨h, _⟩ | ⟨h, _⟩ <;> rw [h] at h1 <;> simp at h1
    exact sysSub_ne_counter E cfg hE _ _ h1.symm
  · obtain ⟨n, hn, e⟩ := List.mem_map.mp h1
    have := counterName_inj e
    rw [mem_range'_1] at hn
    omega

theorem hostKeys_succ (E : Env) (cfg : Cfg) (cnt : Nat) (h : (initSt E cfg).hnCount ≤ cnt) :
    hostKeys E cfg (cnt + 1) = hostKeys E cfg cnt ++ [counterName (cnt + 1) obfDomain] := by
  unfold hostKeys
  have e1 : cnt + 1 - (initSt E cfg).hnCount = (cnt - (initSt E cfg).hnCount) + 1 := by omega
  have e2 : (initSt E cfg).hnCount + 1 + 1 * (cnt - (initSt E cfg).hnCount) = cnt + 1 := by omega
  rw [e1, List.range'_concat, e2]
  simp

/-- what `_hn2db` does to the database: a hit changes nothing, a miss appends the next counter name -/
theorem hn2db_cases (E : Env) (cfg : Cfg) (hE : HexDigest E) (st : St) (hn : Str) (h : Inv E cfg st) :
    ((hn2db cfg st hn).1 = st ∧ ((hn2db cfg st hn).2, hn) ∈ st.hnDb) ∨
    ((hn2db cfg st hn).1 = { st with hnCount := st.hnCount + 1, hnDb := st.hnDb ++ [(counterName (st.hnCount + 1) obfDomain, hn)] } ∧
     (hn2db cfg st hn).2 = counterName (st.hnCount + 1) obfDomain ∧ hn ∉ st.hnDb.map Prod.snd) := by
  unfold hn2db
  cases hl : lastKeyOf st.hnDb hn with
  | some k => exact Or.inl ⟨rfl, lastKeyOf_some_mem _ _ _ hl⟩
  | none =>
    right
    simp only [odomain_eq]
    have hf : counterName (st.hnCount + 1) obfDomain ∉ st.hnDb.map Prod.fst := by
      rw [h.hnKeys]; exact counter_fresh E cfg hE _
    rw [dictSet_fresh _ _ _ hf]
    exact ⟨rfl, trivial, (lastKeyOf_none _ _).mp hl⟩

theorem hostStep_pres (E : Env) (cfg : Cfg) (hE : HexDigest E) (sl : St × Str) (hn : Str) :
    Pres E cfg sl.1 (hostStep cfg sl hn).1 := by
  intro h
  unfold hostStep
  rcases hn2db_cases E cfg hE sl.1 hn h with ⟨e, hm⟩ | ⟨e, _, hnv⟩
  · simp only [e]
    have hv : hn ∈ sl.1.hnDb.map Prod.snd := List.mem_map.mpr ⟨_, hm, rfl⟩
    refine ⟨⟨h.ipKeys, h.ipVals, h.ipFoundSub, h.ipFoundSup, h.hnKeys, h.hnCnt, h.hnVals, ?_, ?_, h.macKeys,
      h.macFoundSub, h.macFoundSup, h.ip6Keys⟩, ?_⟩
    · intro v hv'
      rcases h.hnFoundSub v hv' with h1 | h1
      · exact Or.inl h1
      · right; simp; exact Or.inl h1
    · intro v hv'
      simp at hv'
      rcases hv' with h1 | h1
      · exact h.hnFoundSup v h1
      · rw [h1]; exact hv
    · exact ⟨List.prefix_refl _, List.prefix_refl _, List.prefix_refl _, List.prefix_refl _,
        List.prefix_refl _, List.prefix_append _ _, List.prefix_refl _⟩
  · simp only [e]
    refine ⟨⟨h.ipKeys, h.ipVals, h.ipFoundSub, h.ipFoundSup, ?_, ?_, ?_, ?_, ?_, h.macKeys,
      h.macFoundSub, h.macFoundSup, h.ip6Keys⟩, ?_⟩
    · simp only [List.map_append, List.map_cons, List.map_nil, h.hnKeys]
      rw [hostKeys_succ _ _ _ h.hnCnt]
    · exact Nat.le_succ_of_le h.hnCnt
    · simp only [List.map_append, List.map_cons, List.map_nil]
      rw [List.nodup_append]
      refine ⟨h.hnVals, by simp, ?_⟩
      intro a ha b hb
      simp at hb; subst hb
      intro e'; subst e'; exact hnv ha
    · intro v hv'
      simp only [List.map_append, List.map_cons, List.map_nil, List.mem_append, List.mem_singleton] at hv' ⊢
      rcases hv' with h1 | h1
      · rcases h.hnFoundSub v h1 with h2 | h2
        · exact Or.inl h2
        · exact Or.inr (Or.inl h2)
      · exact Or.inr (Or.inr h1)
    · intro v hv'
      simp only [List.map_append, List.map_cons, List.map_nil, List.mem_append, List.mem_singleton] at hv' ⊢
      rcases hv' with h1 | h1
      · exact Or.inl (h.hnFoundSup v h1)
      · exact Or.inr h1
    · exact ⟨List.prefix_refl _, List.prefix_append _ _, List.prefix_refl _, List.prefix_refl _,
        List.prefix_refl _, List.prefix_append _ _, List.prefix_refl _⟩

/-- the closing `_hn2db(self._fqdn)` of `parse_line` -/
theorem hn2db_fqdn_pres (E : Env) (cfg : Cfg) (hE : HexDigest E) (st : St) :
    Pres E cfg st (hn2db cfg st cfg.fqdn).1 := by
  intro h
  rcases hn2db_cases E cfg hE st cfg.fqdn h with ⟨e, _⟩ | ⟨e, _, hnv⟩
  · rw [e]; exact ⟨h, Ext.refl _⟩
  · rw [e]
    refine ⟨⟨h.ipKeys, h.ipVals, h.ipFoundSub, h.ipFoundSup, ?_, ?_, ?_, ?_, ?_, h.macKeys,
      h.macFoundSub, h.macFoundSup, h.ip6Keys⟩, ?_⟩
    · simp only [List.map_append, List.map_cons, List.map_nil, h.hnKeys]
      rw [hostKeys_succ _ _ _ h.hnCnt]
    · exact Nat.le_succ_of_le h.hnCnt
    · simp only [List.map_append, List.map_cons, List.map_nil]
      rw [List.nodup_append]
      refine ⟨h.hnVals, by simp, ?_⟩
      intro a ha b hb
      simp at hb; subst hb
      intro e'; subst e'; exact hnv ha
    · intro v hv'
      simp only [List.map_append, List.map_cons, List.map_nil, List.mem_append, List.mem_singleton] at hv'
      rcases hv' with h1 | h1
      · exact h.hnFoundSub v h1
      · exact Or.inl h1
    · intro v hv'
      simp only [List.map_append, List.mem_append]
      exact Or.inl (h.hnFoundSup v hv')
    · exact ⟨List.prefix_refl _, List.prefix_append _ _, List.prefix_refl _, List.prefix_refl _,
        List.prefix_refl _, List.prefix_refl _, List.prefix_refl _⟩


theorem hashDb_cases (obf : Str → Str) (db : List (Str × Str)) (x : Str) :
    hashDb obf db x = (db, none) ∨ (∃ v, hashDb obf db x = (db, some v) ∧ (x, v) ∈ db) ∨
    (hashDb obf db x = (db ++ [(x, obf x)], some (obf x)) ∧ x ∉ db.map Prod.fst) := by
  unfold hashDb
  cases hg : dictGet db x with
  | some v => exact Or.inr (Or.inl ⟨v, rfl, dictGet_some_mem _ _ _ hg⟩)
  | none =>
    simp only
    split
    · exact Or.inl rfl
    · have hnk := dictGet_none _ _ hg
      rw [dictSet_fresh _ _ _ hnk]
      exact Or.inr (Or.inr ⟨rfl, hnk⟩)

theorem macStep_pres (E : Env) (cfg : Cfg) (sl : St × Str) (mac : Str) : Pres E cfg sl.1 (macStep E sl mac).1 := by
  intro h
  unfold macStep
  split
  · exact ⟨h, Ext.refl _⟩
  · rcases hashDb_cases (macObf E) sl.1.macDb mac with e | ⟨v, e, hm⟩ | ⟨e, hnk⟩ <;> simp only [e]
    · exact ⟨h, Ext.refl _⟩
    · have hk : mac ∈ sl.1.macDb.map Prod.fst := List.mem_map.mpr ⟨_, hm, rfl⟩
      have key : Inv E cfg { sl.1 with macDb := sl.1.macDb, foundMac := sl.1.foundMac ++ [mac] } ∧
          Ext sl.1 { sl.1 with macDb := sl.1.macDb, foundMac := sl.1.foundMac ++ [mac] } := by
        refine ⟨⟨h.ipKeys, h.ipVals, h.ipFoundSub, h.ipFoundSup, h.hnKeys, h.hnCnt, h.hnVals, h.hnFoundSub,
          h.hnFoundSup, h.macKeys, ?_, ?_, h.ip6Keys⟩, ?_⟩
        · intro v hv; simp; exact Or.inl (h.macFoundSub v hv)
        · intro v hv
          simp at hv
          rcases hv with h1 | h1
          · exact h.macFoundSup v h1
          · rw [h1]; exact hk
        · exact ⟨List.prefix_refl _, List.prefix_refl _, List.prefix_refl _, List.prefix_refl _,
            List.prefix_refl _, List.prefix_refl _, List.prefix_append _ _⟩
      split <;> exact key
    · have key : Inv E cfg { sl.1 with macDb := sl.1.macDb ++ [(mac, macObf E mac)], foundMac := sl.1.foundMac ++ [mac] } ∧
          Ext sl.1 { sl.1 with macDb := sl.1.macDb ++ [(mac, macObf E mac)], foundMac := sl.1.foundMac ++ [mac] } := by
        refine ⟨⟨h.ipKeys, h.ipVals, h.ipFoundSub, h.ipFoundSup, h.hnKeys, h.hnCnt, h.hnVals, h.hnFoundSub,
          h.hnFoundSup, ?_, ?_, ?_, h.ip6Keys⟩, ?_⟩
        · simp only [List.map_append, List.map_cons, List.map_nil]
          rw [List.nodup_append]
          refine ⟨h.macKeys, by simp, ?_⟩
          intro a ha b hb
          simp at hb; subst hb
          intro e; subst e; exact hnk ha
        · intro v hv
          simp only [List.map_append, List.map_cons, List.map_nil, List.mem_append, List.mem_singleton] at hv ⊢
          rcases hv with h1 | h1
          · exact Or.inl (h.macFoundSub v h1)
          · exact Or.inr h1
        · intro v hv
          simp only [List.map_append, List.map_cons, List.map_nil, List.mem_append, List.mem_singleton] at hv ⊢
          rcases hv with h1 | h1
          · exact Or.inl (h.macFoundSup v h1)
          · exact Or.inr h1
        · exact ⟨List.prefix_refl _, List.prefix_refl _, List.prefix_append _ _, List.prefix_refl _,
            List.prefix_refl _, List.prefix_refl _, List.prefix_append _ _⟩
      split <;> exact key

theorem ip6Step_pres (E : Env) (cfg : Cfg) (sl : St × Str) (ip : Str) : Pres E cfg sl.1 (ip6Step E sl ip).1 := by
  intro h
  unfold ip6Step
  split
  · exact ⟨h, Ext.refl _⟩
  · rcases hashDb_cases (ip6Obf E) sl.1.ip6Db ip with e | ⟨v, e, hm⟩ | ⟨e, hnk⟩ <;> simp only [e]
    · exact ⟨h, Ext.refl _⟩
    · have key : Inv E cfg { sl.1 with ip6Db := sl.1.ip6Db } ∧ Ext sl.1 { sl.1 with ip6Db := sl.1.ip6Db } :=
        ⟨h, Ext.refl _⟩
      split <;> exact key
    · have key : Inv E cfg { sl.1 with ip6Db := sl.1.ip6Db ++ [(ip, ip6Obf E ip)] } ∧
          Ext sl.1 { sl.1 with ip6Db := sl.1.ip6Db ++ [(ip, ip6Obf E ip)] } := by
        refine ⟨⟨h.ipKeys, h.ipVals, h.ipFoundSub, h.ipFoundSup, h.hnKeys, h.hnCnt, h.hnVals, h.hnFoundSub,
          h.hnFoundSup, h.macKeys, h.macFoundSub, h.macFoundSup, ?_⟩, ?_⟩
        · simp only [List.map_append, List.map_cons, List.map_nil]
          rw [List.nodup_append]
          refine ⟨h.ip6Keys, by simp, ?_⟩
          intro a ha b hb
          simp at hb; subst hb
          intro e; subst e; exact hnk ha
        · exact ⟨List.prefix_refl _, List.prefix_refl _, List.prefix_refl _, List.prefix_append _ _,
            List.prefix_refl _, List.prefix_refl _, List.prefix_refl _⟩
      split <;> exact key

theorem kwStep_pres (E : Env) (cfg : Cfg) (sl : St × Str) (kv : Str × Str) : Pres E cfg sl.1 (kwStep sl kv).1 := by
  intro h
  unfold kwStep
  split
  · exact ⟨⟨h.ipKeys, h.ipVals, h.ipFoundSub, h.ipFoundSup, h.hnKeys, h.hnCnt, h.hnVals, h.hnFoundSub,
      h.hnFoundSup, h.macKeys, h.macFoundSub, h.macFoundSup, h.ip6Keys⟩,
      ⟨List.prefix_refl _, List.prefix_refl _, List.prefix_refl _, List.prefix_refl _,
       List.prefix_refl _, List.prefix_refl _, List.prefix_refl _⟩⟩
  · exact ⟨h, Ext.refl _⟩

/-! ### lifting through the folds -/

theorem foldl_pres {σ α : Type} (E : Env) (cfg : Cfg) (proj : σ → St) (f : σ → α → σ)
    (hf : ∀ s x, Pres E cfg (proj s) (proj (f s x))) :
    ∀ (xs : List α) (s : σ), Pres E cfg (proj s) (proj (xs.foldl f s)) := by
  intro xs
  induction xs with
  | nil => intro s; exact Pres.refl _ _ _
  | cons x xs ih => intro s; exact (hf s x).trans (ih (f s x))

theorem ipStage_pres (E : Env) (cfg : Cfg) (st : St) (line : Str) : Pres E cfg st (ipStage E st line).1 :=
  foldl_pres E cfg (fun sl : St × Str => sl.1) ipStep (fun sl x => ipStep_pres E cfg sl x) _ (st, line)

theorem macStage_pres (E : Env) (cfg : Cfg) (st : St) (line : Str) : Pres E cfg st (macStage E st line).1 :=
  foldl_pres E cfg (fun sl : St × Str => sl.1) (macStep E) (fun sl x => macStep_pres E cfg sl x) _ (st, line)

theorem ip6Stage_pres (E : Env) (cfg : Cfg) (st : St) (line : Str) : Pres E cfg st (ip6Stage E st line).1 :=
  foldl_pres E cfg (fun sl : St × Str => sl.1) (ip6Step E) (fun sl x => ip6Step_pres E cfg sl x) _ (st, line)

theorem kwStage_pres (E : Env) (cfg : Cfg) (st : St) (line : Str) : Pres E cfg st (kwStage E cfg st line).1 :=
  foldl_pres E cfg (fun sl : St × Str => sl.1) kwStep (fun sl x => kwStep_pres E cfg sl x) _ (st, line)

theorem hostStage_pres (E : Env) (cfg : Cfg) (hE : HexDigest E) (st : St) (line : Str) :
    Pres E cfg st (hostStage E cfg st line).1 := by
  unfold hostStage
  refine Pres.trans ?_ (hn2db_fqdn_pres E cfg hE _)
  exact foldl_pres E cfg (fun sl : St × Str => sl.1) _
    (fun sl _ => foldl_pres E cfg (fun sl : St × Str => sl.1) (hostStep cfg)
      (fun sl x => hostStep_pres E cfg hE sl x) _ sl) _ (st, line)

theorem applyStage_pres (E : Env) (cfg : Cfg) (hE : HexDigest E) (s : LSt) (line : Str) (stg : Stage) :
    Pres E cfg s.1 (applyStage E cfg s line stg).1.1 := by
  cases stg <;> simp only [applyStage]
  · exact Pres.refl _ _ _
  · exact Pres.refl _ _ _
  · exact hostStage_pres E cfg hE _ _
  · exact ipStage_pres E cfg _ _
  · exact ip6Stage_pres E cfg _ _
  · exact kwStage_pres E cfg _ _
  · exact macStage_pres E cfg _ _
  · exact Pres.refl _ _ _

theorem stageStep_pres (E : Env) (cfg : Cfg) (hE : HexDigest E) (acc : LSt × Option Str) (stg : Stage) :
    Pres E cfg acc.1.1 (stageStep E cfg acc stg).1.1 := by
  unfold stageStep
  split
  · exact Pres.refl _ _ _
  · exact Pres.refl _ _ _
  · exact applyStage_pres E cfg hE _ _ _

theorem cleanLine_pres (E : Env) (cfg : Cfg) (hE : HexDigest E) (call : Call) (s : LSt) (line : Str) :
    Pres E cfg s.1 (cleanLine E cfg call s line).1.1 :=
  foldl_pres E cfg (fun a : LSt × Option Str => a.1.1) (stageStep E cfg)
    (fun a x => stageStep_pres E cfg hE a x) _ (s, some (line.take maxLineLength))

theorem lineLoop_pres (E : Env) (cfg : Cfg) (hE : HexDigest E) (call : Call) :
    ∀ (ls : List Str) (s : LSt) (acc : List Str), Pres E cfg s.1 (lineLoop E cfg call s acc ls).1.1 := by
  intro ls
  induction ls with
  | nil => intro s acc; exact Pres.refl _ _ _
  | cons l ls ih =>
    intro s acc
    simp only [lineLoop]
    exact (cleanLine_pres E cfg hE call s l).trans (ih _ _)

theorem cleanContent_fst (E : Env) (cfg : Cfg) (st : St) (call : Call) :
    (cleanContent E cfg st call).1 =
      (lineLoop E cfg call (st, call.allowlist.getD []) [] call.lines.reverse).1.1 := by
  simp only [cleanContent]
  split <;> rfl

theorem cleanContent_pres (E : Env) (cfg : Cfg) (hE : HexDigest E) (st : St) (call : Call) :
    Pres E cfg st (cleanContent E cfg st call).1 := by
  rw [cleanContent_fst]
  exact lineLoop_pres E cfg hE call call.lines.reverse (st, call.allowlist.getD []) []

theorem runHistory_pres (E : Env) (cfg : Cfg) (hE : HexDigest E) :
    ∀ (cs : List Call) (st : St), Pres E cfg st (runHistory E cfg st cs).1 := by
  intro cs
  induction cs with
  | nil => intro st; exact Pres.refl _ _ _
  | cons c cs ih =>
    intro st
    simp only [runHistory]
    exact (cleanContent_pres E cfg hE st c).trans (ih _)

theorem runHistory_append (E : Env) (cfg : Cfg) (h1 h2 : List Call) (st : St) :
    (runHistory E cfg st (h1 ++ h2)).1 = (runHistory E cfg (runHistory E cfg st h1).1 h2).1 := by
  induction h1 generalizing st with
  | nil => rfl
  | cons c cs ih => simp only [List.cons_append, runHistory]; exact ih _


/-! ## dotted-quad rendering is injective on 32-bit values -/

theorem splitOn_no_sep (sep : Char) (s : Str) (h : sep ∉ s) : splitOn sep s = [s] := by
  induction s with
  | nil => rfl
  | cons c cs ih =>
    simp only [List.mem_cons, not_or] at h
    have hne : ¬ c = sep := fun e => h.1 e.symm
    simp only [splitOn, if_neg hne, ih h.2]

theorem splitOn_append (sep : Char) (a rest : Str) (h : sep ∉ a) :
    splitOn sep (a ++ sep :: rest) = a :: splitOn sep rest := by
  induction a with
  | nil => simp [splitOn]
  | cons c cs ih =>
    simp only [List.mem_cons, not_or] at h
    have hne : ¬ c = sep := fun e => h.1 e.symm
    simp only [List.cons_append, splitOn, if_neg hne, ih h.2]

theorem dot_not_in_natStr (n : Nat) : '.' ∉ natStr n := by
  intro h
  have := Nat.isDigit_of_mem_toDigits (b := 10) (by decide) (by decide) h
  simp at this

theorem digitsVal_natStr (n : Nat) : digitsVal (natStr n) = n := by
  have := @Nat.ofDigitChars_ten_toDigits n
  simpa [digitsVal, natStr, Nat.ofDigitChars] using this

/-- `inet_aton ∘ inet_ntoa = id` on 32-bit values: the rendering of issued addresses loses nothing -/
theorem ip2int_int2ip (n : Nat) (h : n < 2 ^ 32) : ip2int (int2ip n) = n := by
  unfold ip2int int2ip
  simp only [join]
  rw [List.append_assoc, List.singleton_append, splitOn_append _ _ _ (dot_not_in_natStr _),
      List.append_assoc, List.singleton_append, splitOn_append _ _ _ (dot_not_in_natStr _),
      List.append_assoc, List.singleton_append, splitOn_append _ _ _ (dot_not_in_natStr _),
      splitOn_no_sep _ _ (dot_not_in_natStr _)]
  simp only [List.foldl_cons, List.foldl_nil, digitsVal_natStr]
  simp only [Nat.reducePow] at h ⊢
  omega

theorem int2ip_inj (a b : Nat) (ha : a < 2 ^ 32) (hb : b < 2 ^ 32) (h : int2ip a = int2ip b) : a = b := by
  rw [← ip2int_int2ip a ha, ← ip2int_int2ip b hb, h]


/-! ## helpers for the C09 statements: pairs in duplicate-free lists, provenance segments -/

theorem dictGet_of_mem {α β : Type} [BEq α] [LawfulBEq α] (db : List (α × β)) (k : α) (v : β)
    (hn : (db.map Prod.fst).Nodup) (h : (k, v) ∈ db) : dictGet db k = some v := by
  induction db with
  | nil => cases h
  | cons p rest ih =>
    obtain ⟨k', v'⟩ := p
    simp only [List.map_cons, List.nodup_cons] at hn
    rcases List.mem_cons.mp h with e | hm
    · cases e; simp [dictGet]
    · have hne : (k' == k) = false := by
        apply beq_false_of_ne; intro e; subst e
        exact hn.1 (List.mem_map.mpr ⟨_, hm, rfl⟩)
      simp [dictGet, hne, ih hn.2 hm]


theorem nodup_pair {α β : Type} (db : List (α × β)) (hk : (db.map Prod.fst).Nodup) (p q : α × β)
    (hp : p ∈ db) (hq : q ∈ db) (h : p.1 = q.1) : p = q := by
  induction db with
  | nil => cases hp
  | cons x rest ih =>
    simp only [List.map_cons, List.nodup_cons] at hk
    rcases List.mem_cons.mp hp with e1 | m1 <;> rcases List.mem_cons.mp hq with e2 | m2
    · rw [e1, e2]
    · exfalso; apply hk.1; rw [← e1, h]; exact List.mem_map.mpr ⟨_, m2, rfl⟩
    · exfalso; apply hk.1; rw [← e2, ← h]; exact List.mem_map.mpr ⟨_, m1, rfl⟩
    · exact ih hk.2 m1 m2

theorem nodup_pair_snd {α β : Type} (db : List (α × β)) (hk : (db.map Prod.snd).Nodup) (p q : α × β)
    (hp : p ∈ db) (hq : q ∈ db) (h : p.2 = q.2) : p = q := by
  induction db with
  | nil => cases hp
  | cons x rest ih =>
    simp only [List.map_cons, List.nodup_cons] at hk
    rcases List.mem_cons.mp hp with e1 | m1 <;> rcases List.mem_cons.mp hq with e2 | m2
    · rw [e1, e2]
    · exfalso; apply hk.1; rw [← e1, h]; exact List.mem_map.mpr ⟨_, m2, rfl⟩
    · exfalso; apply hk.1; rw [← e2, ← h]; exact List.mem_map.mpr ⟨_, m1, rfl⟩
    · exact ih hk.2 m1 m2


theorem hostKeys_nodup (E : Env) (cfg : Cfg) (hE : HexDigest E) (cnt : Nat) : (hostKeys E cfg cnt).Nodup := by
  unfold hostKeys
  rw [List.nodup_append]
  refine ⟨?_, ?_, ?_⟩
  · rcases initKeys_cases E cfg with ⟨h, _⟩ | ⟨h, _⟩ <;> rw [h] <;> simp
  · exact List.Pairwise.map _ (fun a b hab e => hab (counterName_inj e)) List.nodup_range'
  · intro a ha b hb e
    subst e
    obtain ⟨n, _, e⟩ := List.mem_map.mp hb
    rcases initKeys_cases E cfg with ⟨h, _⟩ | ⟨h, _⟩ <;> rw [h] at ha <;> simp at ha
    rw [ha] at e
    exact sysSub_ne_counter E cfg hE _ _ e.symm


theorem ipStep_ignored (sl : St × Str) (ip : Str) (h : ipIgnore.contains ip = true) : ipStep sl ip = sl := by
  unfold ipStep; rw [if_pos h]

theorem ipStep_eq (sl : St × Str) (ip : Str) (h : ¬ ipIgnore.contains ip = true) :
    ipStep sl ip = ({ sl.1 with ipDb := (ip2db sl.1.ipDb (ip2int ip)).1, foundIp := sl.1.foundIp ++ [ip2int ip] },
      replace ip (int2ip (ip2db sl.1.ipDb (ip2int ip)).2) sl.2) := by
  unfold ipStep; rw [if_neg h]


/-- a line with provenance: an original character, or an original that was replaced by a substitute -/
inductive Seg
  | ch (c : Char)
  | sub (orig shown : Str)
deriving DecidableEq, Repr

def render : List Seg → Str
  | [] => []
  | .ch c :: r => c :: render r
  | .sub _ s :: r => s ++ render r

def source : List Seg → Str
  | [] => []
  | .ch c :: r => c :: source r
  | .sub o _ :: r => o ++ source r

/-- the original characters at the head of a segment list, up to the first substituted segment -/
def origRun : List Seg → Str
  | .ch c :: r => c :: origRun r
  | _ => []

/-- `replace k v` that only ever matches ORIGINAL text (never inside or across a substitute) -/
def replT (k v : Str) : Nat → List Seg → List Seg
  | _, [] => []
  | skip + 1, _ :: r => replT k v skip r
  | 0, .sub o s :: r => .sub o s :: replT k v 0 r
  | 0, .ch c :: r =>
    if !k.isEmpty && k.isPrefixOf (origRun (.ch c :: r)) then .sub k v :: replT k v (k.length - 1) r
    else .ch c :: replT k v 0 r

def ipStepT (sl : St × List Seg) (ip : Str) : St × List Seg :=
  if ipIgnore.contains ip then sl
  else
    let r := ip2db sl.1.ipDb (ip2int ip)
    ({ sl.1 with ipDb := r.1, foundIp := sl.1.foundIp ++ [ip2int ip] }, replT ip (int2ip r.2) 0 sl.2)

/-- no replacement of this line touches text inserted by an earlier replacement of the line: at every
step the real `str.replace` and the provenance-respecting one produce the same text -/
def noCollision : St × List Seg → List Str → Bool
  | _, [] => true
  | sl, ip :: rest =>
    ((ipStep (sl.1, render sl.2) ip).2 == render (ipStepT sl ip).2) && noCollision (ipStepT sl ip) rest

theorem ipStepT_ignored (sl : St × List Seg) (ip : Str) (h : ipIgnore.contains ip = true) : ipStepT sl ip = sl := by
  unfold ipStepT; rw [if_pos h]

theorem ipStepT_eq (sl : St × List Seg) (ip : Str) (h : ¬ ipIgnore.contains ip = true) :
    ipStepT sl ip = ({ sl.1 with ipDb := (ip2db sl.1.ipDb (ip2int ip)).1, foundIp := sl.1.foundIp ++ [ip2int ip] },
      replT ip (int2ip (ip2db sl.1.ipDb (ip2int ip)).2) 0 sl.2) := by
  unfold ipStepT; rw [if_neg h]

theorem ipStepT_fst (sl : St × List Seg) (ip : Str) : (ipStepT sl ip).1 = (ipStep (sl.1, render sl.2) ip).1 := by
  by_cases h : ipIgnore.contains ip = true
  · rw [ipStepT_ignored _ _ h, ipStep_ignored _ _ h]
  · rw [ipStepT_eq _ _ h, ipStep_eq _ _ h]

theorem source_replT (k v : Str) : ∀ (segs : List Seg) (skip : Nat),
    (skip = 0 → source (replT k v skip segs) = source segs) ∧
    (∀ pre, skip > 0 → pre.length = skip → pre <+: origRun segs →
      source (replT k v skip segs) = source (segs.drop skip)) := by
  intro segs
  induction segs with
  | nil =>
    intro skip
    refine ⟨fun _ => by cases skip <;> simp [replT], ?_⟩
    intro pre hs hl hp
    simp [origRun] at hp; subst hp; simp at hl; omega
  | cons x r ih =>
    intro skip
    constructor
    · intro h0; subst h0
      cases x with
      | sub o s => simp [replT, source, (ih 0).1 rfl]
      | ch c =>
        simp only [replT]
        split
        · rename_i hm
          simp only [Bool.and_eq_true, Bool.not_eq_true', List.isEmpty_eq_false_iff] at hm
          obtain ⟨hne, hpre⟩ := hm
          have hpre' : k <+: origRun (.ch c :: r) := List.isPrefixOf_iff_prefix.mp hpre
          cases k with
          | nil => exact absurd rfl hne
          | cons k0 ks =>
            simp only [origRun] at hpre'
            have hh := List.cons_prefix_cons.mp hpre'
            simp only [source, List.length_cons, Nat.add_sub_cancel]
            cases hks : ks with
            | nil =>
              have := (ih 0).1 rfl
              rw [hks] at this
              simp only [List.length_nil]
              rw [this, hh.1]; rfl
            | cons k1 kt =>
              rw [← hks]
              have hpos : ks.length > 0 := by rw [hks]; simp
              have := (ih ks.length).2 ks hpos rfl hh.2
              rw [this, hh.1]
              -- source of the dropped original run is `ks`
              have key : ∀ (ks : Str) (r : List Seg), ks <+: origRun r → source r = ks ++ source (r.drop ks.length) := by
                intro ks
                induction ks with
                | nil => intro r _; simp
                | cons a as iha =>
                  intro r hp
                  cases r with
                  | nil => simp [origRun] at hp
                  | cons y ys =>
                    cases y with
                    | sub o s => simp [origRun] at hp
                    | ch d =>
                      simp only [origRun] at hp
                      have h2 := List.cons_prefix_cons.mp hp
                      simp [source, h2.1, iha ys h2.2]
              rw [key ks r hh.2]; simp
        · simp [source, (ih 0).1 rfl]
    · intro pre hs hl hp
      cases skip with
      | zero => omega
      | succ n =>
        simp only [replT, List.drop_succ_cons]
        cases x with
        | sub o s => simp [origRun] at hp; subst hp; simp at hl
        | ch c =>
          cases pre with
          | nil => simp at hl
          | cons p ps =>
            simp only [origRun] at hp
            have h2 := List.cons_prefix_cons.mp hp
            by_cases hn : n = 0
            · subst hn; simp [(ih 0).1 rfl]
            · exact (ih n).2 ps (by omega) (by simpa using hl) h2.2


/-- every substituted segment carries an original that was handed to the database and the substitute the
database holds for it -/
def SubsOk (db : List (Nat × Nat)) (segs : List Seg) : Prop :=
  ∀ o s, Seg.sub o s ∈ segs → ∃ k, (k, ip2int o) ∈ db ∧ s = int2ip k

theorem mem_replT (k v : Str) (x : Seg) : ∀ (segs : List Seg) (skip : Nat),
    x ∈ replT k v skip segs → x ∈ segs ∨ x = .sub k v := by
  intro segs
  induction segs with
  | nil => intro skip h; cases skip <;> simp [replT] at h
  | cons y r ih =>
    intro skip h
    cases skip with
    | succ n =>
      simp only [replT] at h
      rcases ih n h with h1 | h1
      · exact Or.inl (List.mem_cons_of_mem _ h1)
      · exact Or.inr h1
    | zero =>
      cases y with
      | sub o s =>
        simp only [replT, List.mem_cons] at h
        rcases h with h1 | h1
        · exact Or.inl (by rw [h1]; simp)
        · rcases ih 0 h1 with h2 | h2
          · exact Or.inl (List.mem_cons_of_mem _ h2)
          · exact Or.inr h2
      | ch c =>
        simp only [replT] at h
        split at h
        · simp only [List.mem_cons] at h
          rcases h with h1 | h1
          · exact Or.inr h1
          · rcases ih _ h1 with h2 | h2
            · exact Or.inl (List.mem_cons_of_mem _ h2)
            · exact Or.inr h2
        · simp only [List.mem_cons] at h
          rcases h with h1 | h1
          · exact Or.inl (by rw [h1]; simp)
          · rcases ih 0 h1 with h2 | h2
            · exact Or.inl (List.mem_cons_of_mem _ h2)
            · exact Or.inr h2

theorem ipStepT_subsOk (E : Env) (cfg : Cfg) (sl : St × List Seg) (ip : Str) (hi : Inv E cfg sl.1)
    (hs : SubsOk sl.1.ipDb sl.2) : SubsOk (ipStepT sl ip).1.ipDb (ipStepT sl ip).2 := by
  by_cases hc : ipIgnore.contains ip = true
  · rw [ipStepT_ignored _ _ hc]; exact hs
  · have ext := (ipStep_pres E cfg (sl.1, render sl.2) ip hi).2
    rw [ipStep_eq _ _ hc] at ext
    rw [ipStepT_eq _ _ hc]
    intro o s hm
    rcases mem_replT _ _ _ _ _ hm with h1 | h1
    · obtain ⟨k, hk, e⟩ := hs o s h1
      exact ⟨k, ext.ip.subset hk, e⟩
    · cases h1
      refine ⟨(ip2db sl.1.ipDb (ip2int ip)).2, ?_, rfl⟩
      show ((ip2db sl.1.ipDb (ip2int ip)).2, ip2int ip) ∈ (ip2db sl.1.ipDb (ip2int ip)).1
      cases hl : lastKeyOf sl.1.ipDb (ip2int ip) with
      | some k => simp only [ip2db, hl]; exact lastKeyOf_some_mem _ _ _ hl
      | none => rw [ip2db_new _ _ hi.ipKeys hl]; simp



/-! ## helpers for the C10 statements: the bottom-up loop with explicit state threading -/

/-- results aligned with the input lines, state threading explicit: line `i` is cleaned in the state left
behind by the lines BELOW it (`i+1 …`), exactly as the bottom-up loop does -/
def runUp (E : Env) (cfg : Cfg) (call : Call) : LSt → List Str → LSt × List (Option Str)
  | s, [] => (s, [])
  | s, l :: ls =>
    let r := runUp E cfg call s ls
    let x := cleanLine E cfg call r.1 l
    (x.1, x.2 :: r.2)

theorem lineLoop_append (E : Env) (cfg : Cfg) (call : Call) (a b : List Str) (s : LSt) (acc : List Str) :
    lineLoop E cfg call s acc (a ++ b) =
      lineLoop E cfg call (lineLoop E cfg call s acc a).1 (lineLoop E cfg call s acc a).2 b := by
  induction a generalizing s acc with
  | nil => rfl
  | cons x xs ih => simp only [List.cons_append, lineLoop]; exact ih _ _

theorem lineLoop_reverse (E : Env) (cfg : Cfg) (call : Call) (ls : List Str) (s : LSt) :
    lineLoop E cfg call s [] ls.reverse =
      ((runUp E cfg call s ls).1, ((runUp E cfg call s ls).2.filterMap id).reverse) := by
  induction ls with
  | nil => rfl
  | cons l ls ih =>
    rw [List.reverse_cons, lineLoop_append, ih]
    simp only [lineLoop, runUp]
    cases (cleanLine E cfg call (runUp E cfg call s ls).1 l).2 with
    | none => simp
    | some x => simp


theorem runUp_get (E : Env) (cfg : Cfg) (call : Call) (s : LSt) (ls : List Str) (i : Nat) :
    (runUp E cfg call s ls).2[i]? =
      (ls[i]?).map (fun l => (cleanLine E cfg call (runUp E cfg call s (ls.drop (i + 1))).1 l).2) := by
  induction ls generalizing i with
  | nil => simp [runUp]
  | cons l ls ih =>
    cases i with
    | zero => simp [runUp]
    | succ n => simp only [runUp, List.getElem?_cons_succ, List.drop_succ_cons]; exact ih n

theorem filterMap_indices {α : Type} (rs : List (Option α)) :
    ∃ idx : List Nat, idx.Pairwise (· < ·) ∧ (∀ i ∈ idx, i < rs.length) ∧
      idx.map (fun i => (rs[i]?).bind id) = (rs.filterMap id).map some := by
  induction rs with
  | nil => exact ⟨[], List.Pairwise.nil, by simp, by simp⟩
  | cons r rs ih =>
    obtain ⟨idx, hp, hb, hm⟩ := ih
    have hp' : (idx.map (· + 1)).Pairwise (· < ·) := List.Pairwise.map _ (fun a b h => by omega) hp
    have hm' : (idx.map (· + 1)).map (fun i => ((r :: rs)[i]?).bind id) = (rs.filterMap id).map some := by
      rw [List.map_map, ← hm]; apply List.map_congr_left; intro a _; simp
    have hb' : ∀ i ∈ idx.map (· + 1), i < (r :: rs).length := by
      intro i hi
      obtain ⟨a, ha, rfl⟩ := List.mem_map.mp hi
      have := hb a ha; simp; omega
    cases r with
    | none => exact ⟨idx.map (· + 1), hp', hb', by simpa using hm'⟩
    | some x =>
      refine ⟨0 :: idx.map (· + 1), ?_, ?_, ?_⟩
      · rw [List.pairwise_cons]
        refine ⟨?_, hp'⟩
        intro a ha
        obtain ⟨b, _, rfl⟩ := List.mem_map.mp ha
        omega
      · intro i hi
        rcases List.mem_cons.mp hi with rfl | h
        · simp
        · exact hb' i h
      · simp only [List.map_cons]
        rw [hm']; simp


/-! ## numbering follows the order of a LIST of found items (first occurrence decides) -/

/-- append the items that are not yet present, in LIST order: the first occurrence decides the position -/
def addNew {α : Type} [DecidableEq α] (vals xs : List α) : List α :=
  xs.foldl (fun acc x => if x ∈ acc then acc else acc ++ [x]) vals

theorem ipStep_vals (E : Env) (cfg : Cfg) (sl : St × Str) (ip : Str) (h : Inv E cfg sl.1)
    (hi : ¬ ipIgnore.contains ip = true) :
    (ipStep sl ip).1.ipDb.map Prod.snd =
      if ip2int ip ∈ sl.1.ipDb.map Prod.snd then sl.1.ipDb.map Prod.snd
      else sl.1.ipDb.map Prod.snd ++ [ip2int ip] := by
  rw [ipStep_eq _ _ hi]
  cases hl : lastKeyOf sl.1.ipDb (ip2int ip) with
  | some k =>
    have hm := lastKeyOf_some_mem _ _ _ hl
    have hv : ip2int ip ∈ sl.1.ipDb.map Prod.snd := List.mem_map.mpr ⟨_, hm, rfl⟩
    simp only [ip2db, hl, if_pos hv]
  | none =>
    have hnv := (lastKeyOf_none _ _).mp hl
    rw [ip2db_new _ _ h.ipKeys hl, if_neg hnv]
    simp

theorem ipFold_vals (E : Env) (cfg : Cfg) : ∀ (ips : List Str) (sl : St × Str), Inv E cfg sl.1 →
    (ips.foldl ipStep sl).1.ipDb.map Prod.snd =
      addNew (sl.1.ipDb.map Prod.snd) ((ips.filter (fun ip => !ipIgnore.contains ip)).map ip2int) := by
  intro ips
  induction ips with
  | nil => intro sl _; rfl
  | cons ip rest ih =>
    intro sl h
    simp only [List.foldl_cons]
    rw [ih _ (ipStep_pres E cfg sl ip h).1]
    by_cases hi : ipIgnore.contains ip = true
    · have hf : (ip :: rest).filter (fun ip => !ipIgnore.contains ip) = rest.filter (fun ip => !ipIgnore.contains ip) := by
        rw [List.filter_cons, if_neg (by rw [hi]; simp)]
      rw [ipStep_ignored _ _ hi, hf]
    · have hf : (ip :: rest).filter (fun ip => !ipIgnore.contains ip) = ip :: rest.filter (fun ip => !ipIgnore.contains ip) := by
        rw [List.filter_cons, if_pos (by simpa using hi)]
      rw [hf, ipStep_vals E cfg sl ip h hi]
      simp only [List.map_cons, addNew, List.foldl_cons]

theorem hostStep_vals (E : Env) (cfg : Cfg) (hE : HexDigest E) (st : St) (hn : Str) (h : Inv E cfg st) :
    (hn2db cfg st hn).1.hnDb.map Prod.snd =
      if hn ∈ st.hnDb.map Prod.snd then st.hnDb.map Prod.snd else st.hnDb.map Prod.snd ++ [hn] := by
  rcases hn2db_cases E cfg hE st hn h with ⟨e, hm⟩ | ⟨e, _, hnv⟩
  · have hv : hn ∈ st.hnDb.map Prod.snd := List.mem_map.mpr ⟨_, hm, rfl⟩
    rw [e, if_pos hv]
  · rw [e, if_neg hnv]; simp

theorem hostFold_vals (E : Env) (cfg : Cfg) (hE : HexDigest E) : ∀ (hs : List Str) (sl : St × Str), Inv E cfg sl.1 →
    (hs.foldl (hostStep cfg) sl).1.hnDb.map Prod.snd = addNew (sl.1.hnDb.map Prod.snd) hs := by
  intro hs
  induction hs with
  | nil => intro sl _; rfl
  | cons x xs ih =>
    intro sl h
    simp only [List.foldl_cons]
    rw [ih _ (hostStep_pres E cfg hE sl x h).1]
    have : (hostStep cfg sl x).1.hnDb = (hn2db cfg sl.1 x).1.hnDb := rfl
    rw [this, hostStep_vals E cfg hE sl.1 x h]
    simp only [addNew, List.foldl_cons]
    congr


/-! ## width-preserving mode keeps the invariant, raised calls included -/

theorem ipStepW_pres (E : Env) (cfg : Cfg) (sl : St × Option Str) (ip : Str) : Pres E cfg sl.1 (ipStepW sl ip).1 := by
  unfold ipStepW
  cases h2 : sl.2 with
  | none => exact Pres.refl _ _ _
  | some line =>
    simp only
    by_cases hi : ipIgnore.contains ip = true
    · rw [if_pos hi]; exact Pres.refl _ _ _
    · rw [if_neg hi]
      have := ipStep_pres E cfg (sl.1, line) ip
      rw [ipStep_eq _ _ hi] at this
      exact this

theorem ipStageW_pres (E : Env) (cfg : Cfg) (st : St) (line : Str) : Pres E cfg st (ipStageW E st line).1 :=
  foldl_pres E cfg (fun sl : St × Option Str => sl.1) ipStepW (fun sl x => ipStepW_pres E cfg sl x) _ (st, some line)

theorem applyStageW_pres (E : Env) (cfg : Cfg) (hE : HexDigest E) (s : LSt) (line : Str) (stg : Stage) :
    Pres E cfg s.1 (applyStageW E cfg s line stg).1.1 := by
  cases stg <;> simp only [applyStageW]
  case ip => exact ipStageW_pres E cfg _ _
  all_goals exact applyStage_pres E cfg hE _ _ _

theorem stageStepW_pres (E : Env) (cfg : Cfg) (hE : HexDigest E) (acc : LSt × Option (Option Str)) (stg : Stage) :
    Pres E cfg acc.1.1 (stageStepW E cfg acc stg).1.1 := by
  unfold stageStepW
  split
  · exact Pres.refl _ _ _
  · exact Pres.refl _ _ _
  · exact Pres.refl _ _ _
  · exact applyStageW_pres E cfg hE _ _ _

theorem cleanLineW_pres (E : Env) (cfg : Cfg) (hE : HexDigest E) (call : Call) (s : LSt) (line : Str) :
    Pres E cfg s.1 (cleanLineW E cfg call s line).1.1 :=
  foldl_pres E cfg (fun a : LSt × Option (Option Str) => a.1.1) (stageStepW E cfg)
    (fun a x => stageStepW_pres E cfg hE a x) _ (s, some (some (line.take maxLineLength)))

theorem lineLoopW_pres (E : Env) (cfg : Cfg) (hE : HexDigest E) (call : Call) :
    ∀ (ls : List Str) (s : LSt) (acc : List Str), Pres E cfg s.1 (lineLoopW E cfg call s acc ls).1.1 := by
  intro ls
  induction ls with
  | nil => intro s acc; exact Pres.refl _ _ _
  | cons l ls ih =>
    intro s acc
    simp only [lineLoopW]
    have h1 := cleanLineW_pres E cfg hE call s l
    split
    · exact h1
    · exact h1.trans (ih _ _)
    · exact h1.trans (ih _ _)

theorem cleanContentW_pres (E : Env) (cfg : Cfg) (hE : HexDigest E) (st : St) (call : Call) :
    Pres E cfg st (cleanContentW E cfg st call).1 := by
  have h := lineLoopW_pres E cfg hE call call.lines.reverse (st, call.allowlist.getD []) []
  simp only [cleanContentW]
  split
  · exact h
  · split <;> exact h

theorem runHistoryW_pres (E : Env) (cfg : Cfg) (hE : HexDigest E) :
    ∀ (cs : List (Call × Bool)) (st : St), Pres E cfg st (runHistoryW E cfg st cs).1 := by
  intro cs
  induction cs with
  | nil => intro st; exact Pres.refl _ _ _
  | cons c cs ih =>
    intro st
    obtain ⟨c, w⟩ := c
    simp only [runHistoryW]
    cases w with
    | true => exact (cleanContentW_pres E cfg hE st c).trans (ih _)
    | false => exact (cleanContent_pres E cfg hE st c).trans (ih _)


end IV.CleanState
