import IV.Model.DrWalk
import IV.Lemmas.Toposort
/-! Lemmas about `walk_dependencies` / `get_dependency_graph` (IV.Model.DrWalk). -/
namespace IV.Dr

theorem reach_trans {reg : Reg} {a b c : Comp} (h1 : Reach reg a b) (h2 : Reach reg b c) : Reach reg a c := by
  induction h1 with
  | refl _ => exact h2
  | head hd _ ih => exact Reach.head hd (ih h2)

theorem reach_step {reg : Reg} {a b c : Comp} (h1 : Reach reg a b) (h2 : c ∈ reg b) : Reach reg a c :=
  reach_trans h1 (Reach.head h2 (Reach.refl c))

/-- a reachable component other than the root is a declared dependency of a reachable component -/
theorem reach_parent {reg : Reg} {r c : Comp} (h : Reach reg r c) : c = r ∨ ∃ p, Reach reg r p ∧ c ∈ reg p := by
  induction h with
  | refl _ => exact Or.inl rfl
  | @head r d c hd _ ih =>
    rcases ih with rfl | ⟨p, hp, hc⟩
    · exact Or.inr ⟨r, Reach.refl r, hd⟩
    · exact Or.inr ⟨p, Reach.head hd hp, hc⟩

/-- every pair the visitor is called with is a declared edge of a reachable component -/
theorem visit_sound (reg : Reg) : ∀ (f : Nat) (root p d : Comp), (p, d) ∈ visit reg f root → Reach reg root p ∧ d ∈ reg p := by
  intro f
  induction f with
  | zero => intro root p d h; simp [visit] at h
  | succ f ih =>
    intro root p d h
    simp only [visit, List.mem_flatMap, List.mem_cons] at h
    obtain ⟨x, hx, h⟩ := h
    rcases h with h | h
    · obtain ⟨rfl, rfl⟩ := Prod.mk.inj h
      exact ⟨Reach.refl _, hx⟩
    · obtain ⟨h1, h2⟩ := ih x p d h
      exact ⟨Reach.head hx h1, h2⟩

/-- the visitor is called with EVERY declared edge of EVERY reachable component (fuel above the rank of the root) -/
theorem visit_complete (reg : Reg) (rank : Comp → Nat) (hr : ∀ p d, d ∈ reg p → rank d < rank p)
    (root c : Comp) (h : Reach reg root c) :
    ∀ (f : Nat) (d : Comp), rank root < f → d ∈ reg c → (c, d) ∈ visit reg f root := by
  induction h with
  | refl c =>
    intro f d hf hd
    cases f with
    | zero => omega
    | succ f =>
      simp only [visit, List.mem_flatMap, List.mem_cons]
      exact ⟨d, hd, Or.inl rfl⟩
  | @head r d0 c hd0 _ ih =>
    intro f d hf hd
    cases f with
    | zero => omega
    | succ f =>
      have := hr r d0 hd0
      simp only [visit, List.mem_flatMap, List.mem_cons]
      exact ⟨d0, hd0, Or.inr (ih f d (by omega) hd)⟩

theorem graphOfEdges_keys (es : List (Comp × Comp)) : (graphOfEdges es).keys = dedup (es.map (·.1)) := by
  unfold graphOfEdges Graph.keys
  rw [List.map_map]
  have : ∀ l : List Comp, l.map ((fun x : Comp × List Comp => x.1) ∘ fun p => (p, dedup ((es.filter (fun e => e.1 == p)).map (·.2)))) = l := by
    intro l; induction l with
    | nil => rfl
    | cons a as ih => simp only [List.map_cons, Function.comp, ih]
  exact this _

theorem graphOfEdges_mem (es : List (Comp × Comp)) (c : Comp) (ds : List Comp) (h : (c, ds) ∈ graphOfEdges es) :
    (∃ d, (c, d) ∈ es) ∧ ∀ d, d ∈ ds ↔ (c, d) ∈ es := by
  unfold graphOfEdges at h
  simp only [List.mem_map] at h
  obtain ⟨p, hp, he⟩ := h
  obtain ⟨rfl, rfl⟩ := Prod.mk.inj he
  rw [dedup_mem, List.mem_map] at hp
  obtain ⟨⟨a, b⟩, hab, rfl⟩ := hp
  refine ⟨⟨b, hab⟩, ?_⟩
  intro d
  rw [dedup_mem, List.mem_map]
  constructor
  · rintro ⟨⟨x, y⟩, hxy, rfl⟩
    have := List.mem_filter.mp hxy
    have hx : x = a := by simpa using this.2
    rw [← hx]; exact this.1
  · intro hd
    exact ⟨(a, d), List.mem_filter.mpr ⟨hd, by simp⟩, rfl⟩

theorem graphOfEdges_key (es : List (Comp × Comp)) (c d : Comp) (h : (c, d) ∈ es) :
    ∃ ds, (c, ds) ∈ graphOfEdges es := by
  have : c ∈ (graphOfEdges es).keys := by
    rw [graphOfEdges_keys, dedup_mem]; exact List.mem_map.mpr ⟨(c, d), h, rfl⟩
  unfold Graph.keys at this
  obtain ⟨⟨k, ds⟩, hk, rfl⟩ := List.mem_map.mp this
  exact ⟨ds, hk⟩

theorem map_pair_fst (l : List Comp) : (l.map (fun x => (x, ([] : List Comp)))).map (·.1) = l := by
  induction l with
  | nil => rfl
  | cons a as ih => simp only [List.map_cons, ih]

theorem closeGraph_keys_nodup (g : Graph) (h : g.keys.Nodup) : (closeGraph g).keys.Nodup := by
  unfold closeGraph
  simp only [Graph.keys, List.map_append]
  rw [List.nodup_append]
  refine ⟨h, ?_, ?_⟩
  · rw [map_pair_fst]; exact dedup_nodup _
  · intro a ha b hb hab
    subst hab
    rw [map_pair_fst, dedup_mem, List.mem_filter] at hb
    have := hb.2
    simp only [Bool.not_eq_true', List.contains_eq_mem, decide_eq_false_iff_not] at this
    exact this ha

theorem closeGraph_mem_left (g : Graph) (kv : Comp × List Comp) (h : kv ∈ g) : kv ∈ closeGraph g := by
  unfold closeGraph; exact List.mem_append_left _ h

/-- an entry of the closed graph is an entry of the graph or a dependency-only item with no dependencies -/
theorem closeGraph_mem (g : Graph) (c : Comp) (ds : List Comp) (h : (c, ds) ∈ closeGraph g) :
    (c, ds) ∈ g ∨ (ds = [] ∧ c ∉ g.keys ∧ ∃ kv ∈ g, c ∈ kv.2) := by
  unfold closeGraph at h
  rcases List.mem_append.mp h with h | h
  · exact Or.inl h
  · right
    simp only [List.mem_map] at h
    obtain ⟨x, hx, he⟩ := h
    obtain ⟨rfl, rfl⟩ := Prod.mk.inj he
    rw [dedup_mem, List.mem_filter, List.mem_flatMap] at hx
    refine ⟨rfl, ?_, hx.1⟩
    have := hx.2
    simpa [Graph.keys] using this

theorem closeGraph_extra (g : Graph) (c : Comp) (hk : c ∉ g.keys) (kv : Comp × List Comp) (hkv : kv ∈ g) (hc : c ∈ kv.2) :
    (c, []) ∈ closeGraph g := by
  unfold closeGraph
  apply List.mem_append_right
  simp only [List.mem_map]
  refine ⟨c, ?_, rfl⟩
  rw [dedup_mem, List.mem_filter, List.mem_flatMap]
  refine ⟨⟨kv, hkv, hc⟩, ?_⟩
  simpa [Graph.keys] using hk

/-! ### levels: an item is on a strictly later level than each of its dependencies -/

theorem levelOf_cons_succ (c : Comp) (l : List Comp) (ls : List (List Comp)) (j : Nat) (h : levelOf c ls = some j)
    (hn : c ∉ l) : levelOf c (l :: ls) = some (j + 1) := by
  simp [levelOf, hn, h]

theorem levelOf_of_mem (c : Comp) : ∀ (ls : List (List Comp)), c ∈ ls.flatten → ∃ i, levelOf c ls = some i := by
  intro ls
  induction ls with
  | nil => intro h; simp at h
  | cons l ls ih =>
    intro h
    by_cases hc : c ∈ l
    · exact ⟨0, by simp [levelOf, hc]⟩
    · simp only [List.flatten_cons, List.mem_append] at h
      obtain ⟨i, hi⟩ := ih (h.resolve_left hc)
      exact ⟨i + 1, levelOf_cons_succ c l ls i hi hc⟩

theorem levelOf_mem (c : Comp) : ∀ (ls : List (List Comp)) (i : Nat), levelOf c ls = some i → c ∈ ls.flatten := by
  intro ls
  induction ls with
  | nil => intro i h; simp [levelOf] at h
  | cons l ls ih =>
    intro i h
    simp only [levelOf] at h
    split at h
    · rename_i hc; simp only [List.flatten_cons, List.mem_append]; left; simpa using hc
    · cases hl : levelOf c ls with
      | none => simp [hl] at h
      | some j => simp only [List.flatten_cons, List.mem_append]; right; exact ih j hl

/-- the level loop: every key gets a level, and every dependency of it a strictly smaller one -/
theorem levels_strict (pick : List Comp → List Comp) (hp : ∀ l, (pick l).Perm l) :
    ∀ (f : Nat) (g : Graph) (ls : List (List Comp)), g.keys.Nodup → levels pick f g = some ls →
      ∀ c ds, (c, ds) ∈ g → ∃ i, levelOf c ls = some i ∧ ∀ d ∈ ds, ∃ j, levelOf d ls = some j ∧ j < i := by
  intro f
  induction f with
  | zero =>
    intro g ls _ h c ds hm
    simp only [levels] at h
    split at h
    · rename_i he; simp [List.isEmpty_iff.mp he] at hm
    · simp at h
  | succ f ih =>
    intro g ls hk h c ds hm
    simp only [levels] at h
    split at h
    · rename_i he; simp [List.isEmpty_iff.mp he] at hm
    · split at h
      · simp at h
      · cases hl : levels pick f (prune g (ready g)) with
        | none => simp [hl] at h
        | some ls' =>
          simp [hl] at h
          subst h
          have hmem : ∀ x, x ∈ pick (ready g) ↔ x ∈ ready g := fun x => (hp (ready g)).mem_iff
          by_cases hcr : c ∈ ready g
          · have hds : ds = [] := by
              simp only [ready, List.mem_map, List.mem_filter] at hcr
              obtain ⟨⟨c', e⟩, ⟨hme, hemp⟩, hc'⟩ := hcr
              simp at hc'; subst hc'
              have := key_unique g hk c' ds e hm hme
              rw [this]; simpa using hemp
            subst hds
            exact ⟨0, by simp [levelOf, (hmem c).mpr hcr], by simp⟩
          · have hin : (c, ds.filter (fun d => !(ready g).contains d)) ∈ prune g (ready g) := by
              simp only [prune, List.mem_map, List.mem_filter]
              exact ⟨(c, ds), ⟨hm, by simpa using hcr⟩, rfl⟩
            obtain ⟨i, hi, hd'⟩ := ih _ _ (prune_keys_nodup g _ hk) hl c _ hin
            have hcp : c ∉ pick (ready g) := fun hx => hcr ((hmem c).mp hx)
            refine ⟨i + 1, levelOf_cons_succ c _ ls' i hi hcp, ?_⟩
            intro d hd
            by_cases hdr : d ∈ ready g
            · exact ⟨0, by simp [levelOf, (hmem d).mpr hdr], by omega⟩
            · obtain ⟨j, hj, hlt⟩ := hd' d (by simp [hd, hdr])
              have hdp : d ∉ pick (ready g) := fun hx => hdr ((hmem d).mp hx)
              exact ⟨j + 1, levelOf_cons_succ d _ ls' j hj hdp, by omega⟩

/-! ### `dict.update` and the union of the graphs of several components -/

def updStep (acc : Graph) (kv : Comp × List Comp) : Graph :=
  if acc.keys.contains kv.1 then acc.map (fun e => if e.1 == kv.1 then kv else e) else acc ++ [kv]

theorem dictUpdate_eq (g h : Graph) : dictUpdate g h = h.foldl updStep g := rfl

theorem mem_keys_iff (g : Graph) (c : Comp) : c ∈ g.keys ↔ ∃ ds, (c, ds) ∈ g := by
  unfold Graph.keys
  constructor
  · intro h
    obtain ⟨⟨k, ds⟩, hk, rfl⟩ := List.mem_map.mp h
    exact ⟨ds, hk⟩
  · rintro ⟨ds, h⟩
    exact List.mem_map.mpr ⟨(c, ds), h, rfl⟩

theorem updStep_mem (acc : Graph) (kv x : Comp × List Comp) :
    x ∈ updStep acc kv ↔ x = kv ∨ (x ∈ acc ∧ x.1 ≠ kv.1) := by
  unfold updStep
  split
  · rename_i hc
    have hc' : kv.1 ∈ acc.keys := by simpa using hc
    obtain ⟨ds, hds⟩ := (mem_keys_iff acc kv.1).mp hc'
    simp only [List.mem_map]
    constructor
    · rintro ⟨e, he, hx⟩
      by_cases hk : e.1 = kv.1
      · simp [hk] at hx; exact Or.inl hx.symm
      · have : (e.1 == kv.1) = false := by simpa using hk
        simp [this] at hx
        subst hx; exact Or.inr ⟨he, hk⟩
    · rintro (rfl | ⟨hx, hne⟩)
      · exact ⟨(x.1, ds), hds, by simp⟩
      · exact ⟨x, hx, by simp [hne]⟩
  · rename_i hc
    have hc' : kv.1 ∉ acc.keys := by simpa using hc
    simp only [List.mem_append, List.mem_singleton]
    constructor
    · rintro (hx | rfl)
      · refine Or.inr ⟨hx, ?_⟩
        intro e; apply hc'; rw [← e]
        exact (mem_keys_iff acc x.1).mpr ⟨x.2, hx⟩
      · exact Or.inl rfl
    · rintro (rfl | ⟨hx, _⟩)
      · exact Or.inr rfl
      · exact Or.inl hx

theorem updStep_keys_nodup (acc : Graph) (kv : Comp × List Comp) (h : acc.keys.Nodup) : (updStep acc kv).keys.Nodup := by
  unfold updStep
  split
  · have : Graph.keys (acc.map (fun e => if e.1 == kv.1 then kv else e)) = acc.keys := by
      unfold Graph.keys
      rw [List.map_map]
      apply List.map_congr_left
      intro e _
      simp only [Function.comp]
      by_cases hk : e.1 = kv.1
      · simp [hk]
      · have : (e.1 == kv.1) = false := by simpa using hk
        simp [this]
    rw [this]; exact h
  · rename_i hc
    have hc' : kv.1 ∉ acc.keys := by simpa using hc
    unfold Graph.keys at *
    rw [List.map_append, List.nodup_append]
    refine ⟨h, by simp, ?_⟩
    intro a ha b hb hab
    simp at hb
    subst hab; subst hb
    exact hc' ha

theorem dictUpdate_keys_nodup (g h : Graph) (hg : g.keys.Nodup) : (dictUpdate g h).keys.Nodup := by
  rw [dictUpdate_eq]
  induction h generalizing g with
  | nil => exact hg
  | cons kv t ih => exact ih _ (updStep_keys_nodup g kv hg)

/-- `dict.update`: the entries of the update, and the entries of the dict whose key the update does not have -/
theorem dictUpdate_mem (g h : Graph) (hh : h.keys.Nodup) (x : Comp × List Comp) :
    x ∈ dictUpdate g h ↔ x ∈ h ∨ (x ∈ g ∧ x.1 ∉ h.keys) := by
  rw [dictUpdate_eq]
  induction h generalizing g with
  | nil => simp [Graph.keys]
  | cons kv t ih =>
    have hn : kv.1 ∉ Graph.keys t ∧ (Graph.keys t).Nodup := by
      unfold Graph.keys at hh ⊢
      simpa using hh
    rw [List.foldl_cons, ih _ hn.2, updStep_mem]
    have hk : ∀ y : Comp × List Comp, y.1 ∉ Graph.keys (kv :: t) ↔ (y.1 ≠ kv.1 ∧ y.1 ∉ Graph.keys t) := by
      intro y; unfold Graph.keys; simp
    rw [hk]
    constructor
    · rintro (hx | ⟨(rfl | ⟨hx, hne⟩), hnt⟩)
      · exact Or.inl (List.mem_cons_of_mem _ hx)
      · exact Or.inl (by simp)
      · exact Or.inr ⟨hx, hne, hnt⟩
    · rintro (hx | ⟨hx, hne, hnt⟩)
      · rcases List.mem_cons.mp hx with rfl | hx
        · exact Or.inr ⟨Or.inl rfl, hn.1⟩
        · exact Or.inl hx
      · exact Or.inr ⟨Or.inr ⟨hx, hne⟩, hnt⟩

/-- what `determine_components` has built after the components `seen`: distinct keys; every entry belongs to a
component reachable from one of them and holds exactly its declared dependencies; every reachable one is a key -/
def GoodFor (reg : Reg) (seen : List Comp) (g : Graph) : Prop :=
  g.keys.Nodup ∧
  (∀ c ds, (c, ds) ∈ g → (∃ r ∈ seen, Reach reg r c) ∧ ∀ d, d ∈ ds ↔ d ∈ reg c) ∧
  (∀ r ∈ seen, ∀ c, Reach reg r c → c ∈ g.keys)

theorem goodFor_step (reg : Reg) (seen : List Comp) (g gr : Graph) (r : Comp) (hg : GoodFor reg seen g)
    (h1 : gr.keys.Nodup)
    (h2 : ∀ c, Reach reg r c → ∃ ds, (c, ds) ∈ gr ∧ ∀ d, d ∈ ds ↔ d ∈ reg c)
    (h3 : ∀ c ds, (c, ds) ∈ gr → Reach reg r c) :
    GoodFor reg (seen ++ [r]) (dictUpdate g gr) := by
  obtain ⟨g1, g2, g3⟩ := hg
  refine ⟨dictUpdate_keys_nodup g gr g1, ?_, ?_⟩
  · intro c ds hm
    rcases (dictUpdate_mem g gr h1 (c, ds)).mp hm with hm | ⟨hm, _⟩
    · have hr := h3 c ds hm
      obtain ⟨ds', hds', hiff⟩ := h2 c hr
      have : ds' = ds := key_unique gr h1 c ds' ds hds' hm
      subst this
      exact ⟨⟨r, by simp, hr⟩, hiff⟩
    · obtain ⟨⟨r', hr', hreach⟩, hiff⟩ := g2 c ds hm
      exact ⟨⟨r', by simp [hr'], hreach⟩, hiff⟩
  · intro r' hr' c hc
    rw [mem_keys_iff]
    rcases List.mem_append.mp hr' with hr' | hr'
    · obtain ⟨ds, hds⟩ := (mem_keys_iff g c).mp (g3 r' hr' c hc)
      by_cases hk : c ∈ gr.keys
      · obtain ⟨ds', hds'⟩ := (mem_keys_iff gr c).mp hk
        exact ⟨ds', (dictUpdate_mem g gr h1 (c, ds')).mpr (Or.inl hds')⟩
      · exact ⟨ds, (dictUpdate_mem g gr h1 (c, ds)).mpr (Or.inr ⟨hds, hk⟩)⟩
    · have : r' = r := by simpa using hr'
      subst this
      obtain ⟨ds, hds, _⟩ := h2 c hc
      exact ⟨ds, (dictUpdate_mem g gr h1 (c, ds)).mpr (Or.inl hds)⟩

theorem determine_foldl_none (reg : Reg) (registered : Comp → Bool) (fuel : Nat) (l : List Comp) :
    l.foldl (fun acc c => acc.bind fun g => (getDependencyGraph reg registered fuel c).map (dictUpdate g)) none = none := by
  induction l with
  | nil => rfl
  | cons a as ih => simpa using ih

end IV.Dr
