import IV.Model.Peg
/-!
C19 — the textbook PEG big-step relation `Ev` (with values) and the lemmas that tie the
fuelled interpreter `run` (the mirror of `process`) to it.

`Ev rules inp t pos r` is stateless: there is no tag stack and no function-error flag in it —
a sub-expression's result depends on the input and the position only.  It has no rule for
`startTag`/`endTag` and no rule for a mapped function that raises something other than
`Backtrack`.  The result is `ok pos' value` or `fail`, never `diverge`.
-/
namespace IV.Peg

/-- PEG semantics in the usual form (Ford 2004, fig. 1, extended with semantic values):
    sequence left to right, ordered choice committing to the first success, greedy `e*`
    with the lower bound checked afterwards, `Until p q = (!q p)*`, `Opt e d = e / ε(d)`,
    look-ahead consuming nothing. -/
inductive Ev (rules : List Term) (inp : Str) : Term → Nat → Res → Prop
  -- terminals
  | primOk {p pos q v} : p.run inp pos = some (q, v) → Ev rules inp (.prim p) pos (.ok q v)
  | primFail {p pos} : p.run inp pos = none → Ev rules inp (.prim p) pos .fail
  -- e₁ e₂ … eₙ
  | seqNil {pos} : Ev rules inp (.seq []) pos (.ok pos (.list []))
  | seqCons {t ts pos p v q vs} : Ev rules inp t pos (.ok p v) → Ev rules inp (.seq ts) p (.ok q (.list vs)) →
      Ev rules inp (.seq (t :: ts)) pos (.ok q (.list (v :: vs)))
  | seqFailHead {t ts pos} : Ev rules inp t pos .fail → Ev rules inp (.seq (t :: ts)) pos .fail
  | seqFailTail {t ts pos p v} : Ev rules inp t pos (.ok p v) → Ev rules inp (.seq ts) p .fail →
      Ev rules inp (.seq (t :: ts)) pos .fail
  -- e₁ / e₂ / … / eₙ
  | choiceNil {pos} : Ev rules inp (.choice []) pos .fail
  | choiceHit {t ts pos p v} : Ev rules inp t pos (.ok p v) → Ev rules inp (.choice (t :: ts)) pos (.ok p v)
  | choiceMiss {t ts pos r} : Ev rules inp t pos .fail → Ev rules inp (.choice ts) pos r →
      Ev rules inp (.choice (t :: ts)) pos r
  -- e* (= many e 0), greedy; many e (n+1) = e* then the length check
  | starStop {t pos} : Ev rules inp t pos .fail → Ev rules inp (.many t 0) pos (.ok pos (.list []))
  | starMore {t pos p v q vs} : Ev rules inp t pos (.ok p v) → Ev rules inp (.many t 0) p (.ok q (.list vs)) →
      Ev rules inp (.many t 0) pos (.ok q (.list (v :: vs)))
  | manyOk {t n pos q vs} : Ev rules inp (.many t 0) pos (.ok q (.list vs)) → ¬ vs.length < n + 1 →
      Ev rules inp (.many t (n + 1)) pos (.ok q (.list vs))
  | manyFail {t n pos q vs} : Ev rules inp (.many t 0) pos (.ok q (.list vs)) → vs.length < n + 1 →
      Ev rules inp (.many t (n + 1)) pos .fail
  -- until e q = (!q e)*
  | untilPred {t pr pos q v} : Ev rules inp pr pos (.ok q v) → Ev rules inp (.until t pr) pos (.ok pos (.list []))
  | untilStop {t pr pos} : Ev rules inp pr pos .fail → Ev rules inp t pos .fail →
      Ev rules inp (.until t pr) pos (.ok pos (.list []))
  | untilMore {t pr pos p v q vs} : Ev rules inp pr pos .fail → Ev rules inp t pos (.ok p v) →
      Ev rules inp (.until t pr) p (.ok q (.list vs)) → Ev rules inp (.until t pr) pos (.ok q (.list (v :: vs)))
  -- e? with default
  | optSome {t d pos p v} : Ev rules inp t pos (.ok p v) → Ev rules inp (.opt t d) pos (.ok p v)
  | optNone {t d pos} : Ev rules inp t pos .fail → Ev rules inp (.opt t d) pos (.ok pos d)
  -- a &b
  | fbOk {a b pos p v q w} : Ev rules inp a pos (.ok p v) → Ev rules inp b p (.ok q w) →
      Ev rules inp (.followedBy a b) pos (.ok p v)
  | fbFailL {a b pos} : Ev rules inp a pos .fail → Ev rules inp (.followedBy a b) pos .fail
  | fbFailR {a b pos p v} : Ev rules inp a pos (.ok p v) → Ev rules inp b p .fail →
      Ev rules inp (.followedBy a b) pos .fail
  -- a !b
  | nfbOk {a b pos p v} : Ev rules inp a pos (.ok p v) → Ev rules inp b p .fail →
      Ev rules inp (.notFollowedBy a b) pos (.ok p v)
  | nfbHit {a b pos p v q w} : Ev rules inp a pos (.ok p v) → Ev rules inp b p (.ok q w) →
      Ev rules inp (.notFollowedBy a b) pos .fail
  | nfbFail {a b pos} : Ev rules inp a pos .fail → Ev rules inp (.notFollowedBy a b) pos .fail
  -- a << b
  | klOk {a b pos p v q w} : Ev rules inp a pos (.ok p v) → Ev rules inp b p (.ok q w) →
      Ev rules inp (.keepLeft a b) pos (.ok q v)
  | klFailL {a b pos} : Ev rules inp a pos .fail → Ev rules inp (.keepLeft a b) pos .fail
  | klFailR {a b pos p v} : Ev rules inp a pos (.ok p v) → Ev rules inp b p .fail →
      Ev rules inp (.keepLeft a b) pos .fail
  -- a >> b
  | krOk {a b pos p v r} : Ev rules inp a pos (.ok p v) → Ev rules inp b p r → Ev rules inp (.keepRight a b) pos r
  | krFail {a b pos} : Ev rules inp a pos .fail → Ev rules inp (.keepRight a b) pos .fail
  -- semantic actions
  | mapOk {t f pos p v w} : Ev rules inp t pos (.ok p v) → f.apply v = .ok w → Ev rules inp (.map t f) pos (.ok p w)
  | mapBack {t f pos p v} : Ev rules inp t pos (.ok p v) → f.apply v = .backtrack → Ev rules inp (.map t f) pos .fail
  | mapFail {t f pos} : Ev rules inp t pos .fail → Ev rules inp (.map t f) pos .fail
  | liftOk {f ts pos p vs w} : Ev rules inp (.seq ts) pos (.ok p (.list vs)) → f.apply (.list vs) = .ok w →
      Ev rules inp (.lift f ts) pos (.ok p w)
  | liftBack {f ts pos p vs} : Ev rules inp (.seq ts) pos (.ok p (.list vs)) → f.apply (.list vs) = .backtrack →
      Ev rules inp (.lift f ts) pos .fail
  | liftFail {f ts pos} : Ev rules inp (.seq ts) pos .fail → Ev rules inp (.lift f ts) pos .fail
  -- transparent wrappers and non-terminals
  | wrap {t pos r} : Ev rules inp t pos r → Ev rules inp (.wrapper t) pos r
  -- PosMarker: the value is wrapped with line and column of the START position
  | markOk {t pos p v} : Ev rules inp t pos (.ok p v) → Ev rules inp (.mark t) pos (.ok p (markVal inp pos v))
  | markFail {t pos} : Ev rules inp t pos .fail → Ev rules inp (.mark t) pos .fail
  | refOk {i t pos r} : rules[i]? = some t → Ev rules inp t pos r → Ev rules inp (.ref i) pos r
  | refNone {i pos} : rules[i]? = none → Ev rules inp (.ref i) pos .fail

theorem LRes.toRes_ne_diverge {lr : LRes} (h : lr.toRes ≠ .diverge) : lr ≠ .diverge := by
  cases lr <;> simp_all [LRes.toRes]

/-- Soundness, all five loops at once, by induction on the fuel.  The only hypothesis about the
run is on its FINAL state: the function-error flag is still clear.  Then (tag-free terms) the
state is unchanged and, unless the fuel ran out, the answer is a PEG derivation. -/
theorem sound_all (rules : List Term) (inp : Str) (hR : ∀ (i : Nat) (t : Term), rules[i]? = some t → t.tagFree = true) : ∀ f,
    (∀ t pos σ r σ', run rules inp f t pos σ = (r, σ') → t.tagFree = true → σ'.ferr = false →
        σ' = σ ∧ (r ≠ .diverge → Ev rules inp t pos r)) ∧
    (∀ ts pos σ r σ', runSeq rules inp f ts pos σ = (r, σ') → Term.tagFreeL ts = true → σ'.ferr = false →
        σ' = σ ∧ (r ≠ .diverge → Ev rules inp (.seq ts) pos r.toRes)) ∧
    (∀ ts pos σ r σ', runChoice rules inp f ts pos σ = (r, σ') → Term.tagFreeL ts = true → σ'.ferr = false →
        σ' = σ ∧ (r ≠ .diverge → Ev rules inp (.choice ts) pos r)) ∧
    (∀ t pos σ r σ', runMany rules inp f t pos σ = (r, σ') → t.tagFree = true → σ'.ferr = false →
        σ' = σ ∧ (r ≠ .diverge → Ev rules inp (.many t 0) pos r.toRes)) ∧
    (∀ t p pos σ r σ', runUntil rules inp f t p pos σ = (r, σ') → t.tagFree = true → p.tagFree = true →
        σ'.ferr = false → σ' = σ ∧ (r ≠ .diverge → Ev rules inp (.until t p) pos r.toRes)) := by
  intro f
  induction f with
  | zero =>
    refine ⟨?_, ?_, ?_, ?_, ?_⟩ <;> intros <;> simp_all [run, runSeq, runChoice, runMany, runUntil]
  | succ f ih =>
    obtain ⟨ihR, ihS, ihC, ihM, ihU⟩ := ih
    refine ⟨?_, ?_, ?_, ?_, ?_⟩
    · intro t pos σ r σ' h htf hf
      by_cases hσ : σ.ferr = true
      · have : run rules inp (f + 1) t pos σ = (.fail, σ) := by cases t <;> simp [run, hσ]
        rw [this] at h; cases h; simp [hσ] at hf
      replace hσ : σ.ferr = false := by simpa using hσ
      cases t with
      | prim p =>
        simp only [run, hσ, Bool.false_eq_true, ↓reduceIte] at h
        cases hp : p.run inp pos with
        | none => rw [hp] at h; cases h; exact ⟨rfl, fun _ => .primFail hp⟩
        | some qv => obtain ⟨q, v⟩ := qv; rw [hp] at h; cases h; exact ⟨rfl, fun _ => .primOk hp⟩
      | seq ts =>
        simp only [run, hσ, Bool.false_eq_true, ↓reduceIte] at h
        simp only [Term.tagFree] at htf
        rcases hs : runSeq rules inp f ts pos σ with ⟨lr, σ1⟩
        rw [hs] at h; cases h
        obtain ⟨rfl, es⟩ := ihS _ _ _ _ _ hs htf hf
        exact ⟨rfl, fun hr => es (LRes.toRes_ne_diverge hr)⟩
      | choice ts =>
        simp only [run, hσ, Bool.false_eq_true, ↓reduceIte] at h
        simp only [Term.tagFree] at htf
        exact ihC _ _ _ _ _ h htf hf
      | many t lower =>
        simp only [run, hσ, Bool.false_eq_true, ↓reduceIte] at h
        simp only [Term.tagFree] at htf
        rcases hm : runMany rules inp f t pos σ with ⟨_ | _ | _, σ1⟩ <;> rw [hm] at h <;> simp only at h
        · rename_i q vs
          split at h <;> cases h <;> obtain ⟨rfl, em⟩ := ihM _ _ _ _ _ hm htf hf <;>
            refine ⟨rfl, fun _ => ?_⟩ <;> have em := em (by simp) <;> simp only [LRes.toRes] at em
          · cases lower with
            | zero => omega
            | succ n => exact .manyFail em ‹_›
          · cases lower with
            | zero => exact em
            | succ n => exact .manyOk em ‹_›
        · cases h
          obtain ⟨rfl, em⟩ := ihM _ _ _ _ _ hm htf hf
          have em := em (by simp)
          simp only [LRes.toRes] at em
          cases em
        · cases h
          obtain ⟨rfl, -⟩ := ihM _ _ _ _ _ hm htf hf
          exact ⟨rfl, fun hr => absurd rfl hr⟩
      | «until» t p =>
        simp only [run, hσ, Bool.false_eq_true, ↓reduceIte] at h
        simp only [Term.tagFree, Bool.and_eq_true] at htf
        rcases hs : runUntil rules inp f t p pos σ with ⟨lr, σ1⟩
        rw [hs] at h; cases h
        obtain ⟨rfl, es⟩ := ihU _ _ _ _ _ _ hs htf.1 htf.2 hf
        exact ⟨rfl, fun hr => es (LRes.toRes_ne_diverge hr)⟩
      | opt t d =>
        simp only [run, hσ, Bool.false_eq_true, ↓reduceIte] at h
        simp only [Term.tagFree] at htf
        rcases ha : run rules inp f t pos σ with ⟨_ | _ | _, σ1⟩ <;> rw [ha] at h <;> simp only at h <;> cases h <;>
          obtain ⟨rfl, ea⟩ := ihR _ _ _ _ _ ha htf hf <;> refine ⟨rfl, fun hr => ?_⟩
        · exact .optSome (ea (by simp))
        · exact .optNone (ea (by simp))
        · exact absurd rfl hr
      | followedBy a b =>
        simp only [run, hσ, Bool.false_eq_true, ↓reduceIte] at h
        simp only [Term.tagFree, Bool.and_eq_true] at htf
        rcases ha : run rules inp f a pos σ with ⟨_ | _ | _, σ1⟩ <;> rw [ha] at h <;> simp only at h
        · rcases hb : run rules inp f b _ σ1 with ⟨_ | _ | _, σ2⟩ <;> rw [hb] at h <;> simp only at h <;> cases h <;>
            obtain ⟨rfl, eb⟩ := ihR _ _ _ _ _ hb htf.2 hf <;> obtain ⟨rfl, ea⟩ := ihR _ _ _ _ _ ha htf.1 hf <;>
            refine ⟨rfl, fun hr => ?_⟩
          · exact .fbOk (ea (by simp)) (eb (by simp))
          · exact .fbFailR (ea (by simp)) (eb (by simp))
          · exact absurd rfl hr
        all_goals (cases h; obtain ⟨rfl, ea⟩ := ihR _ _ _ _ _ ha htf.1 hf; refine ⟨rfl, fun hr => ?_⟩)
        · exact .fbFailL (ea (by simp))
        · exact absurd rfl hr
      | notFollowedBy a b =>
        simp only [run, hσ, Bool.false_eq_true, ↓reduceIte] at h
        simp only [Term.tagFree, Bool.and_eq_true] at htf
        rcases ha : run rules inp f a pos σ with ⟨_ | _ | _, σ1⟩ <;> rw [ha] at h <;> simp only at h
        · rcases hb : run rules inp f b _ σ1 with ⟨_ | _ | _, σ2⟩ <;> rw [hb] at h <;> simp only at h <;> cases h <;>
            obtain ⟨rfl, eb⟩ := ihR _ _ _ _ _ hb htf.2 hf <;> obtain ⟨rfl, ea⟩ := ihR _ _ _ _ _ ha htf.1 hf <;>
            refine ⟨rfl, fun hr => ?_⟩
          · exact .nfbHit (ea (by simp)) (eb (by simp))
          · exact .nfbOk (ea (by simp)) (eb (by simp))
          · exact absurd rfl hr
        all_goals (cases h; obtain ⟨rfl, ea⟩ := ihR _ _ _ _ _ ha htf.1 hf; refine ⟨rfl, fun hr => ?_⟩)
        · exact .nfbFail (ea (by simp))
        · exact absurd rfl hr
      | keepLeft a b =>
        simp only [run, hσ, Bool.false_eq_true, ↓reduceIte] at h
        simp only [Term.tagFree, Bool.and_eq_true] at htf
        rcases ha : run rules inp f a pos σ with ⟨_ | _ | _, σ1⟩ <;> rw [ha] at h <;> simp only at h
        · rcases hb : run rules inp f b _ σ1 with ⟨_ | _ | _, σ2⟩ <;> rw [hb] at h <;> simp only at h <;> cases h <;>
            obtain ⟨rfl, eb⟩ := ihR _ _ _ _ _ hb htf.2 hf <;> obtain ⟨rfl, ea⟩ := ihR _ _ _ _ _ ha htf.1 hf <;>
            refine ⟨rfl, fun hr => ?_⟩
          · exact .klOk (ea (by simp)) (eb (by simp))
          · exact .klFailR (ea (by simp)) (eb (by simp))
          · exact absurd rfl hr
        all_goals (cases h; obtain ⟨rfl, ea⟩ := ihR _ _ _ _ _ ha htf.1 hf; refine ⟨rfl, fun hr => ?_⟩)
        · exact .klFailL (ea (by simp))
        · exact absurd rfl hr
      | keepRight a b =>
        simp only [run, hσ, Bool.false_eq_true, ↓reduceIte] at h
        simp only [Term.tagFree, Bool.and_eq_true] at htf
        rcases ha : run rules inp f a pos σ with ⟨_ | _ | _, σ1⟩ <;> rw [ha] at h <;> simp only at h
        · obtain ⟨rfl, eb⟩ := ihR _ _ _ _ _ h htf.2 hf
          obtain ⟨rfl, ea⟩ := ihR _ _ _ _ _ ha htf.1 hf
          exact ⟨rfl, fun hr => .krOk (ea (by simp)) (eb hr)⟩
        all_goals (cases h; obtain ⟨rfl, ea⟩ := ihR _ _ _ _ _ ha htf.1 hf; refine ⟨rfl, fun hr => ?_⟩)
        · exact .krFail (ea (by simp))
        · exact absurd rfl hr
      | map t fn =>
        simp only [run, hσ, Bool.false_eq_true, ↓reduceIte] at h
        simp only [Term.tagFree] at htf
        rcases ha : run rules inp f t pos σ with ⟨_ | _ | _, σ1⟩ <;> rw [ha] at h <;> simp only at h
        · rename_i p v
          cases hfn : fn.apply v <;> rw [hfn] at h <;> simp only at h <;> cases h
          · obtain ⟨rfl, ea⟩ := ihR _ _ _ _ _ ha htf hf
            exact ⟨rfl, fun _ => .mapOk (ea (by simp)) hfn⟩
          · obtain ⟨rfl, ea⟩ := ihR _ _ _ _ _ ha htf hf
            exact ⟨rfl, fun _ => .mapBack (ea (by simp)) hfn⟩
          · simp at hf
        all_goals (cases h; obtain ⟨rfl, ea⟩ := ihR _ _ _ _ _ ha htf hf; refine ⟨rfl, fun hr => ?_⟩)
        · exact .mapFail (ea (by simp))
        · exact absurd rfl hr
      | lift fn ts =>
        simp only [run, hσ, Bool.false_eq_true, ↓reduceIte] at h
        simp only [Term.tagFree] at htf
        rcases hs : runSeq rules inp f ts pos σ with ⟨_ | _ | _, σ1⟩ <;> rw [hs] at h <;> simp only at h
        · rename_i p vs
          cases hfn : fn.apply (.list vs) <;> rw [hfn] at h <;> simp only at h <;> cases h
          · obtain ⟨rfl, ea⟩ := ihS _ _ _ _ _ hs htf hf
            exact ⟨rfl, fun _ => .liftOk (ea (by simp)) hfn⟩
          · obtain ⟨rfl, ea⟩ := ihS _ _ _ _ _ hs htf hf
            exact ⟨rfl, fun _ => .liftBack (ea (by simp)) hfn⟩
          · simp at hf
        all_goals (cases h; obtain ⟨rfl, ea⟩ := ihS _ _ _ _ _ hs htf hf; refine ⟨rfl, fun hr => ?_⟩)
        · exact .liftFail (ea (by simp))
        · exact absurd rfl hr
      | wrapper t =>
        simp only [run, hσ, Bool.false_eq_true, ↓reduceIte] at h
        simp only [Term.tagFree] at htf
        obtain ⟨rfl, ea⟩ := ihR _ _ _ _ _ h htf hf
        exact ⟨rfl, fun hr => .wrap (ea hr)⟩
      | ref i =>
        simp only [run, hσ, Bool.false_eq_true, ↓reduceIte] at h
        cases hi : rules[i]? with
        | none => rw [hi] at h; cases h; exact ⟨rfl, fun _ => .refNone hi⟩
        | some t =>
          rw [hi] at h
          obtain ⟨rfl, ea⟩ := ihR _ _ _ _ _ h (hR _ _ hi) hf
          exact ⟨rfl, fun hr => .refOk hi (ea hr)⟩
      | startTag t => simp [Term.tagFree] at htf
      | endTag t ic => simp [Term.tagFree] at htf
      | mark t =>
        simp only [run, hσ, Bool.false_eq_true, ↓reduceIte] at h
        simp only [Term.tagFree] at htf
        rcases ha : run rules inp f t pos σ with ⟨_ | _ | _, σ1⟩ <;> rw [ha] at h <;> simp only at h
        all_goals (cases h; obtain ⟨rfl, ea⟩ := ihR _ _ _ _ _ ha htf hf; refine ⟨rfl, fun hr => ?_⟩)
        · exact .markOk (ea (by simp))
        · exact .markFail (ea (by simp))
        · exact absurd rfl hr
    · intro ts pos σ r σ' h htf hf
      cases ts with
      | nil => simp only [runSeq] at h; cases h; exact ⟨rfl, fun _ => .seqNil⟩
      | cons t ts =>
        simp only [runSeq] at h
        simp only [Term.tagFreeL, Bool.and_eq_true] at htf
        rcases ha : run rules inp f t pos σ with ⟨_ | _ | _, σ1⟩ <;> rw [ha] at h <;> simp only at h
        · rcases hb : runSeq rules inp f ts _ σ1 with ⟨_ | _ | _, σ2⟩ <;> rw [hb] at h <;> simp only at h <;> cases h <;>
            obtain ⟨rfl, eb⟩ := ihS _ _ _ _ _ hb htf.2 hf <;> obtain ⟨rfl, ea⟩ := ihR _ _ _ _ _ ha htf.1 hf <;>
            refine ⟨rfl, fun hr => ?_⟩
          · exact .seqCons (ea (by simp)) (eb (by simp))
          · exact .seqFailTail (ea (by simp)) (eb (by simp))
          · exact absurd rfl hr
        all_goals (cases h; obtain ⟨rfl, ea⟩ := ihR _ _ _ _ _ ha htf.1 hf; refine ⟨rfl, fun hr => ?_⟩)
        · exact .seqFailHead (ea (by simp))
        · exact absurd rfl hr
    · intro ts pos σ r σ' h htf hf
      cases ts with
      | nil => simp only [runChoice] at h; cases h; exact ⟨rfl, fun _ => .choiceNil⟩
      | cons t ts =>
        simp only [runChoice] at h
        simp only [Term.tagFreeL, Bool.and_eq_true] at htf
        rcases ha : run rules inp f t pos σ with ⟨_ | _ | _, σ1⟩ <;> rw [ha] at h <;> simp only at h
        · cases h; obtain ⟨rfl, ea⟩ := ihR _ _ _ _ _ ha htf.1 hf
          exact ⟨rfl, fun _ => .choiceHit (ea (by simp))⟩
        · obtain ⟨rfl, eb⟩ := ihC _ _ _ _ _ h htf.2 hf
          obtain ⟨rfl, ea⟩ := ihR _ _ _ _ _ ha htf.1 hf
          exact ⟨rfl, fun hr => .choiceMiss (ea (by simp)) (eb hr)⟩
        · cases h; obtain ⟨rfl, ea⟩ := ihR _ _ _ _ _ ha htf.1 hf
          exact ⟨rfl, fun hr => absurd rfl hr⟩
    · intro t pos σ r σ' h htf hf
      simp only [runMany] at h
      rcases ha : run rules inp f t pos σ with ⟨_ | _ | _, σ1⟩ <;> rw [ha] at h <;> simp only at h
      · rcases hb : runMany rules inp f t _ σ1 with ⟨_ | _ | _, σ2⟩ <;> rw [hb] at h <;> simp only at h <;> cases h <;>
          obtain ⟨rfl, eb⟩ := ihM _ _ _ _ _ hb htf hf <;> obtain ⟨rfl, ea⟩ := ihR _ _ _ _ _ ha htf hf <;>
          refine ⟨rfl, fun hr => ?_⟩
        · exact .starMore (ea (by simp)) (eb (by simp))
        · have := eb (by simp); simp only [LRes.toRes] at this; cases this
        · exact absurd rfl hr
      all_goals (cases h; obtain ⟨rfl, ea⟩ := ihR _ _ _ _ _ ha htf hf; refine ⟨rfl, fun hr => ?_⟩)
      · exact .starStop (ea (by simp))
      · exact absurd rfl hr
    · intro t p pos σ r σ' h htf hpf hf
      simp only [runUntil] at h
      rcases hp : run rules inp f p pos σ with ⟨_ | _ | _, σ1⟩ <;> rw [hp] at h <;> simp only at h
      · cases h; obtain ⟨rfl, ep⟩ := ihR _ _ _ _ _ hp hpf hf
        exact ⟨rfl, fun _ => .untilPred (ep (by simp))⟩
      · rcases ha : run rules inp f t pos σ1 with ⟨_ | _ | _, σ2⟩ <;> rw [ha] at h <;> simp only at h
        · rcases hb : runUntil rules inp f t p _ σ2 with ⟨_ | _ | _, σ3⟩ <;> rw [hb] at h <;> simp only at h <;> cases h <;>
            obtain ⟨rfl, eb⟩ := ihU _ _ _ _ _ _ hb htf hpf hf <;> obtain ⟨rfl, ea⟩ := ihR _ _ _ _ _ ha htf hf <;>
            obtain ⟨rfl, ep⟩ := ihR _ _ _ _ _ hp hpf hf <;> refine ⟨rfl, fun hr => ?_⟩
          · exact .untilMore (ep (by simp)) (ea (by simp)) (eb (by simp))
          · have := eb (by simp); simp only [LRes.toRes] at this; cases this
          · exact absurd rfl hr
        all_goals (cases h; obtain ⟨rfl, ea⟩ := ihR _ _ _ _ _ ha htf hf; obtain ⟨rfl, ep⟩ := ihR _ _ _ _ _ hp hpf hf;
                   refine ⟨rfl, fun hr => ?_⟩)
        · exact .untilStop (ep (by simp)) (ea (by simp))
        · exact absurd rfl hr
      · cases h; obtain ⟨rfl, ep⟩ := ihR _ _ _ _ _ hp hpf hf
        exact ⟨rfl, fun hr => absurd rfl hr⟩


/-! ### completeness: every derivation is computed by `run` at every sufficiently large fuel -/

theorem LRes.toRes_inj {a b : LRes} (h : a.toRes = b.toRes) : a = b := by
  cases a <;> cases b <;> simp_all [LRes.toRes]

theorem seq_of_run {rules inp f ts pos σ lr σ'} (hσ : σ.ferr = false)
    (h : run rules inp (f + 1) (.seq ts) pos σ = (LRes.toRes lr, σ')) : runSeq rules inp f ts pos σ = (lr, σ') := by
  simp only [run, hσ, Bool.false_eq_true, ↓reduceIte] at h
  rcases hs : runSeq rules inp f ts pos σ with ⟨lr1, σ1⟩
  rw [hs] at h
  simp only [Prod.mk.injEq] at h
  rw [LRes.toRes_inj h.1, h.2]

theorem many_of_run {rules inp f t pos σ lr σ'} (hσ : σ.ferr = false)
    (h : run rules inp (f + 1) (.many t 0) pos σ = (LRes.toRes lr, σ')) : runMany rules inp f t pos σ = (lr, σ') := by
  simp only [run, hσ, Bool.false_eq_true, ↓reduceIte] at h
  rcases hs : runMany rules inp f t pos σ with ⟨_ | _ | _, σ1⟩ <;> rw [hs] at h <;>
    simp only [Nat.not_lt_zero, ↓reduceIte, Prod.mk.injEq] at h <;> obtain ⟨h1, rfl⟩ := h
  · rename_i q vs; rw [← LRes.toRes_inj (a := .ok q vs) (b := lr) h1]
  · rw [← LRes.toRes_inj (a := .fail) (b := lr) h1]
  · rw [← LRes.toRes_inj (a := .diverge) (b := lr) h1]

theorem until_of_run {rules inp f t p pos σ lr σ'} (hσ : σ.ferr = false)
    (h : run rules inp (f + 1) (.until t p) pos σ = (LRes.toRes lr, σ')) : runUntil rules inp f t p pos σ = (lr, σ') := by
  simp only [run, hσ, Bool.false_eq_true, ↓reduceIte] at h
  rcases hs : runUntil rules inp f t p pos σ with ⟨lr1, σ1⟩
  rw [hs] at h
  simp only [Prod.mk.injEq] at h
  rw [LRes.toRes_inj h.1, h.2]

theorem tagFree_seq {ts : List Term} (h : Term.tagFreeL ts = true) : (Term.seq ts).tagFree = true := by
  simpa [Term.tagFree] using h

/-- the statement proved by induction on the derivation -/
def Reached (rules : List Term) (inp : Str) (t : Term) (pos : Nat) (r : Res) : Prop :=
  ∃ f0, ∀ f, f0 ≤ f → ∀ σ : St, σ.ferr = false → run rules inp f t pos σ = (r, σ)

theorem complete_aux (rules : List Term) (inp : Str)
    (hR : ∀ (i : Nat) (t : Term), rules[i]? = some t → t.tagFree = true) {t pos r}
    (h : Ev rules inp t pos r) : t.tagFree = true → Reached rules inp t pos r := by
  induction h with
  | primOk hp =>
    intro _; refine ⟨1, fun f hf σ hσ => ?_⟩
    obtain ⟨f, rfl⟩ : ∃ g, f = g + 1 := ⟨f - 1, by omega⟩
    simp only [run, hσ, Bool.false_eq_true, ↓reduceIte, hp]
  | primFail hp =>
    intro _; refine ⟨1, fun f hf σ hσ => ?_⟩
    obtain ⟨f, rfl⟩ : ∃ g, f = g + 1 := ⟨f - 1, by omega⟩
    simp only [run, hσ, Bool.false_eq_true, ↓reduceIte, hp]
  | seqNil =>
    intro _; refine ⟨2, fun f hf σ hσ => ?_⟩
    obtain ⟨f, rfl⟩ : ∃ g, f = g + 2 := ⟨f - 2, by omega⟩
    simp only [run, hσ, Bool.false_eq_true, ↓reduceIte, runSeq, LRes.toRes]
  | seqCons _ _ ih1 ih2 =>
    intro htf
    simp only [Term.tagFree, Term.tagFreeL, Bool.and_eq_true] at htf
    obtain ⟨f1, h1⟩ := ih1 htf.1
    obtain ⟨f2, h2⟩ := ih2 (tagFree_seq htf.2)
    refine ⟨f1 + f2 + 2, fun f hf σ hσ => ?_⟩
    obtain ⟨f, rfl⟩ : ∃ g, f = g + 2 := ⟨f - 2, by omega⟩
    simp only [run, hσ, Bool.false_eq_true, ↓reduceIte, runSeq]
    rw [h1 f (by omega) σ hσ]
    simp only
    rw [seq_of_run (lr := .ok _ _) hσ (h2 (f + 1) (by omega) σ hσ)]
    simp only [LRes.toRes]
  | seqFailHead _ ih1 =>
    intro htf
    simp only [Term.tagFree, Term.tagFreeL, Bool.and_eq_true] at htf
    obtain ⟨f1, h1⟩ := ih1 htf.1
    refine ⟨f1 + 2, fun f hf σ hσ => ?_⟩
    obtain ⟨f, rfl⟩ : ∃ g, f = g + 2 := ⟨f - 2, by omega⟩
    simp only [run, hσ, Bool.false_eq_true, ↓reduceIte, runSeq]
    rw [h1 f (by omega) σ hσ]
    simp only [LRes.toRes]
  | seqFailTail _ _ ih1 ih2 =>
    intro htf
    simp only [Term.tagFree, Term.tagFreeL, Bool.and_eq_true] at htf
    obtain ⟨f1, h1⟩ := ih1 htf.1
    obtain ⟨f2, h2⟩ := ih2 (tagFree_seq htf.2)
    refine ⟨f1 + f2 + 2, fun f hf σ hσ => ?_⟩
    obtain ⟨f, rfl⟩ : ∃ g, f = g + 2 := ⟨f - 2, by omega⟩
    simp only [run, hσ, Bool.false_eq_true, ↓reduceIte, runSeq]
    rw [h1 f (by omega) σ hσ]
    simp only
    rw [seq_of_run (lr := .fail) hσ (h2 (f + 1) (by omega) σ hσ)]
    simp only [LRes.toRes]
  | choiceNil =>
    intro _; refine ⟨2, fun f hf σ hσ => ?_⟩
    obtain ⟨f, rfl⟩ : ∃ g, f = g + 2 := ⟨f - 2, by omega⟩
    simp only [run, hσ, Bool.false_eq_true, ↓reduceIte, runChoice]
  | choiceHit _ ih1 =>
    intro htf
    simp only [Term.tagFree, Term.tagFreeL, Bool.and_eq_true] at htf
    obtain ⟨f1, h1⟩ := ih1 htf.1
    refine ⟨f1 + 2, fun f hf σ hσ => ?_⟩
    obtain ⟨f, rfl⟩ : ∃ g, f = g + 2 := ⟨f - 2, by omega⟩
    simp only [run, hσ, Bool.false_eq_true, ↓reduceIte, runChoice]
    rw [h1 f (by omega) σ hσ]
  | choiceMiss _ _ ih1 ih2 =>
    intro htf
    simp only [Term.tagFree, Term.tagFreeL, Bool.and_eq_true] at htf
    obtain ⟨f1, h1⟩ := ih1 htf.1
    obtain ⟨f2, h2⟩ := ih2 (by simpa [Term.tagFree] using htf.2)
    refine ⟨f1 + f2 + 2, fun f hf σ hσ => ?_⟩
    obtain ⟨f, rfl⟩ : ∃ g, f = g + 2 := ⟨f - 2, by omega⟩
    have h2' := h2 (f + 1) (by omega) σ hσ
    simp only [run, hσ, Bool.false_eq_true, ↓reduceIte] at h2'
    simp only [run, hσ, Bool.false_eq_true, ↓reduceIte, runChoice]
    rw [h1 f (by omega) σ hσ]
    simp only
    exact h2'
  | starStop _ ih1 =>
    intro htf
    simp only [Term.tagFree] at htf
    obtain ⟨f1, h1⟩ := ih1 htf
    refine ⟨f1 + 2, fun f hf σ hσ => ?_⟩
    obtain ⟨f, rfl⟩ : ∃ g, f = g + 2 := ⟨f - 2, by omega⟩
    simp only [run, hσ, Bool.false_eq_true, ↓reduceIte, runMany]
    rw [h1 f (by omega) σ hσ]
    simp only [List.length_nil, Nat.lt_irrefl, ↓reduceIte]
  | starMore _ _ ih1 ih2 =>
    intro htf
    have htf' := htf
    simp only [Term.tagFree] at htf
    obtain ⟨f1, h1⟩ := ih1 htf
    obtain ⟨f2, h2⟩ := ih2 htf'
    refine ⟨f1 + f2 + 2, fun f hf σ hσ => ?_⟩
    obtain ⟨f, rfl⟩ : ∃ g, f = g + 2 := ⟨f - 2, by omega⟩
    simp only [run, hσ, Bool.false_eq_true, ↓reduceIte, runMany]
    rw [h1 f (by omega) σ hσ]
    simp only
    rw [many_of_run (lr := .ok _ _) hσ (h2 (f + 1) (by omega) σ hσ)]
    simp only [Nat.not_lt_zero, ↓reduceIte]
  | manyOk _ hn ih1 =>
    intro htf
    obtain ⟨f1, h1⟩ := ih1 (by simpa [Term.tagFree] using htf)
    refine ⟨f1 + 2, fun f hf σ hσ => ?_⟩
    obtain ⟨f, rfl⟩ : ∃ g, f = g + 1 := ⟨f - 1, by omega⟩
    simp only [run, hσ, Bool.false_eq_true, ↓reduceIte]
    rw [many_of_run (lr := .ok _ _) hσ (h1 (f + 1) (by omega) σ hσ)]
    simp only [hn, ↓reduceIte]
  | manyFail _ hn ih1 =>
    intro htf
    obtain ⟨f1, h1⟩ := ih1 (by simpa [Term.tagFree] using htf)
    refine ⟨f1 + 2, fun f hf σ hσ => ?_⟩
    obtain ⟨f, rfl⟩ : ∃ g, f = g + 1 := ⟨f - 1, by omega⟩
    simp only [run, hσ, Bool.false_eq_true, ↓reduceIte]
    rw [many_of_run (lr := .ok _ _) hσ (h1 (f + 1) (by omega) σ hσ)]
    simp only [hn, ↓reduceIte]
  | untilPred _ ih1 =>
    intro htf
    simp only [Term.tagFree, Bool.and_eq_true] at htf
    obtain ⟨f1, h1⟩ := ih1 htf.2
    refine ⟨f1 + 2, fun f hf σ hσ => ?_⟩
    obtain ⟨f, rfl⟩ : ∃ g, f = g + 2 := ⟨f - 2, by omega⟩
    simp only [run, hσ, Bool.false_eq_true, ↓reduceIte, runUntil]
    rw [h1 f (by omega) σ hσ]
    simp only [LRes.toRes]
  | untilStop _ _ ih1 ih2 =>
    intro htf
    simp only [Term.tagFree, Bool.and_eq_true] at htf
    obtain ⟨f1, h1⟩ := ih1 htf.2
    obtain ⟨f2, h2⟩ := ih2 htf.1
    refine ⟨f1 + f2 + 2, fun f hf σ hσ => ?_⟩
    obtain ⟨f, rfl⟩ : ∃ g, f = g + 2 := ⟨f - 2, by omega⟩
    simp only [run, hσ, Bool.false_eq_true, ↓reduceIte, runUntil]
    rw [h1 f (by omega) σ hσ]
    simp only
    rw [h2 f (by omega) σ hσ]
    simp only [LRes.toRes]
  | untilMore _ _ _ ih1 ih2 ih3 =>
    intro htf
    have htf' := htf
    simp only [Term.tagFree, Bool.and_eq_true] at htf
    obtain ⟨f1, h1⟩ := ih1 htf.2
    obtain ⟨f2, h2⟩ := ih2 htf.1
    obtain ⟨f3, h3⟩ := ih3 htf'
    refine ⟨f1 + f2 + f3 + 2, fun f hf σ hσ => ?_⟩
    obtain ⟨f, rfl⟩ : ∃ g, f = g + 2 := ⟨f - 2, by omega⟩
    simp only [run, hσ, Bool.false_eq_true, ↓reduceIte, runUntil]
    rw [h1 f (by omega) σ hσ]
    simp only
    rw [h2 f (by omega) σ hσ]
    simp only
    rw [until_of_run (lr := .ok _ _) hσ (h3 (f + 1) (by omega) σ hσ)]
    simp only [LRes.toRes]
  | optSome _ ih1 =>
    intro htf
    simp only [Term.tagFree] at htf
    obtain ⟨f1, h1⟩ := ih1 htf
    refine ⟨f1 + 1, fun f hf σ hσ => ?_⟩
    obtain ⟨f, rfl⟩ : ∃ g, f = g + 1 := ⟨f - 1, by omega⟩
    simp only [run, hσ, Bool.false_eq_true, ↓reduceIte]
    rw [h1 f (by omega) σ hσ]
  | optNone _ ih1 =>
    intro htf
    simp only [Term.tagFree] at htf
    obtain ⟨f1, h1⟩ := ih1 htf
    refine ⟨f1 + 1, fun f hf σ hσ => ?_⟩
    obtain ⟨f, rfl⟩ : ∃ g, f = g + 1 := ⟨f - 1, by omega⟩
    simp only [run, hσ, Bool.false_eq_true, ↓reduceIte]
    rw [h1 f (by omega) σ hσ]
  | fbOk _ _ ih1 ih2 | fbFailR _ _ ih1 ih2 | nfbOk _ _ ih1 ih2 | nfbHit _ _ ih1 ih2
  | klOk _ _ ih1 ih2 | klFailR _ _ ih1 ih2 | krOk _ _ ih1 ih2 =>
    intro htf
    simp only [Term.tagFree, Bool.and_eq_true] at htf
    obtain ⟨f1, h1⟩ := ih1 htf.1
    obtain ⟨f2, h2⟩ := ih2 htf.2
    refine ⟨f1 + f2 + 1, fun f hf σ hσ => ?_⟩
    obtain ⟨f, rfl⟩ : ∃ g, f = g + 1 := ⟨f - 1, by omega⟩
    simp only [run, hσ, Bool.false_eq_true, ↓reduceIte]
    rw [h1 f (by omega) σ hσ]
    simp only
    rw [h2 f (by omega) σ hσ]
  | fbFailL _ ih1 | nfbFail _ ih1 | klFailL _ ih1 | krFail _ ih1 =>
    intro htf
    simp only [Term.tagFree, Bool.and_eq_true] at htf
    obtain ⟨f1, h1⟩ := ih1 htf.1
    refine ⟨f1 + 1, fun f hf σ hσ => ?_⟩
    obtain ⟨f, rfl⟩ : ∃ g, f = g + 1 := ⟨f - 1, by omega⟩
    simp only [run, hσ, Bool.false_eq_true, ↓reduceIte]
    rw [h1 f (by omega) σ hσ]
  | mapOk _ hfn ih1 | mapBack _ hfn ih1 =>
    intro htf
    simp only [Term.tagFree] at htf
    obtain ⟨f1, h1⟩ := ih1 htf
    refine ⟨f1 + 1, fun f hf σ hσ => ?_⟩
    obtain ⟨f, rfl⟩ : ∃ g, f = g + 1 := ⟨f - 1, by omega⟩
    simp only [run, hσ, Bool.false_eq_true, ↓reduceIte]
    rw [h1 f (by omega) σ hσ]
    simp only [hfn]
  | mapFail _ ih1 =>
    intro htf
    simp only [Term.tagFree] at htf
    obtain ⟨f1, h1⟩ := ih1 htf
    refine ⟨f1 + 1, fun f hf σ hσ => ?_⟩
    obtain ⟨f, rfl⟩ : ∃ g, f = g + 1 := ⟨f - 1, by omega⟩
    simp only [run, hσ, Bool.false_eq_true, ↓reduceIte]
    rw [h1 f (by omega) σ hσ]
  | liftOk _ hfn ih1 | liftBack _ hfn ih1 =>
    intro htf
    simp only [Term.tagFree] at htf
    obtain ⟨f1, h1⟩ := ih1 (tagFree_seq htf)
    refine ⟨f1 + 2, fun f hf σ hσ => ?_⟩
    obtain ⟨f, rfl⟩ : ∃ g, f = g + 1 := ⟨f - 1, by omega⟩
    simp only [run, hσ, Bool.false_eq_true, ↓reduceIte]
    rw [seq_of_run (lr := .ok _ _) hσ (h1 (f + 1) (by omega) σ hσ)]
    simp only [hfn]
  | liftFail _ ih1 =>
    intro htf
    simp only [Term.tagFree] at htf
    obtain ⟨f1, h1⟩ := ih1 (tagFree_seq htf)
    refine ⟨f1 + 2, fun f hf σ hσ => ?_⟩
    obtain ⟨f, rfl⟩ : ∃ g, f = g + 1 := ⟨f - 1, by omega⟩
    simp only [run, hσ, Bool.false_eq_true, ↓reduceIte]
    rw [seq_of_run (lr := .fail) hσ (h1 (f + 1) (by omega) σ hσ)]
    simp only [LRes.toRes]
  | wrap _ ih1 =>
    intro htf
    simp only [Term.tagFree] at htf
    obtain ⟨f1, h1⟩ := ih1 htf
    refine ⟨f1 + 1, fun f hf σ hσ => ?_⟩
    obtain ⟨f, rfl⟩ : ∃ g, f = g + 1 := ⟨f - 1, by omega⟩
    simp only [run, hσ, Bool.false_eq_true, ↓reduceIte]
    rw [h1 f (by omega) σ hσ]
  | markOk _ ih1 | markFail _ ih1 =>
    intro htf
    simp only [Term.tagFree] at htf
    obtain ⟨f1, h1⟩ := ih1 htf
    refine ⟨f1 + 1, fun f hf σ hσ => ?_⟩
    obtain ⟨f, rfl⟩ : ∃ g, f = g + 1 := ⟨f - 1, by omega⟩
    simp only [run, hσ, Bool.false_eq_true, ↓reduceIte]
    rw [h1 f (by omega) σ hσ]
  | refOk hi _ ih1 =>
    intro _
    obtain ⟨f1, h1⟩ := ih1 (hR _ _ hi)
    refine ⟨f1 + 1, fun f hf σ hσ => ?_⟩
    obtain ⟨f, rfl⟩ : ∃ g, f = g + 1 := ⟨f - 1, by omega⟩
    simp only [run, hσ, Bool.false_eq_true, ↓reduceIte, hi]
    rw [h1 f (by omega) σ hσ]
  | refNone hi =>
    intro _; refine ⟨1, fun f hf σ hσ => ?_⟩
    obtain ⟨f, rfl⟩ : ∃ g, f = g + 1 := ⟨f - 1, by omega⟩
    simp only [run, hσ, Bool.false_eq_true, ↓reduceIte, hi]

/-! ### positions -/

/-- `b` is reached from `a` by moving forward inside the input (or not moving at all) -/
def Bnd (L a b : Nat) : Prop := a ≤ b ∧ (b = a ∨ b ≤ L)
/-- … and really forward when `c` holds -/
def Adv (L : Nat) (c : Bool) (a b : Nat) : Prop := Bnd L a b ∧ (c = true → a < b)

theorem Bnd.refl (L a : Nat) : Bnd L a a := ⟨Nat.le_refl _, Or.inl rfl⟩
theorem Bnd.trans {L a b c : Nat} (h1 : Bnd L a b) (h2 : Bnd L b c) : Bnd L a c := by
  unfold Bnd at *; omega
theorem Adv.refl (L a : Nat) : Adv L false a a := ⟨Bnd.refl L a, by simp⟩
theorem Adv.seq {L a b c : Nat} {c1 c2 : Bool} (h1 : Adv L c1 a b) (h2 : Adv L c2 b c) : Adv L (c1 || c2) a c := by
  refine ⟨Bnd.trans h1.1 h2.1, fun hc => ?_⟩
  have := h1.1.1; have := h2.1.1
  rcases Bool.or_eq_true _ _ ▸ hc with hc | hc
  · have := h1.2 hc; omega
  · have := h2.2 hc; omega
theorem Adv.weaken {L a b : Nat} {c c' : Bool} (h : Adv L c a b) (hc : c' = true → c = true) : Adv L c' a b :=
  ⟨h.1, fun h' => h.2 (hc h')⟩
theorem Adv.toFalse {L a b : Nat} {c : Bool} (h : Adv L c a b) : Adv L false a b := h.weaken (by simp)

theorem scanString_le_aux (cs es : Str) : ∀ (n : Nat) (l : Str), l.length ≤ n →
    (scanString cs es l).1 ≤ l.length ∧ (scanString cs es l).2.length ≤ (scanString cs es l).1 := by
  intro n
  induction n with
  | zero => intro l hl; cases l <;> simp_all [scanString]
  | succ n ih =>
    intro l hl
    match l with
    | [] => simp [scanString]
    | [c] => simp only [scanString]; split <;> simp
    | c :: d :: rest =>
      simp only [scanString]
      have h1 := ih rest (by simp at hl; omega)
      have h2 := ih (d :: rest) (by simp at hl; omega)
      split
      · simp; omega
      · split
        · simp at h2 ⊢; omega
        · simp

theorem scanString_le (cs es : Str) (l : Str) :
    (scanString cs es l).1 ≤ l.length ∧ (scanString cs es l).2.length ≤ (scanString cs es l).1 :=
  scanString_le_aux cs es l.length l (Nat.le_refl _)

theorem matchLit_len (ic : Bool) (cs l txt : Str) (h : matchLit ic cs l = some txt) : cs.length ≤ l.length := by
  induction cs generalizing l txt with
  | nil => simp
  | cons c cs ih =>
    cases l with
    | nil => simp [matchLit] at h
    | cons d ds =>
      simp only [matchLit] at h
      by_cases hc : (if ic = true then lowerAscii d else d) = c
      · rw [if_pos hc] at h
        cases hm : matchLit ic cs ds with
        | none => simp [hm] at h
        | some t => have := ih ds t hm; simp; omega
      · rw [if_neg hc] at h; simp at h

theorem prim_adv {inp : Str} {pos q : Nat} {v : Val} {p : Prim} (h : p.run inp pos = some (q, v)) :
    Adv inp.length p.consuming pos q := by
  cases p with
  | anyChar =>
    simp only [Prim.run] at h
    split at h
    · rename_i c hc; have := (List.getElem?_eq_some_iff.mp hc).1; simp at h; unfold Adv Bnd; simp [Prim.consuming]; omega
    · simp at h
  | char c =>
    simp only [Prim.run] at h
    split at h
    · rename_i hc; have := (List.getElem?_eq_some_iff.mp hc).1; simp at h; unfold Adv Bnd; simp [Prim.consuming]; omega
    · simp at h
  | inSet cs =>
    simp only [Prim.run] at h
    split at h
    · rename_i c hc; have := (List.getElem?_eq_some_iff.mp hc).1
      split at h
      · simp at h; unfold Adv Bnd; simp [Prim.consuming]; omega
      · simp at h
    · simp at h
  | string cs es m =>
    simp only [Prim.run] at h
    have := scanString_le cs es (inp.drop pos)
    split at h
    · simp at h
    · simp at h; simp [List.length_drop] at this; unfold Adv Bnd; simp [Prim.consuming]; omega
  | literal cs value ic =>
    simp only [Prim.run] at h
    split at h
    · rename_i txt hm
      have := matchLit_len ic cs _ txt hm
      simp at h; simp [List.length_drop] at this; unfold Adv Bnd; simp [Prim.consuming]
      cases cs with
      | nil => simp; omega
      | cons c cs => simp at *; omega
    · simp at h
  | eof =>
    simp only [Prim.run] at h
    split at h
    · simp at h
    · simp at h; unfold Adv Bnd; simp [Prim.consuming]; omega

/-- Positions: every successful parser moves forward inside the input, strictly forward when the
term is syntactically consuming. -/
theorem adv_all (rules : List Term) (inp : Str) : ∀ f,
    (∀ t pos σ p v σ', run rules inp f t pos σ = (.ok p v, σ') → Adv inp.length t.consuming pos p) ∧
    (∀ ts pos σ p vs σ', runSeq rules inp f ts pos σ = (.ok p vs, σ') → Adv inp.length (Term.consumingAny ts) pos p) ∧
    (∀ ts pos σ p v σ', runChoice rules inp f ts pos σ = (.ok p v, σ') → Adv inp.length (Term.consumingAll ts) pos p) ∧
    (∀ t pos σ p vs σ', runMany rules inp f t pos σ = (.ok p vs, σ') →
        Bnd inp.length pos p ∧ (t.consuming = true → 1 ≤ vs.length → pos < p)) ∧
    (∀ t pr pos σ p vs σ', runUntil rules inp f t pr pos σ = (.ok p vs, σ') → Bnd inp.length pos p) := by
  intro f
  induction f with
  | zero => refine ⟨?_, ?_, ?_, ?_, ?_⟩ <;> intros <;> simp_all [run, runSeq, runChoice, runMany, runUntil]
  | succ f ih =>
    obtain ⟨ihR, ihS, ihC, ihM, ihU⟩ := ih
    refine ⟨?_, ?_, ?_, ?_, ?_⟩
    · intro t pos σ p v σ' h
      by_cases hσ : σ.ferr = true
      · have : run rules inp (f + 1) t pos σ = (.fail, σ) := by cases t <;> simp [run, hσ]
        rw [this] at h; cases h
      replace hσ : σ.ferr = false := by simpa using hσ
      cases t with
      | prim pr =>
        simp only [run, hσ, Bool.false_eq_true, ↓reduceIte] at h
        cases hp : pr.run inp pos with
        | none => rw [hp] at h; cases h
        | some qv => obtain ⟨q, w⟩ := qv; rw [hp] at h; cases h; exact prim_adv hp
      | seq ts =>
        simp only [run, hσ, Bool.false_eq_true, ↓reduceIte] at h
        rcases hs : runSeq rules inp f ts pos σ with ⟨_ | _ | _, σ1⟩ <;> rw [hs] at h <;> simp only [LRes.toRes] at h <;> cases h
        exact ihS _ _ _ _ _ _ hs
      | choice ts =>
        simp only [run, hσ, Bool.false_eq_true, ↓reduceIte] at h
        exact ihC _ _ _ _ _ _ h
      | many t lower =>
        simp only [run, hσ, Bool.false_eq_true, ↓reduceIte] at h
        rcases hm : runMany rules inp f t pos σ with ⟨_ | _ | _, σ1⟩ <;> rw [hm] at h <;> simp only [LRes.toRes] at h
        · split at h <;> cases h
          have := ihM _ _ _ _ _ _ hm
          refine ⟨this.1, fun hc => ?_⟩
          simp only [Term.consuming, Bool.and_eq_true, decide_eq_true_eq] at hc
          exact this.2 hc.2 (by omega)
        all_goals cases h
      | «until» t pr =>
        simp only [run, hσ, Bool.false_eq_true, ↓reduceIte] at h
        rcases hs : runUntil rules inp f t pr pos σ with ⟨_ | _ | _, σ1⟩ <;> rw [hs] at h <;> simp only [LRes.toRes] at h <;> cases h
        exact ⟨ihU _ _ _ _ _ _ _ hs, by simp [Term.consuming]⟩
      | opt t d =>
        simp only [run, hσ, Bool.false_eq_true, ↓reduceIte] at h
        rcases ha : run rules inp f t pos σ with ⟨_ | _ | _, σ1⟩ <;> rw [ha] at h <;> simp only at h <;> cases h
        · exact (ihR _ _ _ _ _ _ ha).toFalse
        · exact Adv.refl _ _
      | followedBy a b =>
        simp only [run, hσ, Bool.false_eq_true, ↓reduceIte] at h
        rcases ha : run rules inp f a pos σ with ⟨_ | _ | _, σ1⟩ <;> rw [ha] at h <;> simp only at h
        · rcases hb : run rules inp f b _ σ1 with ⟨_ | _ | _, σ2⟩ <;> rw [hb] at h <;> simp only at h <;> cases h
          simpa only [Term.consuming] using ihR _ _ _ _ _ _ ha
        all_goals cases h
      | notFollowedBy a b =>
        simp only [run, hσ, Bool.false_eq_true, ↓reduceIte] at h
        rcases ha : run rules inp f a pos σ with ⟨_ | _ | _, σ1⟩ <;> rw [ha] at h <;> simp only at h
        · rcases hb : run rules inp f b _ σ1 with ⟨_ | _ | _, σ2⟩ <;> rw [hb] at h <;> simp only at h <;> cases h
          simpa only [Term.consuming] using ihR _ _ _ _ _ _ ha
        all_goals cases h
      | keepLeft a b =>
        simp only [run, hσ, Bool.false_eq_true, ↓reduceIte] at h
        rcases ha : run rules inp f a pos σ with ⟨_ | _ | _, σ1⟩ <;> rw [ha] at h <;> simp only at h
        · rcases hb : run rules inp f b _ σ1 with ⟨_ | _ | _, σ2⟩ <;> rw [hb] at h <;> simp only at h <;> cases h
          exact Adv.seq (ihR _ _ _ _ _ _ ha) (ihR _ _ _ _ _ _ hb)
        all_goals cases h
      | keepRight a b =>
        simp only [run, hσ, Bool.false_eq_true, ↓reduceIte] at h
        rcases ha : run rules inp f a pos σ with ⟨_ | _ | _, σ1⟩ <;> rw [ha] at h <;> simp only at h
        · exact Adv.seq (ihR _ _ _ _ _ _ ha) (ihR _ _ _ _ _ _ h)
        all_goals cases h
      | map t fn =>
        simp only [run, hσ, Bool.false_eq_true, ↓reduceIte] at h
        rcases ha : run rules inp f t pos σ with ⟨_ | _ | _, σ1⟩ <;> rw [ha] at h <;> simp only at h
        · split at h <;> cases h
          simpa only [Term.consuming] using ihR _ _ _ _ _ _ ha
        all_goals cases h
      | lift fn ts =>
        simp only [run, hσ, Bool.false_eq_true, ↓reduceIte] at h
        rcases hs : runSeq rules inp f ts pos σ with ⟨_ | _ | _, σ1⟩ <;> rw [hs] at h <;> simp only [LRes.toRes] at h
        · split at h <;> cases h
          exact ihS _ _ _ _ _ _ hs
        all_goals cases h
      | wrapper t =>
        simp only [run, hσ, Bool.false_eq_true, ↓reduceIte] at h
        simpa only [Term.consuming] using ihR _ _ _ _ _ _ h
      | ref i =>
        simp only [run, hσ, Bool.false_eq_true, ↓reduceIte] at h
        cases hi : rules[i]? with
        | none => rw [hi] at h; cases h
        | some t => rw [hi] at h; exact (ihR _ _ _ _ _ _ h).toFalse
      | startTag t =>
        simp only [run, hσ, Bool.false_eq_true, ↓reduceIte] at h
        rcases ha : run rules inp f t pos σ with ⟨_ | _ | _, σ1⟩ <;> rw [ha] at h <;> simp only at h <;> cases h
        simpa only [Term.consuming] using ihR _ _ _ _ _ _ ha
      | mark t =>
        simp only [run, hσ, Bool.false_eq_true, ↓reduceIte] at h
        rcases ha : run rules inp f t pos σ with ⟨_ | _ | _, σ1⟩ <;> rw [ha] at h <;> simp only at h <;> cases h
        simpa only [Term.consuming] using ihR _ _ _ _ _ _ ha
      | endTag t ic =>
        simp only [run, hσ, Bool.false_eq_true, ↓reduceIte] at h
        rcases ha : run rules inp f t pos σ with ⟨_ | _ | _, σ1⟩ <;> rw [ha] at h <;> simp only at h
        · split at h
          · cases h
          · split at h <;> cases h
            simpa only [Term.consuming] using ihR _ _ _ _ _ _ ha
        all_goals cases h
    · intro ts pos σ p vs σ' h
      cases ts with
      | nil => simp only [runSeq] at h; cases h; exact Adv.refl _ _
      | cons t ts =>
        simp only [runSeq] at h
        rcases ha : run rules inp f t pos σ with ⟨_ | _ | _, σ1⟩ <;> rw [ha] at h <;> simp only at h
        · rcases hb : runSeq rules inp f ts _ σ1 with ⟨_ | _ | _, σ2⟩ <;> rw [hb] at h <;> simp only at h <;> cases h
          exact Adv.seq (ihR _ _ _ _ _ _ ha) (ihS _ _ _ _ _ _ hb)
        all_goals cases h
    · intro ts pos σ p v σ' h
      cases ts with
      | nil => simp only [runChoice] at h; cases h
      | cons t ts =>
        simp only [runChoice] at h
        rcases ha : run rules inp f t pos σ with ⟨_ | _ | _, σ1⟩ <;> rw [ha] at h <;> simp only at h
        · cases h; exact (ihR _ _ _ _ _ _ ha).weaken (by simp [Term.consumingAll]; intro a _; exact a)
        · exact (ihC _ _ _ _ _ _ h).weaken (by simp [Term.consumingAll])
        · cases h
    · intro t pos σ p vs σ' h
      simp only [runMany] at h
      rcases ha : run rules inp f t pos σ with ⟨_ | _ | _, σ1⟩ <;> rw [ha] at h <;> simp only at h
      · rcases hb : runMany rules inp f t _ σ1 with ⟨_ | _ | _, σ2⟩ <;> rw [hb] at h <;> simp only at h <;> cases h
        have h1 := ihR _ _ _ _ _ _ ha
        have h2 := ihM _ _ _ _ _ _ hb
        refine ⟨Bnd.trans h1.1 h2.1, fun hc _ => ?_⟩
        have := h1.2 hc; have := h2.1.1; omega
      · cases h; exact ⟨Bnd.refl _ _, by simp⟩
      · cases h
    · intro t pr pos σ p vs σ' h
      simp only [runUntil] at h
      rcases hp : run rules inp f pr pos σ with ⟨_ | _ | _, σ1⟩ <;> rw [hp] at h <;> simp only at h
      · cases h; exact Bnd.refl _ _
      · rcases ha : run rules inp f t pos σ1 with ⟨_ | _ | _, σ2⟩ <;> rw [ha] at h <;> simp only at h
        · rcases hb : runUntil rules inp f t pr _ σ2 with ⟨_ | _ | _, σ3⟩ <;> rw [hb] at h <;> simp only at h <;> cases h
          exact Bnd.trans (ihR _ _ _ _ _ _ ha).1 (ihU _ _ _ _ _ _ _ hb)
        · cases h; exact Bnd.refl _ _
        · cases h
      · cases h

/-! ### termination: a fuel computed from the grammar and the remaining input suffices -/

/-- fuel `k` suffices for every Forward at the positions the mode allows: not more input left
(`g = true`) / strictly less input left (`g = false`) than at `pos` -/
def RefOK (rules : List Term) (inp : Str) (k : Nat) (g : Bool) (pos : Nat) : Prop :=
  ∀ (i pos' : Nat) (σ : St) (f : Nat),
    (if g = true then inp.length - pos' ≤ inp.length - pos else inp.length - pos' < inp.length - pos) →
    k ≤ f → (run rules inp f (.ref i) pos' σ).1 ≠ .diverge

theorem RefOK.step {rules : List Term} {inp : Str} {k : Nat} {g c : Bool} {pos p : Nat}
    (h : RefOK rules inp k g pos) (ha : Adv inp.length c pos p) : RefOK rules inp k (g || c) p := by
  intro i pos' σ f hc hk
  apply h i pos' σ f ?_ hk
  obtain ⟨⟨h1, h2⟩, h3⟩ := ha
  cases g <;> cases c <;> simp at hc h3 ⊢ <;> omega

/-- the `while True` loop of Many terminates: every iteration but the last consumes -/
theorem many_nd (rules : List Term) (inp : Str) (k n : Nat) (t : Term) (hc : t.consuming = true)
    (H : ∀ (g : Bool) (pos : Nat) (σ : St) (f : Nat), t.wf g = true → RefOK rules inp k g pos → inp.length - pos ≤ n →
      t.cost k n ≤ f → (run rules inp f t pos σ).1 ≠ .diverge) (hwt : t.wf true = true) :
    ∀ (j : Nat) (g : Bool) (pos : Nat) (σ : St) (f : Nat), t.wf g = true → RefOK rules inp k g pos →
      inp.length - pos ≤ j → j ≤ n → j + 1 + t.cost k n ≤ f → (runMany rules inp f t pos σ).1 ≠ .diverge := by
  intro j
  induction j with
  | zero =>
    intro g pos σ f hwg href hj hjn hf
    obtain ⟨f, rfl⟩ : ∃ f', f = f' + 1 := ⟨f - 1, by omega⟩
    simp only [runMany]
    have h := H g pos σ f hwg href (by omega) (by omega)
    cases hr : run rules inp f t pos σ with
    | mk r σ1 =>
      rw [hr] at h
      cases r with
      | ok p v =>
        have hadv := (adv_all rules inp f).1 _ _ _ _ _ _ hr
        have := hadv.2 hc; have := hadv.1.2; omega
      | fail => simp
      | diverge => exact absurd rfl h
  | succ j ih =>
    intro g pos σ f hwg href hj hjn hf
    obtain ⟨f, rfl⟩ : ∃ f', f = f' + 1 := ⟨f - 1, by omega⟩
    simp only [runMany]
    have h := H g pos σ f hwg href (by omega) (by omega)
    cases hr : run rules inp f t pos σ with
    | mk r σ1 =>
      rw [hr] at h
      cases r with
      | ok p v =>
        have hadv := (adv_all rules inp f).1 _ _ _ _ _ _ hr
        have h1 := hadv.2 hc; have h2 := hadv.1.2
        have href' : RefOK rules inp k true p := by simpa using href.step (hadv.weaken (c' := true) (fun _ => hc))
        have h3 := ih true p σ1 f hwt href' (by omega) (by omega) (by omega)
        simp only []
        revert h3
        cases runMany rules inp f t p σ1 with
        | mk lr σ2 => cases lr <;> simp
      | fail => simp
      | diverge => exact absurd rfl h

/-- the `while True` loop of Until terminates -/
theorem until_nd (rules : List Term) (inp : Str) (k n : Nat) (t pr : Term) (hc : t.consuming = true)
    (H : ∀ (g : Bool) (pos : Nat) (σ : St) (f : Nat), t.wf g = true → RefOK rules inp k g pos → inp.length - pos ≤ n →
      t.cost k n ≤ f → (run rules inp f t pos σ).1 ≠ .diverge)
    (Hp : ∀ (g : Bool) (pos : Nat) (σ : St) (f : Nat), pr.wf g = true → RefOK rules inp k g pos → inp.length - pos ≤ n →
      pr.cost k n ≤ f → (run rules inp f pr pos σ).1 ≠ .diverge)
    (hwt : t.wf true = true) (hwp : pr.wf true = true) :
    ∀ (j : Nat) (g : Bool) (pos : Nat) (σ : St) (f : Nat), t.wf g = true → pr.wf g = true → RefOK rules inp k g pos →
      inp.length - pos ≤ j → j ≤ n → j + 1 + t.cost k n + pr.cost k n ≤ f →
      (runUntil rules inp f t pr pos σ).1 ≠ .diverge := by
  intro j
  induction j with
  | zero =>
    intro g pos σ f hwg hwpg href hj hjn hf
    obtain ⟨f, rfl⟩ : ∃ f', f = f' + 1 := ⟨f - 1, by omega⟩
    simp only [runUntil]
    have hp := Hp g pos σ f hwpg href (by omega) (by omega)
    cases hrp : run rules inp f pr pos σ with
    | mk rp σ0 =>
      rw [hrp] at hp
      cases rp with
      | ok _ _ => simp
      | diverge => exact absurd rfl hp
      | fail =>
        simp only []
        have h := H g pos σ0 f hwg href (by omega) (by omega)
        cases hr : run rules inp f t pos σ0 with
        | mk r σ1 =>
          rw [hr] at h
          cases r with
          | ok p v =>
            have hadv := (adv_all rules inp f).1 _ _ _ _ _ _ hr
            have := hadv.2 hc; have := hadv.1.2; omega
          | fail => simp
          | diverge => exact absurd rfl h
  | succ j ih =>
    intro g pos σ f hwg hwpg href hj hjn hf
    obtain ⟨f, rfl⟩ : ∃ f', f = f' + 1 := ⟨f - 1, by omega⟩
    simp only [runUntil]
    have hp := Hp g pos σ f hwpg href (by omega) (by omega)
    cases hrp : run rules inp f pr pos σ with
    | mk rp σ0 =>
      rw [hrp] at hp
      cases rp with
      | ok _ _ => simp
      | diverge => exact absurd rfl hp
      | fail =>
        simp only []
        have h := H g pos σ0 f hwg href (by omega) (by omega)
        cases hr : run rules inp f t pos σ0 with
        | mk r σ1 =>
          rw [hr] at h
          cases r with
          | ok p v =>
            have hadv := (adv_all rules inp f).1 _ _ _ _ _ _ hr
            have h1 := hadv.2 hc; have h2 := hadv.1.2
            have href' : RefOK rules inp k true p := by simpa using href.step (hadv.weaken (c' := true) (fun _ => hc))
            have h3 := ih true p σ1 f hwt hwp href' (by omega) (by omega) (by omega)
            simp only []
            revert h3
            cases runUntil rules inp f t pr p σ1 with
            | mk lr σ2 => cases lr <;> simp
          | fail => simp
          | diverge => exact absurd rfl h

theorem Term.size_pos (t : Term) : 1 ≤ t.size := by cases t <;> simp only [Term.size] <;> omega

set_option hygiene false in
macro "nd_pre" : tactic => `(tactic| (
  simp only [Term.size] at hs
  simp only [Term.cost] at hf
  simp only [Term.wf, Bool.and_eq_true] at hwf
  obtain ⟨f, rfl⟩ : ∃ f', f = f' + 1 := ⟨f - 1, by omega⟩
  simp only [run]
  split
  · simp))

/-- Main lemma, by induction on the size of the term: with `k` sufficient for the Forwards that
can be reached, `cost k n t` suffices for `t`. -/
theorem nd_all (rules : List Term) (inp : Str) (k n : Nat) : ∀ s,
    (∀ t : Term, t.size ≤ s → ∀ (g : Bool) (pos : Nat) (σ : St) (f : Nat), t.wf g = true → RefOK rules inp k g pos →
        inp.length - pos ≤ n → t.cost k n ≤ f → (run rules inp f t pos σ).1 ≠ .diverge) ∧
    (∀ ts : List Term, Term.sizeL ts ≤ s → ∀ (g : Bool) (pos : Nat) (σ : St) (f : Nat), Term.wfSeq g ts = true →
        RefOK rules inp k g pos → inp.length - pos ≤ n → Term.costL k n ts ≤ f →
        (runSeq rules inp f ts pos σ).1 ≠ .diverge) ∧
    (∀ ts : List Term, Term.sizeL ts ≤ s → ∀ (g : Bool) (pos : Nat) (σ : St) (f : Nat), Term.wfAll g ts = true →
        RefOK rules inp k g pos → inp.length - pos ≤ n → Term.costL k n ts ≤ f →
        (runChoice rules inp f ts pos σ).1 ≠ .diverge) := by
  intro s
  induction s with
  | zero =>
    refine ⟨?_, ?_, ?_⟩
    · intro t hs; have := t.size_pos; omega
    · intro ts hs g pos σ f _ _ _ hf
      cases ts with
      | nil =>
        simp only [Term.costL] at hf
        obtain ⟨f, rfl⟩ : ∃ f', f = f' + 1 := ⟨f - 1, by omega⟩
        simp [runSeq]
      | cons t ts => simp only [Term.sizeL] at hs; omega
    · intro ts hs g pos σ f _ _ _ hf
      cases ts with
      | nil =>
        simp only [Term.costL] at hf
        obtain ⟨f, rfl⟩ : ∃ f', f = f' + 1 := ⟨f - 1, by omega⟩
        simp [runChoice]
      | cons t ts => simp only [Term.sizeL] at hs; omega
  | succ s ih =>
    obtain ⟨ihR, ihS, ihC⟩ := ih
    refine ⟨?_, ?_, ?_⟩
    · intro t hs g pos σ f hwf href hn hf
      cases t with
      | prim p => nd_pre; split <;> simp
      | seq ts =>
        nd_pre
        have h := ihS ts (by omega) g pos σ f hwf href hn (by omega)
        revert h
        cases runSeq rules inp f ts pos σ with
        | mk lr σ1 => cases lr <;> simp [LRes.toRes]
      | choice ts =>
        nd_pre
        exact ihC ts (by omega) g pos σ f hwf href hn (by omega)
      | many t lower =>
        nd_pre
        have h := many_nd rules inp k n t hwf.1.1 (ihR t (by omega)) hwf.2 n g pos σ f hwf.1.2 href hn (Nat.le_refl _) (by omega)
        revert h
        cases runMany rules inp f t pos σ with
        | mk lr σ1 =>
          cases lr with
          | ok p vs => intro _; simp only []; split <;> simp
          | fail => simp [LRes.toRes]
          | diverge => simp
      | «until» t pr =>
        nd_pre
        have h := until_nd rules inp k n t pr hwf.1.1.1.1 (ihR t (by omega)) (ihR pr (by omega)) hwf.1.1.2 hwf.2
          n g pos σ f hwf.1.1.1.2 hwf.1.2 href hn (Nat.le_refl _) (by omega)
        revert h
        cases runUntil rules inp f t pr pos σ with
        | mk lr σ1 => cases lr <;> simp [LRes.toRes]
      | opt t d =>
        nd_pre
        have h := ihR t (by omega) g pos σ f hwf href hn (by omega)
        revert h
        cases run rules inp f t pos σ with
        | mk r σ1 => cases r <;> simp
      | followedBy a b =>
        nd_pre
        have ha := ihR a (by omega) g pos σ f hwf.1 href hn (by omega)
        cases hr : run rules inp f a pos σ with
        | mk r σ1 =>
          rw [hr] at ha
          cases r with
          | ok p v =>
            have hadv := (adv_all rules inp f).1 _ _ _ _ _ _ hr
            have hb := ihR b (by omega) (g || a.consuming) p σ1 f hwf.2 (href.step hadv) (by have := hadv.1.1; omega) (by omega)
            simp only []
            revert hb
            cases run rules inp f b p σ1 with
            | mk r2 σ2 => cases r2 <;> simp
          | fail => simp
          | diverge => exact absurd rfl ha
      | notFollowedBy a b =>
        nd_pre
        have ha := ihR a (by omega) g pos σ f hwf.1 href hn (by omega)
        cases hr : run rules inp f a pos σ with
        | mk r σ1 =>
          rw [hr] at ha
          cases r with
          | ok p v =>
            have hadv := (adv_all rules inp f).1 _ _ _ _ _ _ hr
            have hb := ihR b (by omega) (g || a.consuming) p σ1 f hwf.2 (href.step hadv) (by have := hadv.1.1; omega) (by omega)
            simp only []
            revert hb
            cases run rules inp f b p σ1 with
            | mk r2 σ2 => cases r2 <;> simp
          | fail => simp
          | diverge => exact absurd rfl ha
      | keepLeft a b =>
        nd_pre
        have ha := ihR a (by omega) g pos σ f hwf.1 href hn (by omega)
        cases hr : run rules inp f a pos σ with
        | mk r σ1 =>
          rw [hr] at ha
          cases r with
          | ok p v =>
            have hadv := (adv_all rules inp f).1 _ _ _ _ _ _ hr
            have hb := ihR b (by omega) (g || a.consuming) p σ1 f hwf.2 (href.step hadv) (by have := hadv.1.1; omega) (by omega)
            simp only []
            revert hb
            cases run rules inp f b p σ1 with
            | mk r2 σ2 => cases r2 <;> simp
          | fail => simp
          | diverge => exact absurd rfl ha
      | keepRight a b =>
        nd_pre
        have ha := ihR a (by omega) g pos σ f hwf.1 href hn (by omega)
        cases hr : run rules inp f a pos σ with
        | mk r σ1 =>
          rw [hr] at ha
          cases r with
          | ok p v =>
            have hadv := (adv_all rules inp f).1 _ _ _ _ _ _ hr
            exact ihR b (by omega) (g || a.consuming) p σ1 f hwf.2 (href.step hadv) (by have := hadv.1.1; omega) (by omega)
          | fail => simp
          | diverge => exact absurd rfl ha
      | map t fn =>
        nd_pre
        have h := ihR t (by omega) g pos σ f hwf href hn (by omega)
        revert h
        cases run rules inp f t pos σ with
        | mk r σ1 =>
          cases r with
          | ok p v => intro _; simp only []; split <;> simp
          | fail => simp
          | diverge => simp
      | lift fn ts =>
        nd_pre
        have h := ihS ts (by omega) g pos σ f hwf href hn (by omega)
        revert h
        cases runSeq rules inp f ts pos σ with
        | mk lr σ1 =>
          cases lr with
          | ok p vs => intro _; simp only []; split <;> simp
          | fail => simp [LRes.toRes]
          | diverge => simp
      | wrapper t =>
        nd_pre
        exact ihR t (by omega) g pos σ f hwf href hn (by omega)
      | ref i =>
        simp only [Term.wf] at hwf
        simp only [Term.cost] at hf
        exact href i pos σ f (by simp [hwf]) (by omega)
      | startTag t =>
        nd_pre
        have h := ihR t (by omega) g pos σ f hwf href hn (by omega)
        revert h
        cases run rules inp f t pos σ with
        | mk r σ1 => cases r <;> simp
      | mark t =>
        nd_pre
        have h := ihR t (by omega) g pos σ f hwf href hn (by omega)
        revert h
        cases run rules inp f t pos σ with
        | mk r σ1 => cases r <;> simp
      | endTag t ic =>
        nd_pre
        have h := ihR t (by omega) g pos σ f hwf href hn (by omega)
        revert h
        cases run rules inp f t pos σ with
        | mk r σ1 =>
          cases r with
          | ok p v => intro _; simp only []; split; · simp
                      split <;> simp
          | fail => simp
          | diverge => simp
    · intro ts hs g pos σ f hwf href hn hf
      cases ts with
      | nil =>
        simp only [Term.costL] at hf
        obtain ⟨f, rfl⟩ : ∃ f', f = f' + 1 := ⟨f - 1, by omega⟩
        simp [runSeq]
      | cons t ts =>
        simp only [Term.sizeL] at hs
        simp only [Term.costL] at hf
        simp only [Term.wfSeq, Bool.and_eq_true] at hwf
        obtain ⟨f, rfl⟩ : ∃ f', f = f' + 1 := ⟨f - 1, by omega⟩
        simp only [runSeq]
        have ha := ihR t (by omega) g pos σ f hwf.1 href hn (by omega)
        cases hr : run rules inp f t pos σ with
        | mk r σ1 =>
          rw [hr] at ha
          cases r with
          | ok p v =>
            have hadv := (adv_all rules inp f).1 _ _ _ _ _ _ hr
            have hb := ihS ts (by omega) (g || t.consuming) p σ1 f hwf.2 (href.step hadv) (by have := hadv.1.1; omega) (by omega)
            simp only []
            revert hb
            cases runSeq rules inp f ts p σ1 with
            | mk lr σ2 => cases lr <;> simp
          | fail => simp
          | diverge => exact absurd rfl ha
    · intro ts hs g pos σ f hwf href hn hf
      cases ts with
      | nil =>
        simp only [Term.costL] at hf
        obtain ⟨f, rfl⟩ : ∃ f', f = f' + 1 := ⟨f - 1, by omega⟩
        simp [runChoice]
      | cons t ts =>
        simp only [Term.sizeL] at hs
        simp only [Term.costL] at hf
        simp only [Term.wfAll, Bool.and_eq_true] at hwf
        obtain ⟨f, rfl⟩ : ∃ f', f = f' + 1 := ⟨f - 1, by omega⟩
        simp only [runChoice]
        have ha := ihR t (by omega) g pos σ f hwf.1 href hn (by omega)
        cases hr : run rules inp f t pos σ with
        | mk r σ1 =>
          rw [hr] at ha
          cases r with
          | ok p v => simp
          | fail => exact ihC ts (by omega) g pos σ1 f hwf.2 href hn (by omega)
          | diverge => exact absurd rfl ha

theorem cost_le_sumCost (k n : Nat) : ∀ (rules : List Term) (i : Nat) (b : Term), rules[i]? = some b →
    b.cost k n ≤ sumCost k n rules := by
  intro rules
  induction rules with
  | nil => intro i b h; simp at h
  | cons r rs ih =>
    intro i b h
    cases i with
    | zero => simp at h; subst h; simp only [sumCost]; omega
    | succ i => simp at h; have := ih i b h; simp only [sumCost]; omega

/-- `refFuel rules n r` suffices for every Forward wherever at most `r` characters remain -/
theorem refs_ok (rules : List Term) (inp : Str) (n : Nat)
    (hrules : ∀ (i : Nat) (b : Term), rules[i]? = some b → b.wf false = true) :
    ∀ (r : Nat) (i pos : Nat) (σ : St) (f : Nat), inp.length - pos ≤ r → r ≤ n → refFuel rules n r ≤ f →
      (run rules inp f (.ref i) pos σ).1 ≠ .diverge := by
  intro r
  induction r with
  | zero =>
    intro i pos σ f hr hrn hf
    simp only [refFuel] at hf
    obtain ⟨f, rfl⟩ : ∃ f', f = f' + 1 := ⟨f - 1, by omega⟩
    simp only [run]
    split
    · simp
    · cases hi : rules[i]? with
      | none => simp
      | some b =>
        simp only []
        have hc := cost_le_sumCost 0 n rules i b hi
        refine (nd_all rules inp 0 n b.size).1 b (Nat.le_refl _) false pos σ f (hrules i b hi) ?_ (by omega) (by omega)
        intro i' pos' σ' f' hlt _
        simp at hlt; omega
  | succ r ih =>
    intro i pos σ f hr hrn hf
    simp only [refFuel] at hf
    obtain ⟨f, rfl⟩ : ∃ f', f = f' + 1 := ⟨f - 1, by omega⟩
    simp only [run]
    split
    · simp
    · cases hi : rules[i]? with
      | none => simp
      | some b =>
        simp only []
        have hc := cost_le_sumCost (refFuel rules n r) n rules i b hi
        refine (nd_all rules inp (refFuel rules n r) n b.size).1 b (Nat.le_refl _) false pos σ f (hrules i b hi) ?_
          (by omega) (by omega)
        intro i' pos' σ' f' hlt hk
        simp at hlt
        exact ih i' pos' σ' f' (by omega) (by omega) hk

theorem wellFormed_rules {rules : List Term} {t : Term} (h : WellFormed rules t = true) :
    ∀ (i : Nat) (b : Term), rules[i]? = some b → b.wf false = true := by
  intro i b hi
  simp only [WellFormed, Bool.and_eq_true, List.all_eq_true] at h
  exact h.2 b (List.mem_of_getElem? hi)

theorem no_divergence_aux (rules : List Term) (inp : Str) (t : Term) (h : WellFormed rules t = true)
    (n pos : Nat) (σ : St) (f : Nat) (hn : inp.length - pos ≤ n) (hf : bound rules t n ≤ f) :
    (run rules inp f t pos σ).1 ≠ .diverge := by
  have hr := wellFormed_rules h
  simp only [WellFormed, Bool.and_eq_true] at h
  refine (nd_all rules inp (refFuel rules n n) n t.size).1 t (Nat.le_refl _) true pos σ f h.1 ?_ hn hf
  intro i pos' σ' f' hle hk
  simp at hle
  exact refs_ok rules inp n hr n i pos' σ' f' (by omega) (Nat.le_refl _) hk

/-! ### the grammar-building operators `+` and `|` -/

theorem Ev.ne_diverge {rules : List Term} {inp : Str} {t : Term} {pos : Nat} {r : Res}
    (h : Ev rules inp t pos r) : r ≠ .diverge := by
  induction h <;> simp_all

theorem ev_seq_val {rules : List Term} {inp : Str} {xs : List Term} {pos p : Nat} {v : Val}
    (h : Ev rules inp (.seq xs) pos (.ok p v)) : ∃ vs, v = .list vs := by
  cases h <;> exact ⟨_, rfl⟩

/-- a sequence extended on the right: the new element's value is appended to the list -/
theorem ev_seq_snoc_ok {rules : List Term} {inp : Str} {y : Term} {q : Nat} {w : Val} :
    ∀ {xs : List Term} {pos p : Nat} {vs : List Val}, Ev rules inp (.seq xs) pos (.ok p (.list vs)) →
      Ev rules inp y p (.ok q w) → Ev rules inp (.seq (xs ++ [y])) pos (.ok q (.list (vs ++ [w]))) := by
  intro xs
  induction xs with
  | nil => intro pos p vs h1 h2; cases h1; exact .seqCons h2 .seqNil
  | cons x xs ih =>
    intro pos p vs h1 h2
    cases h1 with
    | seqCons hx hrest => exact .seqCons hx (ih hrest h2)

theorem ev_seq_snoc_fail_left {rules : List Term} {inp : Str} {y : Term} :
    ∀ {xs : List Term} {pos : Nat}, Ev rules inp (.seq xs) pos .fail → Ev rules inp (.seq (xs ++ [y])) pos .fail := by
  intro xs
  induction xs with
  | nil => intro pos h; cases h
  | cons x xs ih =>
    intro pos h
    cases h with
    | seqFailHead hx => exact .seqFailHead hx
    | seqFailTail hx hrest => exact .seqFailTail hx (ih hrest)

theorem ev_seq_snoc_fail_right {rules : List Term} {inp : Str} {y : Term} {p : Nat} :
    ∀ {xs : List Term} {pos : Nat} {vs : List Val}, Ev rules inp (.seq xs) pos (.ok p (.list vs)) →
      Ev rules inp y p .fail → Ev rules inp (.seq (xs ++ [y])) pos .fail := by
  intro xs
  induction xs with
  | nil => intro pos vs h1 h2; cases h1; exact .seqFailHead h2
  | cons x xs ih =>
    intro pos vs h1 h2
    cases h1 with
    | seqCons hx hrest => exact .seqFailTail hx (ih hrest h2)

/-- … and nothing else: every outcome of the extended sequence arises that way -/
theorem ev_seq_snoc_inv {rules : List Term} {inp : Str} {y : Term} :
    ∀ {xs : List Term} {pos : Nat} {r : Res}, Ev rules inp (.seq (xs ++ [y])) pos r →
      (∃ p vs q w, Ev rules inp (.seq xs) pos (.ok p (.list vs)) ∧ Ev rules inp y p (.ok q w) ∧
          r = .ok q (.list (vs ++ [w]))) ∨
      (r = .fail ∧ (Ev rules inp (.seq xs) pos .fail ∨
          ∃ p vs, Ev rules inp (.seq xs) pos (.ok p (.list vs)) ∧ Ev rules inp y p .fail)) := by
  intro xs
  induction xs with
  | nil =>
    intro pos r h
    simp only [List.nil_append] at h
    cases h with
    | seqCons hy hnil => cases hnil; exact .inl ⟨_, _, _, _, .seqNil, hy, rfl⟩
    | seqFailHead hy => exact .inr ⟨rfl, .inr ⟨_, _, .seqNil, hy⟩⟩
    | seqFailTail hy hnil => cases hnil
  | cons x xs ih =>
    intro pos r h
    simp only [List.cons_append] at h
    cases h with
    | seqCons hx hrest =>
      rcases ih hrest with ⟨p, vs, q, w, h1, h2, h3⟩ | ⟨h0, _⟩
      · cases h3; exact .inl ⟨_, _, _, _, .seqCons hx h1, h2, rfl⟩
      · cases h0
    | seqFailHead hx => exact .inr ⟨rfl, .inl (.seqFailHead hx)⟩
    | seqFailTail hx hrest =>
      rcases ih hrest with ⟨p, vs, q, w, _, _, h3⟩ | ⟨_, h1 | ⟨p, vs, h1, h2⟩⟩
      · cases h3
      · exact .inr ⟨rfl, .inl (.seqFailTail hx h1)⟩
      · exact .inr ⟨rfl, .inr ⟨_, _, .seqCons hx h1, h2⟩⟩

theorem plus_of_not_seq {x : Term} (y : Term) (h : x.isSeq = false) : plus x y = .seq [x, y] := by
  cases x <;> simp [plus, Term.isSeq] at h ⊢

theorem alt_of_not_choice {x : Term} (y : Term) (h : x.isChoice = false) : alt x y = .choice [x, y] := by
  cases x <;> simp [alt, Term.isChoice] at h ⊢

theorem ev_pair_inv {rules : List Term} {inp : Str} {x y : Term} {pos : Nat} {r : Res}
    (h : Ev rules inp (.seq [x, y]) pos r) :
    (∃ p v q w, Ev rules inp x pos (.ok p v) ∧ Ev rules inp y p (.ok q w) ∧ r = .ok q (.list [v, w])) ∨
    (r = .fail ∧ (Ev rules inp x pos .fail ∨ ∃ p v, Ev rules inp x pos (.ok p v) ∧ Ev rules inp y p .fail)) := by
  cases h with
  | seqCons hx hrest =>
    cases hrest with
    | seqCons hy hnil => cases hnil; exact .inl ⟨_, _, _, _, hx, hy, rfl⟩
  | seqFailHead hx => exact .inr ⟨rfl, .inl hx⟩
  | seqFailTail hx hrest =>
    cases hrest with
    | seqFailHead hy => exact .inr ⟨rfl, .inr ⟨_, _, hx, hy⟩⟩
    | seqFailTail hy hnil => cases hnil

/-- every outcome of `x + y`, whichever way `x` is built: it is `x` then `y`; the value is `x`'s
list extended by `y`'s value when `x` is a Sequence, the pair of both values otherwise -/
theorem plus_inv {rules : List Term} {inp : Str} {x y : Term} {pos : Nat} {r : Res}
    (h : Ev rules inp (plus x y) pos r) :
    (∃ p v q w, Ev rules inp x pos (.ok p v) ∧ Ev rules inp y p (.ok q w) ∧
        r = .ok q (match x, v with | .seq _, .list vs => .list (vs ++ [w]) | _, _ => .list [v, w])) ∨
    (r = .fail ∧ (Ev rules inp x pos .fail ∨ ∃ p v, Ev rules inp x pos (.ok p v) ∧ Ev rules inp y p .fail)) := by
  by_cases hx : x.isSeq = true
  · cases x <;> simp [Term.isSeq] at hx
    rename_i xs
    simp only [plus] at h
    rcases ev_seq_snoc_inv h with ⟨p, vs, q, w, h1, h2, h3⟩ | ⟨h0, h1 | ⟨p, vs, h1, h2⟩⟩
    · exact .inl ⟨_, _, _, _, h1, h2, h3⟩
    · exact .inr ⟨h0, .inl h1⟩
    · exact .inr ⟨h0, .inr ⟨_, _, h1, h2⟩⟩
  · replace hx : x.isSeq = false := by simpa using hx
    rw [plus_of_not_seq y hx] at h
    rcases ev_pair_inv h with ⟨p, v, q, w, h1, h2, h3⟩ | h0
    · refine .inl ⟨_, _, _, _, h1, h2, ?_⟩
      cases x <;> simp [Term.isSeq] at hx <;> exact h3
    · exact .inr h0

theorem plus_ok {rules : List Term} {inp : Str} {x y : Term} {pos p q : Nat} {v w : Val}
    (h1 : Ev rules inp x pos (.ok p v)) (h2 : Ev rules inp y p (.ok q w)) :
    Ev rules inp (plus x y) pos (.ok q (match x, v with | .seq _, .list vs => .list (vs ++ [w]) | _, _ => .list [v, w])) := by
  by_cases hx : x.isSeq = true
  · cases x <;> simp [Term.isSeq] at hx
    obtain ⟨vs, rfl⟩ := ev_seq_val h1
    simp only [plus]
    exact ev_seq_snoc_ok h1 h2
  · replace hx : x.isSeq = false := by simpa using hx
    rw [plus_of_not_seq y hx]
    cases x <;> simp [Term.isSeq] at hx <;> exact .seqCons h1 (.seqCons h2 .seqNil)

theorem plus_fail_left {rules : List Term} {inp : Str} {x y : Term} {pos : Nat}
    (h1 : Ev rules inp x pos .fail) : Ev rules inp (plus x y) pos .fail := by
  by_cases hx : x.isSeq = true
  · cases x <;> simp [Term.isSeq] at hx
    simp only [plus]; exact ev_seq_snoc_fail_left h1
  · replace hx : x.isSeq = false := by simpa using hx
    rw [plus_of_not_seq y hx]; exact .seqFailHead h1

theorem plus_fail_right {rules : List Term} {inp : Str} {x y : Term} {pos p : Nat} {v : Val}
    (h1 : Ev rules inp x pos (.ok p v)) (h2 : Ev rules inp y p .fail) : Ev rules inp (plus x y) pos .fail := by
  by_cases hx : x.isSeq = true
  · cases x <;> simp [Term.isSeq] at hx
    obtain ⟨vs, rfl⟩ := ev_seq_val h1
    simp only [plus]; exact ev_seq_snoc_fail_right h1 h2
  · replace hx : x.isSeq = false := by simpa using hx
    rw [plus_of_not_seq y hx]; exact .seqFailTail h1 (.seqFailHead h2)

/-- ordered choice extended on the right -/
theorem ev_choice_snoc {rules : List Term} {inp : Str} {y : Term} :
    ∀ {xs : List Term} {pos : Nat} {r : Res}, Ev rules inp (.choice (xs ++ [y])) pos r ↔
      ((r.isOk = true ∧ Ev rules inp (.choice xs) pos r) ∨ (Ev rules inp (.choice xs) pos .fail ∧ Ev rules inp y pos r)) := by
  intro xs
  induction xs with
  | nil =>
    intro pos r
    simp only [List.nil_append]
    constructor
    · intro h
      cases h with
      | choiceHit hy => exact .inr ⟨.choiceNil, hy⟩
      | choiceMiss hy hnil => cases hnil; exact .inr ⟨.choiceNil, hy⟩
    · rintro (⟨hok, h⟩ | ⟨_, hy⟩)
      · cases h; simp [Res.isOk] at hok
      · cases r with
        | ok p v => exact .choiceHit hy
        | fail => exact .choiceMiss hy .choiceNil
        | diverge => exact absurd rfl hy.ne_diverge
  | cons x xs ih =>
    intro pos r
    simp only [List.cons_append]
    constructor
    · intro h
      cases h with
      | choiceHit hx => exact .inl ⟨rfl, .choiceHit hx⟩
      | choiceMiss hx hrest =>
        rcases ih.mp hrest with ⟨hok, h1⟩ | ⟨h1, h2⟩
        · exact .inl ⟨hok, .choiceMiss hx h1⟩
        · exact .inr ⟨.choiceMiss hx h1, h2⟩
    · rintro (⟨hok, h⟩ | ⟨h1, hy⟩)
      · cases h with
        | choiceHit hx => exact .choiceHit hx
        | choiceMiss hx hrest => exact .choiceMiss hx (ih.mpr (.inl ⟨hok, hrest⟩))
      · cases h1 with
        | choiceMiss hx hrest => exact .choiceMiss hx (ih.mpr (.inr ⟨hrest, hy⟩))

theorem ev_choice_pair {rules : List Term} {inp : Str} {x y : Term} {pos : Nat} {r : Res} :
    Ev rules inp (.choice [x, y]) pos r ↔
      ((r.isOk = true ∧ Ev rules inp x pos r) ∨ (Ev rules inp x pos .fail ∧ Ev rules inp y pos r)) := by
  constructor
  · intro h
    cases h with
    | choiceHit hx => exact .inl ⟨rfl, hx⟩
    | choiceMiss hx hrest =>
      cases hrest with
      | choiceHit hy => exact .inr ⟨hx, hy⟩
      | choiceMiss hy hnil => cases hnil; exact .inr ⟨hx, hy⟩
  · rintro (⟨hok, h⟩ | ⟨hx, hy⟩)
    · cases r <;> simp [Res.isOk] at hok; exact .choiceHit h
    · cases r with
      | ok p v => exact .choiceMiss hx (.choiceHit hy)
      | fail => exact .choiceMiss hx (.choiceMiss hy .choiceNil)
      | diverge => exact absurd rfl hy.ne_diverge

/-- every outcome of `x | y`, whichever way `x` is built: `x`'s success, else `y`'s outcome -/
theorem alt_iff {rules : List Term} {inp : Str} {x y : Term} {pos : Nat} {r : Res} :
    Ev rules inp (alt x y) pos r ↔
      ((r.isOk = true ∧ Ev rules inp x pos r) ∨ (Ev rules inp x pos .fail ∧ Ev rules inp y pos r)) := by
  by_cases hx : x.isChoice = true
  · cases x <;> simp [Term.isChoice] at hx
    simp only [alt]; exact ev_choice_snoc
  · replace hx : x.isChoice = false := by simpa using hx
    rw [alt_of_not_choice y hx]; exact ev_choice_pair

end IV.Peg
