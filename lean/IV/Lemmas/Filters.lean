import IV.Model.Filters
/-! helper lemmas for C07 (content half first, registry half below) -/
namespace IV.Filters

/-! ## charge -/

theorem charge_none_iff (a : Allow) (l : Str) :
    charge a l = none ↔ ∀ e ∈ a, isInfix e.1 l = false := by
  induction a with
  | nil => simp [charge]
  | cons e rest ih =>
    obtain ⟨k, b⟩ := e
    simp only [charge]
    by_cases h : isInfix k l = true
    · simp [h]
    · have h' : isInfix k l = false := by simpa using h
      simp [h', ih]

/-- shape of a successful charge: the first matching entry is decremented or removed -/
theorem charge_some_spec (a a' : Allow) (l : Str) (h : charge a l = some a') :
    ∃ pre k b post, a = pre ++ (k, b) :: post ∧ isInfix k l = true ∧
      (∀ e ∈ pre, isInfix e.1 l = false) ∧
      a' = pre ++ (if b - 1 = 0 then [] else [(k, b - 1)]) ++ post := by
  induction a generalizing a' with
  | nil => simp [charge] at h
  | cons e rest ih =>
    obtain ⟨k, b⟩ := e
    simp only [charge] at h
    by_cases hk : isInfix k l = true
    · simp only [hk, if_true, Option.some.injEq] at h
      refine ⟨[], k, b, rest, by simp, hk, by simp, ?_⟩
      subst h
      by_cases hb : b - 1 = 0 <;> simp [hb]
    · have hk' : isInfix k l = false := by simpa using hk
      simp only [hk', Bool.false_eq_true, if_false, Option.map_eq_some_iff] at h
      obtain ⟨r', hr, rfl⟩ := h
      obtain ⟨pre, k0, b0, post, e1, e2, e3, e4⟩ := ih r' hr
      refine ⟨(k, b) :: pre, k0, b0, post, by simp [e1], e2, ?_, by simp [e4]⟩
      intro e he
      rcases List.mem_cons.mp he with rfl | he
      · exact hk'
      · exact e3 e he

theorem charge_some_match (a a' : Allow) (l : Str) (h : charge a l = some a') :
    ∃ k ∈ keys a, isInfix k l = true := by
  obtain ⟨pre, k, b, post, e1, e2, _, _⟩ := charge_some_spec a a' l h
  exact ⟨k, by simp [keys, e1], e2⟩

theorem charge_keys_subset (a a' : Allow) (l : Str) (h : charge a l = some a') :
    ∀ k ∈ keys a', k ∈ keys a := by
  obtain ⟨pre, k0, b0, post, e1, _, _, e4⟩ := charge_some_spec a a' l h
  intro k hk
  subst e1 e4
  simp only [keys, List.map_append, List.mem_append, List.map_cons, List.mem_cons] at hk ⊢
  rcases hk with (hk | hk) | hk
  · exact Or.inl hk
  · by_cases hb : b0 - 1 = 0
    · simp [hb] at hk
    · simp [hb] at hk; exact Or.inr (Or.inl hk)
  · exact Or.inr (Or.inr hk)

/-- an entry whose key is not in the line survives a charge untouched -/
theorem charge_keeps (a a' : Allow) (l : Str) (h : charge a l = some a') (k : Str) (b : Int)
    (hm : (k, b) ∈ a) (hk : isInfix k l = false) : (k, b) ∈ a' := by
  obtain ⟨pre, k0, b0, post, e1, e2, _, e4⟩ := charge_some_spec a a' l h
  subst e1 e4
  simp only [List.mem_append, List.mem_cons, Prod.mk.injEq] at hm ⊢
  rcases hm with hm | ⟨rfl, rfl⟩ | hm
  · exact Or.inl (Or.inl hm)
  · rw [hk] at e2; cases e2
  · exact Or.inr hm

theorem charge_isSome_of_key (a : Allow) (l : Str) (k : Str) (hk : k ∈ keys a) (hi : isInfix k l = true) :
    (charge a l).isSome = true := by
  cases hc : charge a l with
  | some _ => rfl
  | none =>
    rw [charge_none_iff] at hc
    simp only [keys, List.mem_map] at hk
    obtain ⟨e, he, rfl⟩ := hk
    rw [hc e he] at hi; cases hi

/-! ## scan / after -/

theorem scan_sublist (a : Allow) (xs : List Str) : (scan a xs).Sublist xs := by
  induction xs generalizing a with
  | nil => simp [scan]
  | cons x xs ih =>
    simp only [scan]
    cases charge a x with
    | some a' => exact (ih a').cons_cons x
    | none => exact (ih a).cons x

theorem scan_mem_matches (a : Allow) (xs : List Str) (l : Str) (h : l ∈ scan a xs) :
    ∃ k ∈ keys a, isInfix k l = true := by
  induction xs generalizing a with
  | nil => simp [scan] at h
  | cons x xs ih =>
    simp only [scan] at h
    cases hc : charge a x with
    | some a' =>
      simp only [hc, List.mem_cons] at h
      rcases h with rfl | h
      · exact charge_some_match a a' l hc
      · obtain ⟨k, hk, hi⟩ := ih a' h
        exact ⟨k, charge_keys_subset a a' x hc k hk, hi⟩
    | none =>
      simp only [hc] at h
      exact ih a h

theorem scan_append (a : Allow) (xs ys : List Str) :
    scan a (xs ++ ys) = scan a xs ++ scan (after a xs) ys := by
  induction xs generalizing a with
  | nil => simp [scan, after]
  | cons x xs ih =>
    simp only [List.cons_append, scan, after]
    cases charge a x with
    | some a' => simp [ih a']
    | none => simp [ih a]

theorem after_keeps (a : Allow) (xs : List Str) (k : Str) (b : Int) (hm : (k, b) ∈ a)
    (hx : ∀ x ∈ xs, isInfix k x = false) : (k, b) ∈ after a xs := by
  induction xs generalizing a with
  | nil => simpa [after] using hm
  | cons x xs ih =>
    simp only [after]
    have hx' : ∀ y ∈ xs, isInfix k y = false := fun y hy => hx y (List.mem_cons_of_mem _ hy)
    cases hc : charge a x with
    | some a' =>
      exact ih a' (charge_keeps a a' x hc k b hm (hx x (List.mem_cons_self ..))) hx'
    | none => exact ih a hm hx'

theorem after_keys_subset (a : Allow) (xs : List Str) : ∀ k ∈ keys (after a xs), k ∈ keys a := by
  induction xs generalizing a with
  | nil => simp [after]
  | cons x xs ih =>
    simp only [after]
    cases hc : charge a x with
    | some a' => exact fun k hk => charge_keys_subset a a' x hc k (ih a' k hk)
    | none => exact ih a

/-- the budget law: an entry that is gone after a run had a positive budget, and at least that many
kept lines of the run contain its key -/
theorem budget_used (a : Allow) (xs : List Str) (k : Str) (b : Int) (hm : (k, b) ∈ a)
    (hgone : k ∉ keys (after a xs)) :
    0 < b ∧ b ≤ ((scan a xs).countP (fun l => isInfix k l) : Nat) := by
  induction xs generalizing a b with
  | nil =>
    exfalso; apply hgone
    simp only [after, keys, List.mem_map]
    exact ⟨(k, b), hm, rfl⟩
  | cons x xs ih =>
    simp only [after] at hgone
    simp only [scan]
    cases hc : charge a x with
    | none =>
      simp only [hc] at hgone ⊢
      exact ih a b hm hgone
    | some a' =>
      simp only [hc] at hgone ⊢
      obtain ⟨pre, k0, b0, post, e1, e2, e3, e4⟩ := charge_some_spec a a' x hc
      have hcase : (k, b) ∈ a' ∨ ((k, b) = (k0, b0)) := by
        subst e1 e4
        simp only [List.mem_append, List.mem_cons] at hm ⊢
        rcases hm with hm | hm | hm
        · exact Or.inl (Or.inl (Or.inl hm))
        · exact Or.inr hm
        · exact Or.inl (Or.inr hm)
      rcases hcase with hin | heq
      · obtain ⟨p1, p2⟩ := ih a' b hin hgone
        refine ⟨p1, ?_⟩
        rw [List.countP_cons]
        omega
      · simp only [Prod.mk.injEq] at heq
        obtain ⟨rfl, rfl⟩ := heq
        rw [List.countP_cons]
        simp only [e2, if_true]
        by_cases hb : b - 1 = 0
        · omega
        · have hin : (k, b - 1) ∈ a' := by subst e4; simp [hb]
          obtain ⟨p1, p2⟩ := ih a' (b - 1) hin hgone
          omega

/-- a pre-filter that keeps every line containing some key is invisible to the scan -/
theorem scan_filter (p : Str → Bool) (a : Allow) (xs : List Str)
    (hp : ∀ l, (∃ k ∈ keys a, isInfix k l = true) → p l = true) :
    scan a (xs.filter p) = scan a xs := by
  induction xs generalizing a with
  | nil => simp [scan]
  | cons x xs ih =>
    by_cases hx : p x = true
    · simp only [List.filter_cons, hx, if_true, scan]
      cases hc : charge a x with
      | some a' =>
        simp only []
        rw [ih a' (fun l ⟨k, hk, hi⟩ => hp l ⟨k, charge_keys_subset a a' x hc k hk, hi⟩)]
      | none => simp only []; rw [ih a hp]
    · have hn : charge a x = none := by
        cases hc : charge a x with
        | none => rfl
        | some a' =>
          obtain ⟨k, hk, hi⟩ := charge_some_match a a' x hc
          exact absurd (hp x ⟨k, hk, hi⟩) hx
      simp only [List.filter_cons, hx, scan, hn]
      simpa using ih a hp

/-! ## the cleaner's per-line variant -/

theorem scanC_sublist (a : Allow) (xs : List Str) : (scanC a xs).Sublist xs := by
  induction xs generalizing a with
  | nil => simp [scanC]
  | cons x xs ih =>
    simp only [scanC]
    split
    · exact (ih a).cons_cons x
    · cases charge a x with
      | some a' => exact (ih a').cons_cons x
      | none => exact (ih a).cons x

theorem scanC_mem_matches (a : Allow) (xs : List Str) (l : Str) (h : l ∈ scanC a xs) (hne : l ≠ []) :
    ∃ k ∈ keys a, isInfix k l = true := by
  induction xs generalizing a with
  | nil => simp [scanC] at h
  | cons x xs ih =>
    simp only [scanC] at h
    split at h
    · rename_i hx
      rcases List.mem_cons.mp h with rfl | h
      · simp at hx; exact absurd hx hne
      · exact ih a h
    · cases hc : charge a x with
      | some a' =>
        simp only [hc, List.mem_cons] at h
        rcases h with rfl | h
        · exact charge_some_match a a' l hc
        · obtain ⟨k, hk, hi⟩ := ih a' h
          exact ⟨k, charge_keys_subset a a' x hc k hk, hi⟩
      | none =>
        simp only [hc] at h
        exact ih a h

/-- on lines that are all non-empty the per-line variant is the scan -/
theorem scanC_eq_scan (a : Allow) (xs : List Str) (hne : ∀ x ∈ xs, x ≠ []) : scanC a xs = scan a xs := by
  induction xs generalizing a with
  | nil => simp [scanC, scan]
  | cons x xs ih =>
    have hx : x.isEmpty = false := by
      have := hne x (List.mem_cons_self ..)
      cases x with
      | nil => exact absurd rfl this
      | cons _ _ => rfl
    have hne' : ∀ y ∈ xs, y ≠ [] := fun y hy => hne y (List.mem_cons_of_mem _ hy)
    simp only [scanC, scan, hx, Bool.false_eq_true, if_false]
    cases charge a x with
    | some a' => simp [ih a' hne']
    | none => simp [ih a hne']

theorem isInfix_nil_right (k : Str) (h : isInfix k [] = true) : k = [] := by
  cases k with
  | nil => rfl
  | cons _ _ => simp [isInfix] at h


/-! ## dict primitives -/

theorem mem_dictSet (a : Allow) (k : Str) (v : Int) (e : Str × Int) (h : e ∈ dictSet a k v) :
    e ∈ a ∨ e = (k, v) := by
  induction a with
  | nil => simp [dictSet] at h; exact Or.inr h
  | cons x rest ih =>
    obtain ⟨k', b⟩ := x
    simp only [dictSet] at h
    split at h
    · rename_i hk
      rcases List.mem_cons.mp h with rfl | h
      · right; simp [hk]
      · left; exact List.mem_cons_of_mem _ h
    · rcases List.mem_cons.mp h with rfl | h
      · left; exact List.mem_cons_self ..
      · rcases ih h with h | h
        · left; exact List.mem_cons_of_mem _ h
        · right; exact h

theorem keys_dictSet (a : Allow) (k : Str) (v : Int) (k' : Str) :
    k' ∈ keys (dictSet a k v) ↔ k' ∈ keys a ∨ k' = k := by
  induction a with
  | nil => simp [dictSet, keys]
  | cons x rest ih =>
    obtain ⟨k0, b⟩ := x
    simp only [dictSet]
    split
    · rename_i hk
      subst hk
      simp only [keys, List.map_cons, List.mem_cons]
      constructor
      · intro h; exact Or.inl h
      · rintro (h | h)
        · exact h
        · exact Or.inl h
    · simp only [keys, List.map_cons, List.mem_cons] at ih ⊢
      rw [ih]
      constructor
      · rintro (h | h | h)
        · exact Or.inl (Or.inl h)
        · exact Or.inl (Or.inr h)
        · exact Or.inr h
      · rintro ((h | h) | h)
        · exact Or.inl h
        · exact Or.inr (Or.inl h)
        · exact Or.inr (Or.inr h)

theorem mem_dictUpdate (a o : Allow) (e : Str × Int) (h : e ∈ dictUpdate a o) : e ∈ a ∨ e ∈ o := by
  unfold dictUpdate at h
  induction o generalizing a with
  | nil => exact Or.inl (by simpa using h)
  | cons x rest ih =>
    simp only [List.foldl_cons] at h
    rcases ih _ h with h | h
    · rcases mem_dictSet a x.1 x.2 e h with h | h
      · exact Or.inl h
      · right; rw [h]; exact List.mem_cons_self ..
    · exact Or.inr (List.mem_cons_of_mem _ h)

theorem keys_dictUpdate (a o : Allow) (k : Str) :
    k ∈ keys (dictUpdate a o) ↔ k ∈ keys a ∨ k ∈ keys o := by
  unfold dictUpdate
  induction o generalizing a with
  | nil => simp [keys]
  | cons x rest ih =>
    simp only [List.foldl_cons]
    rw [ih, keys_dictSet]
    simp only [keys, List.map_cons, List.mem_cons]
    constructor
    · rintro ((h | h) | h)
      · exact Or.inl h
      · exact Or.inr (Or.inl h)
      · exact Or.inr (Or.inr h)
    · rintro (h | h | h)
      · exact Or.inl (Or.inl h)
      · exact Or.inl (Or.inr h)
      · exact Or.inr h

theorem noneMax_ge (old : Option Int) (m : Int) : m ≤ noneMax old m := by
  unfold noneMax
  cases old with
  | none => simp
  | some o => simp only []; split <;> omega

theorem keys_mergePatterns (a : Allow) (ps : List Str) (m : Int) (k : Str) :
    k ∈ keys (mergePatterns a ps m) ↔ k ∈ keys a ∨ k ∈ ps := by
  unfold mergePatterns
  induction ps generalizing a with
  | nil => simp
  | cons p rest ih =>
    simp only [List.foldl_cons]
    rw [ih, keys_dictSet]
    simp only [List.mem_cons]
    constructor
    · rintro ((h | h) | h)
      · exact Or.inl h
      · exact Or.inr (Or.inl h)
      · exact Or.inr (Or.inr h)
    · rintro (h | h | h)
      · exact Or.inl (Or.inl h)
      · exact Or.inl (Or.inr h)
      · exact Or.inr h

theorem mem_mergePatterns (a : Allow) (ps : List Str) (m : Int) (e : Str × Int)
    (h : e ∈ mergePatterns a ps m) : e ∈ a ∨ (e.1 ∈ ps ∧ m ≤ e.2) := by
  unfold mergePatterns at h
  induction ps generalizing a with
  | nil => exact Or.inl (by simpa using h)
  | cons p rest ih =>
    simp only [List.foldl_cons] at h
    rcases ih _ h with h | ⟨h1, h2⟩
    · rcases mem_dictSet _ _ _ _ h with h | h
      · exact Or.inl h
      · right; rw [h]; exact ⟨List.mem_cons_self .., noneMax_ge _ _⟩
    · exact Or.inr ⟨List.mem_cons_of_mem _ h1, h2⟩

/-! ## FILTERS as an association list -/

theorem regOf_regSet (r : Reg) (t : Comp) (a : Allow) (d : Comp) :
    regOf (regSet r t a) d = if t = d then a else regOf r d := by
  induction r with
  | nil => simp [regSet, regOf]
  | cons x rest ih =>
    obtain ⟨c', a'⟩ := x
    simp only [regSet]
    by_cases h1 : c' = t
    · subst h1
      simp only [if_true, regOf]
      by_cases h2 : c' = d <;> simp [h2]
    · simp only [h1, if_false, regOf, ih]
      by_cases h2 : c' = d
      · subst h2
        have : ¬ t = c' := fun h => h1 h.symm
        simp [this]
      · simp [h2]

theorem keys_applyAdd (r : Reg) (ts : List Comp) (ps : List Str) (m : Int) (d : Comp) (k : Str) :
    k ∈ keys (regOf (applyAdd r ts ps m) d) ↔ k ∈ keys (regOf r d) ∨ (d ∈ ts ∧ k ∈ ps) := by
  unfold applyAdd
  induction ts generalizing r with
  | nil => simp
  | cons t rest ih =>
    simp only [List.foldl_cons]
    rw [ih, regOf_regSet]
    by_cases h : t = d
    · subst h
      simp only [if_true, keys_mergePatterns, List.mem_cons, true_or, true_and]
      constructor
      · rintro ((h | h) | ⟨_, h⟩)
        · exact Or.inl h
        · exact Or.inr h
        · exact Or.inr h
      · rintro (h | h)
        · exact Or.inl (Or.inl h)
        · exact Or.inl (Or.inr h)
    · have h' : ¬ d = t := fun e => h e.symm
      simp [h, h']

theorem mem_applyAdd (r : Reg) (ts : List Comp) (ps : List Str) (m : Int) (d : Comp) (e : Str × Int)
    (h : e ∈ regOf (applyAdd r ts ps m) d) : e ∈ regOf r d ∨ (d ∈ ts ∧ e.1 ∈ ps ∧ m ≤ e.2) := by
  unfold applyAdd at h
  induction ts generalizing r with
  | nil => exact Or.inl (by simpa using h)
  | cons t rest ih =>
    simp only [List.foldl_cons] at h
    rcases ih _ h with h | ⟨h1, h2⟩
    · rw [regOf_regSet] at h
      by_cases ht : t = d
      · subst ht
        simp only [if_true] at h
        rcases mem_mergePatterns _ _ _ _ h with h | h
        · exact Or.inl h
        · exact Or.inr ⟨List.mem_cons_self .., h⟩
      · simp only [ht, if_false] at h
        exact Or.inl h
    · exact Or.inr ⟨List.mem_cons_of_mem _ h1, h2⟩

/-! ## add_filter: argument facts -/

theorem addTargets_nil_of_not_clears (w : World) (comp : Comp) (pats : Option (List Str))
    (mx : Option Int) (ts : List Comp) (h : addTargets w comp pats mx = .ok ts)
    (hc : addClears w comp mx = false) : ts = [] := by
  unfold addTargets at h
  unfold addClears at hc
  cases hp : addPre w comp mx with
  | error e => simp [hp] at h
  | ok l =>
    cases l with
    | nil => simp [hp] at h; exact h
    | cons t r => simp [hp] at hc

theorem addPre_max (w : World) (comp : Comp) (mx : Option Int) (ts : List Comp)
    (h : addPre w comp mx = .ok ts) : ∃ m, mx = some m ∧ 0 < m := by
  unfold addPre at h
  cases mx with
  | none => simp at h
  | some m =>
    refine ⟨m, rfl, ?_⟩
    by_cases hm : m ≤ 0
    · simp [hm] at h
    · omega

/-- a successful `add_filter` that writes somewhere had a positive `max_match` and non-empty patterns -/
theorem addTargets_ok_args (w : World) (comp : Comp) (pats : Option (List Str)) (mx : Option Int)
    (ts : List Comp) (h : addTargets w comp pats mx = .ok ts) (hne : ts ≠ []) :
    ∃ m ps, mx = some m ∧ 0 < m ∧ pats = some ps ∧ ∀ p ∈ ps, p ≠ [] := by
  unfold addTargets at h
  cases hp : addPre w comp mx with
  | error e => simp [hp] at h
  | ok l =>
    obtain ⟨m, rfl, hm⟩ := addPre_max w comp mx l hp
    cases l with
    | nil => simp [hp] at h; exact absurd h hne
    | cons t r =>
      simp only [hp] at h
      unfold checkPats at h
      cases pats with
      | none => simp at h
      | some ps =>
        refine ⟨m, ps, rfl, hm, rfl, ?_⟩
        by_cases ha : ps.any (·.isEmpty) = true
        · simp [ha] at h
        · intro p hp' hnil
          apply ha
          rw [List.any_eq_true]
          exact ⟨p, hp', by simp [hnil]⟩

/-! ## the walk of get_filters -/

theorem gate_lt (w : World) (c : Comp) (h : gate w c = true) : c < w.nodes.length := by
  by_cases hc : c < w.nodes.length
  · exact hc
  · exfalso
    have : w.nodes[c]? = none := List.getElem?_eq_none (Nat.le_of_not_lt hc)
    simp [gate, World.node, this, Node.none] at h

theorem ranked_spec (w : World) (rank : Comp → Nat) (h : rankedBy w rank = true) (c : Comp)
    (hc : c < w.nodes.length) :
    rank c < w.nodes.length ∧
    (∀ d ∈ (w.node c).dependents, d < w.nodes.length ∧ rank d < rank c) ∧
    (∀ d ∈ (w.node c).deps, d < w.nodes.length ∧ rank c < rank d) := by
  unfold rankedBy at h
  rw [List.all_eq_true] at h
  have := h c (List.mem_range.mpr hc)
  simp only [Bool.and_eq_true, decide_eq_true_eq, List.all_eq_true] at this
  obtain ⟨⟨h1, h2⟩, h3⟩ := this
  exact ⟨h1, h2, h3⟩

theorem reach_iff (w : World) (c e : Comp) :
    Reach w c e ↔ gate w c = true ∧ (e = c ∨ ∃ d ∈ (w.node c).dependents, Reach w d e) := by
  constructor
  · intro h
    cases h with
    | here g => exact ⟨g, Or.inl rfl⟩
    | step g hd hr => exact ⟨g, Or.inr ⟨_, hd, hr⟩⟩
  · rintro ⟨g, rfl | ⟨d, hd, hr⟩⟩
    · exact Reach.here g
    · exact Reach.step g hd hr

theorem reach_gate_target (w : World) (c e : Comp) (h : Reach w c e) : gate w e = true := by
  induction h with
  | here g => exact g
  | step _ _ _ ih => exact ih

/-- keys of the walk: what was accumulated before, plus the keys registered on every reachable
component — for every order of the dependents and whatever fuel is left, as long as it exceeds the rank -/
theorem inner_keys (w : World) (reg : Reg) (rank : Comp → Nat) (h : rankedBy w rank = true) (k : Str) :
    ∀ (f : Nat) (c : Comp) (acc : Allow), (c < w.nodes.length → rank c < f) →
      (k ∈ keys (inner w reg f c acc) ↔ k ∈ keys acc ∨ ∃ d, Reach w c d ∧ k ∈ keys (regOf reg d)) := by
  intro f
  induction f with
  | zero =>
    intro c acc hr
    simp only [inner]
    constructor
    · exact Or.inl
    · rintro (h1 | ⟨d, hd, _⟩)
      · exact h1
      · have g := ((reach_iff w c d).mp hd).1
        have := hr (gate_lt w c g)
        omega
  | succ f ih =>
    intro c acc hr
    simp only [inner]
    by_cases g : gate w c = true
    · simp only [g, if_true]
      have hc := gate_lt w c g
      obtain ⟨_, hdep, _⟩ := ranked_spec w rank h c hc
      have hrc := hr hc
      -- the fold over the dependents
      have aux : ∀ (ds : List Comp), (∀ d ∈ ds, d ∈ (w.node c).dependents) → ∀ (a1 : Allow),
          (k ∈ keys (ds.foldl (fun a d => inner w reg f d a) a1) ↔
            k ∈ keys a1 ∨ ∃ d ∈ ds, ∃ e, Reach w d e ∧ k ∈ keys (regOf reg e)) := by
        intro ds
        induction ds with
        | nil => intro _ a1; simp
        | cons d rest ihd =>
          intro hsub a1
          simp only [List.foldl_cons]
          rw [ihd (fun x hx => hsub x (List.mem_cons_of_mem _ hx))]
          have hd := hdep d (hsub d (List.mem_cons_self ..))
          rw [ih d a1 (fun _ => by omega)]
          constructor
          · rintro ((h1 | ⟨e, he, hk⟩) | ⟨d', hd', e, he, hk⟩)
            · exact Or.inl h1
            · exact Or.inr ⟨d, List.mem_cons_self .., e, he, hk⟩
            · exact Or.inr ⟨d', List.mem_cons_of_mem _ hd', e, he, hk⟩
          · rintro (h1 | ⟨d', hd', e, he, hk⟩)
            · exact Or.inl (Or.inl h1)
            · rcases List.mem_cons.mp hd' with rfl | hd'
              · exact Or.inl (Or.inr ⟨e, he, hk⟩)
              · exact Or.inr ⟨d', hd', e, he, hk⟩
      rw [aux _ (fun _ hx => hx), keys_dictUpdate]
      constructor
      · rintro ((h1 | h1) | ⟨d, hd, e, he, hk⟩)
        · exact Or.inl h1
        · exact Or.inr ⟨c, Reach.here g, h1⟩
        · exact Or.inr ⟨e, Reach.step g hd he, hk⟩
      · rintro (h1 | ⟨e, he, hk⟩)
        · exact Or.inl (Or.inl h1)
        · rcases (reach_iff w c e).mp he with ⟨_, rfl | ⟨d, hd, hr'⟩⟩
          · exact Or.inl (Or.inr hk)
          · exact Or.inr ⟨d, hd, e, hr', hk⟩
    · simp only [g, Bool.false_eq_true, if_false]
      constructor
      · exact Or.inl
      · rintro (h1 | ⟨d, hd, _⟩)
        · exact h1
        · exact absurd ((reach_iff w c d).mp hd).1 g

/-- entries of the walk: every (filter, budget) pair it returns was accumulated before or is
registered, with that budget, on a reachable component (no rank needed) -/
theorem inner_mem (w : World) (reg : Reg) (e : Str × Int) :
    ∀ (f : Nat) (c : Comp) (acc : Allow), e ∈ inner w reg f c acc →
      e ∈ acc ∨ ∃ d, Reach w c d ∧ e ∈ regOf reg d := by
  intro f
  induction f with
  | zero => intro c acc h; exact Or.inl (by simpa [inner] using h)
  | succ f ih =>
    intro c acc h
    simp only [inner] at h
    by_cases g : gate w c = true
    · simp only [g, if_true] at h
      have aux : ∀ (ds : List Comp), (∀ d ∈ ds, d ∈ (w.node c).dependents) → ∀ (a1 : Allow),
          e ∈ ds.foldl (fun a d => inner w reg f d a) a1 →
            e ∈ a1 ∨ ∃ d ∈ ds, ∃ x, Reach w d x ∧ e ∈ regOf reg x := by
        intro ds
        induction ds with
        | nil => intro _ a1 h; exact Or.inl (by simpa using h)
        | cons d rest ihd =>
          intro hsub a1 h
          simp only [List.foldl_cons] at h
          rcases ihd (fun x hx => hsub x (List.mem_cons_of_mem _ hx)) _ h with h | ⟨d', hd', x, hx, hk⟩
          · rcases ih d a1 h with h | ⟨x, hx, hk⟩
            · exact Or.inl h
            · exact Or.inr ⟨d, List.mem_cons_self .., x, hx, hk⟩
          · exact Or.inr ⟨d', List.mem_cons_of_mem _ hd', x, hx, hk⟩
      rcases aux _ (fun _ hx => hx) _ h with h | ⟨d, hd, x, hx, hk⟩
      · rcases mem_dictUpdate _ _ _ h with h | h
        · exact Or.inl h
        · exact Or.inr ⟨c, Reach.here g, h⟩
      · exact Or.inr ⟨x, Reach.step g hd hx, hk⟩
    · simp only [g, Bool.false_eq_true, if_false] at h
      exact Or.inl h

/-! ## the cache invariant -/

/-- every cache entry equals the value a fresh computation would give -/
def CacheOk (w : World) (st : State) : Prop :=
  ∀ c v, cacheGet st.cache c = some v → v = compute w st.reg c

theorem cacheOk_init (w : World) : CacheOk w State.init := by
  intro c v h; simp [State.init, cacheGet] at h

theorem applyAdd_nil (r : Reg) (ps : List Str) (m : Int) : applyAdd r [] ps m = r := rfl

theorem cacheOk_add (w : World) (st : State) (comp : Comp) (pats : Option (List Str)) (mx : Option Int)
    (h : CacheOk w st) : CacheOk w (addFilter w st comp pats mx).1 := by
  unfold addFilter
  by_cases hc : addClears w comp mx = true
  · intro c v hv
    cases ht : addTargets w comp pats mx <;> simp [hc, ht, cacheGet] at hv
  · have hc' : addClears w comp mx = false := by simpa using hc
    cases ht : addTargets w comp pats mx with
    | error e => simpa [hc', ht] using h
    | ok ts =>
      have := addTargets_nil_of_not_clears w comp pats mx ts ht hc'
      subst this
      simpa [hc', ht, applyAdd_nil] using h

theorem cacheOk_get (w : World) (st : State) (c : Comp) (h : CacheOk w st) :
    CacheOk w (getFilters w st c).1 := by
  unfold getFilters
  cases hg : cacheGet st.cache c with
  | some v => simpa [hg] using h
  | none =>
    simp only []
    intro c' v' hv
    simp only [cacheGet] at hv
    by_cases e : c = c'
    · subst e; simp at hv; exact hv.symm
    · simp only [e, if_false] at hv
      exact h c' v' hv

theorem cacheOk_step (w : World) (st : State) (op : Op) (h : CacheOk w st) : CacheOk w (stepOp w st op) := by
  cases op with
  | add c p m => exact cacheOk_add w st c p m h
  | get c => exact cacheOk_get w st c h

theorem cacheOk_foldl (w : World) (ops : List Op) (st : State) (h : CacheOk w st) :
    CacheOk w (ops.foldl (stepOp w) st) := by
  induction ops generalizing st with
  | nil => exact h
  | cons op rest ih => exact ih _ (cacheOk_step w st op h)

theorem get_fresh (w : World) (st : State) (c : Comp) (h : CacheOk w st) :
    (getFilters w st c).2.1 = compute w st.reg c := by
  unfold getFilters
  cases hg : cacheGet st.cache c with
  | some v => simp only []; exact h c v hg
  | none => rfl

theorem getFilters_reg (w : World) (st : State) (c : Comp) : (getFilters w st c).1.reg = st.reg := by
  unfold getFilters
  cases cacheGet st.cache c <;> rfl

/-! ## FILTERS after a history = the registration log -/

theorem registered_cons (w : World) (op : Op) (ops : List Op) (d : Comp) (k : Str) :
    Registered w (op :: ops) d k ↔
      (∃ comp ps mx ts, op = Op.add comp (some ps) mx ∧ addTargets w comp (some ps) mx = .ok ts ∧
        d ∈ ts ∧ k ∈ ps) ∨ Registered w ops d k := by
  unfold Registered
  constructor
  · rintro ⟨comp, ps, mx, ts, hm, h1, h2, h3⟩
    rcases List.mem_cons.mp hm with hm | hm
    · exact Or.inl ⟨comp, ps, mx, ts, hm.symm, h1, h2, h3⟩
    · exact Or.inr ⟨comp, ps, mx, ts, hm, h1, h2, h3⟩
  · rintro (⟨comp, ps, mx, ts, rfl, h1, h2, h3⟩ | ⟨comp, ps, mx, ts, hm, h1, h2, h3⟩)
    · exact ⟨comp, ps, mx, ts, List.mem_cons_self .., h1, h2, h3⟩
    · exact ⟨comp, ps, mx, ts, List.mem_cons_of_mem _ hm, h1, h2, h3⟩

theorem step_reg_keys (w : World) (st : State) (op : Op) (d : Comp) (k : Str) :
    k ∈ keys (regOf (stepOp w st op).reg d) ↔
      k ∈ keys (regOf st.reg d) ∨
      (∃ comp ps mx ts, op = Op.add comp (some ps) mx ∧ addTargets w comp (some ps) mx = .ok ts ∧
        d ∈ ts ∧ k ∈ ps) := by
  cases op with
  | get c =>
    simp only [stepOp, getFilters_reg]
    constructor
    · exact Or.inl
    · rintro (h | ⟨_, _, _, _, h, _⟩)
      · exact h
      · cases h
  | add comp pats mx =>
    simp only [stepOp, addFilter]
    cases ht : addTargets w comp pats mx with
    | error e =>
      simp only []
      constructor
      · exact Or.inl
      · rintro (h | ⟨comp', ps, mx', ts, h, h1, _⟩)
        · exact h
        · cases h; rw [ht] at h1; cases h1
    | ok ts =>
      simp only [keys_applyAdd]
      constructor
      · rintro (h | ⟨h1, h2⟩)
        · exact Or.inl h
        · have hne : ts ≠ [] := by intro e; subst e; simp at h1
          obtain ⟨m, ps, _, _, rfl, _⟩ := addTargets_ok_args w comp pats mx ts ht hne
          exact Or.inr ⟨comp, ps, mx, ts, rfl, ht, h1, by simpa using h2⟩
      · rintro (h | ⟨comp', ps, mx', ts', h, h1, h2, h3⟩)
        · exact Or.inl h
        · cases h
          rw [ht] at h1; cases h1
          exact Or.inr ⟨h2, by simpa using h3⟩

theorem foldl_reg_keys (w : World) (ops : List Op) (st : State) (d : Comp) (k : Str) :
    k ∈ keys (regOf (ops.foldl (stepOp w) st).reg d) ↔ k ∈ keys (regOf st.reg d) ∨ Registered w ops d k := by
  induction ops generalizing st with
  | nil => simp [Registered]
  | cons op rest ih =>
    simp only [List.foldl_cons]
    rw [ih, step_reg_keys, registered_cons]
    constructor
    · rintro ((h | h) | h)
      · exact Or.inl h
      · exact Or.inr (Or.inl h)
      · exact Or.inr (Or.inr h)
    · rintro (h | h | h)
      · exact Or.inl (Or.inl h)
      · exact Or.inl (Or.inr h)
      · exact Or.inr h

/-- FILTERS is well formed after every history: positive budgets, non-empty filter strings -/
def RegGood (r : Reg) : Prop := ∀ d e, e ∈ regOf r d → 0 < e.2 ∧ e.1 ≠ []

theorem regGood_step (w : World) (st : State) (op : Op) (h : RegGood st.reg) : RegGood (stepOp w st op).reg := by
  cases op with
  | get c => simpa [stepOp, getFilters_reg] using h
  | add comp pats mx =>
    simp only [stepOp, addFilter]
    cases ht : addTargets w comp pats mx with
    | error e => exact h
    | ok ts =>
      intro d e he
      simp only [] at he
      rcases mem_applyAdd _ _ _ _ _ _ he with he | ⟨h1, h2, h3⟩
      · exact h d e he
      · have hne : ts ≠ [] := by intro e'; subst e'; simp at h1
        obtain ⟨m, ps, rfl, hm, rfl, hps⟩ := addTargets_ok_args w comp pats mx ts ht hne
        simp only [Option.getD_some] at h2 h3
        exact ⟨by omega, hps _ h2⟩

theorem regGood_foldl (w : World) (ops : List Op) (st : State) (h : RegGood st.reg) :
    RegGood (ops.foldl (stepOp w) st).reg := by
  induction ops generalizing st with
  | nil => exact h
  | cons op rest ih => exact ih _ (regGood_step w st op h)


/-! ## the walk of add_filter down to the first datasources -/

theorem node_none_of_ge (w : World) (c : Comp) (hc : ¬ c < w.nodes.length) : w.node c = Node.none := by
  have : w.nodes[c]? = none := List.getElem?_eq_none (Nat.le_of_not_lt hc)
  simp [World.node, this]

theorem firstDs_iff (w : World) (c d : Comp) :
    FirstDs w c d ↔ ((w.node c).isDs = true ∧ d = c) ∨
      ((w.node c).isDs = false ∧ ∃ e ∈ (w.node c).deps, FirstDs w e d) := by
  constructor
  · intro h
    cases h with
    | here g => exact Or.inl ⟨g, rfl⟩
    | step g he hr => exact Or.inr ⟨g, _, he, hr⟩
  · rintro (⟨g, rfl⟩ | ⟨g, e, he, hr⟩)
    · exact FirstDs.here g
    · exact FirstDs.step g he hr

/-- `get_dependency_datasources` finds exactly the first datasources below a component, whenever the
fuel left exceeds the height of the component -/
theorem depDs_spec (w : World) (rank : Comp → Nat) (h : rankedBy w rank = true) (d : Comp) :
    ∀ (f : Nat) (c : Comp), (c < w.nodes.length → w.nodes.length - rank c ≤ f) →
      (d ∈ depDs w f c ↔ FirstDs w c d) := by
  intro f
  induction f with
  | zero =>
    intro c hf
    simp only [depDs, List.not_mem_nil, false_iff]
    intro hfd
    by_cases hc : c < w.nodes.length
    · have := (ranked_spec w rank h c hc).1
      have := hf hc
      omega
    · have hn := node_none_of_ge w c hc
      rcases (firstDs_iff w c d).mp hfd with ⟨g, _⟩ | ⟨_, e, he, _⟩
      · simp [hn, Node.none] at g
      · simp [hn, Node.none] at he
  | succ f ih =>
    intro c hf
    simp only [depDs]
    rw [firstDs_iff]
    by_cases g : (w.node c).isDs = true
    · simp [g, eq_comm]
    · have g' : (w.node c).isDs = false := by simpa using g
      simp only [g', Bool.false_eq_true, if_false, false_and, false_or, true_and, List.mem_flatMap]
      by_cases hc : c < w.nodes.length
      · obtain ⟨_, _, hdeps⟩ := ranked_spec w rank h c hc
        have hfc := hf hc
        constructor
        · rintro ⟨e, he, hd⟩
          have := hdeps e he
          have hre := (ranked_spec w rank h e this.1).1
          exact ⟨e, he, (ih e (fun _ => by omega)).mp hd⟩
        · rintro ⟨e, he, hd⟩
          have := hdeps e he
          have hre := (ranked_spec w rank h e this.1).1
          exact ⟨e, he, (ih e (fun _ => by omega)).mpr hd⟩
      · have hn := node_none_of_ge w c hc
        simp [hn, Node.none]

/-! ## budgets that cannot run out -/

theorem charge_large (a a' : Allow) (l : Str) (n : Nat) (h : charge a l = some a')
    (hb : ∀ e ∈ a, (n : Int) + 1 < e.2) : keys a' = keys a ∧ ∀ e ∈ a', (n : Int) < e.2 := by
  obtain ⟨pre, k, b, post, e1, _, _, e4⟩ := charge_some_spec a a' l h
  subst e1
  have hbk := hb (k, b) (by simp)
  have hne : ¬ b - 1 = 0 := by simp only [] at hbk; omega
  simp only [hne, if_false] at e4
  subst e4
  refine ⟨by simp [keys], ?_⟩
  intro e he
  simp only [List.append_assoc, List.mem_append, List.mem_cons, List.not_mem_nil, or_false] at he
  rcases he with he | rfl | he
  · have := hb e (by simp [he]); omega
  · simp only [] at hbk ⊢; omega
  · have := hb e (by simp [he]); omega

theorem scan_large (a : Allow) (xs : List Str) (hb : ∀ e ∈ a, (xs.length : Int) < e.2) :
    scan a xs = xs.filter (fun l => (keys a).any (fun k => isInfix k l)) := by
  induction xs generalizing a with
  | nil => simp [scan]
  | cons x xs ih =>
    simp only [scan, List.filter_cons]
    cases hc : charge a x with
    | some a' =>
      have hb' : ∀ e ∈ a, ((xs.length : Nat) : Int) + 1 < e.2 + 1 := by
        intro e he; have := hb e he; simp only [List.length_cons] at this; omega
      obtain ⟨hk, hlt⟩ := charge_large a a' x xs.length hc (by
        intro e he; have := hb e he; simp only [List.length_cons] at this; omega)
      obtain ⟨k, hk1, hk2⟩ := charge_some_match a a' x hc
      have hany : (keys a).any (fun k => isInfix k x) = true := List.any_eq_true.mpr ⟨k, hk1, hk2⟩
      simp only [hany, if_true]
      rw [ih a' hlt, hk]
    | none =>
      have hany : (keys a).any (fun k => isInfix k x) = false := by
        rw [List.any_eq_false]
        intro k hk
        simp only [keys, List.mem_map] at hk
        obtain ⟨e, he, rfl⟩ := hk
        simp [(charge_none_iff a x).mp hc e he]
      simp only [hany, Bool.false_eq_true, if_false]
      exact ih a (fun e he => by have := hb e he; simp only [List.length_cons] at this; omega)


/-! ## the walk of get_registry_points -/

theorem pointAbove_iff (w : World) (c p : Comp) :
    PointAbove w c p ↔ ((w.node c).isPoint = true ∧ p = c) ∨
      ((w.node c).isPoint = false ∧ ∃ d ∈ (w.node c).dependents, PointAbove w d p) := by
  constructor
  · intro h
    cases h with
    | here g => exact Or.inl ⟨g, rfl⟩
    | step g hd hr => exact Or.inr ⟨g, _, hd, hr⟩
  · rintro (⟨g, rfl⟩ | ⟨g, d, hd, hr⟩)
    · exact PointAbove.here g
    · exact PointAbove.step g hd hr

/-- `regPoints` finds exactly the registry points above a datasource, at any depth, whenever the
fuel left exceeds its rank -/
theorem regPoints_spec (w : World) (rank : Comp → Nat) (h : rankedBy w rank = true) (p : Comp) :
    ∀ (f : Nat) (c : Comp), (c < w.nodes.length → rank c < f) →
      (p ∈ regPoints w f c ↔ PointAbove w c p) := by
  intro f
  induction f with
  | zero =>
    intro c hf
    simp only [regPoints, List.not_mem_nil, false_iff]
    intro hpa
    by_cases hc : c < w.nodes.length
    · have := hf hc; omega
    · have hn := node_none_of_ge w c hc
      rcases (pointAbove_iff w c p).mp hpa with ⟨g, _⟩ | ⟨_, d, hd, _⟩
      · simp [hn, Node.none] at g
      · simp [hn, Node.none] at hd
  | succ f ih =>
    intro c hf
    simp only [regPoints]
    rw [pointAbove_iff]
    by_cases g : (w.node c).isPoint = true
    · simp [g, eq_comm]
    · have g' : (w.node c).isPoint = false := by simpa using g
      simp only [g', Bool.false_eq_true, if_false, false_and, false_or, true_and, List.mem_flatMap]
      by_cases hc : c < w.nodes.length
      · obtain ⟨_, hdep, _⟩ := ranked_spec w rank h c hc
        have hfc := hf hc
        have key : ∀ d ∈ (w.node c).dependents,
            (p ∈ (if (w.node d).isPoint = true then [d] else regPoints w f d) ↔ PointAbove w d p) := by
          intro d hd
          have hdr := hdep d hd
          by_cases gd : (w.node d).isPoint = true
          · simp only [gd, if_true, List.mem_singleton]
            rw [pointAbove_iff]
            simp [gd]
          · simp only [gd, Bool.false_eq_true, if_false]
            exact ih d (fun _ => by omega)
        constructor
        · rintro ⟨d, hd, hm⟩; exact ⟨d, hd, (key d hd).mp hm⟩
        · rintro ⟨d, hd, hm⟩; exact ⟨d, hd, (key d hd).mpr hm⟩
      · have hn := node_none_of_ge w c hc
        simp [hn, Node.none]

/-! ### component types -/

theorem parent_below (tt : TypeTable) (h : declaredInOrder tt = true) (t p : Nat) (ht : t < tt.length)
    (hp : parentOf tt t = some p) : p < t := by
  unfold declaredInOrder at h
  rw [List.all_eq_true] at h
  have := h t (List.mem_range.mpr ht)
  simp [hp] at this
  exact this

theorem isSub_iff (tt : TypeTable) (h : declaredInOrder tt = true) (base : Nat) :
    ∀ (f t : Nat), t < f → t < tt.length → (isSub tt f t base = true ↔ Derives tt t base) := by
  intro f
  induction f with
  | zero => intro t h0; omega
  | succ f ih =>
    intro t htf htl
    constructor
    · intro hs
      simp only [isSub, Bool.or_eq_true, beq_iff_eq] at hs
      rcases hs with rfl | hs
      · exact Derives.refl _
      · cases hp : parentOf tt t with
        | none => simp [hp] at hs
        | some p =>
          simp only [hp] at hs
          have hpt := parent_below tt h t p htl hp
          exact Derives.step hp ((ih p (by omega) (by omega)).mp hs)
    · intro hd
      simp only [isSub, Bool.or_eq_true, beq_iff_eq]
      cases hd with
      | refl => exact Or.inl rfl
      | step hp hd' =>
        rename_i p
        have hpt := parent_below tt h t p htl hp
        right
        simp only [hp]
        exact (ih p (by omega) (by omega)).mpr hd'

end IV.Filters
