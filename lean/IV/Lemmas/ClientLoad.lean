import IV.Model.ClientLoad
/-! helper lemmas for C16: association-list dictionaries, `_update_dict`, the key invariant -/
namespace IV.ClientLoad
open IV.ClientVal IV.ClientConfig

theorem dget_dput (s : Dict) (k : Str) (v : PyVal) (k' : Str) :
    dget (dput s k v) k' = if k = k' then some v else dget s k' := by
  induction s with
  | nil => simp [dput, dget]
  | cons hd tl ih =>
    obtain ⟨a, b⟩ := hd
    simp only [dput]
    by_cases h : a = k
    · subst h; by_cases h2 : a = k' <;> simp [dget, h2]
    · simp only [h, if_false, dget]
      by_cases h2 : a = k'
      · subst h2; simp [h]; intro h3; exact absurd h3.symm h
      · simp [h2, ih]

/-- updating with a list of pairs: the last pair for a key wins, otherwise the old value stays -/
theorem dget_dupdate (d s : Dict) (k : Str) :
    dget (dupdate s d) k = (dlast d k).orElse (fun _ => dget s k) := by
  induction d generalizing s with
  | nil => simp [dupdate, dlast]
  | cons hd tl ih =>
    obtain ⟨a, b⟩ := hd
    have : dupdate s ((a, b) :: tl) = dupdate (dput s a b) tl := by simp [dupdate]
    rw [this, ih, dget_dput]
    simp only [dlast]
    cases h : dlast tl k <;> simp
    by_cases h2 : a = k <;> simp [h2]

theorem dget_updateDict (s d : Dict) (k : Str) :
    dget (updateDict s d) k = (dlast (effective d) k).orElse (fun _ => dget s k) := by
  simp [updateDict, dget_dupdate]

theorem dlast_filter (d : Dict) (p : Str → Bool) (k : Str) :
    dlast (d.filter (fun kv => p kv.1)) k = if p k then dlast d k else none := by
  induction d with
  | nil => simp [dlast]
  | cons hd tl ih =>
    obtain ⟨a, b⟩ := hd
    by_cases hp : p a
    · simp only [List.filter, hp, dlast, ih]
      by_cases hk : p k
      · simp [hk]
      · have : a ≠ k := fun e => hk (e ▸ hp)
        simp [hk, this]
    · simp only [List.filter, hp, dlast, ih]
      by_cases hk : p k
      · have : a ≠ k := fun e => hp (e ▸ hk)
        simp [hk, this]
        cases dlast tl k <;> rfl
      · simp [hk]

/-- every key `_update_dict` writes is an option of the table -/
theorem effective_known (d : Dict) (k : Str) (hk : k ∉ optNames) : dlast (effective d) k = none := by
  unfold effective
  simp only []
  rw [dlast_filter _ (fun k => optNames.contains k)]
  simp [hk]

/-- no name outside the option table has a value -/
def Known (s : Dict) : Prop := ∀ k, k ∉ optNames → dget s k = none

theorem known_nil : Known [] := fun _ _ => rfl

theorem known_updateDict (s d : Dict) (h : Known s) : Known (updateDict s d) := by
  intro k hk
  rw [dget_updateDict, effective_known d k hk]
  simpa using h k hk

theorem dget_map_keys (s : Dict) (f : Str → PyVal → PyVal) (k : Str) :
    dget (s.map (fun kv => (kv.1, f kv.1 kv.2))) k = (dget s k).map (f k) := by
  induction s with
  | nil => simp [dget]
  | cons hd tl ih =>
    obtain ⟨a, b⟩ := hd
    by_cases h : a = k
    · subst h; simp [dget]
    · simp [dget, h, ih]

/-- the value `fromCfg` leaves under key `k` -/
def fcVal (c : Cfg) (k : Str) (v : PyVal) : PyVal :=
  match attrOfName k with
  | some a => c a
  | none => v

theorem fromCfg_eq (c : Cfg) (s : Dict) :
    fromCfg c s = s.map (fun kv => (kv.1, fcVal c kv.1 kv.2)) := by
  unfold fromCfg
  congr 1
  funext kv
  obtain ⟨k, v⟩ := kv
  simp only [fcVal]
  cases h : attrOfName k <;> simp

theorem dget_fromCfg (c : Cfg) (s : Dict) (k : Str) :
    dget (fromCfg c s) k = (dget s k).map (fcVal c k) := by
  rw [fromCfg_eq, dget_map_keys s (fcVal c)]

theorem known_fromCfg (c : Cfg) (s : Dict) (h : Known s) : Known (fromCfg c s) := by
  intro k hk
  rw [dget_fromCfg, h k hk]; rfl

theorem finish_ok (env : Env) (s s' : Dict) (h : finish env s = .ok s') :
    s' = fromCfg (imply env (toCfg s)) s ∧
    truthy (imply env (toCfg s) Attr.raised_) = false ∧
    validate env (imply env (toCfg s)) = true := by
  unfold finish at h
  simp only [] at h
  have himp : Cfg.ofSnap (implySnap env (Cfg.snap (toCfg s))) = imply env (toCfg s) := rfl
  rw [himp] at h
  split at h
  · cases h
  · rename_i hr
    split at h
    · cases h
    · rename_i hg
      injection h with h
      refine ⟨h.symm, by simpa using hr, ?_⟩
      unfold firstGuard at hg
      unfold validate
      rw [List.findIdx?_eq_none_iff] at hg
      rw [List.all_eq_true]
      intro g hgm
      have := hg g hgm
      simpa using this

theorem dlast_dput_ne (d : Dict) (g k : Str) (x : PyVal) (h : g ≠ k) : dlast (dput d g x) k = dlast d k := by
  induction d with
  | nil => simp [dput, dlast, h]
  | cons hd tl ih =>
    obtain ⟨a, b⟩ := hd
    by_cases ha : a = g
    · have hak : a ≠ k := fun e => h (ha ▸ e)
      simp [dput, ha, dlast, h]
    · simp [dput, ha, dlast, ih]

/-- `_update_dict({'conf': v})` writes nothing but `conf` -/
theorem effective_conf (v : PyVal) (k : Str) (hk : k ≠ kConf) : dlast (effective [(kConf, v)]) k = none := by
  have hng : ¬ (kConf = kNoGpg) := by decide
  have hk' : ¬ (kConf = k) := fun e => hk e.symm
  unfold effective
  by_cases hp : kConf ∈ protectedNames
  · simp [List.filter, hp, dget, dlast]
  · by_cases ho : kConf ∈ optNames <;>
      simp [List.filter, hp, ho, dget, dlast, hng, hk']

/-- if `conf` may be written at all, a layer that contains it writes its last value -/
theorem effective_has_conf (d : Dict) (v : PyVal) (h : dlast d kConf = some v)
    (hp : kConf ∉ protectedNames) (ho : kConf ∈ optNames) : dlast (effective d) kConf = some v := by
  have hg : kGpg ≠ kConf := by decide
  have h1 : dlast (d.filter (fun kv => !protectedNames.contains kv.1)) kConf = some v := by
    rw [dlast_filter _ (fun k => !protectedNames.contains k)]
    simp [hp, h]
  unfold effective
  simp only []
  rw [dlast_filter _ (fun k => optNames.contains k)]
  simp only [List.contains_iff_mem, ho, if_true]
  split
  · split
    · rw [dlast_dput_ne _ _ _ _ hg]; exact h1
    · exact h1
  · exact h1

theorem findIdx?_agree {α : Type} (l : List α) (p q : α → Bool) (h : ∀ x ∈ l, p x = q x) :
    l.findIdx? p = l.findIdx? q := by
  induction l with
  | nil => rfl
  | cons a t ih =>
    simp only [List.findIdx?_cons, h a (by simp)]
    rw [ih (fun x hx => h x (by simp [hx]))]

/-- the last raw text a file section holds for a key -/
def lastRaw : List (Str × Str) → Str → Option Str
  | [], _ => none
  | (k', v) :: r, k => match lastRaw r k with
    | some w => some w
    | none => if k' = k then some v else none

theorem coerceAll_cons (k v : Str) (r : List (Str × Str)) (d : Dict) (h : coerceAll ((k, v) :: r) = some d) :
    ∃ x d', fileCoerce k v = some x ∧ coerceAll r = some d' ∧ d = (k, x) :: d' := by
  simp only [coerceAll] at h
  cases hx : fileCoerce k v with
  | none => simp [hx] at h
  | some x =>
    cases hd : coerceAll r with
    | none => simp [hx, hd] at h
    | some d' => simp [hx, hd] at h; exact ⟨x, d', rfl, rfl, h.symm⟩

theorem lastRaw_valid (items : List (Str × Str)) (d : Dict) (h : coerceAll items = some d) (k w : Str)
    (hw : lastRaw items k = some w) : ∃ x, fileCoerce k w = some x := by
  induction items generalizing d with
  | nil => simp [lastRaw] at hw
  | cons hd tl ih =>
    obtain ⟨k', v⟩ := hd
    obtain ⟨x, d', hx, hd', _⟩ := coerceAll_cons k' v tl d h
    simp only [lastRaw] at hw
    cases hl : lastRaw tl k with
    | some w' => rw [hl] at hw; injection hw with hw; subst hw; exact ih d' hd' hl
    | none =>
      rw [hl] at hw
      by_cases hk : k' = k
      · simp [hk] at hw; subst hw; subst hk; exact ⟨x, hx⟩
      · simp [hk] at hw

theorem dlast_coerced (items : List (Str × Str)) (d : Dict) (h : coerceAll items = some d) (k : Str) :
    dlast d k = (lastRaw items k).bind (fileCoerce k) := by
  induction items generalizing d with
  | nil => simp [coerceAll] at h; subst h; rfl
  | cons hd tl ih =>
    obtain ⟨k', v⟩ := hd
    obtain ⟨x, d', hx, hd', e⟩ := coerceAll_cons k' v tl d h
    subst e
    simp only [dlast, lastRaw, ih d' hd']
    cases hl : lastRaw tl k with
    | some w =>
      obtain ⟨y, hy⟩ := lastRaw_valid tl d' hd' k w hl
      simp [hy]
    | none =>
      by_cases hk : k' = k
      · subst hk; simp [hx]
      · simp [hk]

/-- the stages of a successful `loadAll` -/
theorem loadAll_ok (inp : Input) (s : Dict) (h : loadAll inp = .ok s) :
    ∃ s0 cli0 s1, construct inp = .ok s0 ∧ cliDict inp.cli = .dict cli0 ∧
      preImply inp s0 (dofPairs cli0) = .ok s1 ∧
      finish (concreteEnv inp.facts inp.printErrors (some (dofPairs cli0))) s1 = .ok s := by
  unfold loadAll at h
  cases hc : construct inp with
  | ok s0 =>
    simp only [hc] at h
    cases hd : cliDict inp.cli with
    | dict cli0 =>
      simp only [hd] at h
      cases hp : preImply inp s0 (dofPairs cli0) with
      | ok s1 => simp only [hp] at h; exact ⟨s0, cli0, s1, rfl, rfl, hp, h⟩
      | valueError m => simp [hp] at h
      | exit => simp [hp] at h
      | bad => simp [hp] at h
    | exit => simp [hd] at h
    | bad => simp [hd] at h
  | valueError m => simp [hc] at h
  | exit => simp [hc] at h
  | bad => simp [hc] at h

end IV.ClientLoad
