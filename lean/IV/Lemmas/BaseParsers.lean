import IV.Model.BaseParsers
/-!
Helper lemmas for C14 (IV.BaseParsers): substring search, the start-line scan, the `get` loop,
the `get_after` state machine and the calendar arithmetic of the year inference.
-/
namespace IV.BaseParsers

/-! ### `startswith` / `in` -/

theorem isPrefix_iff (p s : Str) : isPrefix p s = true ↔ ∃ t, s = p ++ t := by
  induction p generalizing s with
  | nil => simp [isPrefix]
  | cons a p ih =>
    cases s with
    | nil => simp [isPrefix]
    | cons c cs =>
      simp only [isPrefix, Bool.and_eq_true, beq_iff_eq, ih, List.cons_append, List.cons.injEq]
      constructor
      · rintro ⟨rfl, t, rfl⟩; exact ⟨t, rfl, rfl⟩
      · rintro ⟨t, rfl, rfl⟩; exact ⟨rfl, t, rfl⟩

/-- `needle in hay` ⟺ `hay` is `a ++ needle ++ b` for some `a`, `b`: any position -/
theorem contains_iff (n h : Str) : contains n h = true ↔ ∃ a b, h = a ++ n ++ b := by
  induction h with
  | nil =>
    simp only [contains, isPrefix_iff]
    constructor
    · rintro ⟨t, ht⟩; exact ⟨[], t, by simpa using ht⟩
    · rintro ⟨a, b, hab⟩
      have h1 : a = [] := by cases a <;> simp_all
      subst h1; exact ⟨b, by simpa using hab⟩
  | cons c cs ih =>
    simp only [contains, Bool.or_eq_true, isPrefix_iff, ih]
    constructor
    · rintro (⟨t, ht⟩ | ⟨a, b, hab⟩)
      · exact ⟨[], t, by simpa using ht⟩
      · exact ⟨c :: a, b, by simp [hab]⟩
    · rintro ⟨a, b, hab⟩
      cases a with
      | nil => left; exact ⟨b, by simpa using hab⟩
      | cons x a =>
        right
        simp only [List.cons_append, List.cons.injEq] at hab
        exact ⟨a, b, hab.2⟩

theorem asciiLower_append (a b : Str) : asciiLower (a ++ b) = asciiLower a ++ asciiLower b := by
  simp [asciiLower]

/-! ### CommandParser -/

theorem hasBad_iff (lower : Str → Str) (bad : List Str) (rs : List Line) :
    hasBad lower bad rs = true ↔ ∃ p ∈ bad, ∃ l ∈ rs, contains p (lower l) = true := by
  simp [hasBad, List.any_eq_true]

/-- what `validate_lines` looks for: single-line output is checked against the single-line phrases,
multi-line output against the multi-line phrases, in both cases on the LOWER-CASED line with the
phrase AS GIVEN -/
def BadOutput (lower : Str → Str) (single multi : List Str) (content : List Line) : Prop :=
  (∃ l, content = [l] ∧ ∃ p ∈ single, contains p (lower l) = true) ∨
  (content.length > 1 ∧ ∃ l ∈ content, ∃ p ∈ multi, contains p (lower l) = true)

theorem validateLines_false_iff (lower : Str → Str) (single multi : List Str) (content : List Line) :
    validateLines lower content single multi = false ↔ BadOutput lower single multi content := by
  unfold validateLines BadOutput
  match content with
  | [] => simp
  | [l] =>
    simp only [List.isEmpty_cons, Bool.false_eq_true, ↓reduceIte, List.length_singleton,
      Nat.lt_irrefl, Bool.not_eq_eq_eq_not, Bool.not_false, hasBad_iff, List.mem_singleton,
      exists_eq_left, List.cons.injEq, and_true, gt_iff_lt, false_and, or_false]
    constructor
    · rintro ⟨p, hp, h⟩; exact ⟨l, rfl, p, hp, h⟩
    · rintro ⟨l', rfl, p, hp, h⟩; exact ⟨p, hp, h⟩
  | l1 :: l2 :: rest =>
    simp only [List.isEmpty_cons, Bool.false_eq_true, ↓reduceIte, List.length_cons,
      Bool.not_eq_eq_eq_not, Bool.not_false, hasBad_iff]
    constructor
    · rintro ⟨p, hp, l, hl, h⟩
      right; exact ⟨by omega, l, hl, p, hp, h⟩
    · rintro (⟨l, hl, _⟩ | ⟨_, l, hl, p, hp, h⟩)
      · simp at hl
      · have : rest.length + 1 + 1 > 1 := by omega
        simp only [this, ↓reduceIte]
        exact ⟨p, hp, l, hl, h⟩

theorem badOutput_nonempty {lower : Str → Str} {single multi : List Str} {content : List Line}
    (h : BadOutput lower single multi content) : content ≠ [] := by
  rcases h with ⟨l, rfl, _⟩ | ⟨hl, _⟩
  · simp
  · intro h; subst h; simp at hl

theorem cmdValid_false_iff (lower : Str → Str) (single multi extra : List Str) (content : List Line) :
    cmdValid lower single multi extra content = false ↔
      (BadOutput lower single multi content ∨ BadOutput lower extra extra content) := by
  unfold cmdValid
  rw [← validateLines_false_iff, ← validateLines_false_iff]
  cases h1 : validateLines lower content single multi <;>
  cases h2 : validateLines lower content extra extra <;>
  cases h3 : extra.isEmpty <;> simp
  have he : extra = [] := List.isEmpty_iff.mp h3
  subst he
  simp [validateLines, hasBad] at h2


/-! ### JSON start-line scan -/

theorem findStart_noise (k : Nat) (noise : List Line) (d : Line) (rest : List Line)
    (hn : ∀ l ∈ noise, startsDoc l = false) (hd : startsDoc d = true) :
    findStart k (noise ++ d :: rest) = some (k + noise.length) := by
  induction noise generalizing k with
  | nil => simp [findStart, hd]
  | cons n ns ih =>
    have h1 : startsDoc n = false := hn n (by simp)
    simp only [List.cons_append, findStart, h1, Bool.false_eq_true, ↓reduceIte, List.length_cons]
    rw [ih (k + 1) (fun l hl => hn l (by simp [hl]))]
    congr 1; omega

theorem findStart_none (k : Nat) (ls : List Line) (hn : ∀ l ∈ ls, startsDoc l = false) :
    findStart k ls = none := by
  induction ls generalizing k with
  | nil => rfl
  | cons n ns ih =>
    simp only [findStart, hn n (by simp), Bool.false_eq_true, ↓reduceIte]
    exact ih (k + 1) (fun l hl => hn l (by simp [hl]))


/-! ### the `get` loop -/

theorem getLoop_none (p : Line → Bool) (ret ls : List Line) :
    getLoop p none ret ls = ret ++ ls.filter p := by
  induction ls generalizing ret with
  | nil => simp [getLoop]
  | cons l ls ih =>
    simp only [getLoop, Bool.true_and, List.filter_cons]
    split <;> simp [ih]

theorem getLoop_some (p : Line → Bool) (n : Int) (ret ls : List Line) :
    getLoop p (some n) ret ls = ret ++ (ls.filter p).take (n.toNat - ret.length) := by
  induction ls generalizing ret with
  | nil => simp [getLoop]
  | cons l ls ih =>
    simp only [getLoop, List.filter_cons]
    by_cases hp : p l = true
    · by_cases hr : (ret.length : Int) < n
      · have h1 : n.toNat - ret.length = (n.toNat - (ret.length + 1)) + 1 := by omega
        simp only [hr, decide_true, hp, Bool.and_self, ↓reduceIte, ih, List.length_append,
          List.length_singleton, h1, List.take_succ_cons, List.append_assoc, List.singleton_append]
      · have h1 : n.toNat - ret.length = 0 := by omega
        simp [hr, hp, ih, h1]
    · simp [hp, ih]

/-- `num` as a number of lines: `None` ↦ no limit, a negative number ↦ 0 -/
def limit (num : Option Int) (total : Nat) : Nat :=
  match num with | none => total | some n => n.toNat

theorem getLoop_eq (p : Line → Bool) (num : Option Int) (ls : List Line) :
    getLoop p num [] ls = (ls.filter p).take (limit num (ls.filter p).length) := by
  cases num with
  | none => simp [getLoop_none, limit]
  | some n => simp [getLoop_some, limit]


/-! ### the `get_after` state machine -/

/-- the `continue` filter is the same as running the loop over the kept lines -/
theorem afterGo_filter (keep : Line → Bool) (st : Line → Option (Option Time)) (thr : Time) (inc : Bool) (ls : List Line) :
    afterGo keep st thr inc ls = afterGo (fun _ => true) st thr inc (ls.filter keep) := by
  induction ls generalizing inc with
  | nil => simp [afterGo]
  | cons l ls ih =>
    by_cases hk : keep l = true
    · simp only [List.filter_cons, hk, ↓reduceIte]
      rw [afterGo, afterGo]
      simp only [hk, Bool.not_true, Bool.false_eq_true, ↓reduceIte]
      cases st l with
      | none => cases inc <;> simp [ih]
      | some o =>
        cases o with
        | none => rfl
        | some t => simp only [ih]
    · simp only [List.filter_cons, hk, Bool.false_eq_true, ↓reduceIte]
      rw [afterGo]
      simp [hk, ih]

/-- every line paired with the time of the nearest timestamped line at or before it (`prev` = the one
inherited from the lines before) -/
def owner (tm : Line → Option Time) : Option Time → List Line → List (Line × Option Time)
  | _, [] => []
  | prev, l :: ls =>
    match tm l with
    | some t => (l, some t) :: owner tm (some t) ls
    | none => (l, prev) :: owner tm prev ls

def atOrAfter (thr : Time) (o : Option Time) : Bool :=
  match o with
  | some t => decide (t.micros ≥ thr.micros)
  | none => false

theorem afterGo_owner (st : Line → Option (Option Time)) (thr : Time) (prev : Option Time) (ls : List Line)
    (hok : ∀ l ∈ ls, st l ≠ some none) :
    afterGo (fun _ => true) st thr (atOrAfter thr prev) ls =
      some (((owner (fun l => (st l).join) prev ls).filter (fun e => atOrAfter thr e.2)).map (·.1)) := by
  induction ls generalizing prev with
  | nil => simp [afterGo, owner]
  | cons l ls ih =>
    have hl := hok l (by simp)
    have ih' := fun prev => ih prev (fun x hx => hok x (by simp [hx]))
    rw [afterGo, owner]
    simp only [Bool.not_true, Bool.false_eq_true, ↓reduceIte]
    cases hs : st l with
    | none =>
      simp only [Option.join_none]
      cases hp : atOrAfter thr prev
      · have := ih' prev; rw [hp] at this
        simp [this, hp]
      · have := ih' prev; rw [hp] at this
        simp [this, hp]
    | some o =>
      cases o with
      | none => exact absurd hs hl
      | some t =>
        simp only [Option.join_some]
        by_cases hge : t.micros ≥ thr.micros
        · have := ih' (some t)
          simp only [atOrAfter, hge, decide_true] at this
          simp [hge, this, atOrAfter]
        · have := ih' (some t)
          simp only [atOrAfter, hge, decide_false] at this
          simp [hge, this, atOrAfter]

theorem afterGo_error_iff (st : Line → Option (Option Time)) (thr : Time) (inc : Bool) (ls : List Line) :
    afterGo (fun _ => true) st thr inc ls = none ↔ ∃ l ∈ ls, st l = some none := by
  induction ls generalizing inc with
  | nil => simp [afterGo]
  | cons l ls ih =>
    rw [afterGo]
    simp only [Bool.not_true, Bool.false_eq_true, ↓reduceIte, List.mem_cons, exists_eq_or_imp]
    cases hs : st l with
    | none => cases inc <;> simp [ih]
    | some o =>
      cases o with
      | none => simp
      | some t => by_cases hge : t.micros ≥ thr.micros <;> simp [hge, ih]

theorem owner_lines (tm : Line → Option Time) (prev : Option Time) (ls : List Line) :
    (owner tm prev ls).map (·.1) = ls := by
  induction ls generalizing prev with
  | nil => rfl
  | cons l ls ih => rw [owner]; cases tm l <;> simp [ih]

/-- the nearest stamp at or before the end of `xs` -/
def lastStamp (tm : Line → Option Time) (prev : Option Time) : List Line → Option Time
  | [] => prev
  | l :: ls => lastStamp tm (match tm l with | some t => some t | none => prev) ls

theorem owner_append (tm : Line → Option Time) (prev : Option Time) (pre : List Line) (l : Line) (post : List Line) :
    owner tm prev (pre ++ l :: post) =
      owner tm prev pre ++ (l, lastStamp tm prev (pre ++ [l])) :: owner tm (lastStamp tm prev (pre ++ [l])) post := by
  induction pre generalizing prev with
  | nil =>
    simp only [List.nil_append, owner, lastStamp]
    cases tm l <;> simp
  | cons x xs ih =>
    simp only [List.cons_append, owner, lastStamp]
    cases tm x <;> simp [ih]

theorem lastStamp_snoc (tm : Line → Option Time) (prev : Option Time) (pre : List Line) (l : Line) :
    lastStamp tm prev (pre ++ [l]) = match tm l with | some t => some t | none => lastStamp tm prev pre := by
  induction pre generalizing prev with
  | nil => simp [lastStamp]
  | cons x xs ih => simp only [List.cons_append, lastStamp, ih]

/-! ### calendar arithmetic -/

theorem isLeap_iff (y : Nat) : isLeap y = true ↔ (y % 4 = 0 ∧ (y % 100 ≠ 0 ∨ y % 400 = 0)) := by
  simp [isLeap]

theorem daysBeforeYear_succ (y : Nat) (hy : 1 ≤ y) :
    daysBeforeYear (y + 1) = daysBeforeYear y + 365 + (if isLeap y then 1 else 0) := by
  unfold daysBeforeYear
  obtain ⟨p, rfl⟩ : ∃ p, y = p + 1 := ⟨y - 1, by omega⟩
  simp only [Nat.add_sub_cancel]
  have e4 : (p + 1) / 4 = p / 4 + (if (p + 1) % 4 = 0 then 1 else 0) := by split <;> omega
  have e100 : (p + 1) / 100 = p / 100 + (if (p + 1) % 100 = 0 then 1 else 0) := by split <;> omega
  have e400 : (p + 1) / 400 = p / 400 + (if (p + 1) % 400 = 0 then 1 else 0) := by split <;> omega
  have k1 : (p + 1) % 100 = 0 → (p + 1) % 4 = 0 := by omega
  have k2 : (p + 1) % 400 = 0 → (p + 1) % 100 = 0 := by omega
  have m4 : p / 100 ≤ p / 4 := by omega
  rw [e4, e100, e400]
  generalize p / 4 = a at *
  generalize p / 100 = b at *
  generalize p / 400 = c at *
  by_cases h4 : (p + 1) % 4 = 0 <;> by_cases h100 : (p + 1) % 100 = 0 <;> by_cases h400 : (p + 1) % 400 = 0 <;>
    simp [isLeap, h4, h100, h400] <;> first | omega | (exfalso; simp_all)

theorem month_cases (m : Nat) (h1 : 1 ≤ m) (h2 : m ≤ 12) :
    m = 1 ∨ m = 2 ∨ m = 3 ∨ m = 4 ∨ m = 5 ∨ m = 6 ∨ m = 7 ∨ m = 8 ∨ m = 9 ∨ m = 10 ∨ m = 11 ∨ m = 12 := by omega

/-- a month/day that exists in 1900 (a non-leap year) exists in every year -/
theorem validDate_of_1900 (y m d : Nat) (hy1 : 1 ≤ y) (hy2 : y ≤ 9999) (h : validDate 1900 m d = true) :
    validDate y m d = true := by
  simp only [validDate, Bool.and_eq_true, decide_eq_true_eq] at h ⊢
  obtain ⟨⟨⟨⟨⟨_, _⟩, hm1⟩, hm2⟩, hd1⟩, hd2⟩ := h
  refine ⟨⟨⟨⟨⟨hy1, hy2⟩, hm1⟩, hm2⟩, hd1⟩, ?_⟩
  rcases month_cases m hm1 hm2 with rfl|rfl|rfl|rfl|rfl|rfl|rfl|rfl|rfl|rfl|rfl|rfl <;>
    simp only [daysInMonth] at hd2 ⊢ <;> first | exact hd2 | (have : isLeap 1900 = false := by decide
                                                              simp only [this] at hd2
                                                              split <;> simp at hd2 ⊢ <;> omega)

/-- one year later the same month/day is 365 or 366 days further -/
theorem ordinal_succ_year (y m d : Nat) (hy : 1 ≤ y) :
    ordinal y m d + 365 ≤ ordinal (y + 1) m d ∧ ordinal (y + 1) m d ≤ ordinal y m d + 366 := by
  unfold ordinal daysBeforeMonth
  rw [daysBeforeYear_succ y hy]
  have hx : ¬ (isLeap y = true ∧ isLeap (y + 1) = true) := by
    rintro ⟨h1, h2⟩
    have a1 := ((isLeap_iff y).mp h1).1
    have a2 := ((isLeap_iff (y + 1)).mp h2).1
    omega
  by_cases hl : isLeap y = true <;> by_cases hl' : isLeap (y + 1) = true <;> by_cases hm : m > 2 <;>
    simp [hl, hl', hm] <;> first | omega | exact absurd ⟨hl, hl'⟩ hx

theorem mkTime_of_1900 (y m d tod : Nat) (hy1 : 1 ≤ y) (hy2 : y ≤ 9999) (h : validDate 1900 m d = true) (ht : tod < usPerDay) :
    mkTime y m d tod = some ⟨y, m, d, tod⟩ := by
  simp [mkTime, validDate_of_1900 y m d hy1 hy2 h, ht]


end IV.BaseParsers
