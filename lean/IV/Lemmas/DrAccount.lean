import IV.Lemmas.Dr
/-! What gets logged, against whom (C02/C03). -/
namespace IV.Dr

variable (w : World) (ss : Bool)

/-- the (target, exception) pairs the `except` ladder records for a result -/
def logged (c : Comp) : Result → List (Comp × Exc)
  | .stored _ excs => excs
  | .missingReq _ => []
  | .skipped e excs => excs ++ (if ss then [(c, e)] else [])
  | .raised e excs => excs ++ [(c, e)] ++ (w.regPoints c).map (·, e)
  | .blacklisted excs => excs ++ [(c, .blacklisted)]

theorem applyResult_excLog_eq (b : Broker) (c : Comp) (r : Result) :
    (applyResult w ss b c r).excLog = b.excLog ++ tag c (logged w ss c r) := by
  cases r <;> simp [applyResult, logged, tag]

/-- the exceptions recorded while parsing the elements of a multi-output spec are all against the parser -/
theorem elemFold_targets (c : Comp) (coe : Bool) (xs : List Nat) (s : ElemState)
    (h : ∀ te ∈ s.excs, te.1 = c) : ∀ te ∈ (xs.foldl (elemStep w c coe ss) s).excs, te.1 = c := by
  induction xs generalizing s with
  | nil => simpa using h
  | cons x xs ih =>
    simp only [List.foldl_cons]
    apply ih
    unfold elemStep
    split
    · exact h
    · split
      · exact h
      · exact h
      · split
        · intro te hte
          simp only [List.mem_append, List.mem_singleton] at hte
          rcases hte with hte | hte
          · exact h te hte
          · rw [hte]
        · exact h
      · intro te hte
        simp only [List.mem_append, List.mem_singleton] at hte
        rcases hte with hte | hte
        · exact h te hte
        · rw [hte]

theorem pluginFault_targets (c : Comp) (e : Exc) : ∀ te ∈ logged w ss c (pluginFault c e), te.1 = c ∨ te.1 ∈ w.regPoints c := by
  intro te hte
  cases e <;> simp [pluginFault, logged] at hte <;>
    first
    | (rcases hte with h | h | h <;> first | (left; rw [h]) | (right; obtain ⟨a, ha, rfl⟩ := h; exact ha))
    | (rcases hte with h | h <;> first | (left; rw [h]) | (left; rw [h.2]) | (right; obtain ⟨a, ha, rfl⟩ := h; exact ha))
    | (left; rw [hte])
    | (left; rw [hte.2])
    | skip

end IV.Dr

namespace IV.Dr

variable (w : World) (ss : Bool)

/-- close a goal `t = c ∨ t ∈ regPoints c` from a simp-normalised membership hypothesis -/
macro "targets_close" hte:ident : tactic => `(tactic| (first | grind | (simp_all; done)))

theorem invoke_targets (c : Comp) (d : Decl) (i : Inst) :
    ∀ te ∈ logged w ss c (invoke w ss c d i), te.1 = c ∨ te.1 ∈ w.regPoints c := by
  intro ⟨t, e'⟩ hte
  show t = c ∨ t ∈ w.regPoints c
  unfold invoke at hte
  cases hk : d.kind with
  | plain =>
    simp only [hk] at hte
    cases hb : w.body c (d.deps.map i) with
    | value v => simp [hb, logged] at hte
    | fault e => cases e <;> simp [hb, logged] at hte <;> targets_close hte
  | plugin =>
    simp only [hk] at hte
    cases hb : w.body c (d.deps.map i) with
    | value v => simp [hb, logged] at hte
    | fault e => simp only [hb] at hte; exact pluginFault_targets w ss c e (t, e') hte
  | rule =>
    simp only [hk] at hte
    cases hb : w.body c (d.deps.map i) with
    | value v => cases v <;> simp [hb, logged] at hte <;> targets_close hte
    | fault e => simp only [hb] at hte; exact pluginFault_targets w ss c e (t, e') hte
  | datasource =>
    simp only [hk] at hte
    cases hb : w.body c (d.deps.map i) with
    | value v => simp [hb, logged] at hte
    | fault e => cases e <;> simp [hb, logged] at hte <;> targets_close hte
  | parser coe =>
    simp only [hk] at hte
    cases hr : d.requires.head? with
    | none => simp [hr, logged] at hte; targets_close hte
    | some r =>
      simp only [hr] at hte
      have hfold : ∀ xs : List Nat, ∀ te ∈ (xs.foldl (elemStep w c coe ss) ⟨[], [], false⟩).excs, te.1 = c :=
        fun xs => elemFold_targets w ss c coe xs _ (by simp)
      cases hv : getVal i r with
      | multi xs =>
        simp only [hv] at hte
        split at hte
        · simp only [logged, List.mem_append] at hte
          rcases hte with h | h
          · left; exact hfold xs (t, e') h
          · split at h
            · simp at h; left; exact h.1
            · simp at h
        · split at hte
          · simp only [logged, List.mem_append] at hte
            rcases hte with h | h
            · left; exact hfold xs (t, e') h
            · split at h
              · simp at h; left; exact h.1
              · simp at h
          · simp only [logged] at hte
            left; exact hfold xs (t, e') hte
      | none | atom _ | resp _ | skipResp _ _ | noneResp =>
        simp only [hv] at hte
        split at hte <;> simp [logged] at hte <;> targets_close hte

/-- nothing is recorded against any other component: every recorded pair targets the component
being processed or one of its registry points -/
theorem process_targets (c : Comp) (d : Decl) (i : Inst) :
    ∀ te ∈ logged w ss c (process w ss c d i), te.1 = c ∨ te.1 ∈ w.regPoints c := by
  intro te hte
  unfold process at hte
  split at hte
  · simp only [logged, List.nil_append] at hte
    split at hte
    · simp at hte; left; rw [hte]
    · simp at hte
  · split at hte
    · split at hte <;> simp [logged] at hte
    · exact invoke_targets w ss c d i te hte

end IV.Dr

/-! ### with skip recording off no skip is recorded (round 10) -/
namespace IV.Dr

variable (w : World)

theorem elemStep_noskip (c : Comp) (coe : Bool) (s : ElemState) (x : Nat)
    (h : ∀ te ∈ s.excs, te.2 ≠ Exc.skip) : ∀ te ∈ (elemStep w c coe false s x).excs, te.2 ≠ Exc.skip := by
  unfold elemStep
  by_cases hf : s.failed = true
  · simpa [hf] using h
  · cases hb : w.elemBody c x with
    | value n => simpa [hf, hb] using h
    | noResult => simpa [hf, hb] using h
    | fault e =>
      cases e <;> simp only [hf, hb, if_false, Bool.false_eq_true] <;>
        first
        | exact h
        | (intro te hte
           simp only [List.mem_append, List.mem_singleton] at hte
           rcases hte with hte | hte
           · exact h te hte
           · rw [hte]; simp)

theorem elemFold_noskip (c : Comp) (coe : Bool) (xs : List Nat) (s : ElemState)
    (h : ∀ te ∈ s.excs, te.2 ≠ Exc.skip) : ∀ te ∈ (xs.foldl (elemStep w c coe false) s).excs, te.2 ≠ Exc.skip := by
  induction xs generalizing s with
  | nil => simpa using h
  | cons x xs ih => simp only [List.foldl_cons]; exact ih _ (elemStep_noskip w c coe s x h)

theorem pluginFault_noskip (c : Comp) (e : Exc) : ∀ te ∈ logged w false c (pluginFault c e), te.2 ≠ Exc.skip := by
  intro te hte
  cases e <;> simp [pluginFault, logged] at hte <;> first | (rcases hte with h | h <;> simp_all; done) | (simp_all; done) | grind

theorem invoke_noskip (c : Comp) (d : Decl) (i : Inst) :
    ∀ te ∈ logged w false c (invoke w false c d i), te.2 ≠ Exc.skip := by
  intro ⟨t, e'⟩ hte
  show e' ≠ Exc.skip
  unfold invoke at hte
  cases hk : d.kind with
  | plain =>
    simp only [hk] at hte
    cases hb : w.body c (d.deps.map i) with
    | value v => simp [hb, logged] at hte
    | fault e => cases e <;> simp [hb, logged] at hte <;> first | grind | (simp_all; done)
  | plugin =>
    simp only [hk] at hte
    cases hb : w.body c (d.deps.map i) with
    | value v => simp [hb, logged] at hte
    | fault e => simp only [hb] at hte; exact pluginFault_noskip w c e (t, e') hte
  | rule =>
    simp only [hk] at hte
    cases hb : w.body c (d.deps.map i) with
    | value v => cases v <;> simp [hb, logged] at hte <;> first | grind | (simp_all; done)
    | fault e => simp only [hb] at hte; exact pluginFault_noskip w c e (t, e') hte
  | datasource =>
    simp only [hk] at hte
    cases hb : w.body c (d.deps.map i) with
    | value v => simp [hb, logged] at hte
    | fault e => cases e <;> simp [hb, logged] at hte <;> first | grind | (simp_all; done)
  | parser coe =>
    simp only [hk] at hte
    cases hr : d.requires.head? with
    | none => simp [hr, logged] at hte; first | grind | (simp_all; done)
    | some r =>
      simp only [hr] at hte
      have hfold : ∀ xs : List Nat, ∀ te ∈ (xs.foldl (elemStep w c coe false) ⟨[], [], false⟩).excs, te.2 ≠ Exc.skip :=
        fun xs => elemFold_noskip w c coe xs _ (by simp)
      cases hv : getVal i r with
      | multi xs =>
        simp only [hv] at hte
        split at hte
        · simp only [logged, List.mem_append, Bool.false_eq_true, if_false, List.not_mem_nil, or_false] at hte
          exact hfold xs (t, e') hte
        · split at hte
          · simp only [logged, List.mem_append, Bool.false_eq_true, if_false, List.not_mem_nil, or_false] at hte
            exact hfold xs (t, e') hte
          · simp only [logged] at hte
            exact hfold xs (t, e') hte
      | none | atom _ | resp _ | skipResp _ _ | noneResp =>
        simp only [hv] at hte
        split at hte <;> simp [logged] at hte <;> first | grind | (simp_all; done)

theorem process_noskip (c : Comp) (d : Decl) (i : Inst) :
    ∀ te ∈ logged w false c (process w false c d i), te.2 ≠ Exc.skip := by
  intro te hte
  unfold process at hte
  split at hte
  · simp [logged] at hte
  · split at hte
    · split at hte <;> simp [logged] at hte
    · exact invoke_noskip w c d i te hte

end IV.Dr
