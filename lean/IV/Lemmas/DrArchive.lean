import IV.Lemmas.Toposort
/-! helper lemmas about the loaded-archive pruning loop of `dr.run` (model: `archivePrune`) -/
namespace IV.Dr

theorem archivePruneStep_sublist (seed : Inst) (c : Comp) (og : Option Graph) (g0 g' : Graph)
    (hinv : ∀ g, og = some g → g.Sublist g0) (h : archivePruneStep seed og c = some g') : g'.Sublist g0 := by
  unfold archivePruneStep at h
  cases og with
  | none => simp at h
  | some g =>
    have hg := hinv g rfl
    simp only [Option.bind_some] at h
    split at h
    · split at h
      · simp only [Option.some.injEq] at h
        rw [← h]; exact (List.filter_sublist).trans hg
      · simp at h
    · simp only [Option.some.injEq] at h
      rw [← h]; exact hg

theorem foldl_prune_sublist (seed : Inst) (g0 : Graph) : ∀ (ks : List Comp) (og : Option Graph) (g' : Graph),
    (∀ g, og = some g → g.Sublist g0) → ks.foldl (archivePruneStep seed) og = some g' → g'.Sublist g0 := by
  intro ks
  induction ks with
  | nil => intro og g' hinv h; simp only [List.foldl_nil] at h; exact hinv g' h
  | cons k ks ih =>
    intro og g' hinv h
    simp only [List.foldl_cons] at h
    exact ih (archivePruneStep seed og k) g' (fun g hg => archivePruneStep_sublist seed k og g0 g hinv hg) h

theorem archivePrune_sublist (seed : Inst) (g g' : Graph) (h : archivePrune seed g = some g') : g'.Sublist g :=
  foldl_prune_sublist seed g g.keys (some g) g' (fun g1 h1 => by cases h1; exact List.Sublist.refl _) h


theorem foldl_prune_none (seed : Inst) : ∀ ks : List Comp, ks.foldl (archivePruneStep seed) none = none := by
  intro ks
  induction ks with
  | nil => rfl
  | cons k ks ih => simp only [List.foldl_cons]; simpa [archivePruneStep] using ih

theorem sublist_keys_nodup {g g0 : Graph} (hs : g.Sublist g0) (hk : g0.keys.Nodup) : g.keys.Nodup := by
  unfold Graph.keys at *
  exact (hs.map _).nodup hk


end IV.Dr
