import IV.Model.Dr
/-! Frame and invariant lemmas about `step` / `runComponents` (shared by C01–C04). -/
namespace IV.Dr

variable (w : World) (inG : Comp → Bool) (ss : Bool)

@[simp] theorem upd_same {α : Type} (f : Comp → α) (c : Comp) (v : α) : upd f c v c = v := by simp [upd]
theorem upd_other {α : Type} (f : Comp → α) (c d : Comp) (v : α) (h : d ≠ c) : upd f c v d = f d := by simp [upd, h]

/-! ### applyResult -/

theorem applyResult_attempts (b : Broker) (c : Comp) (r : Result) :
    (applyResult w ss b c r).attempts = b.attempts := by
  cases r <;> rfl

theorem applyResult_fired (b : Broker) (c : Comp) (r : Result) :
    (applyResult w ss b c r).fired = b.fired := by
  cases r <;> rfl

theorem applyResult_inst_other (b : Broker) (c d : Comp) (r : Result) (h : d ≠ c) :
    (applyResult w ss b c r).inst d = b.inst d := by
  cases r <;> simp [applyResult, upd, h]

theorem applyResult_missing_other (b : Broker) (c d : Comp) (r : Result) (h : d ≠ c) :
    (applyResult w ss b c r).missing d = b.missing d := by
  cases r <;> simp [applyResult, upd, h]

/-- everything a step appends to the exception log carries the stepping component as source -/
theorem applyResult_excLog (b : Broker) (c : Comp) (r : Result) :
    ∃ es : List (Comp × Exc), (applyResult w ss b c r).excLog = b.excLog ++ tag c es := by
  cases r with
  | stored v excs => exact ⟨excs, rfl⟩
  | missingReq m => exact ⟨[], by simp [applyResult, tag]⟩
  | skipped e excs => exact ⟨_, rfl⟩
  | raised e excs => exact ⟨_, rfl⟩
  | blacklisted excs => exact ⟨_, rfl⟩

/-! ### step -/

theorem step_fired (b : Broker) (c : Comp) : (step w inG ss b c).fired = b.fired ++ [c] := by
  unfold step
  split
  · split
    · simp [applyResult_fired]
    · rfl
  · rfl

theorem step_inst_other (b : Broker) (c d : Comp) (h : d ≠ c) : (step w inG ss b c).inst d = b.inst d := by
  unfold step
  split
  · split
    · simp only []; rw [applyResult_inst_other _ _ _ _ _ _ h]
    · rfl
  · rfl

theorem step_missing_other (b : Broker) (c d : Comp) (h : d ≠ c) : (step w inG ss b c).missing d = b.missing d := by
  unfold step
  split
  · split
    · simp only []; rw [applyResult_missing_other _ _ _ _ _ _ h]
    · rfl
  · rfl

/-- a value that is in the broker is never recomputed or overwritten -/
theorem step_inst_present (b : Broker) (c d : Comp) (h : present b.inst d = true) :
    (step w inG ss b c).inst d = b.inst d := by
  by_cases hdc : d = c
  · subst hdc
    unfold step
    have : guard w inG b.inst d = false := by simp [guard, h]
    simp [this]
  · exact step_inst_other w inG ss b c d hdc

theorem step_attempts (b : Broker) (c : Comp) :
    (step w inG ss b c).attempts = if guard w inG b.inst c then b.attempts ++ [c] else b.attempts := by
  unfold step
  by_cases hg : guard w inG b.inst c = true
  · simp only [hg, if_true]
    cases hd : w.decl c with
    | none => simp [guard, hd] at hg
    | some d => simp [applyResult_attempts]
  · simp [hg]

theorem step_excLog (b : Broker) (c : Comp) :
    ∃ es : List (Comp × Exc), (step w inG ss b c).excLog = b.excLog ++ tag c es := by
  unfold step
  split
  · split
    · obtain ⟨es, h⟩ := applyResult_excLog w ss { b with attempts := b.attempts ++ [c] } c
        (process w ss c ‹Decl› b.inst)
      exact ⟨es, by simpa using h⟩
    · exact ⟨[], by simp [tag]⟩
  · exact ⟨[], by simp [tag]⟩

/-! ### runComponents -/

theorem run_nil (b : Broker) : runComponents w inG ss [] b = b := rfl
theorem run_cons (b : Broker) (c : Comp) (o : List Comp) :
    runComponents w inG ss (c :: o) b = runComponents w inG ss o (step w inG ss b c) := rfl

theorem run_append (b : Broker) (o₁ o₂ : List Comp) :
    runComponents w inG ss (o₁ ++ o₂) b = runComponents w inG ss o₂ (runComponents w inG ss o₁ b) := by
  simp [runComponents, List.foldl_append]

theorem run_fired (o : List Comp) (b : Broker) : (runComponents w inG ss o b).fired = b.fired ++ o := by
  induction o generalizing b with
  | nil => simp [run_nil]
  | cons c o ih => rw [run_cons, ih, step_fired]; simp

theorem run_inst_other (o : List Comp) (b : Broker) (d : Comp) (h : d ∉ o) :
    (runComponents w inG ss o b).inst d = b.inst d := by
  induction o generalizing b with
  | nil => rfl
  | cons c o ih =>
    rw [run_cons, ih _ (fun m => h (by simp [m]))]
    exact step_inst_other w inG ss b c d (fun e => h (by simp [e]))

theorem run_missing_other (o : List Comp) (b : Broker) (d : Comp) (h : d ∉ o) :
    (runComponents w inG ss o b).missing d = b.missing d := by
  induction o generalizing b with
  | nil => rfl
  | cons c o ih =>
    rw [run_cons, ih _ (fun m => h (by simp [m]))]
    exact step_missing_other w inG ss b c d (fun e => h (by simp [e]))

theorem run_inst_present (o : List Comp) (b : Broker) (d : Comp) (h : present b.inst d = true) :
    (runComponents w inG ss o b).inst d = b.inst d := by
  induction o generalizing b with
  | nil => rfl
  | cons c o ih =>
    have hs := step_inst_present w inG ss b c d h
    rw [run_cons, ih _ (by simp [present, hs]; simpa [present] using h), hs]

/-- the attempts made by a run are a sub-list of the order -/
theorem run_attempts (o : List Comp) (b : Broker) :
    ∃ l, l.Sublist o ∧ (runComponents w inG ss o b).attempts = b.attempts ++ l ∧
      ∀ c ∈ l, present b.inst c = false ∧ inG c = true ∧ (w.decl c).isSome = true ∧ w.enabled c = true := by
  induction o generalizing b with
  | nil => exact ⟨[], List.Sublist.refl _, by simp [run_nil], by simp⟩
  | cons c o ih =>
    obtain ⟨l, hl, ha, hg⟩ := ih (step w inG ss b c)
    rw [run_cons, ha, step_attempts]
    have hpres : ∀ x ∈ l, present b.inst x = false := by
      intro x hx
      have := (hg x hx).1
      cases hb : present b.inst x with
      | false => rfl
      | true =>
        have := step_inst_present w inG ss b c x hb
        simp [present, this] at *
        simp_all
    by_cases hgd : guard w inG b.inst c = true
    · refine ⟨c :: l, hl.cons_cons c, by simp [hgd], ?_⟩
      intro x hx
      rcases List.mem_cons.mp hx with rfl | hx
      · simp only [guard, Bool.and_eq_true, Bool.not_eq_true'] at hgd
        exact ⟨hgd.1.1.1, hgd.1.1.2, hgd.1.2, hgd.2⟩
      · exact ⟨hpres x hx, (hg x hx).2⟩
    · refine ⟨l, hl.cons c, by simp [hgd], ?_⟩
      intro x hx
      exact ⟨hpres x hx, (hg x hx).2⟩

end IV.Dr
