import IV.Model.Incremental
import IV.Lemmas.DrOrder
/-!
Lemmas about the incremental / pooled drivers (`IV/Model/Incremental.lean`): which broker objects a task list names,
that a task touches only its own object, and that a sub-graph evaluated alone gives its members exactly what the single
pass over the whole graph gives them.
-/
namespace IV.Dr

/-! ### the identities `broker or Broker()` evaluates to -/

theorem brokerRefs_length (p : Option Ref) (next n : Nat) : (brokerRefs p next n).length = n := by
  induction n generalizing next with
  | zero => rfl
  | succ n ih => cases p <;> simp [brokerRefs, ih]

theorem brokerRefs_none_ge (next n : Nat) : ∀ r ∈ brokerRefs none next n, next ≤ r := by
  induction n generalizing next with
  | zero => intro r h; simp [brokerRefs] at h
  | succ n ih =>
    intro r h
    simp only [brokerRefs, List.mem_cons] at h
    rcases h with h | h
    · rw [h]; exact Nat.le_refl _
    · have := ih (next + 1) r h; omega

theorem brokerRefs_none_nodup (next n : Nat) : (brokerRefs none next n).Nodup := by
  induction n generalizing next with
  | zero => simp [brokerRefs]
  | succ n ih =>
    simp only [brokerRefs, List.nodup_cons]
    refine ⟨?_, ih (next + 1)⟩
    intro h
    have := brokerRefs_none_ge (next + 1) n next h
    omega

theorem brokerRefs_some (r : Ref) (next n : Nat) : ∀ x ∈ brokerRefs (some r) next n, x = r := by
  induction n with
  | zero => intro x h; simp [brokerRefs] at h
  | succ n ih =>
    intro x h
    simp only [brokerRefs, List.mem_cons] at h
    rcases h with h | h
    · exact h
    · exact ih x h

theorem generate_refs (subs : List (List Comp)) (p : Option Ref) (next : Ref) :
    (generateIncremental subs p next).map (·.2) = brokerRefs p next subs.length := by
  unfold generateIncremental
  rw [List.map_snd_zip]
  rw [brokerRefs_length]; exact Nat.le_refl _

theorem generate_subs (subs : List (List Comp)) (p : Option Ref) (next : Ref) :
    (generateIncremental subs p next).map (·.1) = subs := by
  unfold generateIncremental
  rw [List.map_fst_zip]
  rw [brokerRefs_length]; exact Nat.le_refl _

/-! ### a task touches only the object it names -/

variable (w : World) (orderOf : List Comp → List Comp)

theorem runTask_other (h : Heap) (t : Task) (r : Ref) (hr : r ≠ t.2) : runTask w orderOf h t r = h r := by
  unfold runTask
  exact upd_other _ _ _ _ hr

theorem runTask_self (h : Heap) (t : Task) :
    runTask w orderOf h t t.2 =
      { h t.2 with broker := runComponents w (fun c => t.1.contains c) (h t.2).storeSkips (orderOf t.1) (h t.2).broker } := by
  unfold runTask
  simp [upd]

theorem runTasks_other (ts : List Task) (h : Heap) (r : Ref) (hr : r ∉ ts.map (·.2)) : runTasks w orderOf h ts r = h r := by
  induction ts generalizing h with
  | nil => rfl
  | cons t ts ih =>
    simp only [List.map_cons, List.mem_cons, not_or] at hr
    show runTasks w orderOf (runTask w orderOf h t) ts r = h r
    rw [ih _ hr.2, runTask_other w orderOf h t r hr.1]

/-- with pairwise different objects, the object of a task ends up as that task alone leaves it — wherever the task
stands in the list -/
theorem runTasks_own (ts : List Task) (h : Heap) (hn : (ts.map (·.2)).Nodup) (t : Task) (ht : t ∈ ts) :
    runTasks w orderOf h ts t.2 = runTask w orderOf h t t.2 := by
  induction ts generalizing h with
  | nil => simp at ht
  | cons a ts ih =>
    simp only [List.map_cons, List.nodup_cons] at hn
    show runTasks w orderOf (runTask w orderOf h a) ts t.2 = _
    rcases List.mem_cons.mp ht with rfl | ht'
    · exact runTasks_other w orderOf ts _ _ hn.1
    · have hne : t.2 ≠ a.2 := by
        intro e
        exact hn.1 (by rw [← e]; exact List.mem_map.mpr ⟨t, ht', rfl⟩)
      rw [ih _ hn.2 ht']
      rw [runTask_self, runTask_self, runTask_other w orderOf h a t.2 hne]

/-! ### a sub-graph evaluated alone vs the single pass over the whole graph -/

variable (ss : Bool)

theorem record_inG_congr (S G : Comp → Bool) (c : Comp) (i : Inst) (h : S c = G c) :
    record w S ss c i = record w G ss c i := by
  unfold record eligible
  rw [h]

/-- `S` is a part of the graph `G` that reads nothing of the rest of `G` (a union of connected sub-graphs whose members
are told to ignore no key of another sub-graph).  Evaluated alone (any valid order `oS`, only the members of `S`
evaluable) from the same seed, every member of `S` gets exactly the value, missing-dependency report and recorded
failures it gets in a single pass over `G` (any valid order `o`). -/
theorem subgraph_alone_eq_single (seed : Inst) (S G : Comp → Bool) (o oS : List Comp)
    (hv : Valid w G seed o) (hvS : Valid w S seed oS)
    (hsub : ∀ c, S c = true → G c = true)
    (hreads : ∀ c, S c = true → ∀ x ∈ w.reads c, S x = true ∨ G x = false)
    (hcov : ∀ c, S c = true → (c ∈ o ↔ c ∈ oS)) :
    let bG := runComponents w G ss o (Broker.seeded seed)
    let bS := runComponents w S ss oS (Broker.seeded seed)
    ∀ c, S c = true → bS.inst c = bG.inst c ∧ bS.missing c = bG.missing c ∧ excOf bS c = excOf bG c := by
  intro bG bS
  -- the single-pass instances, cut down to S (the seed elsewhere)
  let j : Inst := fun c => if c ∈ evald S oS then bG.inst c else seed c
  have hmemS : ∀ c, c ∈ evald S oS → S c = true := fun c hc => (List.mem_filter.mp hc).2
  have hmemG : ∀ c, c ∈ evald S oS → c ∈ evald G o := by
    intro c hc
    have hs := hmemS c hc
    exact List.mem_filter.mpr ⟨(hcov c hs).mpr (List.mem_filter.mp hc).1, hsub c hs⟩
  -- on everything a member of S reads, j is what the single pass holds
  have hjr : ∀ c, c ∈ evald S oS → ∀ x ∈ w.reads c, j x = bG.inst x := by
    intro c hc x hx
    by_cases hxe : x ∈ evald S oS
    · simp [j, hxe]
    · simp only [j, hxe, if_false]
      rcases hreads c (hmemS c hc) x hx with hxs | hxg
      · -- x is a member of S that is in neither order
        have hxo : x ∉ oS := fun m => hxe (List.mem_filter.mpr ⟨m, hxs⟩)
        have hxo' : x ∉ o := fun m => hxo ((hcov x hxs).mp m)
        exact ((run_view_out w G ss seed o x (fun m => hxo' (List.mem_filter.mp m).1)).1).symm
      · exact ((run_view_out w G ss seed o x (fun m => by
          have := (List.mem_filter.mp m).2; rw [hxg] at this; cases this)).1).symm
  have hentry : ∀ c, c ∈ evald S oS → ∀ i : Inst, (∀ x ∈ w.reads c, i x = bG.inst x) →
      entry w S ss seed c i = entry w G ss seed c bG.inst := by
    intro c hc i hi
    unfold entry
    rw [record_congr w S ss c i bG.inst hi, record_inG_congr w ss S G c bG.inst (by rw [hmemS c hc, hsub c (hmemS c hc)])]
  have hinst : ∀ c, bS.inst c = j c := by
    apply sol_unique w S ss seed oS hvS
    · intro c hc; exact (run_view_out w S ss seed oS c hc).1
    · intro c hc; simp [j, hc]
    · intro c hc; exact (run_view w S ss seed oS hvS c hc).1
    · intro c hc
      have h1 : j c = bG.inst c := by simp [j, hc]
      rw [h1, hentry c hc j (hjr c hc)]
      exact (run_view w G ss seed o hv c (hmemG c hc)).1
  intro c hs
  by_cases hc : c ∈ evald S oS
  · have hrd : ∀ x ∈ w.reads c, bS.inst x = bG.inst x := fun x hx => by rw [hinst x, hjr c hc x hx]
    have e := hentry c hc bS.inst hrd
    obtain ⟨a1, a2, a3⟩ := run_view w S ss seed oS hvS c hc
    obtain ⟨b1, b2, b3⟩ := run_view w G ss seed o hv c (hmemG c hc)
    exact ⟨by rw [a1, b1, e], by rw [a2, b2, e], by rw [a3, b3, e]⟩
  · have hco : c ∉ oS := fun m => hc (List.mem_filter.mpr ⟨m, hs⟩)
    have hco' : c ∉ o := fun m => hco ((hcov c hs).mp m)
    obtain ⟨a1, a2, a3⟩ := run_view_out w S ss seed oS c hc
    obtain ⟨b1, b2, b3⟩ := run_view_out w G ss seed o c (fun m => hco' (List.mem_filter.mp m).1)
    exact ⟨by rw [a1, b1], by rw [a2, b2], by rw [a3, b3]⟩

/-- restricting the evaluable set to something that agrees with it on the order changes nothing -/
theorem run_inG_congr (S G : Comp → Bool) (o : List Comp) (b : Broker) (h : ∀ c ∈ o, S c = G c) :
    runComponents w S ss o b = runComponents w G ss o b := by
  induction o generalizing b with
  | nil => rfl
  | cons c o ih =>
    rw [run_cons, run_cons]
    have hc : step w S ss b c = step w G ss b c := by
      unfold step guard
      rw [h c (by simp)]
    rw [hc]
    exact ih _ (fun x hx => h x (by simp [hx]))

/-- what a concatenation of orders evaluates -/
theorem mem_evald_flatten (inG : Comp → Bool) (os : List (List Comp)) (x : Comp) :
    x ∈ evald inG os.flatten ↔ ∃ o ∈ os, x ∈ evald inG o := by
  simp only [evald, List.mem_filter, List.mem_flatten]
  constructor
  · rintro ⟨⟨o, ho, hx⟩, hg⟩; exact ⟨o, ho, hx, hg⟩
  · rintro ⟨o, ho, hx, hg⟩; exact ⟨⟨o, ho, hx⟩, hg⟩


end IV.Dr
