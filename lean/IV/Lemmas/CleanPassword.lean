import IV.Model.CleanLine

/-
C08 — the password stage (insights/cleaner/password.py:12-36), first expression

  re.sub(r"(password[a-zA-Z0-9_]*)(\s*\:\s*\"*\s*|\s*\"*\s*=\s*\"\s*|\s*=+\s*|\s*--md5+\s*|\s*)(SECRET+)",
         r"\1\2********", line)       with SECRET = word characters, ! @ # $ % ^ & * ( ) + = / and '-'

`pwMatch1_accepted`: on `password` + word characters + a listed separator (`PwSep`) + a secret
(`Secret`) the model of the expression matches, keeps exactly key and separator and replaces exactly
the secret.  `subPw1_masks`: when that key is the first `password` on the line (`NoKeyBefore`) the
substitution keeps the text up to the secret, writes the eight stars, and continues after the secret.
-/
namespace IV.CleanLine

def Blank (b : Str) : Prop := ∀ c ∈ b, isSpace c = true
def Quotes (q : Str) : Prop := ∀ c ∈ q, c = '"'
/-- the separators between the password key and the secret that the first expression lists -/
inductive PwSep : Str → Prop where
  | colon (b1 b2 q b3 : Str) : Blank b1 → Blank b2 → Quotes q → Blank b3 → PwSep (b1 ++ ':' :: (b2 ++ (q ++ b3)))
  | eqQuote (b1 q b2 b3 b4 : Str) : Blank b1 → Quotes q → Blank b2 → Blank b3 → Blank b4 →
      PwSep (b1 ++ (q ++ (b2 ++ '=' :: (b3 ++ '"' :: b4))))
  | eq (b1 : Str) (n : Nat) (b2 : Str) : Blank b1 → Blank b2 → PwSep (b1 ++ (List.replicate (n + 1) '=' ++ b2))
  | md5 (b1 : Str) (n : Nat) (b2 : Str) : Blank b1 → Blank b2 → b2 ≠ [] →
      PwSep (b1 ++ ('-' :: '-' :: 'm' :: 'd' :: (List.replicate (n + 1) '5' ++ b2)))
  | blanks (b : Str) : Blank b → b ≠ [] → PwSep b
/-- a secret: non-empty, over the class of group 3, not starting with '=' or '-' -/
def Secret (x : Str) : Prop := (∃ c r, x = c :: r ∧ c ≠ '=' ∧ c ≠ '-') ∧ ∀ c ∈ x, isSecret c = true

/-! ### character facts -/

theorem pwLit_eq : pwLit = ['p','a','s','s','w','o','r','d'] := by decide

theorem isSpace_cases (c : Char) (h : isSpace c = true) :
    c.toNat ∈ [9,10,11,12,13,28,29,30,31,32,0x85,0xA0] := by
  simp [isSpace, inRng] at h
  simp
  omega

theorem isSpace_elim (P : Char → Prop)
    (hP : ∀ n ∈ [9,10,11,12,13,28,29,30,31,32,0x85,0xA0], P (Char.ofNat n)) (c : Char)
    (h : isSpace c = true) : P c := by
  have := hP _ (isSpace_cases c h)
  rwa [Char.ofNat_toNat] at this

theorem space_facts (c : Char) (h : isSpace c = true) :
    isSecret c = false ∧ isWordA c = false ∧ c ≠ '"' ∧ c ≠ ':' ∧ c ≠ '=' ∧ c ≠ '-' ∧ c ≠ '5' :=
  isSpace_elim (fun c => isSecret c = false ∧ isWordA c = false ∧ c ≠ '"' ∧ c ≠ ':' ∧ c ≠ '=' ∧
    c ≠ '-' ∧ c ≠ '5') (by decide) c h

theorem secret_facts (c : Char) (h : isSecret c = true) : isSpace c = false ∧ c ≠ '"' ∧ c ≠ ':' := by
  refine ⟨?_, ?_, ?_⟩
  · cases hs : isSpace c with
    | false => rfl
    | true => have := (space_facts c hs).1; rw [h] at this; cases this
  · rintro rfl; revert h; decide
  · rintro rfl; revert h; decide

/-! ### list helpers -/

theorem dropWhile_head (p : Char → Bool) : ∀ r : Str, headIs p r = false → r.dropWhile p = r
  | [], _ => rfl
  | c :: r, h => by
    have h' : p c = false := h
    simp [List.dropWhile, h']

theorem takeWhile_head (p : Char → Bool) : ∀ r : Str, headIs p r = false → r.takeWhile p = []
  | [], _ => rfl
  | c :: r, h => by
    have h' : p c = false := h
    simp [List.takeWhile, h']

theorem headIs_append (p : Char → Bool) (a r : Str) (ha : ∀ c ∈ a, p c = false)
    (hr : headIs p r = false) : headIs p (a ++ r) = false := by
  cases a with
  | nil => simpa using hr
  | cons c a => exact ha c (by simp)

theorem takeWhile_all_append (p : Char → Bool) (a r : Str) (ha : ∀ c ∈ a, p c = true)
    (hr : headIs p r = false) : (a ++ r).takeWhile p = a := by
  rw [List.takeWhile_append_of_pos ha, takeWhile_head p r hr, List.append_nil]

theorem ws_blank {b : Str} (hb : Blank b) (r : Str) : ws (b ++ r) = ws r :=
  List.dropWhile_append_of_pos hb

theorem ws_cons {c : Char} (h : isSpace c = false) (r : Str) : ws (c :: r) = c :: r :=
  dropWhile_head isSpace (c :: r) h

theorem ws_blank_cons {b : Str} {c : Char} (hb : Blank b) (hc : isSpace c = false) (r : Str) :
    ws (b ++ c :: r) = c :: r := by rw [ws_blank hb, ws_cons hc]

/-- the helper in the shape asked for -/
theorem ws_blank_append {b r : Str} (hb : Blank b) (hr : headIs isSpace r = false) : ws (b ++ r) = r := by
  rw [ws_blank hb]; exact dropWhile_head isSpace r hr

theorem dropQ_quotes {q : Str} (hq : Quotes q) (r : Str) :
    (q ++ r).dropWhile (· == '"') = r.dropWhile (· == '"') :=
  List.dropWhile_append_of_pos (by intro a ha; simp [hq a ha])

theorem dropQ_cons {c : Char} (h : c ≠ '"') (r : Str) : (c :: r).dropWhile (· == '"') = c :: r :=
  dropWhile_head _ (c :: r) (by simp [headIs, h])

theorem dropQ_blank_cons {b : Str} {c : Char} (hb : Blank b) (hc : c ≠ '"') (r : Str) :
    (b ++ c :: r).dropWhile (· == '"') = b ++ c :: r := by
  cases b with
  | nil => exact dropQ_cons hc r
  | cons s b => exact dropQ_cons (space_facts s (hb s (by simp))).2.2.1 _

/-- `\s*\"*\s*` read greedily -/
theorem skipQB {q b : Str} {c : Char} (hq : Quotes q) (hb : Blank b) (hs : isSpace c = false)
    (hc : c ≠ '"') (r : Str) :
    ws ((ws (q ++ (b ++ c :: r))).dropWhile (· == '"')) = c :: r := by
  cases q with
  | nil => rw [List.nil_append, ws_blank_cons hb hs, dropQ_cons hc, ws_cons hs]
  | cons d q =>
    have hd : d = '"' := hq d (by simp)
    subst hd
    have hq' : Quotes q := fun c hc => hq c (by simp [hc])
    rw [List.cons_append, ws_cons (by decide), ← List.cons_append, dropQ_quotes hq,
      dropQ_blank_cons hb hc, ws_blank_cons hb hs]

/-! ### the alternatives of group 2 -/

theorem alt1_none {s r : Str} {c : Char} (h : ws s = c :: r) (hc : c ≠ ':') : alt1 s = none := by
  simp [alt1, h, hc]

theorem alt1_some {s r R : Str} {c : Char} (h : ws s = ':' :: r)
    (h2 : ws ((ws r).dropWhile (· == '"')) = c :: R) (hc : isSecret c = true) :
    alt1 s = some (c :: R) := by
  simp [alt1, h, h2, headIs, hc]

theorem alt2_none_head {s r : Str} {c : Char} (h : ws ((ws s).dropWhile (· == '"')) = c :: r)
    (hc : c ≠ '=') : alt2 s = none := by
  simp [alt2, h, hc]

theorem alt2_none_eq {s r r2 : Str} {q : Char} (h : ws ((ws s).dropWhile (· == '"')) = '=' :: r)
    (h2 : ws r = q :: r2) (hq : q ≠ '"') : alt2 s = none := by
  simp [alt2, h, h2, hq]

theorem alt2_some {s r r2 R : Str} {c : Char} (h : ws ((ws s).dropWhile (· == '"')) = '=' :: r)
    (h2 : ws r = '"' :: r2) (h3 : ws r2 = c :: R) (hc : isSecret c = true) :
    alt2 s = some (c :: R) := by
  simp [alt2, h, h2, h3, headIs, hc]

theorem repBack_none (ch : Char) (r : Str) (h : headIs (· == ch) r = false) : repBack ch r = none := by
  simp [repBack, takeWhile_head _ r h]

theorem repBack_rep (ch : Char) (n : Nat) {b : Str} {c : Char} (R : Str) (hb : Blank b)
    (hh : headIs (· == ch) (b ++ c :: R) = false) (hs : isSpace c = false) (hc : isSecret c = true) :
    repBack ch (List.replicate (n + 1) ch ++ (b ++ c :: R)) = some (c :: R) := by
  have htw : (List.replicate (n + 1) ch ++ (b ++ c :: R)).takeWhile (· == ch) = List.replicate (n + 1) ch :=
    takeWhile_all_append _ _ _ (by intro a ha; simp [List.eq_of_mem_replicate ha]) hh
  unfold repBack
  simp only [htw, List.length_replicate]
  have hd : (List.replicate (n + 1) ch ++ (b ++ c :: R)).drop (n + 1) = b ++ c :: R := by
    simp
  rw [hd, ws_blank_cons hb hs]
  simp [headIs, hc]

theorem alt4_none {s r : Str} {c : Char} (h : ws s = c :: r) (hc : c ≠ '-') : alt4 s = none := by
  unfold alt4
  rw [h]
  split
  · rename_i heq
    cases heq
    simp [hc]
  · rfl

theorem alt4_md5 {s r : Str} (h : ws s = '-' :: '-' :: 'm' :: 'd' :: r) : alt4 s = repBack '5' r := by
  simp [alt4, h]

theorem alt5_some {s R : Str} {c : Char} (h : ws s = c :: R) (hc : isSecret c = true) :
    alt5 s = some (c :: R) := by
  simp [alt5, h, headIs, hc]


/-! ### group 2 on a listed separator -/

theorem blank_ne {b : Str} (hb : Blank b) (p : Char → Bool)
    (hp : ∀ c, isSpace c = true → p c = false) : ∀ c ∈ b, p c = false :=
  fun c hc => hp c (hb c hc)

theorem group2_1 {s r : Str} (h1 : alt1 s = some r) : group2 s = some r := by
  unfold group2; simp only [h1]
theorem group2_2 {s r : Str} (h1 : alt1 s = none) (h2 : alt2 s = some r) : group2 s = some r := by
  unfold group2; simp only [h1, h2]
theorem group2_3 {s r : Str} (h1 : alt1 s = none) (h2 : alt2 s = none) (h3 : alt3 s = some r) :
    group2 s = some r := by
  unfold group2; simp only [h1, h2, h3]
theorem group2_4 {s r : Str} (h1 : alt1 s = none) (h2 : alt2 s = none) (h3 : alt3 s = none)
    (h4 : alt4 s = some r) : group2 s = some r := by
  unfold group2; simp only [h1, h2, h3, h4]
theorem group2_5 {s r : Str} (h1 : alt1 s = none) (h2 : alt2 s = none) (h3 : alt3 s = none)
    (h4 : alt4 s = none) (h5 : alt5 s = some r) : group2 s = some r := by
  unfold group2; simp only [h1, h2, h3, h4, h5]

theorem group2_sep {sep : Str} (hsep : PwSep sep) (c : Char) (R : Str) (hsec : isSecret c = true)
    (he : c ≠ '=') (hm : c ≠ '-') : group2 (sep ++ c :: R) = some (c :: R) := by
  obtain ⟨hs, hq, hcol⟩ := secret_facts c hsec
  cases hsep with
  | colon b1 b2 q b3 hb1 hb2 hq' hb3 =>
    have h1 : alt1 (b1 ++ ':' :: (b2 ++ (q ++ b3)) ++ c :: R) = some (c :: R) := by
      apply alt1_some (r := b2 ++ (q ++ (b3 ++ c :: R))) _ _ hsec
      · simp only [List.append_assoc, List.cons_append]
        exact ws_blank_cons hb1 (by decide) _
      · rw [ws_blank hb2]; exact skipQB hq' hb3 hs hq R
    exact group2_1 h1
  | eqQuote b1 q b2 b3 b4 hb1 hq' hb2 hb3 hb4 =>
    have hY : ws ((ws (b1 ++ (q ++ (b2 ++ '=' :: (b3 ++ '"' :: b4))) ++ c :: R)).dropWhile (· == '"'))
        = '=' :: (b3 ++ '"' :: (b4 ++ c :: R)) := by
      simp only [List.append_assoc, List.cons_append]
      rw [ws_blank hb1]
      exact skipQB hq' hb2 (by decide) (by decide) _
    have h1 : alt1 (b1 ++ (q ++ (b2 ++ '=' :: (b3 ++ '"' :: b4))) ++ c :: R) = none := by
      simp only [List.append_assoc, List.cons_append]
      cases q with
      | nil =>
        have hw : ws (b1 ++ ([] ++ (b2 ++ '=' :: (b3 ++ '"' :: (b4 ++ c :: R)))))
            = '=' :: (b3 ++ '"' :: (b4 ++ c :: R)) := by
          rw [ws_blank hb1, List.nil_append]; exact ws_blank_cons hb2 (by decide) _
        exact alt1_none hw (by decide)
      | cons d q =>
        have hd : d = '"' := hq' d (by simp)
        subst hd
        have hw : ws (b1 ++ ('"' :: q ++ (b2 ++ '=' :: (b3 ++ '"' :: (b4 ++ c :: R)))))
            = '"' :: (q ++ (b2 ++ '=' :: (b3 ++ '"' :: (b4 ++ c :: R)))) := by
          rw [ws_blank hb1, List.cons_append]; exact ws_cons (by decide) _
        exact alt1_none hw (by decide)
    have h2 : alt2 (b1 ++ (q ++ (b2 ++ '=' :: (b3 ++ '"' :: b4))) ++ c :: R) = some (c :: R) :=
      alt2_some hY (ws_blank_cons hb3 (by decide) _) (ws_blank_cons hb4 hs R) hsec
    exact group2_2 h1 h2
  | eq b1 n b2 hb1 hb2 =>
    have hw : ws (b1 ++ (List.replicate (n + 1) '=' ++ b2) ++ c :: R)
        = '=' :: (List.replicate n '=' ++ (b2 ++ c :: R)) := by
      simp only [List.append_assoc, List.replicate_succ, List.cons_append]
      exact ws_blank_cons hb1 (by decide) _
    have hY : ws ((ws (b1 ++ (List.replicate (n + 1) '=' ++ b2) ++ c :: R)).dropWhile (· == '"'))
        = '=' :: (List.replicate n '=' ++ (b2 ++ c :: R)) := by
      rw [hw, dropQ_cons (by decide), ws_cons (by decide)]
    have h1 : alt1 (b1 ++ (List.replicate (n + 1) '=' ++ b2) ++ c :: R) = none :=
      alt1_none hw (by decide)
    have h2 : alt2 (b1 ++ (List.replicate (n + 1) '=' ++ b2) ++ c :: R) = none := by
      cases n with
      | zero =>
        have hr : ws (List.replicate 0 '=' ++ (b2 ++ c :: R)) = c :: R := by
          rw [List.replicate_zero, List.nil_append]; exact ws_blank_cons hb2 hs R
        exact alt2_none_eq hY hr hq
      | succ n =>
        have hr : ws (List.replicate (n + 1) '=' ++ (b2 ++ c :: R))
            = '=' :: (List.replicate n '=' ++ (b2 ++ c :: R)) := by
          rw [List.replicate_succ, List.cons_append]; exact ws_cons (by decide) _
        exact alt2_none_eq hY hr (by decide)
    have h3 : alt3 (b1 ++ (List.replicate (n + 1) '=' ++ b2) ++ c :: R) = some (c :: R) := by
      unfold alt3
      rw [hw, ← List.cons_append, ← List.replicate_succ]
      refine repBack_rep '=' n R hb2 ?_ hs hsec
      exact headIs_append _ _ _ (blank_ne hb2 _ (fun a ha => by simp [(space_facts a ha).2.2.2.2.1]))
        (by simp [headIs, he])
    exact group2_3 h1 h2 h3
  | md5 b1 n b2 hb1 hb2 hne =>
    have hw : ws (b1 ++ ('-' :: '-' :: 'm' :: 'd' :: (List.replicate (n + 1) '5' ++ b2)) ++ c :: R)
        = '-' :: '-' :: 'm' :: 'd' :: (List.replicate (n + 1) '5' ++ (b2 ++ c :: R)) := by
      simp only [List.append_assoc, List.cons_append]
      exact ws_blank_cons hb1 (by decide) _
    have hY : ws ((ws (b1 ++ ('-' :: '-' :: 'm' :: 'd' :: (List.replicate (n + 1) '5' ++ b2)) ++ c :: R)).dropWhile
        (· == '"')) = '-' :: '-' :: 'm' :: 'd' :: (List.replicate (n + 1) '5' ++ (b2 ++ c :: R)) := by
      rw [hw, dropQ_cons (by decide), ws_cons (by decide)]
    have h1 := alt1_none hw (by decide)
    have h2 := alt2_none_head hY (by decide)
    have h3 : alt3 (b1 ++ ('-' :: '-' :: 'm' :: 'd' :: (List.replicate (n + 1) '5' ++ b2)) ++ c :: R) = none := by
      unfold alt3; rw [hw]; exact repBack_none _ _ (by show ('-' == '=') = false; decide)
    have h4 : alt4 (b1 ++ ('-' :: '-' :: 'm' :: 'd' :: (List.replicate (n + 1) '5' ++ b2)) ++ c :: R)
        = some (c :: R) := by
      rw [alt4_md5 hw]
      refine repBack_rep '5' n R hb2 ?_ hs hsec
      cases b2 with
      | nil => exact absurd rfl hne
      | cons a b2 =>
        have := (space_facts a (hb2 a (by simp))).2.2.2.2.2.2
        simp [headIs, this]
    exact group2_4 h1 h2 h3 h4
  | blanks b hb hne =>
    have hw : ws (sep ++ c :: R) = c :: R := ws_blank_cons hb hs R
    have hY : ws ((ws (sep ++ c :: R)).dropWhile (· == '"')) = c :: R := by
      rw [hw, dropQ_cons hq, ws_cons hs]
    have h1 := alt1_none hw hcol
    have h2 := alt2_none_head hY he
    have h3 : alt3 (sep ++ c :: R) = none := by
      unfold alt3; rw [hw]; exact repBack_none _ _ (by simp [headIs, he])
    have h4 := alt4_none hw hm
    have h5 := alt5_some hw hsec
    exact group2_5 h1 h2 h3 h4 h5

theorem sep_head {sep : Str} (hsep : PwSep sep) (X : Str) : headIs isWordA (sep ++ X) = false := by
  have hbw : ∀ {b : Str}, Blank b → ∀ c ∈ b, isWordA c = false :=
    fun hb => blank_ne hb _ (fun a ha => (space_facts a ha).2.1)
  have hqw : ∀ {q : Str}, Quotes q → ∀ c ∈ q, isWordA c = false := by
    intro q hq c hc; rw [hq c hc]; decide
  cases hsep with
  | colon b1 b2 q b3 hb1 hb2 hq' hb3 =>
    rw [List.append_assoc]; exact headIs_append _ _ _ (hbw hb1) (by show isWordA ':' = false; decide)
  | eqQuote b1 q b2 b3 b4 hb1 hq' hb2 hb3 hb4 =>
    simp only [List.append_assoc]
    exact headIs_append _ _ _ (hbw hb1) (headIs_append _ _ _ (hqw hq') (headIs_append _ _ _ (hbw hb2)
      (by show isWordA '=' = false; decide)))
  | eq b1 n b2 hb1 hb2 =>
    simp only [List.append_assoc, List.replicate_succ, List.cons_append]
    exact headIs_append _ _ _ (hbw hb1) (by show isWordA '=' = false; decide)
  | md5 b1 n b2 hb1 hb2 hne =>
    rw [List.append_assoc]; exact headIs_append _ _ _ (hbw hb1) (by show isWordA '-' = false; decide)
  | blanks b hb hne =>
    cases sep with
    | nil => exact absurd rfl hne
    | cons a b => exact hbw hb a (by simp)

theorem pwTry_first {t r : Str} : ∀ n, group2 (t.drop n) = some r → pwTry t n = some r
  | 0, h => by simpa [pwTry] using h
  | n + 1, h => by simp [pwTry, h]

/-- GOAL A -/
theorem pwMatch1_accepted (w sep x post : Str) (hw : ∀ c ∈ w, isWordA c = true) (hsep : PwSep sep)
    (hx : Secret x) (hpost : ∀ c, post.head? = some c → isSecret c = false) :
    pwMatch1 (pwLit ++ (w ++ (sep ++ (x ++ post)))) = some (8 + w.length + sep.length, x.length) := by
  obtain ⟨⟨c, r, rfl, he, hm⟩, hall⟩ := hx
  have hsec : isSecret c = true := hall c (by simp)
  have hpost' : headIs isSecret post = false := by
    cases post with
    | nil => rfl
    | cons a p => exact hpost a rfl
  have hpre : pwLit.isPrefixOf (pwLit ++ (w ++ (sep ++ (c :: r ++ post)))) = true := by
    simp [pwLit_eq]
  have hdrop : (pwLit ++ (w ++ (sep ++ (c :: r ++ post)))).drop 8 = w ++ (sep ++ (c :: r ++ post)) := by
    simp [pwLit_eq]
  have htw : (w ++ (sep ++ (c :: r ++ post))).takeWhile isWordA = w :=
    takeWhile_all_append _ _ _ hw (sep_head hsep _)
  have hg : group2 ((w ++ (sep ++ (c :: r ++ post))).drop w.length) = some (c :: (r ++ post)) := by
    rw [List.drop_left]
    exact group2_sep hsep c (r ++ post) hsec he hm
  have hts : (c :: r ++ post).takeWhile isSecret = c :: r := takeWhile_all_append _ _ _ hall hpost'
  unfold pwMatch1
  rw [if_pos hpre]
  simp only [hdrop, htw, pwTry_first _ hg]
  rw [← List.cons_append, hts]
  have : pwLit.length = 8 := by simp [pwLit_eq]
  simp only [List.length_append, List.length_cons, this]
  congr 2 <;> omega

/-! ### the substitution -/

/-- the key is the first thing on the line that the expression can match -/
def NoKeyBefore (pre : Str) : Prop :=
  ∀ i, i < pre.length → pwLit.isPrefixOf ((pre ++ pwLit.take 7).drop i) = false

theorem chars_orig (s : Str) : chars (orig s) = s := by
  induction s with
  | nil => rfl
  | cons a s ih => simpa [chars, orig] using ih

theorem orig_append (a b : Str) : orig (a ++ b) = orig a ++ orig b := by simp [orig]
theorem orig_length (a : Str) : (orig a).length = a.length := by simp [orig]

theorem isPrefixOf_take (k : Str) : ∀ l : Str, k.isPrefixOf l = k.isPrefixOf (l.take k.length) := by
  induction k with
  | nil => intro l; simp
  | cons a k ih =>
    intro l
    cases l with
    | nil => simp
    | cons b l => simp [List.isPrefixOf_cons_cons, ← ih l]

theorem NoKeyBefore_tail {a : Char} {pre : Str} (h : NoKeyBefore (a :: pre)) : NoKeyBefore pre := by
  intro i hi
  have := h (i + 1) (by simpa using hi)
  simpa using this

theorem NoKeyBefore_head {a : Char} {pre : Str} (h : NoKeyBefore (a :: pre)) (rest : Str) :
    pwLit.isPrefixOf (a :: pre ++ (pwLit ++ rest)) = false := by
  have h0 := h 0 (by simp)
  rw [List.drop_zero, isPrefixOf_take] at h0
  rw [isPrefixOf_take, ← h0]
  congr 1
  have h8 : pwLit.length = 8 := by simp [pwLit_eq]
  simp only [h8, List.cons_append, List.take_succ_cons, List.take_append, List.take_take]
  congr 2
  have h1 : (7 - pre.length - 8) = 0 := by omega
  have h2 : min (7 - pre.length) 7 = 7 - pre.length := by omega
  rw [h1, h2, List.take_zero, List.append_nil]

theorem subPw_pre (rest : Str) : ∀ pre : Str, NoKeyBefore pre →
    subPw pwMatch1 0 (orig (pre ++ (pwLit ++ rest))) =
      orig pre ++ subPw pwMatch1 0 (orig (pwLit ++ rest)) := by
  intro pre
  induction pre with
  | nil => intro _; rfl
  | cons a pre ih =>
    intro h
    have hm : pwMatch1 (chars (orig (a :: pre ++ (pwLit ++ rest)))) = none := by
      rw [chars_orig]; unfold pwMatch1; rw [NoKeyBefore_head h rest]; rfl
    have : orig (a :: pre ++ (pwLit ++ rest)) = (a, true) :: orig (pre ++ (pwLit ++ rest)) := rfl
    rw [this] at hm ⊢
    rw [subPw, hm]
    simp only []
    rw [ih (NoKeyBefore_tail h)]
    rfl

theorem subPw_skip (m : Str → Option (Nat × Nat)) : ∀ (a b : PStr), subPw m a.length (a ++ b) = subPw m 0 b
  | [], b => rfl
  | c :: a, b => by
    show subPw m (a.length + 1) (c :: (a ++ b)) = _
    rw [subPw]; exact subPw_skip m a b

theorem subPw_match (m : Str → Option (Nat × Nat)) (c : PChar) (cs : PStr) (keep drop : Nat)
    (h : m (chars (c :: cs)) = some (keep, drop)) :
    subPw m 0 (c :: cs) = (c :: cs).take keep ++ ins stars ++ subPw m (keep + drop - 1) cs := by
  rw [subPw, h]

/-- GOAL B -/
theorem subPw1_masks (pre w sep x post : Str) (hpre : NoKeyBefore pre) (hw : ∀ c ∈ w, isWordA c = true)
    (hsep : PwSep sep) (hx : Secret x) (hpost : ∀ c, post.head? = some c → isSecret c = false) :
    subPw pwMatch1 0 (orig (pre ++ (pwLit ++ (w ++ (sep ++ (x ++ post)))))) =
      orig (pre ++ (pwLit ++ (w ++ sep))) ++ ins stars ++ subPw pwMatch1 0 (orig post) := by
  rw [subPw_pre _ pre hpre]
  have hA := pwMatch1_accepted w sep x post hw hsep hx hpost
  obtain ⟨⟨c, r, rfl, -, -⟩, -⟩ := hx
  -- the line from the key on, as a cons cell
  have hcons : orig (pwLit ++ (w ++ (sep ++ (c :: r ++ post)))) =
      ('p', true) :: orig ("assword".toList ++ (w ++ (sep ++ (c :: r ++ post)))) := by
    simp [pwLit_eq, orig]
  rw [← chars_orig (pwLit ++ (w ++ (sep ++ (c :: r ++ post)))), hcons] at hA
  rw [hcons, subPw_match _ _ _ _ _ hA, ← hcons]
  have hK : orig (pwLit ++ (w ++ (sep ++ (c :: r ++ post)))) =
      orig (pwLit ++ (w ++ sep)) ++ orig (c :: r ++ post) := by
    simp [orig]
  have hlen : (orig (pwLit ++ (w ++ sep))).length = 8 + w.length + sep.length := by
    simp [orig, pwLit_eq]; omega
  have htake : (orig (pwLit ++ (w ++ (sep ++ (c :: r ++ post))))).take (8 + w.length + sep.length)
      = orig (pwLit ++ (w ++ sep)) := by
    rw [hK, ← hlen, List.take_left]
  have hrest : orig ("assword".toList ++ (w ++ (sep ++ (c :: r ++ post)))) =
      orig ("assword".toList ++ (w ++ (sep ++ (c :: r)))) ++ orig post := by
    simp [orig]
  have hlen2 : (orig ("assword".toList ++ (w ++ (sep ++ (c :: r))))).length
      = 8 + w.length + sep.length + (c :: r).length - 1 := by
    simp [orig]; omega
  rw [htake, hrest, ← hlen2, subPw_skip]
  simp [orig, List.append_assoc]

/-! ### the hypotheses are satisfiable, and a worked line -/

example : PwSep [' ', '=', ' ', '"'] :=
  PwSep.eqQuote [' '] [] [] [' '] [] (by unfold Blank; decide) (by unfold Quotes; decide)
    (by unfold Blank; decide) (by unfold Blank; decide) (by unfold Blank; decide)
example : Secret "hunter2".toList := ⟨⟨'h', "unter2".toList, by decide, by decide, by decide⟩, by decide⟩
example : NoKeyBefore "db ".toList := by unfold NoKeyBefore; decide

example : chars (passwordStage (orig "db password_x = \"hunter2\" ok".toList)) =
    "db password_x = \"********\" ok".toList := by decide

end IV.CleanLine
