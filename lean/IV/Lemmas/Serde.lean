import IV.Model.Serde
import IV.Model.SerdeDetect
/-!
Helper lemmas for C11 (IV.Serde): string primitives, the read/write round trip, path joins.
-/
namespace IV.Serde

/-! ### strip -/

theorem dropWhile_eq_of_not_mem (c : Char) (s : Str) (h : c ∉ s) : s.dropWhile (· == c) = s := by
  cases s with
  | nil => rfl
  | cons d t =>
    have : (d == c) = false := by
      have : d ≠ c := fun e => h (by simp [e])
      simpa using this
    rw [List.dropWhile_cons, this]; rfl

theorem rstripC_of_not_mem (c : Char) (s : Str) (h : c ∉ s) : rstripC c s = s := by
  unfold rstripC
  rw [dropWhile_eq_of_not_mem c s.reverse (by simpa using h)]
  simp

theorem rstripC_append_one (c : Char) (s : Str) (h : c ∉ s) : rstripC c (s ++ [c]) = s := by
  unfold rstripC
  simp only [List.reverse_append, List.reverse_cons, List.reverse_nil, List.nil_append, List.cons_append]
  have : (c :: s.reverse).dropWhile (· == c) = s.reverse.dropWhile (· == c) := by
    simp [List.dropWhile]
  rw [this, dropWhile_eq_of_not_mem c s.reverse (by simpa using h)]
  simp

theorem lstripC_of_not_start (c : Char) (s : Str) (h : startsWithC c s = false) : lstripC c s = s := by
  cases s with
  | nil => rfl
  | cons d t =>
    simp only [startsWithC] at h
    simp [lstripC, List.dropWhile, h]

theorem startsWithC_lstripC (c : Char) (s : Str) : startsWithC c (lstripC c s) = false := by
  induction s with
  | nil => rfl
  | cons d t ih =>
    by_cases h : (d == c) = true
    · simpa [lstripC, List.dropWhile, h] using ih
    · simp [lstripC, List.dropWhile, h, startsWithC]

theorem startsWithC_append (c : Char) (a b : Str) (h : a ≠ []) : startsWithC c (a ++ b) = startsWithC c a := by
  cases a with
  | nil => exact absurd rfl h
  | cons d t => rfl

/-! ### translate / iterLines / read -/

theorem translate_of_no_cr (t : Str) (h : CR ∉ t) : translate false t = t := by
  induction t with
  | nil => rfl
  | cons c t ih =>
    have hc : c ≠ CR := fun e => h (by simp [e])
    have ht : CR ∉ t := fun m => h (List.mem_cons_of_mem _ m)
    simp only [translate, hc, if_false]
    by_cases hn : c = NL
    · simp [hn, ih ht]
    · simp [hn, ih ht]

theorem iterLines_line (l : Str) (h : NL ∉ l) (t : Str) :
    iterLines (l ++ NL :: t) = (l ++ [NL]) :: iterLines t := by
  induction l with
  | nil => simp [iterLines]
  | cons c l ih =>
    have hc : c ≠ NL := fun e => h (by simp [e])
    have hl : NL ∉ l := fun m => h (List.mem_cons_of_mem _ m)
    simp only [List.cons_append, iterLines, hc, if_false]
    rw [ih hl]

theorem iterLines_last (l : Str) (h : NL ∉ l) : iterLines l = if l = [] then [] else [l] := by
  induction l with
  | nil => rfl
  | cons c l ih =>
    have hc : c ≠ NL := fun e => h (by simp [e])
    have hl : NL ∉ l := fun m => h (List.mem_cons_of_mem _ m)
    simp only [iterLines, hc, if_false, ih hl]
    by_cases e : l = []
    · simp [e]
    · simp [e]

theorem joinLines_cons_cons (l l' : Str) (rest : List Str) :
    joinLines (l :: l' :: rest) = l ++ NL :: joinLines (l' :: rest) := rfl

theorem cr_not_mem_joinLines (ls : List Str) (h : ∀ l ∈ ls, NoBreak l) : CR ∉ joinLines ls := by
  induction ls with
  | nil => simp [joinLines]
  | cons l rest ih =>
    cases rest with
    | nil => simpa [joinLines] using (h l (by simp)).2
    | cons l' rest =>
      rw [joinLines_cons_cons]
      have h1 := (h l (by simp)).2
      have h2 := ih (fun x hx => h x (List.mem_cons_of_mem _ hx))
      have : CR ≠ NL := by decide
      simp [h1, h2, this]

theorem map_rstrip_iterLines_joinLines (ls : List Str) (h : ∀ l ∈ ls, NL ∉ l) :
    (iterLines (joinLines ls)).map (rstripC NL) = dropOneTrailingEmpty ls := by
  induction ls with
  | nil => rfl
  | cons l rest ih =>
    have hl : NL ∉ l := h l (by simp)
    cases rest with
    | nil =>
      simp only [joinLines, dropOneTrailingEmpty]
      rw [iterLines_last l hl]
      by_cases e : l = []
      · simp [e]
      · simp [e, rstripC_of_not_mem NL l hl]
    | cons l' rest =>
      rw [joinLines_cons_cons, iterLines_line l hl]
      simp only [List.map_cons, dropOneTrailingEmpty]
      rw [rstripC_append_one NL l hl, ih (fun x hx => h x (List.mem_cons_of_mem _ hx))]

/-! ### output of `read` never contains a line break -/

theorem cr_not_mem_translate (b : Bool) (t : Str) : CR ∉ translate b t := by
  induction t generalizing b with
  | nil => simp [translate]
  | cons c t ih =>
    have hne : CR ≠ NL := by decide
    simp only [translate]
    split
    · simp [hne, ih true]
    · split
      · split
        · exact ih false
        · simp [hne, ih false]
      · rename_i h1 _
        have : CR ≠ c := fun e => h1 e.symm
        simp [this, ih false]

/-- every piece of the iteration is a body without '\n', optionally followed by one '\n' -/
theorem iterLines_shape (t : Str) :
    ∀ p ∈ iterLines t, ∃ body, NL ∉ body ∧ (p = body ++ [NL] ∨ p = body) := by
  induction t with
  | nil => simp [iterLines]
  | cons c t ih =>
    intro p hp
    simp only [iterLines] at hp
    split at hp
    · rcases List.mem_cons.mp hp with e | m
      · exact ⟨[], by simp, Or.inl (by simp [e])⟩
      · exact ih p m
    · rename_i hc
      split at hp
      · simp only [List.mem_cons, List.not_mem_nil, or_false] at hp
        exact ⟨[c], by simpa using fun e => hc e.symm, Or.inr hp⟩
      · rename_i l ls heq
        rcases List.mem_cons.mp hp with e | m
        · obtain ⟨body, hb, hs⟩ := ih l (by rw [heq]; simp)
          refine ⟨c :: body, ?_, ?_⟩
          · simp only [List.mem_cons, not_or]; exact ⟨fun e => hc e.symm, hb⟩
          · rcases hs with hs | hs
            · left; rw [e, hs]; rfl
            · right; rw [e, hs]
        · exact ih p (by rw [heq]; exact List.mem_cons_of_mem _ m)

theorem iterLines_subset (t : Str) : ∀ p ∈ iterLines t, ∀ x ∈ p, x ∈ t := by
  induction t with
  | nil => simp [iterLines]
  | cons c t ih =>
    intro p hp x hx
    simp only [iterLines] at hp
    split at hp
    · rename_i hc
      rcases List.mem_cons.mp hp with e | m
      · subst e; simp only [List.mem_cons, List.not_mem_nil, or_false] at hx; simp [hx, hc]
      · exact List.mem_cons_of_mem _ (ih p m x hx)
    · split at hp
      · simp only [List.mem_cons, List.not_mem_nil, or_false] at hp
        subst hp
        simp only [List.mem_cons, List.not_mem_nil, or_false] at hx
        simp [hx]
      · rename_i l ls heq
        rcases List.mem_cons.mp hp with e | m
        · subst e
          rcases List.mem_cons.mp hx with e2 | m2
          · simp [e2]
          · exact List.mem_cons_of_mem _ (ih l (by rw [heq]; simp) x m2)
        · exact List.mem_cons_of_mem _ (ih p (by rw [heq]; exact List.mem_cons_of_mem _ m) x hx)

theorem rstripC_subset (c : Char) (s : Str) : ∀ x ∈ rstripC c s, x ∈ s := by
  intro x hx
  unfold rstripC at hx
  have := List.mem_reverse.mp hx
  have h2 : x ∈ s.reverse := (List.dropWhile_sublist _).subset this
  exact List.mem_reverse.mp h2

/-! ### paths -/

theorem of_mem_takeWhile {α : Type} (q : α → Bool) (l : List α) : ∀ x ∈ l.takeWhile q, q x = true := by
  induction l with
  | nil => simp
  | cons a t ih =>
    intro x hx
    rw [List.takeWhile_cons] at hx
    split at hx
    · rename_i hq
      rcases List.mem_cons.mp hx with e | m
      · rw [e]; exact hq
      · exact ih x m
    · simp at hx

theorem basename_no_sep (p : Str) : sep ∉ basename p := by
  unfold basename
  intro h
  have h1 := List.mem_reverse.mp h
  have := of_mem_takeWhile _ _ _ h1
  simp at this

theorem startsWithC_of_not_mem (c : Char) (s : Str) (h : c ∉ s) : startsWithC c s = false := by
  cases s with
  | nil => rfl
  | cons d t =>
    have : d ≠ c := fun e => h (by simp [e])
    simp [startsWithC, this]

theorem pjoin_rel (a b : Str) (hb : startsWithC sep b = false) :
    pjoin a b = if a.isEmpty || endsWithC sep a then a ++ b else a ++ sep :: b := by
  simp [pjoin, hb]

theorem startsWithC_pjoin (a b : Str) (ha : startsWithC sep a = false) (hb : startsWithC sep b = false) :
    startsWithC sep (pjoin a b) = false := by
  rw [pjoin_rel a b hb]
  cases a with
  | nil => simpa using hb
  | cons d t =>
    split
    · simpa [startsWithC] using ha
    · simpa [startsWithC] using ha

/-! ### file system -/

theorem FS.read_write_same (fs : FS) (p t : Str) : (fs.write p t).read p = some t := by
  simp [FS.write, FS.read]

theorem FS.read_write_other (fs : FS) (p q t : Str) (h : p ≠ q) : (fs.write p t).read q = fs.read q := by
  simp [FS.write, FS.read, h]

/-! ### moved from the property file: helper definitions and lemmas -/

theorem mem_of_mem_dropOneTrailingEmpty (ls : List Str) : ∀ l ∈ dropOneTrailingEmpty ls, l ∈ ls := by
  induction ls with
  | nil => simp [dropOneTrailingEmpty]
  | cons a rest ih =>
    cases rest with
    | nil =>
      intro l hl
      simp only [dropOneTrailingEmpty] at hl
      split at hl
      · simp at hl
      · exact hl
    | cons b rest =>
      intro l hl
      simp only [dropOneTrailingEmpty, List.mem_cons] at hl
      rcases hl with e | m
      · simp [e]
      · exact List.mem_cons_of_mem _ (ih l (by simpa [dropOneTrailingEmpty] using m))

theorem mem_dropOneTrailingEmpty_or_nil (ls : List Str) : ∀ l ∈ ls, l = [] ∨ l ∈ dropOneTrailingEmpty ls := by
  induction ls with
  | nil => simp
  | cons a rest ih =>
    cases rest with
    | nil =>
      intro l hl
      simp only [List.mem_cons, List.not_mem_nil, or_false] at hl
      subst hl
      by_cases e : l = []
      · exact Or.inl e
      · right; simp [dropOneTrailingEmpty, e]
    | cons b rest =>
      intro l hl
      rcases List.mem_cons.mp hl with e | m
      · right; simp [dropOneTrailingEmpty, e]
      · rcases ih l m with h | h
        · exact Or.inl h
        · right; simp only [dropOneTrailingEmpty, List.mem_cons]; right
          simpa [dropOneTrailingEmpty] using h

theorem kindPrefix_relative (k : Kind) (pre : Str) (h : kindPrefix k = some pre) :
    startsWithC sep pre = false ∧ pre.isEmpty = false ∧ endsWithC sep pre = false := by
  cases k <;> simp [kindPrefix] at h <;> subst h <;> decide

theorem underPrefix_relative (k : Kind) (x : Str) (h : startsWithC sep x = false) :
    startsWithC sep (underPrefix k x) = false := by
  unfold underPrefix
  cases hk : kindPrefix k with
  | none => simpa using h
  | some pre => exact startsWithC_pjoin _ _ (kindPrefix_relative k pre hk).1 h

/-- `prefix/x` spelled without `os.path.join` -/
def withPrefix (k : Kind) (x : Str) : Str :=
  match kindPrefix k with
  | some pre => pre ++ sep :: x
  | none => x

theorem underPrefix_eq (k : Kind) (x : Str) (h : startsWithC sep x = false) :
    underPrefix k x = withPrefix k x := by
  unfold underPrefix withPrefix
  cases hk : kindPrefix k with
  | none => rfl
  | some pre =>
    obtain ⟨_, h2, h3⟩ := kindPrefix_relative k pre hk
    simp [pjoin, h, h2, h3]

/-- did the element's serializer succeed -/
def okP (host : Bool) (p : Provider) : Bool := match writeText host p with | .ok _ => true | .error _ => false

def faultOf (host : Bool) (p : Provider) : Option Fault := match writeText host p with | .ok _ => none | .error f => some f

/-- destinations written by the successful elements -/
def okDsts (host : Bool) (root : Str) (ps : List Provider) : List Str :=
  (ps.filter (okP host)).map (fun p => pjoin root (relOf p))

theorem marshalList_frame (host : Bool) (root : Str) (fs : FS) (ps : List Provider) (q : Str)
    (hq : q ∉ okDsts host root ps) : (marshalList host root fs ps).2.2.read q = fs.read q := by
  induction ps generalizing fs with
  | nil => simp [marshalList]
  | cons p ps ih =>
    unfold marshalList serializeOne
    cases hwt : writeText host p with
    | error f =>
      have h1 : okP host p = false := by simp [okP, hwt]
      simp only
      exact ih fs (by simpa [okDsts, h1] using hq)
    | ok t =>
      have h1 : okP host p = true := by simp [okP, hwt]
      simp only [okDsts, List.filter_cons, h1, if_true, List.map_cons, List.mem_cons, not_or] at hq
      simp only
      rw [ih _ (by simpa [okDsts] using hq.2)]
      exact FS.read_write_other _ _ _ _ (fun e => hq.1 e.symm)

theorem metaGet_metaPut_same (m : List (Str × RawEntry)) (k : Str) (e : RawEntry) :
    metaGet (metaPut m k e) k = some e := by
  induction m with
  | nil => simp [metaPut, metaGet]
  | cons a rest ih =>
    obtain ⟨k', e'⟩ := a
    by_cases h : k' = k
    · simp [metaPut, metaGet, h]
    · simp [metaPut, metaGet, h, ih]

theorem metaGet_metaPut_other (m : List (Str × RawEntry)) (k k2 : Str) (e : RawEntry) (hk : k2 ≠ k) :
    metaGet (metaPut m k e) k2 = metaGet m k2 := by
  induction m with
  | nil =>
    have : ¬ k = k2 := fun e => hk e.symm
    simp [metaPut, metaGet, this]
  | cons a rest ih =>
    obtain ⟨k', e'⟩ := a
    by_cases h : k' = k
    · subst h
      have : ¬ k' = k2 := fun e => hk e.symm
      simp [metaPut, metaGet, this]
    · by_cases h2 : k' = k2
      · subst h2
        simp [metaPut, metaGet, h]
      · simp [metaPut, metaGet, h, h2, ih]

theorem Broker.get_append (b c : Broker) (k : Comp) :
    Broker.get (b ++ c) k = match Broker.get b k with | some v => some v | none => Broker.get c k := by
  induction b with
  | nil => simp [Broker.get]
  | cons a rest ih =>
    obtain ⟨k', v'⟩ := a
    by_cases h : k' = k
    · simp [Broker.get, h]
    · simp [Broker.get, h, ih]

theorem get_filterMap_unique (known : Str → Option Comp) (root : Str) (fs : FS) (es : List RawEntry)
    (e : RawEntry) (k : Comp) (v : LoadedValue) (hmem : e ∈ es) (hl : loadOne known root fs e = some (k, v))
    (huniq : ∀ e' ∈ es, ∀ v', loadOne known root fs e' = some (k, v') → v' = v) :
    Broker.get (es.filterMap (loadOne known root fs)) k = some v := by
  induction es with
  | nil => simp at hmem
  | cons a rest ih =>
    cases ha : loadOne known root fs a with
    | none =>
      simp only [List.filterMap_cons, ha]
      rcases List.mem_cons.mp hmem with e1 | m
      · subst e1; rw [hl] at ha; simp at ha
      · exact ih m (fun e' he' => huniq e' (List.mem_cons_of_mem _ he'))
    | some kv =>
      obtain ⟨k', v'⟩ := kv
      simp only [List.filterMap_cons, ha, Broker.get]
      by_cases hk : k' = k
      · subst hk
        simp only [if_true]
        rw [huniq a (by simp) v' ha]
      · simp only [hk, if_false]
        rcases List.mem_cons.mp hmem with e1 | m
        · subst e1; rw [hl] at ha; simp only [Option.some.injEq, Prod.mk.injEq] at ha; exact absurd ha.1.symm hk
        · exact ih m (fun e' he' => huniq e' (List.mem_cons_of_mem _ he'))

theorem Graph.deps_pop (g : Graph) (d : Comp) : (g.pop d).deps d = none := by
  induction g with
  | nil => rfl
  | cons a rest ih =>
    obtain ⟨k, ds⟩ := a
    by_cases h : k = d
    · simpa [Graph.pop, List.filter_cons, h] using ih
    · have : (k != d) = true := by simpa using h
      simp only [Graph.pop, List.filter_cons, this, if_true, Graph.deps, h, if_false]
      exact ih

/-! ### path components, lexical resolution, mangled names -/

theorem splitPath_ne_nil (s : Str) : splitPath s ≠ [] := by
  cases s with
  | nil => simp [splitPath]
  | cons c t =>
    simp only [splitPath]
    split
    · simp
    · split <;> simp

theorem splitPath_no_sep (b : Str) (h : sep ∉ b) : splitPath b = [b] := by
  induction b with
  | nil => rfl
  | cons c t ih =>
    have hc : c ≠ sep := fun e => h (by simp [e])
    have ht : sep ∉ t := fun m => h (List.mem_cons_of_mem _ m)
    simp [splitPath, hc, ih ht]

theorem splitPath_append_sep (a b : Str) : splitPath (a ++ sep :: b) = splitPath a ++ splitPath b := by
  induction a with
  | nil => simp [splitPath]
  | cons c t ih =>
    by_cases hc : c = sep
    · simp [splitPath, hc, ih]
    · simp only [List.cons_append, splitPath, hc, if_false, ih]
      cases hs : splitPath t with
      | nil => exact absurd hs (splitPath_ne_nil t)
      | cons h r => simp

theorem resolveBelow_isSome (stack comps : List Str) (h : dotdot ∉ comps) :
    (resolveBelow stack comps).isSome = true := by
  induction comps generalizing stack with
  | nil => simp [resolveBelow]
  | cons c rest ih =>
    have hc : c ≠ dotdot := fun e => h (by simp [e])
    have hr : dotdot ∉ rest := fun m => h (List.mem_cons_of_mem _ m)
    simp only [resolveBelow]
    split
    · exact ih _ hr
    · first
        | exact ih _ hr
        | (rw [if_neg hc]; exact ih _ hr)

theorem rstripP_subset (p : Char → Bool) (s : Str) : ∀ x ∈ rstripP p s, x ∈ s := by
  induction s with
  | nil => simp [rstripP]
  | cons c t ih =>
    intro x hx
    simp only [rstripP] at hx
    split at hx
    · split at hx
      · simp at hx
      · simp only [List.mem_cons, List.not_mem_nil, or_false] at hx; simp [hx]
    · rename_i r hr
      rcases List.mem_cons.mp hx with e | m
      · simp [e]
      · exact List.mem_cons_of_mem _ (ih x m)

theorem rstripP_head (p : Char → Bool) (c : Char) (t : Str) (h : p c = false) :
    ∃ r, rstripP p (c :: t) = c :: r := by
  simp only [rstripP]
  split
  · exact ⟨[], by simp [h]⟩
  · exact ⟨_, rfl⟩

theorem exists_of_endsWithC (c : Char) (s : Str) (h : endsWithC c s = true) : ∃ s0, s = s0 ++ [c] := by
  unfold endsWithC at h
  cases hr : s.reverse with
  | nil => simp [hr, startsWithC] at h
  | cons d t =>
    simp only [hr, startsWithC, beq_iff_eq] at h
    refine ⟨t.reverse, ?_⟩
    have := congrArg List.reverse hr
    simpa [h] using this

/-- a path is what precedes its base name (empty, or ending in '/') followed by the base name -/
theorem basename_decomp (p : Str) :
    ∃ q, p = q ++ basename p ∧ (q = [] ∨ ∃ q0, q = q0 ++ [sep]) := by
  refine ⟨(p.reverse.dropWhile (· != sep)).reverse, ?_, ?_⟩
  · unfold basename
    have := List.takeWhile_append_dropWhile (p := (· != sep)) (l := p.reverse)
    have h2 := congrArg List.reverse this
    simp only [List.reverse_append, List.reverse_reverse] at h2
    exact h2.symm
  · cases hd : p.reverse.dropWhile (· != sep) with
    | nil => left; simp
    | cons d t =>
      right
      have hhead := List.head_dropWhile_not (· != sep) (l := p.reverse) (by simp [hd])
      have : d = sep := by simpa [hd] using hhead
      exact ⟨t.reverse, by simp [this]⟩

theorem basename_mem_splitPath (p : Str) : basename p ∈ splitPath p := by
  obtain ⟨q, hq, hcase⟩ := basename_decomp p
  have hb := splitPath_no_sep (basename p) (basename_no_sep p)
  rcases hcase with e | ⟨q0, e⟩
  · rw [e] at hq; simp only [List.nil_append] at hq
    have : splitPath p = [basename p] := by
      conv => lhs; rw [hq]
      exact hb
    rw [this]; simp
  · rw [e] at hq
    have : p = q0 ++ sep :: basename p := by simpa using hq
    have h2 : splitPath p = splitPath q0 ++ [basename p] := by
      conv => lhs; rw [this]
      rw [splitPath_append_sep, hb]
    rw [h2]; simp

/-! ### archive detection (round 10) -/

/-- the "closest root" loop returns the unique shortest candidate wherever it stands in the iteration order -/
theorem closest_unique_min (root : Str) : ∀ (l : List Str) (c : Str),
    root ∈ c :: l → (∀ x ∈ c :: l, x = root ∨ root.length < x.length) → closest c l = root := by
  intro l
  induction l with
  | nil =>
    intro c hm _
    simp only [List.mem_singleton] at hm
    simp [closest, hm]
  | cons x rest ih =>
    intro c hm hall
    simp only [closest]
    have hx := hall x (by simp)
    have hc := hall c (by simp)
    by_cases hlt : x.length < c.length
    · simp only [hlt, if_true]
      apply ih
      · rcases List.mem_cons.1 hm with h | h
        · subst h
          rcases hx with h' | h'
          · simp [h']
          · omega
        · exact h
      · intro y hy
        rcases List.mem_cons.1 hy with h | h
        · subst h; exact hx
        · exact hall y (by simp [h])
    · simp only [hlt, if_false]
      apply ih
      · rcases List.mem_cons.1 hm with h | h
        · simp [h]
        · rcases List.mem_cons.1 h with h2 | h2
          · subst h2
            rcases hc with h' | h'
            · simp [h']
            · omega
          · simp [h2]
      · intro y hy
        rcases List.mem_cons.1 hy with h | h
        · subst h; exact hc
        · exact hall y (by simp [h])

/-- `f.find(m)` finds nothing exactly when `m` is no substring of `f` (so the fuel-free search is complete) -/
theorem findSub_none_iff (m : Str) : ∀ (f : Str) (k : Nat), findSub m f k = none ↔ ¬ m <:+: f := by
  intro f
  induction f with
  | nil =>
    intro k
    by_cases h : m = []
    · simp [findSub, h]
    · simp [findSub, h, List.infix_nil]
  | cons c cs ih =>
    intro k
    simp only [findSub]
    by_cases hp : m.isPrefixOf (c :: cs) = true
    · have : m <+: c :: cs := List.isPrefixOf_iff_prefix.1 hp
      simp [hp, List.infix_cons_iff, this]
    · have hn : ¬ m <+: c :: cs := fun h => hp (List.isPrefixOf_iff_prefix.2 h)
      simp only [hp]
      rw [List.infix_cons_iff]
      simp [hn, ih (k + 1)]

end IV.Serde
