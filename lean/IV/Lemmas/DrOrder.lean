import IV.Lemmas.Dr
/-!
Locality of `step` and uniqueness of the evaluation result (C03 isolation, C04 order independence).

`record c i` is everything the step of `c` writes, as a function of the instances it can see.
After a run in ANY valid order the entry of every component equals `record c (final instances)`
(`run_view`); the instances satisfying these local equations are unique (`sol_unique`).
-/
namespace IV.Dr

variable (w : World) (inG : Comp → Bool) (ss : Bool)

/-! ### what `process` reads -/

theorem requires_sub_deps (d : Decl) (r : Comp) (h : r ∈ d.requires) : r ∈ d.deps := by
  simp only [Decl.requires, List.mem_filterMap] at h
  obtain ⟨it, hit, hr⟩ := h
  simp only [Decl.deps, List.mem_append, List.mem_flatMap]
  left
  refine ⟨it, hit, ?_⟩
  cases it with
  | one c => simp at hr; simp [hr]
  | group cs => simp at hr

theorem atLeastOne_sub_deps (d : Decl) (g : List Comp) (m : Comp) (h : g ∈ d.atLeastOne) (hm : m ∈ g) : m ∈ d.deps := by
  simp only [Decl.atLeastOne, List.mem_filterMap] at h
  obtain ⟨it, hit, hr⟩ := h
  simp only [Decl.deps, List.mem_append, List.mem_flatMap]
  left
  refine ⟨it, hit, ?_⟩
  cases it with
  | one c => simp at hr
  | group cs => simp at hr; simp [hr, hm]

theorem filter_congr_mem {α : Type} (l : List α) (p q : α → Bool) (h : ∀ x ∈ l, p x = q x) : l.filter p = l.filter q := by
  induction l with
  | nil => rfl
  | cons a as ih =>
    simp only [List.filter_cons, h a (by simp)]
    rw [ih (fun x hx => h x (by simp [hx]))]

theorem all_congr_mem {α : Type} (l : List α) (p q : α → Bool) (h : ∀ x ∈ l, p x = q x) : l.all p = l.all q := by
  induction l with
  | nil => rfl
  | cons a as ih =>
    simp only [List.all_cons, h a (by simp)]
    rw [ih (fun x hx => h x (by simp [hx]))]

theorem any_congr_mem {α : Type} (l : List α) (p q : α → Bool) (h : ∀ x ∈ l, p x = q x) : l.any p = l.any q := by
  induction l with
  | nil => rfl
  | cons a as ih =>
    simp only [List.any_cons, h a (by simp)]
    rw [ih (fun x hx => h x (by simp [hx]))]

theorem missingDeps_congr (d : Decl) (i j : Inst) (h : ∀ x ∈ d.deps, i x = j x) :
    missingDeps d i = missingDeps d j := by
  unfold missingDeps
  have h1 : d.requires.filter (fun r => !present i r) = d.requires.filter (fun r => !present j r) :=
    filter_congr_mem _ _ _ (fun r hr => by simp [present, h r (requires_sub_deps d r hr)])
  have h2 : d.atLeastOne.filter (fun g => g.all (fun m => !present i m)) =
      d.atLeastOne.filter (fun g => g.all (fun m => !present j m)) :=
    filter_congr_mem _ _ _ (fun g hg => all_congr_mem _ _ _ (fun m hm => by
      simp [present, h m (atLeastOne_sub_deps d g m hg hm)]))
  rw [h1, h2]

theorem invoke_congr (c : Comp) (d : Decl) (i j : Inst) (h : ∀ x ∈ d.deps, i x = j x) :
    invoke w ss c d i = invoke w ss c d j := by
  unfold invoke
  have hm : d.deps.map i = d.deps.map j := List.map_congr_left h
  rw [hm]
  cases hk : d.kind with
  | parser coe =>
    simp only []
    cases hr : d.requires.head? with
    | none => rfl
    | some r =>
      have : r ∈ d.requires := List.mem_of_head? hr
      have e : getVal i r = getVal j r := by simp [getVal, h r (requires_sub_deps d r this)]
      simp only [e]
  | _ => rfl

/-- `process` looks at the broker only at the ignored keys and the declared dependencies -/
theorem process_congr (c : Comp) (d : Decl) (hd : w.decl c = some d) (i j : Inst)
    (h : ∀ x ∈ w.reads c, i x = j x) : process w ss c d i = process w ss c d j := by
  have hdeps : ∀ x ∈ d.deps, i x = j x := fun x hx => h x (by simp [World.reads, World.deps, hd, hx])
  have hign : (w.ignore c).any (present i) = (w.ignore c).any (present j) :=
    any_congr_mem _ _ _ (fun x hx => by simp [present, h x (by simp [World.reads, hx])])
  unfold process
  rw [hign, missingDeps_congr d i j hdeps, invoke_congr w ss c d i j hdeps]

/-! ### the record written by one step -/

def eligible (c : Comp) : Bool := inG c && (w.decl c).isSome && w.enabled c

structure Rec where
  val : Option Val
  missing : Option Missing
  excs : List ExcEntry

/-- everything the step of `c` writes, as a function of the instances it sees (`c` itself absent) -/
def record (c : Comp) (i : Inst) : Rec :=
  if eligible w inG c then
    match w.decl c with
    | some d =>
      match process w ss c d i with
      | .stored v excs => ⟨some v, none, tag c excs⟩
      | .missingReq m => ⟨none, some m, []⟩
      | .skipped e excs => ⟨none, none, tag c (excs ++ (if ss then [(c, e)] else []))⟩
      | .raised e excs => ⟨none, none, tag c (excs ++ [(c, e)] ++ (w.regPoints c).map (·, e))⟩
      | .blacklisted excs => ⟨none, none, tag c (excs ++ [(c, .blacklisted)])⟩
    | none => ⟨none, none, []⟩
  else ⟨none, none, []⟩

theorem record_congr (c : Comp) (i j : Inst) (h : ∀ x ∈ w.reads c, i x = j x) :
    record w inG ss c i = record w inG ss c j := by
  unfold record
  split
  · cases hd : w.decl c with
    | none => rfl
    | some d => simp only []; rw [process_congr w ss c d hd i j h]
  · rfl

/-- the exceptions whose recording was caused by `c` -/
def excOf (b : Broker) (c : Comp) : List ExcEntry := b.excLog.filter (fun e => e.src == c)

theorem filter_tag_self (c : Comp) (es : List (Comp × Exc)) : (tag c es).filter (fun e => e.src == c) = tag c es := by
  induction es with
  | nil => rfl
  | cons a as ih => simp only [tag, List.map_cons, List.filter_cons] at *; simp [ih]

theorem filter_tag_other (c d : Comp) (h : c ≠ d) (es : List (Comp × Exc)) : (tag c es).filter (fun e => e.src == d) = [] := by
  induction es with
  | nil => rfl
  | cons a as ih => simp only [tag, List.map_cons, List.filter_cons] at *; simp [h, ih]

theorem step_excOf_other (b : Broker) (c d : Comp) (h : d ≠ c) : excOf (step w inG ss b c) d = excOf b d := by
  obtain ⟨es, he⟩ := step_excLog w inG ss b c
  unfold excOf
  rw [he, List.filter_append, filter_tag_other c d (fun e => h e.symm), List.append_nil]

theorem run_excOf_other (o : List Comp) (b : Broker) (d : Comp) (h : d ∉ o) :
    excOf (runComponents w inG ss o b) d = excOf b d := by
  induction o generalizing b with
  | nil => rfl
  | cons c o ih =>
    rw [run_cons, ih _ (fun m => h (by simp [m]))]
    exact step_excOf_other w inG ss b c d (fun e => h (by simp [e]))

/-- the step of a component that is not yet in the broker writes exactly its record -/
theorem step_self (b : Broker) (c : Comp) (hi : b.inst c = none) :
    (step w inG ss b c).inst c = (record w inG ss c b.inst).val ∧
    (step w inG ss b c).missing c = ((record w inG ss c b.inst).missing <|> b.missing c) ∧
    excOf (step w inG ss b c) c = excOf b c ++ (record w inG ss c b.inst).excs := by
  have hg : guard w inG b.inst c = eligible w inG c := by
    simp [guard, eligible, present, hi, Bool.and_assoc]
  unfold step record
  rw [hg]
  by_cases he : eligible w inG c = true
  · simp only [he, if_true]
    cases hd : w.decl c with
    | none => simp [eligible, hd] at he
    | some d =>
      simp only []
      cases hp : process w ss c d b.inst with
      | stored v excs => simp [applyResult, excOf, List.filter_append, filter_tag_self, hi]
      | missingReq m => simp [applyResult, excOf, hi]
      | skipped e excs => simp [applyResult, excOf, List.filter_append, filter_tag_self, hi]
      | raised e excs => simp [applyResult, excOf, List.filter_append, filter_tag_self, hi]
      | blacklisted excs => simp [applyResult, excOf, List.filter_append, filter_tag_self, hi]
  · simp [he, hi, excOf]

/-- the step of a component that is already in the broker writes nothing -/
theorem step_self_present (b : Broker) (c : Comp) (hi : present b.inst c = true) :
    (step w inG ss b c).inst c = b.inst c ∧ (step w inG ss b c).missing c = b.missing c ∧
    excOf (step w inG ss b c) c = excOf b c := by
  have hg : guard w inG b.inst c = false := by simp [guard, hi]
  unfold step
  simp [hg, excOf]

end IV.Dr

namespace IV.Dr

variable (w : World) (inG : Comp → Bool) (ss : Bool)

/-- the items of an order that can be evaluated at all (`component in components`) -/
def evald (o : List Comp) : List Comp := o.filter inG

/-- an order the engine may take for a seed broker — a single pass, sub-graph after sub-graph, or any
interleaving of sub-graph orders: no evaluable item twice; the evaluable declared dependencies of an
evaluable item are never later in the order (and no item depends on itself); the keys an item is
told to ignore are stable during the run (not evaluated, or supplied up front — execution contexts are) -/
structure Valid (seed : Inst) (o : List Comp) : Prop where
  nodup : (evald inG o).Nodup
  depsFirst : ∀ pre c post, o = pre ++ c :: post → inG c = true →
    ∀ d ∈ w.deps c, inG d = true → d ∉ post ∧ d ≠ c
  ignoreStable : ∀ c ∈ o, inG c = true → ∀ x ∈ w.ignore c, x ∉ evald inG o ∨ present seed x = true

theorem step_notInG (b : Broker) (c : Comp) (h : inG c = false) :
    (step w inG ss b c).inst = b.inst ∧ (step w inG ss b c).missing = b.missing ∧
    (step w inG ss b c).excLog = b.excLog ∧ (step w inG ss b c).attempts = b.attempts := by
  have hg : guard w inG b.inst c = false := by simp [guard, h]
  unfold step
  simp [hg]

theorem run_inst_const (o : List Comp) (b : Broker) (d : Comp) (h : d ∉ evald inG o) :
    (runComponents w inG ss o b).inst d = b.inst d := by
  induction o generalizing b with
  | nil => rfl
  | cons c o ih =>
    have hd : d ∉ evald inG o := fun m => h (by
      simp only [evald, List.filter_cons]; split <;> simp [evald] at m ⊢ <;> simp [m])
    rw [run_cons, ih _ hd]
    by_cases hdc : d = c
    · subst hdc
      have : inG d = false := by
        cases hi : inG d with
        | false => rfl
        | true => exact absurd (by simp [evald, List.filter_cons, hi]) h
      rw [(step_notInG w inG ss b d this).1]
    · exact step_inst_other w inG ss b c d hdc

theorem run_missing_const (o : List Comp) (b : Broker) (d : Comp) (h : d ∉ evald inG o) :
    (runComponents w inG ss o b).missing d = b.missing d := by
  induction o generalizing b with
  | nil => rfl
  | cons c o ih =>
    have hd : d ∉ evald inG o := fun m => h (by
      simp only [evald, List.filter_cons]; split <;> simp [evald] at m ⊢ <;> simp [m])
    rw [run_cons, ih _ hd]
    by_cases hdc : d = c
    · subst hdc
      have : inG d = false := by
        cases hi : inG d with
        | false => rfl
        | true => exact absurd (by simp [evald, List.filter_cons, hi]) h
      rw [(step_notInG w inG ss b d this).2.1]
    · exact step_missing_other w inG ss b c d hdc

theorem run_excOf_const (o : List Comp) (b : Broker) (d : Comp) (h : d ∉ evald inG o) :
    excOf (runComponents w inG ss o b) d = excOf b d := by
  induction o generalizing b with
  | nil => rfl
  | cons c o ih =>
    have hd : d ∉ evald inG o := fun m => h (by
      simp only [evald, List.filter_cons]; split <;> simp [evald] at m ⊢ <;> simp [m])
    rw [run_cons, ih _ hd]
    by_cases hdc : d = c
    · subst hdc
      have : inG d = false := by
        cases hi : inG d with
        | false => rfl
        | true => exact absurd (by simp [evald, List.filter_cons, hi]) h
      unfold excOf
      rw [(step_notInG w inG ss b d this).2.2.1]
    · exact step_excOf_other w inG ss b c d hdc

/-- the entry a component ends up with, as a function of the final instances -/
def entry (seed : Inst) (c : Comp) (i : Inst) : Rec :=
  if present seed c then ⟨seed c, none, []⟩ else record w inG ss c i

theorem mem_evald_split (o pre post : List Comp) (c : Comp) (ho : o = pre ++ c :: post) (hc : inG c = true)
    (hn : (evald inG o).Nodup) : c ∉ evald inG pre ∧ c ∉ evald inG post := by
  rw [ho] at hn
  simp only [evald, List.filter_append, List.filter_cons, hc, if_true] at hn
  have h1 := List.nodup_append.mp hn
  exact ⟨fun hm => h1.2.2 c hm c (by simp) rfl, (List.nodup_cons.mp h1.2.1).1⟩

theorem run_view (seed : Inst) (o : List Comp) (hv : Valid w inG seed o) (c : Comp) (hc : c ∈ evald inG o) :
    let b := runComponents w inG ss o (Broker.seeded seed)
    b.inst c = (entry w inG ss seed c b.inst).val ∧
    b.missing c = (entry w inG ss seed c b.inst).missing ∧
    excOf b c = (entry w inG ss seed c b.inst).excs := by
  intro b
  have hco : c ∈ o := (List.mem_filter.mp hc).1
  have hcg : inG c = true := (List.mem_filter.mp hc).2
  obtain ⟨pre, post, ho⟩ := List.append_of_mem hco
  obtain ⟨hcpre, hcpost⟩ := mem_evald_split inG o pre post c ho hcg hv.nodup
  let bp := runComponents w inG ss pre (Broker.seeded seed)
  have hb : b = runComponents w inG ss post (step w inG ss bp c) := by
    show runComponents w inG ss o (Broker.seeded seed) = _
    rw [ho, run_append, run_cons]
  have hpi : bp.inst c = seed c := run_inst_const w inG ss pre _ c hcpre
  have hpm : bp.missing c = none := run_missing_const w inG ss pre _ c hcpre
  have hpe : excOf bp c = [] := run_excOf_const w inG ss pre _ c hcpre
  have hfi : b.inst c = (step w inG ss bp c).inst c := by rw [hb]; exact run_inst_const w inG ss post _ c hcpost
  have hfm : b.missing c = (step w inG ss bp c).missing c := by rw [hb]; exact run_missing_const w inG ss post _ c hcpost
  have hfe : excOf b c = excOf (step w inG ss bp c) c := by rw [hb]; exact run_excOf_const w inG ss post _ c hcpost
  unfold entry
  by_cases hs : present seed c = true
  · simp only [hs, if_true]
    obtain ⟨s1, s2, s3⟩ := step_self_present w inG ss bp c (by simp [present, hpi]; simpa [present] using hs)
    rw [hfi, hfm, hfe, s1, s2, s3, hpi, hpm, hpe]; exact ⟨rfl, rfl, rfl⟩
  · simp only [hs]
    have hnone : bp.inst c = none := by
      rw [hpi]; cases h : seed c with
      | none => rfl
      | some v => simp [present, h] at hs
    obtain ⟨s1, s2, s3⟩ := step_self w inG ss bp c hnone
    -- the record computed at the time equals the record computed from the final instances
    have hrec : record w inG ss c bp.inst = record w inG ss c b.inst := by
      apply record_congr
      intro x hx
      -- whatever is not evaluated later keeps its value
      have later : x ∉ evald inG (c :: post) → bp.inst x = b.inst x := by
        intro hxo
        rw [hb, ← run_cons, run_inst_const w inG ss (c :: post) bp x hxo]
      simp only [World.reads, List.mem_append] at hx
      rcases hx with hx | hx
      · rcases hv.ignoreStable c hco hcg x hx with h1 | h1
        · apply later
          intro m; apply h1
          rw [ho]; simp only [evald, List.filter_append, List.mem_append]; right; exact m
        · have e1 : bp.inst x = seed x := run_inst_present w inG ss pre _ x (by simpa [Broker.seeded] using h1)
          have e2 : b.inst x = seed x := run_inst_present w inG ss o _ x (by simpa [Broker.seeded] using h1)
          rw [e1, e2]
      · apply later
        intro m
        have hxg : inG x = true := (List.mem_filter.mp m).2
        obtain ⟨h1, h2⟩ := hv.depsFirst pre c post ho hcg x hx hxg
        rcases List.mem_cons.mp (List.mem_filter.mp m).1 with e | e
        · exact h2 e
        · exact h1 e
    rw [hfi, hfm, hfe, s1, s2, s3, hpm, hpe, hrec]
    simp

/-- what is not evaluated keeps its seed entry -/
theorem run_view_out (seed : Inst) (o : List Comp) (c : Comp) (hc : c ∉ evald inG o) :
    let b := runComponents w inG ss o (Broker.seeded seed)
    b.inst c = seed c ∧ b.missing c = none ∧ excOf b c = [] := by
  intro b
  exact ⟨run_inst_const w inG ss o _ c hc, run_missing_const w inG ss o _ c hc, run_excOf_const w inG ss o _ c hc⟩

/-- the local equations determine the instances uniquely -/
theorem sol_unique (seed : Inst) (o : List Comp) (hv : Valid w inG seed o) (i j : Inst)
    (hi0 : ∀ c, c ∉ evald inG o → i c = seed c) (hj0 : ∀ c, c ∉ evald inG o → j c = seed c)
    (hi : ∀ c ∈ evald inG o, i c = (entry w inG ss seed c i).val)
    (hj : ∀ c ∈ evald inG o, j c = (entry w inG ss seed c j).val) : ∀ c, i c = j c := by
  suffices h : ∀ (post pre : List Comp), o = pre ++ post → (∀ c ∈ pre, i c = j c) →
      ∀ c ∈ pre ++ post, i c = j c by
    intro c
    by_cases hc : c ∈ o
    · exact h o [] (by simp) (by simp) c (by simpa using hc)
    · have : c ∉ evald inG o := fun m => hc (List.mem_filter.mp m).1
      rw [hi0 c this, hj0 c this]
  intro post
  induction post with
  | nil => intro pre _ hp c hc; exact hp c (by simpa using hc)
  | cons d post ih =>
    intro pre ho hp
    have hmem : d ∈ o := by rw [ho]; simp
    have hd' : i d = j d := by
      by_cases hdg : inG d = true
      · have hde : d ∈ evald inG o := List.mem_filter.mpr ⟨hmem, hdg⟩
        rw [hi d hde, hj d hde]
        unfold entry
        split
        · rfl
        · have : record w inG ss d i = record w inG ss d j := by
            apply record_congr
            intro x hx
            simp only [World.reads, List.mem_append] at hx
            have hseeded : ∀ y, present seed y = true → i y = j y := by
              intro y hy
              by_cases hyo : y ∈ evald inG o
              · rw [hi y hyo, hj y hyo]; simp [entry, hy]
              · rw [hi0 y hyo, hj0 y hyo]
            rcases hx with hx | hx
            · rcases hv.ignoreStable d hmem hdg x hx with h1 | h1
              · rw [hi0 x h1, hj0 x h1]
              · exact hseeded x h1
            · by_cases hxe : x ∈ evald inG o
              · have hxg := (List.mem_filter.mp hxe).2
                have hxo := (List.mem_filter.mp hxe).1
                obtain ⟨h1, h2⟩ := hv.depsFirst pre d post ho hdg x hx hxg
                rw [ho] at hxo
                rcases List.mem_append.mp hxo with h3 | h3
                · exact hp x h3
                · rcases List.mem_cons.mp h3 with h4 | h4
                  · exact absurd h4 h2
                  · exact absurd h4 h1
              · rw [hi0 x hxe, hj0 x hxe]
          rw [this]
      · have : d ∉ evald inG o := fun m => hdg (List.mem_filter.mp m).2
        rw [hi0 d this, hj0 d this]
    have := ih (pre ++ [d]) (by simp [ho]) (by
      intro c hc
      rcases List.mem_append.mp hc with h1 | h1
      · exact hp c h1
      · have : c = d := by simpa using h1
        rw [this]; exact hd')
    intro c hc
    exact this c (by simpa using hc)

end IV.Dr
