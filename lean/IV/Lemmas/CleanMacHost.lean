import IV.Lemmas.CleanSpec
/-!
C08 — completeness of the MAC-address and host-name recognisers of the model (`findMac`, `findHost`) with
respect to the specification-side vocabulary of `IV.Lemmas.CleanSpec` (`MacTok`, `HostLabel`):
`mac_found_core`, `host_found_core`.
-/
namespace IV.CleanLine

/-! ### generalities -/

theorem endsOk_cons {ok : Char → Bool} {c : Char} {cs : Str} (h : EndsOk ok (c :: cs)) :
    EndsOk ok cs ∧ (cs = [] → ok c = true) := by
  cases cs with
  | nil => exact ⟨fun x hx => by simp at hx, fun _ => h c (by simp)⟩
  | cons b bs =>
    refine ⟨fun x hx => h x ?_, fun hh => by simp at hh⟩
    rw [List.getLast?_cons_cons]; exact hx

theorem endsOk_mem_getLast {ok : Char → Bool} {pre : Str} (h : EndsOk ok pre) (hne : pre ≠ []) :
    ∃ c, c ∈ pre ∧ ok c = true := by
  refine ⟨pre.getLast hne, List.getLast_mem hne, h _ ?_⟩
  exact List.getLast?_eq_some_getLast hne

/-! ### MAC addresses -/

theorem isMacCls_of_isHex {c : Char} (h : isHex c = true) : isMacCls c = true := by
  simp [isMacCls, h]

theorem isMacCls_of_isSep {c : Char} (h : isSep c = true) : isMacCls c = true := by
  simp [isMacCls, h]

theorem macShape_take (s : Str) (h : macShape s = true) :
    (s.take 17).length = 17 ∧ ∀ c ∈ s.take 17, isMacCls c = true := by
  unfold macShape at h
  split at h
  · simp only [Bool.and_eq_true, beq_iff_eq] at h
    obtain ⟨⟨⟨⟨⟨⟨⟨⟨⟨⟨⟨⟨⟨⟨⟨⟨h1, h2⟩, h3⟩, h4⟩, h5⟩, h6⟩, h7⟩, h8⟩, h9⟩, h10⟩, h11⟩, h12⟩, h13⟩, h14⟩, h15⟩, h16⟩, h17⟩ := h
    subst h6 h9 h12 h15
    refine ⟨by simp, ?_⟩
    intro c hc
    simp only [List.take_succ_cons, List.take_zero, List.mem_cons, List.not_mem_nil, or_false] at hc
    rcases hc with rfl | rfl | rfl | rfl | rfl | rfl | rfl | rfl | rfl | rfl | rfl | rfl | rfl | rfl | rfl | rfl | rfl <;>
      first | exact isMacCls_of_isHex ‹_› | exact isMacCls_of_isSep ‹_›
  · simp at h

theorem macAt_take (s : Str) (h : macAt s = true) :
    (s.take 17).length = 17 ∧ ∀ c ∈ s.take 17, isMacCls c = true := by
  unfold macAt at h
  simp only [Bool.and_eq_true] at h
  exact macShape_take s h.1

theorem macTok_facts (t post : Str) (ht : MacTok t) (hpost : StartsOk (fun c => !isMacCls c) post) :
    macAt (t ++ post) = true ∧ (t ++ post).take 17 = t ∧ ∃ c cs, t = c :: cs := by
  obtain ⟨s, a0, a1, b0, b1, c0, c1, d0, d1, e0, e1, f0, f1, hs, h1, h2, h3, h4, h5, h6, h7, h8, h9, h10,
    h11, h12, rfl⟩ := ht
  refine ⟨?_, by simp, _, _, rfl⟩
  simp only [macAt, macShape, List.cons_append, List.nil_append, List.drop_succ_cons, List.drop_zero,
    beq_self_eq_true, Bool.and_true, Bool.and_eq_true, *, true_and]
  cases post with
  | nil => rfl
  | cons p ps => exact hpost p rfl

/-- the look-behind of the MAC expression -/
def macLb (prev : Option Char) : Bool :=
  match prev with
  | none => true
  | some p => !isMacCls p

theorem scanMac_zero_cons (prev : Option Char) (c : Char) (cs : Str) :
    scanMac prev 0 (c :: cs) =
      if macLb prev && macAt (c :: cs) then (c :: cs).take 17 :: scanMac (some c) 16 cs
      else scanMac (some c) 0 cs := by
  cases prev <;> simp [scanMac, macLb]

theorem scanMac_pre (pre rest : Str) (prev : Option Char) (skip : Nat)
    (hskip : skip ≤ pre.length)
    (hpre : EndsOk (fun c => !isMacCls c) pre)
    (hprev : pre = [] → ∀ p, prev = some p → isMacCls p = false) :
    ∃ found' prev', (∀ p, prev' = some p → isMacCls p = false) ∧
      scanMac prev skip (pre ++ rest) = found' ++ scanMac prev' 0 rest := by
  induction pre generalizing prev skip with
  | nil =>
    have : skip = 0 := by simpa using hskip
    subst this
    exact ⟨[], prev, hprev rfl, rfl⟩
  | cons c cs ih =>
    have ⟨hcs, hc⟩ := endsOk_cons hpre
    have hprev' : cs = [] → ∀ p, some c = some p → isMacCls p = false := by
      intro h p hp
      cases hp
      simpa using hc h
    cases skip with
    | succ k =>
      simp only [List.cons_append, scanMac]
      exact ih (some c) k (by simpa using hskip) hcs hprev'
    | zero =>
      rw [List.cons_append, scanMac_zero_cons]
      split
      · rename_i hcond
        simp only [Bool.and_eq_true] at hcond
        have ⟨hlen, hall⟩ := macAt_take _ hcond.2
        have h16 : 16 ≤ cs.length := by
          apply Classical.byContradiction
          intro hlt
          have hlt : (c :: cs).length ≤ 17 := by simp; omega
          obtain ⟨x, hx, hok⟩ := endsOk_mem_getLast hpre (by simp)
          have : x ∈ (c :: (cs ++ rest)).take 17 := by
            rw [← List.cons_append, List.take_append, List.take_of_length_le hlt]
            exact List.mem_append_left _ hx
          have := hall x this
          simp [this] at hok
        obtain ⟨f, p, hp, he⟩ := ih (some c) 16 h16 hcs hprev'
        exact ⟨_ :: f, p, hp, by rw [he]; rfl⟩
      · exact ih (some c) 0 (Nat.zero_le _) hcs hprev'

/-- a MAC address whose neighbours are not hexadecimal digits, ':' or '-' is returned by the recogniser -/
theorem mac_found_core (pre t post : Str) (ht : MacTok t)
    (hpre : EndsOk (fun c => !isMacCls c) pre)
    (hpost : StartsOk (fun c => !isMacCls c) post) :
    t ∈ findMac (pre ++ t ++ post) := by
  obtain ⟨hat, htake, c, cs, hcs⟩ := macTok_facts t post ht hpost
  obtain ⟨f, p, hp, he⟩ := scanMac_pre pre (t ++ post) none 0 (Nat.zero_le _) hpre (by simp)
  unfold findMac
  rw [List.append_assoc, he]
  apply List.mem_append_right
  have hlb : macLb p = true := by
    cases p with
    | none => rfl
    | some q => simp [macLb, hp q rfl]
  rw [hcs, List.cons_append] at hat htake
  rw [hcs, List.cons_append, scanMac_zero_cons, hlb, hat, htake]
  exact List.mem_cons_self


/-! ### host names -/

theorem charAt_eq_true {s : Str} {i : Nat} {p : Char → Bool} :
    charAt s i p = true ↔ ∃ c, s[i]? = some c ∧ p c = true := by
  unfold charAt
  cases s[i]? <;> simp

theorem isHostCls_ne_newline {c : Char} (h : isHostCls c = true) : c ≠ '\n' := by
  intro hc
  subst hc
  revert h
  decide

theorem domMatch_self_append (d post : Str) (hd : ∀ c ∈ d, c ≠ '\n') :
    domMatch d (d ++ post) = true := by
  induction d with
  | nil => simp [domMatch]
  | cons x xs ih =>
    have hx : x ≠ '\n' := hd x List.mem_cons_self
    have := ih (fun c hc => hd c (List.mem_cons_of_mem _ hc))
    simp [domMatch, this, hx]

theorem domMatch_take (d a b : Str) (h : domMatch d (a ++ b) = true) (hl : a.length ≤ d.length) :
    domMatch (d.take a.length) a = true := by
  induction d generalizing a with
  | nil =>
    have : a = [] := by simpa using hl
    subst this
    simp [domMatch]
  | cons x xs ih =>
    cases a with
    | nil => simp [domMatch]
    | cons y ys =>
      simp only [List.cons_append, domMatch, Bool.and_eq_true] at h
      simp only [List.length_cons, List.take_succ_cons, domMatch, Bool.and_eq_true]
      exact ⟨h.1, ih ys h.2 (by simpa using hl)⟩

theorem hostTry_eq_some {d s : Str} {j n : Nat} (h : hostTry d s j = some n) :
    s[j]? = some '.' ∧ domMatch d (s.drop (j + 1)) = true ∧ n = j + 1 + d.length := by
  unfold hostTry at h
  split at h
  · rename_i hc
    simp only [Bool.and_eq_true] at hc
    obtain ⟨c, hc1, hc2⟩ := charAt_eq_true.1 hc.1
    have : c = '.' := by simpa using hc2
    subst this
    exact ⟨hc1, hc.2, by cases h; rfl⟩
  · cases h

theorem hostTry_of {d s : Str} {j : Nat} (h1 : s[j]? = some '.')
    (h2 : domMatch d (s.drop (j + 1)) = true) : hostTry d s j = some (j + 1 + d.length) := by
  unfold hostTry
  have : charAt s j (· == '.') = true := charAt_eq_true.2 ⟨'.', h1, by simp⟩
  simp [this, h2]

theorem hostTry_none_of {d s : Str} {j : Nat}
    (h : s[j]? = some '.' → domMatch d (s.drop (j + 1)) = true → False) : hostTry d s j = none := by
  cases hh : hostTry d s j with
  | none => rfl
  | some n =>
    have ⟨h1, h2, _⟩ := hostTry_eq_some hh
    exact (h h1 h2).elim

theorem hostBack_eq_some {d s : Str} {J n : Nat} (h : hostBack d s J = some n) :
    ∃ j, j ≤ J ∧ hostTry d s j = some n := by
  induction J with
  | zero => exact ⟨0, Nat.le_refl _, by simpa [hostBack] using h⟩
  | succ J ih =>
    unfold hostBack at h
    split at h
    · rename_i m hm
      cases h
      exact ⟨J + 1, Nat.le_refl _, hm⟩
    · obtain ⟨j, hj, hh⟩ := ih h
      exact ⟨j, by omega, hh⟩

theorem hostBack_of {d s : Str} {j0 n : Nat} (h0 : hostTry d s j0 = some n) (J : Nat) (hJ : j0 ≤ J)
    (hnone : ∀ j, j0 < j → j ≤ J → hostTry d s j = none) : hostBack d s J = some n := by
  induction J with
  | zero =>
    have : j0 = 0 := by omega
    subst this
    simpa [hostBack] using h0
  | succ J ih =>
    unfold hostBack
    by_cases hj : j0 = J + 1
    · subst hj
      rw [h0]
    · rw [hnone (J + 1) (by omega) (Nat.le_refl _)]
      exact ih (by omega) (fun j h1 h2 => hnone j h1 (by omega))

theorem takeWhile_append_lt {p : Char → Bool} (a b : Str) (x : Char) (hx : x ∈ a) (hp : p x = false) :
    ((a ++ b).takeWhile p).length < a.length := by
  induction a with
  | nil => simp at hx
  | cons y ys ih =>
    simp only [List.cons_append, List.takeWhile_cons]
    split
    · rename_i hy
      have : x ∈ ys := by
        rcases List.mem_cons.1 hx with rfl | h
        · simp [hp] at hy
        · exact h
      have := ih this
      simp only [List.length_cons]
      omega
    · simp

/-- a match that starts inside a prefix whose last character is not a host-name character, and whose
dots all lie more than `d.length` characters before its end, stays inside that prefix -/
theorem hostAt_in_pre (d pre rest : Str) (n : Nat) (hne : pre ≠ [])
    (hpre : EndsOk (fun c => !isHostCls c) pre)
    (hdot : ∀ q, pre[q]? = some '.' → q + d.length < pre.length)
    (h : hostAt d (pre ++ rest) = some n) : n ≤ pre.length := by
  unfold hostAt at h
  split at h
  · obtain ⟨j, hj, hh⟩ := hostBack_eq_some h
    obtain ⟨h1, _, h3⟩ := hostTry_eq_some hh
    obtain ⟨x, hx, hok⟩ := endsOk_mem_getLast hpre hne
    have hK := takeWhile_append_lt (p := isHostCls) pre rest x hx (by simpa using hok)
    have hjl : j < pre.length := by omega
    rw [List.getElem?_append_left hjl] at h1
    have := hdot j h1
    omega
  · cases h

theorem endsOk_tail_dot {d : Str} {c : Char} {cs : Str}
    (hdot : ∀ q, (c :: cs)[q]? = some '.' → q + d.length < (c :: cs).length) :
    ∀ q, cs[q]? = some '.' → q + d.length < cs.length := by
  intro q hq
  have := hdot (q + 1) (by simpa using hq)
  simp only [List.length_cons] at this
  omega

theorem scanHost_pre (d pre rest : Str) (skip : Nat)
    (hskip : skip ≤ pre.length)
    (hpre : EndsOk (fun c => !isHostCls c) pre)
    (hdot : ∀ q, pre[q]? = some '.' → q + d.length < pre.length) :
    ∃ found', scanHost d skip (pre ++ rest) = found' ++ scanHost d 0 rest := by
  induction pre generalizing skip with
  | nil =>
    have : skip = 0 := by simpa using hskip
    subst this
    exact ⟨[], rfl⟩
  | cons c cs ih =>
    have ⟨hcs, _⟩ := endsOk_cons hpre
    have hdot' := endsOk_tail_dot hdot
    cases skip with
    | succ k =>
      simp only [List.cons_append, scanHost]
      exact ih k (by simpa using hskip) hcs hdot'
    | zero =>
      cases hh : hostAt d (c :: cs ++ rest) with
      | none =>
        rw [List.cons_append] at hh ⊢
        simp only [scanHost, hh]
        exact ih 0 (Nat.zero_le _) hcs hdot'
      | some n =>
        have hn := hostAt_in_pre d (c :: cs) rest n (by simp) hpre hdot hh
        rw [List.cons_append] at hh ⊢
        simp only [scanHost, hh]
        obtain ⟨f, hf⟩ := ih (n - 1) (by simp at hn; omega) hcs hdot'
        exact ⟨_ :: f, by rw [hf]; rfl⟩

theorem getElem?_lt_of_not_mem_drop {l : Str} {x : Char} {k q : Nat} (hx : x ∉ l.drop k)
    (hq : l[q]? = some x) : q < k := by
  apply Classical.byContradiction
  intro hlt
  apply hx
  apply List.mem_of_getElem? (i := q - k)
  rw [List.getElem?_drop]
  have : k + (q - k) = q := by omega
  rw [this]; exact hq

theorem noSelfOverlap_at {d : Str} (hov : noSelfOverlap d = true) (m : Nat) (hm : m < d.length) (h0 : 0 < m)
    (hdotc : d[d.length - m - 1]? = some '.')
    (hmatch : domMatch (d.take m) (d.drop (d.length - m)) = true) : False := by
  unfold noSelfOverlap at hov
  rw [List.all_eq_true] at hov
  have := hov m (List.mem_range.2 hm)
  have hc : charAt d (d.length - m - 1) (· == '.') = true := charAt_eq_true.2 ⟨'.', hdotc, by simp⟩
  simp [h0, hc, hmatch] at this

/-- the match at the token itself -/
theorem hostAt_token (d lab post : Str) (hlab : HostLabel lab)
    (hd : ∀ c ∈ d, isHostCls c = true) (hov : noSelfOverlap d = true)
    (hdl : d.getLast? ≠ some '.')
    (hpost : StartsOk (fun c => !isHostCls c) post) :
    hostAt d ((lab ++ '.' :: d) ++ post) = some (lab ++ '.' :: d).length := by
  obtain ⟨⟨c, r, rfl, hc⟩, hall⟩ := hlab
  have htall : ∀ x ∈ (c :: r) ++ '.' :: d, isHostCls x = true := by
    intro x hx
    rcases List.mem_append.1 hx with h | h
    · exact hall x h
    · rcases List.mem_cons.1 h with rfl | h
      · decide
      · exact hd x h
  have hpw : post.takeWhile isHostCls = [] := by
    cases post with
    | nil => rfl
    | cons p ps =>
      have := hpost p rfl
      simp only [Bool.not_eq_true'] at this
      simp [this]
  have htw : (((c :: r) ++ '.' :: d) ++ post).takeWhile isHostCls = (c :: r) ++ '.' :: d := by
    rw [List.takeWhile_append_of_pos htall, hpw, List.append_nil]
  unfold hostAt
  rw [htw]
  have h0 : charAt (((c :: r) ++ '.' :: d) ++ post) 0 isWordA = true := by
    simp [charAt, hc]
  rw [h0, if_pos rfl]
  generalize hlabdef : c :: r = lab at *
  -- the text as `lab ++ '.' :: (d ++ post)`
  have hs : (lab ++ '.' :: d) ++ post = lab ++ '.' :: (d ++ post) := by simp
  rw [hs]
  have hget : ∀ k, (lab ++ '.' :: (d ++ post))[lab.length + 1 + k]? = (d ++ post)[k]? := by
    intro k
    rw [List.getElem?_append_right (by omega)]
    have : lab.length + 1 + k - lab.length = k + 1 := by omega
    rw [this, List.getElem?_cons_succ]
  have hdrop : ∀ k, (lab ++ '.' :: (d ++ post)).drop (lab.length + 1 + k) = (d ++ post).drop k := by
    intro k
    have : lab.length + 1 + k = lab.length + (k + 1) := by omega
    rw [this, ← List.drop_drop, List.drop_left, List.drop_succ_cons]
  have hsucc : hostTry d (lab ++ '.' :: (d ++ post)) lab.length = some (lab.length + 1 + d.length) := by
    apply hostTry_of
    · rw [List.getElem?_append_right (Nat.le_refl _)]; simp
    · have := hdrop 0
      simp only [Nat.add_zero, List.drop_zero] at this
      rw [this]
      exact domMatch_self_append d post (fun x hx => isHostCls_ne_newline (hd x hx))
  have hlen : (lab ++ '.' :: d).length = lab.length + 1 + d.length := by simp; omega
  rw [hlen]
  apply hostBack_of hsucc _ (by omega)
  intro j hj1 hj2
  apply hostTry_none_of
  intro hdotj hm
  obtain ⟨k, rfl⟩ : ∃ k, j = lab.length + 1 + k := ⟨j - (lab.length + 1), by omega⟩
  have hk : k ≤ d.length := by omega
  rw [hget] at hdotj
  have : lab.length + 1 + k + 1 = lab.length + 1 + (k + 1) := by omega
  rw [this, hdrop] at hm
  by_cases hkd : k = d.length
  · subst hkd
    rw [List.getElem?_append_right (Nat.le_refl _), Nat.sub_self] at hdotj
    have : post.head? = some '.' := by rw [← hdotj]; cases post <;> simp
    have := hpost _ this
    revert this; decide
  · have hklt : k < d.length := by omega
    rw [List.getElem?_append_left hklt] at hdotj
    rw [List.drop_append_of_le_length (by omega)] at hm
    have hlen2 : (d.drop (k + 1)).length = d.length - k - 1 := by simp; omega
    have hm' := domMatch_take d _ _ hm (by rw [hlen2]; omega)
    rw [hlen2] at hm'
    by_cases hm0 : d.length - k - 1 = 0
    · apply hdl
      rw [List.getLast?_eq_getElem?]
      have : d.length - 1 = k := by omega
      rw [this]; exact hdotj
    · apply noSelfOverlap_at hov (d.length - k - 1) (by omega) (by omega)
      · have : d.length - (d.length - k - 1) - 1 = k := by omega
        rw [this]; exact hdotj
      · have : d.length - (d.length - k - 1) = k + 1 := by omega
        rw [this]; exact hm'

/-- a host of the domain `lab.d`, not preceded by a host-name character and with no '.' within
`d.length` characters before it, followed by the end of the text or a non-host-name character, is returned
by the recogniser as exactly that string (for a domain that does not overlap a shifted copy of itself
and does not end with '.') -/
theorem host_found_core (d pre lab post : Str) (hlab : HostLabel lab)
    (hd : ∀ c ∈ d, isHostCls c = true) (hov : noSelfOverlap d = true)
    (hdl : d.getLast? ≠ some '.')
    (hpre : EndsOk (fun c => !isHostCls c) pre)
    (hnodot : '.' ∉ pre.drop (pre.length - d.length))
    (hpost : StartsOk (fun c => !isHostCls c) post) :
    (lab ++ '.' :: d) ∈ findHost d (pre ++ (lab ++ '.' :: d) ++ post) := by
  have hat := hostAt_token d lab post hlab hd hov hdl hpost
  have hdot : ∀ q, pre[q]? = some '.' → q + d.length < pre.length := by
    intro q hq
    have h1 := getElem?_lt_of_not_mem_drop hnodot hq
    omega
  obtain ⟨f, hf⟩ := scanHost_pre d pre ((lab ++ '.' :: d) ++ post) 0 (Nat.zero_le _) hpre hdot
  unfold findHost
  rw [List.append_assoc, hf]
  apply List.mem_append_right
  have hne : ∃ x xs, (lab ++ '.' :: d) ++ post = x :: xs := by
    obtain ⟨⟨c, r, rfl, _⟩, _⟩ := hlab
    exact ⟨c, _, rfl⟩
  have htake : ((lab ++ '.' :: d) ++ post).take (lab ++ '.' :: d).length = lab ++ '.' :: d := List.take_left
  generalize (lab ++ '.' :: d).length = T at *
  generalize lab ++ '.' :: d = t at *
  obtain ⟨x, xs, hx⟩ := hne
  rw [hx] at hat htake ⊢
  simp only [scanHost, hat, htake]
  exact List.mem_cons_self

example : findMac "mac 52:54:00:aa:bb:cc, MAC:52:54:00:aa:bb:cd".toList = ["52:54:00:aa:bb:cc".toList] := by decide
example : findHost "abc.com".toList "see web2.abc.com, x".toList = ["web2.abc.com".toList] := by decide

end IV.CleanLine
