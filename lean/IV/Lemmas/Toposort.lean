import IV.Model.Dr
/-! Soundness of the toposort model for every tie-break `pick` (C01, C04). -/
namespace IV.Dr

/-- `d` occurs strictly before (the first occurrence split of) `c` in `o` -/
def Before (d c : Comp) (o : List Comp) : Prop := ∃ pre post, o = pre ++ c :: post ∧ d ∈ pre

theorem before_append_left {d c : Comp} {o : List Comp} (l : List Comp) (h : Before d c o) : Before d c (l ++ o) := by
  obtain ⟨pre, post, ho, hd⟩ := h
  exact ⟨l ++ pre, post, by simp [ho], by simp [hd]⟩

theorem before_of_mem {d c : Comp} {l o : List Comp} (hd : d ∈ l) (hc : c ∈ o) : Before d c (l ++ o) := by
  obtain ⟨p, q, ho⟩ := List.append_of_mem hc
  exact ⟨l ++ p, q, by simp [ho], by simp [hd]⟩

theorem key_unique : ∀ (g : Graph), g.keys.Nodup → ∀ c a b, (c, a) ∈ g → (c, b) ∈ g → a = b := by
  intro g
  induction g with
  | nil => intro _ c a b h; simp at h
  | cons kv g ih =>
    intro hn c a b ha hb
    simp only [Graph.keys, List.map_cons, List.nodup_cons] at hn
    rcases List.mem_cons.mp ha with ha | ha <;> rcases List.mem_cons.mp hb with hb | hb
    · rw [← ha] at hb; exact (Prod.mk.inj hb).2.symm
    · exact absurd (List.mem_map.mpr ⟨(c, b), hb, rfl⟩) (by rw [← ha] at hn; exact hn.1)
    · exact absurd (List.mem_map.mpr ⟨(c, a), ha, rfl⟩) (by rw [← hb] at hn; exact hn.1)
    · exact ih hn.2 c a b ha hb

theorem prune_keys (g : Graph) (r : List Comp) :
    (prune g r).keys = g.keys.filter (fun k => !r.contains k) := by
  unfold prune Graph.keys
  rw [List.map_map, List.filter_map]
  apply List.map_congr_left; intro kv _; rfl

theorem prune_keys_nodup (g : Graph) (r : List Comp) (h : g.keys.Nodup) : (prune g r).keys.Nodup := by
  rw [prune_keys]; exact (List.filter_sublist).nodup h

theorem ready_sub_keys (g : Graph) : ∀ c ∈ ready g, c ∈ g.keys := by
  intro c hc
  simp only [ready, List.mem_map, List.mem_filter] at hc
  obtain ⟨kv, ⟨hm, _⟩, rfl⟩ := hc
  exact List.mem_map.mpr ⟨kv, hm, rfl⟩

theorem ready_nodup (g : Graph) (h : g.keys.Nodup) : (ready g).Nodup := by
  unfold ready
  exact (List.filter_sublist.map _).nodup h

/-- every key is emitted, after all its dependencies; every emitted item is a key; no item twice -/
theorem levels_sound (pick : List Comp → List Comp) (hp : ∀ l, (pick l).Perm l) :
    ∀ (f : Nat) (g : Graph) (ls : List (List Comp)), g.keys.Nodup → levels pick f g = some ls →
      (∀ c ds, (c, ds) ∈ g → c ∈ ls.flatten ∧ ∀ d ∈ ds, Before d c ls.flatten) ∧
      (∀ c ∈ ls.flatten, c ∈ g.keys) ∧ ls.flatten.Nodup := by
  intro f
  induction f with
  | zero =>
    intro g ls _ h
    simp only [levels] at h
    split at h
    · rename_i he
      simp only [Option.some.injEq] at h; subst h
      have : g = [] := List.isEmpty_iff.mp he
      subst this; simp
    · simp at h
  | succ f ih =>
    intro g ls hk h
    simp only [levels] at h
    split at h
    · rename_i he
      simp only [Option.some.injEq] at h; subst h
      have : g = [] := List.isEmpty_iff.mp he
      subst this; simp
    · split at h
      · simp at h
      · rename_i hne hr
        cases hl : levels pick f (prune g (ready g)) with
        | none => simp [hl] at h
        | some ls' =>
          simp [hl] at h
          subst h
          obtain ⟨ih1, ih2, ih3⟩ := ih _ _ (prune_keys_nodup g _ hk) hl
          have hpm : ∀ x, x ∈ pick (ready g) ↔ x ∈ ready g := fun x => (hp _).mem_iff
          simp only [List.flatten_cons]
          refine ⟨?_, ?_, ?_⟩
          · intro c ds hm
            by_cases hcr : c ∈ ready g
            · have hds : ds = [] := by
                simp only [ready, List.mem_map, List.mem_filter] at hcr
                obtain ⟨⟨c', e⟩, ⟨hme, hemp⟩, hc'⟩ := hcr
                simp at hc'; subst hc'
                have := key_unique g hk c' ds e hm hme
                rw [this]; simpa using hemp
              subst hds
              exact ⟨by simp [(hpm c).mpr hcr], by simp⟩
            · have hmem : (c, ds.filter (fun d => !(ready g).contains d)) ∈ prune g (ready g) := by
                simp only [prune, List.mem_map, List.mem_filter]
                exact ⟨(c, ds), ⟨hm, by simpa using hcr⟩, rfl⟩
              obtain ⟨hc', hd'⟩ := ih1 c _ hmem
              refine ⟨by simp [hc'], ?_⟩
              intro d hd
              by_cases hdr : d ∈ ready g
              · exact before_of_mem ((hpm d).mpr hdr) hc'
              · exact before_append_left _ (hd' d (by simp [hd, hdr]))
          · intro c hc
            rcases List.mem_append.mp hc with h1 | h1
            · exact ready_sub_keys g c ((hpm c).mp h1)
            · have := ih2 c h1
              rw [prune_keys] at this
              exact (List.mem_filter.mp this).1
          · rw [List.nodup_append]
            refine ⟨(hp _).nodup_iff.mpr (ready_nodup g hk), ih3, ?_⟩
            intro a ha b hb hab
            subst hab
            have h1 := (hpm a).mp ha
            have h2 := ih2 a hb
            rw [prune_keys] at h2
            have := (List.mem_filter.mp h2).2
            simp [h1] at this

/-! ### `prepare`: self-edges dropped, dependency-only items added -/

theorem dedup_mem (l : List Comp) (x : Comp) : x ∈ dedup l ↔ x ∈ l := by
  induction l with
  | nil => simp [dedup]
  | cons a as ih =>
    simp only [dedup]
    split
    · rename_i h
      have : a ∈ as := by simpa using h
      rw [ih]; constructor
      · intro hx; exact List.mem_cons_of_mem _ hx
      · intro hx; rcases List.mem_cons.mp hx with rfl | hx
        · exact this
        · exact hx
    · simp [ih]

theorem dedup_nodup (l : List Comp) : (dedup l).Nodup := by
  induction l with
  | nil => simp [dedup]
  | cons a as ih =>
    simp only [dedup]
    split
    · exact ih
    · rename_i h
      have : a ∉ as := by simpa using h
      exact List.nodup_cons.mpr ⟨by rw [dedup_mem]; exact this, ih⟩

theorem prepare_keys_nodup (g : Graph) (h : g.keys.Nodup) : (prepare g).keys.Nodup := by
  unfold prepare
  simp only [Graph.keys, List.map_append, List.map_map]
  rw [List.nodup_append]
  refine ⟨?_, ?_, ?_⟩
  · have : (List.map ((fun x : Comp × List Comp => x.1) ∘ fun kv => (kv.1, List.filter (fun d => d != kv.1) kv.2)) g) = g.map (·.1) := by
      apply List.map_congr_left; intro kv _; rfl
    rw [this]; exact h
  · have : (List.map ((fun x : Comp × List Comp => x.1) ∘ fun x => (x, ([] : List Comp))) : List Comp → List Comp) = List.map id := by
      funext l; apply List.map_congr_left; intro _ _; rfl
    rw [this, List.map_id]
    exact dedup_nodup _
  · intro a ha b hb hab
    subst hab
    simp only [List.mem_map, Function.comp] at ha hb
    obtain ⟨x, hx, rfl⟩ := hb
    rw [dedup_mem, List.mem_filter] at hx
    have hx2 := hx.2
    simp only [Graph.keys, List.map_map, Bool.not_eq_true', List.contains_eq_mem, decide_eq_false_iff_not,
      List.mem_map, Function.comp, not_exists, not_and] at hx2
    obtain ⟨kv, hkv, hk⟩ := ha
    exact hx2 kv hkv hk

theorem prepare_mem (g : Graph) (c : Comp) (ds : List Comp) (h : (c, ds) ∈ g) :
    (c, ds.filter (fun d => d != c)) ∈ prepare g := by
  unfold prepare
  simp only [List.mem_append, List.mem_map]
  left; exact ⟨(c, ds), h, rfl⟩

theorem prepare_dep_key (g : Graph) (c d : Comp) (ds : List Comp) (h : (c, ds) ∈ g) (hd : d ∈ ds) (hne : d ≠ c) :
    d ∈ (prepare g).keys := by
  unfold prepare
  simp only [Graph.keys, List.map_append, List.mem_append, List.map_map]
  by_cases hk : d ∈ g.keys
  · left
    simp only [Graph.keys, List.mem_map] at hk ⊢
    obtain ⟨kv, hkv, rfl⟩ := hk
    exact ⟨kv, hkv, rfl⟩
  · right
    simp only [List.mem_map, Function.comp]
    refine ⟨d, ?_, rfl⟩
    rw [dedup_mem, List.mem_filter]
    constructor
    · simp only [List.mem_flatMap, List.mem_map]
      exact ⟨(c, ds.filter (fun x => x != c)), ⟨(c, ds), h, rfl⟩, by simp [hd, hne]⟩
    · simp only [Graph.keys, List.map_map, Bool.not_eq_true', List.contains_eq_mem, decide_eq_false_iff_not,
        List.mem_map, Function.comp, not_exists, not_and]
      intro kv hkv hk'
      exact hk (List.mem_map.mpr ⟨kv, hkv, hk'⟩)

end IV.Dr

namespace IV.Dr

theorem prune_length_lt (g : Graph) (h : (ready g).isEmpty = false) : (prune g (ready g)).length < g.length := by
  unfold prune
  rw [List.length_map]
  have hne : ready g ≠ [] := by intro e; simp [e] at h
  obtain ⟨c, hc⟩ := List.exists_mem_of_ne_nil _ hne
  simp only [ready, List.mem_map, List.mem_filter] at hc
  obtain ⟨kv, ⟨hm, hemp⟩, hk⟩ := hc
  apply List.length_filter_lt_length_iff_exists.mpr
  refine ⟨kv, hm, ?_⟩
  have hin : kv.1 ∈ ready g := by
    simp only [ready, List.mem_map, List.mem_filter]
    exact ⟨kv, ⟨hm, hemp⟩, rfl⟩
  simp [hin]

/-- any fuel ≥ the number of items gives the same answer: `none` is a cyclic remainder, never exhaustion -/
theorem levels_fuel (pick : List Comp → List Comp) :
    ∀ (f f' : Nat) (g : Graph), g.length ≤ f → g.length ≤ f' → levels pick f g = levels pick f' g := by
  intro f
  induction f with
  | zero =>
    intro f' g h _
    have : g = [] := List.length_eq_zero_iff.mp (by omega)
    subst this
    cases f' <;> simp [levels]
  | succ f ih =>
    intro f' g h h'
    cases f' with
    | zero =>
      have : g = [] := List.length_eq_zero_iff.mp (by omega)
      subst this; simp [levels]
    | succ f' =>
      simp only [levels]
      split
      · rfl
      · split
        · rfl
        · rename_i hr
          have hlt := prune_length_lt g (by simpa using hr)
          rw [ih f' _ (by omega) (by omega)]

end IV.Dr

namespace IV.Dr

/-! ### completeness: an acyclic graph is always sorted -/

/-- every dependency mentioned in the graph is itself a key (what `prepare` establishes) -/
def DepsAreKeys (g : Graph) : Prop := ∀ c ds, (c, ds) ∈ g → ∀ d ∈ ds, d ∈ g.keys

/-- acyclic, witnessed by a rank that strictly decreases along dependencies -/
def Ranked (rank : Comp → Nat) (g : Graph) : Prop := ∀ c ds, (c, ds) ∈ g → ∀ d ∈ ds, rank d < rank c

theorem exists_min_rank (rank : Comp → Nat) : ∀ (g : Graph), g ≠ [] → ∃ kv ∈ g, ∀ kv' ∈ g, rank kv.1 ≤ rank kv'.1 := by
  intro g
  induction g with
  | nil => intro h; exact absurd rfl h
  | cons a as ih =>
    intro _
    by_cases has : as = []
    · subst has; exact ⟨a, by simp, by simp⟩
    · obtain ⟨m, hm, hmin⟩ := ih has
      by_cases hle : rank a.1 ≤ rank m.1
      · refine ⟨a, by simp, ?_⟩
        intro kv' hkv'
        rcases List.mem_cons.mp hkv' with rfl | h
        · exact Nat.le_refl _
        · exact Nat.le_trans hle (hmin kv' h)
      · refine ⟨m, by simp [hm], ?_⟩
        intro kv' hkv'
        rcases List.mem_cons.mp hkv' with rfl | h
        · omega
        · exact hmin kv' h

theorem ready_nonempty (rank : Comp → Nat) (g : Graph) (hne : g ≠ []) (hd : DepsAreKeys g) (hr : Ranked rank g) :
    (ready g).isEmpty = false := by
  obtain ⟨kv, hkv, hmin⟩ := exists_min_rank rank g hne
  have hemp : kv.2 = [] := by
    cases h : kv.2 with
    | nil => rfl
    | cons d ds =>
      have hdk : d ∈ g.keys := hd kv.1 kv.2 hkv d (by simp [h])
      obtain ⟨kv', hkv', hk'⟩ := List.mem_map.mp hdk
      have h1 := hr kv.1 kv.2 hkv d (by simp [h])
      have h2 := hmin kv' hkv'
      rw [hk'] at h2
      omega
  have : kv.1 ∈ ready g := by
    simp only [ready, List.mem_map, List.mem_filter]
    exact ⟨kv, ⟨hkv, by simp [hemp]⟩, rfl⟩
  cases hre : ready g with
  | nil => rw [hre] at this; simp at this
  | cons _ _ => rfl

theorem prune_depsAreKeys (g : Graph) (r : List Comp) (hd : DepsAreKeys g) : DepsAreKeys (prune g r) := by
  intro c ds hm d hdd
  simp only [prune, List.mem_map, List.mem_filter] at hm
  obtain ⟨kv, ⟨hkv, _⟩, he⟩ := hm
  simp only [Prod.mk.injEq] at he
  obtain ⟨rfl, rfl⟩ := he
  rw [List.mem_filter] at hdd
  rw [prune_keys, List.mem_filter]
  exact ⟨hd kv.1 kv.2 hkv d hdd.1, hdd.2⟩

theorem prune_ranked (rank : Comp → Nat) (g : Graph) (r : List Comp) (hr : Ranked rank g) : Ranked rank (prune g r) := by
  intro c ds hm d hdd
  simp only [prune, List.mem_map, List.mem_filter] at hm
  obtain ⟨kv, ⟨hkv, _⟩, he⟩ := hm
  simp only [Prod.mk.injEq] at he
  obtain ⟨rfl, rfl⟩ := he
  rw [List.mem_filter] at hdd
  exact hr kv.1 kv.2 hkv d hdd.1

theorem levels_complete (pick : List Comp → List Comp) (rank : Comp → Nat) :
    ∀ (f : Nat) (g : Graph), g.length ≤ f → DepsAreKeys g → Ranked rank g → (levels pick f g).isSome = true := by
  intro f
  induction f with
  | zero =>
    intro g h _ _
    have : g = [] := List.length_eq_zero_iff.mp (by omega)
    subst this; simp [levels]
  | succ f ih =>
    intro g h hd hr
    simp only [levels]
    split
    · rfl
    · rename_i hne
      have hne' : g ≠ [] := by intro e; simp [e] at hne
      have hrd := ready_nonempty rank g hne' hd hr
      simp only [hrd, Bool.false_eq_true, if_false]
      have hlt := prune_length_lt g hrd
      have := ih (prune g (ready g)) (by omega) (prune_depsAreKeys g _ hd) (prune_ranked rank g _ hr)
      cases hl : levels pick f (prune g (ready g)) with
      | none => simp [hl] at this
      | some ls => simp

theorem prepare_depsAreKeys (g : Graph) : DepsAreKeys (prepare g) := by
  intro c ds hm d hdd
  unfold prepare at hm
  simp only [List.mem_append, List.mem_map] at hm
  rcases hm with ⟨kv, hkv, he⟩ | ⟨x, _, he⟩
  · simp only [Prod.mk.injEq] at he
    obtain ⟨rfl, rfl⟩ := he
    rw [List.mem_filter] at hdd
    exact prepare_dep_key g kv.1 d kv.2 hkv hdd.1 (by simpa using hdd.2)
  · simp only [Prod.mk.injEq] at he
    rw [← he.2] at hdd; simp at hdd

theorem prepare_ranked (rank : Comp → Nat) (g : Graph)
    (hr : ∀ c ds, (c, ds) ∈ g → ∀ d ∈ ds, d ≠ c → rank d < rank c) : Ranked rank (prepare g) := by
  intro c ds hm d hdd
  unfold prepare at hm
  simp only [List.mem_append, List.mem_map] at hm
  rcases hm with ⟨kv, hkv, he⟩ | ⟨x, _, he⟩
  · simp only [Prod.mk.injEq] at he
    obtain ⟨rfl, rfl⟩ := he
    rw [List.mem_filter] at hdd
    exact hr kv.1 kv.2 hkv d hdd.1 (by simpa using hdd.2)
  · simp only [Prod.mk.injEq] at he
    rw [← he.2] at hdd; simp at hdd

end IV.Dr
