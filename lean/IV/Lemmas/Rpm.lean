import IV.Model.Rpm
/-! Helper lemmas for C13 (order laws of `_rpm_vercmp`). -/
namespace IV.Rpm

/-! ### lexCmp -/

theorem lexCmp_range (a b : Str) : lexCmp a b = -1 ∨ lexCmp a b = 0 ∨ lexCmp a b = 1 := by
  induction a generalizing b with
  | nil => cases b <;> simp [lexCmp]
  | cons x xs ih =>
    cases b with
    | nil => simp [lexCmp]
    | cons y ys =>
      simp only [lexCmp]
      split
      · simp
      · split
        · simp
        · exact ih ys

theorem lexCmp_antisymm (a b : Str) : lexCmp a b = - lexCmp b a := by
  induction a generalizing b with
  | nil => cases b <;> simp [lexCmp]
  | cons x xs ih =>
    cases b with
    | nil => simp [lexCmp]
    | cons y ys =>
      simp only [lexCmp]
      by_cases h1 : x < y
      · have : ¬ y < x := fun h2 => absurd (Char.lt_trans h1 h2) (Char.lt_irrefl x)
        simp [h1, this]
      · by_cases h2 : y < x
        · simp [h1, h2]
        · simp [h1, h2, ih]

theorem lexCmp_refl (a : Str) : lexCmp a a = 0 := by
  induction a with
  | nil => rfl
  | cons x xs ih => simp [lexCmp, Char.lt_irrefl, ih]

theorem char_eq_of_not_lt {x y : Char} (h1 : ¬ x < y) (h2 : ¬ y < x) : x = y := by
  have h1' : y ≤ x := Char.not_lt.mp h1
  have h2' : x ≤ y := Char.not_lt.mp h2
  exact Char.le_antisymm h2' h1'

theorem lexCmp_eq_zero {a b : Str} (h : lexCmp a b = 0) : a = b := by
  induction a generalizing b with
  | nil => cases b with
    | nil => rfl
    | cons y ys => simp [lexCmp] at h
  | cons x xs ih =>
    cases b with
    | nil => simp [lexCmp] at h
    | cons y ys =>
      simp only [lexCmp] at h
      by_cases h1 : x < y
      · simp [h1] at h
      · by_cases h2 : y < x
        · simp [h1, h2] at h
        · simp only [h1, h2, if_false] at h
          rw [char_eq_of_not_lt h1 h2, ih h]

theorem lexCmp_trans_le (a b c : Str) (h1 : lexCmp a b ≤ 0) (h2 : lexCmp b c ≤ 0) : lexCmp a c ≤ 0 := by
  induction a generalizing b c with
  | nil => cases c <;> simp [lexCmp]
  | cons x xs ih =>
    cases b with
    | nil => simp [lexCmp] at h1
    | cons y ys =>
      cases c with
      | nil => simp [lexCmp] at h2
      | cons z zs =>
        simp only [lexCmp] at h1 h2 ⊢
        by_cases hxy : x < y
        · by_cases hyz : y < z
          · simp [Char.lt_trans hxy hyz]
          · by_cases hzy : z < y
            · simp [hyz, hzy] at h2
            · have : y = z := char_eq_of_not_lt hyz hzy
              subst this; simp [hxy]
        · by_cases hyx : y < x
          · simp [hxy, hyx] at h1
          · have : x = y := char_eq_of_not_lt hxy hyx
            subst this
            simp only [hxy, if_false] at h1
            by_cases hyz : x < z
            · simp [hyz]
            · by_cases hzy : z < x
              · simp [hyz, hzy] at h2
              · simp only [hyz, hzy, if_false] at h2 ⊢
                exact ih ys zs h1 h2

/-! ### segCmp -/

theorem segCmp_range (n : Bool) (l r : Str) : segCmp n l r = -1 ∨ segCmp n l r = 0 ∨ segCmp n l r = 1 := by
  unfold segCmp
  cases n
  · simpa using lexCmp_range l r
  · simp only [if_true]
    split
    · simp
    · split
      · simp
      · exact lexCmp_range _ _

theorem segCmp_antisymm (n : Bool) (l r : Str) : segCmp n l r = - segCmp n r l := by
  unfold segCmp
  cases n <;> simp
  · exact lexCmp_antisymm l r
  · split <;> split <;> first | omega | simp_all | skip
    all_goals first | omega | (rw [lexCmp_antisymm])

theorem segCmp_refl (n : Bool) (l : Str) : segCmp n l l = 0 := by
  unfold segCmp; cases n <;> simp [lexCmp_refl]

theorem segCmp_trans_le (n : Bool) (a b c : Str) (h1 : segCmp n a b ≤ 0) (h2 : segCmp n b c ≤ 0) :
    segCmp n a c ≤ 0 := by
  unfold segCmp at *
  cases n
  · simp only [Bool.false_eq_true, if_false] at *
    exact lexCmp_trans_le a b c h1 h2
  · simp only [if_true] at *
    by_cases hab : (stripZeros a).length > (stripZeros b).length
    · simp [hab] at h1
    · by_cases hba : (stripZeros b).length > (stripZeros a).length
      · -- a shorter than b
        by_cases hbc : (stripZeros b).length > (stripZeros c).length
        · simp [hbc] at h2
        · have : ¬ (stripZeros a).length > (stripZeros c).length := by omega
          have h3 : (stripZeros c).length > (stripZeros a).length := by omega
          simp [this, h3]
      · simp only [hab, hba, if_false] at h1
        by_cases hbc : (stripZeros b).length > (stripZeros c).length
        · simp [hbc] at h2
        · by_cases hcb : (stripZeros c).length > (stripZeros b).length
          · have : ¬ (stripZeros a).length > (stripZeros c).length := by omega
            have h3 : (stripZeros c).length > (stripZeros a).length := by omega
            simp [this, h3]
          · simp only [hbc, hcb, if_false] at h2
            have e1 : ¬ (stripZeros a).length > (stripZeros c).length := by omega
            have e2 : ¬ (stripZeros c).length > (stripZeros a).length := by omega
            simp only [e1, e2, if_false]
            exact lexCmp_trans_le _ _ _ h1 h2

/-! ### a comparison that is antisymmetric and `≤`-transitive is a total preorder -/

theorem cmp_strict_of_trans {α : Type} (cmp : α → α → Int)
    (anti : ∀ a b, cmp a b = - cmp b a)
    (tr : ∀ a b c, cmp a b ≤ 0 → cmp b c ≤ 0 → cmp a c ≤ 0)
    (a b c : α) (h1 : cmp a b ≤ 0) (h2 : cmp b c ≤ 0) (h3 : cmp a c = 0) :
    cmp a b = 0 ∧ cmp b c = 0 := by
  have hca : cmp c a ≤ 0 := by rw [anti c a, h3]; simp
  have hcb : cmp c b ≤ 0 := tr c a b hca h1
  have hba : cmp b a ≤ 0 := tr b c a h2 hca
  have e1 := anti a b
  have e2 := anti b c
  constructor <;> omega

/-! ### the loop -/

theorem cls_nil : cls [] = .eof := rfl

theorem skipSep_nil : skipSep [] = [] := rfl

theorem step_eof (rec : Str → Str → Int) : step rec [] [] = 0 := by
  simp [step, cls]

theorem loop_succ (f : Nat) (a b : Str) : loop (f + 1) a b = step (loop f) (skipSep a) (skipSep b) := by
  simp only [loop]
  split
  · rename_i h
    simp only [Bool.and_eq_true, List.isEmpty_iff] at h
    rw [h.1, h.2, skipSep_nil, step_eof]
  · rfl

theorem ite_neg_helper (x y A B : Int) (h : x = -y) (hAB : A = -B) :
    (if x = 0 then A else x) = -(if y = 0 then B else y) := by
  subst h; by_cases hy : y = 0 <;> simp [hy, hAB]

theorem step_antisymm (r : Str → Str → Int) (ih : ∀ a b, r a b = - r b a) (a b : Str) :
    step r a b = - step r b a := by
  unfold step
  cases ha : cls a <;> cases hb : cls b <;> simp only [] <;>
    first
    | rfl
    | exact ih _ _
    | simp; done
    | skip
  all_goals (simp only [bne_iff_ne, ne_eq, ite_not]; exact ite_neg_helper _ _ _ _ (segCmp_antisymm _ _ _) (ih _ _))

theorem loop_antisymm : ∀ (f : Nat) (a b : Str), loop f a b = - loop f b a := by
  intro f
  induction f with
  | zero => intro a b; simp [loop]
  | succ f ih => intro a b; rw [loop_succ, loop_succ]; exact step_antisymm _ ih _ _

theorem step_refl (r : Str → Str → Int) (ih : ∀ a, r a a = 0) (a : Str) : step r a a = 0 := by
  unfold step
  cases ha : cls a <;> simp [segCmp_refl, ih]

theorem loop_refl : ∀ (f : Nat) (a : Str), loop f a a = 0 := by
  intro f
  induction f with
  | zero => intro a; simp [loop]
  | succ f ih => intro a; rw [loop_succ]; exact step_refl _ ih _

theorem step_range (r : Str → Str → Int) (ih : ∀ a b, r a b = -1 ∨ r a b = 0 ∨ r a b = 1) (a b : Str) :
    step r a b = -1 ∨ step r a b = 0 ∨ step r a b = 1 := by
  unfold step
  cases ha : cls a <;> cases hb : cls b <;> simp only [] <;>
    first
    | exact ih _ _
    | simp; done
    | skip
  all_goals
    (split
     · exact segCmp_range _ _ _
     · exact ih _ _)

theorem loop_range : ∀ (f : Nat) (a b : Str), loop f a b = -1 ∨ loop f a b = 0 ∨ loop f a b = 1 := by
  intro f
  induction f with
  | zero => intro a b; simp [loop]
  | succ f ih => intro a b; rw [loop_succ]; exact step_range _ ih _ _

end IV.Rpm

namespace IV.Rpm

/-! ### transitivity -/

theorem ite_trans_helper (c1 c2 c3 r1 r2 r3 : Int)
    (hle : c1 ≤ 0 → c2 ≤ 0 → c3 ≤ 0)
    (hz : c1 ≤ 0 → c2 ≤ 0 → c3 = 0 → c1 = 0 ∧ c2 = 0)
    (hr : r1 ≤ 0 → r2 ≤ 0 → r3 ≤ 0)
    (h1 : (if c1 = 0 then r1 else c1) ≤ 0) (h2 : (if c2 = 0 then r2 else c2) ≤ 0) :
    (if c3 = 0 then r3 else c3) ≤ 0 := by
  have h1' : c1 ≤ 0 := by by_cases h : c1 = 0 <;> simp [h] at h1 <;> omega
  have h2' : c2 ≤ 0 := by by_cases h : c2 = 0 <;> simp [h] at h2 <;> omega
  by_cases h3 : c3 = 0
  · obtain ⟨e1, e2⟩ := hz h1' h2' h3
    simp only [e1, e2, if_true] at h1 h2
    simp only [h3, if_true]
    exact hr h1 h2
  · simp only [h3, if_false]; exact hle h1' h2'

theorem step_trans_le (r : Str → Str → Int)
    (ih : ∀ a b c, r a b ≤ 0 → r b c ≤ 0 → r a c ≤ 0)
    (a b c : Str) (h1 : step r a b ≤ 0) (h2 : step r b c ≤ 0) : step r a c ≤ 0 := by
  unfold step at *
  cases ha : cls a <;> cases hb : cls b <;> cases hc : cls c <;>
    simp only [ha, hb, hc] at h1 h2 ⊢ <;>
    first
    | omega
    | exact ih _ _ _ h1 h2
    | skip
  all_goals
    (simp only [bne_iff_ne, ne_eq, ite_not] at h1 h2 ⊢
     exact ite_trans_helper _ _ _ _ _ _
       (segCmp_trans_le _ _ _ _)
       (cmp_strict_of_trans (segCmp _) (segCmp_antisymm _) (segCmp_trans_le _) _ _ _)
       (ih _ _ _) h1 h2)

theorem loop_trans_le : ∀ (f : Nat) (a b c : Str), loop f a b ≤ 0 → loop f b c ≤ 0 → loop f a c ≤ 0 := by
  intro f
  induction f with
  | zero => intro a b c _ _; simp [loop]
  | succ f ih =>
    intro a b c h1 h2
    rw [loop_succ] at *
    exact step_trans_le _ ih _ _ _ h1 h2

/-! ### fuel -/

theorem skipSep_length (a : Str) : (skipSep a).length ≤ a.length := by
  induction a with
  | nil => simp [skipSep]
  | cons c cs ih => simp only [skipSep]; split <;> simp <;> omega

theorem cls_ne_eof_length {a : Str} (h : cls a ≠ .eof) : 0 < a.length := by
  cases a with
  | nil => simp [cls] at h
  | cons c cs => simp

theorem takeWhile_pos_of_head {p : Char → Bool} {c : Char} {cs : Str} (h : p c = true) :
    0 < ((c :: cs).takeWhile p).length := by
  simp [List.takeWhile, h]

theorem cls_dig {a : Str} (h : cls a = .dig) : 0 < (a.takeWhile isDigit).length ∧ 0 < a.length := by
  cases a with
  | nil => simp [cls] at h
  | cons c cs =>
    simp only [cls] at h
    split at h; · simp at h
    split at h; · simp at h
    split at h
    · rename_i hd; exact ⟨takeWhile_pos_of_head hd, by simp⟩
    · simp at h

theorem cls_alp {a : Str} (h : cls a = .alp) : 0 < a.length := by
  cases a with
  | nil => simp [cls] at h
  | cons c cs => simp

theorem takeWhile_length_le (p : Char → Bool) (a : Str) : (a.takeWhile p).length ≤ a.length := by
  induction a with
  | nil => simp
  | cons c cs ih => simp only [List.takeWhile]; split <;> simp <;> omega

end IV.Rpm

namespace IV.Rpm

def NoSepHead (a : Str) : Prop := ∀ c cs, a = c :: cs → isSep c = false

theorem skipSep_noSepHead (a : Str) : NoSepHead (skipSep a) := by
  induction a with
  | nil => intro c cs h; simp [skipSep] at h
  | cons x xs ih =>
    simp only [skipSep]
    split
    · exact ih
    · rename_i hx
      intro c cs h
      simp at h
      rw [← h.1]; simpa using hx

theorem cls_alp_takeWhile {a : Str} (hn : NoSepHead a) (h : cls a = .alp) :
    0 < (a.takeWhile isAlpha).length := by
  cases a with
  | nil => simp [cls] at h
  | cons c cs =>
    have hs := hn c cs rfl
    simp only [cls] at h
    split at h; · simp at h
    split at h; · simp at h
    split at h; · simp at h
    rename_i h1 h2 h3
    have : isAlpha c = true := by
      simp only [isSep, isAlnum, isDigit, isAlpha] at hs h3 ⊢
      simp only [Bool.and_eq_false_iff, Bool.not_eq_false', Bool.or_eq_true, bne_eq_false_iff_eq] at hs
      rcases hs with (hs | hs) | hs
      · rcases hs with hs | hs
        · exact absurd hs h3
        · exact hs
      · exact absurd hs h1
      · exact absurd hs h2
    exact takeWhile_pos_of_head this

theorem step_congr_on (r1 r2 : Str → Str → Int) (a b : Str)
    (ha : NoSepHead a) (hb : NoSepHead b)
    (h : ∀ x y, x.length + y.length < a.length + b.length → r1 x y = r2 x y) :
    step r1 a b = step r2 a b := by
  unfold step
  cases hca : cls a <;> cases hcb : cls b <;> simp only []
  · -- tilde tilde
    apply h
    have := cls_ne_eof_length (a := a) (by rw [hca]; simp)
    have := cls_ne_eof_length (a := b) (by rw [hcb]; simp)
    simp only [List.length_tail]; omega
  · apply h
    have := cls_ne_eof_length (a := a) (by rw [hca]; simp)
    have := cls_ne_eof_length (a := b) (by rw [hcb]; simp)
    simp only [List.length_tail]; omega
  · have h1 := (cls_dig hca).1
    have h2 := (cls_dig hcb).1
    have h3 := takeWhile_length_le isDigit a
    have h4 := takeWhile_length_le isDigit b
    rw [h _ _ (by simp only [List.length_drop]; omega)]
  · have h1 := cls_alp_takeWhile ha hca
    have h2 := cls_alp_takeWhile hb hcb
    have h3 := takeWhile_length_le isAlpha a
    have h4 := takeWhile_length_le isAlpha b
    rw [h _ _ (by simp only [List.length_drop]; omega)]

/-- any fuel above |a| + |b| gives the same answer: the `fuel = 0` branch is never the reason
for a result of `vercmp` -/
theorem loop_fuel : ∀ (f g : Nat) (a b : Str), a.length + b.length < f → a.length + b.length < g →
    loop f a b = loop g a b := by
  intro f
  induction f with
  | zero => intro g a b h; omega
  | succ f ih =>
    intro g a b hf hg
    cases g with
    | zero => omega
    | succ g =>
      rw [loop_succ, loop_succ]
      apply step_congr_on _ _ _ _ (skipSep_noSepHead a) (skipSep_noSepHead b)
      intro x y hxy
      have := skipSep_length a
      have := skipSep_length b
      exact ih g x y (by omega) (by omega)

theorem norm_length (a : Str) : (norm a).length = a.length := by simp [norm]

end IV.Rpm
