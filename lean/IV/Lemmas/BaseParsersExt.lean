import IV.Model.BaseParsersExt
/-!
Helper lemmas for the round-10 part of C14 (IV/Model/BaseParsersExt.lean): the loop of `plugins.parser.invoke`.
-/
namespace IV.BaseParsers

/-- the objects among the constructions, in order -/
def objsOf {α : Type} : List (Built α) → List α
  | [] => []
  | .obj v :: bs => v :: objsOf bs
  | _ :: bs => objsOf bs

def isErr {α : Type} : Built α → Bool
  | .contentError => true
  | .failed => true
  | _ => false

theorem invokeLoop_coe {α : Type} (bs : List (Built α)) : invokeLoop true bs = (objsOf bs, false) := by
  induction bs with
  | nil => rfl
  | cons b bs ih => cases b <;> simp [invokeLoop, objsOf, ih]

theorem invokeLoop_strict_err {α : Type} (bs : List (Built α)) (h : bs.any isErr = true) :
    (invokeLoop false bs).2 = true := by
  induction bs with
  | nil => simp at h
  | cons b bs ih =>
    cases b with
    | obj v => simp only [List.any_cons, isErr, Bool.false_or] at h; simp [invokeLoop, ih h]
    | skip => simp only [List.any_cons, isErr, Bool.false_or] at h; simp [invokeLoop, ih h]
    | contentError => simp [invokeLoop]
    | failed => simp [invokeLoop]

theorem invokeLoop_strict_ok {α : Type} (bs : List (Built α)) (h : bs.any isErr = false) :
    invokeLoop false bs = (objsOf bs, false) := by
  induction bs with
  | nil => rfl
  | cons b bs ih =>
    cases b with
    | obj v => simp only [List.any_cons, isErr, Bool.false_or] at h; simp [invokeLoop, objsOf, ih h]
    | skip => simp only [List.any_cons, isErr, Bool.false_or] at h; simp [invokeLoop, objsOf, ih h]
    | contentError => simp [isErr] at h
    | failed => simp [isErr] at h

/-! `LazyLogFileOutput.do_scan()` -/

theorem doScanAll_mono (r : Registry) : ∀ (o o' : LazyObj), doScanAll r o = some o' → ∀ k, k ∈ o.scanned → k ∈ o'.scanned := by
  induction r with
  | nil => intro o o' h k hk; simp [doScanAll] at h; subst h; exact hk
  | cons d ds ih =>
    intro o o' h k hk
    unfold doScanAll at h
    split at h
    · exact ih o o' h k hk
    · split at h
      · simp at h
      · exact ih _ o' h k (by simp [hk])

theorem doScanAll_covers (r : Registry) : ∀ (o o' : LazyObj), doScanAll r o = some o' → ∀ d ∈ r, d.key ∈ o'.scanned := by
  induction r with
  | nil => intro o o' h d hd; simp at hd
  | cons d ds ih =>
    intro o o' h e he
    unfold doScanAll at h
    rcases List.mem_cons.mp he with rfl | he'
    · split at h
      · rename_i hc; exact doScanAll_mono ds o o' h _ (by simpa using hc)
      · split at h
        · simp at h
        · exact doScanAll_mono ds _ o' h _ (by simp)
    · split at h
      · exact ih o o' h e he'
      · split at h
        · simp at h
        · exact ih _ o' h e he'

theorem doScanAll_fixed (r : Registry) (o : LazyObj) (h : ∀ d ∈ r, d.key ∈ o.scanned) : doScanAll r o = some o := by
  induction r with
  | nil => rfl
  | cons d ds ih =>
    unfold doScanAll
    have : o.scanned.contains d.key = true := by simpa using h d (by simp)
    simp only [this, ↓reduceIte]
    exact ih (fun e he => h e (by simp [he]))

end IV.BaseParsers
