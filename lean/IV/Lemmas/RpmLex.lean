import IV.Model.RpmLex
import IV.Lemmas.Rpm
/-!
C13, DESIGN Appendix A.1: lemmas behind `vercmp_eq_lex` — one iteration of the loop compares the
head tokens and continues on the tails; the token cutter's fuel suffices; `tokCmp` is a total
preorder.  Definitions: Model/RpmLex.lean.
-/
namespace IV.Rpm

theorem tokensF_succ (f : Nat) (s : Str) :
    tokensF (f + 1) s =
      match cls (skipSep s) with
      | .eof => []
      | .tilde => .tilde :: tokensF f (skipSep s).tail
      | .caret => .caret :: tokensF f (skipSep s).tail
      | .dig => .num (stripZeros ((skipSep s).takeWhile isDigit)) ::
                  tokensF f ((skipSep s).drop ((skipSep s).takeWhile isDigit).length)
      | .alp => .alpha ((skipSep s).takeWhile isAlpha) ::
                  tokensF f ((skipSep s).drop ((skipSep s).takeWhile isAlpha).length) := by
  simp only [tokensF]
  cases cls (skipSep s) <;> rfl

/-- one iteration of the loop compares the head tokens and continues on the tails -/
theorem loop_eq_lex : ∀ (f : Nat) (a b : Str), loop f a b = lexCmpTok (tokensF f a) (tokensF f b) := by
  intro f
  induction f with
  | zero => intro a b; simp [loop, tokensF, lexCmpTok]
  | succ f ih =>
    intro a b
    rw [loop_succ, tokensF_succ, tokensF_succ]
    unfold step
    cases ha : cls (skipSep a) <;> cases hb : cls (skipSep b) <;>
      simp only [lexCmpTok, tokCmp, numCmp, rank, ih, segCmp] <;> simp

/-- any fuel above the length cuts the same tokens: the `fuel = 0` branch never truncates -/
theorem tokensF_fuel : ∀ (f g : Nat) (s : Str), s.length < f → s.length < g → tokensF f s = tokensF g s := by
  intro f
  induction f with
  | zero => intro g s h; omega
  | succ f ih =>
    intro g s hf hg
    cases g with
    | zero => omega
    | succ g =>
      rw [tokensF_succ, tokensF_succ]
      have hl := skipSep_length s
      have hn := skipSep_noSepHead s
      cases hc : cls (skipSep s) <;> simp only []
      · have := cls_ne_eof_length (a := skipSep s) (by rw [hc]; simp)
        rw [ih g _ (by simp only [List.length_tail]; omega) (by simp only [List.length_tail]; omega)]
      · have := cls_ne_eof_length (a := skipSep s) (by rw [hc]; simp)
        rw [ih g _ (by simp only [List.length_tail]; omega) (by simp only [List.length_tail]; omega)]
      · have h1 := (cls_dig hc).1
        have h2 := takeWhile_length_le isDigit (skipSep s)
        rw [ih g _ (by simp only [List.length_drop]; omega) (by simp only [List.length_drop]; omega)]
      · have h1 := cls_alp_takeWhile hn hc
        have h2 := takeWhile_length_le isAlpha (skipSep s)
        rw [ih g _ (by simp only [List.length_drop]; omega) (by simp only [List.length_drop]; omega)]

theorem tokens_eq (s : Str) (F : Nat) (h : s.length < F) : tokens s = tokensF F s :=
  tokensF_fuel _ _ _ (Nat.lt_succ_self _) h

/-! ### `tokCmp` is a total preorder -/

theorem numCmp_antisymm (l r : Str) : numCmp l r = - numCmp r l := by
  unfold numCmp
  split <;> split <;> first | omega | simp_all | skip
  all_goals first | omega | (rw [lexCmp_antisymm])

theorem numCmp_trans_le (a b c : Str) (h1 : numCmp a b ≤ 0) (h2 : numCmp b c ≤ 0) : numCmp a c ≤ 0 := by
  unfold numCmp at *
  by_cases hab : a.length > b.length
  · simp [hab] at h1
  · by_cases hba : b.length > a.length
    · by_cases hbc : b.length > c.length
      · simp [hbc] at h2
      · have : ¬ a.length > c.length := by omega
        have h3 : c.length > a.length := by omega
        simp [this, h3]
    · simp only [hab, hba, if_false] at h1
      by_cases hbc : b.length > c.length
      · simp [hbc] at h2
      · by_cases hcb : c.length > b.length
        · have : ¬ a.length > c.length := by omega
          have h3 : c.length > a.length := by omega
          simp [this, h3]
        · simp only [hbc, hcb, if_false] at h2
          have e1 : ¬ a.length > c.length := by omega
          have e2 : ¬ c.length > a.length := by omega
          simp only [e1, e2, if_false]
          exact lexCmp_trans_le _ _ _ h1 h2

theorem tokCmp_refl (x : Option Tok) : tokCmp x x = 0 := by
  rcases x with _ | x
  · simp [tokCmp]
  · cases x <;> simp [tokCmp, numCmp, lexCmp_refl]

theorem tokCmp_antisymm (x y : Option Tok) : tokCmp x y = - tokCmp y x := by
  rcases x with _ | x <;> rcases y with _ | y
  · simp [tokCmp]
  · cases y <;> simp [tokCmp, rank]
  · cases x <;> simp [tokCmp, rank]
  · cases x <;> cases y <;> simp [tokCmp, rank]
    · exact lexCmp_antisymm _ _
    · exact numCmp_antisymm _ _

theorem tokCmp_trans_le (x y z : Option Tok) (h1 : tokCmp x y ≤ 0) (h2 : tokCmp y z ≤ 0) :
    tokCmp x z ≤ 0 := by
  rcases x with _ | x <;> rcases y with _ | y <;> rcases z with _ | z
  all_goals (try cases x) <;> (try cases y) <;> (try cases z)
  all_goals simp [tokCmp, rank] at h1 h2 ⊢
  · exact lexCmp_trans_le _ _ _ h1 h2
  · exact numCmp_trans_le _ _ _ h1 h2

end IV.Rpm
