import IV.Model.Specs
import IV.Lemmas.Toposort
import IV.Lemmas.DrOrder
/-! Registration lemmas for IV.Specs (C05): what the folds of `register` compute. -/
namespace IV.Specs
open IV.Dr

theorem foldl_inv {α β : Type} (f : β → α → β) (P : β → Prop) (hf : ∀ b a, P b → P (f b a)) :
    ∀ (l : List α) (b : β), P b → P (l.foldl f b) := by
  intro l
  induction l with
  | nil => intro b hb; exact hb
  | cons a l ih => intro b hb; exact ih _ (hf b a hb)

/-! ### the context loop -/

theorem foldCtx_deps (n : Name) (v : Comp) (cs : List Comp) (r : Reg) :
    (cs.foldl (addHandler n v) r).deps = r.deps := by
  induction cs generalizing r with
  | nil => rfl
  | cons c cs ih => rw [List.foldl_cons, ih]; rfl

theorem foldCtx_handlers (n : Name) (v : Comp) (cs : List Comp) (hnd : cs.Nodup) (r : Reg) (m : Name) (d : Comp) :
    (cs.foldl (addHandler n v) r).handlers m d =
      if m = n ∧ d ∈ cs then r.handlers m d ++ [v] else r.handlers m d := by
  induction cs generalizing r with
  | nil => simp
  | cons c cs ih =>
    have hc : c ∉ cs := (List.nodup_cons.mp hnd).1
    rw [List.foldl_cons, ih (List.nodup_cons.mp hnd).2]
    by_cases hm : m = n
    · subst hm
      by_cases hdc : d = c
      · subst hdc
        simp [addHandler, hc]
      · by_cases hd : d ∈ cs
        · simp [addHandler, hd, hdc]
        · simp [addHandler, hd, hdc]
    · simp [addHandler, hm]

/-! ### one entry, one class, the whole history -/

theorem regEntry_false (root : Root) (r : Reg) (e : Entry) : regEntry root false r e = r := by
  simp [regEntry]

theorem foldl_regEntry_false (root : Root) (es : List Entry) (r : Reg) :
    es.foldl (regEntry root false) r = r := by
  induction es generalizing r with
  | nil => rfl
  | cons e es ih => rw [List.foldl_cons, regEntry_false, ih]

theorem regClass_eq (root : Root) (r : Reg) (cd : ClassDef) :
    regClass root r cd = (if cd.direct then cd.entries else []).foldl (regEntry root true) r := by
  unfold regClass
  cases hd : cd.direct with
  | true => simp
  | false => simp [foldl_regEntry_false]

theorem foldl_regClass_flat (root : Root) (h : History) (r : Reg) :
    h.foldl (regClass root) r = (flat h).foldl (regEntry root true) r := by
  induction h generalizing r with
  | nil => rfl
  | cons cd h ih =>
    rw [List.foldl_cons, ih, regClass_eq]
    simp [flat, List.foldl_append]

/-- registration only sees the datasource attributes of the DIRECT subclasses, in order -/
theorem register_flat (root : Root) (h : History) :
    register root h = (flat h).foldl (regEntry root true) Reg.empty :=
  foldl_regClass_flat root h Reg.empty

theorem regEntry_handlers (root : Root) (r : Reg) (e : Entry) (m : Name) (d : Comp) :
    (regEntry root true r e).handlers m d =
      if (root.registry e.name).isSome ∧ m = e.name ∧ d ∈ e.ctxs then r.handlers m d ++ [e.impl]
      else r.handlers m d := by
  unfold regEntry
  cases hr : root.registry e.name with
  | none => simp
  | some p =>
    simp only [if_true]
    rw [foldCtx_handlers _ _ _ (dedup_nodup _)]
    simp [dedup_mem]

theorem regEntry_deps (root : Root) (r : Reg) (e : Entry) (m : Name) :
    (regEntry root true r e).deps m =
      if (root.registry e.name).isSome ∧ m = e.name then r.deps m ++ [e.impl] else r.deps m := by
  unfold regEntry
  cases hr : root.registry e.name with
  | none => simp
  | some p =>
    simp only [if_true]
    rw [foldCtx_deps]
    simp

theorem fold_handlers (root : Root) (es : List Entry) (r : Reg) (m : Name) (d : Comp) :
    (es.foldl (regEntry root true) r).handlers m d =
      r.handlers m d ++ ((es.filter (fun e => (root.registry e.name).isSome && (e.name == m && e.ctxs.contains d))).map (·.impl)) := by
  induction es generalizing r with
  | nil => simp
  | cons e es ih =>
    rw [List.foldl_cons, ih, regEntry_handlers]
    by_cases hc : (root.registry e.name).isSome ∧ e.name = m ∧ d ∈ e.ctxs
    · obtain ⟨h1, h2, h3⟩ := hc
      subst h2
      simp [h1, h3]
    · have hc' : ¬((root.registry e.name).isSome ∧ m = e.name ∧ d ∈ e.ctxs) := fun hh => hc ⟨hh.1, hh.2.1.symm, hh.2.2⟩
      simp [hc, hc']

theorem fold_deps (root : Root) (es : List Entry) (r : Reg) (m : Name) :
    (es.foldl (regEntry root true) r).deps m =
      r.deps m ++ ((es.filter (fun e => (root.registry e.name).isSome && e.name == m)).map (·.impl)) := by
  induction es generalizing r with
  | nil => simp
  | cons e es ih =>
    rw [List.foldl_cons, ih, regEntry_deps]
    by_cases hc : (root.registry e.name).isSome ∧ e.name = m
    · obtain ⟨h1, h2⟩ := hc
      subst h2
      simp [h1]
    · have hc' : ¬((root.registry e.name).isSome ∧ m = e.name) := fun hh => hc ⟨hh.1, hh.2.symm⟩
      simp [hc, hc']

/-- the handler list of `(n, c)` is `L`: the implementations of `n` declared for `c`, in order -/
theorem handlers_eq (root : Root) (h : History) (n : Name) (c : Comp) (hreg : (root.registry n).isSome = true) :
    (register root h).handlers n c = implsFor h n c := by
  rw [register_flat, fold_handlers]
  simp only [Reg.empty, List.nil_append, implsFor]
  congr 1
  apply List.filter_congr
  intro e _
  by_cases hn : e.name = n
  · simp [hn, hreg]
  · simp [hn]

/-- the dependency list of the point `n` is every implementation declared under `n`, in order -/
theorem deps_eq (root : Root) (h : History) (n : Name) (hreg : (root.registry n).isSome = true) :
    (register root h).deps n = implsOf h n := by
  rw [register_flat, fold_deps]
  simp only [Reg.empty, List.nil_append, implsOf]
  congr 1
  apply List.filter_congr
  intro e _
  by_cases hn : e.name = n
  · simp [hn, hreg]
  · simp [hn]

/-- a name the root does not declare as a registry point gets nothing -/
theorem unregistered_name (root : Root) (h : History) (n : Name) (hreg : root.registry n = none) :
    (register root h).deps n = [] ∧ ∀ c, (register root h).handlers n c = [] := by
  have key : ∀ e : Entry, ((root.registry e.name).isSome && e.name == n) = false := by
    intro e
    rw [Bool.eq_false_iff]
    intro hh
    simp only [Bool.and_eq_true, beq_iff_eq] at hh
    rw [hh.2, hreg] at hh
    simp at hh
  constructor
  · rw [register_flat, fold_deps]
    simp [Reg.empty, key]
  · intro c
    rw [register_flat, fold_handlers]
    have : ∀ e : Entry, ((root.registry e.name).isSome && (e.name == n && e.ctxs.contains c)) = false := by
      intro e
      have := key e
      rw [← Bool.and_assoc, this]; rfl
    have hf : (flat h).filter (fun e => (root.registry e.name).isSome && (e.name == n && e.ctxs.contains c)) = [] :=
      List.filter_eq_nil_iff.mpr (fun e _ => by rw [this e]; simp)
    rw [hf]
    simp [Reg.empty]

/-! ### the IGNORE table: two invariants of `addHandler` -/

/-- every handler but the last of each (name, context) has been told to ignore the context -/
def InvA (r : Reg) : Prop := ∀ n c v, v ∈ (r.handlers n c).dropLast → c ∈ r.ignore v
/-- …and nobody else has -/
def InvB (r : Reg) : Prop := ∀ v c, c ∈ r.ignore v → ∃ n, v ∈ (r.handlers n c).dropLast

theorem addHandler_InvA (n0 : Name) (v0 : Comp) (r : Reg) (c0 : Comp) (hr : InvA r) : InvA (addHandler n0 v0 r c0) := by
  intro n c v hv
  simp only [addHandler] at hv ⊢
  by_cases hk : n = n0 ∧ c = c0
  · obtain ⟨rfl, rfl⟩ := hk
    simp only [and_self, if_true, List.dropLast_concat] at hv
    simp [hv]
  · simp only [hk, if_false] at hv
    have := hr n c v hv
    split <;> simp [this]

theorem addHandler_InvB (n0 : Name) (v0 : Comp) (r : Reg) (c0 : Comp) (hr : InvB r) : InvB (addHandler n0 v0 r c0) := by
  intro v c hc
  simp only [addHandler] at hc ⊢
  have old : c ∈ r.ignore v → ∃ n, v ∈ (if n = n0 ∧ c = c0 then r.handlers n0 c0 ++ [v0] else r.handlers n c).dropLast := by
    intro h
    obtain ⟨n, hn⟩ := hr v c h
    refine ⟨n, ?_⟩
    by_cases hk : n = n0 ∧ c = c0
    · obtain ⟨rfl, rfl⟩ := hk
      simp only [and_self, if_true, List.dropLast_concat]
      exact List.dropLast_subset _ hn
    · simp only [hk, if_false]; exact hn
  by_cases ho : (r.handlers n0 c0).contains v = true
  · simp only [ho, if_true, List.mem_append, List.mem_singleton] at hc
    rcases hc with h | h
    · exact old h
    · subst h
      refine ⟨n0, ?_⟩
      simp only [and_self, if_true, List.dropLast_concat]
      simpa using ho
  · simp only [ho] at hc
    exact old hc

theorem register_inv (P : Reg → Prop) (h0 : P Reg.empty)
    (hd : ∀ (r : Reg) (f : Name → List Comp), P r → P { r with deps := f })
    (ha : ∀ n v r c, P r → P (addHandler n v r c)) (root : Root) (h : History) : P (register root h) := by
  rw [register_flat]
  apply foldl_inv _ P _ _ _ h0
  intro r e hr
  unfold regEntry
  simp only [if_true]
  split
  · exact hr
  · exact foldl_inv _ P (fun b a hb => ha _ _ b a hb) _ _ (hd _ _ hr)

theorem register_InvA (root : Root) (h : History) : InvA (register root h) :=
  register_inv InvA (by intro n c v hv; simp [Reg.empty] at hv) (fun _ _ hr => hr) addHandler_InvA root h

theorem register_InvB (root : Root) (h : History) : InvB (register root h) :=
  register_inv InvB (by intro v c hc; simp [Reg.empty] at hc) (fun _ _ hr => hr) addHandler_InvB root h

/-! ### list facts -/

theorem mem_dropLast_of_ne_getLast {α : Type} [DecidableEq α] (l : List α) (x : α) (hx : x ∈ l)
    (hne : l.getLast? ≠ some x) : x ∈ l.dropLast := by
  induction l with
  | nil => simp at hx
  | cons a l ih =>
    cases l with
    | nil =>
      simp at hx hne
      exact absurd hx.symm hne
    | cons b l =>
      simp only [List.dropLast_cons_cons, List.mem_cons]
      rcases List.mem_cons.mp hx with h | h
      · left; exact h
      · right
        apply ih h
        simpa [List.getLast?_cons_cons] using hne

theorem lastPresent_none (args : List (Option Val)) (h : ∀ a ∈ args, a = none) : lastPresent args = none := by
  induction args with
  | nil => rfl
  | cons a t ih =>
    simp only [lastPresent, ih (fun x hx => h x (by simp [hx]))]
    exact h a (by simp)

/-- if every dependency other than `x` is absent, the point returns `x`'s entry (when `x` is a dependency) -/
theorem lastPresent_single (ds : List Comp) (i : Inst) (x : Comp) (hx : x ∈ ds)
    (hothers : ∀ v ∈ ds, v ≠ x → i v = none) : lastPresent (ds.map i) = i x := by
  induction ds with
  | nil => simp at hx
  | cons a t ih =>
    simp only [List.map_cons, lastPresent]
    by_cases hxt : x ∈ t
    · rw [ih hxt (fun v hv => hothers v (by simp [hv]))]
      cases hix : i x with
      | some v => rfl
      | none =>
        simp only []
        by_cases hax : a = x
        · rw [hax, hix]
        · exact hothers a (by simp) hax
    · have hax : a = x := by
        rcases List.mem_cons.mp hx with h | h
        · exact h.symm
        · exact absurd h hxt
      have : lastPresent (t.map i) = none := by
        apply lastPresent_none
        intro y hy
        obtain ⟨v, hv, rfl⟩ := List.mem_map.mp hy
        exact hothers v (by simp [hv]) (fun e => hxt (e ▸ hv))
      rw [this, hax]


theorem lastPresent_mem (args : List (Option Val)) (v : Val) (h : lastPresent args = some v) : some v ∈ args := by
  induction args with
  | nil => simp [lastPresent] at h
  | cons a t ih =>
    simp only [lastPresent] at h
    cases ht : lastPresent t with
    | some u =>
      simp only [ht, Option.some.injEq] at h
      subst h
      simp [ih ht]
    | none => simp only [ht] at h; simp [h]

theorem inj_of_nodup_map {α β : Type} (f : α → β) (l : List α) (h : (l.map f).Nodup) :
    ∀ a ∈ l, ∀ b ∈ l, f a = f b → a = b := by
  induction l with
  | nil => intro a ha; simp at ha
  | cons x l ih =>
    rw [List.map_cons, List.nodup_cons] at h
    intro a ha b hb hab
    rcases List.mem_cons.mp ha with rfl | ha' <;> rcases List.mem_cons.mp hb with rfl | hb'
    · rfl
    · exact absurd (List.mem_map.mpr ⟨b, hb', hab.symm⟩) h.1
    · exact absurd (List.mem_map.mpr ⟨a, ha', hab⟩) h.1
    · exact ih h.2 a ha' b hb' hab

theorem getLast_not_mem_dropLast {α : Type} (l : List α) (x : α) (hn : l.Nodup) (hl : l.getLast? = some x) :
    x ∉ l.dropLast := by
  obtain ⟨ys, rfl⟩ := List.getLast?_eq_some_iff.mp hl
  rw [List.dropLast_concat]
  intro hm
  exact (List.nodup_append.mp hn).2.2 x hm x (by simp) rfl

/-! ### evaluation: facts about a run of the engine model -/

variable (w : World) (inG : Comp → Bool) (ss : Bool)

/-- the value of a component that was not supplied up front is what its own step recorded -/
theorem inst_eq_record (seed : Inst) (o : List Comp) (hv : Valid w inG seed o) (v : Comp) (hs : seed v = none) :
    let b := runComponents w inG ss o (Broker.seeded seed)
    b.inst v = none ∨ (v ∈ evald inG o ∧ b.inst v = (record w inG ss v b.inst).val) := by
  intro b
  by_cases hm : v ∈ evald inG o
  · right
    refine ⟨hm, ?_⟩
    have := (run_view w inG ss seed o hv v hm).1
    simpa [entry, present, hs] using this
  · left
    rw [(run_view_out w inG ss seed o v hm).1, hs]

/-- something that is not a registered component and was not supplied stays absent -/
theorem undeclared_absent (seed : Inst) (o : List Comp) (hv : Valid w inG seed o) (x : Comp)
    (hd : w.decl x = none) (hs : seed x = none) :
    (runComponents w inG ss o (Broker.seeded seed)).inst x = none := by
  rcases inst_eq_record w inG ss seed o hv x hs with h | ⟨_, h⟩
  · exact h
  · rw [h]; simp [record, eligible, hd]

/-- no value is stored when an ignored key is present or (for anything but a rule) requirements are missing -/
theorem record_val_none (v : Comp) (d : Decl) (hd : w.decl v = some d) (i : Inst)
    (h : (w.ignore v).any (present i) = true ∨ (d.kind ≠ .rule ∧ (missingDeps d i).isSome = true)) :
    (record w inG ss v i).val = none := by
  unfold record
  split
  · simp only [hd]
    by_cases hi : (w.ignore v).any (present i) = true
    · simp [process, hi]
    · rcases h with h | ⟨hk, hm⟩
      · exact absurd h hi
      · cases hmm : missingDeps d i with
        | none => simp [hmm] at hm
        | some m =>
          simp only [process, hi, hmm]
          cases hkk : d.kind <;> simp_all
  · rfl

theorem seeded_stays (seed : Inst) (o : List Comp) (c : Comp) (hc : present seed c = true) :
    present (runComponents w inG ss o (Broker.seeded seed)).inst c = true := by
  have := run_inst_present w inG ss o (Broker.seeded seed) c (by simpa [Broker.seeded] using hc)
  simp only [present] at *
  rw [this]; simpa [Broker.seeded] using hc


theorem missing_of_req (d : Decl) (i : Inst) (r : Comp) (hr : r ∈ d.requires) (hi : i r = none) :
    (missingDeps d i).isSome = true := by
  unfold missingDeps
  have : r ∈ d.requires.filter (fun r => !present i r) := List.mem_filter.mpr ⟨hr, by simp [present, hi]⟩
  cases hmr : d.requires.filter (fun r => !present i r) with
  | nil => rw [hmr] at this; simp at this
  | cons a t => simp

theorem missing_of_grp (d : Decl) (i : Inst) (g : List Comp) (hg : g ∈ d.atLeastOne) (hi : ∀ m ∈ g, i m = none) :
    (missingDeps d i).isSome = true := by
  unfold missingDeps
  have : g ∈ d.atLeastOne.filter (fun g => g.all (fun m => !present i m)) :=
    List.mem_filter.mpr ⟨hg, by simp only [List.all_eq_true]; intro m hm; simp [present, hi m hm]⟩
  cases hma : d.atLeastOne.filter (fun g => g.all (fun m => !present i m)) with
  | nil => rw [hma] at this; simp at this
  | cons a t => simp

/-- "`v` is bound to the contexts `cs`": every way of meeting `v`'s requirements goes through a key of
`cs` that is not a registered component (an execution context) — directly (a required dependency, or
an at-least-one group made of such keys) or through other components that are bound in the same way -/
inductive Requires (w : World) (cs : List Comp) : Comp → Prop
  | ctx (x : Comp) : x ∈ cs → w.decl x = none → Requires w cs x
  | req (v : Comp) (d : Decl) (r : Comp) : w.decl v = some d → d.kind ≠ .rule → r ∈ d.requires →
      Requires w cs r → Requires w cs v
  | grp (v : Comp) (d : Decl) (g : List Comp) : w.decl v = some d → d.kind ≠ .rule → g ∈ d.atLeastOne →
      (∀ m ∈ g, Requires w cs m) → Requires w cs v

/-- when none of the contexts it is bound to was supplied, a component ends up absent, and because
its requirements are reported missing (only execution contexts are supplied up front) -/
theorem requires_absent (seed : Inst) (o : List Comp) (hv : Valid w inG seed o) (cs : List Comp)
    (hcs : ∀ x ∈ cs, seed x = none) (hdecl : ∀ x, (w.decl x).isSome = true → seed x = none)
    (v : Comp) (hr : Requires w cs v) :
    (runComponents w inG ss o (Broker.seeded seed)).inst v = none ∧
    ∀ d, w.decl v = some d → (missingDeps d (runComponents w inG ss o (Broker.seeded seed)).inst).isSome = true := by
  induction hr with
  | ctx x hx hd =>
    exact ⟨undeclared_absent w inG ss seed o hv x hd (hcs x hx), by intro d h; rw [hd] at h; cases h⟩
  | req v d r hd hk hr _ ih =>
    have hm := missing_of_req d _ r hr ih.1
    refine ⟨?_, by intro d' h; rw [hd] at h; cases h; exact hm⟩
    rcases inst_eq_record w inG ss seed o hv v (hdecl v (by simp [hd])) with h | ⟨_, h⟩
    · exact h
    · rw [h]; exact record_val_none w inG ss v d hd _ (Or.inr ⟨hk, hm⟩)
  | grp v d g hd hk hg _ ih =>
    have hm := missing_of_grp d _ g hg (fun m hmg => (ih m hmg).1)
    refine ⟨?_, by intro d' h; rw [hd] at h; cases h; exact hm⟩
    rcases inst_eq_record w inG ss seed o hv v (hdecl v (by simp [hd])) with h | ⟨_, h⟩
    · exact h
    · rw [h]; exact record_val_none w inG ss v d hd _ (Or.inr ⟨hk, hm⟩)

/-- what the step of a registry point records: the entry of the LAST dependency that is present -/
theorem point_record (root : Root) (env : World) (R : Reg) (p : Comp) (n : Name) (hname : root.nameOf p = some n)
    (i : Inst) (hin : inG p = true) (hen : env.enabled p = true) (hign : ∀ x ∈ R.ignore p, present i x = false) :
    (record (world root env R) inG ss p i).val = lastPresent ((R.deps n).map i) := by
  have hd : (world root env R).decl p = some (pointDecl (R.deps n)) := by simp [world, hname]
  have hb : ∀ args, (world root env R).body p args = pointBody args := by intro args; simp [world, hname]
  have hel : eligible (world root env R) inG p = true := by simp [eligible, hin, hd]; simp [world, hen]
  have hig : ((world root env R).ignore p).any (present i) = false := by
    simp only [world, List.any_eq_false]; intro x hx; simp [hign x hx]
  unfold record
  rw [if_pos hel]
  simp only [hd]
  unfold process
  simp only [hig]
  by_cases hall : (R.deps n).all (fun m => !present i m) = true
  · have hm : missingDeps (pointDecl (R.deps n)) i = some ⟨[], [R.deps n]⟩ := by
      simp [missingDeps, pointDecl, Decl.requires, Decl.atLeastOne, hall]
    have hl : lastPresent ((R.deps n).map i) = none := by
      apply lastPresent_none
      intro a ha
      obtain ⟨v, hv, rfl⟩ := List.mem_map.mp ha
      have := List.all_eq_true.mp hall v hv
      simpa [present] using this
    simp only [hm]
    simp [pointDecl, hl]
  · have hm : missingDeps (pointDecl (R.deps n)) i = none := by
      simp [missingDeps, pointDecl, Decl.requires, Decl.atLeastOne, hall]
    have hdeps : (pointDecl (R.deps n)).deps = R.deps n := by simp [Decl.deps, pointDecl]
    simp only [hm]
    unfold invoke
    simp only [hdeps, hb]
    simp only [pointDecl, pointBody]
    cases lastPresent ((R.deps n).map i) <;> simp


/-! ### hierarchies (registry points re-declared in intermediate classes) -/

/-- every handler but the last of each (top class, name, context) table has been told to ignore the context -/
def HInvA (r : HReg) : Prop := ∀ t n c v, v ∈ (r.handlers t n c).dropLast → c ∈ r.ignore v
/-- …and nobody else has -/
def HInvB (r : HReg) : Prop := ∀ v c, c ∈ r.ignore v → ∃ t n, v ∈ (r.handlers t n c).dropLast

theorem hAddHandler_InvA (t0 : ClassId) (n0 : Name) (v0 : Comp) (r : HReg) (c0 : Comp) (hr : HInvA r) :
    HInvA (hAddHandler t0 n0 v0 r c0) := by
  intro t n c v hv
  simp only [hAddHandler] at hv ⊢
  by_cases hk : t = t0 ∧ n = n0 ∧ c = c0
  · obtain ⟨rfl, rfl, rfl⟩ := hk
    simp only [and_self, if_true, List.dropLast_concat] at hv
    simp [hv]
  · simp only [hk, if_false] at hv
    have := hr t n c v hv
    split <;> simp [this]

theorem hAddHandler_InvB (t0 : ClassId) (n0 : Name) (v0 : Comp) (r : HReg) (c0 : Comp) (hr : HInvB r) :
    HInvB (hAddHandler t0 n0 v0 r c0) := by
  intro v c hc
  simp only [hAddHandler] at hc ⊢
  have old : c ∈ r.ignore v → ∃ t n, v ∈ (if t = t0 ∧ n = n0 ∧ c = c0 then r.handlers t0 n0 c0 ++ [v0] else r.handlers t n c).dropLast := by
    intro h
    obtain ⟨t, n, hn⟩ := hr v c h
    refine ⟨t, n, ?_⟩
    by_cases hk : t = t0 ∧ n = n0 ∧ c = c0
    · obtain ⟨rfl, rfl, rfl⟩ := hk
      simp only [and_self, if_true, List.dropLast_concat]
      exact List.dropLast_subset _ hn
    · simp only [hk, if_false]; exact hn
  by_cases ho : (r.handlers t0 n0 c0).contains v = true
  · simp only [ho, if_true, List.mem_append, List.mem_singleton] at hc
    rcases hc with h | h
    · exact old h
    · subst h
      refine ⟨t0, n0, ?_⟩
      simp only [and_self, if_true, List.dropLast_concat]
      simpa using ho
  · simp only [ho] at hc
    exact old hc

/-- an invariant of the handler tables and the ignore table that `hAddHandler` preserves holds after any history -/
theorem hregister_inv (P : HReg → Prop) (h0 : P HReg.empty)
    (hframe : ∀ r r' : HReg, r'.handlers = r.handlers → r'.ignore = r.ignore → P r → P r')
    (ha : ∀ t n v r c, P r → P (hAddHandler t n v r c)) (h : HHistory) : P (hRegister h) := by
  have hatt : ∀ ps n v ctxs r, P r → P (hAttach ps n v ctxs r) := by
    intro ps n v ctxs r hr
    have h1 : ∀ f : Comp → List Comp, P { r with deps := f } := fun f => hframe r _ rfl rfl hr
    unfold hAttach
    split
    · exact hr
    · split
      · exact hr
      · simp only []
        split
        · exact h1 _
        · exact foldl_inv _ P (fun b a hb => ha _ _ _ b a hb) _ _ (h1 _)
  apply foldl_inv _ P _ _ _ h0
  intro r cd hr
  have hfold : P (cd.entries.foldl (hRegEntry r.nclasses cd.parents) r) := by
    apply foldl_inv _ P _ _ _ hr
    intro r1 e hr1
    unfold hRegEntry
    split
    · exact hatt _ _ _ _ _ (hframe r1 _ rfl rfl hr1)
    · split
      · exact hatt _ _ _ _ _ hr1
      · exact hr1
  exact hframe (cd.entries.foldl (hRegEntry r.nclasses cd.parents) r) (hRegClass r cd) rfl rfl hfold

theorem hregister_InvA (h : HHistory) : HInvA (hRegister h) :=
  hregister_inv HInvA (by intro t n c v hv; simp [HReg.empty] at hv)
    (by intro r r' hh hi hr t n c v hv; rw [hi]; rw [hh] at hv; exact hr t n c v hv) hAddHandler_InvA h

theorem hregister_InvB (h : HHistory) : HInvB (hRegister h) :=
  hregister_inv HInvB (by intro v c hc; simp [HReg.empty] at hc)
    (by intro r r' hh hi hr v c hc; rw [hi] at hc; rw [hh]; exact hr v c hc) hAddHandler_InvB h

/-- where a registration lands: in a chain `pre ++ t :: rest` whose classes down to `t` all declare the name
and whose next class (if any) does not, the handler table used is the one of `t` -/
theorem handlerRoot_eq (r : HReg) (n : Name) (pre rest : List ClassId) (t : ClassId)
    (hpre : ∀ x ∈ pre, (r.registry x n).isSome = true) (ht : (r.registry t n).isSome = true)
    (hrest : ∀ y, rest.head? = some y → (r.registry y n).isSome = false) :
    handlerRoot r (pre ++ t :: rest) n = some t := by
  unfold handlerRoot
  have h1 : (pre ++ t :: rest).takeWhile (fun x => (r.registry x n).isSome) = pre ++ [t] := by
    induction pre with
    | nil =>
      simp only [List.nil_append, List.takeWhile_cons, ht, if_true]
      cases rest with
      | nil => rfl
      | cons y ys => simp [List.takeWhile_cons, hrest y rfl]
    | cons a pre ih =>
      simp only [List.cons_append, List.takeWhile_cons, hpre a (by simp), if_true]
      rw [ih (fun x hx => hpre x (by simp [hx]))]
  rw [h1]; simp

theorem lastPresent_eq_none (args : List (Option Val)) (h : lastPresent args = none) : ∀ a ∈ args, a = none := by
  induction args with
  | nil => intro a ha; simp at ha
  | cons a t ih =>
    simp only [lastPresent] at h
    cases ht : lastPresent t with
    | some u => simp [ht] at h
    | none =>
      simp only [ht] at h
      intro b hb
      rcases List.mem_cons.mp hb with rfl | hb
      · exact h
      · exact ih ht b hb

/-- when every present entry is `x`, the point returns nothing or `x` -/
theorem lastPresent_all_eq (args : List (Option Val)) (x : Option Val) (h : ∀ a ∈ args, a = none ∨ a = x) :
    lastPresent args = none ∨ lastPresent args = x := by
  cases hl : lastPresent args with
  | none => exact Or.inl rfl
  | some v =>
    rcases h _ (lastPresent_mem args v hl) with h1 | h1
    · cases h1
    · exact Or.inr h1

/-- …and exactly `x` when `x` is among the entries -/
theorem lastPresent_all_eq_mem (args : List (Option Val)) (x : Option Val) (h : ∀ a ∈ args, a = none ∨ a = x)
    (hx : x ∈ args) : lastPresent args = x := by
  rcases lastPresent_all_eq args x h with h1 | h1
  · rw [h1]; exact (lastPresent_eq_none args h1 x hx).symm
  · exact h1

/-- what the step of a registry point (at any level of a hierarchy) records -/
theorem hpoint_record (env : World) (R : HReg) (p : Comp) (hp : R.isPoint p = true)
    (i : Inst) (hin : inG p = true) (hen : env.enabled p = true) (hign : ∀ x ∈ R.ignore p, present i x = false) :
    (record (hWorld env R) inG ss p i).val = lastPresent ((R.deps p).map i) := by
  have hd : (hWorld env R).decl p = some (pointDecl (R.deps p)) := by simp [hWorld, hp]
  have hb : ∀ args, (hWorld env R).body p args = pointBody args := by intro args; simp [hWorld, hp]
  have hel : eligible (hWorld env R) inG p = true := by simp [eligible, hin, hd]; simp [hWorld, hen]
  have hig : ((hWorld env R).ignore p).any (present i) = false := by
    simp only [hWorld, List.any_eq_false]; intro x hx; simp [hign x hx]
  unfold record
  rw [if_pos hel]
  simp only [hd]
  unfold process
  simp only [hig]
  by_cases hall : (R.deps p).all (fun m => !present i m) = true
  · have hm : missingDeps (pointDecl (R.deps p)) i = some ⟨[], [R.deps p]⟩ := by
      simp [missingDeps, pointDecl, Decl.requires, Decl.atLeastOne, hall]
    have hl : lastPresent ((R.deps p).map i) = none := by
      apply lastPresent_none
      intro a ha
      obtain ⟨v, hv, rfl⟩ := List.mem_map.mp ha
      have := List.all_eq_true.mp hall v hv
      simpa [present] using this
    simp only [hm]
    simp [pointDecl, hl]
  · have hm : missingDeps (pointDecl (R.deps p)) i = none := by
      simp [missingDeps, pointDecl, Decl.requires, Decl.atLeastOne, hall]
    have hdeps : (pointDecl (R.deps p)).deps = R.deps p := by simp [Decl.deps, pointDecl]
    simp only [hm]
    unfold invoke
    simp only [hdeps, hb]
    simp only [pointDecl, pointBody]
    cases lastPresent ((R.deps p).map i) <;> simp

/-- `v` is reached from the registry point `p` through dependency lists, passing through registry points only -/
inductive Path (R : HReg) : Comp → Comp → Prop
  | direct (p v : Comp) : R.isPoint p = true → v ∈ R.deps p → Path R p v
  | step (p q v : Comp) : R.isPoint p = true → q ∈ R.deps p → Path R q v → Path R p v


theorem hfoldCtx_deps (t : ClassId) (n : Name) (v : Comp) (cs : List Comp) (r : HReg) :
    (cs.foldl (hAddHandler t n v) r).deps = r.deps ∧ (cs.foldl (hAddHandler t n v) r).registry = r.registry ∧
    (cs.foldl (hAddHandler t n v) r).isPoint = r.isPoint := by
  induction cs generalizing r with
  | nil => exact ⟨rfl, rfl, rfl⟩
  | cons c cs ih => rw [List.foldl_cons]; obtain ⟨a, b, d⟩ := ih (hAddHandler t n v r c); exact ⟨a, b, d⟩

theorem hfoldCtx_handlers (t : ClassId) (n : Name) (v : Comp) (cs : List Comp) (hnd : cs.Nodup) (r : HReg)
    (k : ClassId) (m : Name) (d : Comp) :
    (cs.foldl (hAddHandler t n v) r).handlers k m d =
      if k = t ∧ m = n ∧ d ∈ cs then r.handlers k m d ++ [v] else r.handlers k m d := by
  induction cs generalizing r with
  | nil => simp
  | cons c cs ih =>
    have hc : c ∉ cs := (List.nodup_cons.mp hnd).1
    rw [List.foldl_cons, ih (List.nodup_cons.mp hnd).2]
    by_cases hk : k = t ∧ m = n
    · obtain ⟨rfl, rfl⟩ := hk
      by_cases hdc : d = c
      · subst hdc
        simp [hAddHandler, hc]
      · by_cases hd : d ∈ cs
        · simp [hAddHandler, hd, hdc]
        · simp [hAddHandler, hd, hdc]
    · have hk' : ¬(k = t ∧ m = n ∧ d ∈ cs) := fun hh => hk ⟨hh.1, hh.2.1⟩
      have hk'' : ¬(k = t ∧ m = n ∧ d ∈ c :: cs) := fun hh => hk ⟨hh.1, hh.2.1⟩
      have hk3 : ¬(k = t ∧ m = n ∧ d = c) := fun hh => hk ⟨hh.1, hh.2.1⟩
      simp only [hk', hk'', if_false]
      simp [hAddHandler, hk3]


theorem mem_dropLast_of_split {α : Type} (pre post : List α) (v : α) (hpost : post ≠ []) :
    v ∈ (pre ++ v :: post).dropLast := by
  induction pre with
  | nil =>
    cases post with
    | nil => exact absurd rfl hpost
    | cons y ys => simp [List.dropLast_cons_cons]
  | cons a pre ih =>
    cases hq : pre ++ v :: post with
    | nil => simp at hq
    | cons b l =>
      rw [List.cons_append, hq, List.dropLast_cons_cons, ← hq]
      exact List.mem_cons_of_mem _ ih

theorem hAddHandler_ignore_mono (t : ClassId) (n : Name) (v : Comp) (r : HReg) (c x u : Comp)
    (h : x ∈ r.ignore u) : x ∈ (hAddHandler t n v r c).ignore u := by
  simp only [hAddHandler]
  split <;> simp [h]

theorem hfoldCtx_ignore_mono (t : ClassId) (n : Name) (v : Comp) (cs : List Comp) (r : HReg) (x u : Comp)
    (h : x ∈ r.ignore u) : x ∈ (cs.foldl (hAddHandler t n v) r).ignore u := by
  induction cs generalizing r with
  | nil => exact h
  | cons c cs ih => rw [List.foldl_cons]; exact ih _ (hAddHandler_ignore_mono t n v r c x u h)

/-- the context loop tells EVERY handler present in the table of each of the new contexts to ignore it -/
theorem hfoldCtx_ignore (t : ClassId) (n : Name) (v : Comp) (cs : List Comp) (hnd : cs.Nodup) (r : HReg) (c u : Comp)
    (hc : c ∈ cs) (hu : u ∈ r.handlers t n c) : c ∈ (cs.foldl (hAddHandler t n v) r).ignore u := by
  induction cs generalizing r with
  | nil => simp at hc
  | cons c0 cs ih =>
    rw [List.foldl_cons]
    by_cases hcc : c = c0
    · subst hcc
      apply hfoldCtx_ignore_mono
      simp [hAddHandler, hu]
    · have hcs : c ∈ cs := by
        rcases List.mem_cons.mp hc with h | h
        · exact absurd h hcc
        · exact h
      apply ih (List.nodup_cons.mp hnd).2 _ hcs
      simp [hAddHandler, hcc, hu]

end IV.Specs
